(* Lemmas about the publish-subscribe port model (model/Port.v).
   Part 1: histories, reachability, concrete witnesses (kernel-evaluated).
   Part 2: what the conservation invariant (inv_check) implies at the allocation micro-step:
           never OutOfMemory inside the limits (counting), no chunk handed out that a sample of a
           registered subscriber points to; rejection beyond a limit is clean.
   The statement that EVERY reachable state satisfies inv_check is props/C02.v
   c02_conservation_full (not proved at world level; evaluated on every state of every history of
   the tie, and proved connection-locally in proofs/ConnProofs.v). *)
From V Require Import model.Base model.Conn model.Port proofs.ListLemmas proofs.ConnProofs.
From Coq Require Import Lia.
Local Open Scope nat_scope.

(* ---------------------------------------------------------------------------------------- *)
(* histories                                                                                 *)
(* ---------------------------------------------------------------------------------------- *)
Fixpoint run (w : world) (h : list op) : res (world * list obs) :=
  match h with
  | [] => Val (w, [])
  | o :: t =>
    match step w o with
    | Panic => Panic
    | Val (w1, ob) =>
      match run w1 t with
      | Panic => Panic
      | Val (w2, obs) => Val (w2, ob :: obs)
      end
    end
  end.

Definition reachable (c : config) (w : world) : Prop := exists h obs, run (world_new c) h = Val (w, obs).

(* ---------------------------------------------------------------------------------------- *)
(* witnesses                                                                                 *)
(* ---------------------------------------------------------------------------------------- *)
Definition cfg11 : config := {| cf_S := 1; cf_P := 1; cf_B := 1; cf_M := 1; cf_H := 0; cf_ovf := false; cf_E := 2 |}.

(* F2: a Sample that outlives its Subscriber *)
Definition f2_history : list op :=
  [OPubCreate 2 false HNone; OSubCreate None None; OSendCopy 0; ORecv 0; OSubDrop 0; OPubUpdate 0; OLoan 0].

Definition f2_world : world := match run (world_new cfg11) f2_history with Val (w, _) => w | Panic => world_new cfg11 end.

Lemma f2_runs : exists obs, run (world_new cfg11) f2_history = Val (f2_world, obs).
Proof. eexists. vm_compute. reflexivity. Qed.

(* the held sample 0 points at chunk 0 of publisher 0, received with content (0, 0); the last
   operation loaned chunk 0 again and wrote (0, 1) into it *)
Lemma f2_witness :
  map (fun x => (x_id x, x_origin x, x_off x)) (w_samples f2_world) = [(0, 0, 0)]
  /\ map (fun l => (l_pub l, l_off l)) (w_loans f2_world) = [(0, 0)]
  /\ canary_expected f2_world = [(0, {| pl_pub := 0; pl_seq := 0 |})]
  /\ canary f2_world = [(0, {| pl_pub := 0; pl_seq := 1 |})]
  /\ inv_check f2_world = true.
Proof. vm_compute. repeat split. Qed.

(* regression for F1 (fixed in /repo by 81d4165): three expired connections; the first keeps a
   borrow, the other two become empty in the same receive call.  Before the fix the borrowed one
   was dropped from to_be_removed_connections and stayed in connection_storage for ever; now
   everything is cleaned up once the last sample is released. *)
Definition cfg13 : config := {| cf_S := 1; cf_P := 3; cf_B := 1; cf_M := 1; cf_H := 0; cf_ovf := false; cf_E := 3 |}.
Definition f1_history : list op :=
  [OSubCreate None None; OPubCreate 1 false HNone; OPubCreate 1 false HNone; OPubCreate 1 false HNone; OSubUpdate 0;
   OSendCopy 0; OSendCopy 1; OSendCopy 2; OPubDrop 0; OPubDrop 1; OPubDrop 2;
   ORecv 0; ORecv 0; ORecv 0; OSampleDrop 1; OSampleDrop 2; ORecv 0; OSampleDrop 0; ORecv 0].
Definition f1_world : world := match run (world_new cfg13) f1_history with Val (w, _) => w | Panic => world_new cfg13 end.

Lemma f1_regression :
  (exists obs, run (world_new cfg13) f1_history = Val (f1_world, obs))
  /\ w_samples f1_world = [] /\ s_tbr (gets f1_world 0) = []
  /\ length (w_conns f1_world) = 0 /\ stale_expired f1_world 0 = false.
Proof. split; [eexists; vm_compute; reflexivity|]. vm_compute. repeat split. Qed.

(* control: with two expired connections everything is cleaned up *)
Definition f1_control : list op :=
  [OSubCreate None None; OPubCreate 1 false HNone; OPubCreate 1 false HNone; OSubUpdate 0;
   OSendCopy 0; OSendCopy 1; OPubDrop 0; OPubDrop 1; ORecv 0; ORecv 0; OSampleDrop 1; ORecv 0; OSampleDrop 0; ORecv 0].
Lemma f1_control_clean :
  match run (world_new cfg13) f1_control with
  | Val (w, _) => length (w_conns w) = 0 /\ stale_expired w 0 = false
  | Panic => False
  end.
Proof. vm_compute. split; reflexivity. Qed.

(* a delivered sample is lost when the publisher goes away before the subscriber connected *)
Lemma lost_before_connect_witness :
  match run (world_new cfg11) [OSubCreate None None; OPubCreate 1 false HNone; OSendCopy 0; OPubDrop 0; ORecv 0] with
  | Val (_, obs) => obs = [BCreated 0; BCreated 0; BSent 1; BOk; BRecv None]
  | Panic => False
  end.
Proof. vm_compute. reflexivity. Qed.

Definition lost_prefix : list op := [OSubCreate None None; OPubCreate 1 false HNone; OSendCopy 0].
Definition lost_before : world := match run (world_new cfg11) lost_prefix with Val (w, _) => w | Panic => world_new cfg11 end.
Lemma lost_witness :
  (exists obs, run (world_new cfg11) lost_prefix = Val (lost_before, obs))
  /\ exists w1 ob, step lost_before (OPubDrop 0) = Val (w1, ob) /\ lost_delivery lost_before w1 = 1.
Proof.
  split; [eexists; vm_compute; reflexivity|]. do 2 eexists. split; vm_compute; reflexivity.
Qed.

(* saturation: every chunk of the data segment in use, and the invariant holds *)
Definition cfg_sat : config := {| cf_S := 1; cf_P := 1; cf_B := 2; cf_M := 2; cf_H := 1; cf_ovf := false; cf_E := 2 |}.
Definition sat_history : list op :=
  [OPubCreate 2 false HNone; OSubCreate None None; OSendCopy 0; OSendCopy 0; ORecv 0; ORecv 0;
   OSendCopy 0; OSendCopy 0; OSendCopy 0; OLoan 0; OLoan 0].
Definition sat_world : world := match run (world_new cfg_sat) sat_history with Val (w, _) => w | Panic => world_new cfg_sat end.
Lemma sat_witness :
  (exists obs, run (world_new cfg_sat) sat_history = Val (sat_world, obs))
  /\ p_n (getp sat_world 0) = 7 /\ p_free (getp sat_world 0) = [] /\ inv_check sat_world = true
  /\ p_loans (getp sat_world 0) = 2 /\ pub_live sat_world 0 = true.
Proof. split; [eexists; vm_compute; reflexivity|]. vm_compute. repeat split. Qed.

(* ---------------------------------------------------------------------------------------- *)
(* reflection helpers                                                                        *)
(* ---------------------------------------------------------------------------------------- *)
Lemma nodup_b_NoDup l : nodup_b l = true -> NoDup l.
Proof.
  induction l as [|h t IH]; cbn [nodup_b]; intros H; [constructor|].
  apply andb_prop in H as [H1 H2]. apply Bool.negb_true_iff in H1. apply mem_off_false in H1.
  constructor; auto.
Qed.

Lemma same_multiset_cnt a b : same_multiset a b = true -> forall x, cnt a x = cnt b x.
Proof.
  unfold same_multiset. intros H x. rewrite forallb_forall in H.
  destruct (in_dec Nat.eq_dec x (a ++ b)) as [Hi|Hni].
  - apply H in Hi. now apply Nat.eqb_eq in Hi.
  - assert (Ha : ~ In x a) by (intros Hf; apply Hni, in_or_app; now left).
    assert (Hb : ~ In x b) by (intros Hf; apply Hni, in_or_app; now right).
    apply (count_occ_not_In Nat.eq_dec) in Ha. apply (count_occ_not_In Nat.eq_dec) in Hb.
    unfold count_off in *. lia.
Qed.

Lemma list_sum_cons a l : list_sum (a :: l) = a + list_sum l.
Proof. reflexivity. Qed.

(* sum over the indices below n of the count of each index is at most the length *)
Lemma sum_cnt_seq_le (l : list nat) (s : list nat) :
  NoDup s -> list_sum (map (fun o => cnt l o) s) <= length l.
Proof.
  intros Hnd. induction l as [|h t IH].
  - clear Hnd. induction s as [|a s IHs]; [cbn; lia|]. cbn [map count_occ length] in *. rewrite list_sum_cons. lia.
  - cbn [length].
    assert (Hgen : forall s, NoDup s ->
       list_sum (map (fun o => cnt (h :: t) o) s) <= 1 + list_sum (map (fun o => cnt t o) s)).
    { clear. induction s as [|a s IHs]; intros Hnd; [cbn; lia|].
      inversion Hnd as [|? ? Hna Hnds]; subst. cbn [map]. rewrite !list_sum_cons, cnt_cons.
      destruct (Nat.eq_dec h a) as [He|Hne].
      - subst a. assert (Hz : list_sum (map (fun o => cnt (h :: t) o) s) = list_sum (map (fun o => cnt t o) s)).
        { clear IHs Hnd Hnds. induction s as [|b s IHs]; [reflexivity|]. cbn [map]. rewrite !list_sum_cons, cnt_cons.
          destruct (Nat.eq_dec h b); [subst; exfalso; apply Hna; now left|].
          rewrite IHs; [lia|]. intros Hf. apply Hna. now right. }
        rewrite Hz. lia.
      - specialize (IHs Hnds). lia. }
    specialize (Hgen s Hnd). lia.
Qed.

Lemma list_sum_map_add {A} (f g : A -> nat) l :
  list_sum (map (fun x => f x + g x) l) = list_sum (map f l) + list_sum (map g l).
Proof. induction l; cbn [map]; rewrite ?list_sum_cons; cbn; lia. Qed.

Lemma list_sum_map_le {A} (f g : A -> nat) l :
  (forall x, In x l -> f x <= g x) -> list_sum (map f l) <= list_sum (map g l).
Proof.
  induction l as [|a t IH]; intros H; cbn [map]; rewrite ?list_sum_cons; [cbn; lia|]. pose proof (H a (or_introl eq_refl)).
  assert (list_sum (map f t) <= list_sum (map g t)) by (apply IH; intros; apply H; now right). lia.
Qed.

Lemma list_sum_const {A} (l : list A) k : list_sum (map (fun _ => k) l) = length l * k.
Proof. induction l; cbn [map]; rewrite ?list_sum_cons; cbn; lia. Qed.

(* exchange of summation *)
Lemma list_sum_swap {A} (f : nat -> A -> nat) (os : list nat) (cs : list A) :
  list_sum (map (fun o => list_sum (map (fun c => f o c) cs)) os)
  = list_sum (map (fun c => list_sum (map (fun o => f o c) os)) cs).
Proof.
  induction os as [|o t IH]; cbn [map].
  - induction cs as [|c cs IHc]; [reflexivity|]. cbn [map]. rewrite list_sum_cons, <- IHc. reflexivity.
  - rewrite list_sum_cons, IH. rewrite <- list_sum_map_add. reflexivity.
Qed.

(* a NoDup list that contains every index below n whose value is zero *)
Lemma free_count_bound (free : list nat) (f : nat -> nat) n :
  NoDup free -> (forall o, o < n -> f o = 0 -> In o free) ->
  n <= length free + list_sum (map f (seq 0 n)).
Proof.
  intros Hnd Hiff.
  assert (Hgen : forall s, length s <= length (filter (fun o => Nat.eqb (f o) 0) s) + list_sum (map f s)).
  { induction s as [|a s IHs]; [cbn; lia|].
    cbn [filter map length]. rewrite list_sum_cons.
    destruct (Nat.eqb (f a) 0) eqn:E; cbn [length]; [lia|]. apply Nat.eqb_neq in E. lia. }
  pose proof (Hgen (seq 0 n)) as H. rewrite seq_length in H.
  assert (Hinc : incl (filter (fun o => f o =? 0) (seq 0 n)) free).
  { intros o Ho. apply filter_In in Ho as [Ho1 Ho2]. apply in_seq in Ho1. apply Nat.eqb_eq in Ho2. apply Hiff; [lia|exact Ho2]. }
  assert (Hle : length (filter (fun o => f o =? 0) (seq 0 n)) <= length free).
  { apply NoDup_incl_length; [apply NoDup_filter, seq_NoDup|exact Hinc]. }
  lia.
Qed.

(* ---------------------------------------------------------------------------------------- *)
(* the invariant of one publisher as propositions                                            *)
(* ---------------------------------------------------------------------------------------- *)
Record pub_inv (w : world) (p : nat) : Prop := {
  pi_n : p_n (getp w p) = required_samples (w_cfg w) (p_L (getp w p));
  pi_tab : length (p_tab (getp w p)) = cf_S (w_cfg w);
  pi_free_nodup : NoDup (p_free (getp w p));
  pi_free_lt : forall o, In o (p_free (getp w p)) -> o < p_n (getp w p);
  pi_refcnt : forall o, o < p_n (getp w p) -> nth o (p_refcnt (getp w p)) 0%N = N.of_nat (holders w p o);
  pi_free : forall o, o < p_n (getp w p) -> (In o (p_free (getp w p)) <-> holders w p o = 0);
  pi_loans : p_loans (getp w p) = length (loans_of w p);
  pi_loans_le : p_loans (getp w p) <= p_L (getp w p);
  pi_hist : length (p_hist (getp w p)) <= cf_H (w_cfg w);
  pi_conns : forall s c, In (s, c) (tab_conns w p) -> conn_inv_b w p s c = true;
  pi_conn_ex : forall s, In (Some s) (p_tab (getp w p)) -> exists c, getc w p s = Some c }.

Lemma tab_conns_length w p : length (tab_conns w p) <= length (p_tab (getp w p)).
Proof.
  unfold tab_conns. induction (p_tab (getp w p)) as [|e t IH]; cbn [flat_map length]; [lia|].
  rewrite app_length. destruct e as [s|]; [destruct (getc w p s)|]; cbn [length]; lia.
Qed.

Lemma pub_inv_b_sound w p : pub_inv_b w p = true -> pub_inv w p.
Proof.
  unfold pub_inv_b. cbn zeta. rewrite !Bool.andb_true_iff.
  intros [[[[[[[[[[[[H1 H2] H3] H4] H5] H6] H7] H8] H9] H10] H11] H12] H13].
  apply Nat.eqb_eq in H1, H2, H3, H4, H9. apply Nat.leb_le in H10, H11.
  apply nodup_b_NoDup in H5. rewrite forallb_forall in H6, H7, H13.
  constructor; auto.
  - intros o Ho. apply Nat.ltb_lt. now apply H6.
  - intros o Ho. assert (Hs : In o (seq 0 (p_n (getp w p)))) by (apply in_seq; lia).
    specialize (H7 _ Hs). apply andb_prop in H7 as [Ha _]. now apply N.eqb_eq in Ha.
  - intros o Ho. assert (Hs : In o (seq 0 (p_n (getp w p)))) by (apply in_seq; lia).
    specialize (H7 _ Hs). apply andb_prop in H7 as [Ha Hb]. apply N.eqb_eq in Ha. apply Bool.eqb_prop in Hb.
    rewrite Ha in Hb. split.
    + intros Hi. apply mem_off_In in Hi. rewrite Hi in Hb. symmetry in Hb. apply N.eqb_eq in Hb. lia.
    + intros Hz. rewrite Hz in Hb. cbn in Hb. now apply mem_off_In.
  - intros s c Hin. unfold tab_conns in Hin.
    apply in_flat_map in Hin as [e [He Hin]]. specialize (H13 e He).
    destruct e as [s'|]; [|destruct Hin]. destruct (getc w p s') as [c'|] eqn:Eg; [|destruct Hin].
    destruct Hin as [Heq|[]]. inversion Heq; subst. exact H13.
  - intros s Hin. specialize (H13 _ Hin). cbn beta iota in H13. destruct (getc w p s) as [c|]; [eauto|discriminate].
Qed.

Lemma conn_inv_b_used_le w p s c :
  conn_inv_b w p s c = true -> c_comp c = [] -> length (c_used c) <= cf_B (w_cfg w) + cf_M (w_cfg w).
Proof.
  unfold conn_inv_b. cbn zeta. rewrite !Bool.andb_true_iff.
  intros [[[[[[[[[[H1 H2] H3] H4] H5] H6] H7] H7b] H8] H9] H10] Hc.
  apply Nat.eqb_eq in H5, H10. apply Nat.leb_le in H6, H7b, H9. rewrite Hc in H5. cbn [length] in H5. lia.
Qed.

(* right after retrieve_returned_chunks the completion queues of the publisher's connections are empty *)
Definition comps_empty (w : world) (p : nat) : Prop := forall s c, In (s, c) (tab_conns w p) -> c_comp c = [].

(* ---------------------------------------------------------------------------------------- *)
(* C08: inside the limits the allocation never fails for lack of memory                      *)
(* ---------------------------------------------------------------------------------------- *)
Lemma holders_sum_bound w p :
  pub_inv w p -> comps_empty w p ->
  list_sum (map (holders w p) (seq 0 (p_n (getp w p))))
  <= p_loans (getp w p) + cf_H (w_cfg w) + cf_S (w_cfg w) * (cf_B (w_cfg w) + cf_M (w_cfg w)).
Proof.
  intros Hinv Hce. set (n := p_n (getp w p)).
  unfold holders. rewrite !list_sum_map_add.
  assert (Hl : list_sum (map (fun o => count_off o (loans_of w p)) (seq 0 n)) <= length (loans_of w p))
    by (apply sum_cnt_seq_le, seq_NoDup).
  assert (Hh : list_sum (map (fun o => count_off o (hist_of w p)) (seq 0 n)) <= length (hist_of w p))
    by (apply sum_cnt_seq_le, seq_NoDup).
  assert (Hc : list_sum (map (fun o => list_sum (map (fun sc => count_off o (c_used (snd sc))) (tab_conns w p))) (seq 0 n))
               <= length (tab_conns w p) * (cf_B (w_cfg w) + cf_M (w_cfg w))).
  { rewrite (list_sum_swap (fun o sc => count_off o (c_used (snd sc)))).
    rewrite <- list_sum_const. apply list_sum_map_le. intros [s c] Hin. cbn [snd].
    etransitivity; [apply sum_cnt_seq_le, seq_NoDup|].
    eapply conn_inv_b_used_le; [eapply pi_conns; eauto|eapply Hce; eauto]. }
  pose proof (tab_conns_length w p) as Ht. rewrite (pi_tab _ _ Hinv) in Ht.
  pose proof (pi_loans _ _ Hinv) as Hlo. pose proof (pi_hist _ _ Hinv) as Hhi.
  assert (Hhl : length (hist_of w p) = length (p_hist (getp w p))) by (unfold hist_of; apply map_length).
  assert (length (tab_conns w p) * (cf_B (w_cfg w) + cf_M (w_cfg w)) <= cf_S (w_cfg w) * (cf_B (w_cfg w) + cf_M (w_cfg w)))
    by (apply Nat.mul_le_mono_r; exact Ht).
  lia.
Qed.

(* the number of chunks in use never reaches the size of the data segment while a loan is still allowed *)
Theorem never_oom_at_allocation w p :
  pub_inv_b w p = true -> comps_empty w p -> p_loans (getp w p) < p_L (getp w p) ->
  p_free (getp w p) <> [] /\ forall w', pub_allocate_core w p <> Val (w', AErr EOutOfMemory).
Proof.
  intros Hb Hce Hloans. pose proof (pub_inv_b_sound _ _ Hb) as Hinv.
  assert (Hfree : p_free (getp w p) <> []).
  { intros Efree.
    assert (Hz : forall o, o < p_n (getp w p) -> holders w p o = 0 -> In o (p_free (getp w p))).
    { intros o Ho Hz. now apply (pi_free _ _ Hinv). }
    pose proof (free_count_bound (p_free (getp w p)) (holders w p) (p_n (getp w p)) (pi_free_nodup _ _ Hinv) Hz) as Hbound.
    rewrite Efree in Hbound. cbn [length] in Hbound.
    pose proof (holders_sum_bound _ _ Hinv Hce) as Hs.
    rewrite (pi_n _ _ Hinv) in Hbound, Hs. unfold required_samples in *.
    set (A := cf_S (w_cfg w) * (cf_B (w_cfg w) + cf_M (w_cfg w))) in *.
    set (Sig := list_sum (map (holders w p) (seq 0 (A + cf_H (w_cfg w) + p_L (getp w p))))) in *.
    clearbody Sig A. lia. }
  split; [exact Hfree|].
  intros w' Hf. unfold pub_allocate_core in Hf.
  destruct (Nat.leb (p_L (getp w p)) (p_loans (getp w p))) eqn:E; [apply Nat.leb_le in E; lia|].
  destruct (p_free (getp w p)) as [|o rest] eqn:Efree; [congruence|].
  destruct (pub_borrow _ o) as [x1 old]. destruct (negb (N.eqb old 0)); discriminate.
Qed.

(* ---------------------------------------------------------------------------------------- *)
(* C02: the allocation micro-step hands out no chunk that a sample of a still registered      *)
(* subscriber points to                                                                       *)
(* ---------------------------------------------------------------------------------------- *)
Lemma list_sum_In_le {A} (f : A -> nat) a l : In a l -> f a <= list_sum (map f l).
Proof.
  induction l as [|h t IH]; intros H; [destruct H|]. cbn [map]. rewrite list_sum_cons.
  destruct H as [->|H]; [lia|]. specialize (IH H). lia.
Qed.

Lemma inv_check_pub w p : inv_check w = true -> pub_live w p = true -> pub_inv_b w p = true.
Proof.
  unfold inv_check, pub_live. intros H Hl. apply andb_prop in H as [H _]. apply andb_prop in Hl as [Hl1 Hl2].
  apply Nat.ltb_lt in Hl1. rewrite forallb_forall in H.
  assert (Hs : In p (seq 0 (length (w_pubs w)))) by (apply in_seq; lia).
  specialize (H _ Hs). rewrite Hl2 in H. exact H.
Qed.

Theorem no_reuse_at_allocation w p w' o :
  inv_check w = true -> pub_live w p = true ->
  pub_allocate_core w p = Val (w', AOk o) ->
  holders w p o = 0
  /\ forall x, In x (w_samples w) -> x_origin x = p -> s_active (gets w (x_sub x)) = true -> x_off x <> o.
Proof.
  intros Hchk Hlive Halloc.
  pose proof (inv_check_pub _ _ Hchk Hlive) as Hb. pose proof (pub_inv_b_sound _ _ Hb) as Hinv.
  (* the loaned chunk is the head of the free list *)
  assert (Hfree : In o (p_free (getp w p))).
  { unfold pub_allocate_core in Halloc.
    destruct (Nat.leb (p_L (getp w p)) (p_loans (getp w p))); [discriminate|].
    destruct (p_free (getp w p)) as [|o' rest] eqn:Ef; [discriminate|].
    destruct (pub_borrow _ o') as [x1 old]. destruct (negb (N.eqb old 0)); [discriminate|].
    inversion Halloc; subst. now left. }
  assert (Hon : o < p_n (getp w p)).
  { unfold pub_inv_b in Hb. cbn zeta in Hb. rewrite !Bool.andb_true_iff in Hb.
    destruct Hb as [[[[[[[[[[[[_ _] _] _] _] H6] _] _] _] _] _] _] _].
    rewrite forallb_forall in H6. apply Nat.ltb_lt. now apply H6. }
  assert (Hz : holders w p o = 0) by (now apply (pi_free _ _ Hinv)).
  split; [exact Hz|].
  intros x Hx Horig Hact Heq.
  (* the connection the sample came through is still in the publisher's table *)
  unfold inv_check in Hchk. apply andb_prop in Hchk as [_ Hcov]. unfold samples_covered_b in Hcov.
  rewrite forallb_forall in Hcov. specialize (Hcov _ Hx). rewrite Horig, Hact in Hcov.
  unfold pub_live in Hlive. apply andb_prop in Hlive as [_ Hpa]. rewrite Hpa in Hcov. cbn [negb orb] in Hcov.
  apply mem_off_In in Hcov. apply in_flat_map in Hcov as [e [He Hin]].
  destruct e as [s|]; [|destruct Hin]. destruct Hin as [Hs|[]]. subst s.
  destruct (pi_conn_ex _ _ Hinv _ He) as [c Hc].
  assert (Htc : In (x_sub x, c) (tab_conns w p)).
  { unfold tab_conns. apply in_flat_map. exists (Some (x_sub x)). split; [exact He|]. rewrite Hc. now left. }
  pose proof (pi_conns _ _ Hinv _ _ Htc) as Hci.
  unfold conn_inv_b in Hci. cbn zeta in Hci. rewrite !Bool.andb_true_iff in Hci.
  destruct Hci as [[[[[[[[[[_ _] _] Hms] _] _] _] _] _] _] _].
  pose proof (same_multiset_cnt _ _ Hms (x_off x)) as Hcnt.
  assert (Hbor : In (x_off x) (borrowed w p (x_sub x))).
  { unfold borrowed. apply in_map. apply filter_In. split; [exact Hx|]. rewrite Horig, !Nat.eqb_refl. reflexivity. }
  apply cnt_pos_In in Hbor. rewrite !cnt_app in Hcnt.
  assert (Hused : 1 <= cnt (c_used c) (x_off x)) by lia.
  pose proof (list_sum_In_le (fun sc : nat * conn => count_off o (c_used (snd sc))) _ _ Htc) as Hle.
  cbn [snd] in Hle. unfold holders in Hz. unfold count_off in *. rewrite <- Heq in *. lia.
Qed.

(* ---------------------------------------------------------------------------------------- *)
(* C08: rejections are clean                                                                 *)
(* ---------------------------------------------------------------------------------------- *)
(* a loan beyond max_loaned_samples: exactly ExceedsMaxLoans, nothing changes at the allocation
   micro-step; below the limit the answer is never ExceedsMaxLoans *)
Lemma loan_reject_clean w p :
  p_L (getp w p) <= p_loans (getp w p) -> pub_allocate_core w p = Val (w, AErr EExceedsMaxLoans).
Proof. intros H. unfold pub_allocate_core. apply Nat.leb_le in H. now rewrite H. Qed.

Lemma loan_below_limit w p w' :
  p_loans (getp w p) < p_L (getp w p) -> pub_allocate_core w p <> Val (w', AErr EExceedsMaxLoans).
Proof.
  intros H Hf. unfold pub_allocate_core in Hf. apply Nat.leb_gt in H. rewrite H in Hf.
  destruct (p_free (getp w p)) as [|o rest]; [discriminate|].
  destruct (pub_borrow _ o) as [x1 old]. destruct (negb (N.eqb old 0)); discriminate.
Qed.

(* one publisher / subscriber too many: the documented error and an unchanged world; as soon as a
   slot of the registry is free again the registry accepts *)
Lemma first_free_none_full {A} (l : list (option A)) i : first_free l i = None -> forall e, In e l -> e <> None.
Proof.
  revert i. induction l as [|h t IH]; intros i H e He; [destruct He|].
  cbn [first_free] in H. destruct h as [a|]; [|discriminate].
  destruct He as [<-|He]; [discriminate|]. eapply IH; eauto.
Qed.

Lemma pub_create_reject_clean w l r h :
  first_free (r_slots (w_preg w)) 0 = None -> pub_create w l r h = Val (w, None).
Proof. intros H. unfold pub_create, reg_add. now rewrite H. Qed.

Lemma sub_create_reject_clean w :
  first_free (r_slots (w_sreg w)) 0 = None ->
  sub_create w None None = Val (w, (None, Some EMaxSubscribers)).
Proof. intros H. unfold sub_create, reg_add. cbn. now rewrite H. Qed.

Lemma first_free_after_remove {A} (l : list (option A)) i k :
  i < length l -> first_free (upd l i None) k <> None.
Proof.
  revert i k. induction l as [|h t IH]; intros i k Hi; [cbn in Hi; lia|].
  destruct i as [|j]; cbn [upd first_free]; [discriminate|].
  destruct h; [|discriminate]. apply IH. cbn in Hi. lia.
Qed.

Lemma registry_accepts_after_remove {A} (r : registry A) i x :
  i < length (r_slots r) -> reg_add (reg_remove r i) x <> None.
Proof.
  intros Hi. unfold reg_add, reg_remove. cbn [r_slots].
  pose proof (first_free_after_remove (r_slots r) i 0 Hi) as H.
  destruct (first_free (upd (r_slots r) i None) 0); [discriminate|congruence].
Qed.

(* ---------------------------------------------------------------------------------------- *)
(* C02 no leak: when nothing holds a chunk any more, every chunk is on the free list          *)
(* ---------------------------------------------------------------------------------------- *)
Theorem all_free_when_no_holder w p :
  pub_inv_b w p = true -> (forall o, o < p_n (getp w p) -> holders w p o = 0) ->
  length (p_free (getp w p)) = p_n (getp w p)
  /\ (forall o, o < p_n (getp w p) -> nth o (p_refcnt (getp w p)) 0%N = 0%N).
Proof.
  intros Hb Hz. pose proof (pub_inv_b_sound _ _ Hb) as Hinv. split.
  - apply Nat.le_antisymm.
    + rewrite <- (seq_length (p_n (getp w p)) 0). apply NoDup_incl_length; [apply (pi_free_nodup _ _ Hinv)|].
      intros o Ho. apply in_seq. pose proof (pi_free_lt _ _ Hinv _ Ho). lia.
    + rewrite <- (seq_length (p_n (getp w p)) 0) at 1. apply NoDup_incl_length; [apply seq_NoDup|].
      intros o Ho. apply in_seq in Ho. apply (pi_free _ _ Hinv); [lia|]. apply Hz. lia.
  - intros o Ho. rewrite (pi_refcnt _ _ Hinv _ Ho), (Hz _ Ho). reflexivity.
Qed.

(* the initial world satisfies the invariant, for every configuration *)
Lemma inv_check_initial c : inv_check (world_new c) = true.
Proof. reflexivity. Qed.

(* further witnesses used by props/ *)
Definition f2_prefix : list op :=
  [OPubCreate 2 false HNone; OSubCreate None None; OSendCopy 0; ORecv 0; OSubDrop 0; OPubUpdate 0].
Definition f2_before : world := match run (world_new cfg11) f2_prefix with Val (w, _) => w | Panic => world_new cfg11 end.
Lemma f2_before_witness :
  (exists obs, run (world_new cfg11) f2_prefix = Val (f2_before, obs))
  /\ pub_live f2_before 0 = true /\ inv_check f2_before = true
  /\ (exists w', pub_allocate f2_before 0 = Val (w', AOk 0))
  /\ (exists x, In x (w_samples f2_before) /\ x_origin x = 0 /\ x_off x = 0).
Proof.
  split; [eexists; vm_compute; reflexivity|]. vm_compute. repeat split.
  - eexists. reflexivity.
  - eexists. split; [left; reflexivity|]. split; reflexivity.
Qed.

(* expired connection buffer exceeded: a public call panics *)
Definition cfg_e1 : config := {| cf_S := 1; cf_P := 1; cf_B := 1; cf_M := 1; cf_H := 0; cf_ovf := false; cf_E := 1 |}.
Definition e1_history : list op :=
  [OSubCreate None None; OPubCreate 1 false HNone; OSubUpdate 0; OSendCopy 0; ORecv 0; OPubDrop 0;
   OPubCreate 1 false HNone; OSubUpdate 0; OSendCopy 1; ORecv 0; OPubDrop 1].
Lemma e1_panics :
  match run (world_new cfg_e1) e1_history with
  | Val (w, _) => sub_live w 0 = true /\ step w (ORecv 0) = Panic /\ inv_check w = true
  | Panic => False
  end.
Proof. vm_compute. repeat split. Qed.

(* below the loan limit with one free chunk left *)
Definition sat_prefix : list op :=
  [OPubCreate 2 false HNone; OSubCreate None None; OSendCopy 0; OSendCopy 0; ORecv 0; ORecv 0;
   OSendCopy 0; OSendCopy 0; OSendCopy 0; OLoan 0].
Definition sat_before : world := match run (world_new cfg_sat) sat_prefix with Val (w, _) => w | Panic => world_new cfg_sat end.
Lemma sat_before_witness :
  pub_inv_b sat_before 0 = true /\ p_loans (getp sat_before 0) = 1 /\ p_L (getp sat_before 0) = 2
  /\ length (p_free (getp sat_before 0)) = 1.
Proof. vm_compute. repeat split. Qed.

(* ---------------------------------------------------------------------------------------- *)
(* retrieve_returned_chunks empties the completion queues of the publisher's connections      *)
(* ---------------------------------------------------------------------------------------- *)
Lemma reclaim_all_comp fuel : forall x c, length (c_comp c) <= fuel -> c_comp (snd (reclaim_all fuel x c)) = [].
Proof.
  induction fuel as [|f IH]; intros x c Hl.
  - cbn. destruct (c_comp c); [reflexivity|cbn in Hl; lia].
  - cbn [reclaim_all]. unfold c_reclaim. destruct (c_comp c) as [|o rest] eqn:Ec.
    + cbn. exact Ec.
    + destruct (mem_off o (c_used c)); apply IH; cbn; cbn in Hl; lia.
Qed.

Lemma pub_release_tab x o : p_tab (pub_release x o) = p_tab x.
Proof. reflexivity. Qed.

Lemma reclaim_all_tab fuel : forall x c, p_tab (fst (reclaim_all fuel x c)) = p_tab x.
Proof.
  induction fuel as [|f IH]; intros x c; [reflexivity|].
  cbn [reclaim_all]. destruct (c_reclaim c) as [c1 [|o|]]; [reflexivity| |apply IH].
  rewrite IH. apply pub_release_tab.
Qed.

Lemma getp_setc w p s c q : getp (setc w p s c) q = getp w q.
Proof. unfold setc. destruct (c_snd c || c_rcv c); reflexivity. Qed.

Lemma getc_setp w p x a b : getc (setp w p x) a b = getc w a b.
Proof. reflexivity. Qed.

Lemma p_tab_getp_setp w p x : p_tab x = p_tab (getp w p) -> p_tab (getp (setp w p x) p) = p_tab (getp w p).
Proof.
  intros H. unfold getp, setp. cbn [w_pubs w_set_pubs].
  destruct (Nat.lt_ge_cases p (length (w_pubs w))) as [Hlt|Hge].
  - rewrite nth_upd_same by exact Hlt. exact H.
  - assert (Hu : forall (l : list pubst) i y, length l <= i -> upd l i y = l).
    { induction l as [|h t IHl]; intros i y Hi; [reflexivity|]. destruct i; cbn in *; [lia|]. f_equal. apply IHl. lia. }
    rewrite Hu by exact Hge. reflexivity.
Qed.

Lemma find_conn_del_other l p s s' : s <> s' -> find_conn (del_conn l p s) p s' = find_conn l p s'.
Proof.
  intros Hne. induction l as [|k t IH]; [reflexivity|].
  cbn [del_conn filter]. fold (del_conn t p s).
  destruct (ckey_eqb p s k) eqn:E; cbn [negb].
  - cbn [find_conn]. destruct (ckey_eqb p s' k) eqn:E2; [|exact IH].
    unfold ckey_eqb in *. apply andb_prop in E as [E1 Ea]. apply andb_prop in E2 as [_ Eb].
    apply Nat.eqb_eq in Ea, Eb. congruence.
  - cbn [find_conn]. destruct (ckey_eqb p s' k); [reflexivity|exact IH].
Qed.

Lemma find_conn_del_same l p s : find_conn (del_conn l p s) p s = None.
Proof.
  induction l as [|k t IH]; [reflexivity|].
  cbn [del_conn filter]. fold (del_conn t p s).
  destruct (ckey_eqb p s k) eqn:E; cbn [negb]; [exact IH|]. cbn [find_conn]. rewrite E. exact IH.
Qed.

Lemma getc_setc_other w p s c s' : s <> s' -> getc (setc w p s c) p s' = getc w p s'.
Proof.
  intros Hne. unfold getc, setc. destruct (c_snd c || c_rcv c); cbn [w_conns w_set_conns].
  - unfold put_conn. cbn [find_conn]. unfold ckey_eqb at 1. cbn [fst snd]. rewrite Nat.eqb_refl. cbn [andb].
    destruct (Nat.eqb s s') eqn:E; [apply Nat.eqb_eq in E; contradiction|]. now apply find_conn_del_other.
  - now apply find_conn_del_other.
Qed.

Lemma getc_setc_same w p s c c' : getc (setc w p s c) p s = Some c' -> c' = c.
Proof.
  unfold getc, setc. destruct (c_snd c || c_rcv c); cbn [w_conns w_set_conns].
  - unfold put_conn. cbn [find_conn]. unfold ckey_eqb at 1. cbn [fst snd]. rewrite !Nat.eqb_refl. cbn. congruence.
  - rewrite find_conn_del_same. discriminate.
Qed.

Lemma opt_nat_dec : forall a b : option nat, {a = b} + {a <> b}.
Proof. decide equality; apply Nat.eq_dec. Qed.

Lemma retrieve_from_spec p : forall tab w,
  (forall s c, In (Some s) tab -> getc (retrieve_from w p tab) p s = Some c -> c_comp c = [])
  /\ (forall s, ~ In (Some s) tab -> getc (retrieve_from w p tab) p s = getc w p s)
  /\ p_tab (getp (retrieve_from w p tab) p) = p_tab (getp w p).
Proof.
  induction tab as [|e t IH]; intros w.
  - cbn. repeat split; auto. intros s c [].
  - destruct e as [s0|].
    2:{ cbn [retrieve_from]. destruct (IH w) as (H1 & H2 & H3). repeat split; auto.
        - intros s c [Hf|Hin]; [discriminate|]. now apply H1.
        - intros s Hn. apply H2. intros Hf. apply Hn. now right. }
    cbn [retrieve_from]. destruct (getc w p s0) as [c0|] eqn:Eg.
    2:{ destruct (IH w) as (H1 & H2 & H3). repeat split; auto.
        - intros s c [Hf|Hin] Hg; [|now apply (H1 s)]. inversion Hf; subst s.
          destruct (in_dec opt_nat_dec (Some s0) t) as [Hi|Hni]; [now apply (H1 s0)|].
          rewrite (H2 _ Hni), Eg in Hg. discriminate.
        - intros s Hn. apply H2. intros Hf. apply Hn. now right. }
    destruct (reclaim_all (length (c_comp c0)) (getp w p) c0) as [x1 c1] eqn:Er.
    set (w' := setc (setp w p x1) p s0 c1).
    destruct (IH w') as (H1 & H2 & H3).
    assert (Hc1 : c_comp c1 = []).
    { pose proof (reclaim_all_comp (length (c_comp c0)) (getp w p) c0 (le_n _)) as H. rewrite Er in H. exact H. }
    assert (Hx1 : p_tab x1 = p_tab (getp w p)).
    { pose proof (reclaim_all_tab (length (c_comp c0)) (getp w p) c0) as H. rewrite Er in H. exact H. }
    repeat split.
    + intros s c [Hf|Hin] Hg; [|now apply (H1 s)]. inversion Hf; subst s.
      destruct (in_dec opt_nat_dec (Some s0) t) as [Hi|Hni]; [now apply (H1 s0)|].
      rewrite (H2 _ Hni) in Hg. unfold w' in Hg. apply getc_setc_same in Hg. subst c. exact Hc1.
    + intros s Hn. assert (Hne : s0 <> s) by (intros ->; apply Hn; now left).
      rewrite H2 by (intros Hf; apply Hn; now right).
      unfold w'. rewrite getc_setc_other by exact Hne. apply getc_setp.
    + rewrite H3. unfold w'. rewrite getp_setc. now apply p_tab_getp_setp.
Qed.

Theorem retrieve_empties_completion_queues w p : comps_empty (pub_retrieve w p) p.
Proof.
  unfold comps_empty, pub_retrieve. intros s c Hin.
  destruct (retrieve_from_spec p (p_tab (getp w p)) w) as (H1 & _ & H3).
  unfold tab_conns in Hin. rewrite H3 in Hin.
  apply in_flat_map in Hin as [e [He Hc]]. destruct e as [s'|]; [|destruct Hc].
  destruct (getc (retrieve_from w p (p_tab (getp w p))) p s') as [c'|] eqn:Eg; [|destruct Hc].
  destruct Hc as [Heq|[]]. inversion Heq; subst. eapply H1; eauto.
Qed.

Definition comps_empty_b (w : world) (p : nat) : bool :=
  forallb (fun sc : nat * conn => match c_comp (snd sc) with [] => true | _ => false end) (tab_conns w p).
Lemma comps_empty_b_sound w p : comps_empty_b w p = true -> comps_empty w p.
Proof.
  unfold comps_empty_b, comps_empty. intros H s c Hin. rewrite forallb_forall in H. specialize (H _ Hin).
  cbn [snd] in H. destruct (c_comp c); [reflexivity|discriminate].
Qed.
Lemma sat_before_comps : comps_empty sat_before 0.
Proof. apply comps_empty_b_sound. vm_compute. reflexivity. Qed.
