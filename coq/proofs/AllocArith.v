(* Arithmetic facts about math.rs `align` and the bit-level PointerOffset codec. *)
From V Require Import model.Base model.Alloc.
From Coq Require Import ZifyBool ZifyNat ZifyN.
Open Scope N_scope.

Lemma divmod_decomp v a : a <> 0 -> v = a * (v / a) + v mod a /\ v mod a < a.
Proof. intros Ha. split. apply N.div_mod; exact Ha. apply N.mod_lt; exact Ha. Qed.

(* align v a = a * ceil(v / a) *)
Lemma align_cases v a : a <> 0 ->
  (v mod a = 0 /\ align v a = v) \/ (v mod a <> 0 /\ align v a = a * (v / a + 1)).
Proof.
  intros Ha. destruct (divmod_decomp v a Ha) as [E L]. unfold align.
  destruct (N.eqb_spec (v mod a) 0) as [H|H]; [left; auto|right]. split; [exact H|].
  remember (v / a) as q. remember (v mod a) as r. nia.
Qed.

Lemma align_ge v a : a <> 0 -> v <= align v a.
Proof.
  intros Ha. destruct (divmod_decomp v a Ha) as [E L].
  destruct (align_cases v a Ha) as [[_ ->]|[_ ->]]; [lia|]. remember (v / a) as q. remember (v mod a) as r. nia.
Qed.

Lemma align_lt v a : a <> 0 -> align v a < v + a.
Proof.
  intros Ha. destruct (divmod_decomp v a Ha) as [E L].
  destruct (align_cases v a Ha) as [[_ ->]|[Hr ->]]; [lia|]. remember (v / a) as q. remember (v mod a) as r. nia.
Qed.

Lemma align_mod v a : a <> 0 -> align v a mod a = 0.
Proof.
  intros Ha. destruct (align_cases v a Ha) as [[H ->]|[_ ->]]; [exact H|].
  rewrite N.mul_comm. apply N.mod_mul; exact Ha.
Qed.

Lemma align_divide v a : a <> 0 -> (a | align v a).
Proof. intros Ha. apply N.mod_divide; [exact Ha|apply align_mod; exact Ha]. Qed.

Lemma align_id v a : a <> 0 -> (a | v) -> align v a = v.
Proof.
  intros Ha Hd. unfold align. apply N.mod_divide in Hd; [|exact Ha]. rewrite Hd. reflexivity.
Qed.

(* the least multiple of a that is >= v *)
Lemma align_least v a m : a <> 0 -> (a | m) -> v <= m -> align v a <= m.
Proof.
  intros Ha [k ->] Hle. destruct (divmod_decomp v a Ha) as [E L].
  destruct (align_cases v a Ha) as [[_ ->]|[Hr ->]]; [exact Hle|].
  remember (v / a) as q. remember (v mod a) as r.
  assert (q < k) by nia. nia.
Qed.

Lemma align_div_form v a : a <> 0 -> align v a = ((v + a - 1) / a) * a.
Proof.
  intros Ha. destruct (divmod_decomp v a Ha) as [E L].
  remember (v / a) as q. remember (v mod a) as r.
  destruct (align_cases v a Ha) as [[Hr ->]|[Hr ->]]; rewrite <- ?Heqq, <- ?Heqr in *.
  - assert (Hq : (v + a - 1) / a = q).
    { symmetry. apply (N.div_unique _ _ _ (a - 1)); lia. }
    rewrite Hq. lia.
  - assert (Hq : (v + a - 1) / a = q + 1).
    { symmetry. apply (N.div_unique _ _ _ (r - 1)); nia. }
    rewrite Hq. lia.
Qed.

Lemma align_add_multiple h x a : a <> 0 -> (a | h) -> align (h + x) a = h + align x a.
Proof.
  intros Ha [k ->]. unfold align.
  assert (Hm : (k * a + x) mod a = x mod a).
  { rewrite N.add_comm. apply N.mod_add; exact Ha. }
  rewrite Hm. destruct (N.eqb_spec (x mod a) 0); [reflexivity|].
  assert (x mod a < a) by (apply N.mod_lt; exact Ha). lia.
Qed.

Lemma align_mono v w a : a <> 0 -> v <= w -> align v a <= align w a.
Proof.
  intros Ha Hle. apply align_least; [exact Ha|apply align_divide; exact Ha|].
  pose proof (align_ge w a Ha). lia.
Qed.

Lemma next_multiple_of_align v a : a <> 0 -> next_multiple_of v a = align v a.
Proof.
  intros Ha. unfold next_multiple_of, align.
  assert (v mod a < a) by (apply N.mod_lt; exact Ha).
  destruct (N.eqb_spec (v mod a) 0); lia.
Qed.

(* ---- powers of two ---- *)
Lemma next_pow2_ge n : n <= next_pow2 n.
Proof.
  unfold next_pow2. destruct (N.le_gt_cases n 1) as [H|H].
  - assert (1 <= 2 ^ N.log2_up n) by (apply N.neq_0_lt_0 in H || idtac; pose proof (N.pow_nonzero 2 (N.log2_up n)); lia). lia.
  - apply N.log2_up_spec in H. lia.
Qed.

Lemma next_pow2_is_pow2 n : exists k, next_pow2 n = 2 ^ k.
Proof. exists (N.log2_up n). reflexivity. Qed.

Lemma next_pow2_pos n : next_pow2 n <> 0.
Proof. unfold next_pow2. apply N.pow_nonzero. lia. Qed.

Lemma pow2_divide i j : i <= j -> (2 ^ i | 2 ^ j).
Proof.
  intros H. exists (2 ^ (j - i)). rewrite <- N.pow_add_r. f_equal. lia.
Qed.

Lemma pow2_le_divide i j : 2 ^ i <= 2 ^ j -> (2 ^ i | 2 ^ j).
Proof.
  intros H. apply pow2_divide. apply N.pow_le_mono_r_iff in H; lia.
Qed.

(* ---- PointerOffset codec: bit operations vs arithmetic ---- *)
Lemma ones8 : N.ones 8 = 255. Proof. reflexivity. Qed.

Lemma land_shiftl8_small x s : s < 256 -> N.land (N.shiftl x 8) s = 0.
Proof.
  intros Hs. apply N.bits_inj_0. intros n. rewrite N.land_spec.
  destruct (N.lt_ge_cases n 8) as [H|H].
  - rewrite N.shiftl_spec_low by exact H. reflexivity.
  - assert (Hb : N.testbit s n = false).
    { destruct (N.eq_dec s 0) as [->|Hz]; [apply N.bits_0|].
      apply N.bits_above_log2. apply N.lt_le_trans with 8; [|exact H].
      apply N.log2_lt_pow2; [lia|]. change (2 ^ 8) with 256. exact Hs. }
    rewrite Hb. apply andb_false_r.
Qed.

Lemma lor_shiftl8 x s : s < 256 -> N.lor (N.shiftl x 8) s = x * 256 + s.
Proof.
  intros Hs. rewrite <- N.lxor_lor by (apply land_shiftl8_small; exact Hs).
  rewrite <- N.add_nocarry_lxor by (apply land_shiftl8_small; exact Hs).
  rewrite N.shiftl_mul_pow2. reflexivity.
Qed.

Lemma po_make_arith offset seg : offset < 2 ^ 56 -> seg < 256 -> po_make offset seg = offset * 256 + seg.
Proof.
  intros Ho Hs. unfold po_make. rewrite N.land_ones.
  rewrite N.shiftl_mul_pow2. rewrite N.mod_small.
  - rewrite <- N.shiftl_mul_pow2. apply lor_shiftl8; exact Hs.
  - change (2 ^ 64) with (2 ^ 56 * 2 ^ 8). apply N.mul_lt_mono_pos_r; [reflexivity|exact Ho].
Qed.

Lemma po_offset_arith v : po_offset v = v / 256.
Proof. unfold po_offset. rewrite N.shiftr_div_pow2. reflexivity. Qed.

Lemma po_segment_arith v : po_segment v = v mod 256.
Proof. unfold po_segment. rewrite N.land_ones. reflexivity. Qed.

Lemma po_set_segment_arith v seg : seg < 256 -> po_set_segment v seg = (v / 256) * 256 + seg.
Proof.
  intros Hs. unfold po_set_segment. rewrite N.ldiff_ones_r.
  rewrite N.shiftr_div_pow2. change (2 ^ 8) with 256. apply lor_shiftl8; exact Hs.
Qed.

Lemma divmod_256 x s : s < 256 -> (x * 256 + s) / 256 = x /\ (x * 256 + s) mod 256 = s.
Proof.
  intros Hs. split.
  - symmetry. apply (N.div_unique _ _ _ s); lia.
  - symmetry. apply (N.mod_unique _ _ x); lia.
Qed.
