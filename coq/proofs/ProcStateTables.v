(* C07: crash-point tables and refuting schedules *)
From V Require Import model.Base model.Conc model.Fs model.ProcState proofs.ProcStateClosure proofs.ProcStateDefs.
Open Scope N_scope.
Lemma guard_table_ok : forallb (fun priv => forallb (fun k => list_eqb trip_eqb (fst (after_guard_kill priv k)) (expect_guard k)) (seq 0 21)) [false; true] = true.
Proof. vm_compute. reflexivity. Qed.

Theorem guard_kill_table : forall priv k, (k <= 20)%nat -> fst (after_guard_kill priv k) = expect_guard k.
Proof.
  intros priv k Hk. pose proof guard_table_ok as H. rewrite forallb_forall in H.
  assert (Hp : In priv [false; true]) by (destruct priv; cbn; auto).
  specialize (H _ Hp). rewrite forallb_forall in H.
  apply (list_eqb_eq _ trip_eqb_eq). apply H. apply in_seq. lia.
Qed.

(* the residue is collected (directory empty afterwards) exactly for these kill points *)
Definition guard_collectable (k : nat) : bool := Nat.leb k 1 || (Nat.leb 12 k && Nat.leb k 13) || Nat.leb 20 k.
Lemma guard_residue_ok : forallb (fun priv => forallb (fun k => Bool.eqb (match snd (after_guard_kill priv k) with [] => true | _ => false end) (guard_collectable k)) (seq 0 21)) [false; true] = true.
Proof. vm_compute. reflexivity. Qed.
Theorem guard_kill_residue : forall priv k, (k <= 20)%nat -> (snd (after_guard_kill priv k) = [] <-> guard_collectable k = true).
Proof.
  intros priv k Hk. pose proof guard_residue_ok as H. rewrite forallb_forall in H.
  assert (Hp : In priv [false; true]) by (destruct priv; cbn; auto).
  specialize (H _ Hp). rewrite forallb_forall in H.
  assert (Hin : In k (seq 0 21)) by (apply in_seq; lia). specialize (H _ Hin).
  apply Bool.eqb_prop in H. rewrite <- H. destruct (snd (after_guard_kill priv k)); split; intros; congruence.
Qed.

(* the winning cleaner killed before its j-th call; NEWCALLS = calls of ProcessCleaner::new *)
Definition newcalls (priv : bool) : nat := if priv then 18%nat else 16%nat.
Definition after_cleaner_kill (priv : bool) (j : nat) :=
  seq_rets priv [([OCreate; OExit], None); ([OClean; OCDrop], Some j); (FOLLOW, None)].
Definition follow2 (a b c d : N) : list (nat * N * N) := [(2%nat, OP_STATE, a); (2%nat, OP_CLEAN, b); (2%nat, OP_CDROP, c); (2%nat, OP_STATE, d)].
Definition expect_cleaner (priv : bool) (j : nat) : list (nat * N * N) :=
  let n := newcalls priv in
  let pre := (0%nat, OP_CREATE, 0) :: (if Nat.ltb j n then [] else [(1%nat, OP_CLEAN, 0)]) in
  if Nat.leb j (n + 1) then pre ++ follow2 VDead 0 0 VDNE
  else if Nat.leb j (n + 7) then pre ++ follow2 VCleaning K_BeingCleaned 0 VCleaning
  else pre ++ follow2 VDNE K_DoesNotExist 0 VDNE.
Lemma cleaner_table_ok : forallb (fun priv => forallb (fun j => list_eqb trip_eqb (fst (after_cleaner_kill priv j)) (expect_cleaner priv j)) (seq 0 (newcalls priv + 9))) [false; true] = true.
Proof. vm_compute. reflexivity. Qed.
Theorem cleaner_kill_table : forall priv j, (j <= newcalls priv + 8)%nat -> fst (after_cleaner_kill priv j) = expect_cleaner priv j.
Proof.
  intros priv j Hj. pose proof cleaner_table_ok as H. rewrite forallb_forall in H.
  assert (Hp : In priv [false; true]) by (destruct priv; cbn; auto).
  specialize (H _ Hp). rewrite forallb_forall in H.
  apply (list_eqb_eq _ trip_eqb_eq). apply H. apply in_seq. lia.
Qed.

(* ---------------- refuting schedules ---------------- *)
(* F3 before the repair a8f7c5d (nlink_check = false): Dead while the guard process lives *)
Definition f3_sched : list nat := repeat 0%nat 15 ++ repeat 1%nat 9 ++ repeat 0%nat 2 ++ repeat 1%nat 4.
Definition f3_run (nlc : bool) := run (step false nlc) f3_sched (init (progs_of (inst_mon None)) (kills_of (inst_mon None))).
Lemma f3_before_repair : In (1%nat, ERet OP_STATE VDead) (snd (f3_run false)) /\ crashed (snd (fst (f3_run false)) 0%nat) = false.
Proof. vm_compute. split; [|reflexivity]. repeat (try (left; reflexivity); right). Qed.
Lemma f3_after_repair : rets (snd (f3_run true)) = [(0%nat, OP_CREATE, 0); (1%nat, OP_STATE, VCleaning)].
Proof. vm_compute. reflexivity. Qed.

(* N4: the owner of a ProcessCleaner queries state() itself; afterwards a second process obtains
   a ProcessCleaner while the first still owns its own *)
Definition n4_inst : list (list pop * option nat) := [([OCreate; OExit], None); ([OClean; OState], None); ([OClean], None)].
Definition n4_run := run (step false true) (seq_sched 3) (init (progs_of n4_inst) (kills_of n4_inst)).
Lemma n4_two_owners :
  rets (snd n4_run) = [(0%nat, OP_CREATE, 0); (1%nat, OP_CLEAN, 0); (1%nat, OP_STATE, VDead); (2%nat, OP_CLEAN, 0)] /\
  cfd (snd (fst n4_run) 1%nat) <> None /\ cfd (snd (fst n4_run) 2%nat) <> None /\
  crashed (snd (fst n4_run) 1%nat) = false.
Proof. vm_compute. repeat split; congruence. Qed.
(* without the own state() query the second process is refused *)
Definition n4c_inst : list (list pop * option nat) := [([OCreate; OExit], None); ([OClean], None); ([OClean], None)].
Lemma n4_control : fst (seq_rets false n4c_inst) = [(0%nat, OP_CREATE, 0); (1%nat, OP_CLEAN, 0); (2%nat, OP_CLEAN, K_BeingCleaned)].
Proof. vm_compute. reflexivity. Qed.
