From V Require Import model.Base.
Open Scope N_scope.

Lemma upd_length {A} (l : list A) i x : length (upd l i x) = length l.
Proof. revert i; induction l as [|h t IH]; intros [|j]; cbn; auto. Qed.

Lemma nth_upd_same {A} (l : list A) i x d : (i < length l)%nat -> nth i (upd l i x) d = x.
Proof. revert i; induction l as [|h t IH]; intros [|j] H; cbn in *; try lia; auto. apply IH; lia. Qed.

Lemma nth_upd_other {A} (l : list A) i j x d : i <> j -> nth j (upd l i x) d = nth j l d.
Proof.
  revert i j; induction l as [|h t IH]; intros [|i] [|j] H; cbn; auto; try congruence.
Qed.

Lemma lenN_updN {A} (l : list A) i x : lenN (updN l i x) = lenN l.
Proof. unfold lenN, updN. now rewrite upd_length. Qed.

Lemma nthN_updN_same {A} (l : list A) i x d : i < lenN l -> nthN (updN l i x) i d = x.
Proof. unfold nthN, updN, lenN; intros; apply nth_upd_same; lia. Qed.

Lemma nthN_updN_other {A} (l : list A) i j x d : i <> j -> nthN (updN l i x) j d = nthN l j d.
Proof. unfold nthN, updN; intros; apply nth_upd_other; lia. Qed.

Lemma lenN_app {A} (l1 l2 : list A) : lenN (l1 ++ l2) = lenN l1 + lenN l2.
Proof. unfold lenN; rewrite app_length; lia. Qed.

Lemma lenN_repeat {A} (x : A) n : lenN (repeat x n) = N.of_nat n.
Proof. unfold lenN; now rewrite repeat_length. Qed.

Lemma lenN_tl {A} (l : list A) : lenN (tl l) = lenN l - 1.
Proof. unfold lenN; destruct l; cbn; lia. Qed.
