(* C09: without the bounded-tag hypothesis the exclusivity statement is false of the faithful
   model: the ABA tag of the head word has 16 bits.  Witness (candidate defect F12): capacity 3,
   thread 1 owns index 0; thread 0 enters acquire, loads the head word (head 1, aba 1,
   borrowed 1), reads next[1] = 2 and stalls before its CAS; thread 1 acquires 1 and 2, releases
   0 and 1 and performs 32766 acquire/release pairs -- 2^16 successful head updates in total, so
   the head word is bit-identical to the one thread 0 loaded, while index 2 is owned by thread 1.
   Thread 0's CAS succeeds and installs the stale next value 2 as the new head; its second
   acquire returns index 2. *)
From V Require Import model.Base model.Conc model.Events model.UniqueIndexSet.
Open Scope N_scope.

Definition wrap_progs (t : nat) : list uop :=
  match t with
  | O => [UAcq; UAcq]
  | S O => [UAcq; UAcq; UAcq; URel MDefault true; URel MDefault true] ++
           N.iter 32766 (fun l => UAcq :: URel MDefault false :: l) []
  | _ => []
  end.
Definition reps (n : N) (t : nat) (rest : list nat) : list nat := N.iter n (cons t) rest.
(* an acquire is 6 accesses (head, distance, next, CAS, distance, next), a release 4 *)
Definition wrap_sched : list nat :=
  reps 6 1%nat (reps 3 0%nat (reps (2 * 6 + 2 * 4 + 32766 * 10) 1%nat (reps 9 0%nat []))).

Definition uis_exclusive_full : Prop :=
  forall c dist progs g ls t t' i,
    c < 16777215 -> reachable ustep (uinit c dist progs) (g, ls) ->
    In i (owned_by (ls t)) -> In i (owned_by (ls t')) -> t = t'.

Lemma wrap_final :
  let c := fst (run ustep wrap_sched (uinit 3 32 wrap_progs)) in
  owned_by (snd c 0%nat) = [1; 2] /\ owned_by (snd c 1%nat) = [2] /\
  updates (fst c) = 65536 + 3 /\ uprog (snd c 0%nat) = [] /\ uprog (snd c 1%nat) = [].
Proof. vm_compute. auto. Qed.

Theorem uis_tag_wrap_refuted : ~ uis_exclusive_full.
Proof.
  intros H. pose proof wrap_final as W. cbv zeta in W.
  set (c := fst (run ustep wrap_sched (uinit 3 32 wrap_progs))) in *.
  destruct W as (W0 & W1 & _).
  assert (E : 0%nat = 1%nat); [|discriminate].
  apply (H 3 32 wrap_progs (fst c) (snd c) 0%nat 1%nat 2).
  - reflexivity.
  - exists wrap_sched. fold c. destruct c; reflexivity.
  - rewrite W0. right. left. reflexivity.
  - rewrite W1. left. reflexivity.
Qed.
