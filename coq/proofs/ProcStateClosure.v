(* Verified reachability closure for FINITE instances of the process_state.rs step model
   (model/ProcState.v): a fixed number n of processes with fixed programs and kill points.
   The set of states reachable under ALL schedules (lists of thread ids, unbounded length) is
   finite; a candidate set S is computed by a breadth-first search (any search: only the check
   below is trusted), and `closed` checks, by computation, that S contains the initial state,
   is closed under every step of every process, and that every transition leaving a state of S
   satisfies the property.  `closed_sound` turns this into a statement about `Conc.run` for
   every schedule. *)
From V Require Import model.Base model.Conc model.Fs model.ProcState.
Open Scope N_scope.

(* ---------------- decidable equality of states ---------------- *)
Definition acc_eq_dec : forall a b : acc, {a = b} + {a <> b}. Proof. decide equality. Defined.
Definition ltype_eq_dec : forall a b : ltype, {a = b} + {a <> b}. Proof. decide equality. Defined.
Definition pop_eq_dec : forall a b : pop, {a = b} + {a <> b}. Proof. decide equality. Defined.
Definition lk_eq_dec : forall a b : nat * ltype, {a = b} + {a <> b}.
Proof. decide equality; [apply ltype_eq_dec | apply Nat.eq_dec]. Defined.
Definition inode_eq_dec : forall a b : inode, {a = b} + {a <> b}.
Proof.
  decide equality; try apply N.eq_dec; try apply Nat.eq_dec; try apply bool_dec;
    try (apply list_eq_dec; apply N.eq_dec); try (apply list_eq_dec; apply lk_eq_dec).
Defined.
Definition fdent_eq_dec : forall a b : fdent, {a = b} + {a <> b}.
Proof. decide equality; try apply N.eq_dec; try apply Nat.eq_dec; try apply acc_eq_dec. Defined.
Definition fs_eq_dec : forall a b : fs, {a = b} + {a <> b}.
Proof.
  decide equality; [apply (list_eq_dec fdent_eq_dec) | apply (list_eq_dec N.eq_dec) | apply (list_eq_dec inode_eq_dec)].
Defined.
Definition nnb_eq_dec : forall a b : N * N * bool, {a = b} + {a <> b}.
Proof. decide equality; [apply bool_dec | decide equality; apply N.eq_dec]. Defined.
Definition nn_eq_dec : forall a b : N * N, {a = b} + {a <> b}.
Proof. decide equality; apply N.eq_dec. Defined.
Definition pc_eq_dec : forall a b : pc, {a = b} + {a <> b}.
Proof.
  decide equality; try apply N.eq_dec; try apply bool_dec;
    try apply (list_eq_dec nnb_eq_dec); try apply (list_eq_dec nn_eq_dec).
Defined.
Definition nnn_eq_dec : forall a b : N * N * N, {a = b} + {a <> b}.
Proof. decide equality; [apply N.eq_dec | apply nn_eq_dec]. Defined.
Definition optN_eq_dec : forall a b : option N, {a = b} + {a <> b}.
Proof. decide equality; apply N.eq_dec. Defined.
Definition optnnn_eq_dec : forall a b : option (N * N * N), {a = b} + {a <> b}.
Proof. decide equality; apply nnn_eq_dec. Defined.
Definition optnat_eq_dec : forall a b : option nat, {a = b} + {a <> b}.
Proof. decide equality; apply Nat.eq_dec. Defined.
Definition lst_eq_dec : forall a b : lst, {a = b} + {a <> b}.
Proof.
  decide equality; try apply bool_dec; try apply Nat.eq_dec; try apply optnat_eq_dec; try apply optnnn_eq_dec;
    try apply optN_eq_dec; try apply pc_eq_dec; try apply (list_eq_dec pop_eq_dec).
Defined.

Definition st := (fs * list lst)%type.
Definition st_eq_dec : forall a b : st, {a = b} + {a <> b}.
Proof. decide equality; [apply (list_eq_dec lst_eq_dec) | apply fs_eq_dec]. Defined.
Definition st_eqb (a b : st) : bool := if st_eq_dec a b then true else false.
Lemma st_eqb_true a b : st_eqb a b = true -> a = b.
Proof. unfold st_eqb. destruct (st_eq_dec a b); congruence. Qed.
Definition mem (s : st) (S : list st) : bool := existsb (st_eqb s) S.
Lemma mem_In s S : mem s S = true -> In s S.
Proof.
  unfold mem. rewrite existsb_exists. intros [x [Hin Heq]]. apply st_eqb_true in Heq. now subst.
Qed.

Section Sys.
Variables priv nlc : bool.

(* the system on a list of processes; thread ids >= length never move *)
Definition lstep (t : nat) (s : st) : option (st * list pev) :=
  match nth_error (snd s) t with
  | None => None
  | Some l =>
    match step priv nlc t (fst s) l with
    | None => None
    | Some (g', l', es) => Some ((g', upd (snd s) t l'), es)
    end
  end.

Definition succs (s : st) : list (nat * st * list pev) :=
  flat_map (fun t => match lstep t s with Some (s', es) => [(t, s', es)] | None => [] end) (seq 0 (length (snd s))).

(* transition property: P state thread events *)
Variable P : st -> nat -> list pev -> bool.

Definition closed (S : list st) : bool :=
  forallb (fun s => forallb (fun x => let '(t, s', es) := x in P s t es && mem s' S) (succs s)) S.

(* breadth-first candidate computation (untrusted) *)
Fixpoint bfs (fuel : nat) (seen frontier : list st) : list st :=
  match fuel with
  | O => seen
  | S f =>
    match frontier with
    | [] => seen
    | s :: rest =>
      let new := fold_left (fun acc x => let s' := snd (fst x) in if mem s' seen || mem s' acc then acc else s' :: acc) (succs s) [] in
      bfs f (new ++ seen) (rest ++ new)
    end
  end.

(* ---- relation with the function-indexed configurations of Conc ---- *)
Definition quiet (l : lst) : Prop := prog l = [] /\ at_pc l = Idle.
Definition rel (c : cfg fs lst) (s : st) : Prop :=
  fst c = fst s /\ forall t, match nth_error (snd s) t with Some l => snd c t = l | None => quiet (snd c t) end.

Lemma quiet_stuck t g l : quiet l -> step priv nlc t g l = None.
Proof.
  intros [Hp Hc]. unfold step. destruct (crashed l); auto.
  unfold raw_step. rewrite Hc, Hp. reflexivity.
Qed.

Lemma nth_error_upd_same {A} (l : list A) i x y : nth_error l i = Some y -> nth_error (upd l i x) i = Some x.
Proof. revert i. induction l as [|a l IH]; intros [|i]; cbn; try congruence; auto. Qed.
Lemma nth_error_upd_other {A} (l : list A) i j x : i <> j -> nth_error (upd l i x) j = nth_error l j.
Proof. revert i j. induction l as [|a l IH]; intros [|i] [|j]; cbn; try congruence; auto. Qed.
Lemma upd_length {A} (l : list A) i x : length (upd l i x) = length l.
Proof. revert i. induction l as [|a l IH]; intros [|i]; cbn; auto. Qed.

Lemma step_rel c s t c' es :
  rel c s -> step1 (step priv nlc) t c = Some (c', es) ->
  exists s', lstep t s = Some (s', es) /\ rel c' s'.
Proof.
  intros [Hg Hl] Hst. unfold step1 in Hst. unfold lstep.
  specialize (Hl t) as Ht.
  destruct (nth_error (snd s) t) as [l|] eqn:En.
  - rewrite Ht, Hg in Hst.
    destruct (step priv nlc t (fst s) l) as [[[g' l'] e]|] eqn:Es; [|discriminate].
    inversion Hst; subst. eexists. split; [reflexivity|].
    split; [reflexivity|]. intros t'. cbn [snd fst].
    destruct (Nat.eq_dec t t') as [->|Hne].
    + rewrite (nth_error_upd_same _ _ _ _ En). unfold upd_l. now rewrite Nat.eqb_refl.
    + rewrite (nth_error_upd_other _ _ _ _ Hne). specialize (Hl t').
      unfold upd_l. destruct (Nat.eqb_spec t' t); [congruence|]. exact Hl.
  - rewrite (quiet_stuck t (fst c) (snd c t) Ht) in Hst. discriminate.
Qed.

Lemma lstep_in_succs t s s' es : lstep t s = Some (s', es) -> In (t, s', es) (succs s).
Proof.
  intros H. unfold succs. apply in_flat_map. exists t. split.
  - apply in_seq. split; [lia|]. cbn. unfold lstep in H.
    destruct (nth_error (snd s) t) eqn:E; [|discriminate]. apply nth_error_Some. congruence.
  - rewrite H. now left.
Qed.

Theorem closed_sound (S : list st) (c0 : cfg fs lst) (s0 : st) :
  closed S = true -> mem s0 S = true -> rel c0 s0 ->
  forall sched, exists s, In s S /\ rel (fst (run (step priv nlc) sched c0)) s.
Proof.
  intros Hcl Hmem Hrel sched. apply mem_In in Hmem.
  revert c0 s0 Hmem Hrel. induction sched as [|t sched IH]; intros c0 s0 Hin Hrel; cbn [run fst].
  - eauto.
  - destruct (step1 (step priv nlc) t c0) as [[c' es]|] eqn:Est.
    + destruct (step_rel _ _ _ _ _ Hrel Est) as [s' [Hls Hrel']].
      unfold closed in Hcl. rewrite forallb_forall in Hcl. specialize (Hcl _ Hin).
      rewrite forallb_forall in Hcl. specialize (Hcl _ (lstep_in_succs _ _ _ _ Hls)). cbn in Hcl.
      apply andb_prop in Hcl. destruct Hcl as [_ Hm]. apply mem_In in Hm.
      specialize (IH c' s' Hm Hrel'). destruct (run (step priv nlc) sched c') as [c'' tr]. exact IH.
    + apply (IH c0 s0 Hin Hrel).
Qed.

(* every transition out of a state reachable under any schedule satisfies P *)
Theorem closed_transitions (S : list st) (c0 : cfg fs lst) (s0 : st) :
  closed S = true -> mem s0 S = true -> rel c0 s0 ->
  forall sched t c' es,
    step1 (step priv nlc) t (fst (run (step priv nlc) sched c0)) = Some (c', es) ->
    exists s, rel (fst (run (step priv nlc) sched c0)) s /\ P s t es = true.
Proof.
  intros Hcl Hmem Hrel sched t c' es Hst.
  destruct (closed_sound S c0 s0 Hcl Hmem Hrel sched) as [s [Hin Hr]].
  exists s. split; [exact Hr|].
  destruct (step_rel _ _ _ _ _ Hr Hst) as [s' [Hls _]].
  unfold closed in Hcl. rewrite forallb_forall in Hcl. specialize (Hcl _ Hin).
  rewrite forallb_forall in Hcl. specialize (Hcl _ (lstep_in_succs _ _ _ _ Hls)). cbn in Hcl.
  apply andb_prop in Hcl. tauto.
Qed.
End Sys.

(* initial list state of an instance and its relation to ProcState.init *)
Definition init_st (ps : list (list pop * option nat)) : st :=
  (fs_init, map (fun x => l_init (fst x) (snd x)) ps).
Definition progs_of (ps : list (list pop * option nat)) (t : nat) : list pop := fst (nth t ps ([], None)).
Definition kills_of (ps : list (list pop * option nat)) (t : nat) : option nat := snd (nth t ps ([], None)).

Lemma rel_init ps : rel (init (progs_of ps) (kills_of ps)) (init_st ps).
Proof.
  split; [reflexivity|]. intros t. cbn [snd init init_st].
  rewrite nth_error_map. unfold progs_of, kills_of.
  destruct (nth_error ps t) as [x|] eqn:E; cbn.
  - now rewrite (nth_error_nth _ _ _ E).
  - rewrite (nth_overflow _ _ (proj1 (nth_error_None _ _) E)). split; reflexivity.
Qed.

(* reachable candidate set of an instance *)
Definition reach_set (priv nlc : bool) (ps : list (list pop * option nat)) (fuel : nat) : list st :=
  bfs priv nlc fuel [init_st ps] [init_st ps].
