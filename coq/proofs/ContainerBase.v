(* C10 proofs, part 0: arithmetic and bookkeeping lemmas for model/Container.v *)
From V Require Import model.Base model.Conc model.Events model.Container.
From Coq Require Import ZifyBool ZifyNat ZifyN.
Open Scope N_scope.

Lemma fupd_same {A} (f : N -> A) i x : fupd f i x i = x.
Proof. unfold fupd. now rewrite N.eqb_refl. Qed.
Lemma fupd_other {A} (f : N -> A) i j x : j <> i -> fupd f i x j = f j.
Proof. unfold fupd. intros H. destruct (N.eqb_spec j i); congruence. Qed.

Lemma odd_N x : odd x = N.odd x.
Proof.
  unfold odd. rewrite <- N.bit0_mod, N.bit0_odd. destruct (N.odd x); reflexivity.
Qed.
Lemma odd_succ x : odd (x + 1) = negb (odd x).
Proof. rewrite !odd_N. rewrite N.add_1_r, N.odd_succ, <- N.negb_odd. reflexivity. Qed.
Lemma odd_lt_even a b : odd a = true -> odd b = false -> a <= b -> a < b.
Proof. intros Ha Hb Hle. destruct (N.eq_dec a b) as [->|]; [congruence|lia]. Qed.

Lemma owner_even t e : exists k, owner_of t e = 2 * k.
Proof. unfold owner_of. eauto. Qed.
Lemma owner_not_empty t e : owner_of t e <> EMPTY.
Proof. destruct (owner_even t e) as [k ->]. unfold EMPTY, MAX64. lia. Qed.

Lemma pow2_odd_inj a b x y : 2 ^ a * (2 * x + 1) = 2 ^ b * (2 * y + 1) -> a <= b -> a = b /\ x = y.
Proof.
  intros H Hab.
  replace b with (a + (b - a)) in H by lia. rewrite N.pow_add_r, <- N.mul_assoc in H.
  apply N.mul_cancel_l in H; [|apply N.pow_nonzero; lia].
  destruct (N.eq_dec (b - a) 0) as [E|E].
  - rewrite E in H. cbn in H. split; lia.
  - exfalso. replace (b - a) with (N.succ (b - a - 1)) in H by lia. rewrite N.pow_succ_r' in H. lia.
Qed.
Lemma owner_of_inj t e t' e' : owner_of t e = owner_of t' e' -> t = t' /\ e = e'.
Proof.
  unfold owner_of. intros H. apply N.mul_cancel_l in H; [|lia].
  destruct (N.le_ge_cases (N.of_nat t) (N.of_nat t')) as [L|L].
  - destruct (pow2_odd_inj _ _ _ _ H L). split; lia.
  - symmetry in H. destruct (pow2_odd_inj _ _ _ _ H L). split; lia.
Qed.
