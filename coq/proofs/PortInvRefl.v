(* The Prop invariant (proofs/PortInv.v) implies the executable one (model/Port.v inv_check); the
   statements of props/C01 C02 C08 about every reachable world. *)
From V Require Import model.Base model.Conn model.Port proofs.ListLemmas proofs.ConnProofs proofs.PortProofs proofs.PortView proofs.PortInv
  proofs.PortInvPub proofs.PortInvSub proofs.PortInvLife proofs.PortInvStep.
From Coq Require Import Lia Permutation.
Local Open Scope nat_scope.

Lemma NoDup_nodup_b l : NoDup l -> nodup_b l = true.
Proof.
  induction 1 as [|a l Hni Hnd IH]; [reflexivity|]. cbn [nodup_b]. rewrite IH, Bool.andb_true_r.
  apply Bool.negb_true_iff. now apply mem_off_false.
Qed.

Lemma cnt_same_multiset a b : (forall x, cnt a x = cnt b x) -> same_multiset a b = true.
Proof. intros H. unfold same_multiset. apply forallb_forall. intros x _. apply Nat.eqb_eq. unfold count_off. apply H. Qed.

Lemma cnt_eq_length (a b : list nat) : (forall x, cnt a x = cnt b x) -> length a = length b.
Proof. intros H. apply Permutation_length. apply (Permutation_count_occ Nat.eq_dec). exact H. Qed.

Lemma holders_eq w p o : holders w p o = holdersV (getp w p) (loans_of w p) (fun s => getc w p s) o.
Proof.
  unfold holders, holdersV, count_off, hist_of. f_equal. unfold tab_conns, usedsum.
  induction (p_tab (getp w p)) as [|e t IH]; [reflexivity|]. cbn [flat_map map]. rewrite map_app, list_sum_app, list_sum_cons, IH. f_equal.
  destruct e as [s|]; [|reflexivity]. cbn [used_at]. destruct (getc w p s); cbn; lia.
Qed.

Lemma ConnOk_b w p s c : ConnOk (w_cfg w) (p_n (getp w p)) c (borrowed w p s) -> conn_inv_b w p s c = true.
Proof.
  intros [a [b1 b2 b3 b4 b5] c0 d e f g h]. unfold conn_inv_b. cbn zeta.
  assert (Hm : forall x, cnt (c_used c) x = cnt (map q_off (c_sub c) ++ borrowed w p s ++ c_comp c) x).
  { intros x. rewrite !cnt_app. rewrite b2. unfold offs. lia. }
  assert (Hl : length (c_used c) = length (c_sub c) + length (borrowed w p s) + length (c_comp c)).
  { rewrite (cnt_eq_length _ _ Hm), !app_length, map_length. lia. }
  repeat (apply Bool.andb_true_iff; split).
  - exact a.
  - now apply NoDup_nodup_b.
  - apply forallb_forall. intros o Ho. apply Nat.ltb_lt. now apply c0.
  - now apply cnt_same_multiset.
  - now apply Nat.eqb_eq.
  - now apply Nat.leb_le.
  - apply Bool.orb_true_iff. right. apply Bool.andb_true_iff. split; [now apply Nat.eqb_eq|apply Nat.leb_le; lia].
  - now apply Nat.leb_le.
  - now apply Nat.leb_le.
  - now apply Nat.leb_le.
  - now apply Nat.eqb_eq.
Qed.

Lemma PubInv_b w p : PubInv w p -> pub_inv_b w p = true.
Proof.
  unfold PubInv. intros [a b c [d1 d2 d3 d4 d5] e f g h i k l m]. unfold pub_inv_b. cbn zeta.
  repeat (apply Bool.andb_true_iff; split).
  - now apply Nat.eqb_eq.
  - now apply Nat.eqb_eq.
  - now apply Nat.eqb_eq.
  - now apply Nat.eqb_eq.
  - now apply NoDup_nodup_b.
  - apply forallb_forall. intros o Ho. apply Nat.ltb_lt. now apply d3.
  - apply forallb_forall. intros o Ho. apply in_seq in Ho. assert (Hlt : o < p_n (getp w p)) by lia.
    rewrite holders_eq. rewrite (d4 o Hlt). apply Bool.andb_true_iff. split; [apply N.eqb_refl|].
    destruct (d5 o Hlt) as [F1 F2].
    destruct (mem_off o (p_free (getp w p))) eqn:Em.
    + apply mem_off_In in Em. rewrite (F1 Em). reflexivity.
    + apply mem_off_false in Em. destruct (N.eqb_spec (N.of_nat (holdersV (getp w p) (loans_of w p) (fun s => getc w p s) o)) 0) as [E|E]; [|reflexivity].
      exfalso. apply Em, F2. lia.
  - now apply NoDup_nodup_b.
  - now apply Nat.eqb_eq.
  - now apply Nat.leb_le.
  - now apply Nat.leb_le.
  - apply NoDup_nodup_b. exact l.
  - apply forallb_forall. intros [s|] He; [|reflexivity]. destruct (m s He) as [cc [Hc Hok]]. rewrite Hc. now apply ConnOk_b.
Qed.

Theorem Inv_inv_check w : Inv w -> inv_check w = true.
Proof.
  intros I. unfold inv_check. apply Bool.andb_true_iff. split.
  - apply forallb_forall. intros p _. destruct (p_active (getp w p)) eqn:Ea; [|reflexivity]. cbn [negb orb].
    apply PubInv_b. now apply (iv_pub _ _ I).
  - unfold samples_covered_b. apply forallb_forall. intros x Hx.
    destruct (p_active (getp w (x_origin x))) eqn:Ea; [|reflexivity].
    destruct (s_active (gets w (x_sub x))) eqn:Es; [|reflexivity]. cbn [negb orb].
    apply mem_off_In. pose proof (iv_cover _ _ I x Hx Ea Es) as Hin.
    apply in_flat_map. exists (Some (x_sub x)). split; [exact Hin|now left].
Qed.

(* ---------------------------------------------------------------------------------------- *)
(* every reachable world (cfg_fits: max_subscribers + history_size + 4 < 2^64, the reference    *)
(* counters are u64)                                                                         *)
(* ---------------------------------------------------------------------------------------- *)
Theorem reachable_inv_check c h w obs :
  cfg_fits c -> run (world_new c) h = Val (w, obs) -> inv_check w = true.
Proof. intros Hf Hr. apply Inv_inv_check. apply (reachable_InvR c w Hf). now exists h, obs. Qed.

Theorem reachable_no_leak c h w obs p :
  cfg_fits c -> run (world_new c) h = Val (w, obs) -> pub_live w p = true ->
  (forall o, o < p_n (getp w p) -> holders w p o = 0) ->
  length (p_free (getp w p)) = p_n (getp w p)
  /\ (forall o, o < p_n (getp w p) -> nth o (p_refcnt (getp w p)) 0%N = 0%N).
Proof.
  intros Hf Hr Hl Hz. apply all_free_when_no_holder; [|exact Hz].
  apply inv_check_pub; [eapply reachable_inv_check; eauto|exact Hl].
Qed.

(* the allocation of a loan never answers OutOfMemory *)
Lemma Inv_never_oom w p w' : Inv w -> pact w p -> pub_allocate w p <> Val (w', AErr EOutOfMemory).
Proof.
  intros I Hp. unfold pub_allocate.
  destruct (pub_retrieve_ok _ p w I Hp) as (I1 & Q1 & _ & _ & _ & Hce).
  set (w0 := pub_retrieve w p) in *.
  assert (Hp0 : pact w0 p) by (apply (PubStep_pact _ _ _ _ (pq_step _ _ _ Q1)); exact Hp).
  pose proof (PubInv_b w0 p (iv_pub _ _ I1 p Hp0)) as Hb.
  destruct (Nat.leb (p_L (getp w0 p)) (p_loans (getp w0 p))) eqn:El.
  - unfold pub_allocate_core. rewrite El. discriminate.
  - apply Nat.leb_gt in El. apply (never_oom_at_allocation w0 p Hb Hce El).
Qed.

Theorem reachable_never_oom c h w obs p w' :
  cfg_fits c -> run (world_new c) h = Val (w, obs) -> pub_live w p = true ->
  pub_allocate w p <> Val (w', AErr EOutOfMemory).
Proof.
  intros Hf Hr Hl. apply Inv_never_oom; [|now apply pub_live_pact].
  apply (reachable_InvR c w Hf). now exists h, obs.
Qed.

(* a sample received through a connection that its (active) publisher still has in its table: the
   release finds a place in the completion queue *)
Lemma minus_one_of_In bor o : In o bor -> exists bor', minus_one bor o bor'.
Proof.
  intros Hin. destruct (in_split _ _ Hin) as (l1 & l2 & ->). exists (l1 ++ l2). split.
  - rewrite !app_length. cbn. lia.
  - intros x. rewrite !cnt_app, !cnt_cons. cbn [count_occ]. lia.
Qed.

Lemma Inv_release_never_full w x cn :
  Inv w -> In x (w_samples w) -> pact w (x_origin x) -> In (Some (x_sub x)) (p_tab (getp w (x_origin x))) ->
  getc w (x_origin x) (x_sub x) = Some cn ->
  exists c', c_release cn (x_off x) = Val (c', true).
Proof.
  intros I Hx Hp Hin Hc. pose proof (iv_pub _ _ I _ Hp) as PI. unfold PubInv in PI.
  destruct (pv_conn _ _ _ _ _ PI _ Hin) as [c [Hc' Hok]]. cbn beta in Hc'. rewrite Hc in Hc'. inversion Hc'; subst c.
  destruct (minus_one_of_In _ _ (in_borrowed w x Hx)) as [bor' Hm].
  destruct (release_spec _ _ _ _ (co_inv _ _ _ _ Hok) Hm (co_total _ _ _ _ Hok)) as (c' & Hr & _). eauto.
Qed.

Theorem reachable_release_never_full c h w obs x cn :
  cfg_fits c -> run (world_new c) h = Val (w, obs) ->
  In x (w_samples w) -> pub_live w (x_origin x) = true -> In (Some (x_sub x)) (p_tab (getp w (x_origin x))) ->
  getc w (x_origin x) (x_sub x) = Some cn ->
  exists c', c_release cn (x_off x) = Val (c', true).
Proof.
  intros Hf Hr Hx Hl Hin Hc. eapply Inv_release_never_full; eauto; [|now apply pub_live_pact].
  apply (reachable_InvR c w Hf). now exists h, obs.
Qed.

(* the hypothesis "still in the table" holds for every sample of a registered subscriber *)
Theorem reachable_sample_covered c h w obs x :
  cfg_fits c -> run (world_new c) h = Val (w, obs) ->
  In x (w_samples w) -> pub_live w (x_origin x) = true -> sub_live w (x_sub x) = true ->
  In (Some (x_sub x)) (p_tab (getp w (x_origin x)))
  /\ exists cn, getc w (x_origin x) (x_sub x) = Some cn.
Proof.
  intros Hf Hr Hx Hl Hs.
  assert (IR : InvR w) by (apply (reachable_InvR c w Hf); now exists h, obs). destruct IR as (I & _).
  pose proof (iv_cover _ _ I x Hx (pub_live_pact _ _ Hl) (sub_live_sact _ _ Hs)) as Hin. split; [exact Hin|].
  pose proof (iv_pub _ _ I _ (pub_live_pact _ _ Hl)) as PI. destruct (pv_conn _ _ _ _ _ PI _ Hin) as [cc [Hc _]]. eauto.
Qed.

(* ---------------------------------------------------------------------------------------- *)
(* C01: the history a new connection starts with                                             *)
(* ---------------------------------------------------------------------------------------- *)
Lemma retrieve_from_keeps p s c : forall tab w,
  getc w p s = Some c -> c_comp c = [] -> c_snd c = true -> getc (retrieve_from w p tab) p s = Some c.
Proof.
  induction tab as [|[s'|] t IH]; intros w Hc Hcomp Hsnd; cbn [retrieve_from]; auto.
  destruct (getc w p s') as [c'|] eqn:Hc'; auto.
  destruct (reclaim_all (length (c_comp c')) (getp w p) c') as [x1 c1] eqn:Er.
  apply IH; auto. destruct (Nat.eq_dec s' s) as [->|Hne].
  - rewrite Hc in Hc'. inversion Hc'; subst c'. rewrite Hcomp in Er. cbn in Er. inversion Er; subst.
    rewrite getc_setc_eq, Hsnd. reflexivity.
  - rewrite getc_setc_ne by congruence. rewrite getc_setp. exact Hc.
Qed.

Lemma deliver_history_idxs p s : forall ents w c w1,
  getc w p s = Some c -> c_comp c = [] -> c_snd c = true -> length (c_sub c) + length ents <= c_B c ->
  deliver_history w p s ents = Val w1 ->
  exists cn, getc w1 p s = Some cn /\ idxs cn = idxs c ++ map he_idx ents.
Proof.
  induction ents as [|e t IH]; intros w c w1 Hc Hcomp Hsnd Hlen Hv; cbn [deliver_history] in Hv.
  - inversion Hv; subst. exists c. rewrite app_nil_r. auto.
  - cbn zeta in Hv. pose proof (retrieve_from_keeps p s c (p_tab (getp w p)) w Hc Hcomp Hsnd) as Hc1.
    fold (pub_retrieve w p) in Hc1. rewrite Hc1 in Hv. cbn [length] in Hlen.
    unfold c_try_send in Hv.
    assert (Hf : c_is_full c = false) by (unfold c_is_full; apply Nat.eqb_neq; lia). rewrite Hf, Bool.andb_false_r in Hv.
    destruct (Nat.leb (c_n c) (he_off e)); [discriminate|]. destruct (mem_off (he_off e) (c_used c)); [discriminate|].
    assert (Hlt : Nat.ltb (length (c_sub c)) (c_B c) = true) by (apply Nat.ltb_lt; lia). rewrite Hlt in Hv. cbn [rbind] in Hv.
    match type of Hv with deliver_history ?ww _ _ _ = _ => set (w3 := ww) in * end.
    set (c1 := set_sub_used c (c_sub c ++ [{| q_off := he_off e; q_idx := he_idx e |}]) (he_off e :: c_used c)) in *.
    assert (Hc3 : getc w3 p s = Some c1).
    { unfold w3. rewrite getc_setp, getc_setc_eq. unfold c1. cbn [set_sub_used c_snd c_rcv]. now rewrite Hsnd. }
    destruct (IH w3 c1 w1 Hc3 Hcomp Hsnd) as [cn [A B]]; [|exact Hv|].
    + unfold c1. cbn [set_sub_used c_sub c_B]. rewrite app_length. cbn. lia.
    + exists cn. split; [exact A|]. rewrite B. unfold idxs, c1. cbn [set_sub_used c_sub]. rewrite map_app, <- app_assoc. reflexivity.
Qed.

Theorem prefix_history w p i d w1 :
  getc w p (sd_id d) = None -> pub_create_connection w p i d = Val w1 ->
  exists cn, getc w1 p (sd_id d) = Some cn /\
    idxs cn = map he_idx (lastn (Nat.min (sd_hreq d) (Nat.max 1 (sd_buf d))) (p_hist (getp w p))).
Proof.
  intros Hn Hv. unfold pub_create_connection in Hv. cbn zeta in Hv. rewrite Hn in Hv.
  cbn [set_ports conn_new c_B c_rcv] in Hv.
  match type of Hv with deliver_history ?ww _ _ _ = _ => set (w2 := ww) in * end.
  set (c1 := set_ports (conn_new (sd_buf d) (cf_M (w_cfg w)) (cf_ovf (w_cfg w)) (p_n (getp w p))) true false) in *.
  assert (Hc : getc w2 p (sd_id d) = Some c1).
  { unfold w2. rewrite getc_setp. fold c1. rewrite getc_setc_eq. reflexivity. }
  destruct (deliver_history_idxs p (sd_id d) (lastn (Nat.min (sd_hreq d) (Nat.max 1 (sd_buf d))) (p_hist (getp w p))) w2 c1 w1 Hc eq_refl eq_refl) as [cn [A B]]; [|exact Hv|].
  - unfold c1. cbn [set_ports conn_new c_sub c_B length]. unfold lastn. rewrite skipn_length. lia.
  - exists cn. split; [exact A|]. rewrite B. reflexivity.
Qed.
