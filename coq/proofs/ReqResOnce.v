(* C11 -- lemmas about model/ReqRes.v, part 6: requests are received by each server in send order,
   each at most once.  Every request gets a stamp from the global counter when it is SENT
   (client_send); in every request queue the stamps strictly increase, are below the counter, and
   exceed the stamps of everything the server already received from that client. *)
From V Require Import model.Base model.ReqRes proofs.ReqResProofs proofs.ReqResInv proofs.ReqResRoute proofs.ReqResLink proofs.ReqResOrder.
From Coq Require Import ZifyBool ZifyNat ZifyN Sorted.
Open Scope N_scope.

Definition qinc (l : list reqmsg) : Prop := StronglySorted N.lt (map q_stamp l).
Definition slogT := list (N * reqmsg).

Definition req_w (SL : slogT) (n : N) (k : conn) : Prop :=
  qinc (k_rsub k) /\
  (forall m, In m (k_rsub k) -> q_cl m = k_cl k /\ q_stamp m < n) /\
  (forall sv m, In (sv, m) SL -> sv = k_sv k -> q_cl m = k_cl k -> forall m', In m' (k_rsub k) -> q_stamp m < q_stamp m').
Definition rw_ok (SL : slogT) (n : N) (s : state) : Prop := Forall (req_w SL n) (s_conns s).

Lemma qinc_tl : forall m q, qinc (m :: q) -> qinc q.
Proof. intros m q H. unfold qinc in *. cbn [map] in H. inversion H; assumption. Qed.
Lemma qinc_hd : forall m q m', qinc (m :: q) -> In m' q -> q_stamp m < q_stamp m'.
Proof.
  intros m q m' H Hin. unfold qinc in H. cbn [map] in H. inversion H as [|? ? _ Hf]; subst.
  rewrite Forall_forall in Hf. apply Hf. apply in_map. exact Hin.
Qed.
Lemma qinc_app1 : forall l m, qinc l -> (forall x, In x l -> q_stamp x < q_stamp m) -> qinc (l ++ [m]).
Proof.
  induction l as [|h t IH]; intros m H Hlt; unfold qinc in *; cbn [app map] in *.
  - constructor; constructor.
  - inversion H as [|? ? Ht Hf]; subst. constructor.
    + apply IH; [exact Ht|]. intros x Hx. apply Hlt. right; exact Hx.
    + rewrite map_app. apply Forall_app. split; [exact Hf|]. constructor; [|constructor]. apply Hlt. left; reflexivity.
Qed.

(* req_w only looks at k_cl, k_sv, k_rsub *)
Lemma req_w_ext : forall SL n k k', k_cl k' = k_cl k -> k_sv k' = k_sv k -> k_rsub k' = k_rsub k -> req_w SL n k -> req_w SL n k'.
Proof. intros SL n k k' E1 E2 E3 H. unfold req_w in *. rewrite E1, E2, E3. exact H. Qed.
Lemma req_w_nil : forall SL n k', k_rsub k' = [] -> req_w SL n k'.
Proof. intros SL n k' E. unfold req_w. rewrite E. split; [constructor|]. split; [intros m []|intros sv m _ _ _ m' []]. Qed.
Lemma req_w_tl : forall SL n k k' m, k_cl k' = k_cl k -> k_sv k' = k_sv k -> k_rsub k = m :: k_rsub k' -> req_w SL n k -> req_w SL n k'.
Proof.
  intros SL n k k' m E1 E2 E3 [A [B C]]. unfold req_w. rewrite E1, E2. rewrite E3 in A, B, C.
  split; [eapply qinc_tl; exact A|]. split.
  - intros m0 H0. apply B. right; exact H0.
  - intros sv m0 H1 H2 H3 m' H5. apply (C sv m0 H1 H2 H3). right; exact H5.
Qed.
Lemma req_w_mono : forall SL n n' k, n <= n' -> req_w SL n k -> req_w SL n' k.
Proof. intros SL n n' k Hle [A [B C]]. split; [exact A|]. split; [|exact C]. intros m Hm. destruct (B m Hm). split; [assumption|lia]. Qed.
Lemma rw_ok_mono : forall SL n n' s, n <= n' -> rw_ok SL n s -> rw_ok SL n' s.
Proof. intros SL n n' s Hle H. unfold rw_ok in *. eapply Forall_impl; [|exact H]. intros k Hk. eapply req_w_mono; eassumption. Qed.

Lemma rw_upd_conn : forall SL n s a b f, rw_ok SL n s -> (forall k, k_cl k = a -> k_sv k = b -> req_w SL n k -> req_w SL n (f k)) -> rw_ok SL n (upd_conn s a b f).
Proof.
  intros. unfold rw_ok, upd_conn. cbn [s_conns st_conns]. apply Forall_map_if'; [assumption|].
  intros k Hk. unfold is_key in Hk. apply andb_prop in Hk. destruct Hk as [H1 H2]. apply N.eqb_eq in H1. apply N.eqb_eq in H2. apply H0; assumption.
Qed.
Lemma rw_st_conns_map : forall SL n s s' (c : conn -> bool) (f : conn -> conn), rw_ok SL n s -> (forall k, req_w SL n k -> req_w SL n (f k)) ->
  rw_ok SL n (st_conns s' (map (fun k => if c k then f k else k) (s_conns s))).
Proof. intros. unfold rw_ok. cbn [s_conns st_conns]. apply Forall_map_if; assumption. Qed.
Lemma rw_ensure_conn : forall SL n g s a b, rw_ok SL n s -> rw_ok SL n (ensure_conn g s a b).
Proof.
  intros. unfold ensure_conn. destruct (get_conn s a b); [assumption|].
  unfold rw_ok. cbn [s_conns st_conns]. apply Forall_app. split; [assumption|]. constructor; [|constructor].
  apply req_w_nil. reflexivity.
Qed.
Lemma get_conn_rw : forall SL n s a b k, rw_ok SL n s -> get_conn s a b = Some k -> req_w SL n k /\ k_cl k = a /\ k_sv k = b.
Proof.
  intros SL n s a b k H Hg. unfold get_conn in Hg. apply find_some in Hg. destruct Hg as [Hin Hk]. unfold rw_ok in H. rewrite Forall_forall in H.
  unfold is_key in Hk. apply andb_prop in Hk. destruct Hk as [H1 H2]. apply N.eqb_eq in H1. apply N.eqb_eq in H2. auto.
Qed.
(* any update that keeps k_cl, k_sv, k_rsub *)
Ltac same_req := intros; match goal with H : req_w _ _ ?k |- req_w _ _ _ => apply (req_w_ext _ _ k); [reflexivity|reflexivity|reflexivity|exact H] end.

Section FixedR.
  Variable SL : slogT.
  Variable n : N.
  Notation W := (rw_ok SL n).

  Lemma rw_client_sync : forall g s cl, W s -> W (client_sync g s cl).
  Proof.
    intros g s cl H. unfold client_sync. apply fold_left_inv.
    - intros a b Ha. apply rw_upd_conn; [apply rw_ensure_conn; exact Ha|]. intros k _ _ Hk. destruct (view_active (k_cv k)); [exact Hk|same_req].
    - apply rw_st_conns_map; [exact H|]. intros k Hk. apply req_w_nil. reflexivity.
  Qed.
  Lemma rw_server_sync_idx : forall g sv s ir, W s -> W (server_sync_idx g sv s ir).
  Proof.
    intros g sv s [i reg] H. unfold server_sync_idx.
    destruct (get_server s sv) as [srv|]; [|exact H].
    match goal with |- context [if ?b then _ else _] => destruct b end; [exact H|].
    match goal with |- W (upd_server ?x _ _) => change (W x) end.
    match goal with |- W (match reg with Some c => _ | None => ?x end) => set (s1 := x) end.
    assert (H1 : W s1).
    { unfold s1. destruct (nthN (sv_conns srv) i None); [|exact H]. destruct (get_conn s n0 sv); [|exact H].
      apply rw_upd_conn; [exact H|]. same_req. }
    destruct reg; [|exact H1]. apply rw_upd_conn; [apply rw_ensure_conn; exact H1|]. same_req.
  Qed.
  Lemma rw_server_sync : forall g s sv, W s -> W (server_sync g s sv).
  Proof. intros. unfold server_sync. apply fold_left_inv; [intros; apply rw_server_sync_idx; assumption|assumption]. Qed.
  Lemma rw_gc : forall s, W s -> W (gc s).
  Proof.
    intros s H. unfold gc. cbv zeta.
    match goal with |- W (st_conns ?x (filter ?f (s_conns ?x))) => assert (H0 : W x) end.
    2:{ unfold rw_ok in *. cbn [s_conns st_conns]. apply Forall_forall. intros k Hk. apply filter_In in Hk.
        rewrite Forall_forall in H0. apply H0. tauto. }
    apply fold_left_inv.
    - intros a c Ha. unfold gc_server. destruct (sv_obj c || server_refs a (sv_inst c)); [exact Ha|].
      unfold rw_ok. cbn [s_conns st_reg st_conns st_servers].
      apply (Forall_map_if _ (req_w SL n) (fun k => N.eqb (k_sv k) (sv_inst c)) (fun k => k_with_svw k VNone)); [exact Ha|]. same_req.
    - apply fold_left_inv; [|exact H]. intros a c Ha. unfold gc_client.
      destruct (cl_obj c || client_refs a (cl_inst c)); [exact Ha|].
      assert (H1 : W (upd_conns_of_client (st_clients a (filter (fun x => negb (cl_inst x =? cl_inst c)) (s_clients a))) (cl_inst c) (fun k => k_with_cv k VNone))).
      { unfold upd_conns_of_client, rw_ok. cbn [s_conns st_conns st_clients].
        apply (Forall_map_if _ (req_w SL n) (fun k => N.eqb (k_cl k) (cl_inst c)) (fun k => k_with_cv k VNone)); [exact Ha|]. same_req. }
      match goal with |- context [index_of ?x ?l ?i] => destruct (index_of x l i) end; exact H1.
  Qed.
  Lemma rw_client_reclaim : forall s cl, W s -> W (client_reclaim s cl).
  Proof. intros s cl H. unfold client_reclaim. apply rw_st_conns_map; [exact H|]. same_req. Qed.
  Lemma rw_server_reclaim : forall s sv, W s -> W (server_reclaim s sv).
  Proof. intros s sv H. unfold server_reclaim. apply rw_st_conns_map; [exact H|]. same_req. Qed.
  Lemma rw_client_loan : forall g s cl hid, W s -> W (fst (client_loan g s cl hid)).
  Proof.
    intros g s cl hid H. unfold client_loan.
    destruct (get_client s cl); [|exact H].
    destruct (N.eqb (ML g) (cl_loans c)); [exact H|].
    pose proof (rw_client_reclaim s cl H) as H1.
    destruct (get_client (client_reclaim s cl) cl); [|exact H1].
    destruct (N.leb _ _); [exact H1|]. destruct (N.leb _ _); [exact H1|]. destruct (cl_avail c0); [exact H1|].
    unfold fresh. cbn [fst snd]. exact H1.
  Qed.
  Lemma rw_pend_drop : forall s p, W s -> W (pend_drop s p).
  Proof.
    intros s p H. unfold pend_drop, request_release.
    match goal with |- W (upd_client ?x _ _) => change (W x) end.
    apply rw_st_conns_map; [exact H|]. same_req.
  Qed.
  Lemma rw_pend_hint : forall s p, W s -> W (pend_hint s p).
  Proof. intros s p H. unfold pend_hint. apply rw_st_conns_map; [exact H|]. same_req. Qed.
  Lemma rw_response_release : forall s a b c m, W s -> W (response_release s a b c m).
  Proof.
    intros s a b c m H. unfold response_release. apply rw_upd_conn; [exact H|].
    intros k _ _ Hk. destruct (view_on (k_cv k)); [|exact Hk]. same_req.
  Qed.
  Lemma rw_poll_retained : forall g cl ch l s, W s -> W (fst (poll_retained g s cl ch l)).
  Proof.
    induction l as [|k t IH]; intros s H; cbn [poll_retained]; [exact H|].
    destruct (N.eqb _ _); [apply IH; assumption|].
    destruct (c_sub (k_chan k ch)) as [|m q].
    - apply IH. destruct (existsb _ _); [exact H|]. apply rw_upd_conn; [exact H|]. same_req.
    - cbn [fst]. apply rw_upd_conn; [exact H|]. same_req.
  Qed.
  Lemma rw_poll_all : forall g cl ch l s a b, W s -> W (fst (poll_all g s cl ch l a b)).
  Proof.
    induction l as [|k t IH]; intros s a b H; cbn [poll_all]; [exact H|].
    destruct (c_sub (k_chan k ch)) as [|m q]; [apply IH; assumption|].
    destruct (N.leb _ _); [apply IH; assumption|].
    cbn [fst]. apply rw_upd_conn; [exact H|]. same_req.
  Qed.
  Lemma rw_client_rcv1 : forall g s cl ch ord, W s -> W (fst (client_rcv1 g s cl ch ord)).
  Proof.
    intros g s cl ch ord H. unfold client_rcv1.
    pose proof (rw_poll_retained g cl ch (conns_in_order s cl ord (fun k => view_retained (k_cv k))) s H) as H1.
    destruct (poll_retained _ _ _ _ _) as [s1 r]. cbn [fst] in H1.
    destruct r; try exact H1. apply rw_poll_all; exact H1.
  Qed.
  Lemma rw_pend_receive : forall fuel g s p ord, W s -> W (fst (pend_receive fuel g s p ord)).
  Proof.
    induction fuel as [|f IH]; intros g s p ord H; cbn [pend_receive]; [exact H|].
    pose proof (rw_client_rcv1 g (client_sync g s (pn_cl p)) (pn_cl p) (q_ch (pn_msg p)) ord (rw_client_sync _ _ _ H)) as H1.
    destruct (client_rcv1 _ _ _ _ _) as [s1 r]. cbn [fst] in H1.
    destruct r; try exact H1. destruct (N.eqb _ _); [exact H1|]. apply IH. apply rw_response_release; exact H1.
  Qed.
  Lemma rw_act_drop : forall s a, W s -> W (act_drop s a).
  Proof.
    intros s a H. unfold act_drop.
    match goal with |- context [act_conn ?x _ _] => assert (H1 : W x) end.
    { apply rw_upd_conn; [exact H|]. intros k _ _ Hk. destruct (view_on (k_svw k)); [|exact Hk]. same_req. }
    destruct (act_conn _ _ _); [|exact H1]. apply rw_upd_conn; [exact H1|]. same_req.
  Qed.
  Lemma rw_act_loan : forall g s a v, W s -> W (fst (act_loan g s a v)).
  Proof.
    intros g s a v H. unfold act_loan.
    destruct (N.leb _ _); [exact H|].
    pose proof (rw_server_reclaim (set_act_loans s (ac_uid a) (fun n => n + 1)) (ac_sv a) H) as H1.
    destruct (get_server _ _); [|exact H1].
    destruct (N.leb _ _); [exact H1|]. destruct (N.leb _ _); [exact H1|].
    unfold fresh. cbn [fst snd]. exact H1.
  Qed.
  Lemma rw_rloan_send : forall g s r, W s -> W (rloan_send g s r).
  Proof.
    intros g s r H. unfold rloan_send, rloan_release.
    match goal with |- W (upd_server (set_act_loans ?x _ _) _ _) => change (W x) end.
    pose proof (rw_server_sync g s (rl_sv r) H) as H0.
    destruct (rl_idx r); [|exact H0].
    pose proof (rw_server_reclaim _ (rl_sv r) H0) as H1.
    destruct (act_conn _ _ _) as [k|]; [|exact H1].
    unfold fresh. cbn [fst snd].
    destruct (try_send _ _ _ _) as [[q ev]|]; [|exact H1].
    match goal with |- W (match ev with Some _ => _ | None => ?x end) => assert (H2 : W x) end.
    { match goal with |- W (upd_server ?x _ _) => change (W x) end. apply rw_upd_conn; [exact H1|]. same_req. }
    destruct ev; exact H2.
  Qed.
End FixedR.

(* ---- at most one connection per (client, server) pair ---------------------------------------------- *)
Definition ckey (k : conn) : N * N := (k_cl k, k_sv k).
Definition keys (s : state) : list (N * N) := map ckey (s_conns s).
Definition ku (s : state) : Prop := NoDup (keys s).

Ltac kf := let k0 := fresh in intro k0; cbv zeta; repeat match goal with |- context [if ?b then _ else _] => destruct b end; reflexivity.

Lemma keys_map_if : forall (c : conn -> bool) f l, (forall k, ckey (f k) = ckey k) ->
  map ckey (map (fun k => if c k then f k else k) l) = map ckey l.
Proof. intros c f l H. rewrite map_map. apply map_ext. intro k. destruct (c k); [apply H|reflexivity]. Qed.
Lemma keys_upd_conn : forall s a b f, (forall k, ckey (f k) = ckey k) -> keys (upd_conn s a b f) = keys s.
Proof. intros. unfold keys, upd_conn. cbn [s_conns st_conns]. apply keys_map_if. assumption. Qed.
Lemma keys_st_map : forall s s' (c : conn -> bool) f, (forall k, ckey (f k) = ckey k) ->
  keys (st_conns s' (map (fun k => if c k then f k else k) (s_conns s))) = keys s.
Proof. intros. unfold keys. cbn [s_conns st_conns]. apply keys_map_if. assumption. Qed.
Lemma NoDup_snoc : forall A (l : list A) a, NoDup l -> ~ In a l -> NoDup (l ++ [a]).
Proof.
  induction l as [|h t IH]; intros a Hn Hnot; cbn [app]; [constructor; [intros []|constructor]|].
  inversion Hn as [|? ? H1 H2]; subst. constructor.
  - intro Hin. apply in_app_or in Hin. destruct Hin as [Hin | [E | []]]; [exact (H1 Hin)|]. apply Hnot. left. symmetry. exact E.
  - apply IH; [exact H2|]. intro Hin. apply Hnot. right; exact Hin.
Qed.
Lemma NoDup_map_filter : forall A B (f : A -> B) (p : A -> bool) l, NoDup (map f l) -> NoDup (map f (filter p l)).
Proof.
  induction l as [|h t IH]; intros H; cbn [filter map] in *; [constructor|]. inversion H as [|? ? H1 H2]; subst.
  destruct (p h); cbn [map]; [|apply IH; exact H2]. constructor; [|apply IH; exact H2].
  intro Hin. apply H1. apply in_map_iff in Hin. destruct Hin as [x [E Hx]]. apply in_map_iff. exists x. split; [exact E|]. apply filter_In in Hx. exact (proj1 Hx).
Qed.
Lemma ku_ensure_conn : forall g s a b, ku s -> ku (ensure_conn g s a b).
Proof.
  intros g s a b H. unfold ensure_conn. destruct (get_conn s a b) eqn:E; [exact H|].
  unfold ku, keys. cbn [s_conns st_conns]. rewrite map_app. cbn [map].
  apply NoDup_snoc; [exact H|]. intro Hin. apply in_map_iff in Hin. destruct Hin as [k [Ek Hk]].
  unfold get_conn in E. pose proof (find_none _ _ E k Hk) as Hf. unfold is_key in Hf. unfold ckey in Ek. inversion Ek as [[E1 E2]].
  cbn [new_conn k_cl k_sv mk_conn] in E1, E2. rewrite E1, E2, !N.eqb_refl in Hf. discriminate.
Qed.

Lemma ku_keys : forall s s', keys s' = keys s -> ku s -> ku s'. Proof. intros s s' E H. unfold ku. rewrite E. exact H. Qed.
Lemma ku_client_sync : forall g s cl, ku s -> ku (client_sync g s cl).
Proof.
  intros g s cl H. unfold client_sync. apply fold_left_inv.
  - intros a b Ha. eapply ku_keys; [apply keys_upd_conn; kf|]. apply ku_ensure_conn. exact Ha.
  - eapply ku_keys; [|exact H]. apply (keys_st_map s). kf.
Qed.
Lemma ku_server_sync_idx : forall g sv s ir, ku s -> ku (server_sync_idx g sv s ir).
Proof.
  intros g sv s [i reg] H. unfold server_sync_idx.
  destruct (get_server s sv) as [srv|]; [|exact H].
  match goal with |- context [if ?b then _ else _] => destruct b end; [exact H|].
  match goal with |- ku (upd_server ?x _ _) => change (ku x) end.
  match goal with |- ku (match reg with Some c => _ | None => ?x end) => set (s1 := x) end.
  assert (H1 : ku s1).
  { unfold s1. destruct (nthN (sv_conns srv) i None); [|exact H]. destruct (get_conn s n sv); [|exact H].
    eapply ku_keys; [apply keys_upd_conn; kf|]. exact H. }
  destruct reg; [|exact H1]. eapply ku_keys; [apply keys_upd_conn; kf|]. apply ku_ensure_conn. exact H1.
Qed.
Lemma ku_server_sync : forall g s sv, ku s -> ku (server_sync g s sv).
Proof. intros. unfold server_sync. apply fold_left_inv; [intros; apply ku_server_sync_idx; assumption|assumption]. Qed.
Lemma ku_gc : forall s, ku s -> ku (gc s).
Proof.
  intros s H. unfold gc. cbv zeta.
  match goal with |- ku (st_conns ?x (filter ?f (s_conns ?x))) => assert (H0 : ku x) end.
  2:{ unfold ku, keys in *. cbn [s_conns st_conns]. apply NoDup_map_filter. exact H0. }
  apply fold_left_inv.
  - intros a c Ha. unfold gc_server. destruct (sv_obj c || server_refs a (sv_inst c)); [exact Ha|].
    eapply ku_keys; [|exact Ha]. unfold keys. cbn [s_conns st_reg st_conns st_servers]. apply keys_map_if. kf.
  - apply fold_left_inv; [|exact H]. intros a c Ha. unfold gc_client.
    destruct (cl_obj c || client_refs a (cl_inst c)); [exact Ha|].
    assert (H1 : ku (upd_conns_of_client (st_clients a (filter (fun x => negb (cl_inst x =? cl_inst c)) (s_clients a))) (cl_inst c) (fun k => k_with_cv k VNone))).
    { eapply ku_keys; [|exact Ha]. unfold keys, upd_conns_of_client. cbn [s_conns st_conns st_clients]. apply keys_map_if. kf. }
    match goal with |- context [index_of ?x ?l ?i] => destruct (index_of x l i) end; exact H1.
Qed.

(* everything else only rewrites connections in place *)
Lemma keys_client_reclaim : forall s cl, keys (client_reclaim s cl) = keys s.
Proof. intros. unfold client_reclaim. apply (keys_st_map s). kf. Qed.
Lemma keys_server_reclaim : forall s sv, keys (server_reclaim s sv) = keys s.
Proof. intros. unfold server_reclaim. apply (keys_st_map s). kf. Qed.
Lemma keys_client_loan : forall g s cl hid, keys (fst (client_loan g s cl hid)) = keys s.
Proof.
  intros. unfold client_loan.
  destruct (get_client s cl); [|reflexivity]. destruct (N.eqb _ _); [reflexivity|].
  destruct (get_client (client_reclaim s cl) cl); [|apply keys_client_reclaim].
  destruct (N.leb _ _); [apply keys_client_reclaim|]. destruct (N.leb _ _); [apply keys_client_reclaim|]. destruct (cl_avail c0); [apply keys_client_reclaim|].
  unfold fresh. cbn [fst snd]. apply keys_client_reclaim.
Qed.
Lemma keys_deliver_request : forall g cl m acc k, keys (fst (deliver_request g cl m acc k)) = keys (fst acc).
Proof.
  intros g cl m [s n] k. unfold deliver_request. cbn [fst].
  destruct (get_conn s cl (k_sv k)); [|reflexivity].
  destruct (try_send _ _ _ _) as [[q ev]|]; [|reflexivity].
  cbn [fst]. destruct ev; apply keys_upd_conn; kf.
Qed.
Lemma ku_client_send : forall g s m, ku s -> ku (fst (client_send g s m)).
Proof.
  intros g s m H. unfold client_send.
  destruct (get_client s (q_cl m)); [|exact H].
  destruct (N.leb _ _); [exact H|].
  unfold fresh. cbv zeta. cbn [fst snd].
  match goal with |- context [fold_left ?f ?l ?a0] =>
    pose proof (fold_left_proj _ _ _ (fun x => keys (fst x)) f l a0 (fun x y => keys_deliver_request g (q_cl m) _ x y)) as HF;
    destruct (fold_left f l a0) as [s2 n2] end.
  cbn [fst] in *. eapply ku_keys; [exact HF|].
  eapply ku_keys; [apply keys_client_reclaim|].
  eapply ku_keys; [apply (keys_st_map (client_sync g s (q_cl m))); kf|]. apply ku_client_sync. exact H.
Qed.
Lemma keys_pend_drop : forall s p, keys (pend_drop s p) = keys s.
Proof. intros. unfold pend_drop, request_release. apply (keys_st_map s). kf. Qed.
Lemma keys_pend_hint : forall s p, keys (pend_hint s p) = keys s.
Proof. intros. unfold pend_hint. apply (keys_st_map s). kf. Qed.
Lemma keys_response_release : forall s a b c m, keys (response_release s a b c m) = keys s.
Proof. intros. unfold response_release. apply keys_upd_conn. kf. Qed.
Lemma keys_poll_retained : forall g cl ch l s, keys (fst (poll_retained g s cl ch l)) = keys s.
Proof.
  induction l as [|k t IH]; intros s; cbn [poll_retained]; [reflexivity|].
  destruct (N.eqb _ _); [apply IH|].
  destruct (c_sub (k_chan k ch)); [|cbn [fst]; apply keys_upd_conn; kf].
  rewrite IH. destruct (existsb _ _); [reflexivity|apply keys_upd_conn; kf].
Qed.
Lemma keys_poll_all : forall g cl ch l s a b, keys (fst (poll_all g s cl ch l a b)) = keys s.
Proof.
  induction l as [|k t IH]; intros s a b; cbn [poll_all]; [reflexivity|].
  destruct (c_sub (k_chan k ch)); [apply IH|].
  destruct (N.leb _ _); [apply IH|cbn [fst]; apply keys_upd_conn; kf].
Qed.
Lemma keys_client_rcv1 : forall g s cl ch ord, keys (fst (client_rcv1 g s cl ch ord)) = keys s.
Proof.
  intros. unfold client_rcv1.
  pose proof (keys_poll_retained g cl ch (conns_in_order s cl ord (fun k => view_retained (k_cv k))) s) as H.
  destruct (poll_retained _ _ _ _ _) as [s1 r]. cbn [fst] in H.
  destruct r; try exact H. rewrite keys_poll_all. exact H.
Qed.
Lemma ku_pend_receive : forall fuel g s p ord, ku s -> ku (fst (pend_receive fuel g s p ord)).
Proof.
  induction fuel as [|f IH]; intros g s p ord H; cbn [pend_receive]; [exact H|].
  pose proof (keys_client_rcv1 g (client_sync g s (pn_cl p)) (pn_cl p) (q_ch (pn_msg p)) ord) as K.
  pose proof (ku_client_sync g s (pn_cl p) H) as H0.
  destruct (client_rcv1 _ _ _ _ _) as [s1 r]. cbn [fst] in K.
  assert (H1 : ku s1) by (eapply ku_keys; eassumption).
  destruct r; try exact H1. destruct (N.eqb _ _); [exact H1|]. apply IH. eapply ku_keys; [apply keys_response_release|exact H1].
Qed.
Lemma keys_act_drop : forall s a, keys (act_drop s a) = keys s.
Proof.
  intros. unfold act_drop. destruct (act_conn _ _ _); [rewrite keys_upd_conn by kf|]; apply keys_upd_conn; kf.
Qed.
Lemma keys_spoll_retained : forall g sv l s, keys (fst (spoll_retained g s sv l)) = keys s.
Proof.
  induction l as [|k t IH]; intros s; cbn [spoll_retained]; [reflexivity|].
  destruct (N.eqb _ _); [apply IH|].
  destruct (k_rsub k); [|cbn [fst]; apply keys_upd_conn; kf].
  rewrite IH. destruct (nonempty _); [reflexivity|apply keys_upd_conn; kf].
Qed.
Lemma keys_spoll_all : forall g sv l s a b, keys (fst (spoll_all g s sv l a b)) = keys s.
Proof.
  induction l as [|k t IH]; intros s a b; cbn [spoll_all]; [reflexivity|].
  destruct (k_rsub k); [apply IH|].
  destruct (N.leb _ _); [apply IH|cbn [fst]; apply keys_upd_conn; kf].
Qed.
Lemma keys_server_rcv1 : forall g s sv ord, keys (fst (server_rcv1 g s sv ord)) = keys s.
Proof.
  intros. unfold server_rcv1.
  pose proof (keys_spoll_retained g sv (sconns_in_order s sv ord (fun k => view_retained (k_svw k))) s) as H.
  destruct (spoll_retained _ _ _ _) as [s1 r]. cbn [fst] in H.
  destruct r; try exact H. rewrite keys_spoll_all. exact H.
Qed.
Lemma ku_server_receive : forall fuel g s sv slot ord, ku s -> ku (fst (server_receive fuel g s sv slot ord)).
Proof.
  induction fuel as [|f IH]; intros g s sv slot ord H; cbn [server_receive]; [exact H|].
  pose proof (keys_server_rcv1 g (server_sync g s sv) sv ord) as K.
  pose proof (ku_server_sync g s sv H) as H0.
  destruct (server_rcv1 _ _ _ _) as [s1 r]. cbn [fst] in K.
  assert (H1 : ku s1) by (eapply ku_keys; eassumption).
  destruct r as [| |cl m]; try exact H1.
  destruct (match get_server s1 sv with Some srv => index_of cl (sv_conns srv) 0 | None => None end).
  - unfold fresh. cbn [fst snd].
    match goal with |- context [if ?b then _ else _] => destruct b end; [|exact H1].
    apply IH. eapply ku_keys; [apply keys_act_drop|exact H1].
  - destruct (faf g); [unfold fresh; cbn [fst snd]; exact H1|].
    apply IH. eapply ku_keys; [apply keys_upd_conn; kf|exact H1].
Qed.
Lemma keys_act_loan : forall g s a v, keys (fst (act_loan g s a v)) = keys s.
Proof.
  intros. unfold act_loan. destruct (N.leb _ _); [reflexivity|].
  assert (K0 : keys (server_reclaim (set_act_loans s (ac_uid a) (fun n => n + 1)) (ac_sv a)) = keys s) by (rewrite keys_server_reclaim; reflexivity).
  destruct (get_server _ _); [|exact K0].
  destruct (N.leb _ _); [exact K0|]. destruct (N.leb _ _); [exact K0|].
  unfold fresh. cbn [fst snd]. exact K0.
Qed.
Lemma ku_rloan_send : forall g s r, ku s -> ku (rloan_send g s r).
Proof.
  intros g s r H. unfold rloan_send, rloan_release.
  match goal with |- ku (upd_server (set_act_loans ?x _ _) _ _) => change (ku x) end.
  pose proof (ku_server_sync g s (rl_sv r) H) as H0.
  destruct (rl_idx r); [|exact H0].
  assert (H1 : ku (server_reclaim (server_sync g s (rl_sv r)) (rl_sv r))) by (eapply ku_keys; [apply keys_server_reclaim|exact H0]).
  destruct (act_conn _ _ _) as [k|]; [|exact H1].
  unfold fresh. cbn [fst snd].
  destruct (try_send _ _ _ _) as [[q ev]|]; [|exact H1].
  match goal with |- ku (match ev with Some _ => _ | None => ?x end) => assert (H2 : ku x) end.
  { match goal with |- ku (upd_server ?x _ _) => change (ku x) end. eapply ku_keys; [apply keys_upd_conn; kf|exact H1]. }
  destruct ev; exact H2.
Qed.

(* ---- the push: ClientSharedState::send_request stamps the request with the counter ---------------- *)
Definition slog_below (SL : slogT) (n : N) : Prop := forall sv m, In (sv, m) SL -> q_stamp m < n.

Lemma NoDup_sv_of_keys : forall (p : conn -> bool) cl l, NoDup (map ckey l) ->
  NoDup (map k_sv (filter (fun k => N.eqb (k_cl k) cl && p k) l)).
Proof.
  induction l as [|h t IH]; intros H; cbn [filter map] in *; [constructor|]. inversion H as [|? ? H1 H2]; subst.
  destruct (N.eqb_spec (k_cl h) cl) as [E|E]; cbn [andb]; [|apply IH; exact H2].
  destruct (p h); [|apply IH; exact H2]. cbn [map]. constructor; [|apply IH; exact H2].
  intro Hin. apply H1. apply in_map_iff in Hin. destruct Hin as [x [Ex Hx]]. apply filter_In in Hx. destruct Hx as [Hx Hp].
  apply andb_prop in Hp. destruct Hp as [Hp _]. apply N.eqb_eq in Hp.
  apply in_map_iff. exists x. split; [|exact Hx]. unfold ckey. rewrite Hp, Ex, E. reflexivity.
Qed.

Definition dstate (SL : slogT) (n0 cl : N) (V : list N) (a : state) : Prop :=
  forall k, In k (s_conns a) -> req_w SL (n0 + 1) k /\
    (k_cl k = cl -> ~ In (k_sv k) V -> forall x, In x (k_rsub k) -> q_stamp x < n0).

Lemma deliver_fold : forall SL g cl m n0 targets V acc,
  q_cl m = cl -> q_stamp m = n0 -> slog_below SL n0 ->
  NoDup (map k_sv targets) -> (forall t, In t targets -> ~ In (k_sv t) V) ->
  dstate SL n0 cl V (fst acc) ->
  exists V', dstate SL n0 cl V' (fst (fold_left (deliver_request g cl m) targets acc)).
Proof.
  intros SL g cl m n0. induction targets as [|t ts IH]; intros V acc Hcl Hst HSL Hnd HV Hd; cbn [fold_left]; [exists V; exact Hd|].
  cbn [map] in Hnd. inversion Hnd as [|? ? Hnot Hnd']; subst.
  apply (IH (k_sv t :: V)); try assumption; try reflexivity.
  - intros t0 Ht0 [E | Hin]; [apply Hnot; rewrite E; apply in_map; exact Ht0|]. apply (HV t0 (or_intror Ht0)). exact Hin.
  - destruct acc as [a na]. unfold deliver_request. cbn [fst] in *.
    assert (Hweak : dstate SL (q_stamp m) (q_cl m) (k_sv t :: V) a).
    { intros k Hk. destruct (Hd k Hk) as [A B]. split; [exact A|]. intros E1 E2. apply B; [exact E1|]. intro Hin. apply E2. right; exact Hin. }
    destruct (get_conn a (q_cl m) (k_sv t)) as [k1|] eqn:Eg; [|exact Hweak].
    destruct (try_send (ovq g) (MA g) (k_rsub k1) m) as [[q ev]|] eqn:Et; [|exact Hweak].
    cbn [fst].
    assert (Hk1 : In k1 (s_conns a) /\ k_cl k1 = q_cl m /\ k_sv k1 = k_sv t).
    { unfold get_conn in Eg. apply find_some in Eg. destruct Eg as [Hin Hk]. unfold is_key in Hk. apply andb_prop in Hk.
      destruct Hk as [K1 K2]. apply N.eqb_eq in K1. apply N.eqb_eq in K2. auto. }
    destruct Hk1 as [Hin1 [Ec1 Es1]].
    destruct (Hd k1 Hin1) as [[A [B C]] Dlt].
    assert (Hold : forall x, In x (k_rsub k1) -> q_stamp x < q_stamp m).
    { intros x Hx. apply Dlt; [exact Ec1|rewrite Es1; apply HV; left; reflexivity|exact Hx]. }
    assert (Hq : qinc q /\ (forall x, In x q -> x = m \/ In x (k_rsub k1))).
    { split; [|intros x Hx; eapply try_send_in; eassumption].
      destruct (try_send_shape _ _ _ _ _ _ _ Et) as [-> | [o [tl0 [Eo ->]]]].
      - apply qinc_app1; assumption.
      - rewrite Eo in A, Hold. apply qinc_app1; [eapply qinc_tl; exact A|]. intros x Hx. apply Hold. right; exact Hx. }
    destruct Hq as [Hq1 Hq2].
    assert (Hnew : dstate SL (q_stamp m) (q_cl m) (k_sv t :: V)
                     (upd_conn a (q_cl m) (k_sv k1) (fun k0 => k_with_req k0 q (k_rbor k0) (k_rcomp k0)))).
    { intros k Hk. unfold upd_conn in Hk. cbn [s_conns st_conns] in Hk. apply in_map_iff in Hk. destruct Hk as [k0 [Ek Hk0]].
      destruct (is_key k0 (q_cl m) (k_sv k1)) eqn:Ekey.
      - subst k. unfold is_key in Ekey. apply andb_prop in Ekey. destruct Ekey as [K1 K2]. apply N.eqb_eq in K1. apply N.eqb_eq in K2.
        split.
        + unfold req_w. cbn [k_with_req k_rsub k_cl k_sv mk_conn]. split; [exact Hq1|]. split.
          * intros x Hx. destruct (Hq2 x Hx) as [-> | Hin].
            { split; [symmetry; exact K1|lia]. }
            { destruct (B x Hin) as [B1 B2]. split; [rewrite K1, <- Ec1; exact B1|exact B2]. }
          * intros sv0 m0 H1 H2 H3 x Hx. destruct (Hq2 x Hx) as [-> | Hin].
            { exact (HSL sv0 m0 H1). }
            { apply (C sv0 m0 H1); [rewrite H2, K2; reflexivity|rewrite H3, K1, Ec1; reflexivity|exact Hin]. }
        + intros _ Hnv. exfalso. apply Hnv. left. cbn [k_with_req k_sv mk_conn]. rewrite K2, Es1. reflexivity.
      - subst k. destruct (Hd k0 Hk0) as [A0 B0]. split; [exact A0|]. intros E1 E2. apply B0; [exact E1|]. intro Hv. apply E2. right; exact Hv. }
    destruct ev; exact Hnew.
Qed.

Lemma rw_client_send : forall SL g s m, rw_ok SL (s_next s) s -> slog_below SL (s_next s) -> ku s ->
  rw_ok SL (s_next (fst (client_send g s m))) (fst (client_send g s m)).
Proof.
  intros SL g s m H HSL Hku. unfold client_send.
  destruct (get_client s (q_cl m)); [|exact H].
  destruct (N.leb _ _); [exact H|].
  set (cl := q_cl m).
  set (X := client_reclaim (upd_client (st_conns (client_sync g s cl)
             (map (fun k => if N.eqb (k_cl k) cl && view_on (k_cv k) then k_map_state k (q_ch m) (fun v => fst (ch_set_state v (q_rid m))) else k)
                  (s_conns (client_sync g s cl)))) cl
             (fun c => mk_client (cl_inst c) (cl_obj c) (cl_avail c) (cl_ridc c) (cl_active c + 1) (cl_loans c) (cl_sloans c) (cl_rc c))) cl).
  assert (EX : s_next X = s_next s).
  { unfold X, client_reclaim. cbn [s_next st_conns upd_client st_clients]. apply (fr_client_sync _ s_next (fun _ _ => eq_refl) (fun _ _ => eq_refl)). }
  assert (WX : rw_ok SL (s_next s) X).
  { unfold X. apply rw_client_reclaim. match goal with |- rw_ok _ _ (upd_client ?x _ _) => change (rw_ok SL (s_next s) x) end.
    apply rw_st_conns_map; [apply rw_client_sync; exact H|]. same_req. }
  assert (KX : ku X).
  { unfold X. eapply ku_keys; [apply keys_client_reclaim|]. eapply ku_keys; [apply (keys_st_map (client_sync g s cl)); kf|]. apply ku_client_sync; exact Hku. }
  unfold fresh. cbv zeta. cbn [fst snd]. fold cl. fold X. rewrite EX.
  set (m' := {| q_id := q_id m; q_cl := cl; q_rid := q_rid m; q_ch := q_ch m; q_hid := q_hid m; q_stamp := s_next s |}).
  set (st0 := st_next X (s_next s + 1)).
  set (targets := filter (fun k => N.eqb (k_cl k) cl && view_active (k_cv k)) (s_conns st0)).
  assert (Hfold : exists V', dstate SL (s_next s) cl V' (fst (fold_left (deliver_request g cl m') targets (st0, 0)))).
  { apply (deliver_fold SL g cl m' (s_next s) targets [] (st0, 0)); try reflexivity; try assumption.
    - unfold targets. apply NoDup_sv_of_keys. exact KX.
    - intros t _ [].
    - intros k Hk. cbn [fst] in Hk. unfold rw_ok in WX. rewrite Forall_forall in WX. destruct (WX k Hk) as [A [B C]].
      split; [eapply req_w_mono; [|split; [exact A|split; [exact B|exact C]]]; lia|].
      intros _ _ x Hx. exact (proj2 (B x Hx)). }
  assert (EN : s_next (fst (fold_left (deliver_request g cl m') targets (st0, 0))) = s_next s + 1).
  { rewrite (fold_left_proj _ _ _ (fun x => s_next (fst x)) _ targets (st0, 0)
               (fun x y => fr_deliver_request _ s_next (fun _ _ => eq_refl) (fun _ _ => eq_refl) g cl m' x y)). reflexivity. }
  destruct (fold_left (deliver_request g cl m') targets (st0, 0)) as [s2 n2]. cbn [fst] in *.
  match goal with |- rw_ok SL ?nn _ => assert (ENN : nn = s_next s + 1) by (cbn [s_next upd_client st_clients]; exact EN) end.
  rewrite ENN.
  destruct Hfold as [V' Hd]. unfold rw_ok. cbn [s_conns upd_client st_clients]. apply Forall_forall. intros k Hk. exact (proj1 (Hd k Hk)).
Qed.

(* ---- the pop: Server::receive ------------------------------------------------------------------------- *)
Definition polledr (SL : slogT) (n sv : N) (k : conn) : Prop := req_w SL n k /\ k_sv k = sv.
Definition rpopfact (SL : slogT) (n : N) (s' : state) (cl sv : N) (m : reqmsg) : Prop :=
  q_cl m = cl /\ q_stamp m < n /\
  (forall sv0 m0, In (sv0, m0) SL -> sv0 = sv -> q_cl m0 = cl -> q_stamp m0 < q_stamp m) /\
  (forall k', In k' (s_conns s') -> k_cl k' = cl -> k_sv k' = sv -> forall m', In m' (k_rsub k') -> q_stamp m < q_stamp m').

Lemma pop_req : forall SL n s sv k m q bor,
  rw_ok SL n s -> req_w SL n k -> k_sv k = sv -> k_rsub k = m :: q ->
  let s' := upd_conn s (k_cl k) sv (fun k' => k_with_req k' q bor (k_rcomp k')) in
  rw_ok SL n s' /\ rpopfact SL n s' (k_cl k) sv m.
Proof.
  intros SL n s sv k m q bor H Hk Hs Es s'.
  destruct Hk as [A [B C]]. rewrite Es in A, B, C.
  split.
  - apply rw_upd_conn; [exact H|]. intros k0 E1 E2 Hk0. unfold req_w. cbn [k_with_req k_rsub k_cl k_sv mk_conn].
    split; [eapply qinc_tl; exact A|]. split.
    + intros x Hx. rewrite E1. apply B. right; exact Hx.
    + intros sv0 m0 H1 H2 H3 x Hx. apply (C sv0 m0 H1); [rewrite H2, E2, Hs; reflexivity|rewrite H3, E1; reflexivity|right; exact Hx].
  - destruct (B m (or_introl eq_refl)) as [B1 B2]. split; [exact B1|]. split; [exact B2|]. split.
    + intros sv0 m0 H0 H1 H2. apply (C sv0 m0 H0); [rewrite H1, Hs; reflexivity|exact H2|left; reflexivity].
    + intros k' Hin E1 E2 m' Hm'. unfold s', upd_conn in Hin. cbn [s_conns st_conns] in Hin.
      apply in_map_iff in Hin. destruct Hin as [k0 [Ek' Hk0]].
      destruct (is_key k0 (k_cl k) sv) eqn:Ekey.
      * subst k'. cbn [k_with_req k_rsub mk_conn] in Hm'. eapply qinc_hd; eassumption.
      * subst k'. unfold is_key in Ekey. rewrite E1, E2, !N.eqb_refl in Ekey. discriminate.
Qed.
Lemma rw_spoll_retained : forall SL n g sv l s, rw_ok SL n s -> Forall (polledr SL n sv) l ->
  rw_ok SL n (fst (spoll_retained g s sv l)) /\
  (forall cl m, snd (spoll_retained g s sv l) = S1Some cl m -> rpopfact SL n (fst (spoll_retained g s sv l)) cl sv m).
Proof.
  induction l as [|k t IH]; intros s H Hl; cbn [spoll_retained]; [split; [exact H|intros; discriminate]|].
  inversion Hl as [|? ? [Hk Hs] Ht]; subst.
  destruct (N.eqb _ _); [apply IH; assumption|].
  destruct (k_rsub k) as [|m q] eqn:Es.
  - apply IH; [|exact Ht]. destruct (nonempty _); [exact H|]. apply rw_upd_conn; [exact H|]. same_req.
  - cbn [fst snd]. destruct (pop_req SL n s (k_sv k) k m q (k_rbor k ++ [m]) H Hk eq_refl Es) as [P1 P2].
    split; [exact P1|]. intros cl m0 E. inversion E; subst. exact P2.
Qed.
Lemma rw_spoll_all : forall SL n g sv l s a b, rw_ok SL n s -> Forall (polledr SL n sv) l ->
  rw_ok SL n (fst (spoll_all g s sv l a b)) /\
  (forall cl m, snd (spoll_all g s sv l a b) = S1Some cl m -> rpopfact SL n (fst (spoll_all g s sv l a b)) cl sv m).
Proof.
  induction l as [|k t IH]; intros s a b H Hl; cbn [spoll_all].
  { split; [exact H|]. intros cl m E. destruct (b && a); discriminate. }
  inversion Hl as [|? ? [Hk Hs] Ht]; subst.
  destruct (k_rsub k) as [|m q] eqn:Es; [apply IH; assumption|].
  destruct (N.leb _ _); [apply IH; assumption|].
  cbn [fst snd]. destruct (pop_req SL n s (k_sv k) k m q (k_rbor k ++ [m]) H Hk eq_refl Es) as [P1 P2].
  split; [exact P1|]. intros cl m0 E. inversion E; subst. exact P2.
Qed.
Lemma sconns_in_order_polledr : forall SL n s sv ord p, rw_ok SL n s -> Forall (polledr SL n sv) (sconns_in_order s sv ord p).
Proof.
  intros SL n s sv ord p H. unfold sconns_in_order. apply Forall_forall. intros k Hk. apply in_flat_map in Hk.
  destruct Hk as [cl [_ Hk]]. destruct (get_conn s cl sv) as [k1|] eqn:E; [|destruct Hk].
  destruct (p k1); [|destruct Hk]. destruct Hk as [<- | []].
  destruct (get_conn_rw _ _ _ _ _ _ H E) as [A [_ B]]. split; assumption.
Qed.
Lemma rw_server_rcv1 : forall SL n g s sv ord, rw_ok SL n s ->
  rw_ok SL n (fst (server_rcv1 g s sv ord)) /\
  (forall cl m, snd (server_rcv1 g s sv ord) = S1Some cl m -> rpopfact SL n (fst (server_rcv1 g s sv ord)) cl sv m).
Proof.
  intros SL n g s sv ord H. unfold server_rcv1.
  pose proof (rw_spoll_retained SL n g sv (sconns_in_order s sv ord (fun k => view_retained (k_svw k))) s H (sconns_in_order_polledr _ _ _ _ _ _ H)) as [H1 H2].
  destruct (spoll_retained _ _ _ _) as [s1 r]. cbn [fst snd] in *.
  destruct r as [| |cl0 m0].
  - apply rw_spoll_all; [exact H1|apply sconns_in_order_polledr; exact H1].
  - split; [exact H1|intros; discriminate].
  - split; [exact H1|exact H2].
Qed.
Lemma rw_server_receive : forall SL n fuel g s sv slot ord, rw_ok SL n s ->
  rw_ok SL n (fst (server_receive fuel g s sv slot ord)) /\
  (forall a, snd (server_receive fuel g s sv slot ord) = SRSome a ->
     rpopfact SL n (fst (server_receive fuel g s sv slot ord)) (q_cl (ac_msg a)) sv (ac_msg a)).
Proof.
  induction fuel as [|f IH]; intros g s sv slot ord H; cbn [server_receive]; [split; [exact H|intros; discriminate]|].
  pose proof (rw_server_rcv1 SL n g (server_sync g s sv) sv ord (rw_server_sync SL n _ _ _ H)) as [H1 H2].
  destruct (server_rcv1 _ _ _ _) as [s1 r]. cbn [fst snd] in *.
  destruct r as [| |cl m]; try (split; [exact H1|intros; discriminate]).
  specialize (H2 cl m eq_refl).
  destruct (match get_server s1 sv with Some srv => index_of cl (sv_conns srv) 0 | None => None end).
  - unfold fresh. cbn [fst snd].
    match goal with |- context [if ?b then _ else _] => destruct b end.
    + apply IH. apply rw_act_drop. exact H1.
    + cbn [fst snd]. split; [exact H1|]. intros a E. inversion E; subst a. cbn [ac_msg].
      destruct H2 as [F1 [F2 [F3 F4]]]. rewrite F1. repeat split; assumption.
  - destruct (faf g).
    + unfold fresh. cbn [fst snd]. split; [exact H1|]. intros a E. inversion E; subst a. cbn [ac_msg].
      destruct H2 as [F1 [F2 [F3 F4]]]. rewrite F1. repeat split; assumption.
    + apply IH. apply rw_upd_conn; [exact H1|]. intros k _ _ Hk. destruct (view_on (k_svw k)); [|exact Hk]. same_req.
Qed.

(* ---- the receive log of the servers ------------------------------------------------------------------- *)
Definition samekeyr (a b : N * reqmsg) : Prop := fst a = fst b /\ q_cl (snd a) = q_cl (snd b).
Inductive slsorted : slogT -> Prop :=
| sls_nil : slsorted []
| sls_snoc : forall L e, slsorted L ->
    (forall e1, In e1 L -> samekeyr e1 e -> q_stamp (snd e1) < q_stamp (snd e)) -> slsorted (L ++ [e]).
Lemma slsorted_spec : forall L, slsorted L -> forall l1 e1 l2 e2, L = l1 ++ e1 :: l2 -> In e2 l2 -> samekeyr e1 e2 ->
  q_stamp (snd e1) < q_stamp (snd e2).
Proof.
  intros L H. induction H as [|L e HL IH Hlt]; intros l1 e1 l2 e2 E Hin Hk.
  - destruct l1; discriminate.
  - symmetry in E. destruct (snoc_split _ _ _ _ _ _ E) as [[-> _] | [l2' [-> EL]]]; [destruct Hin|].
    apply in_app_or in Hin. destruct Hin as [Hin | [<- | []]].
    + eapply IH; eassumption.
    + apply Hlt; [|exact Hk]. rewrite EL. apply in_or_app. right. left. reflexivity.
Qed.

Definition ri (s : state) : Prop :=
  rw_ok (s_slog s) (s_next s) s /\ slog_below (s_slog s) (s_next s) /\ slsorted (s_slog s) /\ ku s.

Definition keepsr (s s1 : state) : Prop :=
  s_slog s1 = s_slog s /\ s_next s <= s_next s1 /\ (forall SL n, rw_ok SL n s -> rw_ok SL n s1) /\ (ku s -> ku s1).
Lemma keepsr_refl : forall s, keepsr s s. Proof. intro s. split; [reflexivity|]. split; [lia|auto]. Qed.
Lemma keepsr_trans : forall a b c, keepsr a b -> keepsr b c -> keepsr a c.
Proof. intros a b c [A1 [A2 [A3 A4]]] [B1 [B2 [B3 B4]]]. split; [congruence|]. split; [lia|auto]. Qed.
Lemma keepsr_same : forall s s1, s_slog s1 = s_slog s -> s_next s1 = s_next s -> s_conns s1 = s_conns s -> keepsr s s1.
Proof.
  intros s s1 A B C. split; [exact A|]. split; [lia|]. split; [intros SL n H; unfold rw_ok in *; rewrite C; exact H|].
  intro H. unfold ku, keys in *. rewrite C. exact H.
Qed.
Lemma ri_keepsr : forall s s1, ri s -> keepsr s s1 -> ri s1.
Proof.
  intros s s1 [A [B [C D]]] [K1 [K2 [K3 K4]]]. unfold ri. rewrite K1.
  split; [eapply rw_ok_mono; [exact K2|apply K3; exact A]|]. split; [|split; [exact C|apply K4; exact D]].
  intros sv m Hin. specialize (B sv m Hin). lia.
Qed.
Lemma sl_of_logs : forall s s1, logs s1 = logs s -> s_slog s1 = s_slog s.
Proof. intros s s1 H. unfold logs in H. congruence. Qed.

Lemma keepsr_client_loan : forall g s cl hid, keepsr s (fst (client_loan g s cl hid)).
Proof.
  intros. split; [apply sl_of_logs; apply logs_client_loan|]. split; [apply nx_client_loan|].
  split; [intros SL nn H; apply rw_client_loan; exact H|]. intro H. eapply ku_keys; [apply keys_client_loan|exact H].
Qed.
Lemma keepsr_pend_drop : forall s p, keepsr s (pend_drop s p).
Proof.
  intros. split; [apply sl_of_logs; apply logs_pend_drop|]. split; [rewrite (fr_pend_drop _ s_next (fun _ _ => eq_refl) (fun _ _ => eq_refl)); lia|].
  split; [intros SL nn H; apply rw_pend_drop; exact H|]. intro H. eapply ku_keys; [apply keys_pend_drop|exact H].
Qed.
Lemma keepsr_server_sync : forall g s sv, keepsr s (server_sync g s sv).
Proof.
  intros. split; [apply sl_of_logs; apply logs_server_sync|]. split; [rewrite (f2_server_sync _ s_next) by (intros; reflexivity); lia|].
  split; [intros SL nn H; apply rw_server_sync; exact H|apply ku_server_sync].
Qed.
Lemma keepsr_client_sync : forall g s cl, keepsr s (client_sync g s cl).
Proof.
  intros. split; [apply sl_of_logs; apply logs_client_sync|]. split; [rewrite (fr_client_sync _ s_next (fun _ _ => eq_refl) (fun _ _ => eq_refl)); lia|].
  split; [intros SL nn H; apply rw_client_sync; exact H|apply ku_client_sync].
Qed.
Lemma keepsr_gc : forall s, keepsr s (gc s).
Proof.
  intros. split; [apply sl_of_logs; apply logs_gc|]. split; [rewrite (f2_gc _ s_next) by (intros; reflexivity); lia|].
  split; [intros SL nn H; apply rw_gc; exact H|apply ku_gc].
Qed.
Lemma keepsr_act_loan : forall g s a v, keepsr s (fst (act_loan g s a v)).
Proof.
  intros. split; [apply sl_of_logs; apply logs_act_loan|]. split; [apply nx_act_loan|].
  split; [intros SL nn H; apply rw_act_loan; exact H|]. intro H. eapply ku_keys; [apply keys_act_loan|exact H].
Qed.
Lemma nx_rloan_send : forall g s r, s_next s <= s_next (rloan_send g s r).
Proof.
  intros. unfold rloan_send, rloan_release. cbn [s_next upd_server st_servers set_act_loans st_acts st_objs].
  assert (E0 : s_next (server_sync g s (rl_sv r)) = s_next s) by (apply (f2_server_sync _ s_next); intros; reflexivity).
  destruct (rl_idx r); [|lia].
  assert (E1 : s_next (server_reclaim (server_sync g s (rl_sv r)) (rl_sv r)) = s_next s) by (unfold server_reclaim; cbn [s_next st_conns upd_server st_servers]; exact E0).
  destruct (act_conn _ _ _); [|lia].
  unfold fresh. cbn [fst snd]. destruct (try_send _ _ _ _) as [[q [ev|]]|]; cbn [s_next upd_server st_servers upd_conn st_conns st_next]; lia.
Qed.
Lemma keepsr_rloan_send : forall g s r, keepsr s (rloan_send g s r).
Proof.
  intros. split; [apply sl_of_logs; apply logs_rloan_send|]. split; [apply nx_rloan_send|].
  split; [intros SL nn H; apply rw_rloan_send; exact H|apply ku_rloan_send].
Qed.
Lemma keepsr_pend_receive : forall fuel g s p ord, keepsr s (fst (pend_receive fuel g s p ord)).
Proof.
  intros. split; [apply sl_of_logs; apply logs_pend_receive|].
  split; [rewrite (fr_pend_receive _ s_next (fun _ _ => eq_refl) (fun _ _ => eq_refl)); lia|].
  split; [intros SL nn H; apply rw_pend_receive; exact H|apply ku_pend_receive].
Qed.
Lemma keepsr_client_create : forall g s i, keepsr s (fst (client_create g s i)).
Proof.
  intros. unfold client_create. destruct (nthN _ _ _); [apply keepsr_refl|]. destruct (first_free _ _); [|apply keepsr_refl].
  unfold fresh. cbn [fst snd].
  match goal with |- context [client_sync g ?x ?c] => pose proof (keepsr_client_sync g x c) as K end.
  eapply keepsr_trans; [|eapply keepsr_trans; [exact K|apply keepsr_same; reflexivity]].
  split; [reflexivity|]. split; [cbn [s_next st_clients st_next]; lia|]. split; [intros SL nn H; exact H|intro H; exact H].
Qed.
Lemma keepsr_server_create : forall g s i, keepsr s (fst (server_create g s i)).
Proof.
  intros. unfold server_create. destruct (nthN _ _ _); [apply keepsr_refl|]. destruct (N.leb _ _); [apply keepsr_refl|].
  unfold fresh. cbn [fst snd].
  match goal with |- context [server_sync g ?x ?c] => pose proof (keepsr_server_sync g x c) as K end.
  eapply keepsr_trans; [|eapply keepsr_trans; [exact K|apply keepsr_same; reflexivity]].
  split; [reflexivity|]. split; [cbn [s_next st_servers st_next]; lia|]. split; [intros SL nn H; exact H|intro H; exact H].
Qed.

Lemma ri_client_send : forall g s m, ri s -> ri (fst (client_send g s m)).
Proof.
  intros g s m [A [B [C D]]]. unfold ri.
  rewrite (sl_of_logs _ _ (logs_client_send g s m)).
  split; [apply rw_client_send; assumption|]. split; [|split; [exact C|apply ku_client_send; exact D]].
  intros sv m0 Hin. specialize (B sv m0 Hin). pose proof (nx_client_send g s m). lia.
Qed.
Lemma ri_do_q : forall g s i b, ri s -> ri (fst (do_q g s i b)).
Proof.
  intros g s i b H. unfold do_q. destruct (slot_inst _ _); [|exact H].
  pose proof (keepsr_client_loan g (st_hid s (s_hid s + 1)) n (s_hid s)) as K1.
  destruct (client_loan _ _ _ _) as [s1 r]. cbn [fst] in K1.
  assert (H1 : ri s1). { apply (ri_keepsr s); [exact H|]. eapply keepsr_trans; [|exact K1]. apply keepsr_same; reflexivity. }
  destruct r as [[e|m]|]; try exact H1.
  pose proof (ri_client_send g s1 m H1) as H2.
  destruct (client_send g s1 m) as [s2 [e|p]]; cbn [fst] in *; [exact H2|].
  destruct b; cbn [fst]; [apply (ri_keepsr s2); [exact H2|apply keepsr_pend_drop]|].
  apply (ri_keepsr s2); [exact H2|apply keepsr_same; reflexivity].
Qed.

Lemma rw_slog_append : forall SL n s sv m, rw_ok SL n s -> rpopfact SL n s (q_cl m) sv m -> rw_ok (SL ++ [(sv, m)]) n s.
Proof.
  intros SL n s sv m H [F1 [F2 [F3 F4]]]. unfold rw_ok in *. rewrite Forall_forall in *. intros k Hk.
  destruct (H k Hk) as [A [B C]]. split; [exact A|]. split; [exact B|].
  intros sv0 m0 Hin E1 E2 m' Hm'. apply in_app_or in Hin. destruct Hin as [Hin | [E | []]].
  - exact (C sv0 m0 Hin E1 E2 m' Hm').
  - inversion E; subst sv0 m0. apply (F4 k Hk); [symmetry; assumption|symmetry; assumption|exact Hm'].
Qed.

Lemma step_ri : forall g ord s o, ri s -> ri (fst (step g ord s o)).
Proof.
  intros g ord s o H. unfold step.
  match goal with |- context [let '(a, b) := ?e in _] => destruct e as [s1 ob] eqn:E end.
  cbn [fst]. apply (ri_keepsr s1); [|apply keepsr_gc].
  destruct o.
  - apply (ri_keepsr s); [exact H|]. pose proof (keepsr_client_create g s i) as K. rewrite E in K. exact K.
  - apply (ri_keepsr s); [exact H|]. unfold client_drop in E. destruct (nthN _ _ _); inversion E; subst; [apply keepsr_same; reflexivity|apply keepsr_refl].
  - apply (ri_keepsr s); [exact H|]. pose proof (keepsr_server_create g s i) as K. rewrite E in K. exact K.
  - apply (ri_keepsr s); [exact H|]. unfold server_drop in E. destruct (nthN _ _ _); inversion E; subst; [apply keepsr_same; reflexivity|apply keepsr_refl].
  - apply (ri_keepsr s); [exact H|]. destruct (slot_inst _ _); [|inversion E; subst; apply keepsr_refl].
    pose proof (keepsr_client_loan g (st_hid s (s_hid s + 1)) n (s_hid s)) as K.
    destruct (client_loan _ _ _ _) as [s2 r]. cbn [fst] in K.
    assert (K0 : keepsr s s2) by (eapply keepsr_trans; [|exact K]; apply keepsr_same; reflexivity).
    destruct r as [[e|m1]|]; inversion E; subst; exact K0.
  - destruct (s_loans s) as [|l t]; [inversion E; subst; exact H|].
    assert (H0 : ri (st_loans s t)) by (apply (ri_keepsr s); [exact H|apply keepsr_same; reflexivity]).
    pose proof (ri_client_send g (st_loans s t) (ln_msg l) H0) as H2.
    destruct (client_send _ _ _) as [s2 [e|p1]]; cbn [fst] in H2; inversion E; subst; exact H2.
  - apply (ri_keepsr s); [exact H|]. destruct (s_loans s) as [|l t]; inversion E; subst; [apply keepsr_refl|apply keepsr_same; reflexivity].
  - pose proof (ri_do_q g s i false H) as K. rewrite E in K. exact K.
  - pose proof (ri_do_q g s i true H) as K. rewrite E in K. exact K.
  - apply (ri_keepsr s); [exact H|]. destruct (nth_opt (s_pends s) k) as [p0|]; [|inversion E; subst; apply keepsr_refl].
    pose proof (keepsr_pend_receive (rcv_fuel s) g s p0 ord) as K.
    destruct (pend_receive _ _ _ _ _) as [s2 r]. cbn [fst] in K.
    destruct r; inversion E; subst; exact K.
  - apply (ri_keepsr s); [exact H|]. destruct (nth_opt _ _); inversion E; subst; [|apply keepsr_refl].
    eapply keepsr_trans; [|apply keepsr_pend_drop]. apply keepsr_same; reflexivity.
  - apply (ri_keepsr s); [exact H|]. destruct (nth_opt _ _); inversion E; subst; [|apply keepsr_refl].
    split; [apply sl_of_logs; apply logs_pend_hint|]. split; [cbn [s_next pend_hint st_conns]; lia|].
    split; [intros SL nn HW; apply rw_pend_hint; exact HW|]. intro HK. eapply ku_keys; [apply keys_pend_hint|exact HK].
  - apply (ri_keepsr s); [exact H|]. destruct (nth_opt _ _); inversion E; subst; [|apply keepsr_refl].
    eapply keepsr_trans; [apply (keepsr_same s (st_resps s (remove_nth (N.to_nat m) (s_resps s)))); reflexivity|].
    split; [apply sl_of_logs; apply logs_response_release|]. split; [cbn [s_next response_release upd_conn st_conns]; lia|].
    split; [intros SL nn HW; apply rw_response_release; exact HW|]. intro HK. eapply ku_keys; [apply keys_response_release|exact HK].
  - destruct (slot_inst _ _) as [sv|]; [|inversion E; subst; exact H].
    destruct H as [A [B [C D]]].
    destruct (rw_server_receive (s_slog s) (s_next s) (srv_fuel s) g s sv j ord A) as [W1 W2].
    pose proof (sl_of_logs _ _ (logs_server_receive (srv_fuel s) g s sv j ord)) as EL.
    pose proof (nx_server_receive (srv_fuel s) g s sv j ord) as EN.
    pose proof (ku_server_receive (srv_fuel s) g s sv j ord D) as KU.
    destruct (server_receive _ _ _ _ _ _) as [s2 r]. cbn [fst snd] in *.
    assert (Hbase : ri s2).
    { unfold ri. rewrite EL. split; [eapply rw_ok_mono; [exact EN|exact W1]|]. split; [|split; assumption].
      intros sv0 m0 Hin. specialize (B sv0 m0 Hin). lia. }
    destruct r as [| |a|]; inversion E; subst; try exact Hbase.
    specialize (W2 a eq_refl). destruct W2 as [F1 [F2 [F3 F4]]].
    unfold ri. cbn [s_slog s_next s_conns st_logs st_acts st_objs rw_ok ku keys]. rewrite EL.
    split; [|split; [|split]].
    + eapply rw_ok_mono; [exact EN|]. apply (rw_slog_append (s_slog s) (s_next s) s2 sv (ac_msg a) W1). repeat split; assumption.
    + intros sv0 m0 Hin. apply in_app_or in Hin. destruct Hin as [Hin | [Ee | []]]; [specialize (B sv0 m0 Hin); lia|]. inversion Ee; subst. lia.
    + apply sls_snoc; [exact C|]. intros [sv1 m1] Hin [K1 K2]. cbn [fst snd] in *. apply (F3 sv1 m1 Hin K1 K2).
    + exact KU.
  - apply (ri_keepsr s); [exact H|]. destruct (slot_inst _ _); [|inversion E; subst; apply keepsr_refl].
    unfold server_has_requests in E. inversion E; subst. apply keepsr_server_sync.
  - apply (ri_keepsr s); [exact H|]. destruct (nth_opt _ _) as [ar|]; [|inversion E; subst; apply keepsr_refl].
    match type of E with context [act_loan g ?x ar ?v] =>
      pose proof (keepsr_act_loan g x ar v) as K; destruct (act_loan g x ar v) as [s2 [e|r]] end; cbn [fst] in K; inversion E; subst.
    + eapply keepsr_trans; [|exact K]. apply keepsr_same; reflexivity.
    + eapply keepsr_trans; [|eapply keepsr_trans; [exact K|apply keepsr_rloan_send]]. apply keepsr_same; reflexivity.
  - apply (ri_keepsr s); [exact H|]. destruct (nth_opt _ _) as [ar|]; [|inversion E; subst; apply keepsr_refl].
    match type of E with context [act_loan g ?x ar ?v] =>
      pose proof (keepsr_act_loan g x ar v) as K; destruct (act_loan g x ar v) as [s2 [e|r]] end; cbn [fst] in K; inversion E; subst.
    + eapply keepsr_trans; [|exact K]. apply keepsr_same; reflexivity.
    + eapply keepsr_trans; [|eapply keepsr_trans; [exact K|apply keepsr_same; reflexivity]]. apply keepsr_same; reflexivity.
  - apply (ri_keepsr s); [exact H|]. destruct (s_rloans s) as [|r t]; inversion E; subst; [apply keepsr_refl|].
    eapply keepsr_trans; [apply (keepsr_same s (st_rloans s t)); reflexivity|apply keepsr_rloan_send].
  - apply (ri_keepsr s); [exact H|]. destruct (s_rloans s) as [|r t]; inversion E; subst; [apply keepsr_refl|apply keepsr_same; reflexivity].
  - apply (ri_keepsr s); [exact H|]. destruct (nth_opt _ _); inversion E; subst; [|apply keepsr_refl].
    eapply keepsr_trans; [apply (keepsr_same s (st_acts s (remove_nth (N.to_nat a) (s_acts s)))); reflexivity|].
    split; [apply sl_of_logs; apply logs_act_drop|]. split; [rewrite (fr_act_drop _ s_next (fun _ _ => eq_refl)); lia|].
    split; [intros SL nn HW; apply rw_act_drop; exact HW|]. intro HK. eapply ku_keys; [apply keys_act_drop|exact HK].
Qed.

Theorem ri_reach : forall g s, reach g s -> ri s.
Proof.
  intros g s H. induction H as [|s ord o Hr IH].
  - split; [constructor|]. split; [intros sv m []|]. split; [constructor|constructor].
  - apply step_ri; exact IH.
Qed.

(* each server receives the requests of one client in send order, each at most once *)
Theorem request_once : forall g s, reach g s ->
  forall l1 sv m1 l2 m2, s_slog s = l1 ++ (sv, m1) :: l2 -> In (sv, m2) l2 -> q_cl m2 = q_cl m1 -> q_stamp m1 < q_stamp m2.
Proof.
  intros g s H l1 sv m1 l2 m2 E Hin Hcl.
  apply (slsorted_spec (s_slog s) (proj1 (proj2 (proj2 (ri_reach g s H)))) l1 (sv, m1) l2 (sv, m2) E Hin).
  split; [reflexivity|]. symmetry; exact Hcl.
Qed.
(* ... and the connection table has at most one connection per (client, server) pair *)
Theorem conn_keys_unique : forall g s, reach g s -> NoDup (map (fun k => (k_cl k, k_sv k)) (s_conns s)).
Proof. intros g s H. exact (proj2 (proj2 (proj2 (ri_reach g s H)))). Qed.

(* non-vacuity: two requests of one client received by one server *)
Definition w_two_req : list op := [Cc 0; Sc 0; Q 0; Q 0; Sr 0; Sr 0].
Lemma w_two_req_spec : map (fun x => (fst x, q_cl (snd x), q_hid (snd x), q_stamp (snd x))) (s_slog (run cfg4 w_two_req)) = [(1, 0, 0, 3); (1, 0, 1, 5)].
Proof. vm_compute. reflexivity. Qed.
