(* C10 proofs, part 2: every step of a thread establishes the guarantee, its own local invariant
   and the global invariant. *)
From V Require Import model.Base model.Conc model.Events model.Container proofs.ListLemmas proofs.ContainerBase proofs.ContainerInv.
From Coq Require Import ZifyBool ZifyNat ZifyN.
Open Scope N_scope.

Ltac simp := cbn [fst snd pc prog fuse arg epoch handles rchange rgen rdata pend ustart ulast uprev
                  cap dist0 dist1 dist2 cells igen gens datas change clock published oplog settled
                  set_pc set_fuse set_prog set_handles set_pend set_epoch set_snap set_ughost set_arg set_crash done abandon dirty orph dead
                  set_cells set_igen set_gens set_datas set_published set_settled tick complete
                  in_rec add_slot busy refreshing scanned in_upd me fusable rec_true] in *.

(* g' is g up to fields no invariant reads (igen, dist) and a later clock *)
Record Same (g g' : cgst) : Prop := {
  Scap : cap g' = cap g; Scells : cells g' = cells g; Sgens : gens g' = gens g; Sdatas : datas g' = datas g;
  Schange : change g' = change g; Sclock : clock g <= clock g'; Spub : published g' = published g;
  Slog : oplog g' = oplog g; Sset : settled g' = settled g }.

Lemma same_refl g : Same g g. Proof. constructor; auto; lia. Qed.
Lemma same_tick g : Same g (tick g). Proof. constructor; simp; auto; lia. Qed.
Lemma same_igen g x : Same g (set_igen g x). Proof. constructor; simp; auto; lia. Qed.

Lemma same_guar t g g' : Same g g' -> Guar t g g'.
Proof.
  intros [A B C D E F G H I]. constructor; rewrite ?A, ?B, ?C, ?D, ?E, ?G, ?H, ?I; auto; try lia;
    try (intros; lia); try (intros; contradiction); try (intros; congruence).
Qed.
Lemma same_ginv g g' : Same g g' -> GInv g -> GInv g'.
Proof.
  intros [A B C D E F G H I] [GA GB GC GD GE]. constructor; rewrite ?A, ?B, ?C, ?D, ?E, ?G, ?H, ?I; auto.
  intros i gm c e Hin. destruct (GD _ _ _ _ Hin) as (? & ? & ? & ?). repeat split; auto; lia.
Qed.
Lemma same_pcinv g g' o l : Same g g' -> PcInv g o l -> PcInv g' o l.
Proof.
  intros [A B C D E F G H I]. unfold PcInv, Uns, SetE, Stale. rewrite ?A, ?B, ?C, ?D, ?I. auto.
Qed.
Lemma same_linv g g' t l : Same g g' -> LInv g t l -> LInv g' t l.
Proof.
  intros S [H0 H1 H2 H3 H4 H5 H6 H7 H8 H9 H10 H11]. pose proof (same_pcinv _ _ (me t l) l S H7) as H7'.
  destruct S as [A B C D E F G H I].
  constructor; rewrite ?A, ?B, ?C, ?D, ?E, ?G, ?H, ?I; auto. lia.
Qed.

(* only the pc (and program / call argument) of the thread changes *)
Lemma linv_pc g t l l' :
  LInv g t l ->
  L0P l' -> epoch l' = epoch l ->
  (forall j i, nth j (handles l') None = Some i -> nth j (handles l) None = Some i) ->
  rchange l' = rchange l -> rgen l' = rgen l -> rdata l' = rdata l -> (forall i gm, In (i, gm) (pend l') -> In (i, gm) (pend l) \/ (i < cap g /\ gm <= gens g i)) ->
  ustart l' = ustart l -> ulast l' = ulast l -> uprev l' = uprev l ->
  (in_rec (pc l') = false -> in_rec (pc l) = false /\
     forall j i, nth j (handles l') None = Some i -> busy (pc l') = Some i -> busy (pc l) = Some i) ->
  (forall n, add_slot (pc l) = Some n -> add_slot (pc l') = Some n \/ (settled g n = true /\ odd (gens g n) = true)) ->
  PcInv g (owner_of t (epoch l)) l' ->
  (forall i, refreshing (pc l') i = false -> refreshing (pc l) i = false \/
      (odd (rgen l i) = true -> In (rgen l i, rdata l i) (published g i))) ->
  (forall i, scanned (pc l') i = true -> scanned (pc l) i = true \/
      (forall gm c e, In (i, gm, c, e) (oplog g) -> c <= rchange l -> gm <= rgen l i)) ->
  (in_upd (pc l') = false -> in_upd (pc l) = false) ->
  LInv g t l'.
Proof.
  intros [H0 H1 H2 H3 H4 H5 H6 H7 H8 H9 H10 H11] Ef Ee Eh Ec Eg Ed Epd Eu El Ev Hb Ha Hp Hr Hsc Hni.
  constructor; unfold me; rewrite ?Ee, ?Ec, ?Eg, ?Ed, ?Eu, ?El, ?Ev.
  - exact Ef.
  - exact H1.
  - exact H2.
  - intros i gm Hin. destruct (Epd i gm Hin) as [E|E]; auto.
  - intros Hir j i Hj. destruct (Hb Hir) as [Hir0 Hbz]. destruct (H4 Hir0 j i (Eh _ _ Hj)) as (A & B & C & D).
    repeat split; auto; try (intro Hbz'; apply C; eapply Hbz; eauto).
  - intros n Hc Hn. destruct (add_slot (pc l)) as [m|] eqn:Ea.
    + destruct (N.eq_dec m n) as [->|Hmn].
      * destruct (Ha n eq_refl) as [E|E]; [congruence|exact E].
      * apply H5; auto; congruence.
    + apply H5; auto; congruence.
  - exact H6.
  - exact Hp.
  - intros i Hrf Ho. destruct (Hr i Hrf) as [E|E]; auto.
  - intros i gm c e Hin Hc Hs. destruct (Hsc i Hs) as [E|E]; eauto.
  - exact H10.
  - intros E. apply H11. auto.
Qed.

Lemma crash_ok_tl o p : crash_ok_prog (o :: p) = true -> crash_ok_prog p = true.
Proof. cbn [crash_ok_prog]. intros H. apply andb_prop in H. tauto. Qed.
Lemma crash_ok_fused o p : crash_ok_prog (o :: p) = true -> crash_free_op o = false -> next_rec p.
Proof.
  cbn [crash_ok_prog]. intros H Ho. rewrite Ho in H. apply andb_prop in H. destruct H as [H _].
  destruct p as [|[| |[|]|] r]; try discriminate. exists r. reflexivity.
Qed.
Lemma crash_free_ok p : forallb crash_free_op p = true -> crash_ok_prog p = true.
Proof. induction p as [|o p IH]; cbn; auto. intros H. apply andb_prop in H. destruct H as [-> H]. cbn. auto. Qed.

(* only the remaining program changes *)
Lemma linv_prog g t l p : LInv g t l -> L0P (set_prog l p) -> LInv g t (set_prog l p).
Proof. intros [H0 H1 H2 H3 H4 H5 H6 H7 H8 H9 H10 H11] Hp. constructor; auto. Qed.

(* L0P of the next local state from the one of the current state *)
Ltac l0p :=
  match goal with
  | Hcf : crash_ok_prog (prog ?l) = true, Hd : dirty ?l = false, Hfz : fuse ?l <> None -> _ |- L0P _ =>
    unfold L0P; try match goal with E : pc l = _ |- _ => rewrite ?E in * end;
    cbn [pc prog fuse dirty set_pc set_fuse set_prog set_handles set_pend set_epoch set_snap set_ughost set_arg set_crash done];
    split; [first [exact Hcf | eapply crash_ok_tl; eassumption]|split; [first [exact Hd|reflexivity]|]];
    let Hz := fresh "Hz" in intros Hz;
    first [ exfalso; apply Hz; reflexivity
          | let Hb := fresh "Hb" in let Hn := fresh "Hn" in destruct (Hfz Hz) as [Hb Hn];
            first [split; [reflexivity|exact Hn] | cbn in Hb; discriminate] ]
  end.

Ltac side :=
  try match goal with E : pc ?l = _ |- _ => rewrite ?E end;
  simp;
  try reflexivity; try assumption; try discriminate; try (symmetry; assumption);
  try l0p;
  try (intros; discriminate);
  try (intros _; split; [reflexivity|intros ? ? ? ?; first [assumption|discriminate]]);
  try (intros ? ? ?; left; assumption);
  try (intros ? ? ?; assumption);
  try (intros ? ?; left; first [assumption|reflexivity]);
  try (intros ? ?; discriminate);
  try (intros _; reflexivity);
  try (intros ? ?; assumption);
  try (let H := fresh in intros ? H; exact (False_ind _ H));
  try (let H := fresh in intros ? ? H; exact (False_ind _ H));
  try (unfold PcInv in *; simp; assumption).

(* a step that only moves the pc (g' = g up to clock / igen) *)
Ltac pcmove HL HGI g g' :=
  let HS := fresh "HS" in
  assert (HS : Same g g') by (first [apply same_refl | apply same_tick | apply same_igen]);
  split; [apply same_guar; exact HS|];
  split; [|apply (same_ginv g g' HS HGI)];
  apply (same_linv g g' _ _ HS);
  eapply (linv_pc g _ _ _ HL); side.


(* the running call returns: pc Idle, no pending entries *)
Lemma linv_done g t l l' :
  LInv g t l ->
  pc l' = Idle -> L0P l' -> epoch l' = epoch l ->
  rchange l' = rchange l -> rgen l' = rgen l -> rdata l' = rdata l -> pend l' = [] -> ustart l' = ustart l ->
  (forall j i, nth j (handles l') None = Some i ->
     i < cap g /\ cells g i = owner_of t (epoch l) /\ forall j', nth j' (handles l') None = Some i -> j' = j) ->
  (forall n, add_slot (pc l) = Some n -> cells g n = owner_of t (epoch l) -> settled g n = true /\ odd (gens g n) = true) ->
  (forall i, refreshing (pc l) i = true -> odd (rgen l i) = true -> In (rgen l i, rdata l i) (published g i)) ->
  (forall i, scanned (pc l) i = false -> forall gm c e, In (i, gm, c, e) (oplog g) -> c <= rchange l -> gm <= rgen l i) ->
  (ulast l' = false -> forall i, uprev l' i = rgen l i) ->
  LInv g t l'.
Proof.
  intros [H0 H1 H2 H3 H4 H5 H6 H7 H8 H9 H10 H11] Epc Ef Ee Ec Eg Ed Epd Eu Hh Ha Hr Hsc Hu.
  constructor; unfold me, PcInv; rewrite ?Epc, ?Ee, ?Ec, ?Eg, ?Ed, ?Epd, ?Eu; simp.
  - exact Ef.
  - exact H1.
  - exact H2.
  - intros i gm [].
  - intros _ j i Hj. destruct (Hh j i Hj) as (A & B & C). repeat split; auto. discriminate.
  - intros n Hc _. destruct (add_slot (pc l)) as [m|] eqn:Ea.
    + destruct (N.eq_dec m n) as [->|Hmn]; [apply Ha; auto|]. apply H5; auto; congruence.
    + apply H5; auto; congruence.
  - exact H6.
  - exact I.
  - intros i _ Ho. destruct (refreshing (pc l) i) eqn:Er; auto.
  - intros i gm c e Hin Hc _. destruct (scanned (pc l) i) eqn:Es; eauto.
  - exact H10.
  - intros _ Hul. apply Hu; auto.
Qed.

(* a step that touches one slot which the stepping thread owns before or after *)
Lemma guar_slot t g g' n :
  cap g' = cap g -> change g' = change g -> clock g <= clock g' -> oplog g' = oplog g ->
  (forall i, i <> n -> cells g' i = cells g i /\ gens g' i = gens g i /\ datas g' i = datas g i /\
                       settled g' i = settled g i /\ published g' i = published g i) ->
  (cells g' n = cells g n \/ (cells g n = EMPTY /\ owned_by t (cells g' n)) \/ (owned_by t (cells g n) /\ cells g' n = EMPTY)) ->
  (owned_by t (cells g n) \/ owned_by t (cells g' n)) ->
  gens g n <= gens g' n ->
  (forall x, In x (published g n) -> In x (published g' n)) ->
  (settled g n = false -> settled g' n = true -> odd (gens g' n) = false) ->
  (datas g' n <> datas g n -> odd (gens g n) = false /\ gens g' n = gens g n) ->
  Guar t g g'.
Proof.
  intros Ecap Ech Eck Elog Hoth Hcell Hown Hgen Hpub Hset Hdat.
  constructor; rewrite ?Ecap, ?Ech, ?Elog; auto; try lia.
  - intros i. destruct (N.eq_dec i n) as [->|Hi]; auto. destruct (Hoth i Hi) as (_ & -> & _). lia.
  - intros i x. destruct (N.eq_dec i n) as [->|Hi]; auto. destruct (Hoth i Hi) as (_ & _ & _ & _ & ->). auto.
  - intros; contradiction.
  - intros i. destruct (N.eq_dec i n) as [->|Hi]; auto. destruct (Hoth i Hi) as (-> & _). auto.
  - intros i. destruct (N.eq_dec i n) as [->|Hi]; [tauto|]. destruct (Hoth i Hi) as (_ & -> & -> & -> & _). auto.
  - intros i. destruct (N.eq_dec i n) as [->|Hi]; auto. destruct (Hoth i Hi) as (_ & _ & _ & -> & _). congruence.
  - intros i. destruct (N.eq_dec i n) as [->|Hi]; auto. destruct (Hoth i Hi) as (_ & _ & -> & _). congruence.
Qed.

(* the delayed generation CAS of a remove / recover on a slot it no longer owns *)
Lemma guar_stale t g n gn :
  settled g n = false -> gens g n = gn -> odd gn = true ->
  Guar t g (set_gens g (fupd (gens g) n (gn + 1))).
Proof.
  intros Hs Hg Ho. constructor; simp; auto; try lia; try (intros; contradiction); try (intros; congruence).
  all: intros i; unfold fupd; destruct (N.eqb_spec i n); subst; auto; try lia.
  all: right; right; right; rewrite Ho; auto.
Qed.

(* the final change.fetch_add of a writer call *)
Lemma guar_complete t g pd : Guar t g (complete g pd).
Proof.
  constructor; simp; auto; try lia; try (intros; congruence).
  - intros x Hx. apply in_or_app. auto.
  - intros i gm c e Hin Hn. apply in_app_or in Hin. destruct Hin as [Hin|Hin]; [|contradiction].
    apply in_map_iff in Hin. destruct Hin as [[a b] [E _]]. inversion E; subst. lia.
Qed.

Lemma linv_complete g t l l' pd :
  LInv g t l -> (forall i gm, In (i, gm) pd -> i < cap g /\ gm <= gens g i) ->
  LInv g t l' -> LInv (complete g pd) t l'.
Proof.
  intros HL Hpd [H0 H1 H2 H3 H4 H5 H6 H7 H8 H9 H10 H11].
  constructor; simp; auto; try lia.
  - intros i gm c e Hin Hc Hs. apply in_app_or in Hin. destruct Hin as [Hin|Hin]; [|eauto].
    apply in_map_iff in Hin. destruct Hin as [[a b] [E _]]. inversion E; subst. lia.
  - intros i gm c e Hin He. apply in_app_or in Hin. destruct Hin as [Hin|Hin]; [|eauto].
    apply in_map_iff in Hin. destruct Hin as [[a b] [E _]]. inversion E; subst. lia.
Qed.
Lemma ginv_complete g pd : GInv g -> (forall i gm, In (i, gm) pd -> i < cap g /\ gm <= gens g i) -> GInv (complete g pd).
Proof.
  intros [GA' GB' GC' GD' GE'] Hpd. constructor; simp; auto.
  intros i gm c e Hin. apply in_app_or in Hin. destruct Hin as [Hin|Hin].
  - apply in_map_iff in Hin. destruct Hin as [[a b] [E Hab]]. inversion E; subst. destruct (Hpd _ _ Hab). repeat split; auto; lia.
  - destruct (GD' _ _ _ _ Hin) as (? & ? & ? & ?). repeat split; auto; lia.
Qed.
Lemma nth_snoc {A} (h : list A) (x d : A) j :
  nth j (h ++ [x]) d = if Nat.ltb j (length h) then nth j h d else if Nat.eqb j (length h) then x else d.
Proof.
  destruct (Nat.ltb_spec j (length h)).
  - apply app_nth1; auto.
  - rewrite app_nth2 by lia. destruct (Nat.eqb_spec j (length h)).
    + subst. rewrite Nat.sub_diag. reflexivity.
    + destruct (j - length h)%nat as [|[|k]] eqn:E; try lia; reflexivity.
Qed.

Ltac guar_tac := constructor; simp; auto; try lia; try (intros; lia); try (intros; contradiction); try (intros; congruence).

Section Step.
  Variables (t : nat) (g : cgst) (l : clst).
  Hypothesis HGI : GInv g.
  Hypothesis HL : LInv g t l.

  Definition Goal3 (r : option (cgst * clst * list ev)) : Prop :=
    match r with Some (g', l', _) => Guar t g g' /\ LInv g' t l' /\ GInv g' | None => True end.

  Lemma step_ok : Goal3 (step_acc t g l).
  Proof.
    pose proof HL as [(Hcf & Hdy & Hfz) H1 H2 H3 H4 H5 H6 H7 H8 H9 H10 H11]. unfold PcInv in H7.
    unfold step_acc, Goal3.
    destruct (pc l) eqn:Epc.
    - (* Idle *)
      destruct (prog l) as [|o p] eqn:Eprog; [exact I|].
      pose proof (crash_ok_tl _ _ Hcf) as Hcf'.
      assert (Hfn : fuse l = None).
      { destruct (fuse l) eqn:Ef; auto. destruct Hfz as [Hb _]; [discriminate|]. cbn in Hb. discriminate. }
      assert (HP0 : forall l0, prog l0 = p -> dirty l0 = false -> fuse l0 = None -> L0P l0).
      { intros l0 E1 E2 E3. unfold L0P. rewrite E1, E2, E3. split; [exact Hcf'|]. split; [reflexivity|]. intros Hz. exfalso. apply Hz. reflexivity. }
      destruct o as [v fz|j fz|pr|].
      + (* add *)
        destruct fz as [[|k]|]; simp.
        * split; [apply same_guar, same_tick|]. split; [|apply (same_ginv g _ (same_tick g) HGI)].
          apply (same_linv g _ _ _ (same_tick g)). apply linv_prog; auto.
        * pcmove HL HGI g (tick g). unfold L0P. simp. repeat split; auto. eapply crash_ok_fused; eauto.
        * pcmove HL HGI g (tick g). apply HP0; auto.
      + (* remove *)
        destruct (nth j (handles l) None) as [i|] eqn:Ej.
        * assert (Hjl : (j < length (handles l))%nat).
          { destruct (Nat.ltb_spec j (length (handles l))); auto. rewrite nth_overflow in Ej by lia. discriminate. }
          assert (Hsub : forall j' i', nth j' (upd (handles l) j None) None = Some i' -> nth j' (handles l) None = Some i' /\ j' <> j).
          { intros j' i'. destruct (Nat.eq_dec j j') as [<-|Hjj].
            - rewrite nth_upd_same by auto. discriminate.
            - rewrite nth_upd_other by auto. auto. }
          destruct (H4 eq_refl j i Ej) as (A & B & C & D).
          destruct fz as [[|k]|]; simp; pcmove HL HGI g (tick g).
          all: try solve [apply HP0; auto].
          all: try (intros j' i' Hj'; apply Hsub; auto).
          all: try (unfold L0P; simp; repeat split; auto; eapply crash_ok_fused; eauto).
          all: try (intros _; split; auto; intros j' i' Hj' E; inversion E; subst i'; destruct (Hsub _ _ Hj') as [Hj'' Hne]; exfalso; apply Hne; apply D; auto).
          all: try (unfold PcInv; simp; auto).
          all: rewrite ?Epc; simp; try exact I; try (intros _; split; [reflexivity|intros; assumption]); try (intros; discriminate).
        * split; [apply same_guar, same_refl|]. split; [|exact HGI]. apply linv_prog; auto.
      + (* recover *)
        pcmove HL HGI g (tick g). apply HP0; auto.
      + (* update *)
        destruct HGI as [GA' GB' GC' GD' GE'].
        destruct (N.eqb_spec (rchange l) (change g)) as [Ec|Ec].
        * split; [apply same_guar; constructor; simp; auto; lia|]. split; [|apply (same_ginv g); [constructor; simp; auto; lia|constructor; auto]].
          constructor; unfold PcInv; simp; rewrite ?Epc; simp; auto; try lia; try l0p.
          all: try solve [intros i gm c e Hin He; destruct (GD' _ _ _ _ Hin) as (_ & _ & ? & _); lia].
          all: try (apply HP0; auto).
        * split; [apply same_guar, same_tick|]. split; [|apply (same_ginv g _ (same_tick g)); constructor; auto].
          constructor; unfold PcInv; simp; rewrite ?Epc; simp; auto; try lia; try l0p.
          all: try solve [intros; discriminate].
          all: try solve [intros i gm c e Hin He; destruct (GD' _ _ _ _ Hin) as (_ & _ & ? & _); lia].
          all: try (apply HP0; auto).
    - (* AddLoadIgen *)
      unfold add_next. destruct (N.ltb_spec 0 (cap g)); pcmove HL HGI g g.
    - (* AddScan *)
      rename n into n0. rename cur into cur0.
      destruct (N.eqb_spec (cells g n0) EMPTY) as [Ee|Ene].
      + assert (Hns : settled g n0 = false).
        { destruct (settled g n0) eqn:E; auto. exfalso. eapply (GE _ HGI); eauto. }
        assert (Hme : forall i, cells g i = me t l -> i <> n0).
        { intros i Hi ->. rewrite Ee in Hi. symmetry in Hi. eapply owner_not_empty; eauto. }
        split; [|split].
        * apply (guar_slot t g _ n0); simp; auto; try lia; try (intros; congruence);
            try (intros i Hi; rewrite fupd_other by auto; auto); rewrite ?fupd_same;
            [right; left; split; auto; eexists; reflexivity|right; eexists; reflexivity].
        * constructor; simp; auto; try l0p.
          -- intros _ j i Hj. destruct (H4 eq_refl j i Hj) as (A & B & C & D). pose proof (Hme i B).
             rewrite fupd_other by auto. repeat split; auto. congruence.
          -- intros m Hc Hm. assert (m <> n0) by congruence. rewrite fupd_other in Hc by auto. apply H5; auto. discriminate.
          -- intros m e. unfold fupd. destruct (N.eqb_spec m n0); subst; [|apply H6].
             intros E. apply owner_of_inj in E. lia.
          -- unfold PcInv, Uns. simp. rewrite fupd_same. auto.
        * destruct HGI as [GA' GB' GC' GD' GE']. constructor; simp; auto; try l0p.
          intros i. unfold fupd. destruct (N.eqb_spec i n0); subst; [intros _; apply owner_not_empty|apply GE'].
      + unfold add_next. destruct (N.ltb_spec (n0 + 1) (cap g)); pcmove HL HGI g g.
    - (* AddFinal *)
      destruct (N.eqb_spec (igen g) cur).
      + split; [apply same_guar, same_tick|]. split; [|apply (same_ginv g _ (same_tick g) HGI)].
        apply (same_linv g _ _ _ (same_tick g)).
        eapply (linv_done g t l); [exact HL|side..]; rewrite ?Epc; simp; try (intros; discriminate); try (intros; apply H11; auto).
        intros j i Hj. destruct (H4 eq_refl j i Hj) as (A & B & C & D). auto.
      + unfold add_next. destruct (N.ltb_spec 0 (cap g)); pcmove HL HGI g g.
    - (* IncLoad *) destruct k; pcmove HL HGI g g.
    - (* IncCas *)
      destruct (N.eqb_spec (igen g) c).
      + destruct k as [v n|i gn|n acc p]; unfold after_inc, rec_next; try destruct (N.ltb_spec (n + 1) (cap g));
          pcmove HL HGI g (set_igen g (c + 1)).
      + destruct k; pcmove HL HGI g g.
    - (* AddDist0 *) pcmove HL HGI g g.
    - (* AddLoadGen *)
      destruct H7 as (Hn & Hc & Hs).
      destruct (odd (gens g n)) eqn:Eo.
      + pcmove HL HGI g g. unfold PcInv, Uns. simp. auto.
      + split; [|split].
        * apply (guar_slot t g _ n); simp; auto; try lia; try (intros; congruence);
            try (intros i Hi; rewrite fupd_other by auto; auto).
          left. exists (epoch l). auto.
        * constructor; simp; auto; try l0p.
          -- intros m Hc' Hm. assert (m <> n) by congruence. rewrite fupd_other by auto. apply H5; auto; congruence.
          -- unfold PcInv, SetE. simp. rewrite fupd_same. auto.
        * destruct HGI as [GA' GB' GC' GD' GE']. constructor; simp; auto; try l0p.
          intros i. unfold fupd. destruct (N.eqb_spec i n); subst; [intros _; rewrite Hc; apply owner_not_empty|apply GE'].
    - (* AddCasGen *)
      rename g0 into x.
      destruct H7 as (Hn & [Hc Hs] & Hx & Hg).
      assert (Hox : odd (x + 1) = false) by (rewrite odd_succ, Hx; reflexivity).
      destruct (N.eqb_spec (gens g n) x) as [Eg|Eg].
      + split; [|split].
        * apply (guar_slot t g _ n); simp; auto; try lia; try (intros; congruence);
            try (intros i Hi; rewrite !fupd_other by auto; auto); rewrite ?fupd_same; try lia; auto.
          all: try solve [left; exists (epoch l); auto].
        * constructor; simp; auto; try l0p.
          -- intros i. unfold fupd. destruct (N.eqb_spec i n); subst; [pose proof (H2 n); lia|apply H2].
          -- intros i gm Hin. destruct (H3 i gm Hin). split; auto. unfold fupd. destruct (N.eqb_spec i n); subst; lia.
          -- intros m Hc' Hm. assert (m <> n) by congruence. rewrite !fupd_other by auto. apply H5; auto; congruence.
          -- unfold PcInv, SetE. simp. rewrite !fupd_same. auto.
        * destruct HGI as [GA' GB' GC' GD' GE']. constructor; simp; auto; try l0p.
          -- intros i a b Hin. destruct (GA' i a b Hin). split; auto. unfold fupd. destruct (N.eqb_spec i n); subst; lia.
          -- intros i. unfold fupd. destruct (N.eqb_spec i n); subst; [congruence|apply GB'].
          -- intros i gm c e Hin. destruct (GD' _ _ _ _ Hin) as (? & ? & ? & ?). repeat split; auto.
             unfold fupd. destruct (N.eqb_spec i n); subst; lia.
          -- intros i. unfold fupd. destruct (N.eqb_spec i n); subst; [intros _; rewrite Hc; apply owner_not_empty|apply GE'].
      + assert (Eg' : gens g n = x + 1) by tauto.
        split; [|split].
        * apply (guar_slot t g _ n); simp; auto; try lia; try (intros; congruence);
            try (intros i Hi; rewrite !fupd_other by auto; auto); rewrite ?fupd_same; try lia; auto.
          all: try solve [left; exists (epoch l); auto].
          all: try solve [intros _ _; rewrite Eg'; auto].
        * constructor; simp; auto; try l0p.
          -- intros m Hc' Hm. assert (m <> n) by congruence. rewrite !fupd_other by auto. apply H5; auto; congruence.
          -- unfold PcInv, SetE. simp. rewrite !fupd_same. rewrite Eg'. auto.
        * destruct HGI as [GA' GB' GC' GD' GE']. constructor; simp; auto; try l0p.
          intros i. unfold fupd. destruct (N.eqb_spec i n); subst; [intros _; rewrite Hc; apply owner_not_empty|apply GE'].
    - (* AddDist1 *) pcmove HL HGI g g.
    - (* AddWrite *)
      destruct H7 as (Hn & Hc & Hs & Ho).
      split; [|split].
      * apply (guar_slot t g _ n); simp; auto; try lia; try (intros; congruence);
          try (intros i Hi; rewrite !fupd_other by auto; auto); rewrite ?fupd_same; try lia; auto.
        all: try solve [left; exists (epoch l); auto].
      * constructor; simp; auto; try l0p.
        unfold PcInv, SetE. simp. rewrite !fupd_same. auto.
      * destruct HGI as [GA' GB' GC' GD' GE']. constructor; simp; auto; try l0p.
        intros i. unfold fupd. destruct (N.eqb_spec i n); subst; [congruence|apply GB'].
    - (* AddIncGen *)
      destruct H7 as (Hn & (Hc & Hs & Ho) & Hd).
      assert (Hox : odd (gens g n + 1) = true) by (rewrite odd_succ, Ho; reflexivity).
      split; [|split].
      * apply (guar_slot t g _ n); simp; auto; try lia; try (intros; congruence);
          try (intros i Hi; rewrite !fupd_other by auto; auto); rewrite ?fupd_same; try lia; auto.
        all: try solve [left; exists (epoch l); auto].
        all: try solve [intros x Hx; apply in_or_app; auto].
      * constructor; simp; auto; try l0p.
        -- intros i. unfold fupd. destruct (N.eqb_spec i n); subst; [pose proof (H2 n); lia|apply H2].
        -- intros i gm [E|[]]. inversion E; subst. rewrite fupd_same. split; auto; lia.
        -- intros m Hc' _. unfold fupd. destruct (N.eqb_spec m n); subst; [auto|]. apply H5; auto; congruence.
        -- unfold PcInv. simp. auto.
        -- intros i Hr Hoi. unfold fupd. destruct (N.eqb_spec i n); subst; [apply in_or_app; left|]; apply H8; auto.
      * destruct HGI as [GA' GB' GC' GD' GE']. constructor; simp; auto; try l0p.
        -- intros i a b. unfold fupd. destruct (N.eqb_spec i n); subst.
           ++ intros Hin. apply in_app_or in Hin. destruct Hin as [Hin|[E|[]]].
              ** destruct (GA' _ _ _ Hin). split; auto; lia.
              ** inversion E; subst. split; auto; lia.
           ++ apply GA'.
        -- intros i. unfold fupd. destruct (N.eqb_spec i n); subst; [|apply GB'].
           intros _. apply in_or_app. right. left. congruence.
        -- intros i a b b'. unfold fupd. destruct (N.eqb_spec i n); subst; [|apply GC'].
           intros Hi1 Hi2. apply in_app_or in Hi1. apply in_app_or in Hi2.
           destruct Hi1 as [Hi1|[E1|[]]]; destruct Hi2 as [Hi2|[E2|[]]].
           ++ eapply GC'; eauto.
           ++ inversion E2; subst. destruct (GA' _ _ _ Hi1). lia.
           ++ inversion E1; subst. destruct (GA' _ _ _ Hi2). lia.
           ++ congruence.
        -- intros i gm c e Hin. destruct (GD' _ _ _ _ Hin) as (? & ? & ? & ?). repeat split; auto.
           unfold fupd. destruct (N.eqb_spec i n); subst; lia.
    - (* AddIncChange *)
      split; [apply guar_complete|]. split; [|apply ginv_complete; auto].
      apply (linv_complete g t l); auto.
      eapply (linv_pc g t l); [exact HL|side..].
    - (* AddDist1b *) pcmove HL HGI g g.
    - (* AddRetCell *)
      destruct H7 as (Hn & Hc).
      split; [apply same_guar, same_refl|]. split; [|exact HGI].
      eapply (linv_done g t l); [exact HL|side..]; rewrite ?Epc; simp; try (intros; discriminate); try (intros; apply H11; auto).
      intros j i. rewrite nth_snoc.
      assert (Hold : forall j0 i0, nth j0 (handles l) None = Some i0 -> (j0 < length (handles l))%nat).
      { intros j0 i0 Hj0. destruct (Nat.ltb_spec j0 (length (handles l))); auto. rewrite nth_overflow in Hj0 by lia. discriminate. }
      destruct (Nat.ltb_spec j (length (handles l))) as [Hlt|Hge].
      + intros Hj. destruct (H4 eq_refl j i Hj) as (A & B & C & D). split; auto. split; auto.
        intros j'. rewrite nth_snoc. destruct (Nat.ltb_spec j' (length (handles l))); [apply D|].
        destruct (Nat.eqb_spec j' (length (handles l))); [|discriminate]. congruence.
      + destruct (Nat.eqb_spec j (length (handles l))) as [Ej|]; [|discriminate].
        intros E. inversion E; subst i. split; auto. split; auto.
        intros j'. rewrite nth_snoc. destruct (Nat.ltb_spec j' (length (handles l))).
        * intros Hj'. destruct (H4 eq_refl j' n Hj') as (_ & _ & C & _). congruence.
        * destruct (Nat.eqb_spec j' (length (handles l))); [congruence|discriminate].
    - (* RemLoadGen *)
      pcmove HL HGI g g. unfold PcInv in *. simp. tauto.
    - (* RemDist2 *) pcmove HL HGI g g.
    - (* RemCasCell *)
      destruct H7 as (Hn & Hc & Hg). destruct (H5 i Hc ltac:(discriminate)) as [Hs Ho].
      destruct (N.eqb_spec (cells g i) (owner_of t (epoch l))) as [_|Ebad]; [|exfalso; apply Ebad; exact Hc].
      assert (Hne : me t l <> EMPTY) by apply owner_not_empty.
      split; [|split].
      * apply (guar_slot t g _ i); simp; auto; try lia; try (intros; congruence);
          try (intros m Hm; rewrite !fupd_other by auto; auto); rewrite ?fupd_same; try lia; auto.
        all: try solve [left; exists (epoch l); auto].
        all: try solve [right; right; split; auto; exists (epoch l); auto].
      * constructor; simp; auto; try l0p.
        -- intros _ j i0 Hj. destruct (H4 eq_refl j i0 Hj) as (A & B & C & D). assert (i0 <> i) by congruence.
           rewrite fupd_other by auto. repeat split; auto. discriminate.
        -- intros m. unfold fupd at 1. destruct (N.eqb_spec m i); subst; [intros E; exfalso; apply Hne; auto|].
           intros Hc' _. rewrite fupd_other by auto. apply H5; auto. discriminate.
        -- intros m e. unfold fupd. destruct (N.eqb_spec m i); subst; [|apply H6].
           intros E. exfalso. eapply owner_not_empty. symmetry. exact E.
        -- unfold PcInv, Stale. simp. rewrite fupd_same. subst gn. repeat split; auto; try lia; try discriminate.
      * destruct HGI as [GA' GB' GC' GD' GE']. constructor; simp; auto; try l0p.
        intros m. unfold fupd. destruct (N.eqb_spec m i); subst; [discriminate|apply GE'].
    - (* RemCasGen *)
      destruct H7 as (Hn & Ho & Hle & Hst).
      assert (Hog : odd (gn + 1) = false) by (rewrite odd_succ, Ho; reflexivity).
      destruct (N.eqb_spec (gens g i) gn) as [Eg|Eg].
      + assert (Hs : settled g i = false) by (destruct (settled g i); auto; specialize (Hst eq_refl); lia).
        split; [apply guar_stale; auto|]. split.
        * constructor; simp; auto; try l0p.
          -- intros m. unfold fupd. destruct (N.eqb_spec m i); subst; [pose proof (H2 i); lia|apply H2].
          -- intros m gm [E|[]]. inversion E; subst. rewrite fupd_same. split; auto; lia.
          -- intros m Hc' Hm. destruct (H5 m Hc' Hm) as [A B]. assert (m <> i) by congruence. rewrite fupd_other by auto. auto.
          -- unfold PcInv. simp. exact I.
        * destruct HGI as [GA' GB' GC' GD' GE']. constructor; simp; auto; try l0p.
          -- intros m a b Hin. destruct (GA' m a b Hin). split; auto. unfold fupd. destruct (N.eqb_spec m i); subst; lia.
          -- intros m. unfold fupd. destruct (N.eqb_spec m i); subst; [congruence|apply GB'].
          -- intros m gm c e Hin. destruct (GD' _ _ _ _ Hin) as (? & ? & ? & ?). repeat split; auto.
             unfold fupd. destruct (N.eqb_spec m i); subst; lia.
      + pcmove HL HGI g g. intros m gm [E|[]]. inversion E; subst. right. split; auto; lia.
    - (* RemIncChange *)
      split; [apply guar_complete|]. split; [|apply ginv_complete; auto].
      apply (linv_complete g t l); auto.
      eapply (linv_done g t l); [exact HL|side..]; rewrite ?Epc; simp; try (intros; discriminate); try (intros; apply H11; auto).
      intros j i Hj. destruct (H4 eq_refl j i Hj) as (A & B & C & D). auto.
    - (* RecDist2 *) unfold rec_next. destruct (N.ltb_spec 0 (cap g)); pcmove HL HGI g g.
    - (* RecLoadCell *)
      unfold rec_next. destruct (N.eqb_spec (cells g n) EMPTY); try destruct (N.ltb_spec (n + 1) (cap g)); pcmove HL HGI g g.
      all: unfold PcInv; simp; auto.
    - (* RecPDist0 *)
      unfold rec_next. destruct (N.eqb_spec o (owner_of t (epoch l))); try destruct (N.ltb_spec (n + 1) (cap g)); pcmove HL HGI g g.
      all: unfold PcInv in *; simp; tauto.
    - (* RecLoadGen *)
      destruct H7 as (Hn & Hc). destruct (H5 n Hc ltac:(discriminate)) as [Hs Ho]. rewrite Ho.
      pcmove HL HGI g g. unfold PcInv. simp. auto.
    - (* RecPDist1 *) pcmove HL HGI g g.
    - (* RecRead *) pcmove HL HGI g g.
    - (* RecValidate *)
      destruct H7 as (Hn & Hc & Hg). destruct (N.eqb_spec (gens g n) cur) as [_|Ebad]; [|congruence].
      unfold rec_next. destruct p; try destruct (N.ltb_spec (n + 1) (cap g)); pcmove HL HGI g g.
      all: unfold PcInv; simp; auto.
    - (* RecCasCell *)
      destruct H7 as (Hn & Hc & Hg). destruct (H5 n Hc ltac:(discriminate)) as [Hs Ho].
      destruct (N.eqb_spec (cells g n) (owner_of t (epoch l))) as [_|Ebad]; [|exfalso; apply Ebad; exact Hc].
      assert (Hne : me t l <> EMPTY) by apply owner_not_empty.
      assert (Hov : odd v = true) by congruence. rewrite Hov.
      split; [|split].
      * apply (guar_slot t g _ n); simp; auto; try lia; try (intros; congruence);
          try (intros m Hm; rewrite !fupd_other by auto; auto); rewrite ?fupd_same; try lia; auto.
        all: try solve [left; exists (epoch l); auto].
        all: try solve [right; right; split; auto; exists (epoch l); auto].
      * constructor; simp; auto; try l0p.
        -- intros; discriminate.
        -- intros m. unfold fupd at 1. destruct (N.eqb_spec m n); subst; [intros E; exfalso; apply Hne; auto|].
           intros Hc' _. rewrite fupd_other by auto. apply H5; auto. discriminate.
        -- intros m e. unfold fupd. destruct (N.eqb_spec m n); subst; [|apply H6].
           intros E. exfalso. eapply owner_not_empty. symmetry. exact E.
        -- unfold PcInv, Stale. simp. rewrite fupd_same. subst v. repeat split; auto; try lia; try discriminate.
      * destruct HGI as [GA' GB' GC' GD' GE']. constructor; simp; auto; try l0p.
        intros m. unfold fupd. destruct (N.eqb_spec m n); subst; [discriminate|apply GE'].
    - (* RecSDist0 *) pcmove HL HGI g g.
    - (* RecCasGen *)
      destruct H7 as (Hn & Ho & Hle & Hst).
      assert (Hog : odd (v + 1) = false) by (rewrite odd_succ, Ho; reflexivity).
      destruct (N.eqb_spec (gens g n) v) as [Eg|Eg].
      + assert (Hs : settled g n = false) by (destruct (settled g n); auto; specialize (Hst eq_refl); lia).
        split; [apply guar_stale; auto|]. split.
        * constructor; simp; auto; try l0p.
          -- intros m. unfold fupd. destruct (N.eqb_spec m n); subst; [pose proof (H2 n); lia|apply H2].
          -- intros m gm [E|Hin].
             ++ inversion E; subst. rewrite fupd_same. split; auto; lia.
             ++ destruct (H3 m gm Hin). split; auto. unfold fupd. destruct (N.eqb_spec m n); subst; lia.
          -- intros m Hc' Hm. destruct (H5 m Hc' Hm) as [A B]. assert (m <> n) by congruence. rewrite fupd_other by auto. auto.
          -- unfold PcInv. simp. exact I.
        * destruct HGI as [GA' GB' GC' GD' GE']. constructor; simp; auto; try l0p.
          -- intros m a b Hin. destruct (GA' m a b Hin). split; auto. unfold fupd. destruct (N.eqb_spec m n); subst; lia.
          -- intros m. unfold fupd. destruct (N.eqb_spec m n); subst; [congruence|apply GB'].
          -- intros m gm c e Hin. destruct (GD' _ _ _ _ Hin) as (? & ? & ? & ?). repeat split; auto.
             unfold fupd. destruct (N.eqb_spec m n); subst; lia.
      + pcmove HL HGI g g. intros m gm [E|Hin]; [|left; exact Hin]. inversion E; subst. right. split; auto; lia.
    - (* RecEnd *) pcmove HL HGI g g.
    - (* RecIncChange *)
      split; [apply guar_complete|]. split; [|apply ginv_complete; auto].
      apply (linv_complete g t l); auto.
      assert (Hnone : forall j i, nth j (map (fun _ : option N => @None N) (handles l)) None <> Some i).
      { intros j i. generalize (handles l) j. induction l0 as [|h hs IH]; intros [|j0]; cbn; try discriminate. apply IH. }
      constructor; simp; auto; try l0p.
      -- intros i gm [].
      -- intros _ j i Hj. exfalso. eapply Hnone; eauto.
      -- intros m Hc _. unfold me in Hc. simp. apply H6 in Hc. lia.
      -- intros m e Hc. apply H6 in Hc. lia.
    - (* UpdDist0 *)
      destruct HGI as [GA' GB' GC' GD' GE'].
      destruct (N.ltb_spec 0 (cap g)) as [Hc|Hc].
      + pcmove HL (Build_GInv g GA' GB' GC' GD' GE') g g. intros i Hs. apply N.ltb_lt in Hs. lia.
      + split; [apply same_guar, same_tick|]. split; [|apply (same_ginv g _ (same_tick g)); constructor; auto].
        apply (same_linv g _ _ _ (same_tick g)).
        eapply (linv_done g t l); [exact HL|side..]; rewrite ?Epc; simp; try (intros; discriminate).
        * intros j i Hj. destruct (H4 eq_refl j i Hj) as (A & B & C & D). auto.
        * intros i _ gm c e Hin. destruct (GD' _ _ _ _ Hin) as (? & _). lia.
    - (* UpdLoadGen *)
      destruct HGI as [GA' GB' GC' GD' GE'].
      assert (Hlog : forall gm c e, In (i, gm, c, e) (oplog g) -> gm <= gens g i /\ i < cap g).
      { intros gm c e Hin. destruct (GD' _ _ _ _ Hin) as (? & ? & _). auto. }
      destruct (N.eqb_spec (gens g i) (rgen l i)) as [Eq|Eq].
      + unfold upd_next. destruct (N.ltb_spec (i + 1) (cap g)) as [Hc|Hc].
        * pcmove HL (Build_GInv g GA' GB' GC' GD' GE') g g.
          intros m Hs. apply N.ltb_lt in Hs. destruct (N.eq_dec m i) as [->|Hm].
          -- right. intros gm c e Hin _. destruct (Hlog _ _ _ Hin). lia.
          -- left. apply N.ltb_lt. lia.
        * split; [apply same_guar, same_tick|]. split; [|apply (same_ginv g _ (same_tick g)); constructor; auto].
          apply (same_linv g _ _ _ (same_tick g)).
          eapply (linv_done g t l); [exact HL|side..]; rewrite ?Epc; simp; try (intros; discriminate).
          -- intros j i0 Hj. destruct (H4 eq_refl j i0 Hj) as (A & B & C & D). auto.
          -- intros m Hs gm c e Hin _. apply N.ltb_ge in Hs. destruct (GD' _ _ _ _ Hin) as (? & ? & _).
             assert (m = i) by lia. subst m. lia.
      + assert (Hsnap : LInv g t (set_snap l (rchange l) (fupd (rgen l) i (gens g i)) (rdata l)) -> True) by auto.
        destruct (odd (gens g i)) eqn:Eo.
        * split; [apply same_guar, same_refl|]. split; [|constructor; auto].
          constructor; unfold PcInv; simp; rewrite ?Epc; simp; auto; try lia; try l0p.
          all: try solve [intros; discriminate].
          -- intros m. unfold fupd. destruct (N.eqb_spec m i); subst; [lia|apply H2].
          -- rewrite fupd_same. split; auto; lia.
          -- intros m Hr. unfold fupd. destruct (N.eqb_spec m i); subst; [rewrite N.eqb_refl in Hr; discriminate|apply H8; auto].
          -- intros m gm c e Hin Hcc Hs. apply N.leb_le in Hs. unfold fupd. destruct (N.eqb_spec m i); subst.
             ++ destruct (Hlog _ _ _ Hin). lia.
             ++ eapply H9; eauto. apply N.ltb_lt. lia.
        * split; [apply same_guar, same_refl|]. split; [|constructor; auto].
          constructor; unfold PcInv; simp; rewrite ?Epc; simp; auto; try lia; try l0p.
          all: try solve [intros; discriminate].
          -- intros m. unfold fupd. destruct (N.eqb_spec m i); subst; [lia|apply H2].
          -- rewrite fupd_same. split; auto. split; [lia|]. intros; congruence.
          -- intros m Hr. unfold fupd. destruct (N.eqb_spec m i); subst; [rewrite N.eqb_refl in Hr; discriminate|apply H8; auto].
          -- intros m gm c e Hin Hcc Hs. apply N.leb_le in Hs. unfold fupd. destruct (N.eqb_spec m i); subst.
             ++ destruct (Hlog _ _ _ Hin). lia.
             ++ eapply H9; eauto. apply N.ltb_lt. lia.
    - (* UpdDist1 *) pcmove HL HGI g g.
    - (* UpdCopy *)
      destruct H7 as (Hr & Hle).
      split; [apply same_guar, same_refl|]. split; [|exact HGI].
      constructor; unfold PcInv; simp; rewrite ?Epc; simp; auto; try lia; try l0p.
      all: try solve [intros; discriminate].
      + rewrite fupd_same. auto.
      + intros m Hrm. unfold fupd. destruct (N.eqb_spec m i); subst; [rewrite N.eqb_refl in Hrm; discriminate|apply H8; auto].
    - (* UpdValidate *)
      destruct HGI as [GA' GB' GC' GD' GE'].
      destruct H7 as (Hr & Hle & Hd).
      assert (Hlog : forall gm c e, In (i, gm, c, e) (oplog g) -> gm <= gens g i /\ i < cap g).
      { intros gm c e Hin. destruct (GD' _ _ _ _ Hin) as (? & ? & _). auto. }
      destruct (N.eqb_spec (gens g i) cur) as [Eq|Eq].
      + assert (Hpub : odd (rgen l i) = true -> In (rgen l i, rdata l i) (published g i)).
        { intros Ho. rewrite Hr in *. rewrite (Hd Ho Eq). rewrite <- Eq. apply GB'. congruence. }
        unfold upd_next. destruct (N.ltb_spec (i + 1) (cap g)) as [Hc|Hc].
        * pcmove HL (Build_GInv g GA' GB' GC' GD' GE') g g.
          -- intros m _. destruct (N.eqb_spec i m); subst; auto.
          -- intros m Hs. apply N.ltb_lt in Hs. left. apply N.leb_le. lia.
        * split; [apply same_guar, same_tick|]. split; [|apply (same_ginv g _ (same_tick g)); constructor; auto].
          apply (same_linv g _ _ _ (same_tick g)).
          eapply (linv_done g t l); [exact HL|side..]; rewrite ?Epc; simp; try (intros; discriminate).
          -- intros j i0 Hj. destruct (H4 eq_refl j i0 Hj) as (A & B & C & D). auto.
          -- intros m Hm. apply N.eqb_eq in Hm. subst m. auto.
          -- intros m Hs gm c e Hin _. apply N.leb_gt in Hs. destruct (GD' _ _ _ _ Hin) as (? & ? & _). lia.
      + destruct (odd (gens g i)) eqn:Eo.
        * split; [apply same_guar, same_refl|]. split; [|constructor; auto].
          constructor; unfold PcInv; simp; rewrite ?Epc; simp; auto; try lia; try l0p.
          all: try solve [intros; discriminate].
          -- intros m. unfold fupd. destruct (N.eqb_spec m i); subst; [lia|apply H2].
          -- rewrite fupd_same. split; auto; lia.
          -- intros m Hrm. unfold fupd. destruct (N.eqb_spec m i); subst; [rewrite N.eqb_refl in Hrm; discriminate|apply H8; auto].
          -- intros m gm c e Hin Hcc Hs. unfold fupd. destruct (N.eqb_spec m i); subst.
             ++ destruct (Hlog _ _ _ Hin). lia.
             ++ eapply H9; eauto.
        * split; [apply same_guar, same_refl|]. split; [|constructor; auto].
          constructor; unfold PcInv; simp; rewrite ?Epc; simp; auto; try lia; try l0p.
          all: try solve [intros; discriminate].
          -- intros m. unfold fupd. destruct (N.eqb_spec m i); subst; [lia|apply H2].
          -- rewrite fupd_same. split; auto. split; [lia|]. intros; congruence.
          -- intros m Hrm. unfold fupd. destruct (N.eqb_spec m i); subst; [rewrite N.eqb_refl in Hrm; discriminate|apply H8; auto].
          -- intros m gm c e Hin Hcc Hs. unfold fupd. destruct (N.eqb_spec m i); subst.
             ++ destruct (Hlog _ _ _ Hin). lia.
             ++ eapply H9; eauto.
  Qed.
End Step.

(* ---------------- abandoned calls ---------------- *)
Lemma fusable_plain p i : fusable p = true -> refreshing p i = false /\ scanned p i = true /\ in_upd p = false /\ in_rec p = false.
Proof. destruct p; try discriminate; try (destruct k; try discriminate); auto. Qed.

Lemma linv_setfuse g t l k : LInv g t l -> fuse l = Some (S k) -> LInv g t (set_fuse l (Some k)).
Proof.
  intros [(Hcf & Hd & Hfz) H1 H2 H3 H4 H5 H6 H7 H8 H9 H10 H11] Ef. constructor; auto.
  split; [exact Hcf|]. split; [exact Hd|]. intros _. apply Hfz. rewrite Ef. discriminate.
Qed.

Lemma step_abandon g t l : GInv g -> LInv g t l -> fuse l <> None ->
  Guar t g (tick g) /\ LDirty (tick g) t (abandon l) /\ GInv (tick g).
Proof.
  intros HG [(Hcf & Hd & Hfz) H1 H2 H3 H4 H5 H6 H7 H8 H9 H10 H11] Hz.
  destruct (Hfz Hz) as [Hb Hn]. destruct H1 as [H1a H1b].
  split; [apply same_guar, same_tick|]. split; [|apply (same_ginv g _ (same_tick g) HG)].
  constructor; unfold PcInvD; simp; auto; try lia.
  all: try solve [intros i gm []].
  all: try solve [intros i Ho; apply H8; auto; apply fusable_plain; auto].
  all: try solve [intros i gm c e Hin Hc; eapply H9; eauto; apply fusable_plain; auto].
  all: try solve [intros Hu; apply H11; auto; apply (fusable_plain _ 0); auto].
  repeat split; auto.
Qed.

(* only the pc (and program / pending entries) of a thread whose owner died changes *)
Lemma ldirty_pc g t l l' :
  LDirty g t l ->
  (crash_ok_prog (prog l') = true /\ dirty l' = true /\ fuse l' = None /\
   ((pc l' = Idle /\ next_rec (prog l')) \/ rec_true (pc l') = true)) ->
  epoch l' = epoch l -> rchange l' = rchange l -> rgen l' = rgen l -> rdata l' = rdata l ->
  (forall i gm, In (i, gm) (pend l') -> In (i, gm) (pend l) \/ (i < cap g /\ gm <= gens g i)) ->
  ustart l' = ustart l -> ulast l' = ulast l -> uprev l' = uprev l ->
  PcInvD g (owner_of t (epoch l)) l' ->
  LDirty g t l'.
Proof.
  intros [H0 H1 H2 H3 H6 H7 H8 H9 H10 H11] E0 Ee Ec Eg Ed Epd Eu El Ev Hp.
  constructor; unfold me; rewrite ?Ee, ?Ec, ?Eg, ?Ed, ?Eu, ?El, ?Ev; auto.
  intros i gm Hin. destruct (Epd i gm Hin) as [E|E]; auto.
Qed.

Lemma linv_complete0 g t l' pd :
  (forall i gm, In (i, gm) pd -> i < cap g /\ gm <= gens g i) ->
  LInv g t l' -> LInv (complete g pd) t l'.
Proof.
  intros Hpd [H0 H1 H2 H3 H4 H5 H6 H7 H8 H9 H10 H11].
  constructor; simp; auto; try lia.
  - intros i gm c e Hin Hc Hs. apply in_app_or in Hin. destruct Hin as [Hin|Hin]; [|eauto].
    apply in_map_iff in Hin. destruct Hin as [[a b] [E _]]. inversion E; subst. lia.
  - intros i gm c e Hin He. apply in_app_or in Hin. destruct Hin as [Hin|Hin]; [|eauto].
    apply in_map_iff in Hin. destruct Hin as [[a b] [E _]]. inversion E; subst. lia.
Qed.

Ltac dside :=
  try match goal with E : pc ?l = _ |- _ => rewrite ?E end;
  simp;
  try reflexivity; try assumption;
  try (intros ? ? ?; left; assumption);
  try (unfold PcInvD in *; simp; assumption).

