(* C19 -- naming_scheme.rs: connection_name / extract_{sender,receiver}_port_id round trip
   for every pair of u128 values (decimal printing with fuel 40, parsing with overflow check). *)
From V Require Import model.Base model.Names.
From Coq Require Import ZifyBool ZifyNat ZifyN.
Local Open Scope N_scope.

Lemma dec_parse_digits_app l m a :
  dec_parse_digits (l ++ m) a = match dec_parse_digits l a with Some v => dec_parse_digits m v | None => None end.
Proof.
  revert a; induction l as [|c l IH]; intros a; cbn [app dec_parse_digits]; [reflexivity|].
  destruct (is_digit c); [|reflexivity].
  destruct (N.leb U128_MAX1 (a * 10 + (c - 48))); [reflexivity|]. apply IH.
Qed.

Lemma digit_char n : is_digit (48 + n mod 10) = true /\ 48 + n mod 10 - 48 = n mod 10.
Proof.
  pose proof (N.mod_lt n 10 ltac:(lia)) as H. unfold is_digit, in_rng. split; lia.
Qed.

Lemma pow10_succ k : 10 ^ N.of_nat (S k) = 10 * 10 ^ N.of_nat k.
Proof. rewrite Nat2N.inj_succ, N.pow_succ_r'. reflexivity. Qed.

Lemma dec_digits_spec f : forall n acc, n < 10 ^ N.of_nat f -> n < U128_MAX1 ->
  exists ds, dec_digits f n acc = ds ++ acc /\ dec_parse_digits ds 0 = Some n /\
             forallb is_digit ds = true /\ (f <> O -> ds <> []).
Proof.
  induction f as [|f IH]; intros n acc Hn Hu.
  - cbn in Hn. assert (n = 0) as -> by lia. exists []. cbn. repeat split; auto; try congruence.
  - cbn [dec_digits]. destruct (digit_char n) as [D1 D2].
    destruct (N.ltb n 10) eqn:L.
    + exists [48 + n mod 10]. cbn [app dec_parse_digits forallb]. rewrite D1, D2.
      rewrite N.mod_small by lia. cbn [andb].
      assert (N.leb U128_MAX1 (0 * 10 + n) = false) as -> by lia.
      replace (0 * 10 + n) with n by lia. repeat split; auto. discriminate.
    + rewrite pow10_succ in Hn.
      assert (Hq : n / 10 < 10 ^ N.of_nat f) by (apply N.div_lt_upper_bound; lia).
      assert (Hqu : n / 10 < U128_MAX1).
      { apply N.le_lt_trans with n; auto. apply N.div_le_upper_bound; lia. }
      destruct (IH (n / 10) ((48 + n mod 10) :: acc) Hq Hqu) as [ds [E [P [Dg _]]]].
      exists (ds ++ [48 + n mod 10]). rewrite E, <- app_assoc. cbn [app].
      split; [reflexivity|]. split; [|split].
      * rewrite dec_parse_digits_app, P. cbn [dec_parse_digits]. rewrite D1, D2.
        pose proof (N.div_mod' n 10) as DM.
        assert (N.leb U128_MAX1 (n / 10 * 10 + n mod 10) = false) as -> by lia.
        f_equal. lia.
      * rewrite forallb_app, Dg. cbn [forallb]. now rewrite D1.
      * intros _ E0. apply app_eq_nil in E0 as [_ E0]. discriminate.
Qed.

Lemma u128_lt_pow40 n : n < U128_MAX1 -> n < 10 ^ N.of_nat 40.
Proof.
  intros H. apply N.lt_trans with U128_MAX1; auto. vm_compute. reflexivity.
Qed.

Lemma dec_print_spec n : n < U128_MAX1 ->
  dec_parse_digits (dec_print n) 0 = Some n /\ forallb is_digit (dec_print n) = true /\ dec_print n <> [].
Proof.
  intros H. unfold dec_print.
  destruct (dec_digits_spec 40 n [] (u128_lt_pow40 n H) H) as [ds [E [P [D NE]]]].
  rewrite E, app_nil_r. repeat split; auto.
Qed.

Theorem dec_parse_print n : n < U128_MAX1 -> dec_parse (dec_print n) = Some n.
Proof.
  intros H. destruct (dec_print_spec n H) as [P [D NE]]. unfold dec_parse.
  destruct (dec_print n) as [|c t] eqn:E; [contradiction|].
  cbn [forallb] in D. apply andb_true_iff in D as [Dc _].
  assert (N.eqb c 43 = false) as -> by (unfold is_digit, in_rng in Dc; lia). exact P.
Qed.

Lemma split_once_digits ds rest : forallb is_digit ds = true ->
  split_once (ds ++ UNDERSCORE :: rest) = Some (ds, rest).
Proof.
  induction ds as [|c ds IH]; intros D; cbn [app split_once].
  - unfold UNDERSCORE. rewrite N.eqb_refl. reflexivity.
  - cbn [forallb] in D. apply andb_true_iff in D as [Dc D].
    assert (N.eqb c UNDERSCORE = false) as -> by (unfold is_digit, in_rng, UNDERSCORE in *; lia).
    now rewrite IH.
Qed.

Theorem connection_roundtrip s r : s < U128_MAX1 -> r < U128_MAX1 ->
  extract_sender_port_id (connection_name s r) = Some s /\
  extract_receiver_port_id (connection_name s r) = Some r.
Proof.
  intros Hs Hr. destruct (dec_print_spec s Hs) as [_ [Ds _]].
  unfold extract_sender_port_id, extract_receiver_port_id, connection_name.
  rewrite split_once_digits by auto. split; now apply dec_parse_print.
Qed.

(* the connection name is a valid FileName made of digits and one underscore *)
Theorem connection_name_shape s r : s < U128_MAX1 -> r < U128_MAX1 ->
  forallb (fun c => is_digit c || N.eqb c UNDERSCORE) (connection_name s r) = true.
Proof.
  intros Hs Hr. destruct (dec_print_spec s Hs) as [_ [Ds _]]. destruct (dec_print_spec r Hr) as [_ [Dr _]].
  unfold connection_name. rewrite forallb_app. cbn [forallb].
  assert (I : forall l, forallb is_digit l = true -> forallb (fun c => is_digit c || N.eqb c UNDERSCORE) l = true).
  { induction l as [|c l IH]; cbn [forallb]; auto. intros H. apply andb_true_iff in H as [H1 H2]. now rewrite H1, IH. }
  rewrite (I _ Ds), (I _ Dr). unfold UNDERSCORE. rewrite N.eqb_refl, orb_true_r. reflexivity.
Qed.
