(* Creation and drop of ports preserve the world invariant (proofs/PortInv.v). *)
From V Require Import model.Base model.Conn model.Port proofs.ListLemmas proofs.ConnProofs proofs.PortProofs proofs.PortView proofs.PortInv
  proofs.PortInvPub proofs.PortInvSub.
From Coq Require Import Lia.
Local Open Scope nat_scope.

(* ---------------------------------------------------------------------------------------- *)
(* a publisher is deactivated and leaves the registry                                         *)
(* ---------------------------------------------------------------------------------------- *)
Lemma Inv_deact_pub H w w2 :
  InvG H w ->
  w_cfg w2 = w_cfg w -> w_sreg w2 = w_sreg w -> w_subs w2 = w_subs w -> w_conns w2 = w_conns w ->
  w_loans w2 = w_loans w -> w_nloan w2 = w_nloan w -> w_samples w2 = w_samples w -> w_nsample w2 = w_nsample w ->
  length (w_pubs w2) = length (w_pubs w) ->
  (forall q, pact w2 q -> pact w q /\ getp w2 q = getp w q) ->
  length (r_slots (w_preg w2)) = length (r_slots (w_preg w)) ->
  (forall i d, nth i (r_slots (w_preg w2)) None = Some d -> nth i (r_slots (w_preg w)) None = Some d /\ pact w2 (pd_id d)) ->
  InvG H w2.
Proof.
  intros I E1 E2 E3 E4 E5 E6 E7 E8 E9 Hq E10 Hreg.
  assert (Gs : forall s, gets w2 s = gets w s) by (intros s; unfold gets; now rewrite E3).
  assert (Gc : forall q s, getc w2 q s = getc w q s) by (intros q s; unfold getc; now rewrite E4).
  assert (Gb : forall q s, borrowed w2 q s = borrowed w q s) by (intros q s; unfold borrowed; now rewrite E7).
  assert (Gl : forall q, loans_of w2 q = loans_of w q) by (intros q; unfold loans_of; now rewrite E5).
  assert (Sa : forall s, sact w2 s <-> sact w s) by (intros s; unfold sact; rewrite Gs; tauto).
  assert (Sl : forall s, salive w2 s <-> salive w s) by (intros s; unfold salive; rewrite Gs; tauto).
  destruct I as [a b c d e f g h i j k l m n o p q r].
  constructor.
  - now rewrite E1.
  - now rewrite E10, E1.
  - now rewrite E2, E1.
  - intros i0 d0 Hd. destruct (Hreg _ _ Hd) as [Hd0 Hp]. destruct (Hq _ Hp) as [Hp0 G]. rewrite G. split; [exact Hp|]. now apply d.
  - intros i0 d0 Hd. rewrite E2 in Hd. rewrite Sa, Gs. now apply e.
  - intros q0 Hp. destruct (Hq _ Hp) as [Hp0 G]. eapply PubInv_frame; [exact E1|exact G|apply Gl| |apply f; exact Hp0].
    intros s _. split; [apply Gc|apply Gb].
  - intros s Hs. apply Sl in Hs. specialize (g s Hs). destruct g as [g1 g2 g3 g4 g5 g6 g7 g8 g9 g10 g11].
    constructor; rewrite ?Gs, ?E1; auto.
    + intros key en Hk Hp. destruct (Hq _ Hp) as [Hp0 G]. rewrite G. now apply g7.
    + intros key en Hi Hk Hp. destruct (Hq _ Hp) as [Hp0 G]. eapply g8; eauto.
    + intros key en Hk. rewrite E9. destruct (g11 key en Hk) as [A [cc [B C]]]. split; [exact A|]. exists cc. rewrite Gc. auto.
  - intros s Hs. apply Sl. apply h. now apply Sa.
  - intros x Hx. rewrite E7 in Hx. rewrite Sl, E9. now apply i.
  - intros x Hx Hp. rewrite E7 in Hx. destruct (Hq _ Hp) as [Hp0 G]. rewrite Gs. now apply j.
  - now rewrite E7, E8.
  - now rewrite E5, E6, E9.
  - intros p0 s c0 Hc. rewrite Gc in Hc. rewrite E9, E3. eapply m; eauto.
  - intros p0 s c0 Hc. rewrite Gc in Hc. rewrite Gs. eapply n; eauto.
  - intros p0 i0 s Hp Hn. destruct (Hq _ Hp) as [Hp0 G]. rewrite G in Hn. rewrite E3, Sa, Gs. eapply o; eauto.
  - intros p0 s c0 Hp Hc Hs. destruct (Hq _ Hp) as [Hp0 G]. rewrite Gc in Hc. rewrite G. eapply p; eauto.
  - intros p0 s c0 Hp Hs Hc Hsn. destruct (Hq _ Hp) as [Hp0 G]. rewrite Gc in Hc. rewrite Gb, Gs, E1, G. apply Sa in Hs. eapply q; eauto.
  - intros x Hx Hp Hs. rewrite E7 in Hx. destruct (Hq _ Hp) as [Hp0 G]. rewrite G. apply Sa in Hs. now apply r.
Qed.

Lemma pub_drop_ok w p : InvR w -> pact w p -> InvR (pub_drop w p).
Proof.
  intros (I & RP & RS & TB) Hp. pose proof (pact_lt _ _ Hp) as Hl. unfold pub_drop. cbn zeta.
  set (x' := p_set_life (getp w p) false (p_alive (getp w p))).
  set (w2 := w_set_preg (setp w p x') (reg_remove (w_preg (setp w p x')) (p_slot (getp w p)))).
  assert (Gp : forall q, pact w2 q -> pact w q /\ getp w2 q = getp w q).
  { intros q Hq. unfold pact in Hq. change (getp w2 q) with (getp (setp w p x') q) in *.
    destruct (Nat.eq_dec q p) as [->|Hne]; [rewrite getp_setp_same in Hq by exact Hl; discriminate|].
    rewrite getp_setp_other in * by congruence. auto. }
  assert (Gq : forall q, q <> p -> getp w2 q = getp w q).
  { intros q Hne. change (getp w2 q) with (getp (setp w p x') q). apply getp_setp_other. congruence. }
  assert (Gs : forall s, gets w2 s = gets w s) by reflexivity.
  assert (Hslot : forall q, pact w q -> p_slot (getp w q) = p_slot (getp w p) -> q = p).
  { intros q Hq E. pose proof (RP q Hq) as R1. pose proof (RP p Hp) as R2. rewrite E, R2 in R1. now inversion R1. }
  assert (I2 : Inv w2).
  { eapply (Inv_deact_pub _ w w2 I); try reflexivity.
    - unfold w2. cbn. apply upd_length.
    - exact Gp.
    - unfold w2. cbn. apply upd_length.
    - intros i d Hd. unfold w2 in Hd. cbn [w_preg w_set_preg setp w_set_pubs reg_remove r_slots] in Hd.
      destruct (Nat.eq_dec (p_slot (getp w p)) i) as [<-|Hne].
      + rewrite nth_upd_same in Hd; [discriminate|]. pose proof (RP p Hp) as R. eapply nth_some_lt; eauto.
      + rewrite nth_upd_other in Hd by exact Hne. split; [exact Hd|]. destruct (iv_preg _ _ I _ _ Hd) as (A & B & _).
        assert (pd_id d <> p) by (intros E; rewrite E in B; congruence). unfold pact. rewrite Gq by assumption. exact A. }
  assert (IR2 : InvR w2).
  { split; [exact I2|]. split; [|split].
    - intros q Hq. destruct (Gp q Hq) as [Hq0 G]. rewrite G. unfold w2. cbn [w_preg w_set_preg setp w_set_pubs reg_remove r_slots].
      assert (q <> p) by (intros ->; unfold pact in Hq; change (getp w2 p) with (getp (setp w p x') p) in Hq; rewrite getp_setp_same in Hq by exact Hl; discriminate).
      rewrite nth_upd_other; [now apply RP|]. intros E. apply H. apply Hslot; auto.
    - intros s Hs. apply RS. exact Hs.
    - intros s Hs. apply TB. exact Hs. }
  destruct (pub_maybe_drop_state_ok _ w2 p I2) as (I3 & S3 & _). cbn zeta in *.
  eapply InvR_of_step; eauto.
Qed.

(* ---------------------------------------------------------------------------------------- *)
(* InvR across subscriber-side footprints                                                    *)
(* ---------------------------------------------------------------------------------------- *)
Lemma SubOK_InvR s w w' : InvR w -> salive w s -> SubOK (fun _ => None) s w w' -> InvR w'.
Proof.
  intros (I & RP & RS & TB) Ha O. destruct (SubOK_carry _ _ _ _ O RP Ha (TB s Ha)) as (I' & RP' & Ha' & T' & S).
  split; [exact I'|]. split; [exact RP'|]. split; [eapply SubStep_RegS; eauto|].
  intros t Ht. destruct (Nat.eq_dec t s) as [->|Hne]; [exact T'|].
  unfold salive in Ht. rewrite (ss_other _ _ _ S) in Ht by exact Hne.
  eapply TbrOk_gets; [apply (ss_other _ _ _ S); exact Hne|apply TB; exact Ht].
Qed.

Lemma SubOK'_InvR s w w' : InvR w -> SubOK' s w w' -> InvR w'.
Proof.
  intros (I & RP & RS & TB) (I' & Ph & E1 & E2 & E3 & E4 & E5 & E6 & E7 & Go & A1 & A2 & A3 & A4 & Gc & T & Al).
  split; [exact I'|]. split; [|split].
  - eapply RegP_step; [exact E3| |exact RP]. intros p Hp. unfold pact, getp in *. rewrite E4 in *. auto.
  - eapply RegS_step; [exact E2| |exact RS]. intros t Ht. unfold sact in *.
    destruct (Nat.eq_dec t s) as [->|Hne]; [rewrite A1 in Ht; auto|rewrite (Go t Hne) in *; auto].
  - intros t Ht. destruct (Nat.eq_dec t s) as [->|Hne].
    + apply T; [exact Ht|]. apply TB. now apply Al.
    + unfold salive in Ht. rewrite (Go t Hne) in Ht. eapply TbrOk_gets; [apply Go; exact Hne|apply TB; exact Ht].
Qed.

(* ---------------------------------------------------------------------------------------- *)
(* a subscriber is deactivated and leaves the registry                                        *)
(* ---------------------------------------------------------------------------------------- *)
Lemma Inv_deact_sub H w w2 s :
  InvG H w ->
  w_cfg w2 = w_cfg w -> w_preg w2 = w_preg w -> w_pubs w2 = w_pubs w -> w_conns w2 = w_conns w ->
  w_loans w2 = w_loans w -> w_nloan w2 = w_nloan w -> w_samples w2 = w_samples w -> w_nsample w2 = w_nsample w ->
  length (w_subs w2) = length (w_subs w) ->
  (forall t, t <> s -> gets w2 t = gets w t) ->
  s_active (gets w2 s) = false -> s_alive (gets w2 s) = s_alive (gets w s) -> s_slot (gets w2 s) = s_slot (gets w s) ->
  s_buf (gets w2 s) = s_buf (gets w s) -> s_hreq (gets w2 s) = s_hreq (gets w s) ->
  s_tab (gets w2 s) = s_tab (gets w s) -> s_store (gets w2 s) = s_store (gets w s) ->
  s_freekeys (gets w2 s) = s_freekeys (gets w s) -> s_tbr (gets w2 s) = s_tbr (gets w s) ->
  length (r_slots (w_sreg w2)) = length (r_slots (w_sreg w)) ->
  (forall i d, nth i (r_slots (w_sreg w2)) None = Some d -> nth i (r_slots (w_sreg w)) None = Some d /\ sd_id d <> s) ->
  InvG H w2.
Proof.
  intros I E1 E2 E3 E4 E5 E6 E7 E8 E9 Go A1 A2 A3 A4 A5 A6 A7 A8 A9 E10 Hreg.
  assert (Gp : forall q, getp w2 q = getp w q) by (intros q; unfold getp; now rewrite E3).
  assert (Pa : forall q, pact w2 q <-> pact w q) by (intros q; unfold pact; rewrite Gp; tauto).
  assert (Gc : forall q t, getc w2 q t = getc w q t) by (intros q t; unfold getc; now rewrite E4).
  assert (Gb : forall q t, borrowed w2 q t = borrowed w q t) by (intros q t; unfold borrowed; now rewrite E7).
  assert (Gl : forall q, loans_of w2 q = loans_of w q) by (intros q; unfold loans_of; now rewrite E5).
  assert (Sl : forall t, salive w2 t <-> salive w t).
  { intros t. unfold salive. destruct (Nat.eq_dec t s) as [->|Hne]; [rewrite A2|rewrite Go by exact Hne]; tauto. }
  assert (Sa : forall t, sact w2 t -> sact w t /\ t <> s /\ gets w2 t = gets w t).
  { intros t Ht. unfold sact in *. destruct (Nat.eq_dec t s) as [->|Hne]; [congruence|]. rewrite Go in Ht by exact Hne. auto. }
  assert (Fb : forall t, s_buf (gets w2 t) = s_buf (gets w t)).
  { intros t. destruct (Nat.eq_dec t s) as [->|Hne]; [exact A4|now rewrite Go]. }
  assert (Fst : forall t, s_store (gets w2 t) = s_store (gets w t)).
  { intros t. destruct (Nat.eq_dec t s) as [->|Hne]; [exact A7|now rewrite Go]. }
  destruct I as [a b c d e f g h i j k l m n o p q r].
  constructor.
  - now rewrite E1.
  - now rewrite E2, E1.
  - now rewrite E10, E1.
  - intros i0 d0 Hd. rewrite E2 in Hd. rewrite Pa, Gp. now apply d.
  - intros i0 d0 Hd. destruct (Hreg _ _ Hd) as [Hd0 Hne]. destruct (e _ _ Hd0) as (B1 & B2 & B3 & B4).
    unfold sact. rewrite (Go _ Hne). auto.
  - intros q0 Hp. apply Pa in Hp. eapply PubInv_frame; [exact E1|apply Gp|apply Gl| |apply f; exact Hp].
    intros t _. split; [apply Gc|apply Gb].
  - intros t Ht. apply Sl in Ht. specialize (g t Ht).
    destruct (Nat.eq_dec t s) as [->|Hne].
    + eapply (SubInvH_frame2 w); eauto. intros q0 c0 Hc Hr. rewrite Gc. eauto.
    + eapply (SubInvH_frame2 w); eauto; try (now rewrite Go). intros q0 c0 Hc Hr. rewrite Gc. eauto.
  - intros t Ht. apply Sl. apply h. now apply Sa.
  - intros x Hx. rewrite E7 in Hx. rewrite Sl, E3. now apply i.
  - intros x Hx Hp. rewrite E7 in Hx. apply Pa in Hp. rewrite Fst. now apply j.
  - now rewrite E7, E8.
  - now rewrite E5, E6, E3.
  - intros p0 t c0 Hc. rewrite Gc in Hc. rewrite E9, E3. eapply m; eauto.
  - intros p0 t c0 Hc. rewrite Gc in Hc. rewrite Fb. eapply n; eauto.
  - intros p0 i0 t Hp Hn. apply Pa in Hp. rewrite Gp in Hn. rewrite E9. destruct (o _ _ _ Hp Hn) as [O1 O2]. split; [exact O1|].
    intros Ht. destruct (Sa _ Ht) as (B1 & B2 & B3). rewrite B3. auto.
  - intros p0 t c0 Hp Hc Hs. apply Pa in Hp. rewrite Gc in Hc. rewrite Gp. eapply p; eauto.
  - intros p0 t c0 Hp Ht Hc Hsn. apply Pa in Hp. rewrite Gc in Hc. destruct (Sa _ Ht) as (B1 & B2 & B3). rewrite Gb, B3, E1, Gp. eapply q; eauto.
  - intros x Hx Hp Ht. rewrite E7 in Hx. apply Pa in Hp. destruct (Sa _ Ht) as (B1 & B2 & B3). rewrite Gp. now apply r.
Qed.

Lemma sub_drop_ok w s : InvR w -> sact w s -> InvR (sub_drop w s).
Proof.
  intros (I & RP & RS & TB) Hs. pose proof (iv_act_alive _ _ I s Hs) as Ha. pose proof (salive_lt _ _ Ha) as Hl.
  unfold sub_drop. cbn zeta.
  set (x' := s_set_life (gets w s) false (s_alive (gets w s))).
  set (w2 := w_set_sreg (sets w s x') (reg_remove (w_sreg (sets w s x')) (s_slot (gets w s)))).
  assert (G : gets w2 s = x') by (change (gets w2 s) with (gets (sets w s x') s); now apply gets_sets_same).
  assert (Go : forall t, t <> s -> gets w2 t = gets w t).
  { intros t Hne. change (gets w2 t) with (gets (sets w s x') t). apply gets_sets_other. congruence. }
  assert (I2 : Inv w2).
  { eapply (Inv_deact_sub _ w w2 s I); try reflexivity; try (rewrite G; reflexivity).
    - unfold w2. cbn. apply upd_length.
    - exact Go.
    - unfold w2. cbn. apply upd_length.
    - intros i d Hd. unfold w2 in Hd. cbn [w_sreg w_set_sreg sets w_set_subs reg_remove r_slots] in Hd.
      destruct (Nat.eq_dec (s_slot (gets w s)) i) as [<-|Hne].
      + rewrite nth_upd_same in Hd; [discriminate|]. pose proof (RS s Hs) as R. eapply nth_some_lt; eauto.
      + rewrite nth_upd_other in Hd by exact Hne. split; [exact Hd|]. destruct (iv_sreg _ _ I _ _ Hd) as (A & B & _).
        intros E. rewrite E in B. congruence. }
  assert (Hslot : forall t, sact w t -> s_slot (gets w t) = s_slot (gets w s) -> t = s).
  { intros t Ht E. pose proof (RS t Ht) as R1. pose proof (RS s Hs) as R2. rewrite E, R2 in R1. now inversion R1. }
  assert (IR2 : InvR w2).
  { split; [exact I2|]. split; [|split].
    - intros q Hq. apply RP. exact Hq.
    - intros t Ht. unfold sact in Ht. destruct (Nat.eq_dec t s) as [->|Hne]; [rewrite G in Ht; discriminate|].
      rewrite (Go t Hne) in *. unfold w2. cbn [w_sreg w_set_sreg sets w_set_subs reg_remove r_slots].
      rewrite nth_upd_other; [now apply RS|]. intros E. apply Hne. apply Hslot; auto.
    - intros t Ht. destruct (Nat.eq_dec t s) as [->|Hne].
      + unfold TbrOk. rewrite G. apply (TB s Ha).
      + unfold salive in Ht. rewrite (Go t Hne) in Ht. eapply TbrOk_gets; [apply Go; exact Hne|apply TB; exact Ht]. }
  eapply SubOK'_InvR; [exact IR2|]. apply sub_maybe_drop_state_ok. exact I2.
Qed.

(* ---------------------------------------------------------------------------------------- *)
(* a fresh publisher                                                                         *)
(* ---------------------------------------------------------------------------------------- *)
Lemma usedsum_none tab cf o : (forall e, In e tab -> e = None) -> usedsum tab cf o = 0.
Proof.
  unfold usedsum. induction tab as [|e t IH]; intros E; [reflexivity|]. cbn [map]. rewrite list_sum_cons.
  rewrite IH by (intros e' He; apply E; now right). rewrite (E e) by now left. reflexivity.
Qed.
Lemma opt_keys_none tab : (forall e, In e tab -> e = None) -> opt_keys tab = [].
Proof.
  induction tab as [|e t IH]; intros E; [reflexivity|]. rewrite (E e) by now left. cbn. apply IH. intros e' He. apply E. now right.
Qed.
Lemma nth_repeat' {A} (a d : A) n i : i < n -> nth i (repeat a n) d = a.
Proof. revert i. induction n as [|n IH]; intros [|i] Hi; cbn; try lia; auto. apply IH. lia. Qed.
Lemma nth_error_seq0 n i : i < n -> nth_error (seq 0 n) i = Some i.
Proof. intros Hi. rewrite (nth_error_nth' _ 0) by (rewrite seq_length; exact Hi). now rewrite seq_nth. Qed.

Lemma first_free_spec {A} (l : list (option A)) : forall i j, first_free l i = Some j ->
  i <= j /\ j - i < length l /\ nth (j - i) l None = None.
Proof.
  induction l as [|[a|] t IH]; intros i j Hf; cbn [first_free] in Hf; [discriminate| |].
  - destruct (IH _ _ Hf) as (A1 & A2 & A3). replace (j - i) with (S (j - S i)) by lia. cbn [length nth]. splits; auto; lia.
  - inversion Hf; subst. rewrite Nat.sub_diag. cbn. splits; auto; lia.
Qed.

Lemma reg_add_spec {A} (r : registry A) x reg slot : reg_add r x = Some (reg, slot) ->
  slot < length (r_slots r) /\ nth slot (r_slots r) None = None /\ r_slots reg = upd (r_slots r) slot (Some x).
Proof.
  unfold reg_add. destruct (first_free (r_slots r) 0) as [i|] eqn:E; [|discriminate]. intros Hv. inversion Hv; subst.
  destruct (first_free_spec _ _ _ E) as (_ & A2 & A3). rewrite Nat.sub_0_r in *. cbn. auto.
Qed.

Lemma loans_of_fresh H w : InvG H w -> loans_of w (length (w_pubs w)) = [].
Proof.
  intros I. unfold loans_of. destruct (iv_loan_ids _ _ I) as [_ Hlt].
  assert (E : forall L, (forall l, In l L -> l_pub l < length (w_pubs w)) -> filter (fun l => Nat.eqb (l_pub l) (length (w_pubs w))) L = []).
  { induction L as [|a L IH]; intros HL; [reflexivity|]. cbn [filter].
    destruct (Nat.eqb_spec (l_pub a) (length (w_pubs w))) as [E|E]; [specialize (HL a (or_introl eq_refl)); lia|]. apply IH. intros l Hl. apply HL. now right. }
  rewrite E; [reflexivity|]. intros l Hl. now apply Hlt.
Qed.

Lemma Inv_set_preg H w reg :
  InvG H w -> length (r_slots reg) = length (r_slots (w_preg w)) ->
  (forall i d, nth i (r_slots reg) None = Some d -> pact w (pd_id d) /\ p_slot (getp w (pd_id d)) = i /\ pd_n d = p_n (getp w (pd_id d))) ->
  InvG H (w_set_preg w reg).
Proof.
  intros [a b c d e f g h i j k l m n o p q r] E Hreg. constructor; auto.
  - cbn [w_preg w_set_preg w_cfg]. now rewrite E.
  - intros s Hs. eapply (SubInvH_frame2 w); try reflexivity; eauto.
Qed.
Lemma Inv_set_sreg H w reg :
  InvG H w -> length (r_slots reg) = length (r_slots (w_sreg w)) ->
  (forall i d, nth i (r_slots reg) None = Some d ->
     sact w (sd_id d) /\ s_slot (gets w (sd_id d)) = i /\ sd_buf d = s_buf (gets w (sd_id d)) /\ sd_hreq d = s_hreq (gets w (sd_id d))) ->
  InvG H (w_set_sreg w reg).
Proof.
  intros [a b c d e f g h i j k l m n o p q r] E Hreg. constructor; auto.
  - cbn [w_sreg w_set_sreg w_cfg]. now rewrite E.
  - intros s Hs. eapply (SubInvH_frame2 w); try reflexivity; eauto.
Qed.

Lemma Inv_add_pub H w x :
  InvG H w ->
  let p := length (w_pubs w) in
  let w1 := w_set_pubs w (w_pubs w ++ [x]) in
  p_n x = required_samples (w_cfg w) (p_L x) -> p_refcnt x = repeat 0%N (p_n x) -> p_free x = seq 0 (p_n x) ->
  p_mem x = repeat pl0 (p_n x) -> p_loans x = 0 -> p_hist x = [] -> p_tab x = repeat None (cf_S (w_cfg w)) ->
  InvG H w1.
Proof.
  intros I p w1 X1 X2 X3 X4 X5 X6 X7.
  assert (Gp : forall q, q < p -> getp w1 q = getp w q).
  { intros q Hq. unfold getp, w1. cbn [w_pubs w_set_pubs]. now rewrite app_nth1. }
  assert (Gn : getp w1 p = x).
  { unfold getp, w1, p. cbn [w_pubs w_set_pubs]. rewrite app_nth2 by lia. now rewrite Nat.sub_diag. }
  assert (Len : length (w_pubs w1) = S p) by (unfold w1; cbn [w_pubs w_set_pubs]; rewrite app_length; cbn; lia).
  assert (Pa : forall q, pact w q -> pact w1 q) by (intros q Hq; unfold pact; rewrite Gp; [exact Hq|]; now apply pact_lt).
  assert (Pc : forall q, pact w1 q -> q = p \/ (q < p /\ pact w q /\ getp w1 q = getp w q)).
  { intros q Hq. destruct (Nat.lt_trichotomy q p) as [Hl|[->|Hg]]; [right|now left|].
    - unfold pact in *. rewrite Gp in Hq by exact Hl. auto.
    - unfold pact, getp in Hq. rewrite nth_overflow in Hq by lia. discriminate. }
  assert (NoC : forall s c, getc w p s = Some c -> False).
  { intros s c Hc. apply (iv_conn_range _ _ I) in Hc. unfold p in Hc. lia. }
  assert (Tn : forall e, In e (p_tab x) -> e = None) by (intros e He; rewrite X7 in He; now apply repeat_spec in He).
  assert (Lf : loans_of w1 p = []) by (apply (loans_of_fresh H w I)).
  destruct I as [a b c d e f g h i j k l m n o pp q r].
  constructor; auto.
  - intros i0 d0 Hd. destruct (d _ _ Hd) as (D1 & D2 & D3). pose proof (pact_lt _ _ D1) as Hl. rewrite Gp by exact Hl. auto.
  - intros q0 Hp. destruct (Pc _ Hp) as [->|(Hl & Hp0 & G)].
    + unfold PubInv. rewrite Gn, Lf. change (w_cfg w1) with (w_cfg w).
      constructor; cbn [length In]; auto; try lia; try contradiction.
      * rewrite X4. apply repeat_length.
      * rewrite X7. apply repeat_length.
      * constructor.
        -- rewrite X2. apply repeat_length.
        -- rewrite X3. apply seq_NoDup.
        -- intros o0 Ho. rewrite X3 in Ho. apply in_seq in Ho. lia.
        -- intros o0 Ho. unfold holdersV. rewrite X6, usedsum_none by exact Tn. cbn. rewrite X2. now apply nth_repeat'.
        -- intros o0 Ho. unfold holdersV. rewrite X6, usedsum_none by exact Tn. cbn. rewrite X3. split; [reflexivity|]. intros _. apply in_seq. lia.
      * constructor.
      * rewrite X6. cbn. lia.
      * rewrite X6. cbn. contradiction.
      * rewrite opt_keys_none by exact Tn. constructor.
      * intros s Hs. apply Tn in Hs. discriminate.
    + eapply (PubInv_frame w w1); [reflexivity|exact G|reflexivity| |apply f; exact Hp0]. intros s _. split; reflexivity.
  - intros s Hs. specialize (g s Hs). destruct g as [g1 g2 g3 g4 g5 g6 g7 g8 g9 g10 g11].
    assert (Hne : forall key en, nth key (s_store (gets w s)) None = Some en -> se_pub en < p) by (intros key en Hk; now apply (g11 key en)).
    constructor; auto.
    + intros key en Hk Hp. specialize (Hne _ _ Hk). rewrite Gp by exact Hne. apply g7; [exact Hk|]. unfold pact in *. now rewrite Gp in Hp.
    + intros key en Hi Hk Hp. specialize (Hne _ _ Hk). eapply g8; eauto. unfold pact in *. now rewrite Gp in Hp.
    + intros key en Hk. destruct (g11 key en Hk) as [A B]. rewrite Len. split; [unfold p; lia|exact B].
  - intros x0 Hx. destruct (i x0 Hx) as [A B]. rewrite Len. split; [exact A|unfold p; lia].
  - intros x0 Hx Hp. destruct (i x0 Hx) as [A B]. apply j; [exact Hx|]. unfold pact in *. now rewrite Gp in Hp.
  - destruct l as [l1 l2]. split; [exact l1|]. intros l0 Hl. rewrite Len. destruct (l2 l0 Hl). unfold p. split; auto; lia.
  - intros p0 s c0 Hc. destruct (m p0 s c0 Hc). rewrite Len. unfold p. split; auto; lia.
  - intros p0 i0 s Hp Hn. destruct (Pc _ Hp) as [->|(Hl & Hp0 & G)].
    + rewrite Gn in Hn. assert (In (Some s) (p_tab x)) by (rewrite <- Hn; apply nth_In; eapply nth_some_lt; eauto). apply Tn in H0. discriminate.
    + rewrite G in Hn. eapply o; eauto.
  - intros p0 s c0 Hp Hc Hs. destruct (Pc _ Hp) as [->|(Hl & Hp0 & G)]; [exfalso; eapply NoC; eauto|]. rewrite G. eapply pp; eauto.
  - intros p0 s c0 Hp Hs Hc Hsn. destruct (Pc _ Hp) as [->|(Hl & Hp0 & G)]; [exfalso; eapply NoC; eauto|]. rewrite G. eapply q; eauto.
  - intros x0 Hx Hp Hs. destruct (i x0 Hx) as [A B]. rewrite Gp by exact B. apply r; auto. unfold pact in *. now rewrite Gp in Hp.
Qed.

Lemma pub_create_ok w l retry h w' r : InvR w -> pub_create w l retry h = Val (w', r) -> InvR w'.
Proof.
  intros IR Hv. pose proof IR as (I & RP & RS & TB). unfold pub_create in Hv. cbn zeta in Hv.
  destruct (reg_add (w_preg w) {| pd_id := length (w_pubs w); pd_n := required_samples (w_cfg w) l |}) as [[reg slot]|] eqn:Er;
    [|inversion Hv; subst; exact IR].
  destruct (reg_add_spec _ _ _ _ Er) as (Hsl & Hnone & Hreg).
  set (p := length (w_pubs w)) in *. set (n := required_samples (w_cfg w) l) in *.
  match type of Hv with context [w_set_pubs w (w_pubs w ++ [?x0])] => set (x := x0) in * end.
  set (w1 := w_set_pubs w (w_pubs w ++ [x])) in *.
  assert (I1 : Inv w1) by (apply (Inv_add_pub _ w x I); reflexivity).
  assert (Gn : getp w1 p = x).
  { unfold getp, w1, p. cbn [w_pubs w_set_pubs]. rewrite app_nth2 by lia. now rewrite Nat.sub_diag. }
  assert (Gp : forall q, q < p -> getp w1 q = getp w q).
  { intros q Hq. unfold getp, w1. cbn [w_pubs w_set_pubs]. now rewrite app_nth1. }
  assert (Hp1 : pact w1 p) by (unfold pact; rewrite Gn; reflexivity).
  destruct (pub_force_update w1 p) as [w2|] eqn:E2; [|discriminate]. cbn [rbind] in Hv. inversion Hv; subst w' r. clear Hv.
  assert (RS1 : RegS w1) by exact RS.
  destruct (pub_force_update_ok _ w1 p w2 I1 RS1 Hp1 ltac:(rewrite Gn; reflexivity) E2) as (I2 & S2 & L2 & L2').
  assert (Hp2 : pact w2 p) by (apply (PubStep_pact _ _ _ _ S2); exact Hp1).
  assert (Hact : forall q, pact w2 q -> q = p \/ (q < p /\ pact w q /\ getp w2 q = getp w q)).
  { intros q Hq. destruct (Nat.eq_dec q p) as [->|Hne]; [now left|right].
    apply (PubStep_pact _ _ _ _ S2) in Hq. pose proof (pact_lt _ _ Hq) as Hl.
    assert (Hlt : q < p). { unfold w1 in Hl. cbn [w_pubs w_set_pubs] in Hl. rewrite app_length in Hl. cbn in Hl. unfold p in *. lia. }
    unfold pact in Hq. rewrite (Gp q Hlt) in Hq. rewrite (ps_other _ _ _ S2 q Hne), (Gp q Hlt). auto. }
  assert (Epreg : w_preg w2 = w_preg w) by (rewrite (ps_preg _ _ _ S2); reflexivity).
  split; [|split; [|split]].
  - apply Inv_set_preg; [exact I2|rewrite Hreg, upd_length, Epreg; reflexivity|].
    intros i d Hd. rewrite Hreg in Hd. destruct (Nat.eq_dec slot i) as [<-|Hne].
    + rewrite nth_upd_same in Hd by exact Hsl. inversion Hd; subst d. cbn [pd_id pd_n].
      split; [exact Hp2|]. rewrite (ps_slot _ _ _ S2), (ps_n _ _ _ S2), Gn. auto.
    + rewrite nth_upd_other in Hd by exact Hne. rewrite <- Epreg in Hd. apply (iv_preg _ _ I2). exact Hd.
  - intros q Hq. change (pact w2 q) in Hq. change (getp (w_set_preg w2 reg) q) with (getp w2 q). cbn [w_preg w_set_preg]. rewrite Hreg.
    destruct (Hact q Hq) as [->|(Hlt & Hq0 & G)].
    + rewrite (ps_slot _ _ _ S2), (ps_n _ _ _ S2), Gn. cbn [p_slot p_n x]. now rewrite nth_upd_same by exact Hsl.
    + rewrite G. rewrite nth_upd_other; [now apply RP|]. intros E. pose proof (RP q Hq0) as R. rewrite <- E, Hnone in R. discriminate.
  - assert (Gs : forall s, gets (w_set_preg w2 reg) s = gets w s) by (intros s; apply (PubStep_gets _ _ _ _ S2)).
    eapply (RegS_step w); [|intros s Hs; unfold sact in *; rewrite Gs in *; eauto|exact RS]. cbn. now rewrite (ps_sreg _ _ _ S2).
  - assert (Gs : forall s, gets (w_set_preg w2 reg) s = gets w s) by (intros s; apply (PubStep_gets _ _ _ _ S2)).
    intros s Hs. unfold salive in Hs. rewrite Gs in Hs. eapply TbrOk_gets; [apply Gs|now apply TB].
Qed.

(* ---------------------------------------------------------------------------------------- *)
(* a fresh subscriber                                                                        *)
(* ---------------------------------------------------------------------------------------- *)
Lemma Inv_add_sub H w x nconn :
  InvG H w ->
  let s := length (w_subs w) in
  let w1 := w_set_subs w (w_subs w ++ [x]) in
  H s = None ->
  s_alive x = true -> 1 <= s_buf x <= cf_B (w_cfg w) -> s_tab x = repeat None (cf_P (w_cfg w)) ->
  s_store x = repeat None nconn -> s_freekeys x = seq 0 nconn -> s_tbr x = [] ->
  InvG H w1.
Proof.
  intros I s w1 Hh X1 X2 X3 X4 X5 X6.
  assert (Gs : forall t, t < s -> gets w1 t = gets w t).
  { intros t Ht. unfold gets, w1. cbn [w_subs w_set_subs]. now rewrite app_nth1. }
  assert (Gn : gets w1 s = x).
  { unfold gets, w1, s. cbn [w_subs w_set_subs]. rewrite app_nth2 by lia. now rewrite Nat.sub_diag. }
  assert (Len : length (w_subs w1) = S s) by (unfold w1; cbn [w_subs w_set_subs]; rewrite app_length; cbn; lia).
  assert (Sc : forall t, salive w1 t -> t = s \/ (t < s /\ salive w t /\ gets w1 t = gets w t)).
  { intros t Ht. destruct (Nat.lt_trichotomy t s) as [Hl|[->|Hg]]; [right|now left|].
    - unfold salive in *. rewrite Gs in Ht by exact Hl. auto.
    - unfold salive, gets in Ht. rewrite nth_overflow in Ht by lia. discriminate. }
  assert (Ac : forall t, sact w1 t -> t = s \/ (t < s /\ sact w t /\ gets w1 t = gets w t)).
  { intros t Ht. destruct (Nat.lt_trichotomy t s) as [Hl|[->|Hg]]; [right|now left|].
    - unfold sact in *. rewrite Gs in Ht by exact Hl. auto.
    - unfold sact, gets in Ht. rewrite nth_overflow in Ht by lia. discriminate. }
  assert (Tn : forall e, In e (s_tab x) -> e = None) by (intros e He; rewrite X3 in He; now apply repeat_spec in He).
  assert (Sn : forall k, nth k (s_store x) None = None).
  { intros k. rewrite X4. destruct (Nat.lt_ge_cases k nconn); [now apply nth_repeat'|]. apply nth_overflow. now rewrite repeat_length. }
  assert (Cr : forall p t c, getc w p t = Some c -> t < s) by (intros p t c Hc; now apply (iv_conn_range _ _ I) in Hc).
  destruct I as [a b c d e f g h i j k l m n o pp q r].
  constructor; auto.
  - intros i0 d0 Hd. destruct (e _ _ Hd) as (D1 & D2 & D3 & D4). assert (Hl : sd_id d0 < s) by (apply salive_lt; now apply h).
    unfold sact. rewrite Gs by exact Hl. auto.
  - intros t Ht. destruct (Sc _ Ht) as [->|(Hl & Ht0 & G)].
    + rewrite Hh. constructor; rewrite ?Gn; auto.
      * rewrite X3. apply repeat_length.
      * rewrite opt_keys_none by exact Tn. constructor.
      * intros i0 key Hn. assert (In (Some key) (s_tab x)) by (rewrite <- Hn; apply nth_In; eapply nth_some_lt; eauto). apply Tn in H0. discriminate.
      * rewrite X5. apply seq_NoDup.
      * intros key Hk. rewrite X5 in Hk. apply in_seq in Hk. split; [rewrite X4, repeat_length; lia|apply Sn].
      * intros key en Hk. rewrite Sn in Hk. discriminate.
      * intros key en Hk. rewrite X6 in Hk. contradiction.
      * intros i0 key _ Hk. rewrite X6 in Hk. contradiction.
      * intros k1 k2 e1 e2 Hk. rewrite Sn in Hk. discriminate.
      * intros key en Hk. rewrite Sn in Hk. discriminate.
    + eapply (SubInvH_frame2 w w1); try reflexivity; try (now rewrite G); [|now apply g]. intros q0 c0 Hc Hr. eauto.
  - intros t Ht. destruct (Ac _ Ht) as [->|(Hl & Ht0 & G)]; [unfold salive; now rewrite Gn|]. unfold salive. rewrite G. now apply h.
  - intros x0 Hx. destruct (i x0 Hx) as [A B]. pose proof (salive_lt _ _ A) as Hl. split; [|exact B]. unfold salive. now rewrite Gs.
  - intros x0 Hx Hp. destruct (i x0 Hx) as [A B]. pose proof (salive_lt _ _ A) as Hl. rewrite Gs by exact Hl. now apply j.
  - intros p0 t c0 Hc. destruct (m p0 t c0 Hc). rewrite Len. unfold s. split; auto; lia.
  - intros p0 t c0 Hc. rewrite Gs by (eapply Cr; eauto). eapply n; eauto.
  - intros p0 i0 t Hp Hn. destruct (o _ _ _ Hp Hn) as [O1 O2]. rewrite Len. split; [unfold s; lia|]. intros Ht.
    unfold sact in Ht. rewrite Gs in * by exact O1. auto.
  - intros p0 t c0 Hp Ht Hc Hsn. pose proof (Cr _ _ _ Hc) as Hl. unfold sact in Ht. rewrite Gs in * by exact Hl.
    change (borrowed w1 p0 t) with (borrowed w p0 t). eapply q; eauto.
  - intros x0 Hx Hp Ht. destruct (i x0 Hx) as [A B]. pose proof (salive_lt _ _ A) as Hl. unfold sact in Ht. rewrite Gs in Ht by exact Hl. now apply r.
Qed.

Lemma sub_create_ok w buf hreq w' r : InvR w -> sub_create w buf hreq = Val (w', r) -> InvR w'.
Proof.
  intros IR Hv. pose proof IR as (I & RP & RS & TB). unfold sub_create in Hv. cbn zeta in Hv.
  pose proof (iv_cfg _ _ I) as (_ & _ & HB & _).
  match type of Hv with match ?m with inl _ => _ | inr _ => _ end = _ => destruct m as [b|e] eqn:Eb end; [|inversion Hv; subst; exact IR].
  assert (Hb : 1 <= b <= cf_B (w_cfg w)).
  { destruct buf as [b0|].
    - destruct (Nat.ltb (cf_B (w_cfg w)) (Nat.max 1 b0)) eqn:E; [discriminate|]. inversion Eb; subst b. apply Nat.ltb_ge in E. destruct b0; cbn [Nat.max] in *; lia.
    - inversion Eb; subst b. lia. }
  match type of Hv with match ?m with inl _ => _ | inr _ => _ end = _ => destruct m as [h|e] eqn:Eh end; [|inversion Hv; subst; exact IR].
  match type of Hv with match reg_add _ ?d with _ => _ end = _ => set (d0 := d) in * end.
  destruct (reg_add (w_sreg w) d0) as [[reg slot]|] eqn:Er; [|inversion Hv; subst; exact IR].
  destruct (reg_add_spec _ _ _ _ Er) as (Hsl & Hnone & Hreg).
  set (s := length (w_subs w)) in *.
  match type of Hv with context [w_set_subs w (w_subs w ++ [?x0])] => set (x := x0) in * end.
  set (w1 := w_set_subs w (w_subs w ++ [x])) in *.
  assert (I1 : Inv w1) by (eapply (Inv_add_sub _ w x); eauto; reflexivity).
  assert (Gn : gets w1 s = x).
  { unfold gets, w1, s. cbn [w_subs w_set_subs]. rewrite app_nth2 by lia. now rewrite Nat.sub_diag. }
  assert (Gs : forall t, t < s -> gets w1 t = gets w t).
  { intros t Ht. unfold gets, w1. cbn [w_subs w_set_subs]. now rewrite app_nth1. }
  assert (Ha1 : salive w1 s) by (unfold salive; rewrite Gn; reflexivity).
  assert (T1 : TbrOk w1 s) by (unfold TbrOk; rewrite Gn; cbn; split; [constructor|contradiction]).
  destruct (sub_force_update w1 s) as [w2|] eqn:E2; [|discriminate]. cbn [rbind] in Hv. inversion Hv; subst w' r. clear Hv.
  assert (RP1 : RegP w1) by exact RP.
  pose proof (sub_force_update_ok w1 s w2 I1 RP1 Ha1 T1 ltac:(rewrite Gn; reflexivity) E2) as O2.
  destruct (SubOK_carry _ _ _ _ O2 RP1 Ha1 T1) as (I2 & RP2 & Ha2 & T2 & S2).
  assert (Hs2 : sact w2 s) by (unfold sact; rewrite (ss_active _ _ _ S2), Gn; reflexivity).
  assert (Hact : forall t, t <> s -> (sact w2 t -> sact w t) /\ (salive w2 t -> salive w t) /\ gets w2 t = gets w t).
  { intros t Hne. unfold sact, salive. rewrite (ss_other _ _ _ S2 t Hne).
    destruct (Nat.lt_ge_cases t s) as [Hl|Hge]; [rewrite (Gs t Hl); auto|].
    assert (E : gets w1 t = sub_dead).
    { unfold gets. apply nth_overflow. unfold w1. cbn [w_subs w_set_subs]. rewrite app_length. cbn [length]. fold s. lia. }
    assert (E' : gets w t = sub_dead) by (unfold gets; apply nth_overflow; unfold s in *; lia).
    rewrite E, E'. auto. }
  assert (Esreg : w_sreg w2 = w_sreg w) by (rewrite (ss_sreg _ _ _ S2); reflexivity).
  split; [|split; [|split]].
  - apply Inv_set_sreg; [exact I2|rewrite Hreg, upd_length, Esreg; reflexivity|].
    intros i d Hd. rewrite Hreg in Hd. destruct (Nat.eq_dec slot i) as [<-|Hne].
    + rewrite nth_upd_same in Hd by exact Hsl. inversion Hd; subst d. unfold d0. cbn [sd_id Port.sd_buf sd_hreq].
      split; [exact Hs2|]. rewrite (ss_slot _ _ _ S2), (ss_buf _ _ _ S2), (ss_hreq _ _ _ S2), Gn. auto.
    + rewrite nth_upd_other in Hd by exact Hne. rewrite <- Esreg in Hd. apply (iv_sreg _ _ I2). exact Hd.
  - eapply (RegP_step w2); [reflexivity| |exact RP2]. intros p Hp. auto.
  - intros t Ht. change (sact w2 t) in Ht. change (gets (w_set_sreg w2 reg) t) with (gets w2 t). cbn [w_sreg w_set_sreg]. rewrite Hreg.
    destruct (Nat.eq_dec t s) as [->|Hne].
    + rewrite (ss_slot _ _ _ S2), (ss_buf _ _ _ S2), (ss_hreq _ _ _ S2), Gn. cbn [s_slot s_buf s_hreq x]. now rewrite nth_upd_same by exact Hsl.
    + destruct (Hact t Hne) as (A1 & A2 & G). rewrite G. specialize (A1 Ht).
      rewrite nth_upd_other; [now apply RS|]. intros E. pose proof (RS t A1) as R. rewrite <- E, Hnone in R. discriminate.
  - intros t Ht. change (salive w2 t) in Ht. destruct (Nat.eq_dec t s) as [->|Hne]; [exact T2|].
    destruct (Hact t Hne) as (A1 & A2 & G). eapply TbrOk_gets; [exact G|]. apply TB. auto.
Qed.
