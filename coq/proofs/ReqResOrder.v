(* C11 -- lemmas about model/ReqRes.v, part 5: responses arrive in send order, each at most once.
   Every response gets a stamp from the global counter when it is SENT (rloan_send); the stamps
   in every channel queue strictly increase, are below the counter, and exceed the stamps of
   everything the same (client, server, channel) already handed out. *)
From V Require Import model.Base model.ReqRes proofs.ReqResProofs proofs.ReqResInv proofs.ReqResRoute proofs.ReqResLink.
From Coq Require Import ZifyBool ZifyNat ZifyN Sorted.
Open Scope N_scope.

Definition inc (l : list rspmsg) : Prop := StronglySorted N.lt (map p_stamp l).
Definition rlogT := list (pendrec * rspmsg).

Definition chan_w (L : rlogT) (n cl sv c : N) (x : chan) : Prop :=
  inc (c_sub x) /\
  (forall m, In m (c_sub x) -> p_sv m = sv /\ p_stamp m < n) /\
  (forall p m, In (p, m) L -> pn_cl p = cl -> p_sv m = sv -> q_ch (pn_msg p) = c ->
     forall m', In m' (c_sub x) -> p_stamp m < p_stamp m').
Definition conn_w (L : rlogT) (n : N) (k : conn) : Prop := forall c, chan_w L n (k_cl k) (k_sv k) c (k_chan k c).
Definition w_ok (L : rlogT) (n : N) (s : state) : Prop := Forall (conn_w L n) (s_conns s).

Lemma inc_nil : inc []. Proof. constructor. Qed.
Lemma inc_tl : forall m q, inc (m :: q) -> inc q.
Proof. intros m q H. unfold inc in *. cbn [map] in H. inversion H; assumption. Qed.
Lemma inc_hd : forall m q m', inc (m :: q) -> In m' q -> p_stamp m < p_stamp m'.
Proof.
  intros m q m' H Hin. unfold inc in H. cbn [map] in H. inversion H as [|? ? _ Hf]; subst.
  rewrite Forall_forall in Hf. apply Hf. apply in_map. exact Hin.
Qed.
Lemma inc_app1 : forall l m, inc l -> (forall x, In x l -> p_stamp x < p_stamp m) -> inc (l ++ [m]).
Proof.
  induction l as [|h t IH]; intros m H Hlt; unfold inc in *; cbn [app map] in *.
  - constructor; constructor.
  - inversion H as [|? ? Ht Hf]; subst. constructor.
    + apply IH; [exact Ht|]. intros x Hx. apply Hlt. right; exact Hx.
    + rewrite map_app. apply Forall_app. split; [exact Hf|]. constructor; [|constructor]. apply Hlt. left; reflexivity.
Qed.

Lemma chan_w_empty : forall L n cl sv c x, c_sub x = [] -> chan_w L n cl sv c x.
Proof. intros L n cl sv c x E. unfold chan_w. rewrite E. split; [apply inc_nil|]. split; [intros m []|intros p m _ _ _ _ m' []]. Qed.
Lemma chan_w_ext : forall L n cl sv c x x', c_sub x' = c_sub x -> chan_w L n cl sv c x -> chan_w L n cl sv c x'.
Proof. intros L n cl sv c x x' E H. unfold chan_w in *. rewrite E. exact H. Qed.
Lemma chan_w_tl : forall L n cl sv c x x' m, c_sub x = m :: c_sub x' -> chan_w L n cl sv c x -> chan_w L n cl sv c x'.
Proof.
  intros L n cl sv c x x' m E [A [B C]]. rewrite E in *. split; [eapply inc_tl; exact A|]. split.
  - intros m0 H0. apply B. right; exact H0.
  - intros p m0 H1 H2 H3 H4 m' H5. apply (C p m0 H1 H2 H3 H4). right; exact H5.
Qed.
Lemma chan_w_mono : forall L n n' cl sv c x, n <= n' -> chan_w L n cl sv c x -> chan_w L n' cl sv c x.
Proof. intros L n n' cl sv c x Hle [A [B C]]. split; [exact A|]. split; [|exact C]. intros m Hm. destruct (B m Hm). split; [assumption|lia]. Qed.
Lemma conn_w_mono : forall L n n' k, n <= n' -> conn_w L n k -> conn_w L n' k.
Proof. intros L n n' k Hle H c. eapply chan_w_mono; [exact Hle|apply H]. Qed.
Lemma w_ok_mono : forall L n n' s, n <= n' -> w_ok L n s -> w_ok L n' s.
Proof. intros L n n' s Hle H. unfold w_ok in *. eapply Forall_impl; [|exact H]. intros k Hk. eapply conn_w_mono; eassumption. Qed.

Lemma k_chan_set_cases : forall k c x c', k_chan (k_set_chan k c x) c' = x \/ k_chan (k_set_chan k c x) c' = k_chan k c'.
Proof.
  intros k c x c'. unfold k_chan, k_set_chan, k_with_ch, nthN, updN. cbn [k_ch mk_conn].
  destruct (nth_upd_cases _ (k_ch k) (N.to_nat c) (N.to_nat c') x dchan _ eq_refl) as [[_ E] | E]; [left; exact E|right; exact E].
Qed.
Lemma k_chan_set_idx : forall k c x c', k_chan (k_set_chan k c x) c' = x -> c' = c \/ x = k_chan k c'.
Proof.
  intros k c x c' E. unfold k_chan, k_set_chan, k_with_ch, nthN, updN in *. cbn [k_ch mk_conn] in *.
  destruct (nth_upd_cases _ (k_ch k) (N.to_nat c) (N.to_nat c') x dchan _ E) as [[E1 _] | E1]; [left; apply N2Nat.inj; exact E1|right; exact E1].
Qed.
(* replacing channel c by a channel that is fine AT INDEX c *)
Lemma conn_w_set_chan : forall L n k c x, conn_w L n k -> chan_w L n (k_cl k) (k_sv k) c x -> conn_w L n (k_set_chan k c x).
Proof.
  intros L n k c x H Hx c'. change (k_cl (k_set_chan k c x)) with (k_cl k). change (k_sv (k_set_chan k c x)) with (k_sv k).
  destruct (k_chan_set_cases k c x c') as [E | E]; rewrite E; [|apply H].
  destruct (k_chan_set_idx k c x c' E) as [-> | ->]; [exact Hx|apply H].
Qed.
Lemma conn_w_map_state : forall L n k c f, conn_w L n k -> conn_w L n (k_map_state k c f).
Proof. intros. unfold k_map_state. apply conn_w_set_chan; [assumption|]. eapply chan_w_ext; [|apply H]. reflexivity. Qed.
Lemma conn_w_views : forall L n k, conn_w L n k -> (forall v, conn_w L n (k_with_cv k v)) /\ (forall v, conn_w L n (k_with_svw k v)) /\
  (forall a b c, conn_w L n (k_with_req k a b c)).
Proof. intros L n k H. split; [|split]; intros; intro c0; exact (H c0). Qed.
Lemma conn_w_new : forall L n g a b, conn_w L n (new_conn g a b).
Proof.
  intros L n g a b c. apply chan_w_empty. unfold k_chan, new_conn, nthN. cbn [k_ch mk_conn].
  assert (H : forall m i, nth i (repeat dchan m) dchan = dchan) by (induction m; intros [|i]; cbn [repeat nth]; auto).
  rewrite H. reflexivity.
Qed.
Lemma conn_w_clear : forall L n k, conn_w L n (k_with_ch k (map (fun x => mk_chan (c_state x) [] [] []) (k_ch k))).
Proof.
  intros L n k c. apply chan_w_empty. unfold k_chan, k_with_ch, nthN. cbn [k_ch mk_conn].
  assert (H : forall (l : list chan) i, c_sub (nth i (map (fun x => mk_chan (c_state x) [] [] []) l) dchan) = []).
  { induction l as [|h t IH]; intros [|i]; cbn [map nth]; auto. }
  apply H.
Qed.
Lemma conn_w_comp_clear : forall L n k, conn_w L n k ->
  conn_w L n (k_with_ch k (map (fun x => mk_chan (c_state x) (c_sub x) (c_bor x) []) (k_ch k))).
Proof.
  intros L n k H c. eapply chan_w_ext; [|apply (H c)]. unfold k_chan, k_with_ch, nthN. cbn [k_ch mk_conn].
  assert (E : forall (l : list chan) i, c_sub (nth i (map (fun x => mk_chan (c_state x) (c_sub x) (c_bor x) []) l) dchan) = c_sub (nth i l dchan)).
  { induction l as [|h t IH]; intros [|i]; cbn [map nth]; auto. }
  apply E.
Qed.

Lemma w_upd_conn : forall L n s a b f, w_ok L n s -> (forall k, k_cl k = a -> k_sv k = b -> conn_w L n k -> conn_w L n (f k)) -> w_ok L n (upd_conn s a b f).
Proof.
  intros. unfold w_ok, upd_conn. cbn [s_conns st_conns]. apply Forall_map_if'; [assumption|].
  intros k Hk. unfold is_key in Hk. apply andb_prop in Hk. destruct Hk as [H1 H2]. apply N.eqb_eq in H1. apply N.eqb_eq in H2. apply H0; assumption.
Qed.
Lemma w_st_conns_map : forall L n s s' (c : conn -> bool) (f : conn -> conn), w_ok L n s -> (forall k, conn_w L n k -> conn_w L n (f k)) ->
  w_ok L n (st_conns s' (map (fun k => if c k then f k else k) (s_conns s))).
Proof. intros. unfold w_ok. cbn [s_conns st_conns]. apply Forall_map_if; assumption. Qed.
Lemma w_upd_server : forall L n s i f, w_ok L n s -> w_ok L n (upd_server s i f). Proof. intros; assumption. Qed.
Lemma w_upd_client : forall L n s i f, w_ok L n s -> w_ok L n (upd_client s i f). Proof. intros; assumption. Qed.
Lemma w_ensure_conn : forall L n g s a b, w_ok L n s -> w_ok L n (ensure_conn g s a b).
Proof.
  intros. unfold ensure_conn. destruct (get_conn s a b); [assumption|].
  unfold w_ok. cbn [s_conns st_conns]. apply Forall_app. split; [assumption|]. constructor; [apply conn_w_new|constructor].
Qed.
Lemma get_conn_w : forall L n s a b k, w_ok L n s -> get_conn s a b = Some k -> conn_w L n k /\ k_cl k = a /\ k_sv k = b.
Proof.
  intros L n s a b k H Hg. unfold get_conn in Hg. apply find_some in Hg. destruct Hg as [Hin Hk]. unfold w_ok in H. rewrite Forall_forall in H.
  unfold is_key in Hk. apply andb_prop in Hk. destruct Hk as [H1 H2]. apply N.eqb_eq in H1. apply N.eqb_eq in H2. auto.
Qed.

Section Fixed.
  Variable L : rlogT.
  Variable n : N.
  Notation W := (w_ok L n).

  Lemma w_client_sync : forall g s cl, W s -> W (client_sync g s cl).
  Proof.
    intros g s cl H. unfold client_sync. apply fold_left_inv.
    - intros a b Ha. apply w_upd_conn; [apply w_ensure_conn; exact Ha|]. intros k _ _ Hk. destruct (view_active (k_cv k)); exact Hk.
    - apply w_st_conns_map; [exact H|]. intros k Hk. unfold client_detach. intro c. exact (Hk c).
  Qed.
  Lemma w_server_sync_idx : forall g sv s ir, W s -> W (server_sync_idx g sv s ir).
  Proof.
    intros g sv s [i reg] H. unfold server_sync_idx.
    destruct (get_server s sv) as [srv|]; [|exact H].
    match goal with |- context [if ?b then _ else _] => destruct b end; [exact H|].
    apply w_upd_server.
    match goal with |- W (match reg with Some c => _ | None => ?x end) => set (s1 := x) end.
    assert (H1 : W s1).
    { unfold s1. destruct (nthN (sv_conns srv) i None); [|exact H]. destruct (get_conn s n0 sv); [|exact H].
      apply w_upd_conn; [apply w_upd_server; exact H|]. intros k0 _ _ Hk. unfold server_detach. intro c0. exact (conn_w_clear L n k0 c0). }
    destruct reg; [|exact H1]. apply w_upd_conn; [apply w_ensure_conn; exact H1|]. intros k _ _ Hk; exact Hk.
  Qed.
  Lemma w_server_sync : forall g s sv, W s -> W (server_sync g s sv).
  Proof. intros. unfold server_sync. apply fold_left_inv; [intros; apply w_server_sync_idx; assumption|assumption]. Qed.
  Lemma w_gc : forall s, W s -> W (gc s).
  Proof.
    intros s H. unfold gc. cbv zeta.
    match goal with |- W (st_conns ?x (filter ?f (s_conns ?x))) => assert (H0 : W x) end.
    2:{ unfold w_ok in *. cbn [s_conns st_conns]. apply Forall_forall. intros k Hk. apply filter_In in Hk.
        rewrite Forall_forall in H0. apply H0. tauto. }
    apply fold_left_inv.
    - intros a c Ha. unfold gc_server. destruct (sv_obj c || server_refs a (sv_inst c)); [exact Ha|].
      unfold w_ok. cbn [s_conns st_reg st_conns st_servers].
      apply (Forall_map_if _ (conn_w L n) (fun k => N.eqb (k_sv k) (sv_inst c)) (fun k => k_with_svw k VNone)); [exact Ha|]. intros k Hk c0; exact (Hk c0).
    - apply fold_left_inv; [|exact H]. intros a c Ha. unfold gc_client.
      destruct (cl_obj c || client_refs a (cl_inst c)); [exact Ha|].
      assert (H1 : W (upd_conns_of_client (st_clients a (filter (fun x => negb (cl_inst x =? cl_inst c)) (s_clients a))) (cl_inst c) (fun k => k_with_cv k VNone))).
      { unfold upd_conns_of_client, w_ok. cbn [s_conns st_conns st_clients].
        apply (Forall_map_if _ (conn_w L n) (fun k => N.eqb (k_cl k) (cl_inst c)) (fun k => k_with_cv k VNone)); [exact Ha|]. intros k Hk c0; exact (Hk c0). }
      match goal with |- context [index_of ?x ?l ?i] => destruct (index_of x l i) end; exact H1.
  Qed.
  Lemma w_client_reclaim : forall s cl, W s -> W (client_reclaim s cl).
  Proof. intros s cl H. unfold client_reclaim. apply w_st_conns_map; [exact H|]. intros k Hk c; exact (Hk c). Qed.
  Lemma w_server_reclaim : forall s sv, W s -> W (server_reclaim s sv).
  Proof. intros s sv H. unfold server_reclaim. apply w_st_conns_map; [exact H|]. intros k Hk. apply conn_w_comp_clear; exact Hk. Qed.
  Lemma w_client_loan : forall g s cl hid, W s -> W (fst (client_loan g s cl hid)).
  Proof.
    intros g s cl hid H. unfold client_loan.
    destruct (get_client s cl); [|exact H].
    destruct (N.eqb (ML g) (cl_loans c)); [exact H|].
    pose proof (w_client_reclaim s cl H) as H1.
    destruct (get_client (client_reclaim s cl) cl); [|exact H1].
    destruct (N.leb _ _); [exact H1|]. destruct (N.leb _ _); [exact H1|]. destruct (cl_avail c0); [exact H1|].
    unfold fresh. cbn [fst snd]. exact H1.
  Qed.
  Lemma w_deliver_request : forall g cl m acc k, W (fst acc) -> W (fst (deliver_request g cl m acc k)).
  Proof.
    intros g cl m [s n0] k H. unfold deliver_request. cbn [fst] in *.
    destruct (get_conn s cl (k_sv k)) as [k1|]; [|exact H].
    destruct (try_send _ _ _ _) as [[q ev]|]; [|exact H].
    cbn [fst].
    assert (H1 : W (upd_conn s cl (k_sv k1) (fun k0 => k_with_req k0 q (k_rbor k0) (k_rcomp k0)))).
    { apply w_upd_conn; [exact H|]. intros k0 _ _ Hk c; exact (Hk c). }
    destruct ev; exact H1.
  Qed.
  Lemma w_client_send : forall g s m, W s -> W (fst (client_send g s m)).
  Proof.
    intros g s m H. unfold client_send.
    destruct (get_client s (q_cl m)); [|exact H].
    destruct (N.leb _ _); [exact H|].
    unfold fresh. cbv zeta. cbn [fst snd].
    match goal with |- context [fold_left ?f ?l ?a0] => assert (HF : W (fst (fold_left f l a0))) end.
    { apply fold_left_inv; [intros a b Ha; apply w_deliver_request; assumption|].
      cbn [fst]. apply w_client_reclaim.
      apply w_st_conns_map; [apply w_client_sync; exact H|]. intros k Hk. apply conn_w_map_state; exact Hk. }
    match goal with |- context [fold_left ?f ?l ?a0] => destruct (fold_left f l a0) as [s2 n2] end.
    cbn [fst] in *. exact HF.
  Qed.
  Lemma w_pend_drop : forall s p, W s -> W (pend_drop s p).
  Proof.
    intros s p H. unfold pend_drop, request_release.
    apply w_upd_client. apply w_st_conns_map; [exact H|]. intros k Hk. apply conn_w_map_state; exact Hk.
  Qed.
  Lemma w_pend_hint : forall s p, W s -> W (pend_hint s p).
  Proof. intros s p H. unfold pend_hint. apply w_st_conns_map; [exact H|]. intros k Hk. apply conn_w_map_state; exact Hk. Qed.
  Lemma w_response_release : forall s a b c m, W s -> W (response_release s a b c m).
  Proof.
    intros s a b c m H. unfold response_release. apply w_upd_conn; [exact H|].
    intros k _ _ Hk. destruct (view_on (k_cv k)); [|exact Hk].
    apply conn_w_set_chan; [exact Hk|]. eapply chan_w_ext; [|apply (Hk c)]. reflexivity.
  Qed.
  Lemma w_act_drop : forall s a, W s -> W (act_drop s a).
  Proof.
    intros s a H. unfold act_drop.
    match goal with |- context [act_conn ?x _ _] => assert (H1 : W x) end.
    { apply w_upd_conn; [exact H|]. intros k _ _ Hk. destruct (view_on (k_svw k)); [|exact Hk]. intro c; exact (Hk c). }
    destruct (act_conn _ _ _); [|exact H1]. apply w_upd_conn; [exact H1|]. intros k _ _ Hk. apply conn_w_map_state; exact Hk.
  Qed.
  Lemma w_spoll_retained : forall g sv l s, W s -> W (fst (spoll_retained g s sv l)).
  Proof.
    induction l as [|k t IH]; intros s H; cbn [spoll_retained]; [exact H|].
    destruct (N.eqb _ _); [apply IH; assumption|].
    destruct (k_rsub k) as [|m q].
    - apply IH. destruct (nonempty _); [exact H|]. apply w_upd_conn; [exact H|]. intros k0 _ _ Hk0 c; exact (Hk0 c).
    - cbn [fst]. apply w_upd_conn; [exact H|]. intros k0 _ _ Hk0 c; exact (Hk0 c).
  Qed.
  Lemma w_spoll_all : forall g sv l s a b, W s -> W (fst (spoll_all g s sv l a b)).
  Proof.
    induction l as [|k t IH]; intros s a b H; cbn [spoll_all]; [exact H|].
    destruct (k_rsub k) as [|m q]; [apply IH; assumption|].
    destruct (N.leb _ _); [apply IH; assumption|].
    cbn [fst]. apply w_upd_conn; [exact H|]. intros k0 _ _ Hk0 c; exact (Hk0 c).
  Qed.
  Lemma w_server_rcv1 : forall g s sv ord, W s -> W (fst (server_rcv1 g s sv ord)).
  Proof.
    intros g s sv ord H. unfold server_rcv1.
    pose proof (w_spoll_retained g sv (sconns_in_order s sv ord (fun k => view_retained (k_svw k))) s H) as H1.
    destruct (spoll_retained _ _ _ _) as [s1 r]. cbn [fst] in H1.
    destruct r; try exact H1. apply w_spoll_all; exact H1.
  Qed.
  Lemma w_server_receive : forall fuel g s sv slot ord, W s -> W (fst (server_receive fuel g s sv slot ord)).
  Proof.
    induction fuel as [|f IH]; intros g s sv slot ord H; cbn [server_receive]; [exact H|].
    pose proof (w_server_rcv1 g (server_sync g s sv) sv ord (w_server_sync _ _ _ H)) as H1.
    destruct (server_rcv1 _ _ _ _) as [s1 r]. cbn [fst] in H1.
    destruct r as [| |cl m]; try exact H1.
    destruct (match get_server s1 sv with Some srv => index_of cl (sv_conns srv) 0 | None => None end).
    - unfold fresh. cbn [fst snd].
      match goal with |- context [if ?b then _ else _] => destruct b end; [|exact H1].
      apply IH. apply w_act_drop. exact H1.
    - destruct (faf g); [unfold fresh; cbn [fst snd]; exact H1|].
      apply IH. apply w_upd_conn; [exact H1|]. intros k _ _ Hk. destruct (view_on (k_svw k)); [|exact Hk]. intro c; exact (Hk c).
  Qed.
  Lemma w_act_loan : forall g s a v, W s -> W (fst (act_loan g s a v)).
  Proof.
    intros g s a v H. unfold act_loan.
    destruct (N.leb _ _); [exact H|].
    pose proof (w_server_reclaim (set_act_loans s (ac_uid a) (fun n => n + 1)) (ac_sv a) H) as H1.
    destruct (get_server _ _); [|exact H1].
    destruct (N.leb _ _); [exact H1|]. destruct (N.leb _ _); [exact H1|].
    unfold fresh. cbn [fst snd]. exact H1.
  Qed.
End Fixed.

Lemma nth_upd_same : forall A (l : list A) i x d, nth i (upd l i x) d = x \/ (nth i (upd l i x) d = d /\ (length l <= i)%nat).
Proof.
  induction l as [|h t IH]; intros i x d; cbn [upd].
  - right. split; [destruct i; reflexivity|cbn; lia].
  - destruct i; cbn [nth length]; [left; reflexivity|]. destruct (IH i x d) as [E | [E Hl]]; [left; exact E|right; split; [exact E|lia]].
Qed.
Lemma k_chan_set_same : forall k c x, k_chan (k_set_chan k c x) c = x \/ k_chan (k_set_chan k c x) c = dchan.
Proof.
  intros k c x. unfold k_chan, k_set_chan, k_with_ch, nthN, updN. cbn [k_ch mk_conn].
  destruct (nth_upd_same _ (k_ch k) (N.to_nat c) x dchan) as [E | [E _]]; [left; exact E|right; exact E].
Qed.

Definition polledw (L : rlogT) (n cl : N) (k : conn) : Prop := conn_w L n k /\ k_cl k = cl.
Definition popfact (L : rlogT) (n : N) (s' : state) (cl ch sv : N) (m : rspmsg) : Prop :=
  p_sv m = sv /\ p_stamp m < n /\
  (forall p0 m0, In (p0, m0) L -> pn_cl p0 = cl -> p_sv m0 = sv -> q_ch (pn_msg p0) = ch -> p_stamp m0 < p_stamp m) /\
  (forall k', In k' (s_conns s') -> k_cl k' = cl -> k_sv k' = sv -> forall m', In m' (c_sub (k_chan k' ch)) -> p_stamp m < p_stamp m').

Lemma pop_conn : forall L n s cl ch k m q bor comp st,
  w_ok L n s -> conn_w L n k -> k_cl k = cl -> c_sub (k_chan k ch) = m :: q ->
  let s' := upd_conn s cl (k_sv k) (fun k0 => k_set_chan k0 ch (mk_chan st q bor comp)) in
  w_ok L n s' /\ popfact L n s' cl ch (k_sv k) m.
Proof.
  intros L n s cl ch k m q bor comp st H Hk Hc Es s'.
  destruct (Hk ch) as [A [B C]]. rewrite Es in A, B, C.
  split.
  - apply w_upd_conn; [exact H|]. intros k0 E1 E2 Hk0. apply conn_w_set_chan; [exact Hk0|].
    rewrite E1, E2, <- Hc. eapply chan_w_tl; [|apply (Hk ch)]. cbn [c_sub mk_chan]. exact Es.
  - destruct (B m (or_introl eq_refl)) as [B1 B2]. split; [exact B1|]. split; [exact B2|]. split.
    + intros p0 m0 H0 H1 H2 H3. apply (C p0 m0 H0); [rewrite Hc; exact H1|exact H2|exact H3|left; reflexivity].
    + intros k' Hin E1 E2 m' Hm'. unfold s', upd_conn in Hin. cbn [s_conns st_conns] in Hin.
      apply in_map_iff in Hin. destruct Hin as [k0 [Ek' Hk0]].
      destruct (is_key k0 cl (k_sv k)) eqn:Ekey.
      * subst k'. destruct (k_chan_set_same k0 ch (mk_chan st q bor comp)) as [E | E]; rewrite E in Hm'; cbn [c_sub mk_chan dchan] in Hm'; [|destruct Hm'].
        eapply inc_hd; eassumption.
      * subst k'. unfold is_key in Ekey. rewrite E1, E2, !N.eqb_refl in Ekey. discriminate.
Qed.

Lemma w_poll_retained : forall L n g cl ch l s, w_ok L n s -> Forall (polledw L n cl) l ->
  w_ok L n (fst (poll_retained g s cl ch l)) /\
  (forall sv m, snd (poll_retained g s cl ch l) = R1Some sv m -> popfact L n (fst (poll_retained g s cl ch l)) cl ch sv m).
Proof.
  induction l as [|k t IH]; intros s H Hl; cbn [poll_retained]; [split; [exact H|intros; discriminate]|].
  inversion Hl as [|? ? [Hk Hc] Ht]; subst.
  destruct (N.eqb _ _); [apply IH; assumption|].
  destruct (c_sub (k_chan k ch)) as [|m q] eqn:Es.
  - apply IH; [|exact Ht]. destruct (existsb _ _); [exact H|]. apply w_upd_conn; [exact H|]. intros k0 _ _ Hk0 c; exact (Hk0 c).
  - cbn [fst snd]. destruct (pop_conn L n s (k_cl k) ch k m q (c_bor (k_chan k ch) ++ [m]) (c_comp (k_chan k ch)) (c_state (k_chan k ch)) H Hk eq_refl Es) as [P1 P2].
    split; [exact P1|]. intros sv m0 E. inversion E; subst. exact P2.
Qed.
Lemma w_poll_all : forall L n g cl ch l s a b, w_ok L n s -> Forall (polledw L n cl) l ->
  w_ok L n (fst (poll_all g s cl ch l a b)) /\
  (forall sv m, snd (poll_all g s cl ch l a b) = R1Some sv m -> popfact L n (fst (poll_all g s cl ch l a b)) cl ch sv m).
Proof.
  induction l as [|k t IH]; intros s a b H Hl; cbn [poll_all].
  { split; [exact H|]. intros sv m E. destruct (b && a); discriminate. }
  inversion Hl as [|? ? [Hk Hc] Ht]; subst.
  destruct (c_sub (k_chan k ch)) as [|m q] eqn:Es; [apply IH; assumption|].
  destruct (N.leb _ _); [apply IH; assumption|].
  cbn [fst snd]. destruct (pop_conn L n s (k_cl k) ch k m q (c_bor (k_chan k ch) ++ [m]) (c_comp (k_chan k ch)) (c_state (k_chan k ch)) H Hk eq_refl Es) as [P1 P2].
  split; [exact P1|]. intros sv m0 E. inversion E; subst. exact P2.
Qed.
Lemma conns_in_order_polledw : forall L n s cl ord p, w_ok L n s -> Forall (polledw L n cl) (conns_in_order s cl ord p).
Proof.
  intros L n s cl ord p H. unfold conns_in_order. apply Forall_forall. intros k Hk. apply in_flat_map in Hk.
  destruct Hk as [sv [_ Hk]]. destruct (get_conn s cl sv) as [k1|] eqn:E; [|destruct Hk].
  destruct (p k1); [|destruct Hk]. destruct Hk as [<- | []].
  destruct (get_conn_w _ _ _ _ _ _ H E) as [A [B _]]. split; assumption.
Qed.
Lemma w_client_rcv1 : forall L n g s cl ch ord, w_ok L n s ->
  w_ok L n (fst (client_rcv1 g s cl ch ord)) /\
  (forall sv m, snd (client_rcv1 g s cl ch ord) = R1Some sv m -> popfact L n (fst (client_rcv1 g s cl ch ord)) cl ch sv m).
Proof.
  intros L n g s cl ch ord H. unfold client_rcv1.
  pose proof (w_poll_retained L n g cl ch (conns_in_order s cl ord (fun k => view_retained (k_cv k))) s H (conns_in_order_polledw _ _ _ _ _ _ H)) as [H1 H2].
  destruct (poll_retained _ _ _ _ _) as [s1 r]. cbn [fst snd] in *.
  destruct r as [| |sv0 m0].
  - apply w_poll_all; [exact H1|apply conns_in_order_polledw; exact H1].
  - split; [exact H1|intros; discriminate].
  - split; [exact H1|exact H2].
Qed.
Lemma w_pend_receive : forall L n fuel g s p ord, w_ok L n s ->
  w_ok L n (fst (pend_receive fuel g s p ord)) /\
  (forall sv m, snd (pend_receive fuel g s p ord) = PRSome sv m ->
     popfact L n (fst (pend_receive fuel g s p ord)) (pn_cl p) (q_ch (pn_msg p)) sv m).
Proof.
  induction fuel as [|f IH]; intros g s p ord H; cbn [pend_receive]; [split; [exact H|intros; discriminate]|].
  pose proof (w_client_rcv1 L n g (client_sync g s (pn_cl p)) (pn_cl p) (q_ch (pn_msg p)) ord (w_client_sync L n _ _ _ H)) as [H1 H2].
  destruct (client_rcv1 _ _ _ _ _) as [s1 r]. cbn [fst snd] in *.
  destruct r as [| |sv0 m0]; try (split; [exact H1|intros; discriminate]).
  destruct (N.eqb _ _).
  - cbn [fst snd]. split; [exact H1|]. intros sv m E. inversion E; subst. apply (H2 _ _ eq_refl).
  - apply IH. apply w_response_release; exact H1.
Qed.

(* ---- the push: ResponseMut::send stamps the response with the counter --------------------------- *)
Lemma try_send_shape : forall A ovf cap (old : list A) m q ev,
  try_send ovf cap old m = Some (q, ev) -> q = old ++ [m] \/ exists o t, old = o :: t /\ q = t ++ [m].
Proof.
  intros A ovf cap old m q ev. unfold try_send.
  destruct (negb ovf && N.leb cap (lenN old)); [discriminate|].
  destruct (N.leb cap (lenN old)).
  - destruct old as [|o t]; intro E; inversion E; subst; [left; reflexivity|right; exists o, t; split; reflexivity].
  - intro E; inversion E; subst. left; reflexivity.
Qed.
Lemma act_conn_in : forall s sv idx k, act_conn s sv idx = Some k -> In k (s_conns s) /\ k_sv k = sv.
Proof.
  intros s sv idx k E. unfold act_conn in E. destruct idx; [|discriminate]. destruct (get_server s sv); [|discriminate].
  destruct (nthN _ _ _); [|discriminate]. unfold get_conn in E. apply find_some in E. destruct E as [Hin Hk].
  split; [exact Hin|]. unfold is_key in Hk. apply andb_prop in Hk. apply N.eqb_eq. exact (proj2 Hk).
Qed.

Definition log_below (L : rlogT) (n : N) : Prop := forall p m, In (p, m) L -> p_stamp m < n.

Lemma w_rloan_send : forall L g s r, w_ok L (s_next s) s -> log_below L (s_next s) ->
  w_ok L (s_next (rloan_send g s r)) (rloan_send g s r) /\ s_next s <= s_next (rloan_send g s r).
Proof.
  intros L g s r H HL. unfold rloan_send, rloan_release.
  set (sv := rl_sv r).
  assert (E0 : s_next (server_sync g s sv) = s_next s) by (apply (f2_server_sync _ s_next); intros; reflexivity).
  pose proof (w_server_sync L (s_next s) g s sv H) as H0.
  destruct (rl_idx r) as [i|] eqn:Ei.
  2:{ cbn [s_next upd_server st_servers set_act_loans st_acts st_objs]. rewrite E0. split; [exact H0|lia]. }
  assert (E1 : s_next (server_reclaim (server_sync g s sv) sv) = s_next s) by (unfold server_reclaim; cbn [s_next st_conns upd_server st_servers]; exact E0).
  pose proof (w_server_reclaim L (s_next s) _ sv H0) as H1.
  set (s2 := server_reclaim (server_sync g s sv) sv) in *.
  destruct (act_conn s2 sv (Some i)) as [k|] eqn:Ea.
  2:{ cbn [s_next upd_server st_servers set_act_loans st_acts st_objs]. rewrite E1. split; [exact H1|lia]. }
  destruct (act_conn_in _ _ _ _ Ea) as [Hin Hsv].
  assert (Hk : conn_w L (s_next s) k) by (unfold w_ok in H1; rewrite Forall_forall in H1; apply H1; exact Hin).
  unfold fresh. cbn [fst snd]. rewrite E1.
  set (m := {| p_id := p_id (rl_msg r); p_sv := sv; p_rid := p_rid (rl_msg r); p_val := p_val (rl_msg r); p_ocl := p_ocl (rl_msg r); p_stamp := s_next s |}).
  pose proof (w_ok_mono L (s_next s) (s_next s + 1) (st_next s2 (s_next s + 1)) ltac:(lia) H1) as H2.
  destruct (try_send (ovr g) (RB g) (c_sub (k_chan k (rl_ch r))) m) as [[q ev]|] eqn:Et.
  2:{ cbn [s_next upd_server st_servers set_act_loans st_acts st_objs st_next]. split; [exact H2|lia]. }
  match goal with |- w_ok L ?nn ?st /\ _ => assert (EN : nn = s_next s + 1) by (destruct ev; reflexivity) end.
  rewrite EN. split; [|lia].
  match goal with |- w_ok L _ (upd_server (set_act_loans ?x _ _) _ _) => change (w_ok L (s_next s + 1) x) end.
  assert (H3 : w_ok L (s_next s + 1)
            (upd_conn (st_next s2 (s_next s + 1)) (k_cl k) sv
               (fun k0 => let x := k_chan k0 (rl_ch r) in k_set_chan k0 (rl_ch r) (mk_chan (c_state x) q (c_bor x) (c_comp x))))).
  { apply w_upd_conn; [exact H2|]. intros k0 Ec Es Hk0. cbv zeta. apply conn_w_set_chan; [exact Hk0|].
    rewrite Ec, Es, <- Hsv.
    destruct (Hk (rl_ch r)) as [A [B C]].
    assert (Hold : forall x, In x (c_sub (k_chan k (rl_ch r))) -> p_stamp x < p_stamp m).
    { intros x Hx. cbn [p_stamp m]. exact (proj2 (B x Hx)). }
    unfold chan_w. cbn [c_sub mk_chan].
    destruct (try_send_shape _ _ _ _ _ _ _ Et) as [-> | [o [t [Eo ->]]]].
    - split; [apply inc_app1; assumption|]. split.
      + intros x Hx. apply in_app_or in Hx. destruct Hx as [Hx | [<- | []]].
        * destruct (B x Hx). split; [assumption|lia].
        * cbn [p_sv p_stamp m]. split; [symmetry; exact Hsv|lia].
      + intros p0 m0 H5 H6 H7 H8 x Hx. apply in_app_or in Hx. destruct Hx as [Hx | [<- | []]].
        * exact (C p0 m0 H5 H6 H7 H8 x Hx).
        * cbn [p_stamp m]. exact (HL p0 m0 H5).
    - rewrite Eo in A, B, C, Hold.
      split; [apply inc_app1; [eapply inc_tl; exact A|intros x Hx; apply Hold; right; exact Hx]|]. split.
      + intros x Hx. apply in_app_or in Hx. destruct Hx as [Hx | [<- | []]].
        * destruct (B x (or_intror Hx)). split; [assumption|lia].
        * cbn [p_sv p_stamp m]. split; [symmetry; exact Hsv|lia].
      + intros p0 m0 H5 H6 H7 H8 x Hx. apply in_app_or in Hx. destruct Hx as [Hx | [<- | []]].
        * exact (C p0 m0 H5 H6 H7 H8 x (or_intror Hx)).
        * cbn [p_stamp m]. exact (HL p0 m0 H5). }
  destruct ev; exact H3.
Qed.

(* ---- operations that neither push a response nor hand one out ----------------------------------- *)
Definition keeps (s s1 : state) : Prop :=
  s_rlog s1 = s_rlog s /\ s_next s <= s_next s1 /\ (forall L n, w_ok L n s -> w_ok L n s1).
Lemma keeps_refl : forall s, keeps s s. Proof. intro s. split; [reflexivity|]. split; [lia|auto]. Qed.
Lemma keeps_trans : forall a b c, keeps a b -> keeps b c -> keeps a c.
Proof. intros a b c [A1 [A2 A3]] [B1 [B2 B3]]. split; [congruence|]. split; [lia|auto]. Qed.
Lemma keeps_same : forall s s1, s_rlog s1 = s_rlog s -> s_next s1 = s_next s -> s_conns s1 = s_conns s -> keeps s s1.
Proof. intros s s1 A B C. split; [exact A|]. split; [lia|]. intros L nn H. unfold w_ok in *. rewrite C. exact H. Qed.

Lemma rl_of_logs : forall s s1, logs s1 = logs s -> s_rlog s1 = s_rlog s.
Proof. intros s s1 H. unfold logs in H. congruence. Qed.

Lemma nx_client_loan : forall g s cl hid, s_next s <= s_next (fst (client_loan g s cl hid)).
Proof.
  intros. unfold client_loan.
  destruct (get_client s cl); [|cbn [fst]; lia]. destruct (N.eqb _ _); [cbn [fst]; lia|].
  assert (E : s_next (client_reclaim s cl) = s_next s) by reflexivity.
  destruct (get_client (client_reclaim s cl) cl); [|cbn [fst]; lia].
  destruct (N.leb _ _); [cbn [fst]; lia|]. destruct (N.leb _ _); [cbn [fst]; lia|]. destruct (cl_avail c0); [cbn [fst]; lia|].
  unfold fresh. cbn [fst snd s_next upd_client st_clients st_next]. lia.
Qed.
Lemma nx_client_send : forall g s m, s_next s <= s_next (fst (client_send g s m)).
Proof.
  intros. unfold client_send.
  destruct (get_client s (q_cl m)); [|cbn [fst]; lia].
  destruct (N.leb _ _); [cbn [fst]; unfold request_release; cbn [s_next upd_client st_clients]; lia|].
  unfold fresh. cbv zeta. cbn [fst snd].
  match goal with |- context [fold_left ?f ?l ?a0] =>
    pose proof (fold_left_proj _ _ _ (fun x => s_next (fst x)) f l a0
      (fun x y => fr_deliver_request _ s_next (fun _ _ => eq_refl) (fun _ _ => eq_refl) g (q_cl m) _ x y)) as HF;
    destruct (fold_left f l a0) as [s2 n2] end.
  cbn [fst] in *. cbn [s_next upd_client st_clients]. rewrite HF.
  unfold client_reclaim. cbn [s_next st_next st_conns upd_client st_clients].
  rewrite (fr_client_sync _ s_next (fun _ _ => eq_refl) (fun _ _ => eq_refl)). lia.
Qed.
Lemma keeps_client_loan : forall g s cl hid, keeps s (fst (client_loan g s cl hid)).
Proof.
  intros. split; [apply rl_of_logs; apply logs_client_loan|]. split; [apply nx_client_loan|]. intros L nn H. apply w_client_loan; exact H.
Qed.
Lemma keeps_client_send : forall g s m, keeps s (fst (client_send g s m)).
Proof.
  intros. split; [apply rl_of_logs; apply logs_client_send|]. split; [apply nx_client_send|]. intros L nn H. apply w_client_send; exact H.
Qed.
Lemma keeps_pend_drop : forall s p, keeps s (pend_drop s p).
Proof.
  intros. split; [apply rl_of_logs; apply logs_pend_drop|]. split; [|intros L nn H; apply w_pend_drop; exact H].
  rewrite (fr_pend_drop _ s_next (fun _ _ => eq_refl) (fun _ _ => eq_refl)). lia.
Qed.
Lemma keeps_do_q : forall g s i b, keeps s (fst (do_q g s i b)).
Proof.
  intros. unfold do_q. destruct (slot_inst _ _); [|apply keeps_refl].
  pose proof (keeps_client_loan g (st_hid s (s_hid s + 1)) n (s_hid s)) as K1.
  destruct (client_loan _ _ _ _) as [s1 r]. cbn [fst] in K1.
  assert (K0 : keeps s s1) by (eapply keeps_trans; [|exact K1]; apply keeps_same; reflexivity).
  destruct r as [[e|m]|]; try exact K0.
  pose proof (keeps_client_send g s1 m) as K2.
  destruct (client_send g s1 m) as [s2 [e|p]]; cbn [fst] in *; [eapply keeps_trans; eassumption|].
  destruct b; cbn [fst].
  - eapply keeps_trans; [exact K0|]. eapply keeps_trans; [exact K2|apply keeps_pend_drop].
  - eapply keeps_trans; [exact K0|]. eapply keeps_trans; [exact K2|apply keeps_same; reflexivity].
Qed.
Lemma nx_server_receive : forall fuel g s sv slot ord, s_next s <= s_next (fst (server_receive fuel g s sv slot ord)).
Proof.
  induction fuel as [|f IH]; intros; cbn [server_receive]; [cbn [fst]; lia|].
  pose proof (fr_server_rcv1 _ s_next (fun _ _ => eq_refl) g (server_sync g s sv) sv ord) as H.
  assert (E0 : s_next (server_sync g s sv) = s_next s) by (apply (f2_server_sync _ s_next); intros; reflexivity).
  destruct (server_rcv1 _ _ _ _) as [s1 r]. cbn [fst] in H. rewrite E0 in H.
  destruct r as [| |cl m]; try (cbn [fst]; lia).
  destruct (match get_server s1 sv with Some srv => index_of cl (sv_conns srv) 0 | None => None end).
  - unfold fresh. cbn [fst snd].
    match goal with |- context [if ?b then _ else _] => destruct b end.
    + match goal with |- _ <= s_next (fst (server_receive f g ?x sv slot ord)) => pose proof (IH g x sv slot ord) as HI;
        assert (EX : s_next x = s_next s1 + 1) by (rewrite (fr_act_drop _ s_next (fun _ _ => eq_refl)); reflexivity) end. lia.
    + cbn [fst s_next st_next]. lia.
  - destruct (faf g).
    + unfold fresh. cbn [fst snd s_next st_next]. lia.
    + match goal with |- _ <= s_next (fst (server_receive f g ?x sv slot ord)) => pose proof (IH g x sv slot ord) as HI;
        assert (EX : s_next x = s_next s1) by reflexivity end. lia.
Qed.
Lemma keeps_server_receive : forall fuel g s sv slot ord, keeps s (fst (server_receive fuel g s sv slot ord)).
Proof.
  intros. split; [apply rl_of_logs; apply logs_server_receive|]. split; [apply nx_server_receive|]. intros L nn H. apply w_server_receive; exact H.
Qed.
Lemma nx_act_loan : forall g s a v, s_next s <= s_next (fst (act_loan g s a v)).
Proof.
  intros. unfold act_loan. destruct (N.leb _ _); [cbn [fst]; lia|].
  assert (E : s_next (server_reclaim (set_act_loans s (ac_uid a) (fun n => n + 1)) (ac_sv a)) = s_next s) by reflexivity.
  destruct (get_server _ _); [|cbn [fst]; lia].
  destruct (N.leb _ _); [cbn [fst s_next set_act_loans st_acts st_objs]; lia|].
  destruct (N.leb _ _); [cbn [fst s_next set_act_loans st_acts st_objs]; lia|].
  unfold fresh. cbn [fst snd s_next upd_server st_servers st_next]. lia.
Qed.
Lemma keeps_act_loan : forall g s a v, keeps s (fst (act_loan g s a v)).
Proof.
  intros. split; [apply rl_of_logs; apply logs_act_loan|]. split; [apply nx_act_loan|]. intros L nn H. apply w_act_loan; exact H.
Qed.
Lemma keeps_server_sync : forall g s sv, keeps s (server_sync g s sv).
Proof.
  intros. split; [apply rl_of_logs; apply logs_server_sync|]. split; [|intros L nn H; apply w_server_sync; exact H].
  rewrite (f2_server_sync _ s_next) by (intros; reflexivity). lia.
Qed.
Lemma keeps_client_sync : forall g s cl, keeps s (client_sync g s cl).
Proof.
  intros. split; [apply rl_of_logs; apply logs_client_sync|]. split; [|intros L nn H; apply w_client_sync; exact H].
  rewrite (fr_client_sync _ s_next (fun _ _ => eq_refl) (fun _ _ => eq_refl)). lia.
Qed.
Lemma keeps_gc : forall s, keeps s (gc s).
Proof.
  intros. split; [apply rl_of_logs; apply logs_gc|]. split; [|intros L nn H; apply w_gc; exact H].
  rewrite (f2_gc _ s_next) by (intros; reflexivity). lia.
Qed.
Lemma keeps_client_create : forall g s i, keeps s (fst (client_create g s i)).
Proof.
  intros. unfold client_create. destruct (nthN _ _ _); [apply keeps_refl|]. destruct (first_free _ _); [|apply keeps_refl].
  unfold fresh. cbn [fst snd].
  match goal with |- context [client_sync g ?x ?c] => pose proof (keeps_client_sync g x c) as K end.
  eapply keeps_trans; [|eapply keeps_trans; [exact K|apply keeps_same; reflexivity]].
  split; [reflexivity|]. split; [cbn [s_next st_clients st_next]; lia|]. intros L nn H; exact H.
Qed.
Lemma keeps_server_create : forall g s i, keeps s (fst (server_create g s i)).
Proof.
  intros. unfold server_create. destruct (nthN _ _ _); [apply keeps_refl|]. destruct (N.leb _ _); [apply keeps_refl|].
  unfold fresh. cbn [fst snd].
  match goal with |- context [server_sync g ?x ?c] => pose proof (keeps_server_sync g x c) as K end.
  eapply keeps_trans; [|eapply keeps_trans; [exact K|apply keeps_same; reflexivity]].
  split; [reflexivity|]. split; [cbn [s_next st_servers st_next]; lia|]. intros L nn H; exact H.
Qed.

(* ---- the log: per (client, channel, server) the stamps strictly increase ------------------------- *)
Definition samekey (a b : pendrec * rspmsg) : Prop :=
  pn_cl (fst a) = pn_cl (fst b) /\ q_ch (pn_msg (fst a)) = q_ch (pn_msg (fst b)) /\ p_sv (snd a) = p_sv (snd b).
Inductive lsorted : rlogT -> Prop :=
| ls_nil : lsorted []
| ls_snoc : forall L e, lsorted L ->
    (forall e1, In e1 L -> samekey e1 e -> p_stamp (snd e1) < p_stamp (snd e)) -> lsorted (L ++ [e]).

Lemma snoc_split : forall A (l1 : list A) e1 l2 L e, l1 ++ e1 :: l2 = L ++ [e] ->
  (l2 = [] /\ l1 = L /\ e1 = e) \/ (exists l2', l2 = l2' ++ [e] /\ L = l1 ++ e1 :: l2').
Proof.
  intros A l1 e1 l2 L e H. destruct l2 as [|y t] using rev_ind.
  - left. apply app_inj_tail in H. destruct H; auto.
  - clear IHt. right. rewrite app_comm_cons, app_assoc in H. apply app_inj_tail in H. destruct H as [H1 H2]. subst y.
    exists t. split; [reflexivity|symmetry; exact H1].
Qed.
Lemma lsorted_spec : forall L, lsorted L -> forall l1 e1 l2 e2, L = l1 ++ e1 :: l2 -> In e2 l2 -> samekey e1 e2 ->
  p_stamp (snd e1) < p_stamp (snd e2).
Proof.
  intros L H. induction H as [|L e HL IH Hlt]; intros l1 e1 l2 e2 E Hin Hk.
  - destruct l1; discriminate.
  - symmetry in E. destruct (snoc_split _ _ _ _ _ _ E) as [[-> _] | [l2' [-> EL]]]; [destruct Hin|].
    apply in_app_or in Hin. destruct Hin as [Hin | [<- | []]].
    + eapply IH; eassumption.
    + apply Hlt; [|exact Hk]. rewrite EL. apply in_or_app. right. left. reflexivity.
Qed.

Definition oi (s : state) : Prop :=
  w_ok (s_rlog s) (s_next s) s /\ log_below (s_rlog s) (s_next s) /\ lsorted (s_rlog s).

Lemma oi_keeps : forall s s1, oi s -> keeps s s1 -> oi s1.
Proof.
  intros s s1 [A [B C]] [K1 [K2 K3]]. unfold oi. rewrite K1.
  split; [eapply w_ok_mono; [exact K2|apply K3; exact A]|]. split; [|exact C].
  intros p m Hin. specialize (B p m Hin). lia.
Qed.

Lemma w_log_append : forall L n s p m sv, w_ok L n s -> popfact L n s (pn_cl p) (q_ch (pn_msg p)) sv m ->
  w_ok (L ++ [(p, m)]) n s.
Proof.
  intros L n s p m sv H [F1 [F2 [F3 F4]]]. unfold w_ok in *. rewrite Forall_forall in *. intros k Hk c.
  destruct (H k Hk c) as [A [B C]]. split; [exact A|]. split; [exact B|].
  intros p0 m0 Hin E1 E2 E3 m' Hm'. apply in_app_or in Hin. destruct Hin as [Hin | [E | []]].
  - exact (C p0 m0 Hin E1 E2 E3 m' Hm').
  - inversion E; subst p0 m0. subst c. apply (F4 k Hk); [symmetry; exact E1|rewrite <- F1; symmetry; exact E2|exact Hm'].
Qed.

Lemma step_oi : forall g ord s o, oi s -> oi (fst (step g ord s o)).
Proof.
  intros g ord s o H. unfold step.
  match goal with |- context [let '(a, b) := ?e in _] => destruct e as [s1 ob] eqn:E end.
  cbn [fst]. apply (oi_keeps s1); [|apply keeps_gc].
  destruct o.
  - apply (oi_keeps s); [exact H|]. pose proof (keeps_client_create g s i) as K. rewrite E in K. exact K.
  - apply (oi_keeps s); [exact H|]. unfold client_drop in E. destruct (nthN _ _ _); inversion E; subst; [apply keeps_same; reflexivity|apply keeps_refl].
  - apply (oi_keeps s); [exact H|]. pose proof (keeps_server_create g s i) as K. rewrite E in K. exact K.
  - apply (oi_keeps s); [exact H|]. unfold server_drop in E. destruct (nthN _ _ _); inversion E; subst; [apply keeps_same; reflexivity|apply keeps_refl].
  - apply (oi_keeps s); [exact H|]. destruct (slot_inst _ _); [|inversion E; subst; apply keeps_refl].
    pose proof (keeps_client_loan g (st_hid s (s_hid s + 1)) n (s_hid s)) as K.
    destruct (client_loan _ _ _ _) as [s2 r]. cbn [fst] in K.
    assert (K0 : keeps s s2) by (eapply keeps_trans; [|exact K]; apply keeps_same; reflexivity).
    destruct r as [[e|m1]|]; inversion E; subst; exact K0.
  - apply (oi_keeps s); [exact H|]. destruct (s_loans s) as [|l t]; [inversion E; subst; apply keeps_refl|].
    pose proof (keeps_client_send g (st_loans s t) (ln_msg l)) as K.
    assert (K0 : keeps s (st_loans s t)) by (apply keeps_same; reflexivity).
    destruct (client_send _ _ _) as [s2 [e|p1]]; cbn [fst] in K; inversion E; subst; [eapply keeps_trans; eassumption|].
    eapply keeps_trans; [exact K0|]. eapply keeps_trans; [exact K|apply keeps_same; reflexivity].
  - apply (oi_keeps s); [exact H|]. destruct (s_loans s) as [|l t]; inversion E; subst; [apply keeps_refl|apply keeps_same; reflexivity].
  - apply (oi_keeps s); [exact H|]. pose proof (keeps_do_q g s i false) as K. rewrite E in K. exact K.
  - apply (oi_keeps s); [exact H|]. pose proof (keeps_do_q g s i true) as K. rewrite E in K. exact K.
  - destruct (nth_opt (s_pends s) k) as [p0|]; [|inversion E; subst; exact H].
    destruct H as [A [B C]].
    destruct (w_pend_receive (s_rlog s) (s_next s) (rcv_fuel s) g s p0 ord A) as [W1 W2].
    pose proof (logs_pend_receive (rcv_fuel s) g s p0 ord) as EL. apply rl_of_logs in EL.
    pose proof (fr_pend_receive _ s_next (fun _ _ => eq_refl) (fun _ _ => eq_refl) (rcv_fuel s) g s p0 ord) as EN.
    destruct (pend_receive _ _ _ _ _) as [s2 r]. cbn [fst snd] in *.
    destruct r as [| |sv m0|]; inversion E; subst; try (unfold oi; rewrite EL, EN; auto).
    specialize (W2 sv m0 eq_refl). destruct W2 as [F1 [F2 [F3 F4]]].
    unfold oi. cbn [s_rlog s_next s_conns st_logs st_resps st_objs w_ok]. rewrite EL, EN.
    split; [|split].
    + apply (w_log_append (s_rlog s) (s_next s) s2 p0 m0 sv W1). repeat split; assumption.
    + intros p m Hin. apply in_app_or in Hin. destruct Hin as [Hin | [Ee | []]]; [exact (B p m Hin)|]. inversion Ee; subst. exact F2.
    + apply ls_snoc; [exact C|]. intros [p1 m1] Hin [K1 [K2 K3]]. cbn [fst snd] in *.
      apply (F3 p1 m1 Hin K1); [rewrite K3; exact F1|exact K2].
  - apply (oi_keeps s); [exact H|]. destruct (nth_opt _ _); inversion E; subst; [|apply keeps_refl].
    eapply keeps_trans; [|apply keeps_pend_drop]. apply keeps_same; reflexivity.
  - apply (oi_keeps s); [exact H|]. destruct (nth_opt _ _); inversion E; subst; [|apply keeps_refl].
    split; [apply rl_of_logs; apply logs_pend_hint|]. split; [cbn [s_next pend_hint st_conns]; lia|]. intros L nn HW. apply w_pend_hint; exact HW.
  - apply (oi_keeps s); [exact H|]. destruct (nth_opt _ _); inversion E; subst; [|apply keeps_refl].
    eapply keeps_trans; [apply (keeps_same s (st_resps s (remove_nth (N.to_nat m) (s_resps s)))); reflexivity|].
    split; [apply rl_of_logs; apply logs_response_release|]. split; [cbn [s_next response_release upd_conn st_conns]; lia|]. intros L nn HW. apply w_response_release; exact HW.
  - apply (oi_keeps s); [exact H|]. destruct (slot_inst _ _); [|inversion E; subst; apply keeps_refl].
    pose proof (keeps_server_receive (srv_fuel s) g s n j ord) as K.
    destruct (server_receive _ _ _ _ _ _) as [s2 r]. cbn [fst] in K.
    destruct r; inversion E; subst; exact K.
  - apply (oi_keeps s); [exact H|]. destruct (slot_inst _ _); [|inversion E; subst; apply keeps_refl].
    unfold server_has_requests in E. inversion E; subst. apply keeps_server_sync.
  - destruct (nth_opt _ _) as [ar|]; [|inversion E; subst; exact H].
    match type of E with context [act_loan g ?x ar ?v] =>
      pose proof (keeps_act_loan g x ar v) as K; destruct (act_loan g x ar v) as [s2 [e|r]] end; cbn [fst] in K.
    + inversion E; subst. apply (oi_keeps s); [exact H|]. eapply keeps_trans; [|exact K]. apply keeps_same; reflexivity.
    + inversion E; subst.
      assert (H2 : oi s2). { apply (oi_keeps s); [exact H|]. eapply keeps_trans; [|exact K]. apply keeps_same; reflexivity. }
      destruct H2 as [A [B C]].
      destruct (w_rloan_send (s_rlog s2) g s2 r A B) as [W1 W2].
      pose proof (rl_of_logs _ _ (logs_rloan_send g s2 r)) as EL.
      unfold oi. rewrite EL. split; [exact W1|]. split; [|exact C]. intros p m Hin. specialize (B p m Hin). lia.
  - apply (oi_keeps s); [exact H|]. destruct (nth_opt _ _) as [ar|]; [|inversion E; subst; apply keeps_refl].
    match type of E with context [act_loan g ?x ar ?v] =>
      pose proof (keeps_act_loan g x ar v) as K; destruct (act_loan g x ar v) as [s2 [e|r]] end; cbn [fst] in K;
      inversion E; subst.
    + eapply keeps_trans; [|exact K]. apply keeps_same; reflexivity.
    + eapply keeps_trans; [|eapply keeps_trans; [exact K|apply keeps_same; reflexivity]]. apply keeps_same; reflexivity.
  - destruct (s_rloans s) as [|r t]; inversion E; subst; [exact H|].
    assert (H2 : oi (st_rloans s t)) by (apply (oi_keeps s); [exact H|apply keeps_same; reflexivity]).
    destruct H2 as [A [B C]].
    destruct (w_rloan_send (s_rlog (st_rloans s t)) g (st_rloans s t) r A B) as [W1 W2].
    pose proof (rl_of_logs _ _ (logs_rloan_send g (st_rloans s t) r)) as EL.
    unfold oi. rewrite EL. split; [exact W1|]. split; [|exact C]. intros p m Hin. specialize (B p m Hin). lia.
  - apply (oi_keeps s); [exact H|]. destruct (s_rloans s) as [|r t]; inversion E; subst; [apply keeps_refl|].
    apply keeps_same; reflexivity.
  - apply (oi_keeps s); [exact H|]. destruct (nth_opt _ _); inversion E; subst; [|apply keeps_refl].
    eapply keeps_trans; [apply (keeps_same s (st_acts s (remove_nth (N.to_nat a) (s_acts s)))); reflexivity|].
    split; [apply rl_of_logs; apply logs_act_drop|]. split; [|intros L nn HW; apply w_act_drop; exact HW].
    rewrite (fr_act_drop _ s_next (fun _ _ => eq_refl)). lia.
Qed.

Theorem oi_reach : forall g s, reach g s -> oi s.
Proof.
  intros g s H. induction H as [|s ord o Hr IH].
  - split; [constructor|]. split; [intros p m []|constructor].
  - apply step_oi; exact IH.
Qed.

(* per pending response and server: in send order, each response at most once *)
Theorem routing_order : forall g s, reach g s ->
  forall l1 p m1 l2 m2, s_rlog s = l1 ++ (p, m1) :: l2 -> In (p, m2) l2 -> p_sv m2 = p_sv m1 -> p_stamp m1 < p_stamp m2.
Proof.
  intros g s H l1 p m1 l2 m2 E Hin Hsv.
  apply (lsorted_spec (s_rlog s) (proj2 (proj2 (oi_reach g s H))) l1 (p, m1) l2 (p, m2) E Hin).
  split; [reflexivity|]. split; [reflexivity|]. symmetry; exact Hsv.
Qed.

(* non-vacuity: one pending response receives two responses of the same server *)
Definition w_two : list op := [Cc 0; Sc 0; Q 0; Sr 0; As 0; As 0; Pr 0; Rx 0; Pr 0].
Lemma w_two_spec : map (fun pm => (q_hid (pn_msg (fst pm)), p_val (snd pm), p_stamp (snd pm))) (s_rlog (run cfg3 w_two)) = [(0, 0, 6); (0, 1, 8)].
Proof. vm_compute. reflexivity. Qed.
