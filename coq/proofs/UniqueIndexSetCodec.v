(* C09: HeadDetails codec of unique_index_set.rs -- the shifts and masks as arithmetic, and the
   two round-trip laws. *)
From V Require Import model.Base model.UniqueIndexSet.
From Coq Require Import ZifyBool ZifyNat ZifyN.
Ltac Zify.zify_post_hook ::= Z.div_mod_to_equations.
Open Scope N_scope.

Definition P16 : N := 65536.
Definition P24 : N := 16777216.
Definition P40 : N := 1099511627776.
Definition P64 : N := 18446744073709551616.

Lemma hd_head_arith w : hd_head w = (w / P40) mod P24.
Proof. unfold hd_head. change M24 with (N.ones 24). rewrite N.land_ones, N.shiftr_div_pow2. reflexivity. Qed.

Lemma hd_aba_arith w : hd_aba w = (w / P24) mod P16.
Proof. unfold hd_aba. change M16 with (N.ones 16). rewrite N.land_ones, N.shiftr_div_pow2. reflexivity. Qed.

Lemma hd_borrowed_arith w : hd_borrowed w = w mod P24.
Proof. unfold hd_borrowed. change M24 with (N.ones 24). rewrite N.land_ones. reflexivity. Qed.

Lemma land_shifted_small a b n : b < 2 ^ n -> N.land (a * 2 ^ n) b = 0.
Proof.
  intros Hb. apply N.bits_inj. intros m. rewrite N.land_spec, N.bits_0.
  destruct (N.lt_ge_cases m n) as [H|H].
  - rewrite N.mul_pow2_bits_low by assumption. reflexivity.
  - rewrite <- (N.mod_small b (2 ^ n)) by assumption.
    rewrite N.mod_pow2_bits_high by assumption. apply andb_false_r.
Qed.

Lemma lor_shifted_small a b n : b < 2 ^ n -> N.lor (a * 2 ^ n) b = a * 2 ^ n + b.
Proof.
  intros Hb. rewrite <- N.lxor_lor by (apply land_shifted_small; assumption).
  symmetry. apply N.add_nocarry_lxor. apply land_shifted_small; assumption.
Qed.

Lemma hd_value_arith h a b : a < P16 -> hd_value h a b = (h mod P24) * P40 + a * P24 + b mod P24.
Proof.
  intros Ha. unfold hd_value. change M24 with (N.ones 24). rewrite !N.land_ones, !N.shiftl_mul_pow2.
  change (2 ^ 24) with P24. change (2 ^ 40) with P40.
  assert (E1 : N.lor (h mod P24 * P40) (a * P24) = h mod P24 * P40 + a * P24).
  { change P40 with (2 ^ 40). apply lor_shifted_small. change (2 ^ 40) with P40. unfold P16, P24, P40 in *. lia. }
  rewrite E1.
  replace (h mod P24 * P40 + a * P24) with ((h mod P24 * P16 + a) * 2 ^ 24) by (change (2 ^ 24) with P24; unfold P16, P24, P40; lia).
  rewrite lor_shifted_small by (change (2 ^ 24) with P24; apply N.mod_lt; discriminate).
  change (2 ^ 24) with P24. unfold P16, P24, P40. lia.
Qed.

(* from(value d) = d for fields in range *)
Lemma hd_from_value h a b : h < P24 -> a < P16 -> b < P24 ->
  hd_head (hd_value h a b) = h /\ hd_aba (hd_value h a b) = a /\ hd_borrowed (hd_value h a b) = b /\
  hd_value h a b < P64.
Proof.
  intros Hh Ha Hb. rewrite hd_head_arith, hd_aba_arith, hd_borrowed_arith, hd_value_arith by assumption.
  rewrite (N.mod_small h P24), (N.mod_small b P24) by assumption.
  unfold P16, P24, P40, P64 in *. repeat split; lia.
Qed.

(* value(from w) = w for every u64 *)
Lemma hd_value_from w : w < P64 -> hd_value (hd_head w) (hd_aba w) (hd_borrowed w) = w.
Proof.
  intros Hw. rewrite hd_value_arith by (rewrite hd_aba_arith; apply N.mod_lt; discriminate).
  rewrite hd_head_arith, hd_aba_arith, hd_borrowed_arith. rewrite !N.mod_mod by discriminate.
  unfold P16, P24, P40, P64 in *. lia.
Qed.

Lemma hd_fields_lt w : hd_head w < P24 /\ hd_aba w < P16 /\ hd_borrowed w < P24.
Proof. rewrite hd_head_arith, hd_aba_arith, hd_borrowed_arith. repeat split; apply N.mod_lt; discriminate. Qed.

Lemma aba_succ_lt a : aba_succ a < P16.
Proof. unfold aba_succ. apply N.mod_lt. discriminate. Qed.

(* the tag tracks the number of successful head updates modulo 2^16 *)
Lemma aba_succ_mod a u : a = u mod 65536 -> aba_succ a = (u + 1) mod 65536.
Proof. intros ->. unfold aba_succ. lia. Qed.

(* equal tags and fewer than 2^16 updates in between: no update at all *)
Lemma tag_window_eq u0 u : u0 <= u -> u - u0 < 65536 -> u0 mod 65536 = u mod 65536 -> u0 = u.
Proof. intros. lia. Qed.
