(* C01 order: what a subscriber has received from one publisher has strictly increasing send
   indices.  The order invariant Ord, the footprint of the steps that neither send nor receive
   (Neutral), and their algebra.  Per-function lemmas: PortOrdPub.v / PortOrdSub.v. *)
From V Require Import model.Base model.Conn model.Port proofs.ListLemmas proofs.ConnProofs proofs.PortProofs proofs.PortView proofs.PortInv.
From Coq Require Import Lia Sorted.
Local Open Scope nat_scope.

Definition recvidx (w : world) (s p : nat) : list nat :=
  map rl_idx (filter (fun r => Nat.eqb (rl_pub r) p) (s_recv (gets w s))).
Definition nsent (w : world) (p : nat) : nat := length (p_sent (getp w p)).
Definition histidx (w : world) (p : nat) : list nat := map he_idx (p_hist (getp w p)).

Definition IncB (l : list nat) (b : nat) : Prop := increasing l /\ forall j, In j l -> j < b.

Record Ord (w : world) : Prop := {
  od_conn : forall p s c, getc w p s = Some c -> IncB (recvidx w s p ++ idxs c) (nsent w p);
  od_recv : forall p s, IncB (recvidx w s p) (nsent w p);
  od_hist : forall p, IncB (histidx w p) (nsent w p);
  od_J : forall p s, pact w p -> sact w s -> ~ In (Some s) (p_tab (getp w p)) ->
         recvidx w s p = [] /\ forall c, getc w p s = Some c -> idxs c = [] }.

(* ---------------------------------------------------------------------------------------- *)
(* lists                                                                                     *)
(* ---------------------------------------------------------------------------------------- *)
Lemma increasing_app_iff a b :
  increasing (a ++ b) <-> increasing a /\ increasing b /\ forall x y, In x a -> In y b -> x < y.
Proof.
  unfold increasing. induction a as [|h t IH]; cbn [app].
  - split; [intros H; splits; auto; [constructor|intros x y []]|tauto].
  - split.
    + intros H. inversion H as [|? ? Hs Hf]; subst. apply IH in Hs as (A & B & C). rewrite Forall_forall in Hf. splits; auto.
      * constructor; [exact A|]. apply Forall_forall. intros x Hx. apply Hf. apply in_or_app. now left.
      * intros x y [<-|Hx] Hy; [apply Hf, in_or_app; now right|now apply C].
    + intros (A & B & C). inversion A as [|? ? Hs Hf]; subst. constructor.
      * apply IH. splits; auto. intros x y Hx Hy. apply C; [now right|exact Hy].
      * apply Forall_forall. intros x Hx. apply in_app_or in Hx as [Hx|Hx]; [rewrite Forall_forall in Hf; now apply Hf|apply C; [now left|exact Hx]].
Qed.

Lemma IncB_mono l b b' : IncB l b -> b <= b' -> IncB l b'.
Proof. intros [A B] H. split; [exact A|]. intros j Hj. apply B in Hj. lia. Qed.

Lemma IncB_app_l a b n : IncB (a ++ b) n -> IncB a n.
Proof. intros [A B]. apply increasing_app_iff in A as (A1 & _). split; [exact A1|]. intros j Hj. apply B, in_or_app. now left. Qed.

Lemma IncB_nil n : IncB [] n.
Proof. split; [constructor|intros j []]. Qed.

Lemma IncB_push l gi : IncB l gi -> IncB (l ++ [gi]) (S gi).
Proof.
  intros [A B]. split.
  - apply increasing_app_one; auto.
  - intros j Hj. apply in_app_or in Hj as [Hj|[<-|[]]]; [apply B in Hj|]; lia.
Qed.

Lemma in_tl {A} (x : A) l : In x (tl l) -> In x l.
Proof. destruct l; cbn; auto. Qed.

(* drop the head of the second part *)
Lemma IncB_drop a b n : IncB (a ++ b) n -> IncB (a ++ tl b) n.
Proof.
  intros [A B]. apply increasing_app_iff in A as (A1 & A2 & A3). split.
  - apply increasing_app_iff. splits; auto; [now apply increasing_tl|]. intros x y Hx Hy. apply A3; [exact Hx|now apply in_tl].
  - intros j Hj. apply B. apply in_app_or in Hj as [Hj|Hj]; apply in_or_app; [now left|right; now apply in_tl].
Qed.

(* ---------------------------------------------------------------------------------------- *)
(* the connection operations on the index list                                               *)
(* ---------------------------------------------------------------------------------------- *)
Lemma try_send_idxs c o gi c' r : c_try_send c o gi = Val (c', r) ->
  idxs c' = idxs c \/ idxs c' = idxs c ++ [gi] \/ idxs c' = tl (idxs c) ++ [gi].
Proof.
  unfold c_try_send. destruct (negb (c_ovf c) && c_is_full c); [intros H; inversion H; subst; now left|].
  destruct (Nat.leb (c_n c) o); [discriminate|]. destruct (mem_off o (c_used c)); [discriminate|].
  destruct (Nat.ltb (length (c_sub c)) (c_B c)).
  - intros H. inversion H; subst. right. left. unfold idxs. cbn. now rewrite map_app.
  - destruct (c_sub c) as [|old rest] eqn:E; [discriminate|].
    destruct (mem_off (q_off old) (o :: c_used c)); intros H; inversion H; subst; right; right; unfold idxs; cbn; rewrite E, map_app; reflexivity.
Qed.

Lemma try_send_IncB R c o gi c' r :
  c_try_send c o gi = Val (c', r) -> IncB (R ++ idxs c) gi -> IncB (R ++ idxs c') (S gi).
Proof.
  intros Hs HI. destruct (try_send_idxs _ _ _ _ _ Hs) as [E|[E|E]]; rewrite E.
  - eapply IncB_mono; [exact HI|lia].
  - rewrite app_assoc. now apply IncB_push.
  - rewrite app_assoc. apply IncB_push. now apply IncB_drop.
Qed.

Lemma receive_idxs c c1 e : c_receive c = (c1, RcvOk (Some e)) -> idxs c = q_idx e :: idxs c1.
Proof.
  unfold c_receive. destruct (Nat.leb (c_M c) (c_borrow c)); [discriminate|].
  destruct (c_sub c) as [|e0 rest] eqn:E; [discriminate|]. intros H. inversion H; subst. unfold idxs. now rewrite E.
Qed.

(* ---------------------------------------------------------------------------------------- *)
(* steps that neither send nor receive                                                       *)
(* ---------------------------------------------------------------------------------------- *)
Record Neutral (w w' : world) : Prop := {
  n_recv : forall s, s_recv (gets w' s) = s_recv (gets w s);
  n_sent : forall p, p_sent (getp w' p) = p_sent (getp w p);
  n_hist : forall p, p_hist (getp w' p) = p_hist (getp w p);
  n_conn : forall p s c', getc w' p s = Some c' -> idxs c' = [] \/ exists c, getc w p s = Some c /\ idxs c' = idxs c;
  n_lenp : length (w_pubs w) <= length (w_pubs w');
  n_lens : length (w_subs w) <= length (w_subs w');
  n_pact : forall p, pact w' p -> pact w p \/ length (w_pubs w) <= p;
  n_sact : forall s, sact w' s -> sact w s \/ (length (w_subs w) <= s /\ forall p c', getc w' p s = Some c' -> idxs c' = []);
  n_tab : forall p s, pact w p -> sact w s -> pact w' p -> sact w' s ->
          In (Some s) (p_tab (getp w p)) -> In (Some s) (p_tab (getp w' p)) }.

Lemma sact_lt w s : sact w s -> s < length (w_subs w).
Proof. unfold sact, gets. intros H. destruct (Nat.lt_ge_cases s (length (w_subs w))); [auto|]. rewrite nth_overflow in H by lia. discriminate. Qed.

Lemma Neutral_refl w : Neutral w w.
Proof. constructor; auto. intros p s c' H. right. eauto. Qed.

Lemma Neutral_trans w1 w2 w3 : Neutral w1 w2 -> Neutral w2 w3 -> Neutral w1 w3.
Proof.
  intros [a1 b1 c1 d1 e1 f1 g1 h1 i1] [a2 b2 c2 d2 e2 f2 g2 h2 i2]. constructor.
  - intros s. now rewrite a2.
  - intros p. now rewrite b2.
  - intros p. now rewrite c2.
  - intros p s c' H. destruct (d2 _ _ _ H) as [E|[c [Hc E]]]; [now left|]. rewrite E. eapply d1; eauto.
  - lia.
  - lia.
  - intros p Hp. destruct (g2 p Hp) as [Hp2|Hl]; [|right; lia]. destruct (g1 p Hp2); auto.
  - intros s Hs. destruct (h2 s Hs) as [Hs2|[Hl He]]; [|right; split; [lia|exact He]].
    destruct (h1 s Hs2) as [A|[Hl He]]; [now left|right]. split; [exact Hl|].
    intros p c3 Hc3. destruct (d2 _ _ _ Hc3) as [E|[c2' [Hc2 E]]]; [exact E|]. rewrite E. eapply He; eauto.
  - intros p s Hp Hs Hp3 Hs3 Hin.
    assert (Hp2 : pact w2 p) by (destruct (g2 p Hp3) as [A|A]; [exact A|apply pact_lt in Hp; lia]).
    assert (Hs2 : sact w2 s) by (destruct (h2 s Hs3) as [A|[A _]]; [exact A|apply sact_lt in Hs; lia]).
    auto.
Qed.

Lemma recvidx_eq w w' s p : s_recv (gets w' s) = s_recv (gets w s) -> recvidx w' s p = recvidx w s p.
Proof. unfold recvidx. now intros ->. Qed.

Lemma Ord_neutral w w' : Ord w -> Neutral w w' -> Ord w'.
Proof.
  intros [a b c d] [n1 n2 n3 n4 n5 n6 n7 n8 n9].
  assert (R : forall s p, recvidx w' s p = recvidx w s p) by (intros; now apply recvidx_eq).
  assert (S : forall p, nsent w' p = nsent w p) by (intros; unfold nsent; now rewrite n2).
  constructor.
  - intros p s c' Hc. rewrite R, S. destruct (n4 _ _ _ Hc) as [E|[c0 [Hc0 E]]]; rewrite E; [rewrite app_nil_r; apply b|now apply a].
  - intros p s. rewrite R, S. apply b.
  - intros p. unfold histidx. rewrite n3, S. apply c.
  - intros p s Hp Hs Hni. rewrite R.
    assert (Z : nsent w p = 0 -> recvidx w s p = [] /\ forall c', getc w' p s = Some c' -> idxs c' = []).
    { intros Hz. split.
      - destruct (b p s) as [_ B]. rewrite Hz in B. destruct (recvidx w s p) as [|j l]; [reflexivity|]. specialize (B j (or_introl eq_refl)). lia.
      - intros c' Hc. destruct (n4 _ _ _ Hc) as [E|[c0 [Hc0 E]]]; [exact E|]. rewrite E.
        destruct (a _ _ _ Hc0) as [_ B]. rewrite Hz in B. destruct (idxs c0) as [|j l]; [reflexivity|].
        assert (Hj : In j (recvidx w s p ++ j :: l)) by (apply in_or_app; right; now left). specialize (B j Hj). lia. }
    destruct (n7 p Hp) as [Hp0|Hl].
    2:{ apply Z. unfold nsent, getp. now rewrite nth_overflow by exact Hl. }
    destruct (n8 s Hs) as [Hs0|[Hl He]].
    2:{ split; [unfold recvidx, gets; now rewrite nth_overflow by exact Hl|]. intros c' Hc. eapply He; eauto. }
    destruct (d p s Hp0 Hs0) as [D1 D2]; [intros Hin; apply Hni; now apply n9|].
    split; [exact D1|]. intros c' Hc. destruct (n4 _ _ _ Hc) as [E|[c0 [Hc0 E]]]; [exact E|]. rewrite E. now apply D2.
Qed.

(* primitives *)
Lemma N_setp w p x' :
  p_sent x' = p_sent (getp w p) -> p_hist x' = p_hist (getp w p) ->
  (p_active x' = true -> p_active (getp w p) = true) ->
  (forall s, sact w s -> In (Some s) (p_tab (getp w p)) -> p_active x' = true -> In (Some s) (p_tab x')) ->
  Neutral w (setp w p x').
Proof.
  intros E1 E2 E3 E4.
  destruct (Nat.lt_ge_cases p (length (w_pubs w))) as [Hl|Hge].
  - assert (G : forall q, getp (setp w p x') q = if Nat.eqb q p then x' else getp w q).
    { intros q. destruct (Nat.eqb_spec q p) as [->|Hne]; [now apply getp_setp_same|apply getp_setp_other; congruence]. }
    constructor; try reflexivity.
    + intros q. rewrite G. destruct (Nat.eqb_spec q p) as [->|]; auto.
    + intros q. rewrite G. destruct (Nat.eqb_spec q p) as [->|]; auto.
    + intros q s c' H. right. eauto.
    + rewrite len_pubs_setp. lia.
    + intros q. unfold pact. rewrite G. destruct (Nat.eqb_spec q p) as [->|]; auto.
    + intros s Hs. now left.
    + intros q s Hq Hs Hq' Hs' Hin. unfold pact in Hq'. rewrite G in *. destruct (Nat.eqb_spec q p) as [->|]; auto.
  - assert (G : forall q, getp (setp w p x') q = getp w q) by (intros q; unfold getp, setp; cbn; now rewrite upd_oob).
    constructor; try reflexivity; try (intros; rewrite G; auto).
    + intros q s c' H. right. eauto.
    + rewrite len_pubs_setp. lia.
    + intros q Hq. unfold pact in *. rewrite G in Hq. auto.
    + intros s Hs. now left.
Qed.

Lemma N_sets w s x' :
  s_recv x' = s_recv (gets w s) -> (s_active x' = true -> s_active (gets w s) = true) -> Neutral w (sets w s x').
Proof.
  intros E1 E2.
  destruct (Nat.lt_ge_cases s (length (w_subs w))) as [Hl|Hge].
  - assert (G : forall t, gets (sets w s x') t = if Nat.eqb t s then x' else gets w t).
    { intros t. destruct (Nat.eqb_spec t s) as [->|Hne]; [now apply gets_sets_same|apply gets_sets_other; congruence]. }
    constructor; try reflexivity; auto.
    + intros t. rewrite G. destruct (Nat.eqb_spec t s) as [->|]; auto.
    + intros q t c' H. right. eauto.
    + rewrite len_subs_sets. lia.
    + intros t. unfold sact. rewrite G. destruct (Nat.eqb_spec t s) as [->|]; auto.
  - assert (G : forall t, gets (sets w s x') t = gets w t) by (intros t; unfold gets, sets; cbn; now rewrite upd_oob).
    constructor; try reflexivity; auto.
    + intros t. now rewrite G.
    + intros q t c' H. right. eauto.
    + rewrite len_subs_sets. lia.
    + intros t Ht. unfold sact in *. rewrite G in Ht. auto.
Qed.

Lemma N_setc w p s c' :
  (idxs c' = [] \/ exists c, getc w p s = Some c /\ idxs c' = idxs c) -> Neutral w (setc w p s c').
Proof.
  intros E. destruct (setc_fields w p s c') as (F1 & F2 & F3 & F4 & F5 & F6 & F7 & F8 & F9).
  constructor; try (intros; rewrite ?getp_setc, ?gets_setc; auto; fail).
  - intros q t c1 H. destruct (Nat.eq_dec q p) as [->|Hq]; [destruct (Nat.eq_dec t s) as [->|Ht]|].
    + rewrite getc_setc_eq in H. destruct (c_snd c' || c_rcv c'); [|discriminate]. inversion H; subst. exact E.
    + rewrite getc_setc_ne in H by congruence. right. eauto.
    + rewrite getc_setc_ne in H by congruence. right. eauto.
  - rewrite F4. lia.
  - rewrite F5. lia.
  - intros q Hq. unfold pact in *. rewrite getp_setc in Hq. auto.
  - intros t Ht. unfold sact in *. rewrite gets_setc in Ht. auto.
Qed.

Lemma N_same w w' :
  w_pubs w' = w_pubs w -> w_subs w' = w_subs w -> w_conns w' = w_conns w -> Neutral w w'.
Proof.
  intros E1 E2 E3.
  assert (Gp : forall q, getp w' q = getp w q) by (intros; unfold getp; now rewrite E1).
  assert (Gs : forall q, gets w' q = gets w q) by (intros; unfold gets; now rewrite E2).
  assert (Gc : forall q t, getc w' q t = getc w q t) by (intros; unfold getc; now rewrite E3).
  constructor; intros; rewrite ?Gp, ?Gs, ?E1, ?E2; auto.
  - rewrite Gc in H. right. eauto.
  - unfold pact in *. rewrite Gp in H. auto.
  - unfold sact in *. rewrite Gs in H. auto.
Qed.

Lemma N_add_pub w x : p_sent x = [] -> p_hist x = [] -> Neutral w (w_set_pubs w (w_pubs w ++ [x])).
Proof.
  intros E1 E2. set (w' := w_set_pubs w (w_pubs w ++ [x])).
  assert (G : forall q, q < length (w_pubs w) -> getp w' q = getp w q) by (intros q Hq; unfold getp, w'; cbn; now rewrite app_nth1).
  assert (Gn : forall q, length (w_pubs w) <= q -> p_sent (getp w' q) = [] /\ p_hist (getp w' q) = []).
  { intros q Hq. unfold getp, w'. cbn [w_pubs w_set_pubs]. rewrite app_nth2 by exact Hq.
    destruct (q - length (w_pubs w)) as [|[|k]]; cbn; auto. }
  assert (Gd : forall q, length (w_pubs w) <= q -> getp w q = pub_dead) by (intros q Hq; unfold getp; now apply nth_overflow).
  constructor; try reflexivity.
  - intros q. destruct (Nat.lt_ge_cases q (length (w_pubs w))) as [Hl|Hge]; [now rewrite G|]. rewrite Gd by exact Hge. now apply Gn.
  - intros q. destruct (Nat.lt_ge_cases q (length (w_pubs w))) as [Hl|Hge]; [now rewrite G|]. rewrite Gd by exact Hge. now apply Gn.
  - intros q s c' H. right. eauto.
  - unfold w'. cbn. rewrite app_length. lia.
  - intros q Hq. destruct (Nat.lt_ge_cases q (length (w_pubs w))) as [Hl|Hge]; [|now right]. left. unfold pact in *. now rewrite G in Hq.
  - intros s Hs. now left.
  - intros q s Hq Hs Hq' Hs' Hin. rewrite G; [exact Hin|now apply pact_lt].
Qed.

Lemma N_add_sub w x : s_recv x = [] -> (forall p s c, getc w p s = Some c -> s < length (w_subs w)) ->
  Neutral w (w_set_subs w (w_subs w ++ [x])).
Proof.
  intros E1 Hr. set (w' := w_set_subs w (w_subs w ++ [x])).
  assert (G : forall q, q < length (w_subs w) -> gets w' q = gets w q) by (intros q Hq; unfold gets, w'; cbn; now rewrite app_nth1).
  assert (Gn : forall q, length (w_subs w) <= q -> s_recv (gets w' q) = []).
  { intros q Hq. unfold gets, w'. cbn [w_subs w_set_subs]. rewrite app_nth2 by exact Hq.
    destruct (q - length (w_subs w)) as [|[|k]]; cbn; auto. }
  assert (Gd : forall q, length (w_subs w) <= q -> gets w q = sub_dead) by (intros q Hq; unfold gets; now apply nth_overflow).
  constructor; try reflexivity; auto.
  - intros q. destruct (Nat.lt_ge_cases q (length (w_subs w))) as [Hl|Hge]; [now rewrite G|]. rewrite Gd by exact Hge. now apply Gn.
  - intros q s c' H. right. eauto.
  - unfold w'. cbn. rewrite app_length. lia.
  - intros q Hq. destruct (Nat.lt_ge_cases q (length (w_subs w))) as [Hl|Hge]; [left; unfold sact in *; now rewrite G in Hq|right].
    split; [exact Hge|]. intros p c' Hc. apply Hr in Hc. lia.
Qed.

(* ---------------------------------------------------------------------------------------- *)
(* subscriber-side moves: an index never appears, it only moves from the queue to the log      *)
(* ---------------------------------------------------------------------------------------- *)
Definition qidx (w : world) (p s : nat) : list nat := match getc w p s with Some c => idxs c | None => [] end.
Definition allidx (w : world) (p s : nat) : list nat := recvidx w s p ++ qidx w p s.
Definition SubMove (w w' : world) : Prop := forall p s j, In j (allidx w' p s) -> In j (allidx w p s).

Lemma SubMove_refl w : SubMove w w.
Proof. intros p s j H. exact H. Qed.
Lemma SubMove_trans w1 w2 w3 : SubMove w1 w2 -> SubMove w2 w3 -> SubMove w1 w3.
Proof. intros A B p s j H. auto. Qed.

Lemma Neutral_SubMove w w' : Neutral w w' -> SubMove w w'.
Proof.
  intros N p s j Hj. unfold allidx, qidx in *. rewrite (recvidx_eq w w' s p (n_recv _ _ N s)) in Hj.
  apply in_app_or in Hj as [Hj|Hj]; apply in_or_app; [now left|right].
  destruct (getc w' p s) as [c'|] eqn:Hc; [|contradiction].
  destruct (n_conn _ _ N _ _ _ Hc) as [E|[c [Hc0 E]]]; [rewrite E in Hj; contradiction|]. now rewrite Hc0, <- E.
Qed.

(* subscriber-side neutral steps leave the publishers alone *)
Definition NeutralS (w w' : world) : Prop := Neutral w w' /\ w_pubs w' = w_pubs w.
Lemma NeutralS_refl w : NeutralS w w.
Proof. split; [apply Neutral_refl|reflexivity]. Qed.
Lemma NeutralS_trans w1 w2 w3 : NeutralS w1 w2 -> NeutralS w2 w3 -> NeutralS w1 w3.
Proof. intros [A1 B1] [A2 B2]. split; [eapply Neutral_trans; eauto|congruence]. Qed.
Lemma NS_sets w s x' :
  s_recv x' = s_recv (gets w s) -> (s_active x' = true -> s_active (gets w s) = true) -> NeutralS w (sets w s x').
Proof. intros. split; [now apply N_sets|reflexivity]. Qed.
Lemma NS_setc w p s c' :
  (idxs c' = [] \/ exists c, getc w p s = Some c /\ idxs c' = idxs c) -> NeutralS w (setc w p s c').
Proof. intros. split; [now apply N_setc|]. now destruct (setc_fields w p s c') as (_&_&_&->&_). Qed.
Lemma NS_same w w' :
  w_pubs w' = w_pubs w -> w_subs w' = w_subs w -> w_conns w' = w_conns w -> NeutralS w w'.
Proof. intros. split; [now apply N_same|assumption]. Qed.
Lemma NS_add_sub w x : s_recv x = [] -> (forall p s c, getc w p s = Some c -> s < length (w_subs w)) ->
  NeutralS w (w_set_subs w (w_subs w ++ [x])).
Proof. intros. split; [now apply N_add_sub|reflexivity]. Qed.

(* ---------------------------------------------------------------------------------------- *)
(* the two non-neutral publisher-side primitives                                             *)
(* ---------------------------------------------------------------------------------------- *)
Lemma Ord_setc w p s c' :
  Ord w -> IncB (recvidx w s p ++ idxs c') (nsent w p) ->
  (pact w p -> sact w s -> ~ In (Some s) (p_tab (getp w p)) -> idxs c' = []) ->
  Ord (setc w p s c').
Proof.
  intros [a b c d] HI HJ.
  assert (Gp : forall q, getp (setc w p s c') q = getp w q) by (intros; apply getp_setc).
  assert (Gs : forall t, gets (setc w p s c') t = gets w t) by (intros; apply gets_setc).
  assert (R : forall t q, recvidx (setc w p s c') t q = recvidx w t q) by (intros; unfold recvidx; now rewrite Gs).
  assert (S : forall q, nsent (setc w p s c') q = nsent w q) by (intros; unfold nsent; now rewrite Gp).
  constructor.
  - intros q t c1 Hc. rewrite R, S. destruct (Nat.eq_dec q p) as [->|Hq]; [destruct (Nat.eq_dec t s) as [->|Ht]|].
    + rewrite getc_setc_eq in Hc. destruct (c_snd c' || c_rcv c'); [|discriminate]. inversion Hc; subst. exact HI.
    + rewrite getc_setc_ne in Hc by congruence. now apply a.
    + rewrite getc_setc_ne in Hc by congruence. now apply a.
  - intros q t. rewrite R, S. apply b.
  - intros q. unfold histidx. rewrite Gp, S. apply c.
  - intros q t Hq Ht Hni. unfold pact, sact in *. rewrite Gp, Gs in *. rewrite R. destruct (d q t Hq Ht Hni) as [D1 D2]. split; [exact D1|].
    intros c1 Hc. destruct (Nat.eq_dec q p) as [->|Hqp]; [destruct (Nat.eq_dec t s) as [->|Hts]|].
    + rewrite getc_setc_eq in Hc. destruct (c_snd c' || c_rcv c'); [|discriminate]. inversion Hc; subst. now apply HJ.
    + rewrite getc_setc_ne in Hc by congruence. now apply D2.
    + rewrite getc_setc_ne in Hc by congruence. now apply D2.
Qed.

Lemma Ord_setp w p x' :
  Ord w -> p < length (w_pubs w) ->
  p_tab x' = p_tab (getp w p) -> p_active x' = p_active (getp w p) ->
  length (p_sent (getp w p)) <= length (p_sent x') ->
  IncB (map he_idx (p_hist x')) (length (p_sent x')) ->
  Ord (setp w p x').
Proof.
  intros [a b c d] Hl E1 E2 E3 HI.
  assert (G : forall q, getp (setp w p x') q = if Nat.eqb q p then x' else getp w q).
  { intros q. destruct (Nat.eqb_spec q p) as [->|Hne]; [now apply getp_setp_same|apply getp_setp_other; congruence]. }
  assert (S : forall q, nsent w q <= nsent (setp w p x') q).
  { intros q. unfold nsent. rewrite G. destruct (Nat.eqb_spec q p) as [->|]; auto. }
  constructor.
  - intros q t c1 Hc. rewrite getc_setp in Hc. eapply IncB_mono; [now apply a|apply S].
  - intros q t. eapply IncB_mono; [apply b|apply S].
  - intros q. unfold histidx, nsent. rewrite G. destruct (Nat.eqb_spec q p) as [->|]; [exact HI|apply c].
  - intros q t Hq Ht Hni. unfold pact in *. rewrite G in *. change (sact w t) in Ht. change (recvidx (setp w p x') t q) with (recvidx w t q).
    assert (Hq0 : pact w q) by (unfold pact; destruct (Nat.eqb_spec q p) as [->|]; [congruence|exact Hq]).
    assert (Hni0 : ~ In (Some t) (p_tab (getp w q))) by (destruct (Nat.eqb_spec q p) as [->|]; [now rewrite <- E1|exact Hni]).
    destruct (d q t Hq0 Ht Hni0) as [D1 D2]. split; [exact D1|]. intros c1 Hc. rewrite getc_setp in Hc. now apply D2.
Qed.

(* inside a send: every index that the connections of the table entries from i on know is below gi *)
Definition Below (w : world) (p gi i : nat) : Prop :=
  forall i' s, i <= i' -> nth i' (p_tab (getp w p)) None = Some s -> forall j, In j (allidx w p s) -> j < gi.

Lemma Below_SubMove w w' p gi i : Below w p gi i -> SubMove w w' -> p_tab (getp w' p) = p_tab (getp w p) -> Below w' p gi i.
Proof. intros B M E i' s Hi Hn j Hj. rewrite E in Hn. eapply B; eauto. Qed.
