(* vector/mod.rs: the (len, buffer) representation with memmove shifts refines the list
   reference with a capacity guard, for every capacity and every operation sequence; errors
   leave the state unchanged; every value that enters is returned, dropped or still stored,
   exactly once (multiset conservation), and container drop releases exactly the stored ones
   in reverse index order. *)
From V Require Import model.Base model.Obs model.Vec proofs.ListLemmas.
From Coq Require Import ZifyBool ZifyNat ZifyN Permutation.
Open Scope N_scope.

(* ---------- list facts (nat indices) ---------- *)
Lemma upd_app_at {A} (P Q : list A) y x : upd (P ++ y :: Q) (length P) x = P ++ x :: Q.
Proof. induction P as [|p P IH]; cbn; [reflexivity|]. now rewrite IH. Qed.

Lemma upd_app_at' {A} (P Q : list A) y x i : length P = i -> upd (P ++ y :: Q) i x = P ++ x :: Q.
Proof. intros <-. apply upd_app_at. Qed.

Lemma firstn_app_exact {A} (P Q : list A) n : n = length P -> firstn n (P ++ Q) = P.
Proof. intros ->. rewrite firstn_app, Nat.sub_diag, firstn_all. cbn. apply app_nil_r. Qed.

Lemma skipn_app_exact {A} (P Q : list A) n : n = length P -> skipn n (P ++ Q) = Q.
Proof. intros ->. rewrite skipn_app, Nat.sub_diag, skipn_all. reflexivity. Qed.

Lemma skipn_skipn {A} (x y : nat) (l : list A) : skipn x (skipn y l) = skipn (x + y) l.
Proof.
  revert l; induction y as [|y IH]; intros l; [now rewrite Nat.add_0_r|].
  rewrite Nat.add_succ_r. destruct l as [|h t]; [now rewrite !skipn_nil|]. cbn [skipn]. apply IH.
Qed.

Lemma upd_split {A} (l : list A) : forall i x, (i < length l)%nat ->
  upd l i x = firstn i l ++ x :: skipn (S i) l.
Proof.
  induction l as [|h t IH]; intros [|i] x H; cbn in *; try lia; [reflexivity|].
  now rewrite IH by lia.
Qed.

Lemma firstn_S_nth {A} (l : list A) : forall i d, (i < length l)%nat ->
  firstn (S i) l = firstn i l ++ [nth i l d].
Proof.
  induction l as [|h t IH]; intros [|i] d H; cbn in *; try lia; [reflexivity|].
  f_equal. apply IH. lia.
Qed.

Lemma skipn_nth_cons {A} (l : list A) : forall k d, (k < length l)%nat ->
  skipn k l = nth k l d :: skipn (S k) l.
Proof.
  induction l as [|h t IH]; intros [|k] d H; cbn in *; try lia; [reflexivity|]. apply IH. lia.
Qed.

Lemma cons_app_assoc {A} (P Q : list A) x : P ++ x :: Q = (P ++ [x]) ++ Q.
Proof. rewrite <- app_assoc. reflexivity. Qed.

Lemma blit_spec src : forall dst buf, (dst + length src <= length buf)%nat ->
  blit src dst buf = firstn dst buf ++ src ++ skipn (dst + length src) buf.
Proof.
  induction src as [|x t IH]; intros dst buf H; cbn [blit length app].
  - rewrite Nat.add_0_r. symmetry. apply firstn_skipn.
  - cbn [length] in H. rewrite IH by (rewrite upd_length; lia).
    rewrite upd_split by lia.
    assert (Hd : length (firstn dst buf ++ [x]) = S dst) by (rewrite app_length, firstn_length; cbn; lia).
    rewrite cons_app_assoc.
    rewrite firstn_app_exact by auto.
    replace (S dst + length t)%nat with (length t + S dst)%nat by lia.
    rewrite <- skipn_skipn. rewrite skipn_app_exact by auto.
    rewrite skipn_skipn. rewrite <- app_assoc. cbn [app].
    replace (length t + S dst)%nat with (dst + S (length t))%nat by lia. reflexivity.
Qed.

(* insertion: shift [i,n) right by one, then write x at i *)
Lemma insert_buf (A G : list N) i x : (i <= length A)%nat -> (1 <= length G)%nat ->
  let buf := A ++ G in let n := length A in
  exists G', upd (if Nat.eqb i n then buf else blit (firstn (n - i) (skipn i buf)) (S i) buf) i x
             = (firstn i A ++ x :: skipn i A) ++ G' /\ S (length G') = length G.
Proof.
  intros Hi HG buf n. destruct G as [|g G]; [cbn in HG; lia|].
  destruct (Nat.eqb_spec i n) as [E|E].
  - exists G. subst i buf n. rewrite upd_app_at, firstn_all, skipn_all. rewrite <- app_assoc. cbn. auto.
  - assert (Hsrc : firstn (n - i) (skipn i buf) = skipn i A).
    { unfold buf. rewrite skipn_app. replace (i - length A)%nat with 0%nat by lia. rewrite skipn_O.
      apply firstn_app_exact. rewrite skipn_length. reflexivity. }
    rewrite Hsrc. rewrite blit_spec.
    2:{ unfold buf. rewrite skipn_length, app_length. cbn. lia. }
    assert (Hf : firstn (S i) buf = firstn i A ++ [nth i A 0]).
    { unfold buf. rewrite firstn_app. replace (S i - length A)%nat with 0%nat by lia. rewrite firstn_O.
      rewrite app_nil_r. apply firstn_S_nth. lia. }
    rewrite Hf, <- app_assoc. cbn [app].
    assert (Hl : length (firstn i A) = i) by (rewrite firstn_length; lia).
    rewrite (upd_app_at' _ _ _ x _ Hl).
    exists G. split.
    + rewrite <- !app_assoc. cbn [app]. f_equal. f_equal. f_equal.
      unfold buf. rewrite skipn_length.
      replace (S i + (length A - i))%nat with (1 + length A)%nat by lia. rewrite <- skipn_skipn.
      rewrite skipn_app_exact by reflexivity. reflexivity.
    + reflexivity.
Qed.

(* removal: shift (i,n) left by one *)
Lemma remove_buf (A G : list N) i : (i < length A)%nat ->
  let buf := A ++ G in let n := length A in
  exists G', blit (firstn (n - i - 1) (skipn (S i) buf)) i buf = (firstn i A ++ skipn (S i) A) ++ G'
             /\ length G' = S (length G).
Proof.
  intros Hi buf n.
  assert (Hsrc : firstn (n - i - 1) (skipn (S i) buf) = skipn (S i) A).
  { unfold buf. rewrite skipn_app. replace (S i - length A)%nat with 0%nat by lia. rewrite skipn_O.
    apply firstn_app_exact. rewrite skipn_length. lia. }
  rewrite Hsrc, blit_spec.
  2:{ unfold buf. rewrite skipn_length, app_length. lia. }
  exists (skipn (i + length (skipn (S i) A)) buf). split.
  - rewrite <- app_assoc. f_equal. unfold buf. rewrite firstn_app.
    replace (i - length A)%nat with 0%nat by lia. rewrite firstn_O. apply app_nil_r.
  - unfold buf. rewrite !skipn_length, app_length. lia.
Qed.

Lemma drop_rev_spec b lo n : (N.to_nat lo + n <= length b)%nat ->
  drop_rev b lo n = Val (rev (firstn n (skipn (N.to_nat lo) b))).
Proof.
  induction n as [|k IH]; intros H; cbn [drop_rev]; [reflexivity|].
  unfold rd, lenN. destruct (N.ltb_spec (lo + N.of_nat k) (N.of_nat (length b))) as [L|L]; [|lia].
  rewrite IH by lia. f_equal.
  set (S := skipn (N.to_nat lo) b).
  assert (HS : (k < length S)%nat) by (unfold S; rewrite skipn_length; lia).
  rewrite <- (firstn_skipn k S) at 2.
  destruct (skipn k S) as [|y Q] eqn:EQ.
  { exfalso. assert (length (skipn k S) = 0%nat) by now rewrite EQ. rewrite skipn_length in *. lia. }
  assert (Hf : firstn (Datatypes.S k) (firstn k S ++ y :: Q) = firstn k S ++ [y]).
  { replace (firstn k S ++ y :: Q) with ((firstn k S ++ [y]) ++ Q) by (rewrite <- app_assoc; reflexivity).
    apply firstn_app_exact. rewrite app_length, firstn_length. cbn. lia. }
  rewrite Hf, rev_app_distr. cbn [rev app]. f_equal.
  unfold nthN. replace (N.to_nat (lo + N.of_nat k)) with (N.to_nat lo + k)%nat by lia.
  rewrite <- (firstn_skipn (N.to_nat lo) b) at 1. rewrite app_nth2; rewrite firstn_length; [|lia].
  replace (N.to_nat lo + k - Nat.min (N.to_nat lo) (length b))%nat with k by lia.
  fold S. rewrite <- (firstn_skipn k S), EQ. rewrite app_nth2; rewrite firstn_length; [|lia].
  replace (k - Nat.min k (length S))%nat with 0%nat by lia. reflexivity.
Qed.

Lemma write_from_spec l : forall b pos, (N.to_nat pos + length l <= length b)%nat ->
  write_from b pos l = Val (firstn (N.to_nat pos) b ++ l ++ skipn (N.to_nat pos + length l) b).
Proof.
  induction l as [|x t IH]; intros b pos H; cbn [write_from length app].
  - rewrite Nat.add_0_r, firstn_skipn. reflexivity.
  - cbn [length] in H. unfold wr, lenN. destruct (N.ltb_spec pos (N.of_nat (length b))) as [L|L]; [|lia].
    unfold updN. rewrite IH by (rewrite upd_length; lia). f_equal.
    set (p := N.to_nat pos) in *.
    rewrite upd_split by lia.
    assert (Hd : length (firstn p b ++ [x]) = Datatypes.S p) by (rewrite app_length, firstn_length; cbn; lia).
    replace (N.to_nat (pos + 1)) with (Datatypes.S p) by lia.
    rewrite cons_app_assoc.
    rewrite firstn_app_exact by auto.
    replace (Datatypes.S p + length t)%nat with (length t + Datatypes.S p)%nat by lia.
    rewrite <- skipn_skipn. rewrite skipn_app_exact by auto.
    rewrite skipn_skipn. rewrite <- app_assoc. cbn [app].
    replace (length t + Datatypes.S p)%nat with (p + Datatypes.S (length t))%nat by lia. reflexivity.
Qed.

(* ---------- abstraction and invariant ---------- *)
Definition vabs (v : vec) : list N := firstn (N.to_nat (vlen v)) (vbuf v).
Definition VInv (v : vec) : Prop := vlen v <= vcap v /\ lenN (vbuf v) = vcap v.
Definition VR (v : vec) (s : svec) : Prop := VInv v /\ svcap s = vcap v /\ sitems s = vabs v.

Lemma vabs_len v : VInv v -> lenN (vabs v) = vlen v.
Proof. intros (H1 & H2). unfold vabs, lenN in *. rewrite firstn_length. lia. Qed.

Lemma vbuf_split v : VInv v -> vbuf v = vabs v ++ skipn (N.to_nat (vlen v)) (vbuf v).
Proof. intros _. unfold vabs. symmetry. apply firstn_skipn. Qed.

Lemma vr_new c : VR (vec_new c) (svec_new c).
Proof.
  unfold VR, VInv, vec_new, svec_new, vabs; cbn. rewrite lenN_repeat. repeat split; lia.
Qed.

Ltac vr_same := split; [reflexivity|]; split; [reflexivity|]; repeat split; auto.

Theorem vec_step_refines v s o :
  VR v s ->
  let '(v', ob, d) := vec_step v o in
  let '(s', ob', d') := svec_step s o in
  ob = ob' /\ d = d' /\ VR v' s'.
Proof.
  intros (HI & Hcap & Habs). pose proof HI as (Hlc & Hbl).
  pose proof (vabs_len v HI) as HL. pose proof (vbuf_split v HI) as HS.
  set (A := vabs v) in *. set (G := skipn (N.to_nat (vlen v)) (vbuf v)) in *.
  assert (HAl : length A = N.to_nat (vlen v)) by (unfold lenN in HL; lia).
  assert (HGl : length G = (N.to_nat (vcap v) - N.to_nat (vlen v))%nat).
  { unfold G. rewrite skipn_length. unfold lenN in Hbl. lia. }
  destruct o as [x| |i x|i| |n|n x|l| |]; cbn [vec_step svec_step]; rewrite ?Habs, ?Hcap.
  - (* push *)
    unfold vec_push, vec_is_full. rewrite HL.
    destruct (N.eqb_spec (vlen v) (vcap v)) as [E|E]; destruct (N.ltb_spec (vlen v) (vcap v)) as [L|L]; try lia; cbn [unres].
    + vr_same.
    + unfold wr. rewrite Hbl. destruct (N.ltb_spec (vlen v) (vcap v)); [|lia]. cbn [unres].
      split; [reflexivity|]. split; [reflexivity|].
      destruct (insert_buf A G (length A) x ltac:(lia) ltac:(lia)) as (G' & Hu & HG').
      cbn zeta in Hu. rewrite Nat.eqb_refl, firstn_all, skipn_all in Hu.
      unfold VR, VInv, vabs, with_buf; cbn [vlen vcap vbuf svcap sitems sv].
      unfold updN. rewrite HS. replace (N.to_nat (vlen v)) with (length A) by lia. rewrite Hu.
      repeat split; try lia.
      * unfold lenN. rewrite !app_length. cbn [length]. lia.
      * replace (N.to_nat (vlen v + 1)) with (length (A ++ [x])) by (rewrite app_length; cbn; lia).
        now rewrite firstn_app_exact.
  - (* pop *)
    unfold vec_pop, vec_is_empty.
    destruct (N.eqb_spec (vlen v) 0) as [E|E]; cbn [unres].
    + assert (A = []) by (destruct A; cbn in HAl; [reflexivity|lia]). rewrite H. cbn [rev]. vr_same.
    + unfold rd. rewrite Hbl. destruct (N.ltb_spec (vlen v - 1) (vcap v)); [|lia]. cbn [unres].
      destruct (rev A) as [|y r] eqn:ER.
      { exfalso. assert (length (rev A) = 0%nat) by now rewrite ER. rewrite rev_length in *. lia. }
      assert (EA : A = rev r ++ [y]) by (rewrite <- (rev_involutive A), ER; reflexivity).
      assert (Hr : length (rev r) = N.to_nat (vlen v - 1)).
      { rewrite EA, app_length in HAl. cbn in HAl. lia. }
      split.
      { f_equal. f_equal. unfold nthN. rewrite HS, EA, <- app_assoc. rewrite <- Hr.
        rewrite app_nth2, Nat.sub_diag by lia. reflexivity. }
      split; [reflexivity|].
      unfold VR, VInv, vabs, with_buf; cbn [vlen vcap vbuf svcap sitems sv].
      repeat split; try lia.
      rewrite HS, EA, <- app_assoc, <- Hr. now rewrite firstn_app_exact.
  - (* insert *)
    unfold vec_insert, vec_is_full. rewrite HL.
    destruct (N.eqb_spec (vlen v) (vcap v)) as [E|E]; destruct (N.ltb_spec (vlen v) (vcap v)) as [L|L]; try lia; cbn [unres negb].
    + vr_same.
    + destruct (N.ltb_spec (vlen v) i) as [Li|Li]; cbn [unres]; [vr_same|].
      destruct (insert_buf A G (N.to_nat i) x ltac:(lia) ltac:(lia)) as (G' & Hu & HG').
      cbn zeta in Hu.
      assert (Hb1 : (if i =? vlen v then vbuf v else copy_within (vbuf v) i (i + 1) (vlen v - i)) =
                    (if Nat.eqb (N.to_nat i) (length A) then A ++ G
                     else blit (firstn (length A - N.to_nat i) (skipn (N.to_nat i) (A ++ G))) (S (N.to_nat i)) (A ++ G))).
      { rewrite <- HS. destruct (N.eqb_spec i (vlen v)); destruct (Nat.eqb_spec (N.to_nat i) (length A)); try lia; auto.
        unfold copy_within. f_equal; [f_equal|]; lia. }
      rewrite Hb1. unfold wr.
      assert (Hlen1 : lenN (if Nat.eqb (N.to_nat i) (length A) then A ++ G
                     else blit (firstn (length A - N.to_nat i) (skipn (N.to_nat i) (A ++ G))) (S (N.to_nat i)) (A ++ G)) = vcap v).
      { assert (length (upd (if Nat.eqb (N.to_nat i) (length A) then A ++ G
                     else blit (firstn (length A - N.to_nat i) (skipn (N.to_nat i) (A ++ G))) (S (N.to_nat i)) (A ++ G)) (N.to_nat i) x) = N.to_nat (vcap v)) as Hq.
        { rewrite Hu, !app_length. cbn [length]. rewrite firstn_length, skipn_length. lia. }
        rewrite upd_length in Hq. unfold lenN. lia. }
      rewrite Hlen1. destruct (N.ltb_spec i (vcap v)); [|lia]. cbn [unres].
      split; [reflexivity|]. split; [reflexivity|].
      unfold VR, VInv, vabs, with_buf; cbn [vlen vcap vbuf svcap sitems sv]. unfold updN. rewrite Hu.
      repeat split; try lia.
      * unfold lenN. rewrite !app_length. cbn [length]. rewrite firstn_length, skipn_length. lia.
      * rewrite firstn_app_exact; [reflexivity|].
        rewrite app_length. cbn [length]. rewrite firstn_length, skipn_length. lia.
  - (* remove *)
    unfold vec_remove. rewrite HL.
    destruct (N.leb_spec (vlen v) i) as [Li|Li]; destruct (N.ltb_spec i (vlen v)) as [L|L]; try lia; cbn [unres].
    + vr_same.
    + unfold rd. rewrite Hbl. destruct (N.ltb_spec i (vcap v)); [|lia]. cbn [unres].
      destruct (remove_buf A G (N.to_nat i) ltac:(lia)) as (G' & Hu & HG'). cbn zeta in Hu.
      split.
      { f_equal. f_equal. unfold nthN. rewrite HS. rewrite app_nth1 by lia. reflexivity. }
      split; [reflexivity|].
      unfold VR, VInv, vabs, with_buf, copy_within; cbn [vlen vcap vbuf svcap sitems sv].
      rewrite HS.
      replace (N.to_nat (vlen v - i - 1)) with (length A - N.to_nat i - 1)%nat by lia.
      replace (N.to_nat (i + 1)) with (S (N.to_nat i)) by lia. rewrite Hu.
      repeat split; try lia.
      * unfold lenN. rewrite !app_length, firstn_length, skipn_length. lia.
      * rewrite firstn_app_exact; [reflexivity|]. rewrite app_length, firstn_length, skipn_length. lia.
  - (* clear *)
    unfold vec_clear. rewrite drop_rev_spec by (unfold lenN in Hbl; lia). cbn [unres].
    split; [reflexivity|]. split.
    { cbn [N.to_nat skipn]. reflexivity. }
    unfold VR, VInv, vabs, with_buf; cbn [vlen vcap vbuf svcap sitems sv]. repeat split; try lia.
  - (* truncate *)
    unfold vec_truncate.
    destruct (N.leb_spec (vlen v) n) as [Ln|Ln]; cbn [unres].
    + split; [reflexivity|]. split.
      { rewrite skipn_all2 by lia. reflexivity. }
      unfold VR. split; [exact HI|]. split; [exact Hcap|]. cbn [sitems sv]. rewrite firstn_all2 by lia. reflexivity.
    + rewrite drop_rev_spec by (unfold lenN in Hbl; lia). cbn [unres].
      split; [reflexivity|]. split.
      { f_equal. unfold A, vabs. rewrite skipn_firstn_comm. f_equal. lia. }
      unfold VR, VInv, vabs, with_buf; cbn [vlen vcap vbuf svcap sitems sv]. repeat split; try lia.
      unfold A, vabs. rewrite firstn_firstn. f_equal. lia.
  - (* resize *)
    unfold vec_resize.
    destruct (N.ltb_spec (vcap v) n) as [Lc|Lc]; cbn [unres]; [vr_same|].
    destruct (N.ltb_spec n (vlen v)) as [Ln|Ln].
    + unfold vec_truncate. destruct (N.leb_spec (vlen v) n); [lia|].
      rewrite drop_rev_spec by (unfold lenN in Hbl; lia). cbn [unres].
      split; [reflexivity|]. split.
      { f_equal. f_equal. unfold A, vabs. rewrite skipn_firstn_comm. f_equal. lia. }
      unfold VR, VInv, vabs, with_buf; cbn [vlen vcap vbuf svcap sitems sv]. repeat split; try lia.
      replace (N.to_nat n - length A)%nat with 0%nat by lia. cbn [repeat]. rewrite app_nil_r.
      unfold A, vabs. rewrite firstn_firstn. f_equal. lia.
    + rewrite write_from_spec by (rewrite repeat_length; unfold lenN in Hbl; lia). cbn [unres].
      split; [reflexivity|]. split.
      { rewrite skipn_all2 by lia. reflexivity. }
      unfold VR, VInv, vabs, with_buf; cbn [vlen vcap vbuf svcap sitems sv]. change (firstn (N.to_nat (vlen v)) (vbuf v)) with A.
      repeat split; try lia.
      * unfold lenN in *. rewrite !app_length, repeat_length, skipn_length. lia.
      * rewrite app_assoc. rewrite firstn_app_exact.
        2:{ rewrite app_length, repeat_length. lia. }
        rewrite firstn_all2 by lia. f_equal. f_equal. lia.
  - (* extend *)
    unfold vec_extend. rewrite HL.
    destruct (N.ltb_spec (vcap v) (vlen v + lenN l)) as [Lc|Lc]; cbn [unres]; [vr_same|].
    rewrite write_from_spec by (unfold lenN in *; lia). cbn [unres].
    split; [reflexivity|]. split; [reflexivity|].
    unfold VR, VInv, vabs, with_buf; cbn [vlen vcap vbuf svcap sitems sv]. change (firstn (N.to_nat (vlen v)) (vbuf v)) with A.
    repeat split; try lia.
    + unfold lenN in *. rewrite !app_length, skipn_length. lia.
    + rewrite app_assoc. rewrite firstn_app_exact; [reflexivity|]. unfold lenN in *. rewrite app_length. lia.
  - (* len *)
    rewrite HL. vr_same.
  - (* slice *)
    unfold vec_slice. rewrite Hbl. destruct (N.ltb_spec (vcap v) (vlen v)); [lia|]. vr_same.
Qed.

Fixpoint vec_run (v : vec) (ops : list vop) : list (obs * list N) :=
  match ops with [] => [] | o :: t => let '(v', ob, d) := vec_step v o in (ob, d) :: vec_run v' t end.
Fixpoint svec_run (s : svec) (ops : list vop) : list (obs * list N) :=
  match ops with [] => [] | o :: t => let '(s', ob, d) := svec_step s o in (ob, d) :: svec_run s' t end.

Theorem vec_refines_list : forall (c : N) (ops : list vop),
  vec_run (vec_new c) ops = svec_run (svec_new c) ops.
Proof.
  intros c ops. generalize (vr_new c). generalize (vec_new c) (svec_new c).
  induction ops as [|o t IH]; intros v s HR; cbn [vec_run svec_run]; auto.
  pose proof (vec_step_refines v s o HR) as H.
  destruct (vec_step v o) as [[v' ob] d], (svec_step s o) as [[s' ob'] d'].
  destruct H as (-> & -> & HR'). f_equal. now apply IH.
Qed.

(* reachable states *)
Inductive vreach (c : N) : vec -> svec -> Prop :=
| vreach0 : vreach c (vec_new c) (svec_new c)
| vreachS v s o : vreach c v s -> vreach c (fst (fst (vec_step v o))) (fst (fst (svec_step s o))).

Lemma vreach_R c v s : vreach c v s -> VR v s /\ vcap v = c.
Proof.
  induction 1 as [|v s o H [IH IC]].
  - split; [apply vr_new|reflexivity].
  - pose proof (vec_step_refines v s o IH) as HS.
    destruct (vec_step v o) as [[v' ob] d] eqn:E1, (svec_step s o) as [[s' ob'] d'] eqn:E2.
    cbn [fst]. destruct HS as (_ & _ & HR'). split; [exact HR'|].
    destruct HR' as (_ & C2 & _), IH as (_ & C1 & _).
    assert (svcap s' = svcap s).
    { destruct o; cbn in E2;
        repeat match type of E2 with context [if ?b then _ else _] => destruct b end;
        try (destruct (rev (sitems s))); inversion E2; subst; reflexivity. }
    congruence.
Qed.

(* the model never panics from a reachable state, and len stays within the capacity *)
Theorem vec_no_panic_bounded : forall c v s o, vreach c v s ->
  snd (fst (vec_step v o)) <> OP /\ vlen v <= c.
Proof.
  intros c v s o H. destruct (vreach_R c v s H) as [HR HC].
  pose proof (vec_step_refines v s o HR) as HS.
  destruct (vec_step v o) as [[v' ob] d], (svec_step s o) as [[s' ob'] d'] eqn:E2.
  destruct HS as (-> & _ & _). cbn [fst snd]. split.
  - destruct o; cbn in E2;
      repeat match type of E2 with context [if ?b then _ else _] => destruct b end;
      try (destruct (rev (sitems s))); inversion E2; subst; discriminate.
  - destruct HR as ((? & ?) & _). lia.
Qed.

(* errors change nothing (on the reference, hence -- by refinement -- on what any later call observes) *)
Theorem svec_error_unchanged : forall s o s' e d,
  svec_step s o = (s', OErr e, d) -> s' = s.
Proof.
  intros s o s' e d H. destruct o; cbn in H;
    repeat match type of H with context [if ?b then _ else _] => destruct b end;
    try (destruct (rev (sitems s))); inversion H; subst; reflexivity.
Qed.

Theorem vec_error_unchanged : forall v o v' e d,
  vec_step v o = (v', OErr e, d) -> v' = v.
Proof.
  intros v o v' e d H. destruct o; cbn in H;
    unfold vec_push, vec_pop, vec_insert, vec_remove, vec_clear, vec_resize, vec_truncate, vec_extend, vec_slice, wr, rd in H;
    repeat match type of H with
           | context [if ?b then _ else _] => destruct b
           | context [match drop_rev ?a ?b ?c with _ => _ end] => destruct (drop_rev a b c)
           | context [match write_from ?a ?b ?c with _ => _ end] => destruct (write_from a b c)
           end; cbn in H; inversion H; subst; reflexivity.
Qed.

(* ---------- conservation: every value that enters leaves exactly once ---------- *)
(* values handed to the container by the call (moved in, or cloned into it) *)
Definition vop_in (s : svec) (o : vop) : list N :=
  match o with
  | VPush x | VInsert _ x => [x]
  | VResize n x =>
    if N.ltb (svcap s) n then [x] else x :: repeat x (N.to_nat n - length (sitems s))
  | VExtend l => if N.ltb (svcap s) (lenN (sitems s) + lenN l) then [] else l
  | _ => []
  end.
(* values handed back to the caller *)
Definition obs_out (ob : obs) : list N := match ob with OO (Some x) => [x] | _ => [] end.

Lemma svec_step_conserves s o :
  let '(s', ob, d) := svec_step s o in
  Permutation (vop_in s o ++ sitems s) (obs_out ob ++ d ++ sitems s').
Proof.
  destruct o as [x| |i x|i| |n|n x|l| |]; cbn [svec_step vop_in].
  - destruct (N.ltb (lenN (sitems s)) (svcap s)); cbn [obs_out sitems sv app].
    + apply Permutation_cons_append.
    + reflexivity.
  - destruct (rev (sitems s)) as [|y r] eqn:ER; cbn [obs_out sitems sv app]; [reflexivity|].
    assert (EA : sitems s = rev r ++ [y]) by (rewrite <- (rev_involutive (sitems s)), ER; reflexivity).
    rewrite EA. symmetry. apply Permutation_cons_append.
  - destruct (N.ltb (lenN (sitems s)) (svcap s)); cbn [negb obs_out sitems sv app]; [|reflexivity].
    destruct (N.ltb (lenN (sitems s)) i); cbn [obs_out sitems sv app]; [reflexivity|].
    rewrite <- (firstn_skipn (N.to_nat i) (sitems s)) at 1. apply Permutation_middle.
  - destruct (N.ltb_spec i (lenN (sitems s))) as [L|L]; cbn [obs_out sitems sv app]; [|reflexivity].
    rewrite <- (firstn_skipn (N.to_nat i) (sitems s)) at 1.
    assert (E : skipn (N.to_nat i) (sitems s) = nthN (sitems s) i 0 :: skipn (S (N.to_nat i)) (sitems s)).
    { unfold nthN, lenN in *. apply skipn_nth_cons. lia. }
    rewrite E. symmetry. apply Permutation_middle.
  - cbn [obs_out sitems sv app]. rewrite app_nil_r. apply Permutation_rev.
  - cbn [obs_out sitems sv app]. rewrite <- (firstn_skipn (N.to_nat n) (sitems s)) at 1.
    rewrite Permutation_app_comm. apply Permutation_app_tail. apply Permutation_rev.
  - destruct (N.ltb (svcap s) n); cbn [obs_out sitems sv app]; [reflexivity|].
    set (Rp := repeat x (N.to_nat n - length (sitems s))).
    set (F := firstn (N.to_nat n) (sitems s)). set (K := skipn (N.to_nat n) (sitems s)).
    assert (HFK : Permutation (sitems s) (F ++ K)) by (unfold F, K; rewrite firstn_skipn; reflexivity).
    rewrite HFK. cbn [app].
    (* x :: Rp ++ F ++ K  ~  (rev K ++ [x]) ++ F ++ Rp *)
    transitivity (x :: K ++ F ++ Rp).
    + constructor. rewrite app_assoc. rewrite Permutation_app_comm. apply Permutation_app_head.
      apply Permutation_app_comm.
    + rewrite <- app_assoc. cbn [app]. rewrite <- Permutation_middle. constructor.
      apply Permutation_app_tail. apply Permutation_rev.
  - destruct (N.ltb (svcap s) (lenN (sitems s) + lenN l)); cbn [obs_out sitems sv app]; [reflexivity|].
    apply Permutation_app_comm.
  - reflexivity.
  - reflexivity.
Qed.

(* totals over a run of the reference *)
Fixpoint svec_totals (s : svec) (ops : list vop) : list N * list N * svec :=
  match ops with
  | [] => ([], [], s)
  | o :: t =>
    let '(s', ob, d) := svec_step s o in
    let '(ins, outs, sf) := svec_totals s' t in
    (vop_in s o ++ ins, obs_out ob ++ d ++ outs, sf)
  end.

Theorem svec_conservation : forall ops s,
  let '(ins, outs, sf) := svec_totals s ops in
  Permutation (ins ++ sitems s) (outs ++ sitems sf).
Proof.
  induction ops as [|o t IH]; intros s; cbn [svec_totals]; [reflexivity|].
  pose proof (svec_step_conserves s o) as H1.
  destruct (svec_step s o) as [[s' ob] d]. specialize (IH s').
  destruct (svec_totals s' t) as [[ins outs] sf].
  rewrite <- app_assoc. rewrite (Permutation_app_comm ins), app_assoc.
  rewrite H1. rewrite <- !app_assoc. apply Permutation_app_head. apply Permutation_app_head.
  rewrite Permutation_app_comm. exact IH.
Qed.

(* whole life of a vector: everything that went in was either handed back or dropped, exactly
   once; the container's own Drop (= clear) releases exactly what is still stored. *)
Theorem vec_drop_once : forall c ops,
  let '(ins, outs, sf) := svec_totals (svec_new c) ops in
  let '(_, _, dfinal) := svec_step sf VClear in
  Permutation ins (outs ++ dfinal) /\ dfinal = rev (sitems sf).
Proof.
  intros c ops. pose proof (svec_conservation ops (svec_new c)) as H.
  destruct (svec_totals (svec_new c) ops) as [[ins outs] sf]. cbn [svec_step].
  split; [|reflexivity]. cbn [svec_new sitems] in H. rewrite app_nil_r in H. rewrite H.
  apply Permutation_app_head. apply Permutation_rev.
Qed.
