(* C10 proofs, part 1: the invariant of model/Container.v for programs without abandoned calls,
   the guarantee every step gives to the other threads, and stability of a thread's local
   invariant under the steps of the others. *)
From V Require Import model.Base model.Conc model.Events model.Container proofs.ContainerBase.
From Coq Require Import ZifyBool ZifyNat ZifyN.
Open Scope N_scope.

Definition me (t : nat) (l : clst) : N := owner_of t (epoch l).

Definition in_rec (p : cpc) : bool :=
  match p with
  | RecDist2 _ | RecLoadCell _ _ _ | RecPDist0 _ _ _ _ | RecLoadGen _ _ _ | RecPDist1 _ _ _ _ | RecRead _ _ _ _
  | RecValidate _ _ _ _ _ | RecCasCell _ _ _ _ | RecSDist0 _ _ _ _ | RecCasGen _ _ _ _ | RecEnd _ | RecIncChange _ _
  | IncLoad (KRec _ _ _) | IncCas _ (KRec _ _ _) => true
  | _ => false
  end.

(* the slot an add is filling: its generation may be even although the cell is owned *)
Definition add_slot (p : cpc) : option N :=
  match p with
  | IncLoad (KAdd _ n) | IncCas _ (KAdd _ n) | AddDist0 _ n | AddLoadGen _ n | AddCasGen _ n _
  | AddDist1 _ n | AddWrite _ n | AddIncGen _ n => Some n
  | _ => None
  end.
(* the slot the running add / remove works on: no handle of the thread names it *)
Definition busy (p : cpc) : option N :=
  match p with
  | IncLoad (KAdd _ n) | IncCas _ (KAdd _ n) | AddDist0 _ n | AddLoadGen _ n | AddCasGen _ n _
  | AddDist1 _ n | AddWrite _ n | AddIncGen _ n | AddIncChange _ n | AddDist1b n | AddRetCell n => Some n
  | RemLoadGen i | RemDist2 i _ | RemCasCell i _ => Some i
  | _ => None
  end.
Definition refreshing (p : cpc) (i : N) : bool :=
  match p with UpdDist1 k _ | UpdCopy k _ | UpdValidate k _ => N.eqb k i | _ => false end.
Definition scanned (p : cpc) (i : N) : bool :=
  match p with
  | UpdDist0 => false
  | UpdLoadGen k => N.ltb i k
  | UpdDist1 k _ | UpdCopy k _ | UpdValidate k _ => N.leb i k
  | _ => true
  end.

Definition in_upd (p : cpc) : bool :=
  match p with UpdDist0 | UpdLoadGen _ | UpdDist1 _ _ | UpdCopy _ _ | UpdValidate _ _ => true | _ => false end.

(* pcs of add / remove: the calls that can be abandoned *)
Definition fusable (p : cpc) : bool :=
  match p with
  | AddLoadIgen _ | AddScan _ _ _ | AddFinal _ _ | IncLoad (KAdd _ _) | IncCas _ (KAdd _ _) | AddDist0 _ _
  | AddLoadGen _ _ | AddCasGen _ _ _ | AddDist1 _ _ | AddWrite _ _ | AddIncGen _ _ | AddIncChange _ _
  | AddDist1b _ | AddRetCell _ | RemLoadGen _ | RemDist2 _ _ | RemCasCell _ _
  | IncLoad (KRem _ _) | IncCas _ (KRem _ _) | RemCasGen _ _ | RemIncChange => true
  | _ => false
  end.
Definition next_rec (p : list cop) : Prop := exists r, p = CRec true :: r.
(* recover pcs whose predicate flag (where the pc carries it) is true *)
Definition rec_true (p : cpc) : bool :=
  match p with
  | RecDist2 b | RecLoadCell _ _ b | RecPDist0 _ _ _ b | RecLoadGen _ _ b | RecPDist1 _ _ _ b | RecRead _ _ _ b
  | RecValidate _ _ _ _ b | RecCasCell _ _ _ b | RecSDist0 _ _ _ b | RecCasGen _ _ _ b
  | IncLoad (KRec _ _ b) | IncCas _ (KRec _ _ b) => b
  | RecEnd _ | RecIncChange _ _ => true
  | _ => false
  end.
(* a thread whose current owner id is alive *)
Definition L0P (l : clst) : Prop :=
  crash_ok_prog (prog l) = true /\ dirty l = false /\ (fuse l <> None -> fusable (pc l) = true /\ next_rec (prog l)).

Definition Stale (g : cgst) (i gn : N) : Prop :=
  odd gn = true /\ gn <= gens g i /\ (settled g i = true -> gn < gens g i).
Definition Uns (g : cgst) (o n : N) : Prop := cells g n = o /\ settled g n = false.
Definition SetE (g : cgst) (o n : N) : Prop := cells g n = o /\ settled g n = true /\ odd (gens g n) = false.

Definition PcInv (g : cgst) (o : N) (l : clst) : Prop :=
  match pc l with
  | AddScan _ _ n => n < cap g
  | IncLoad (KAdd _ n) | IncCas _ (KAdd _ n) | AddDist0 _ n | AddLoadGen _ n => n < cap g /\ Uns g o n
  | AddCasGen _ n x => n < cap g /\ Uns g o n /\ odd x = true /\ (gens g n = x \/ gens g n = x + 1)
  | AddDist1 _ n | AddWrite _ n => n < cap g /\ SetE g o n
  | AddIncGen v n => n < cap g /\ SetE g o n /\ datas g n = v
  | AddIncChange _ n | AddDist1b n | AddRetCell n => n < cap g /\ cells g n = o
  | RemLoadGen i => i < cap g /\ cells g i = o
  | RemDist2 i gn | RemCasCell i gn => i < cap g /\ cells g i = o /\ gn = gens g i
  | IncLoad (KRem i gn) | IncCas _ (KRem i gn) | RemCasGen i gn => i < cap g /\ Stale g i gn
  | RecLoadCell n _ _ => n < cap g
  | RecPDist0 n o' _ _ => n < cap g /\ (o' = o -> cells g n = o)
  | RecLoadGen n _ _ => n < cap g /\ cells g n = o
  | RecPDist1 n cur _ _ | RecRead n cur _ _ | RecValidate n cur _ _ _ => n < cap g /\ cells g n = o /\ cur = gens g n
  | RecCasCell n v _ _ => n < cap g /\ cells g n = o /\ v = gens g n
  | RecSDist0 n v _ _ | RecCasGen n v _ _ => n < cap g /\ Stale g n v
  | UpdDist1 i cur | UpdCopy i cur => rgen l i = cur /\ cur <= gens g i
  | UpdValidate i cur => rgen l i = cur /\ cur <= gens g i /\ (odd cur = true -> gens g i = cur -> rdata l i = datas g i)
  | _ => True
  end.

Record LInv (g : cgst) (t : nat) (l : clst) : Prop := {
  L0 : L0P l;
  L1 : rchange l <= change g /\ ustart l <= clock g;
  L2 : forall i, rgen l i <= gens g i;
  L3 : forall i gm, In (i, gm) (pend l) -> i < cap g /\ gm <= gens g i;
  L4 : in_rec (pc l) = false -> forall j i, nth j (handles l) None = Some i ->
         i < cap g /\ cells g i = me t l /\ busy (pc l) <> Some i /\
         (forall j', nth j' (handles l) None = Some i -> j' = j);
  L5 : forall n, cells g n = me t l -> add_slot (pc l) <> Some n -> settled g n = true /\ odd (gens g n) = true;
  L6 : forall n e, cells g n = owner_of t e -> e <= epoch l;
  L7 : PcInv g (me t l) l;
  L8 : forall i, refreshing (pc l) i = false -> odd (rgen l i) = true -> In (rgen l i, rdata l i) (published g i);
  L9 : forall i gm c e, In (i, gm, c, e) (oplog g) -> c <= rchange l -> scanned (pc l) i = true -> gm <= rgen l i;
  L10 : forall i gm c e, In (i, gm, c, e) (oplog g) -> e < ustart l -> c <= rchange l;
  L11 : in_upd (pc l) = false -> ulast l = false -> forall i, uprev l i = rgen l i
}.

(* the owner died inside a call (dirty): until its recover (predicate true) has completed nothing
   is known about the state of the slots it owns, except that nobody else touches their cells *)
Definition PcInvD (g : cgst) (o : N) (l : clst) : Prop :=
  match pc l with
  | RecLoadCell n _ _ => n < cap g
  | RecPDist0 n o' _ _ => n < cap g /\ (o' = o -> cells g n = o)
  | RecLoadGen n _ _ | RecPDist1 n _ _ _ | RecRead n _ _ _ | RecValidate n _ _ _ _ => n < cap g /\ cells g n = o
  | RecCasCell n v _ _ => n < cap g /\ cells g n = o /\ (gens g n = v \/ (odd v = true /\ gens g n = v + 1))
  | RecSDist0 n v _ _ | RecCasGen n v _ _ => n < cap g /\ Stale g n v
  | _ => True
  end.

Record LDirty (g : cgst) (t : nat) (l : clst) : Prop := {
  D0 : crash_ok_prog (prog l) = true /\ dirty l = true /\ fuse l = None /\
       ((pc l = Idle /\ next_rec (prog l)) \/ rec_true (pc l) = true);
  D1 : rchange l <= change g /\ ustart l <= clock g;
  D2 : forall i, rgen l i <= gens g i;
  D3 : forall i gm, In (i, gm) (pend l) -> i < cap g /\ gm <= gens g i;
  D6 : forall n e, cells g n = owner_of t e -> e <= epoch l;
  D7 : PcInvD g (me t l) l;
  D8 : forall i, odd (rgen l i) = true -> In (rgen l i, rdata l i) (published g i);
  D9 : forall i gm c e, In (i, gm, c, e) (oplog g) -> c <= rchange l -> gm <= rgen l i;
  D10 : forall i gm c e, In (i, gm, c, e) (oplog g) -> e < ustart l -> c <= rchange l;
  D11 : ulast l = false -> forall i, uprev l i = rgen l i
}.

Definition LInvC (g : cgst) (t : nat) (l : clst) : Prop := LInv g t l \/ LDirty g t l.

Record GInv (g : cgst) : Prop := {
  GA : forall i a b, In (a, b) (published g i) -> odd a = true /\ a <= gens g i;
  GB : forall i, odd (gens g i) = true -> In (gens g i, datas g i) (published g i);
  GC : forall i a b b', In (a, b) (published g i) -> In (a, b') (published g i) -> b = b';
  GD : forall i gm c e, In (i, gm, c, e) (oplog g) -> i < cap g /\ gm <= gens g i /\ c <= change g /\ e < clock g;
  GE : forall i, settled g i = true -> cells g i <> EMPTY
}.

Definition Inv (c : cfg cgst clst) : Prop := GInv (fst c) /\ forall t, LInvC (fst c) t (snd c t).

Definition owned_by (t : nat) (v : N) : Prop := exists e, v = owner_of t e.

(* what a step of thread t guarantees to everybody else *)
Record Guar (t : nat) (g g' : cgst) : Prop := {
  Gcap : cap g' = cap g;
  Gmono : change g <= change g' /\ clock g <= clock g';
  Ggen : forall i, gens g i <= gens g' i;
  Gpub : forall i x, In x (published g i) -> In x (published g' i);
  Glog : forall x, In x (oplog g) -> In x (oplog g');
  Gnew : forall i gm c e, In (i, gm, c, e) (oplog g') -> ~ In (i, gm, c, e) (oplog g) -> change g < c /\ clock g <= e;
  Gcell : forall i, cells g' i = cells g i \/ (cells g i = EMPTY /\ owned_by t (cells g' i)) \/ (owned_by t (cells g i) /\ cells g' i = EMPTY);
  Gslot : forall i, (gens g' i = gens g i /\ datas g' i = datas g i /\ settled g' i = settled g i) \/
                    owned_by t (cells g i) \/ owned_by t (cells g' i) \/
                    (settled g i = false /\ settled g' i = false /\ datas g' i = datas g i /\ odd (gens g i) = true /\ gens g' i = gens g i + 1);
  Gsettle : forall i, settled g i = false -> settled g' i = true -> odd (gens g' i) = false;
  Gdata : forall i, datas g' i <> datas g i -> odd (gens g i) = false /\ gens g' i = gens g i
}.

Lemma owned_other t t' v : owned_by t v -> owned_by t' v -> t = t'.
Proof. intros [e ->] [e' H]. apply owner_of_inj in H. tauto. Qed.

Section Stable.
  Variables (t t' : nat) (g g' : cgst) (l : clst).
  Hypothesis Hne : t <> t'.
  Hypothesis HG : Guar t' g g'.

  Lemma not_theirs v : v = me t l -> ~ owned_by t' v.
  Proof. intros -> H. apply Hne. eapply owned_other; eauto. exists (epoch l). reflexivity. Qed.

  Lemma mine_kept i : cells g i = me t l ->
    cells g' i = me t l /\
    (settled g i = true -> settled g' i = true /\ gens g' i = gens g i /\ datas g' i = datas g i) /\
    (settled g i = false -> settled g' i = false /\ datas g' i = datas g i /\
       (gens g' i = gens g i \/ (odd (gens g i) = true /\ gens g' i = gens g i + 1))).
  Proof.
    intros Hc.
    assert (Hc' : cells g' i = me t l).
    { destruct (Gcell _ _ _ HG i) as [E|[[E _]|[E _]]].
      - congruence.
      - rewrite Hc in E. exfalso. eapply owner_not_empty; eauto.
      - exfalso. exact (not_theirs _ Hc E). }
    split; [exact Hc'|].
    destruct (Gslot _ _ _ HG i) as [(E1 & E2 & E3)|[E|[E|(E1 & E2 & E3 & E4 & E5)]]].
    - split; intros Hs; rewrite E1, E2, E3; auto.
    - exfalso. exact (not_theirs _ Hc E).
    - exfalso. exact (not_theirs _ Hc' E).
    - split; intros Hs; [congruence|]. split; [auto|]. split; [auto|]. right. auto.
  Qed.

  Lemma mine_back i : cells g' i = me t l -> cells g i = me t l.
  Proof.
    intros Hc. destruct (Gcell _ _ _ HG i) as [E|[[_ E]|[_ E]]].
    - congruence.
    - exfalso. exact (not_theirs _ Hc E).
    - rewrite Hc in E. exfalso. eapply owner_not_empty; eauto.
  Qed.

  Lemma stale_stable i gn : Stale g i gn -> Stale g' i gn.
  Proof.
    intros (H1 & H2 & H3). pose proof (Ggen _ _ _ HG i) as Hm.
    split; [exact H1|]. split; [lia|]. intros Hs.
    destruct (settled g i) eqn:E.
    - specialize (H3 eq_refl). lia.
    - apply odd_lt_even; auto; [|lia]. eapply Gsettle; eauto.
  Qed.

  Lemma uns_stable n : Uns g (me t l) n ->
    Uns g' (me t l) n /\ datas g' n = datas g n /\ (gens g' n = gens g n \/ (odd (gens g n) = true /\ gens g' n = gens g n + 1)).
  Proof.
    intros [Hc Hs]. destruct (mine_kept n Hc) as (K1 & _ & K3). destruct (K3 Hs) as (A & B & C).
    repeat split; auto.
  Qed.
  Lemma sete_stable n : SetE g (me t l) n -> SetE g' (me t l) n /\ datas g' n = datas g n.
  Proof.
    intros (Hc & Hs & Ho). destruct (mine_kept n Hc) as (K1 & K2 & _). destruct (K2 Hs) as (A & B & C).
    unfold SetE. rewrite B. auto.
  Qed.

  Lemma tuple_dec (x y : N * N * N * N) : {x = y} + {x <> y}.
  Proof. repeat decide equality. Qed.

  Lemma linv_stable : LInv g t l -> LInv g' t l.
  Proof.
    intros H. destruct H as [H0 H1 H2 H3 H4 H5 H6 H7 H8 H9 H10 H11].
    pose proof (Gcap _ _ _ HG) as Ecap. pose proof (Gmono _ _ _ HG) as [Hch Hck].
    assert (Hheld : forall n, cells g n = me t l -> add_slot (pc l) <> Some n ->
              cells g' n = me t l /\ gens g' n = gens g n /\ settled g' n = true /\ datas g' n = datas g n).
    { intros n Hc Ha. destruct (H5 n Hc Ha) as [Hs Ho]. destruct (mine_kept n Hc) as (K1 & K2 & _).
      destruct (K2 Hs) as (? & ? & ?). auto. }
    constructor.
    - exact H0.
    - lia.
    - intros i. pose proof (H2 i). pose proof (Ggen _ _ _ HG i). lia.
    - intros i gm Hin. destruct (H3 i gm Hin). pose proof (Ggen _ _ _ HG i). rewrite Ecap. split; lia.
    - intros Hr j i Hj. destruct (H4 Hr j i Hj) as (A & B & C & D). rewrite Ecap. repeat split; auto.
      apply mine_kept; auto.
    - intros n Hc Ha. pose proof (mine_back n Hc) as Hc0. destruct (Hheld n Hc0 Ha) as (_ & E1 & E2 & _).
      destruct (H5 n Hc0 Ha). rewrite E1. auto.
    - intros n e Hc. destruct (Gcell _ _ _ HG n) as [E|[[_ E]|[_ E]]].
      + apply (H6 n). congruence.
      + exfalso. apply Hne. eapply owned_other; eauto. exists e. auto.
      + rewrite Hc in E. exfalso. eapply owner_not_empty; eauto.
    - (* PcInv *)
      unfold PcInv in *. rewrite Ecap.
      destruct (pc l) as [ |v|v cur n|v cur|k|c k|v n|v n|v n x|v n|v n|v n|v n|n|n|i|i gn|i gn|i gn| |p|n acc p|n o acc p|n acc p|n cur acc p|n cur acc p|n cur d acc p|n v acc p|n v acc p|n v acc p|acc|acc lk| |i|i cur|i cur|i cur];
        try exact I; try exact H7;
        try (destruct k as [v n|i gn|n acc p]; try exact I);
        repeat match goal with H : _ /\ _ |- _ => destruct H end;
        repeat match goal with
        | H : Uns g _ _ |- _ => apply uns_stable in H; destruct H as (? & ? & ?)
        | H : SetE g _ _ |- _ => apply sete_stable in H; destruct H as (? & ?)
        | H : Stale g _ _ |- _ => apply stale_stable in H
        | H : cells g ?n = me t l |- _ =>
          let K := fresh "K" in pose proof (Hheld n H ltac:(cbn; discriminate)) as K; clear H; destruct K as (? & ? & ? & ?)
        end;
        try (intuition (auto; congruence); fail).
      + (* AddCasGen *)
        repeat (split; [assumption|]).
        match goal with H : gens g' n = gens g n \/ _ |- _ => destruct H as [E|[E1 E2]] end; [rewrite E; auto|].
        right. match goal with H : gens g n = x \/ _ |- _ => destruct H as [E|E] end; [lia|].
        rewrite E, odd_succ in E1. match goal with H : odd x = true |- _ => rewrite H in E1 end. discriminate.
      + (* RecPDist0 *) split; auto. intros E. match goal with H : _ -> cells g n = _ |- _ => specialize (H E) end.
        apply mine_kept; auto.
      + (* UpdDist1 *) split; auto. pose proof (Ggen _ _ _ HG i). lia.
      + split; auto. pose proof (Ggen _ _ _ HG i). lia.
      + (* UpdValidate *) pose proof (Ggen _ _ _ HG i) as Hm. split; auto. split; [lia|].
        intros Ho Eg. assert (Eg0 : gens g i = cur) by lia.
        destruct (N.eq_dec (datas g' i) (datas g i)) as [Ed|Ed].
        * rewrite Ed. auto.
        * destruct (Gdata _ _ _ HG i Ed) as [Hev _]. rewrite Eg0 in Hev. congruence.
    - intros i Hr Ho. eapply Gpub; eauto.
    - intros i gm c e Hin Hc Hs. destruct (in_dec tuple_dec (i, gm, c, e) (oplog g)) as [Hold|Hnew].
      + eapply H9; eauto.
      + destruct (Gnew _ _ _ HG _ _ _ _ Hin Hnew). lia.
    - intros i gm c e Hin He. destruct (in_dec tuple_dec (i, gm, c, e) (oplog g)) as [Hold|Hnew].
      + eapply H10; eauto.
      + destruct (Gnew _ _ _ HG _ _ _ _ Hin Hnew). lia.
    - exact H11.
  Qed.
  Lemma ldirty_stable : LDirty g t l -> LDirty g' t l.
  Proof.
    intros H. destruct H as [H0 H1 H2 H3 H6 H7 H8 H9 H10 H11].
    pose proof (Gcap _ _ _ HG) as Ecap. pose proof (Gmono _ _ _ HG) as [Hch Hck].
    constructor.
    - exact H0.
    - lia.
    - intros i. pose proof (H2 i). pose proof (Ggen _ _ _ HG i). lia.
    - intros i gm Hin. destruct (H3 i gm Hin). pose proof (Ggen _ _ _ HG i). rewrite Ecap. split; lia.
    - intros n e Hc. destruct (Gcell _ _ _ HG n) as [E|[[_ E]|[_ E]]].
      + apply (H6 n). congruence.
      + exfalso. apply Hne. eapply owned_other; eauto. exists e. auto.
      + rewrite Hc in E. exfalso. eapply owner_not_empty; eauto.
    - unfold PcInvD in *. rewrite Ecap.
      destruct (pc l) as [ |v|v cur n|v cur|k|c k|v n|v n|v n x|v n|v n|v n|v n|n|n|i|i gn|i gn|i gn| |p|n acc p|n o acc p|n acc p|n cur acc p|n cur acc p|n cur d acc p|n v acc p|n v acc p|n v acc p|acc|acc lk| |i|i cur|i cur|i cur];
        try exact I; try exact H7;
        repeat match goal with H : _ /\ _ |- _ => destruct H end;
        try (split; [assumption|]); try (apply mine_kept; assumption); try (apply stale_stable; assumption).
      + (* RecPDist0 *) intros E. apply mine_kept; auto.
      + (* RecCasCell *)
        match goal with Hc : cells g n = me t l |- _ => destruct (mine_kept n Hc) as (K1 & K2 & K3) end.
        split; [exact K1|].
        destruct (settled g n) eqn:Es.
        * destruct (K2 eq_refl) as (_ & -> & _). assumption.
        * destruct (K3 eq_refl) as (_ & _ & [->|[Ho ->]]); [assumption|].
          match goal with Hd : gens g n = v \/ _ |- _ => destruct Hd as [E|[Hv E]] end.
          -- right. rewrite E in Ho. split; [exact Ho|]. lia.
          -- exfalso. rewrite E, odd_succ, Hv in Ho. discriminate.
    - intros i Ho. eapply Gpub; eauto.
    - intros i gm c e Hin Hc. destruct (in_dec tuple_dec (i, gm, c, e) (oplog g)) as [Hold|Hnew].
      + eapply H9; eauto.
      + destruct (Gnew _ _ _ HG _ _ _ _ Hin Hnew). lia.
    - intros i gm c e Hin He. destruct (in_dec tuple_dec (i, gm, c, e) (oplog g)) as [Hold|Hnew].
      + eapply H10; eauto.
      + destruct (Gnew _ _ _ HG _ _ _ _ Hin Hnew). lia.
    - exact H11.
  Qed.

  Lemma linvc_stable : LInvC g t l -> LInvC g' t l.
  Proof. intros [H|H]; [left; apply linv_stable|right; apply ldirty_stable]; exact H. Qed.
End Stable.
