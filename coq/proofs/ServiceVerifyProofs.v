(* C06, settings part: characterisation of verify_service_configuration (model/Service.v Part A). *)
From V Require Import model.Base model.Service.
From Coq Require Import ZifyBool ZifyNat ZifyN.
Open Scope N_scope.

(* the rule one table row stands for *)
Definition field_rule (k : fkind) (existing : N) (required : option N) : Prop :=
  match required with
  | None => True
  | Some r => match k with KGe => r <= existing | KEq => existing = r end
  end.

Lemma check_field_rule k x r : check_field k x r = true <-> field_rule k x r.
Proof.
  unfold check_field, field_rule. destruct r as [r|]; [|tauto].
  destruct k.
  - rewrite Bool.negb_true_iff, N.ltb_ge. tauto.
  - apply N.eqb_eq.
Qed.

(* all rows hold, row by row *)
Fixpoint fields_ok (tbl : list (fkind * err)) (ex : list N) (rq : list (option N)) : Prop :=
  match tbl, ex, rq with
  | (k, _) :: tbl', x :: ex', r :: rq' => field_rule k x r /\ fields_ok tbl' ex' rq'
  | _, _, _ => True
  end.

Lemma verify_fields_none tbl : forall ex rq, verify_fields tbl ex rq = None <-> fields_ok tbl ex rq.
Proof.
  induction tbl as [|[k e] tbl IH]; intros ex rq; cbn [verify_fields fields_ok]; [tauto|].
  destruct ex as [|x ex]; [tauto|]. destruct rq as [|r rq]; [tauto|].
  destruct (check_field k x r) eqn:E.
  - rewrite IH. apply check_field_rule in E. tauto.
  - split; [discriminate|]. intros [H _]. apply check_field_rule in H. congruence.
Qed.

(* the error is the one of the FIRST failing row: every earlier row holds, this one does not *)
Lemma verify_fields_first tbl : forall ex rq e,
  verify_fields tbl ex rq = Some e ->
  exists i k x r,
    nth_error tbl i = Some (k, e) /\ nth_error ex i = Some x /\ nth_error rq i = Some r /\
    ~ field_rule k x r /\
    fields_ok (firstn i tbl) ex rq.
Proof.
  induction tbl as [|[k e0] tbl IH]; intros ex rq e; cbn [verify_fields]; [discriminate|].
  destruct ex as [|x ex]; [discriminate|]. destruct rq as [|r rq]; [discriminate|].
  destruct (check_field k x r) eqn:E.
  - intros H. destruct (IH _ _ _ H) as (i & k' & x' & r' & A & B & C & D & F).
    exists (S i), k', x', r'. cbn [nth_error firstn fields_ok]. repeat split; auto.
    apply check_field_rule; auto.
  - intros H. inversion H; subst e0. exists O, k, x, r. cbn [nth_error firstn fields_ok]. repeat split; auto.
    intros F. apply check_field_rule in F. congruence.
Qed.

Definition attrs_rule (require : list (N * N)) (keys : list N) (ex : list (N * N)) : Prop :=
  (forall kv, In kv require -> In kv ex) /\ (forall k, In k keys -> exists v, In (k, v) ex).

Lemma attrs_ok_rule require keys ex : attrs_ok require keys ex = true <-> attrs_rule require keys ex.
Proof.
  unfold attrs_ok, attrs_rule. rewrite Bool.andb_true_iff, !forallb_forall. split.
  - intros [A B]. split.
    + intros [k v] Hin. specialize (A _ Hin). apply existsb_exists in A. destruct A as ([k' v'] & Hin' & E).
      cbn [fst snd] in E. apply Bool.andb_true_iff in E. destruct E as [E1 E2].
      apply N.eqb_eq in E1. apply N.eqb_eq in E2. subst. exact Hin'.
    + intros k Hin. specialize (B _ Hin). apply existsb_exists in B. destruct B as ([k' v'] & Hin' & E).
      cbn [fst] in E. apply N.eqb_eq in E. subst. exists v'. exact Hin'.
  - intros [A B]. split.
    + intros [k v] Hin. apply existsb_exists. exists (k, v). split; [apply A; auto|]. cbn [fst snd]. now rewrite !N.eqb_refl.
    + intros k Hin. destruct (B _ Hin) as [v Hv]. apply existsb_exists. exists (k, v). split; auto. cbn [fst]. apply N.eqb_refl.
Qed.

(* verify = Ok <-> the attribute rule and every row of the pattern's table *)
Theorem verify_char c r k :
  verify c r k = None <->
  attrs_rule (r_require r) (r_keys r) (c_attrs c) /\
  fields_ok (field_table (r_pat r)) (c_vals c)
            (req_vals (does_adjust (r_pat r) (r_sized r) k) (adjust_mask (r_pat r)) (r_vals r)).
Proof.
  unfold verify. destruct (attrs_ok (r_require r) (r_keys r) (c_attrs c)) eqn:E; cbn [negb].
  - rewrite verify_fields_none. apply attrs_ok_rule in E. tauto.
  - split; [discriminate|]. intros [A _]. apply attrs_ok_rule in A. congruence.
Qed.

(* verify = Err e: e is IncompatibleAttributes and the attribute rule fails, or the attribute rule holds and e is
   the documented error of the first failing row *)
Theorem verify_error c r k e :
  verify c r k = Some e ->
  (e = IncompatibleAttributes /\ ~ attrs_rule (r_require r) (r_keys r) (c_attrs c)) \/
  (attrs_rule (r_require r) (r_keys r) (c_attrs c) /\
   exists i fk x rv,
     nth_error (field_table (r_pat r)) i = Some (fk, e) /\ nth_error (c_vals c) i = Some x /\
     nth_error (req_vals (does_adjust (r_pat r) (r_sized r) k) (adjust_mask (r_pat r)) (r_vals r)) i = Some rv /\
     ~ field_rule fk x rv /\
     fields_ok (firstn i (field_table (r_pat r))) (c_vals c)
               (req_vals (does_adjust (r_pat r) (r_sized r) k) (adjust_mask (r_pat r)) (r_vals r))).
Proof.
  unfold verify. destruct (attrs_ok (r_require r) (r_keys r) (c_attrs c)) eqn:E; cbn [negb].
  - intros H. right. split; [apply attrs_ok_rule; auto|]. apply verify_fields_first; auto.
  - intros H. inversion H. left. split; auto. intros A. apply attrs_ok_rule in A. congruence.
Qed.


(* the settings a create / open_or_create writes never contain a zero container capacity: DynamicConfig::init
   cannot hit its fatal_panic (every capacity field is an adjusted field) *)
Fixpoint mask_le (c m : list bool) : Prop :=
  match c, m with
  | [], _ => True
  | cb :: c', mb :: m' => (cb = true -> mb = true) /\ mask_le c' m'
  | _ :: _, [] => False
  end.

Lemma any_zero_eff cap : forall mask defs rq, mask_le cap mask -> any_zero cap (eff_vals true mask defs rq) = false.
Proof.
  induction cap as [|cb cap IH]; intros mask defs rq H; [reflexivity|].
  destruct mask as [|mb mask]; [contradiction|]. destruct H as [H1 H2].
  destruct defs as [|d defs]; [reflexivity|]. destruct rq as [|r rq]; [reflexivity|].
  cbn [eff_vals any_zero]. rewrite (IH _ _ _ H2), Bool.orb_false_r.
  destruct cb; [|reflexivity]. rewrite (H1 eq_refl). cbn [andb].
  destruct r as [x|]; [destruct (x =? 0) eqn:E|destruct (d =? 0) eqn:E]; auto.
Qed.

Theorem created_settings_never_panic defs r k : k <> KOpen -> init_panics (mk_cfg defs r k) = false.
Proof.
  intros Hk. unfold init_panics, mk_cfg; cbn [c_pat c_vals].
  assert (does_adjust (r_pat r) (r_sized r) k = true) as -> by (destruct k; auto; congruence).
  apply any_zero_eff. destruct (r_pat r); cbn; intuition congruence.
Qed.
