(* C04 -- proofs about model/Lifecycle.v: the guard discipline ("tag first, entry last") implies that a
   crash behind ANY prefix of an operation's step list followed by the dead-node cleanup leaves nothing
   that was solely the dead node's, and keeps everything else; cleanup is idempotent and restartable. *)
From V Require Import model.Base model.Lifecycle.
From Coq Require Import Lia.

(* ---------------------------------------------------------------- basics *)
Lemma res_eqb_spec a b : reflect (a = b) (res_eqb a b).
Proof.
  destruct a, b; cbn; try (constructor; congruence);
  repeat match goal with |- context [Nat.eqb ?x ?y] => destruct (Nat.eqb_spec x y); cbn end;
  constructor; congruence.
Qed.

Lemma res_eqb_refl a : res_eqb a a = true.
Proof. destruct (res_eqb_spec a a); congruence. Qed.

Lemma res_eqb_sym a b : res_eqb a b = res_eqb b a.
Proof. destruct (res_eqb_spec a b), (res_eqb_spec b a); congruence. Qed.

Lemma mem_In r w : mem r w = true <-> In r w.
Proof.
  unfold mem. rewrite existsb_exists. split.
  - intros [x [Hx He]]. destruct (res_eqb_spec r x) as [->|]; [exact Hx|discriminate].
  - intros H. exists r. split; [exact H|apply res_eqb_refl].
Qed.

Lemma mem_false r w : mem r w = false <-> ~ In r w.
Proof. rewrite <- mem_In. destruct (mem r w); split; intros H; congruence. Qed.

Lemma mem_cons r x w : mem r (x :: w) = res_eqb r x || mem r w.
Proof. reflexivity. Qed.

Lemma In_del x r w : In x (del r w) <-> In x w /\ x <> r.
Proof.
  unfold del. rewrite filter_In. split; intros [H1 H2]; split; try exact H1.
  - intros ->. rewrite res_eqb_refl in H2. discriminate.
  - destruct (res_eqb_spec r x) as [E|E]; [exfalso; apply H2; symmetry; exact E|reflexivity].
Qed.

Lemma mem_del a r w : mem a (del r w) = mem a w && negb (res_eqb r a).
Proof.
  apply eq_true_iff_eq. rewrite andb_true_iff, negb_true_iff, !mem_In, In_del.
  split; intros [H1 H2]; split; try exact H1.
  - destruct (res_eqb_spec r a) as [E|E]; [exfalso; apply H2; symmetry; exact E|reflexivity].
  - intros ->. rewrite res_eqb_refl in H2. discriminate.
Qed.

Lemma mem_mono r w w' : (forall x, In x w -> In x w') -> mem r w = true -> mem r w' = true.
Proof. intros H. rewrite !mem_In. auto. Qed.

Lemma forallb_In {A} (f : A -> bool) l : forallb f l = true <-> forall x, In x l -> f x = true.
Proof. apply forallb_forall. Qed.

(* only_user depends on the RegN entries only *)
Lemma only_user_spec n w s :
  only_user n w s = true <-> forall m, In (RegN s m) w -> m = n.
Proof.
  unfold only_user. rewrite forallb_forall. split.
  - intros H m Hm. specialize (H _ Hm). cbn in H. rewrite Nat.eqb_refl in H. cbn in H. now apply Nat.eqb_eq.
  - intros H x Hx. destruct x; auto. destruct (Nat.eqb_spec s0 s); auto. subst. cbn.
    apply Nat.eqb_eq. auto.
Qed.

Lemma port_known_spec n w p :
  port_known n w p = true <-> In (PTag n p) w \/ exists s, In (RegP s n p) w /\ In (STag n s) w.
Proof.
  unfold port_known. rewrite orb_true_iff, mem_In, existsb_exists. split.
  - intros [H|[x [Hx H]]]; auto. right. destruct x; try discriminate.
    apply andb_true_iff in H. destruct H as [H H3]. apply andb_true_iff in H. destruct H as [H1 H2].
    apply Nat.eqb_eq in H1, H2. subst. exists s. split; auto. now apply mem_In.
  - intros [H|[s [H1 H2]]]; auto. right. exists (RegP s n p). split; auto.
    rewrite !Nat.eqb_refl. cbn. now apply mem_In.
Qed.

(* ---------------------------------------------------------------- cleanup removes only what is solely n's *)
Lemma removed_solely n w r : removed n w r = true -> solely n w r = true.
Proof.
  destruct r; cbn; intros H; auto;
  repeat match goal with H : _ && _ = true |- _ => apply andb_true_iff in H; destruct H end; auto;
  try (apply andb_true_iff; split; auto).
  all: match goal with H : mem _ _ = true |- _ => rewrite H; reflexivity end.
Qed.

Theorem cleanup_frame n w r : In r w -> solely n w r = false -> In r (cleanup n w).
Proof.
  intros Hin Hs. unfold cleanup. destruct (mem (Tok n) w); auto.
  apply filter_In. split; auto. destruct (removed n w r) eqn:E; auto.
  apply removed_solely in E. congruence.
Qed.

Lemma cleanup_subset n w r : In r (cleanup n w) -> In r w.
Proof. unfold cleanup. destruct (mem (Tok n) w); auto. intros H. apply filter_In in H. tauto. Qed.

(* ---------------------------------------------------------------- the invariant makes cleanup complete *)
Lemma guard_needs_token n w r : solely n w r = true -> guard_ok n w r = true -> r <> Tok n -> mem (Tok n) w = true.
Proof.
  destruct r; cbn; intros Hs Hg Hne;
  repeat match goal with H : _ && _ = true |- _ => apply andb_true_iff in H; destruct H end;
  repeat match goal with H : Nat.eqb _ _ = true |- _ => apply Nat.eqb_eq in H; subst end; auto; try congruence.
Qed.

Lemma guarded_removed n w r : solely n w r = true -> guard_ok n w r = true -> removed n w r = true.
Proof.
  destruct r; cbn; intros Hs Hg; auto;
  repeat match goal with H : _ && _ = true |- _ => apply andb_true_iff in H; destruct H end;
  repeat match goal with H : Nat.eqb _ _ = true |- _ => apply Nat.eqb_eq in H; subst end;
  rewrite ?Nat.eqb_refl; cbn; auto;
  repeat (apply andb_true_iff; split); auto.
Qed.

Theorem cleanup_complete n w r : inv n w = true -> In r (cleanup n w) -> solely n w r = false.
Proof.
  intros Hinv Hin. destruct (solely n w r) eqn:Hs; auto. exfalso.
  pose proof (cleanup_subset _ _ _ Hin) as Hw.
  unfold inv in Hinv. rewrite forallb_forall in Hinv. specialize (Hinv _ Hw).
  rewrite Hs in Hinv. cbn in Hinv.
  unfold cleanup in Hin. destruct (mem (Tok n) w) eqn:T.
  - apply filter_In in Hin. destruct Hin as [_ Hr]. rewrite (guarded_removed _ _ _ Hs Hinv) in Hr. discriminate.
  - destruct (res_eqb_spec r (Tok n)) as [->|Hne].
    + apply mem_In in Hw. congruence.
    + rewrite (guard_needs_token _ _ _ Hs Hinv Hne) in T. discriminate.
Qed.

(* ---------------------------------------------------------------- every prefix *)
Lemma disc_inv n w sts : disc n w sts = true -> inv n w = true.
Proof. destruct sts; cbn; intros H; apply andb_true_iff in H; tauto. Qed.

Theorem disc_prefix n sts : forall w k, disc n w sts = true -> inv n (crash k sts w) = true.
Proof.
  induction sts as [|st sts IH]; intros w k H.
  - unfold crash. rewrite firstn_nil. cbn. now apply disc_inv in H.
  - destruct k as [|k].
    + unfold crash. cbn. now apply disc_inv in H.
    + unfold crash. cbn [firstn apply fold_left]. cbn in H. apply andb_true_iff in H. destruct H as [_ H].
      apply (IH _ k H).
Qed.

Lemma disc_app n a b w : disc n w (a ++ b) = true <-> disc n w a = true /\ disc n (apply a w) b = true.
Proof.
  revert w. induction a as [|st a IH]; intros w; cbn [app disc apply fold_left].
  - split.
    + intros H. split; auto. rewrite (disc_inv _ _ _ H). reflexivity.
    + tauto.
  - rewrite !andb_true_iff, IH. unfold apply. tauto.
Qed.

(* ---------------------------------------------------------------- idempotence *)
Theorem cleanup_idempotent n w : cleanup n (cleanup n w) = cleanup n w.
Proof.
  destruct (mem (Tok n) (cleanup n w)) eqn:T2.
  - exfalso. apply mem_In in T2. unfold cleanup in T2. destruct (mem (Tok n) w) eqn:T.
    + apply filter_In in T2. destruct T2 as [_ T2]. cbn in T2. rewrite Nat.eqb_refl in T2. discriminate.
    + apply mem_In in T2. congruence.
  - unfold cleanup at 1. rewrite T2. reflexivity.
Qed.

(* ---------------------------------------------------------------- how steps act on the invariant *)
Lemma inv_spec n w : inv n w = true <-> forall x, In x w -> solely n w x = true -> guard_ok n w x = true.
Proof.
  unfold inv. rewrite forallb_forall. split; intros H x Hx.
  - intros Hs. specialize (H _ Hx). rewrite Hs in H. exact H.
  - destruct (solely n w x) eqn:Hs; cbn; auto.
Qed.

Lemma port_known_mono n w w' p : (forall x, In x w -> In x w') -> port_known n w p = true -> port_known n w' p = true.
Proof.
  intros H. rewrite !port_known_spec. intros [H1|[s [H1 H2]]]; [left; auto|right; exists s; auto].
Qed.

Lemma guard_ok_mono n w w' r : (forall x, In x w -> In x w') -> guard_ok n w r = true -> guard_ok n w' r = true.
Proof.
  intros H. destruct r; cbn; auto; rewrite ?andb_true_iff, ?orb_true_iff;
  intuition eauto using mem_mono, port_known_mono.
Qed.

(* solely looks at the world only through the RegN entries and n's service tags *)
Lemma solely_ext n w w' x :
  (forall s m, In (RegN s m) w <-> In (RegN s m) w') -> (forall s, In (STag n s) w <-> In (STag n s) w') ->
  solely n w x = solely n w' x.
Proof.
  intros HR HS.
  assert (OU : forall s, only_user n w s = only_user n w' s).
  { intros s. apply eq_true_iff_eq. rewrite !only_user_spec. split; intros H m Hm; apply H; apply HR; exact Hm. }
  assert (MS : forall s, mem (STag n s) w = mem (STag n s) w').
  { intros s. apply eq_true_iff_eq. rewrite !mem_In. apply HS. }
  assert (MR : forall s, mem (RegN s n) w = mem (RegN s n) w').
  { intros s. apply eq_true_iff_eq. rewrite !mem_In. apply HR. }
  destruct x; cbn; auto; rewrite OU, MS, MR; reflexivity.
Qed.

Definition plain (r : res) : bool := match r with RegN _ _ | STag _ _ => false | _ => true end.
(* never somebody's guard *)
Definition leaf (r : res) : bool :=
  match r with Data _ _ | Conn _ _ _ _ | Det _ | Stat _ | Dyn _ | SRes _ => true | _ => false end.

Lemma solely_cons_plain n w r x : plain r = true -> solely n (r :: w) x = solely n w x.
Proof.
  intros P. apply solely_ext; intros; cbn; (split; [intros [E|E]; [subst; discriminate|exact E]|auto]).
Qed.

Lemma solely_del_plain n w r x : plain r = true -> solely n (del r w) x = solely n w x.
Proof.
  intros P. apply solely_ext; intros; rewrite In_del; (split; [tauto|]); intros H; (split; [exact H|]); intros E; subst r; discriminate.
Qed.

Lemma inv_cons_plain n w r :
  plain r = true -> inv n w = true -> (solely n w r = true -> guard_ok n (r :: w) r = true) -> inv n (r :: w) = true.
Proof.
  intros P Hi Hr. apply inv_spec. intros x [->|Hx] Hs; rewrite solely_cons_plain in Hs by exact P.
  - auto.
  - apply guard_ok_mono with (w := w); [intros; right; auto|]. rewrite inv_spec in Hi. auto.
Qed.

Lemma apply1_Mk_cases r w : apply1 (Mk r) w = w \/ (apply1 (Mk r) w = r :: w /\ mem r w = false).
Proof. cbn. destruct (mem r w); auto. Qed.

(* creating plain resources whose guard is already there keeps the discipline *)
Lemma disc_Mk_plain n rs : forall w,
  inv n w = true ->
  (forall r, In r rs -> plain r = true /\ (solely n w r = true -> guard_ok n w r = true)) ->
  disc n w (map Mk rs) = true.
Proof.
  induction rs as [|r rs IH]; intros w Hi H; cbn [map disc].
  - now rewrite Hi.
  - rewrite Hi. cbn [andb]. destruct (H r (or_introl eq_refl)) as [P G].
    destruct (apply1_Mk_cases r w) as [E|[E _]]; rewrite E.
    + apply IH; auto. intros r' Hr'. apply H. now right.
    + apply IH.
      * apply inv_cons_plain; auto. intros Hs. apply guard_ok_mono with (w := w); [intros; right; auto|auto].
      * intros r' Hr'. destruct (H r' (or_intror Hr')) as [P' G']. split; auto.
        rewrite solely_cons_plain by exact P. intros Hs. apply guard_ok_mono with (w := w); [intros; right; auto|auto].
Qed.

Lemma mem_del_other a r w : res_eqb r a = false -> mem a (del r w) = mem a w.
Proof. intros H. rewrite mem_del, H. apply andb_true_r. Qed.

Lemma port_known_del_leaf n w r p : leaf r = true -> port_known n (del r w) p = port_known n w p.
Proof.
  intros L. apply eq_true_iff_eq. rewrite !port_known_spec. setoid_rewrite In_del.
  split.
  - intros [[H _]|[s [[H1 _] [H2 _]]]]; [left; auto|right; exists s; auto].
  - intros [H|[s [H1 H2]]]; [left; split; auto; intros E; subst r; discriminate|].
    right. exists s. split; (split; auto; intros E; subst r; discriminate).
Qed.

Lemma guard_ok_del_leaf n w r x : leaf r = true -> guard_ok n (del r w) x = guard_ok n w x.
Proof.
  intros L. destruct x; cbn; auto; rewrite ?port_known_del_leaf by exact L;
  rewrite ?mem_del_other; auto; destruct r; try discriminate; reflexivity.
Qed.

Lemma leaf_plain r : leaf r = true -> plain r = true.
Proof. destruct r; cbn; auto. Qed.

Lemma inv_del_leaf n w r : leaf r = true -> inv n w = true -> inv n (del r w) = true.
Proof.
  intros L Hi. apply inv_spec. intros x Hx Hs. apply In_del in Hx. destruct Hx as [Hx _].
  rewrite solely_del_plain in Hs by (apply leaf_plain; exact L). rewrite guard_ok_del_leaf by exact L.
  rewrite inv_spec in Hi. auto.
Qed.

Lemma disc_Rm_leaf n rs : forall w,
  inv n w = true -> (forall r, In r rs -> leaf r = true) -> disc n w (map Rm rs) = true.
Proof.
  induction rs as [|r rs IH]; intros w Hi H; cbn [map disc]; rewrite Hi; auto.
  cbn [andb apply1]. apply IH.
  - apply inv_del_leaf; [apply H; left; reflexivity|exact Hi].
  - intros r' Hr'. apply H. right. exact Hr'.
Qed.

(* ---------------------------------------------------------------- single non-leaf steps *)
Lemma In_apply1_Mk_old r w x : In x w -> In x (apply1 (Mk r) w).
Proof. cbn. destruct (mem r w); cbn; auto. Qed.

Lemma In_apply1_Mk_new r w : In r (apply1 (Mk r) w).
Proof. cbn. destruct (mem r w) eqn:E; cbn; auto. now apply mem_In. Qed.

Lemma In_apply_Mk_old rs : forall w x, In x w -> In x (apply (map Mk rs) w).
Proof.
  induction rs as [|r rs IH]; intros w x H; cbn; auto. apply IH. now apply In_apply1_Mk_old.
Qed.

(* port tag / token / data segment ... : plain creation of ONE resource *)
Lemma disc_Mk1_plain n w r :
  inv n w = true -> plain r = true -> (solely n w r = true -> guard_ok n w r = true) -> disc n w [Mk r] = true.
Proof.
  intros Hi P G. apply (disc_Mk_plain n [r]); auto. intros r' [<-|[]]. auto.
Qed.

Lemma disc_final_inv n sts : forall w, disc n w sts = true -> inv n (apply sts w) = true.
Proof.
  intros w H. pose proof (disc_prefix n sts w (length sts) H) as P. unfold crash in P. now rewrite firstn_all in P.
Qed.

(* the service tag of n itself *)
Lemma inv_cons_STag n w s : inv n w = true -> mem (Tok n) w = true -> inv n (STag n s :: w) = true.
Proof.
  intros Hi T. apply inv_spec. intros x [<-|Hx] Hs.
  - cbn [guard_ok]. rewrite mem_cons, T. apply orb_true_r.
  - rewrite inv_spec in Hi. specialize (Hi x Hx).
    assert (G : guard_ok n w x = true -> guard_ok n (STag n s :: w) x = true)
      by (apply guard_ok_mono; intros; right; auto).
    assert (OU : forall s', only_user n (STag n s :: w) s' = only_user n w s') by reflexivity.
    destruct x; cbn [solely] in Hs; try (apply G, Hi; exact Hs).
    all: cbn [guard_ok]; rewrite OU in Hs; rewrite !mem_cons in Hs; rewrite !mem_cons, T, orb_true_r, andb_true_r;
      destruct (res_eqb (STag n s0) (STag n s)) eqn:E; [reflexivity|];
      cbn [orb] in *; cbn [solely guard_ok] in Hi;
      replace (res_eqb (RegN s0 n) (STag n s)) with false in Hs by reflexivity; cbn [orb] in Hs;
      specialize (Hi Hs); apply andb_true_iff in Hi; tauto.
Qed.

Lemma only_user_cons_own n w s s' : only_user n (RegN s n :: w) s' = only_user n w s'.
Proof. cbn. rewrite Nat.eqb_refl, orb_true_r. reflexivity. Qed.

(* n's own registry node entry, created while its service tag exists *)
Lemma inv_cons_RegN n w s :
  inv n w = true -> mem (STag n s) w = true -> mem (Tok n) w = true -> inv n (RegN s n :: w) = true.
Proof.
  intros Hi TS T. apply inv_spec. intros x [<-|Hx] Hs.
  - cbn [guard_ok]. rewrite !mem_cons, TS, T, !orb_true_r. reflexivity.
  - rewrite inv_spec in Hi. specialize (Hi x Hx).
    assert (G : guard_ok n w x = true -> guard_ok n (RegN s n :: w) x = true)
      by (apply guard_ok_mono; intros; right; auto).
    destruct x; cbn [solely] in Hs; try (apply G, Hi; exact Hs).
    all: cbn [guard_ok]; rewrite only_user_cons_own in Hs; rewrite !mem_cons in Hs; rewrite !mem_cons, T, orb_true_r, andb_true_r;
      replace (res_eqb (STag n s0) (RegN s n)) with false in * by reflexivity; cbn [orb] in *;
      destruct (Nat.eqb_spec s0 s) as [->|Hne]; [exact TS|];
      cbn [solely guard_ok] in Hi;
      assert (E : res_eqb (RegN s0 n) (RegN s n) = false)
        by (cbn; destruct (Nat.eqb_spec s0 s); [congruence|reflexivity]);
      rewrite E in Hs; cbn [orb] in Hs; specialize (Hi Hs); apply andb_true_iff in Hi; tauto.
Qed.

(* removing a port's registry entry while its tag is still there *)
Lemma port_known_del_RegP n w s m p q :
  mem (PTag m p) w = true -> port_known n w q = true -> port_known n (del (RegP s m p) w) q = true.
Proof.
  intros TP. rewrite !port_known_spec. setoid_rewrite In_del.
  intros [H|[s' [H1 H2]]].
  - left. split; auto. discriminate.
  - destruct (res_eqb_spec (RegP s' n q) (RegP s m p)) as [E|E].
    + inversion E; subst. left. split; [now apply mem_In|discriminate].
    + right. exists s'. split; split; auto. discriminate.
Qed.

Lemma inv_del_RegP n w s m p : inv n w = true -> mem (PTag m p) w = true -> inv n (del (RegP s m p) w) = true.
Proof.
  intros Hi TP. apply inv_spec. intros x Hx Hs. apply In_del in Hx. destruct Hx as [Hx _].
  rewrite solely_del_plain in Hs by reflexivity. rewrite inv_spec in Hi. specialize (Hi x Hx Hs).
  destruct x; cbn [guard_ok] in Hi |- *; rewrite ?mem_del_other by reflexivity; auto.
  - apply andb_true_iff in Hi. destruct Hi as [H1 H2]. rewrite H2, andb_true_r. now apply port_known_del_RegP.
  - apply andb_true_iff in Hi. destruct Hi as [H1 H2]. rewrite H2, andb_true_r.
    apply orb_true_iff in H1. apply orb_true_iff. destruct H1 as [H1|H1]; [left|right]; now apply port_known_del_RegP.
Qed.

(* x needs the port tag of (m, p) to be found *)
Definition uses_port (m : node) (p : port) (x : res) : bool :=
  match x with
  | Data m' p' => Nat.eqb m' m && Nat.eqb p' p
  | Conn a b _ d => Nat.eqb a m && (Nat.eqb b p || Nat.eqb d p)
  | _ => false
  end.

Lemma port_known_del_PTag_other n w m p q :
  (Nat.eqb n m && Nat.eqb q p) = false -> port_known n (del (PTag m p) w) q = port_known n w q.
Proof.
  intros Hne. apply eq_true_iff_eq. rewrite !port_known_spec. setoid_rewrite In_del.
  split.
  - intros [[H _]|[s [[H1 _] [H2 _]]]]; [left; auto|right; exists s; auto].
  - intros [H|[s [H1 H2]]].
    + left. split; auto. intros E. inversion E; subst. rewrite !Nat.eqb_refl in Hne. discriminate.
    + right. exists s. split; split; auto; discriminate.
Qed.

Lemma inv_del_PTag n w m p :
  inv n w = true -> (forall x, In x w -> uses_port m p x = true -> solely n w x = false) ->
  inv n (del (PTag m p) w) = true.
Proof.
  intros Hi HU. apply inv_spec. intros x Hx Hs. apply In_del in Hx. destruct Hx as [Hx _].
  rewrite solely_del_plain in Hs by reflexivity. rewrite inv_spec in Hi. pose proof (Hi x Hx Hs) as G.
  specialize (HU x Hx).
  destruct x; cbn [guard_ok] in G |- *; rewrite ?mem_del_other by reflexivity; auto.
  - cbn [uses_port] in HU. destruct (Nat.eqb n0 m && Nat.eqb p0 p) eqn:E.
    + rewrite HU in Hs by reflexivity. discriminate.
    + rewrite port_known_del_PTag_other by exact E. exact G.
  - cbn [uses_port] in HU. destruct (Nat.eqb n1 m && (Nat.eqb p1 p || Nat.eqb p2 p)) eqn:E.
    + rewrite HU in Hs by reflexivity. discriminate.
    + assert (E1 : (Nat.eqb n1 m && Nat.eqb p1 p) = false) by (destruct (Nat.eqb n1 m), (Nat.eqb p1 p); cbn in *; congruence).
      assert (E2 : (Nat.eqb n1 m && Nat.eqb p2 p) = false) by (destruct (Nat.eqb n1 m), (Nat.eqb p1 p), (Nat.eqb p2 p); cbn in *; congruence).
      rewrite !port_known_del_PTag_other by assumption. exact G.
Qed.

(* the token goes last: nothing else of n is left *)
Lemma inv_del_Tok n w m :
  (forall x, In x w -> x <> Tok m -> solely n w x = false \/ m <> n /\ guard_ok n (del (Tok m) w) x = true) ->
  inv n (del (Tok m) w) = true.
Proof.
  intros H. apply inv_spec. intros x Hx Hs. apply In_del in Hx. destruct Hx as [Hx Hne].
  rewrite solely_del_plain in Hs by reflexivity. destruct (H x Hx Hne) as [E|[_ E]]; congruence.
Qed.

(* ---------------------------------------------------------------- lists of removals *)
Lemma In_apply_Rm L : forall w x, In x (apply (map Rm L) w) <-> In x w /\ ~ In x L.
Proof.
  induction L as [|r L IH]; intros w x; cbn [map apply fold_left].
  - cbn. tauto.
  - change (fold_left (fun w st => apply1 st w) (map Rm L) (apply1 (Rm r) w)) with (apply (map Rm L) (del r w)).
    rewrite IH, In_del. cbn. split; [intros [[H1 H2] H3]|intros [H1 H2]]; repeat split; auto; intuition congruence.
Qed.

Lemma solely_apply_Rm_plain n L w x :
  (forall r, In r L -> plain r = true) -> solely n (apply (map Rm L) w) x = solely n w x.
Proof.
  intros P. apply solely_ext; intros; rewrite In_apply_Rm; (split; [tauto|]); intros H; (split; [exact H|]);
  intros HL; apply P in HL; discriminate.
Qed.

(* ---------------------------------------------------------------- the operations keep the discipline *)
Definition conn_of (n : node) (p : port) (c : res) : bool :=
  match c with
  | Conn a b c' d => (Nat.eqb a n && Nat.eqb b p) || (Nat.eqb c' n && Nat.eqb d p)
  | _ => false
  end.

Lemma disc_single n w st : inv n w = true -> inv n (apply1 st w) = true -> disc n w [st] = true.
Proof. intros H1 H2. cbn. now rewrite H1, H2. Qed.

Theorem port_create_disc k n s p conns w :
  inv n w = true -> mem (Tok n) w = true -> mem (STag n s) w = true ->
  (forall c, In c conns -> conn_of n p c = true) ->
  disc n w (port_create k n s p conns) = true.
Proof.
  unfold port_create. intros Hi T TS HC.
  assert (D1 : disc n w [Mk (PTag n p)] = true) by (apply disc_Mk1_plain; auto).
  apply disc_app. split; [exact D1|].
  set (w1 := apply [Mk (PTag n p)] w).
  assert (I1 : inv n w1 = true) by (apply disc_final_inv; exact D1).
  assert (Sub : forall x, In x w -> In x w1) by (intros x Hx; apply (In_apply_Mk_old [PTag n p]); exact Hx).
  assert (P1 : In (PTag n p) w1) by (apply In_apply1_Mk_new).
  assert (T1 : mem (Tok n) w1 = true) by (apply mem_In, Sub, mem_In, T).
  assert (TS1 : mem (STag n s) w1 = true) by (apply mem_In, Sub, mem_In, TS).
  assert (K : port_known n w1 p = true) by (apply port_known_spec; left; exact P1).
  replace ((if has_data k then [Mk (Data n p)] else []) ++ map Mk conns ++ [Mk (RegP s n p)])
    with (map Mk ((if has_data k then [Data n p] else []) ++ conns ++ [RegP s n p]))
    by (rewrite !map_app; destruct (has_data k); reflexivity).
  apply disc_Mk_plain; [exact I1|]. intros r Hr.
  apply in_app_or in Hr. destruct Hr as [Hr|Hr]; [|apply in_app_or in Hr; destruct Hr as [Hr|Hr]].
  - destruct (has_data k); [|destruct Hr]. destruct Hr as [<-|[]]. split; [reflexivity|].
    intros _. cbn [guard_ok]. now rewrite K, T1.
  - specialize (HC r Hr). destruct r; try discriminate. split; [reflexivity|].
    cbn [solely guard_ok]. intros Hs. apply andb_true_iff in Hs. destruct Hs as [E1 E2].
    apply Nat.eqb_eq in E1, E2. subst. rewrite T1, andb_true_r. cbn [conn_of] in HC.
    rewrite Nat.eqb_refl in HC. cbn [andb] in HC. apply orb_true_iff in HC. apply orb_true_iff.
    destruct HC as [E|E]; apply Nat.eqb_eq in E; subst; [left|right]; exact K.
  - destruct Hr as [<-|[]]. split; [reflexivity|]. intros _. cbn [guard_ok]. now rewrite TS1, T1.
Qed.

Theorem port_drop_disc k n s p conns w :
  inv n w = true -> mem (PTag n p) w = true ->
  (forall c, In c conns -> leaf c = true) ->
  (forall x, In x w -> uses_port n p x = true -> solely n w x = true ->
             (x = Data n p /\ has_data k = true) \/ In x conns) ->
  disc n w (port_drop k n s p conns) = true.
Proof.
  unfold port_drop. intros Hi TP HL HU.
  assert (D1 : disc n w [Rm (RegP s n p)] = true) by (apply disc_single; [exact Hi|apply inv_del_RegP; auto]).
  apply disc_app. split; [exact D1|].
  set (w1 := apply [Rm (RegP s n p)] w).
  assert (I1 : inv n w1 = true) by (apply disc_final_inv; exact D1).
  set (L := (if has_data k then [Data n p] else []) ++ conns).
  replace ((if has_data k then [Rm (Data n p)] else []) ++ map Rm conns ++ [Rm (PTag n p)])
    with (map Rm L ++ [Rm (PTag n p)])
    by (unfold L; rewrite map_app, <- app_assoc; destruct (has_data k); reflexivity).
  assert (LL : forall r, In r L -> leaf r = true).
  { intros r Hr. unfold L in Hr. apply in_app_or in Hr. destruct Hr as [Hr|Hr]; [|auto].
    destruct (has_data k); [|destruct Hr]. destruct Hr as [<-|[]]. reflexivity. }
  assert (D2 : disc n w1 (map Rm L) = true) by (apply disc_Rm_leaf; auto).
  apply disc_app. split; [exact D2|].
  set (w2 := apply (map Rm L) w1).
  assert (I2 : inv n w2 = true) by (apply disc_final_inv; exact D2).
  apply disc_single; [exact I2|]. cbn [apply1]. apply inv_del_PTag; [exact I2|].
  intros x Hx Ux. destruct (solely n w2 x) eqn:Hs; [exfalso|reflexivity].
  unfold w2 in Hx, Hs. apply In_apply_Rm in Hx. destruct Hx as [Hx1 HxL].
  rewrite solely_apply_Rm_plain in Hs by (intros r Hr; apply leaf_plain, LL, Hr).
  assert (Hxw : In x w) by (unfold w1 in Hx1; cbn in Hx1; apply In_del in Hx1; tauto).
  unfold w1 in Hs. cbn [apply fold_left apply1] in Hs. rewrite solely_del_plain in Hs by reflexivity.
  apply HxL. unfold L. apply in_or_app. destruct (HU x Hxw Ux Hs) as [[-> Hd]|Hc]; [left|right; exact Hc].
  rewrite Hd. left. reflexivity.
Qed.

Lemma apply1_Mk_facts r w :
  (forall x, In x w -> In x (apply1 (Mk r) w)) /\ mem r (apply1 (Mk r) w) = true.
Proof. split; [intros; now apply In_apply1_Mk_old|apply mem_In, In_apply1_Mk_new]. Qed.

Lemma inv_apply1_Mk_STag n w s : inv n w = true -> mem (Tok n) w = true -> inv n (apply1 (Mk (STag n s)) w) = true.
Proof. intros Hi T. cbn. destruct (mem (STag n s) w); auto. now apply inv_cons_STag. Qed.

Lemma inv_apply1_Mk_RegN n w s :
  inv n w = true -> mem (STag n s) w = true -> mem (Tok n) w = true -> inv n (apply1 (Mk (RegN s n)) w) = true.
Proof. intros Hi TS T. cbn. destruct (mem (RegN s n) w); auto. now apply inv_cons_RegN. Qed.

Theorem svc_open_disc n s w :
  inv n w = true -> mem (Tok n) w = true -> disc n w (svc_open n s) = true.
Proof.
  intros Hi T. unfold svc_open. cbn [disc]. rewrite Hi. cbn [andb].
  pose proof (inv_apply1_Mk_STag n w s Hi T) as I1. rewrite I1. cbn [andb].
  destruct (apply1_Mk_facts (STag n s) w) as [Sub M].
  rewrite inv_apply1_Mk_RegN; auto. apply mem_In, Sub, mem_In, T.
Qed.

Theorem svc_create_disc n s extra w :
  inv n w = true -> mem (Tok n) w = true -> disc n w (svc_create n s extra) = true.
Proof.
  intros Hi T. unfold svc_create.
  replace ([Mk (STag n s); Mk (Stat s)] ++ (if extra then [Mk (SRes s)] else []) ++ [Mk (Dyn s); Mk (RegN s n)])
    with ([Mk (STag n s)] ++ map Mk ([Stat s] ++ (if extra then [SRes s] else []) ++ [Dyn s]) ++ [Mk (RegN s n)])
    by (destruct extra; reflexivity).
  pose proof (inv_apply1_Mk_STag n w s Hi T) as I1.
  destruct (apply1_Mk_facts (STag n s) w) as [Sub M].
  apply disc_app. split; [apply disc_single; auto|].
  change (apply [Mk (STag n s)] w) with (apply1 (Mk (STag n s)) w).
  set (w1 := apply1 (Mk (STag n s)) w) in *.
  assert (T1 : mem (Tok n) w1 = true) by (apply mem_In, Sub, mem_In, T).
  set (L := [Stat s] ++ (if extra then [SRes s] else []) ++ [Dyn s]).
  assert (D2 : disc n w1 (map Mk L) = true).
  { apply disc_Mk_plain; [exact I1|]. intros r Hr.
    assert (E : r = Stat s \/ r = SRes s \/ r = Dyn s).
    { unfold L in Hr. destruct extra; cbn in Hr; intuition. }
    destruct E as [->|[->| ->]]; (split; [reflexivity|]); intros _; cbn [guard_ok]; now rewrite M, T1. }
  apply disc_app. split; [exact D2|].
  set (w2 := apply (map Mk L) w1).
  assert (I2 : inv n w2 = true) by (apply disc_final_inv; exact D2).
  apply disc_single; [exact I2|]. apply inv_apply1_Mk_RegN; [exact I2| |].
  - apply mem_In. apply In_apply_Mk_old. apply mem_In. exact M.
  - apply mem_In. apply In_apply_Mk_old. apply mem_In. exact T1.
Qed.

Theorem node_create_fixed_disc n w : inv n w = true -> disc n w (node_create_fixed n) = true.
Proof.
  intros Hi. unfold node_create_fixed.
  assert (D1 : disc n w [Mk (Tok n)] = true) by (apply disc_Mk1_plain; auto).
  change [Mk (Tok n); Mk (Det n)] with ([Mk (Tok n)] ++ [Mk (Det n)]).
  apply disc_app. split; [exact D1|]. apply disc_Mk1_plain; [apply disc_final_inv; exact D1|reflexivity|].
  intros _. cbn [guard_ok]. apply mem_In. apply In_apply1_Mk_new.
Qed.

Theorem node_drop_disc n w :
  inv n w = true -> (forall x, In x w -> solely n w x = true -> x = Det n \/ x = Tok n) ->
  disc n w (node_drop n) = true.
Proof.
  intros Hi H. unfold node_drop. cbn [disc apply1]. rewrite Hi. cbn [andb].
  rewrite inv_del_leaf by auto. cbn [andb]. rewrite inv_del_Tok; [reflexivity|].
  intros x Hx Hne. left. apply In_del in Hx. destruct Hx as [Hx HD].
  rewrite solely_del_plain by reflexivity. destruct (solely n w x) eqn:Hs; auto.
  destruct (H x Hx Hs); congruence.
Qed.

(* ---------------------------------------------------------------- where the transcribed order breaks it *)
Lemma node_create_breaks : inv 1 [] = true /\ disc 1 [] (node_create 1) = false.
Proof. split; vm_compute; reflexivity. Qed.

Definition w_open : world := [RegN 1 0; Dyn 1; Stat 1; STag 0 1; Det 1; Tok 1; Det 0; Tok 0].
Lemma svc_open_swapped_breaks : inv 1 w_open = true /\ mem (Tok 1) w_open = true /\ disc 1 w_open (svc_open_swapped 1 1) = false.
Proof. repeat split; vm_compute; reflexivity. Qed.

Definition w_svc_last : world := [RegN 1 1; Dyn 1; Stat 1; STag 1 1; Det 1; Tok 1].
Lemma svc_drop_breaks : inv 1 w_svc_last = true /\ disc 1 w_svc_last (svc_drop 1 1 false true) = false.
Proof. split; vm_compute; reflexivity. Qed.

(* ---------------------------------------------------------------- a second crash, during cleanup *)
Lemma apply_Rm_filter D : forall w, apply (map Rm D) w = filter (fun x => negb (mem x D)) w.
Proof.
  induction D as [|r D IH]; intros w; cbn [map apply fold_left].
  - cbn. induction w; cbn; congruence.
  - change (fold_left (fun w st => apply1 st w) (map Rm D) (apply1 (Rm r) w)) with (apply (map Rm D) (del r w)).
    rewrite IH. unfold del. induction w as [|a w IHw]; cbn [filter]; auto.
    rewrite mem_cons. rewrite (res_eqb_sym a r).
    destruct (res_eqb r a); cbn [negb orb]; auto. cbn [filter]. destruct (mem a D); cbn [negb]; congruence.
Qed.

Lemma filter_filter {A} (f g : A -> bool) l : filter f (filter g l) = filter (fun x => g x && f x) l.
Proof. induction l as [|a l IH]; cbn; auto. destruct (g a); cbn; [destruct (f a)|]; congruence. Qed.

Lemma filter_ext_In {A} (f g : A -> bool) l : (forall x, In x l -> f x = g x) -> filter f l = filter g l.
Proof.
  induction l as [|a l IH]; intros H; cbn; auto. rewrite (H a (or_introl eq_refl)), IH; auto.
  intros x Hx. apply H. now right.
Qed.

(* what is still to be removed stays removable as long as everything of higher rank is still there *)
Lemma removed_stable n w w' x :
  (forall y, In y w' -> In y w) ->
  (forall g, In g w -> rank x < rank g -> In g w') ->
  removed n w x = true -> removed n w' x = true.
Proof.
  intros Sub Hi R.
  assert (M : forall g, rank x < rank g -> mem g w = true -> mem g w' = true)
    by (intros g Hg Hm; apply mem_In, Hi; [now apply mem_In|exact Hg]).
  assert (OU : forall s, only_user n w s = true -> only_user n w' s = true)
    by (intros s; rewrite !only_user_spec; intros H m Hm; apply H, Sub, Hm).
  assert (PK : forall p, (forall g, In g w -> 0 < rank g -> In g w') -> port_known n w p = true -> port_known n w' p = true).
  { intros p Hi0. rewrite !port_known_spec. intros [H|[s [H1 H2]]].
    - left. apply Hi0; [exact H|cbn; lia].
    - right. exists s. split; apply Hi0; auto; cbn; lia. }
  destruct x; cbn [removed] in R |- *; auto;
  repeat match goal with H : _ && _ = true |- _ => apply andb_true_iff in H; destruct H end;
  repeat (apply andb_true_iff; split); auto;
  try (apply M; [cbn; lia|assumption]);
  try (apply PK; auto; fail);
  try (match goal with H : _ || _ = true |- _ => apply orb_true_iff in H; destruct H as [H|H] end;
       apply orb_true_iff; [left|right]; apply PK; auto).
Qed.

(* nothing becomes removable that was not *)
Lemma removed_antitone n w w' x :
  (forall y, In y w' -> In y w) ->
  (forall s m, In (RegN s m) w -> m <> n -> In (RegN s m) w') ->
  removed n w' x = true -> removed n w x = true.
Proof.
  intros Sub Keep R.
  assert (M : forall g, mem g w' = true -> mem g w = true) by (intros g; apply mem_mono; exact Sub).
  assert (OU : forall s, only_user n w' s = true -> only_user n w s = true).
  { intros s. rewrite !only_user_spec. intros H m Hm. destruct (Nat.eq_dec m n) as [E|E]; [exact E|]. apply H. apply Keep; [exact Hm|exact E]. }
  assert (PK : forall p, port_known n w' p = true -> port_known n w p = true)
    by (intros p; apply port_known_mono; exact Sub).
  destruct x; cbn [removed] in R |- *; auto;
  repeat match goal with H : _ && _ = true |- _ => apply andb_true_iff in H; destruct H end;
  repeat (apply andb_true_iff; split); auto;
  try (match goal with H : _ || _ = true |- _ => apply orb_true_iff in H; destruct H as [H|H] end;
       apply orb_true_iff; [left|right]; auto).
Qed.

Lemma rank_lt_10 r : rank r < 10.
Proof. destruct r; cbn; lia. Qed.

Lemma rank_9 n w r : rank r = 9 -> removed n w r = true -> r = Tok n.
Proof. destruct r; cbn; try discriminate. intros _ H. apply Nat.eqb_eq in H. now subst. Qed.

(* D: what a crashed cleaner has already removed -- any set of removable resources closed under "lower rank first" *)
Theorem double_crash_closed n w D :
  mem (Tok n) w = true ->
  (forall x, In x D -> In x w /\ removed n w x = true) ->
  (forall x y, In x D -> In y w -> removed n w y = true -> rank y < rank x -> In y D) ->
  cleanup n (apply (map Rm D) w) = cleanup n w.
Proof.
  intros T F1 F2. rewrite apply_Rm_filter. set (w' := filter (fun x => negb (mem x D)) w).
  assert (Sub : forall y, In y w' -> In y w) by (intros y Hy; apply filter_In in Hy; tauto).
  assert (InW' : forall y, In y w' <-> In y w /\ ~ In y D).
  { intros y. unfold w'. rewrite filter_In, negb_true_iff, mem_false. tauto. }
  unfold cleanup at 2. rewrite T.
  destruct (mem (Tok n) D) eqn:TD.
  - (* the token is already gone: everything removable is gone, the second cleanup finds no dead node *)
    apply mem_In in TD.
    assert (T' : mem (Tok n) w' = false) by (apply mem_false; rewrite InW'; tauto).
    unfold cleanup. rewrite T'. unfold w'. apply filter_ext_In. intros x Hx. f_equal.
    destruct (removed n w x) eqn:R.
    + apply mem_In. destruct (Nat.eq_dec (rank x) 9) as [E|E].
      * now rewrite (rank_9 _ _ _ E R).
      * apply (F2 (Tok n) x TD Hx R). pose proof (rank_lt_10 x). cbn. lia.
    + apply mem_false. intros HD. apply F1 in HD. destruct HD. congruence.
  - apply mem_false in TD.
    assert (T' : mem (Tok n) w' = true) by (apply mem_In, InW'; split; [now apply mem_In|exact TD]).
    unfold cleanup. rewrite T'. unfold w' at 2. rewrite filter_filter. apply filter_ext_In. intros x Hx.
    destruct (removed n w x) eqn:R.
    + destruct (mem x D) eqn:XD; cbn [negb andb]; auto.
      apply mem_false in XD. rewrite (removed_stable n w w' x Sub); auto.
      intros g Hg Hr. apply InW'. split; auto. intros GD.
      apply XD. apply (F2 g x GD Hx R Hr).
    + assert (XD : mem x D = false) by (apply mem_false; intros HD; apply F1 in HD; destruct HD; congruence).
      rewrite XD. cbn [negb andb]. f_equal.
      destruct (removed n w' x) eqn:R'; auto.
      rewrite (removed_antitone n w w' x Sub) in R; auto.
      intros s m Hm Hne. apply InW'. split; auto. intros HD. apply F1 in HD. destruct HD as [_ HD].
      cbn in HD. apply andb_true_iff in HD. destruct HD as [HD _]. apply Nat.eqb_eq in HD. congruence.
Qed.

Definition ranked (l : list res) (lo len : nat) : list res := flat_map (fun k => of_rank k l) (seq lo len).

Lemma In_of_rank k l x : In x (of_rank k l) <-> In x l /\ rank x = k.
Proof. unfold of_rank. rewrite filter_In, Nat.eqb_eq. tauto. Qed.

Lemma In_ranked l : forall len lo x, In x (ranked l lo len) <-> In x l /\ lo <= rank x < lo + len.
Proof.
  induction len as [|len IH]; intros lo x; unfold ranked; cbn [seq flat_map].
  - cbn. split; [tauto|intros [_ H]; lia].
  - rewrite in_app_iff, In_of_rank. fold (ranked l (S lo) len). rewrite IH. split.
    + intros [[H1 H2]|[H1 H2]]; split; auto; lia.
    + intros [H1 H2]. destruct (Nat.eq_dec (rank x) lo); [left|right]; split; auto; lia.
Qed.

Lemma In_firstn_In {A} k (l : list A) x : In x (firstn k l) -> In x l.
Proof.
  revert k. induction l as [|a l IH]; intros k; destruct k as [|k]; cbn; try tauto.
  intros [H|H]; [left; exact H|right; apply (IH k); exact H].
Qed.

Lemma prefix_closed l : forall len lo k x y,
  In x (firstn k (ranked l lo len)) -> In y (ranked l lo len) -> rank y < rank x -> In y (firstn k (ranked l lo len)).
Proof.
  induction len as [|len IH]; intros lo k x y Hx Hy Hr.
  - unfold ranked in Hx. cbn in Hx. rewrite firstn_nil in Hx. destruct Hx.
  - unfold ranked in *. cbn [seq flat_map] in *. fold (ranked l (S lo) len) in *.
    rewrite firstn_app in *. apply in_app_iff in Hx. apply in_app_iff in Hy. apply in_app_iff.
    destruct Hx as [Hx|Hx].
    + exfalso. apply In_firstn_In in Hx. apply In_of_rank in Hx. destruct Hx as [_ Ex].
      destruct Hy as [Hy|Hy]; [apply In_of_rank in Hy|apply In_ranked in Hy]; lia.
    + assert (K : length (of_rank lo l) < k).
      { destruct (Nat.lt_ge_cases (length (of_rank lo l)) k) as [H|H]; auto.
        replace (k - length (of_rank lo l)) with 0 in Hx by lia. destruct Hx. }
      destruct Hy as [Hy|Hy].
      * left. rewrite firstn_all2 by lia. exact Hy.
      * right. apply (IH (S lo) _ x y); auto.
Qed.

Lemma cleanup_steps_eq n w :
  mem (Tok n) w = true -> cleanup_steps n w = map Rm (ranked (filter (removed n w) w) 0 10).
Proof. intros T. unfold cleanup_steps. rewrite T. reflexivity. Qed.

(* a cleaner that crashes behind ANY prefix of its own step list, followed by a complete second cleanup,
   gives exactly the result of one undisturbed cleanup *)
Theorem double_crash n w k : cleanup n (crash k (cleanup_steps n w) w) = cleanup n w.
Proof.
  destruct (mem (Tok n) w) eqn:T.
  - rewrite cleanup_steps_eq by exact T. unfold crash. rewrite firstn_map.
    set (L := filter (removed n w) w).
    apply double_crash_closed; auto.
    + intros x Hx. apply In_firstn_In in Hx. apply In_ranked in Hx. destruct Hx as [Hx _].
      unfold L in Hx. apply filter_In in Hx. exact Hx.
    + intros x y Hx Hy Ry Hr. apply (prefix_closed L 10 0 k x y); auto.
      apply In_ranked. split; [unfold L; apply filter_In; auto|]. pose proof (rank_lt_10 y). lia.
  - unfold cleanup_steps. rewrite T. unfold crash. rewrite firstn_nil. reflexivity.
Qed.

Lemma apply_cleanup_steps n w : apply (cleanup_steps n w) w = cleanup n w.
Proof.
  pose proof (double_crash n w (length (cleanup_steps n w))) as H.
  unfold crash in H. rewrite firstn_all in H.
  destruct (mem (Tok n) w) eqn:T.
  - rewrite cleanup_steps_eq by exact T. rewrite apply_Rm_filter. unfold cleanup. rewrite T.
    apply filter_ext_In. intros x Hx. f_equal.
    apply eq_true_iff_eq. rewrite mem_In, In_ranked, filter_In. pose proof (rank_lt_10 x). split; [tauto|].
    intros R. repeat split; auto; lia.
  - unfold cleanup_steps, cleanup. rewrite T. reflexivity.
Qed.
