(* Invariant of the wait-set model and its refinement of the reference specification. *)
From V Require Import model.Base model.WaitSet.
From Coq Require Import ZifyBool ZifyNat ZifyN.
Open Scope N_scope.

(* ---------- lists ---------- *)
Lemma lenN_app {A} (a b : list A) : lenN (a ++ b) = lenN a + lenN b.
Proof. unfold lenN. rewrite app_length. lia. Qed.

Lemma lenN_map {A B} (f : A -> B) l : lenN (map f l) = lenN l.
Proof. unfold lenN. now rewrite map_length. Qed.

Lemma memN_In x l : memN x l = true <-> In x l.
Proof.
  unfold memN. rewrite existsb_exists. split.
  - intros [y [Hy E]]. apply N.eqb_eq in E. now subst.
  - intros H. exists x. split; auto. apply N.eqb_refl.
Qed.

Lemma memN_false x l : memN x l = false <-> ~ In x l.
Proof. rewrite <- memN_In. destruct (memN x l); split; intros; try discriminate; auto. now exfalso. Qed.

Lemma removeN_notin x l : ~ In x l -> removeN x l = l.
Proof.
  unfold removeN. induction l as [|a l IH]; cbn; intros H; auto.
  destruct (N.eqb_spec a x) as [E|E]; cbn.
  - exfalso. apply H. now left.
  - f_equal. apply IH. intro; apply H; now right.
Qed.

Lemma removeN_app x a b : removeN x (a ++ b) = removeN x a ++ removeN x b.
Proof. unfold removeN. apply filter_app. Qed.

Lemma removeN_single x : removeN x [x] = [].
Proof. unfold removeN; cbn. now rewrite N.eqb_refl. Qed.

Lemma In_removeN y x l : In y (removeN x l) -> In y l.
Proof. unfold removeN. rewrite filter_In. tauto. Qed.

Lemma flat_map_flat_map {A B C} (f : B -> list C) (h : A -> list B) l :
  flat_map f (flat_map h l) = flat_map (fun a => flat_map f (h a)) l.
Proof. induction l as [|a l IH]; cbn; auto. now rewrite flat_map_app, IH. Qed.

Lemma flat_map_map {A B C} (f : B -> list C) (h : A -> B) l :
  flat_map f (map h l) = flat_map (fun a => f (h a)) l.
Proof. induction l as [|a l IH]; cbn; auto. now rewrite IH. Qed.

Lemma map_flat_map {A B C} (f : B -> C) (h : A -> list B) l :
  map f (flat_map h l) = flat_map (fun a => map f (h a)) l.
Proof. induction l as [|a l IH]; cbn; auto. now rewrite map_app, IH. Qed.

Lemma filter_flat_map {A B} (P : B -> bool) (h : A -> list B) l :
  filter P (flat_map h l) = flat_map (fun a => filter P (h a)) l.
Proof. induction l as [|a l IH]; cbn; auto. now rewrite filter_app, IH. Qed.

Lemma flat_map_nil_all {A B} (P : A -> list B) l : (forall y, In y l -> P y = []) -> flat_map P l = [].
Proof.
  induction l as [|a l IH]; cbn; intros H; auto.
  rewrite (H a) by now left. cbn. apply IH. intros; apply H; now right.
Qed.

Lemma flat_map_unique {A B} (P : A -> list B) l1 x l2 :
  (forall y, In y (l1 ++ l2) -> P y = []) -> flat_map P (l1 ++ x :: l2) = P x.
Proof.
  intros H. rewrite flat_map_app. cbn.
  rewrite (flat_map_nil_all P l1), (flat_map_nil_all P l2).
  - now rewrite app_nil_r.
  - intros; apply H; apply in_or_app; now right.
  - intros; apply H; apply in_or_app; now left.
Qed.

Lemma nth_error_split' {A} (l : list A) n x :
  nth_error l n = Some x -> exists l1 l2, l = l1 ++ x :: l2 /\ remove_nth n l = l1 ++ l2.
Proof.
  revert n; induction l as [|a l IH]; intros [|n] H; cbn in *; try discriminate.
  - inversion H; subst. now exists [], l.
  - destruct (IH _ H) as [l1 [l2 [E1 E2]]]. exists (a :: l1), l2. cbn. now rewrite E1 at 1; rewrite E2.
Qed.

Lemma remove_nth_map {A B} (f : A -> B) n l : remove_nth n (map f l) = map f (remove_nth n l).
Proof. revert n; induction l as [|a l IH]; intros [|n]; cbn; auto. now rewrite IH. Qed.

Lemma match_nil_len {A B C} (a : list A) (b : list B) (x y : C) :
  length a = length b ->
  match a with [] => x | _ :: _ => y end = match b with [] => x | _ :: _ => y end.
Proof. destruct a, b; cbn; intros; auto; discriminate. Qed.

(* ---------- maps ---------- *)
Lemma m_get_remove k k' m : m_get k (m_remove k' m) = if N.eqb k k' then None else m_get k m.
Proof.
  unfold m_remove. induction m as [|[a v] m IH]; cbn.
  - now destruct (N.eqb k k').
  - destruct (N.eqb_spec a k') as [E|E]; cbn.
    + rewrite IH. destruct (N.eqb_spec k k') as [E2|E2]; auto.
      destruct (N.eqb_spec a k); auto. subst. contradiction.
    + destruct (N.eqb_spec a k) as [E2|E2]; auto.
      subst. destruct (N.eqb_spec k k'); auto. contradiction.
Qed.

Lemma m_get_insert k k' v m : m_get k (m_insert k' v m) = if N.eqb k' k then Some v else m_get k m.
Proof.
  unfold m_insert. cbn. destruct (N.eqb_spec k' k) as [E|E]; auto.
  rewrite m_get_remove. destruct (N.eqb_spec k k'); auto. subst; contradiction.
Qed.

Lemma In_m_remove kv k m : In kv (m_remove k m) -> In kv m.
Proof. unfold m_remove. rewrite filter_In. tauto. Qed.

Lemma m_get_none k m : (forall k' v, In (k', v) m -> k' <> k) -> m_get k m = None.
Proof.
  induction m as [|[a v] m IH]; cbn; intros H; auto.
  destruct (N.eqb_spec a k) as [E|E].
  - exfalso. apply (H a v); auto.
  - apply IH. intros k' v' Hin. apply (H k' v'). now right.
Qed.

(* ---------- keys of the live guards ---------- *)
Definition keys_of (k : guard -> option N) (gl : list guard) : list N :=
  flat_map (fun g => match k g with Some x => [x] | None => [] end) gl.
Definition fdk (g : guard) : option N := fd_of (g_id g).
Definition idx_of (a : aid) : option N :=
  match a with ATick i => Some i | ADeadline _ i => Some i | ANotification _ => None end.
Definition idk (g : guard) : option N := idx_of (g_id g).

Definition fds_of := keys_of fdk.
Definition dq_of (gl : list guard) : list dentry :=
  flat_map (fun g => match idk g with Some i => [{| de_idx := i; de_period := g_period g |}] | None => [] end) gl.

Lemma keys_of_app k a b : keys_of k (a ++ b) = keys_of k a ++ keys_of k b.
Proof. apply flat_map_app. Qed.

Lemma dq_of_app a b : dq_of (a ++ b) = dq_of a ++ dq_of b.
Proof. apply flat_map_app. Qed.

Lemma dq_of_idx gl : map de_idx (dq_of gl) = keys_of idk gl.
Proof.
  unfold dq_of, keys_of. rewrite map_flat_map. apply flat_map_ext. intros g. now destruct (idk g).
Qed.

Lemma keys_of_In k gl x : In x (keys_of k gl) <-> exists g, In g gl /\ k g = Some x.
Proof.
  unfold keys_of. rewrite in_flat_map. split; intros [g [Hg H]]; exists g; split; auto.
  - destruct (k g); cbn in H; [destruct H as [H|[]]; now subst | contradiction].
  - rewrite H. now left.
Qed.

Lemma keys_of_len k gl : lenN (keys_of k gl) <= lenN gl.
Proof.
  unfold lenN. induction gl as [|g gl IH]; cbn; [lia|].
  unfold keys_of in *. rewrite app_length. destruct (k g); cbn; lia.
Qed.

Lemma keys_split_others k l1 g l2 x :
  NoDup (keys_of k (l1 ++ g :: l2)) -> k g = Some x ->
  forall g', In g' (l1 ++ l2) -> k g' <> Some x.
Proof.
  intros ND Hk g' Hin E.
  rewrite keys_of_app in ND.
  change (keys_of k (g :: l2)) with ((match k g with Some x => [x] | None => [] end) ++ keys_of k l2) in ND.
  rewrite Hk in ND. cbn in ND.
  apply NoDup_remove_2 in ND. apply ND.
  apply in_app_or in Hin. apply in_or_app.
  destruct Hin as [Hin|Hin]; [left|right]; apply keys_of_In; now exists g'.
Qed.

Lemma keys_remove_some k l1 g l2 x :
  NoDup (keys_of k (l1 ++ g :: l2)) -> k g = Some x ->
  removeN x (keys_of k (l1 ++ g :: l2)) = keys_of k (l1 ++ l2).
Proof.
  intros ND Hk.
  assert (Ho := keys_split_others k l1 g l2 x ND Hk).
  rewrite !keys_of_app. change (keys_of k (g :: l2)) with ((match k g with Some x => [x] | None => [] end) ++ keys_of k l2).
  rewrite Hk. rewrite !removeN_app, removeN_single. cbn.
  rewrite !removeN_notin; auto.
  - intro H. apply keys_of_In in H. destruct H as [g' [Hg' E]]. apply (Ho g'); auto. apply in_or_app; now right.
  - intro H. apply keys_of_In in H. destruct H as [g' [Hg' E]]. apply (Ho g'); auto. apply in_or_app; now left.
Qed.

Lemma keys_remove_none k l1 g l2 :
  k g = None -> keys_of k (l1 ++ g :: l2) = keys_of k (l1 ++ l2).
Proof.
  intros Hk. rewrite !keys_of_app. change (keys_of k (g :: l2)) with ((match k g with Some x => [x] | None => [] end) ++ keys_of k l2).
  now rewrite Hk.
Qed.

Lemma keys_nodup_remove k l1 g l2 : NoDup (keys_of k (l1 ++ g :: l2)) -> NoDup (keys_of k (l1 ++ l2)).
Proof.
  rewrite !keys_of_app. change (keys_of k (g :: l2)) with ((match k g with Some x => [x] | None => [] end) ++ keys_of k l2).
  destruct (k g); cbn; auto. apply NoDup_remove_1.
Qed.

Lemma dq_remove_first_app i q1 e q2 :
  (forall e', In e' q1 -> de_idx e' <> i) -> de_idx e = i ->
  dq_remove_first i (q1 ++ e :: q2) = q1 ++ q2.
Proof.
  intros H E. induction q1 as [|a q1 IH]; cbn.
  - subst. now rewrite N.eqb_refl.
  - destruct (N.eqb_spec (de_idx a) i) as [E2|E2].
    + exfalso. apply (H a); auto. now left.
    + f_equal. apply IH. intros; apply H; now right.
Qed.

Lemma dq_of_remove_some l1 g l2 i :
  NoDup (keys_of idk (l1 ++ g :: l2)) -> idk g = Some i ->
  dq_remove_first i (dq_of (l1 ++ g :: l2)) = dq_of (l1 ++ l2).
Proof.
  intros ND Hk. assert (Ho := keys_split_others idk l1 g l2 i ND Hk).
  rewrite !dq_of_app.
  change (dq_of (g :: l2)) with ((match idk g with Some i => [{| de_idx := i; de_period := g_period g |}] | None => [] end) ++ dq_of l2).
  rewrite Hk. cbn. apply dq_remove_first_app; auto.
  intros e' He' E.
  assert (In i (keys_of idk l1)) as Hi.
  { rewrite <- dq_of_idx. apply in_map_iff. now exists e'. }
  apply keys_of_In in Hi. destruct Hi as [g' [Hg' E']]. apply (Ho g'); auto. apply in_or_app; now left.
Qed.

Lemma dq_of_remove_none l1 g l2 : idk g = None -> dq_of (l1 ++ g :: l2) = dq_of (l1 ++ l2).
Proof.
  intros Hk. rewrite !dq_of_app.
  change (dq_of (g :: l2)) with ((match idk g with Some i => [{| de_idx := i; de_period := g_period g |}] | None => [] end) ++ dq_of l2).
  now rewrite Hk.
Qed.

(* ---------- closed forms of the three attach functions ---------- *)
Definition W_an_ok (W : ws) (f : N) : ws :=
  set_counter (set_reactor W (reactor W ++ [f])) (counter W + 1).
Definition W_ad_ok (W : ws) (f p : N) : ws :=
  set_maps
    (set_counter
       (set_dq (set_reactor W (reactor W ++ [f]))
               (dq W ++ [{| de_idx := id_count W; de_period := p |}]) (id_count W + 1))
       (counter W + 1))
    (m_insert f (id_count W) (a2d W)) (m_insert (id_count W) f (d2a W)).
Definition W_ai_fail (W : ws) : ws := set_dq W (dq W) (id_count W + 1).
Definition W_ai_ok (W : ws) (p : N) : ws :=
  set_counter (set_dq W (dq W ++ [{| de_idx := id_count W; de_period := p |}]) (id_count W + 1))
              (counter W + 1).

Definition refused_by_reactor (W : ws) (f : N) : bool :=
  memN f (reactor W) || N.leb (rcap W) (lenN (reactor W)).

(* the error a refusing reactor produces, after WaitSet::attach_to_reactor's mapping *)
Definition reactor_refusal (W : ws) (f : N) : aerr :=
  if memN f (reactor W)
  then (match rorder W with
        | CapFirst => if N.leb (rcap W) (lenN (reactor W)) then EInsufficientCapacity else EAlreadyAttached
        | DupFirst => EAlreadyAttached end)
  else EInsufficientCapacity.

Lemma reactor_attach_char W f :
  reactor_attach W f =
  if refused_by_reactor W f
  then inr (if memN f (reactor W)
            then (match rorder W with
                  | CapFirst => if N.leb (rcap W) (lenN (reactor W)) then RCapacityExceeded else RAlreadyAttached
                  | DupFirst => RAlreadyAttached end)
            else RCapacityExceeded)
  else inl (set_reactor W (reactor W ++ [f])).
Proof.
  unfold reactor_attach, refused_by_reactor.
  destruct (rorder W), (memN f (reactor W)), (N.leb (rcap W) (lenN (reactor W))); reflexivity.
Qed.

Lemma removeN_snoc f r : ~ In f r -> removeN f (r ++ [f]) = r.
Proof. intros H. rewrite removeN_app, removeN_single, app_nil_r. now apply removeN_notin. Qed.

Lemma dq_remove_first_snoc i q p :
  (forall e, In e q -> de_idx e <> i) ->
  dq_remove_first i (q ++ [{| de_idx := i; de_period := p |}]) = q.
Proof. intros H. rewrite dq_remove_first_app; auto. apply app_nil_r. Qed.

Lemma attach_notification_char W f :
  attach_notification W f =
  if refused_by_reactor W f then (W, inr (reactor_refusal W f))
  else if N.eqb (counter W) (rcap W) then (W, inr EInsufficientCapacity)
  else (W_an_ok W f, inl (ANotification f)).
Proof.
  unfold attach_notification. rewrite reactor_attach_char.
  destruct (refused_by_reactor W f) eqn:R.
  - unfold reactor_refusal. destruct (memN f (reactor W)), (rorder W), (N.leb (rcap W) (lenN (reactor W))); reflexivity.
  - unfold refused_by_reactor in R. apply orb_false_iff in R. destruct R as [R1 R2].
    apply memN_false in R1.
    unfold ws_attach. cbn [counter rcap set_reactor].
    destruct (N.eqb (counter W) (rcap W)); [|reflexivity].
    f_equal. unfold reactor_detach. cbn [reactor set_reactor]. rewrite removeN_snoc by auto.
    destruct W; reflexivity.
Qed.

Lemma attach_deadline_char W f p :
  (forall e, In e (dq W) -> de_idx e <> id_count W) ->
  attach_deadline W f p =
  if refused_by_reactor W f then (W, inr (reactor_refusal W f))
  else if N.eqb (counter W) (rcap W) then (W_ai_fail W, inr EInsufficientCapacity)
  else (W_ad_ok W f p, inl (ADeadline f (id_count W))).
Proof.
  intros Hfresh. unfold attach_deadline. rewrite reactor_attach_char.
  destruct (refused_by_reactor W f) eqn:R.
  - unfold reactor_refusal. destruct (memN f (reactor W)), (rorder W), (N.leb (rcap W) (lenN (reactor W))); reflexivity.
  - unfold refused_by_reactor in R. apply orb_false_iff in R. destruct R as [R1 R2].
    apply memN_false in R1.
    unfold dq_add, ws_attach. cbn [counter rcap set_reactor set_dq set_maps id_count dq a2d d2a].
    destruct (N.eqb (counter W) (rcap W)); [|reflexivity].
    f_equal. unfold reactor_detach, dq_remove, W_ai_fail.
    cbn [reactor set_reactor set_dq set_maps dq id_count a2d d2a rcap rmaxev rorder counter].
    rewrite removeN_snoc by auto. rewrite dq_remove_first_snoc by auto.
    destruct W; reflexivity.
Qed.

Lemma attach_interval_char W p :
  (forall e, In e (dq W) -> de_idx e <> id_count W) ->
  attach_interval W p =
  if N.eqb (counter W) (rcap W) then (W_ai_fail W, inr EInsufficientCapacity)
  else (W_ai_ok W p, inl (ATick (id_count W))).
Proof.
  intros Hfresh. unfold attach_interval, dq_add, ws_attach.
  cbn [counter rcap set_dq].
  destruct (N.eqb (counter W) (rcap W)); [|reflexivity].
  f_equal. unfold dq_remove, W_ai_fail. cbn [set_dq dq id_count].
  rewrite dq_remove_first_snoc by auto. destruct W; reflexivity.
Qed.

(* ---------- the invariant ---------- *)
Definition d2a_ok (m : amap) (a : aid) : Prop :=
  match a with
  | ADeadline f i => m_get i m = Some f
  | ATick i => m_get i m = None
  | ANotification _ => True
  end.

Record InvW (W : ws) (gl : list guard) (ng : N) : Prop := {
  I_reactor : reactor W = fds_of gl;
  I_dq : dq W = dq_of gl;
  I_counter : counter W = lenN gl;
  I_nd_fd : NoDup (fds_of gl);
  I_nd_idx : NoDup (keys_of idk gl);
  I_idx_lt : forall i, In i (keys_of idk gl) -> i < id_count W;
  I_d2a_lt : forall k v, In (k, v) (d2a W) -> k < id_count W;
  I_d2a_ok : forall g, In g gl -> d2a_ok (d2a W) (g_id g);
  I_nd_no : NoDup (map g_no gl);
  I_no_lt : forall g, In g gl -> g_no g < ng;
  I_cap : lenN gl <= rcap W
}.
Definition Inv (s : sys) : Prop := InvW (w s) (guards s) (nextg s).

Lemma inv_new cap maxev o : Inv (sys_new cap maxev o).
Proof.
  unfold Inv, sys_new; cbn. constructor; cbn; try reflexivity; try constructor; try (intros; contradiction).
  unfold lenN; cbn; lia.
Qed.

Lemma inv_dq_fresh W gl ng : InvW W gl ng -> forall e, In e (dq W) -> de_idx e <> id_count W.
Proof.
  intros I e He. assert (de_idx e < id_count W); [|lia].
  apply (I_idx_lt _ _ _ I). rewrite <- dq_of_idx, <- (I_dq _ _ _ I). now apply in_map.
Qed.

Lemma NoDup_snoc {A} (l : list A) x : NoDup l -> ~ In x l -> NoDup (l ++ [x]).
Proof.
  intros ND H. apply NoDup_rev in ND. rewrite <- (rev_involutive (l ++ [x])). apply NoDup_rev.
  rewrite rev_app_distr. cbn. constructor; auto. now rewrite <- in_rev.
Qed.

Lemma d2a_ok_insert_fresh m a i f :
  (forall j, idx_of a = Some j -> j <> i) -> d2a_ok m a -> d2a_ok (m_insert i f m) a.
Proof.
  intros H. destruct a as [j|g j|g]; unfold d2a_ok; auto; rewrite m_get_insert;
    (destruct (N.eqb_spec i j) as [E|E]; [exfalso; apply (H j); cbn; auto|auto]).
Qed.

Lemma in_idk gl g i : In g gl -> idx_of (g_id g) = Some i -> In i (keys_of idk gl).
Proof. intros. apply keys_of_In. now exists g. Qed.

Definition mkg (n : N) (a : aid) (p : N) : guard := {| g_no := n; g_id := a; g_period := p |}.

(* adding a guard on the success paths *)
Lemma inv_an_ok W gl ng f :
  InvW W gl ng -> refused_by_reactor W f = false -> N.eqb (counter W) (rcap W) = false ->
  InvW (W_an_ok W f) (gl ++ [mkg ng (ANotification f) 0]) (ng + 1).
Proof.
  intros I R C. unfold refused_by_reactor in R. apply orb_false_iff in R. destruct R as [R1 R2].
  apply memN_false in R1. apply N.eqb_neq in C.
  destruct I. unfold W_an_ok.
  constructor; cbn [reactor dq counter id_count d2a rcap set_counter set_reactor].
  - unfold fds_of. rewrite keys_of_app, I_reactor0. reflexivity.
  - rewrite dq_of_app. cbn. now rewrite app_nil_r.
  - rewrite lenN_app. unfold lenN at 2. cbn. lia.
  - unfold fds_of. rewrite keys_of_app. cbn. apply NoDup_snoc; auto. rewrite I_reactor0 in R1. exact R1.
  - rewrite keys_of_app. cbn. now rewrite app_nil_r.
  - intros i Hi. rewrite keys_of_app in Hi. cbn in Hi. rewrite app_nil_r in Hi. auto.
  - auto.
  - intros g Hg. apply in_app_or in Hg. destruct Hg as [Hg|[Hg|[]]]; auto. subst. exact Logic.I.
  - rewrite map_app. cbn. apply NoDup_snoc; auto. intro H. apply in_map_iff in H.
    destruct H as [g [E Hg]]. apply I_no_lt0 in Hg. lia.
  - intros g Hg. apply in_app_or in Hg. destruct Hg as [Hg|[Hg|[]]]; [apply I_no_lt0 in Hg; lia|subst; cbn; lia].
  - rewrite lenN_app. unfold lenN at 2. cbn. lia.
Qed.

Lemma inv_ad_ok W gl ng f p :
  InvW W gl ng -> refused_by_reactor W f = false -> N.eqb (counter W) (rcap W) = false ->
  InvW (W_ad_ok W f p) (gl ++ [mkg ng (ADeadline f (id_count W)) p]) (ng + 1).
Proof.
  intros I R C. unfold refused_by_reactor in R. apply orb_false_iff in R. destruct R as [R1 R2].
  apply memN_false in R1. apply N.eqb_neq in C.
  destruct I. unfold W_ad_ok.
  assert (Hfresh : ~ In (id_count W) (keys_of idk gl)) by (intro H; apply I_idx_lt0 in H; lia).
  constructor; cbn [reactor dq counter id_count d2a rcap set_counter set_reactor set_dq set_maps].
  - unfold fds_of. rewrite keys_of_app, I_reactor0. reflexivity.
  - rewrite dq_of_app, I_dq0. reflexivity.
  - rewrite lenN_app. unfold lenN at 2. cbn. lia.
  - unfold fds_of. rewrite keys_of_app. cbn. apply NoDup_snoc; auto. rewrite I_reactor0 in R1. exact R1.
  - rewrite keys_of_app. cbn. apply NoDup_snoc; auto.
  - intros i Hi. rewrite keys_of_app in Hi. apply in_app_or in Hi. destruct Hi as [Hi|[Hi|[]]].
    + apply I_idx_lt0 in Hi. lia.
    + subst. lia.
  - intros k v [H|H].
    + inversion H; subst. lia.
    + apply In_m_remove in H. apply I_d2a_lt0 in H. lia.
  - intros g Hg. apply in_app_or in Hg. destruct Hg as [Hg|[Hg|[]]].
    + apply d2a_ok_insert_fresh; auto. intros j Hj E. subst. apply Hfresh. eapply in_idk; eauto.
    + subst. unfold mkg, d2a_ok. cbn [g_id]. rewrite m_get_insert. now rewrite N.eqb_refl.
  - rewrite map_app. cbn. apply NoDup_snoc; auto. intro H. apply in_map_iff in H.
    destruct H as [g [E Hg]]. apply I_no_lt0 in Hg. lia.
  - intros g Hg. apply in_app_or in Hg. destruct Hg as [Hg|[Hg|[]]]; [apply I_no_lt0 in Hg; lia|subst; cbn; lia].
  - rewrite lenN_app. unfold lenN at 2. cbn. lia.
Qed.

Lemma inv_ai_fail W gl ng : InvW W gl ng -> InvW (W_ai_fail W) gl ng.
Proof.
  intros I. destruct I. unfold W_ai_fail.
  constructor; cbn [reactor dq counter id_count d2a rcap set_dq]; auto.
  - intros i Hi. apply I_idx_lt0 in Hi. lia.
  - intros k v H. apply I_d2a_lt0 in H. lia.
Qed.

Lemma inv_ai_ok W gl ng p :
  InvW W gl ng -> N.eqb (counter W) (rcap W) = false ->
  InvW (W_ai_ok W p) (gl ++ [mkg ng (ATick (id_count W)) p]) (ng + 1).
Proof.
  intros I C. apply N.eqb_neq in C. destruct I. unfold W_ai_ok.
  assert (Hfresh : ~ In (id_count W) (keys_of idk gl)) by (intro H; apply I_idx_lt0 in H; lia).
  constructor; cbn [reactor dq counter id_count d2a rcap set_counter set_dq].
  - unfold fds_of. rewrite keys_of_app. cbn. now rewrite app_nil_r.
  - rewrite dq_of_app, I_dq0. reflexivity.
  - rewrite lenN_app. unfold lenN at 2. cbn. lia.
  - unfold fds_of. rewrite keys_of_app. cbn. now rewrite app_nil_r.
  - rewrite keys_of_app. cbn. apply NoDup_snoc; auto.
  - intros i Hi. rewrite keys_of_app in Hi. apply in_app_or in Hi. destruct Hi as [Hi|[Hi|[]]].
    + apply I_idx_lt0 in Hi. lia.
    + subst. lia.
  - intros k v H. apply I_d2a_lt0 in H. lia.
  - intros g Hg. apply in_app_or in Hg. destruct Hg as [Hg|[Hg|[]]]; auto.
    subst. cbn. apply m_get_none. intros k' v Hin E. subst. apply I_d2a_lt0 in Hin. lia.
  - rewrite map_app. cbn. apply NoDup_snoc; auto. intro H. apply in_map_iff in H.
    destruct H as [g [E Hg]]. apply I_no_lt0 in Hg. lia.
  - intros g Hg. apply in_app_or in Hg. destruct Hg as [Hg|[Hg|[]]]; [apply I_no_lt0 in Hg; lia|subst; cbn; lia].
  - rewrite lenN_app. unfold lenN at 2. cbn. lia.
Qed.

(* ---------- dropping a guard ---------- *)
Lemma in_app_mid {A} (l1 l2 : list A) g x : In x (l1 ++ l2) -> In x (l1 ++ g :: l2).
Proof. intros H. apply in_app_or in H. apply in_or_app. destruct H; [left|right; right]; auto. Qed.

Lemma keys_in_mid k l1 g l2 x : In x (keys_of k (l1 ++ l2)) -> In x (keys_of k (l1 ++ g :: l2)).
Proof.
  intros H. apply keys_of_In in H. destruct H as [g' [Hg' E]]. apply keys_of_In. exists g'. split; auto.
  now apply in_app_mid.
Qed.

Lemma lenN_mid {A} (l1 l2 : list A) g : lenN (l1 ++ g :: l2) = lenN (l1 ++ l2) + 1.
Proof. unfold lenN. rewrite !app_length. cbn. lia. Qed.

Lemma nodup_no_mid l1 (g : guard) l2 : NoDup (map g_no (l1 ++ g :: l2)) -> NoDup (map g_no (l1 ++ l2)).
Proof. rewrite !map_app. cbn. apply NoDup_remove_1. Qed.

Lemma inv_drop W l1 g l2 ng :
  InvW W (l1 ++ g :: l2) ng -> InvW (guard_drop W (g_id g)) (l1 ++ l2) ng.
Proof.
  intros I. destruct I.
  assert (Hcnt : counter W - 1 = lenN (l1 ++ l2)) by (rewrite I_counter0, lenN_mid; lia).
  assert (Hcap : lenN (l1 ++ l2) <= rcap W) by (rewrite lenN_mid in I_cap0; lia).
  assert (Hno : forall g', In g' (l1 ++ l2) -> g_no g' < ng) by (intros; apply I_no_lt0; now apply in_app_mid).
  assert (Hndno := nodup_no_mid _ _ _ I_nd_no0).
  assert (Hndfd := keys_nodup_remove fdk _ _ _ I_nd_fd0).
  assert (Hndix := keys_nodup_remove idk _ _ _ I_nd_idx0).
  assert (Hlt : forall i, In i (keys_of idk (l1 ++ l2)) -> i < id_count W)
    by (intros; apply I_idx_lt0; now apply keys_in_mid).
  destruct (g_id g) as [i|f i|f] eqn:Eg; unfold guard_drop.
  - (* Tick *)
    assert (Hfd : fdk g = None) by (unfold fdk; now rewrite Eg).
    assert (Hix : idk g = Some i) by (unfold idk; now rewrite Eg).
    unfold dq_remove. constructor; cbn [reactor dq counter id_count d2a rcap set_counter set_dq]; auto.
    + rewrite I_reactor0. unfold fds_of. now apply keys_remove_none.
    + rewrite I_dq0. now apply dq_of_remove_some.
    + intros g' Hg'. apply I_d2a_ok0. now apply in_app_mid.
  - (* Deadline *)
    assert (Hfd : fdk g = Some f) by (unfold fdk; now rewrite Eg).
    assert (Hix : idk g = Some i) by (unfold idk; now rewrite Eg).
    unfold dq_remove, reactor_detach.
    constructor; cbn [reactor dq counter id_count d2a a2d rcap set_counter set_dq set_reactor set_maps]; auto.
    + rewrite I_reactor0. unfold fds_of. now apply keys_remove_some.
    + rewrite I_dq0. now apply dq_of_remove_some.
    + intros k v H. apply In_m_remove in H. eauto.
    + intros g' Hg'.
      assert (Ho := keys_split_others idk l1 g l2 i I_nd_idx0 Hix g' Hg').
      assert (Hok := I_d2a_ok0 g' (in_app_mid _ _ g _ Hg')).
      unfold idk in Ho. destruct (g_id g') as [i'|f' i'|f']; unfold d2a_ok in *; auto; rewrite m_get_remove.
      * destruct (N.eqb i' i); auto.
      * destruct (N.eqb_spec i' i) as [E|E]; auto. subst. exfalso. now apply Ho.
  - (* Notification *)
    assert (Hfd : fdk g = Some f) by (unfold fdk; now rewrite Eg).
    assert (Hix : idk g = None) by (unfold idk; now rewrite Eg).
    unfold reactor_detach.
    constructor; cbn [reactor dq counter id_count d2a rcap set_counter set_reactor]; auto.
    + rewrite I_reactor0. unfold fds_of. now apply keys_remove_some.
    + rewrite I_dq0. now apply dq_of_remove_none.
    + intros g' Hg'. apply I_d2a_ok0. now apply in_app_mid.
Qed.

(* ---------- every step preserves the invariant (no assumption on the history) ---------- *)
Lemma step_w_unchanged_process s post :
  w (fst (do_process s post)) = w s /\ guards (fst (do_process s post)) = guards s /\
  nextg (fst (do_process s post)) = nextg s.
Proof. unfold do_process. destruct (process_ids (w s) (pend s)) as [[a b]|]; cbn; auto. Qed.

Lemma step_inv s o : Inv s -> Inv (fst (step s o)).
Proof.
  intros I. unfold Inv in *. destruct o; cbn [step].
  - (* attach_notification *)
    rewrite attach_notification_char.
    destruct (refused_by_reactor (w s) f) eqn:R; [cbn; auto|].
    destruct (N.eqb (counter (w s)) (rcap (w s))) eqn:C; [cbn; auto|].
    cbn. now apply inv_an_ok.
  - rewrite attach_deadline_char by (eapply inv_dq_fresh; eauto).
    destruct (refused_by_reactor (w s) f) eqn:R; [cbn; auto|].
    destruct (N.eqb (counter (w s)) (rcap (w s))) eqn:C; cbn.
    + now apply inv_ai_fail.
    + now apply inv_ad_ok.
  - rewrite attach_interval_char by (eapply inv_dq_fresh; eauto).
    destruct (N.eqb (counter (w s)) (rcap (w s))) eqn:C; cbn.
    + now apply inv_ai_fail.
    + now apply inv_ai_ok.
  - destruct (nth_error (guards s) (N.to_nat j)) as [g|] eqn:E; cbn; auto.
    destruct (nth_error_split' _ _ _ E) as [l1 [l2 [E1 E2]]]. rewrite E2. rewrite E1 in I.
    now apply inv_drop.
  - cbn. auto.
  - cbn. auto.
  - destruct (step_w_unchanged_process s (fun _ _ p => p)) as [A [B C]]. now rewrite A, B, C.
  - match goal with |- context [do_process s ?p] => destruct (step_w_unchanged_process s p) as [A [B C]] end.
    now rewrite A, B, C.
  - match goal with |- context [do_process s ?p] => destruct (step_w_unchanged_process s p) as [A [B C]] end.
    now rewrite A, B, C.
Qed.

Lemma run_fst_app s h1 h2 : fst (run s (h1 ++ h2)) = fst (run (fst (run s h1)) h2).
Proof.
  revert s; induction h1 as [|o h1 IH]; intros s; cbn; auto.
  destruct (step s o) as [s1 ob] eqn:E. specialize (IH s1).
  destruct (run s1 (h1 ++ h2)) as [s2 obs] eqn:E2. destruct (run s1 h1) as [s3 obs3] eqn:E3. cbn in *. exact IH.
Qed.

Lemma run_inv s h : Inv s -> Inv (fst (run s h)).
Proof.
  revert s; induction h as [|o h IH]; intros s I; cbn; auto.
  destruct (step s o) as [s1 ob] eqn:E. destruct (run s1 h) as [s2 obs] eqn:E2. cbn.
  replace s2 with (fst (run s1 h)) by now rewrite E2. apply IH.
  replace s1 with (fst (step s o)) by now rewrite E. now apply step_inv.
Qed.

(* ---------- classification of one id against the live guards ---------- *)
Lemma mk_tick_other i g' : idk g' <> Some i -> match_kinds (ATick i) g' = [].
Proof.
  unfold idk, match_kinds, has_event_from, has_missed_deadline. destruct (g_id g') as [i'|f' i'|f']; cbn; intros H; auto.
  destruct (N.eqb_spec i i'); auto. subst. now exfalso.
Qed.
Lemma mk_tick_self i g : g_id g = ATick i -> match_kinds (ATick i) g = [(g_no g, KEvent)].
Proof. unfold match_kinds, has_event_from, has_missed_deadline. intros ->. cbn. now rewrite N.eqb_refl. Qed.

Lemma mk_dl_other f i g' : idk g' <> Some i -> match_kinds (ADeadline f i) g' = [].
Proof.
  unfold idk, match_kinds, has_event_from, has_missed_deadline. destruct (g_id g') as [i'|f' i'|f']; cbn; intros H; auto.
  destruct (N.eqb_spec i i'); [subst; now exfalso|]. now rewrite andb_false_r.
Qed.
Lemma mk_dl_self f i g : g_id g = ADeadline f i -> match_kinds (ADeadline f i) g = [(g_no g, KMissed)].
Proof. unfold match_kinds, has_event_from, has_missed_deadline. intros ->. cbn. now rewrite !N.eqb_refl. Qed.

Lemma mk_nt_other f g' : fdk g' <> Some f -> match_kinds (ANotification f) g' = [].
Proof.
  unfold fdk, match_kinds, has_event_from, has_missed_deadline. destruct (g_id g') as [i'|f' i'|f']; cbn; intros H; auto;
    (destruct (N.eqb_spec f f'); [subst; now exfalso|auto]).
Qed.
Lemma mk_nt_self f g : fdk g = Some f -> match_kinds (ANotification f) g = [(g_no g, KEvent)].
Proof.
  unfold fdk, match_kinds, has_event_from, has_missed_deadline. destruct (g_id g) as [i'|f' i'|f']; cbn; intros H;
    try discriminate; inversion H; subst; now rewrite N.eqb_refl.
Qed.

Definition dl_kind (a : aid) : kind := match a with ADeadline _ _ => KMissed | _ => KEvent end.

Lemma classify1_dq gl g i :
  NoDup (keys_of idk gl) -> In g gl -> idk g = Some i ->
  classify1 gl (g_id g) = [(g_no g, dl_kind (g_id g))].
Proof.
  intros ND Hin Hk. apply in_split in Hin. destruct Hin as [l1 [l2 ->]].
  assert (Ho := keys_split_others idk l1 g l2 i ND Hk).
  unfold classify1. unfold idk in Hk.
  destruct (g_id g) as [i0|f0 i0|f0] eqn:Eg; cbn in Hk; inversion Hk; subst.
  - rewrite flat_map_unique; [now apply mk_tick_self|]. intros y Hy. apply mk_tick_other. now apply Ho.
  - rewrite flat_map_unique; [now apply mk_dl_self|]. intros y Hy. apply mk_dl_other. now apply Ho.
Qed.

Lemma classify1_nt gl g f :
  NoDup (fds_of gl) -> In g gl -> fdk g = Some f ->
  classify1 gl (ANotification f) = [(g_no g, KEvent)].
Proof.
  intros ND Hin Hk. apply in_split in Hin. destruct Hin as [l1 [l2 ->]].
  assert (Ho := keys_split_others fdk l1 g l2 f ND Hk).
  unfold classify1. rewrite flat_map_unique; [now apply mk_nt_self|].
  intros y Hy. apply mk_nt_other. now apply Ho.
Qed.

Lemma flat_map_ext_in' {A B} (f g : A -> list B) l : (forall a, In a l -> f a = g a) -> flat_map f l = flat_map g l.
Proof.
  induction l as [|a l IH]; cbn; intros H; auto. rewrite (H a) by now left. f_equal. apply IH. intros; apply H; now right.
Qed.

(* the ids handle_deadlines reports = the ids of the expired deadline-queue based live guards *)
Definition sel_dl (g : guard) : list aid :=
  match idk g with Some _ => if N.leb (g_period g) 1 then [g_id g] else [] | None => [] end.

Lemma handle_deadlines_char W gl ng : InvW W gl ng -> handle_deadlines W = flat_map sel_dl gl.
Proof.
  intros I. unfold handle_deadlines. rewrite (I_dq _ _ _ I). unfold dq_of. rewrite flat_map_flat_map.
  apply flat_map_ext_in'. intros g Hg. unfold sel_dl.
  assert (Hok := I_d2a_ok _ _ _ I g Hg). unfold idk.
  destruct (g_id g) as [i|f i|f]; cbn; auto; unfold expired; cbn [de_period de_idx];
    destruct (N.leb (g_period g) 1); cbn; auto; unfold d2a_ok in Hok; now rewrite Hok.
Qed.

Definition sel_nt (pend : list N) (g : guard) : list aid :=
  match fdk g with Some f => if memN f pend then [ANotification f] else [] | None => [] end.

Lemma triggered_char W gl ng pend :
  InvW W gl ng -> lenN (filter (fun f => memN f pend) (reactor W)) <= rmaxev W ->
  map ANotification (triggered W pend) = flat_map (sel_nt pend) gl.
Proof.
  intros I H. unfold triggered. rewrite firstn_all2 by (unfold lenN in H; lia).
  rewrite (I_reactor _ _ _ I). unfold fds_of, keys_of. rewrite filter_flat_map, map_flat_map.
  apply flat_map_ext. intros g. unfold sel_nt. destruct (fdk g); cbn; auto. now destruct (memN n pend).
Qed.

Lemma In_firstn {A} n (l : list A) x : In x (firstn n l) -> In x l.
Proof. intros H. rewrite <- (firstn_skipn n l). apply in_or_app. now left. Qed.

(* every id passed to the callback belongs to exactly one live guard *)
Lemma ids_singleton W gl ng pend id :
  InvW W gl ng -> In id (handle_deadlines W ++ map ANotification (triggered W pend)) ->
  exists g k, In g gl /\ classify1 gl id = [(g_no g, k)].
Proof.
  intros I H. apply in_app_or in H. destruct H as [H|H].
  - rewrite (handle_deadlines_char _ _ _ I) in H. apply in_flat_map in H. destruct H as [g [Hg H]].
    unfold sel_dl in H. destruct (idk g) as [i|] eqn:Ek; [|contradiction].
    destruct (N.leb (g_period g) 1); [|contradiction]. destruct H as [H|[]]. subst.
    exists g, (dl_kind (g_id g)). split; auto. eapply classify1_dq; eauto. exact (I_nd_idx _ _ _ I).
  - apply in_map_iff in H. destruct H as [f [E H]]. subst. unfold triggered in H. apply In_firstn in H.
    apply filter_In in H. destruct H as [H _]. rewrite (I_reactor _ _ _ I) in H.
    apply keys_of_In in H. destruct H as [g [Hg Hk]]. exists g, KEvent. split; auto.
    eapply classify1_nt; eauto. exact (I_nd_fd _ _ _ I).
Qed.

Lemma foreign_zero gl ids : (forall id, In id ids -> exists x, classify1 gl id = [x]) -> foreign gl ids = 0.
Proof.
  unfold foreign. induction ids as [|id ids IH]; intros H; auto. cbn.
  destruct (H id) as [x E]; [now left|]. rewrite E. apply IH. intros; apply H; now right.
Qed.

Lemma classify_length gl ids : (forall id, In id ids -> exists x, classify1 gl id = [x]) -> length (classify gl ids) = length ids.
Proof.
  unfold classify. induction ids as [|id ids IH]; intros H; auto. cbn.
  destruct (H id) as [x E]; [now left|]. rewrite E. cbn. f_equal. apply IH. intros; apply H; now right.
Qed.

(* ---------- abstraction to the reference specification ---------- *)
Lemma sk_fd_abs g : sk_fd (abs_k g) = fdk g.
Proof. unfold abs_k, fdk. now destruct (g_id g). Qed.

Lemma classify_dl_exact W gl ng :
  InvW W gl ng -> classify gl (handle_deadlines W) = dispatch_dl (map abs_g gl).
Proof.
  intros I. rewrite (handle_deadlines_char _ _ _ I). unfold classify, dispatch_dl.
  rewrite flat_map_flat_map, flat_map_map. apply flat_map_ext_in'. intros g Hg.
  unfold sel_dl. destruct (idk g) as [i|] eqn:Ek.
  - unfold abs_g, abs_k, sp_expired. cbn [fst snd]. unfold idk in Ek.
    destruct (N.leb (g_period g) 1) eqn:El.
    + cbn [flat_map]. rewrite app_nil_r. rewrite (classify1_dq gl g i (I_nd_idx _ _ _ I) Hg Ek).
      destruct (g_id g); cbn in *; try discriminate; now rewrite El.
    + destruct (g_id g); cbn in *; try discriminate; now rewrite El.
  - unfold abs_g, abs_k, idk in *. destruct (g_id g); cbn in *; try discriminate; auto.
Qed.

Lemma classify_nt_exact W gl ng pend :
  InvW W gl ng -> lenN (filter (fun f => memN f pend) (reactor W)) <= rmaxev W ->
  classify gl (map ANotification (triggered W pend)) = dispatch_nt (map abs_g gl) pend.
Proof.
  intros I H. rewrite (triggered_char _ _ _ _ I H). unfold classify, dispatch_nt.
  rewrite flat_map_flat_map, flat_map_map. apply flat_map_ext_in'. intros g Hg.
  unfold sel_nt, abs_g. cbn [fst snd]. rewrite sk_fd_abs.
  destruct (fdk g) as [f|] eqn:Ek; auto.
  destruct (memN f pend); auto. cbn [flat_map]. rewrite app_nil_r.
  eapply classify1_nt; eauto. exact (I_nd_fd _ _ _ I).
Qed.

(* ---------- one step refines the specification ---------- *)
Lemma s_attached_abs gl f : s_attached (map abs_g gl) f = memN f (fds_of gl).
Proof.
  unfold s_attached, fds_of. induction gl as [|g gl IH]; auto.
  cbn [map existsb]. rewrite IH. cbn [abs_g snd]. rewrite sk_fd_abs.
  change (keys_of fdk (g :: gl)) with ((match fdk g with Some x => [x] | None => [] end) ++ keys_of fdk gl).
  destruct (fdk g) as [f'|]; cbn [app]; auto. unfold memN. cbn [existsb]. now rewrite (N.eqb_sym f' f).
Qed.

Lemma do_process_refines s post post' :
  Inv s -> ready_ok s ->
  (forall ids d, length ids = length d -> post ids d (pend s) = post' d (pend s)) ->
  abs (fst (do_process s post)) = fst (sp_process (abs s) post') /\
  snd (do_process s post) = snd (sp_process (abs s) post').
Proof.
  intros I R Hpost. unfold Inv in I. unfold do_process, process_ids, sp_process.
  cbn [s_gl abs s_pend]. rewrite (I_counter _ _ _ I).
  destruct (guards s) as [|g0 gl0] eqn:Eg.
  - cbn. rewrite N.eqb_refl. cbn. split; auto.
  - replace (N.eqb (lenN (g0 :: gl0)) 0) with false by (symmetry; apply N.eqb_neq; unfold lenN; cbn; lia).
    cbn [map]. change (abs_g g0 :: map abs_g gl0) with (map abs_g (g0 :: gl0)).
    rewrite <- Eg in *. clear Eg.
    assert (E1 := classify_dl_exact _ _ _ I). assert (E2 := classify_nt_exact _ _ _ (pend s) I R).
    assert (Hs : forall id, In id (handle_deadlines (w s) ++ map ANotification (triggered (w s) (pend s))) ->
                 exists x, classify1 (guards s) id = [x]).
    { intros id Hid. destruct (ids_singleton _ _ _ _ _ I Hid) as [g [k [_ E]]]. eauto. }
    cbn [fst snd]. rewrite E1, E2. rewrite (foreign_zero _ _ Hs). split; auto.
    unfold abs, sp_set_pend. cbn [w guards nextg pend s_cap s_gl s_next s_pend]. f_equal.
    rewrite <- E1, <- E2. apply Hpost.
    rewrite <- (classify_length _ _ Hs). unfold classify. now rewrite flat_map_app.
Qed.

Lemma rcap_guard_drop W a : rcap (guard_drop W a) = rcap W.
Proof. destruct a; reflexivity. Qed.

Lemma abs_g_mk n a p : abs_g (mkg n a p) = (n, match a with ATick _ => STick p | ADeadline f _ => SDeadline f p | ANotification f => SNotif f end).
Proof. reflexivity. Qed.

Lemma existsb_err_refl e l : In e l ->
  existsb (fun e' => match e, e' with
                     | EInsufficientCapacity, EInsufficientCapacity => true
                     | EAlreadyAttached, EAlreadyAttached => true
                     | _, _ => false end) l = true \/ (e <> EInsufficientCapacity /\ e <> EAlreadyAttached).
Proof.
  intros H. destruct e; try (right; split; discriminate); left; apply existsb_exists; eexists; split; eauto.
Qed.

(* refusal by the reactor is one of the documented reasons *)
Lemma reactor_refusal_documented s f k :
  Inv s -> refused_by_reactor (w s) f = true -> sk_fd k = Some f ->
  exists e rest, sp_attach_errs (abs s) k = e :: rest /\
    existsb (fun e' => match reactor_refusal (w s) f, e' with
                       | EInsufficientCapacity, EInsufficientCapacity => true
                       | EAlreadyAttached, EAlreadyAttached => true
                       | _, _ => false end) (sp_attach_errs (abs s) k) = true.
Proof.
  intros I R Hk. unfold Inv in I. unfold sp_attach_errs. rewrite Hk. cbn [abs s_gl s_cap].
  rewrite s_attached_abs, <- (I_reactor _ _ _ I), lenN_map.
  unfold refused_by_reactor in R. unfold reactor_refusal.
  assert (Hlen : lenN (reactor (w s)) <= lenN (guards s)).
  { rewrite (I_reactor _ _ _ I). apply keys_of_len. }
  destruct (memN f (reactor (w s))) eqn:Ed; cbn in R.
  - destruct (rorder (w s)).
    + destruct (N.leb (rcap (w s)) (lenN (reactor (w s)))) eqn:Ef.
      * replace (N.leb (rcap (w s)) (lenN (guards s))) with true by (symmetry; apply N.leb_le; apply N.leb_le in Ef; lia).
        cbn. eauto.
      * cbn. destruct (N.leb (rcap (w s)) (lenN (guards s))); cbn; eauto.
    + destruct (N.leb (rcap (w s)) (lenN (guards s))); cbn; eauto.
  - replace (N.leb (rcap (w s)) (lenN (guards s))) with true by (symmetry; apply N.leb_le; apply N.leb_le in R; lia).
    cbn. eauto.
Qed.

Lemma sp_errs_when_free s f k :
  Inv s -> refused_by_reactor (w s) f = false -> sk_fd k = Some f ->
  sp_attach_errs (abs s) k = if N.eqb (counter (w s)) (rcap (w s)) then [EInsufficientCapacity] else [].
Proof.
  intros I R Hk. unfold Inv in I. unfold sp_attach_errs. rewrite Hk. cbn [abs s_gl s_cap].
  rewrite s_attached_abs, <- (I_reactor _ _ _ I), lenN_map.
  unfold refused_by_reactor in R. apply orb_false_iff in R. destruct R as [R1 R2]. rewrite R1. cbn.
  rewrite (I_counter _ _ _ I). assert (Hc := I_cap _ _ _ I).
  destruct (N.eqb_spec (lenN (guards s)) (rcap (w s))) as [E|E].
  - replace (N.leb (rcap (w s)) (lenN (guards s))) with true by (symmetry; apply N.leb_le; lia). reflexivity.
  - replace (N.leb (rcap (w s)) (lenN (guards s))) with false by (symmetry; apply N.leb_gt; lia). reflexivity.
Qed.

Lemma sp_errs_tick s p :
  Inv s ->
  sp_attach_errs (abs s) (STick p) = if N.eqb (counter (w s)) (rcap (w s)) then [EInsufficientCapacity] else [].
Proof.
  intros I. unfold Inv in I. unfold sp_attach_errs. cbn [sk_fd abs s_gl s_cap app]. rewrite lenN_map.
  rewrite (I_counter _ _ _ I). assert (Hc := I_cap _ _ _ I).
  destruct (N.eqb_spec (lenN (guards s)) (rcap (w s))) as [E|E].
  - replace (N.leb (rcap (w s)) (lenN (guards s))) with true by (symmetry; apply N.leb_le; lia). reflexivity.
  - replace (N.leb (rcap (w s)) (lenN (guards s))) with false by (symmetry; apply N.leb_gt; lia). reflexivity.
Qed.

Lemma step_refines s o :
  Inv s -> (is_process o = true -> ready_ok s) ->
  abs (fst (step s o)) = fst (sp_step (abs s) o) /\
  obs_rel (abs s) o (snd (step s o)) (snd (sp_step (abs s) o)).
Proof.
  intros I HR. assert (I' := I). unfold Inv in I'. destruct o; cbn [step sp_step].
  - (* attach_notification *)
    rewrite attach_notification_char. unfold sp_attach.
    destruct (refused_by_reactor (w s) f) eqn:R.
    + destruct (reactor_refusal_documented s f (SNotif f) I R eq_refl) as [e [rest [E1 E2]]].
      rewrite E1. cbn [do_attach fst snd]. split; [destruct s; reflexivity|].
      right. unfold obs_ok. cbn [op_skind]. exact E2.
    + rewrite (sp_errs_when_free s f (SNotif f) I R eq_refl).
      destruct (N.eqb (counter (w s)) (rcap (w s))) eqn:C; cbn [do_attach fst snd].
      * split; [destruct s; reflexivity|now left].
      * split; [|now left]. unfold abs. cbn [w guards nextg pend s_cap s_gl s_next s_pend].
        rewrite map_app. reflexivity.
  - (* attach_deadline *)
    rewrite attach_deadline_char by (eapply inv_dq_fresh; eauto). unfold sp_attach.
    destruct (refused_by_reactor (w s) f) eqn:R.
    + destruct (reactor_refusal_documented s f (SDeadline f p) I R eq_refl) as [e [rest [E1 E2]]].
      rewrite E1. cbn [do_attach fst snd]. split; [destruct s; reflexivity|].
      right. unfold obs_ok. cbn [op_skind]. exact E2.
    + rewrite (sp_errs_when_free s f (SDeadline f p) I R eq_refl).
      destruct (N.eqb (counter (w s)) (rcap (w s))) eqn:C; cbn [do_attach fst snd].
      * split; [reflexivity|now left].
      * split; [|now left]. unfold abs. cbn [w guards nextg pend s_cap s_gl s_next s_pend].
        rewrite map_app. reflexivity.
  - (* attach_interval *)
    rewrite attach_interval_char by (eapply inv_dq_fresh; eauto). unfold sp_attach.
    rewrite (sp_errs_tick s p I).
    destruct (N.eqb (counter (w s)) (rcap (w s))) eqn:C; cbn [do_attach fst snd].
    + split; [reflexivity|now left].
    + split; [|now left]. unfold abs. cbn [w guards nextg pend s_cap s_gl s_next s_pend].
      rewrite map_app. reflexivity.
  - (* drop *)
    cbn [abs s_gl]. rewrite nth_error_map.
    destruct (nth_error (guards s) (N.to_nat j)) as [g|]; cbn [option_map fst snd].
    + split; [|now left]. unfold abs. cbn [w guards nextg pend s_cap s_gl s_next s_pend].
      now rewrite rcap_guard_drop, remove_nth_map.
    + split; [reflexivity|now left].
  - split; [reflexivity|now left].
  - split; [reflexivity|now left].
  - destruct (do_process_refines s (fun _ _ p => p) (fun _ p => p) I (HR eq_refl)) as [A B]; auto.
    split; [exact A|left; exact B].
  - match goal with |- context [do_process s ?pp] =>
      destruct (do_process_refines s pp
        (fun d p => drain_all (consumed_tbl (map (fun g => (fst g, sk_fd (snd g))) (s_gl (abs s))) d) p) I (HR eq_refl)) as [A B]
    end.
    { intros ids d _. cbn [abs s_gl]. rewrite map_map. f_equal. f_equal. apply map_ext. intros g.
      unfold abs_g. cbn [fst snd]. now rewrite sk_fd_abs. }
    split; [exact A|left; exact B].
  - match goal with |- context [do_process s ?pp] =>
      destruct (do_process_refines s pp (fun d p => match d with [] => p | _ :: _ => add_pend fs p end) I (HR eq_refl)) as [A B]
    end.
    { intros ids d Hl. now apply match_nil_len. }
    split; [exact A|left; exact B].
Qed.

(* ---------- the configuration never changes ---------- *)
Lemma step_cfg s o :
  Inv s ->
  rcap (w (fst (step s o))) = rcap (w s) /\ rmaxev (w (fst (step s o))) = rmaxev (w s) /\
  rorder (w (fst (step s o))) = rorder (w s).
Proof.
  intros I. unfold Inv in I. destruct o; cbn [step].
  - rewrite attach_notification_char.
    destruct (refused_by_reactor (w s) f); [cbn; auto|].
    destruct (N.eqb (counter (w s)) (rcap (w s))); cbn; auto.
  - rewrite attach_deadline_char by (eapply inv_dq_fresh; eauto).
    destruct (refused_by_reactor (w s) f); [cbn; auto|].
    destruct (N.eqb (counter (w s)) (rcap (w s))); cbn; auto.
  - rewrite attach_interval_char by (eapply inv_dq_fresh; eauto).
    destruct (N.eqb (counter (w s)) (rcap (w s))); cbn; auto.
  - destruct (nth_error (guards s) (N.to_nat j)) as [g|]; cbn; auto. destruct (g_id g); cbn; auto.
  - cbn; auto.
  - cbn; auto.
  - destruct (step_w_unchanged_process s (fun _ _ p => p)) as [A _]. now rewrite A.
  - match goal with |- context [do_process s ?pp] => destruct (step_w_unchanged_process s pp) as [A _] end. now rewrite A.
  - match goal with |- context [do_process s ?pp] => destruct (step_w_unchanged_process s pp) as [A _] end. now rewrite A.
Qed.

Lemma filter_lenN {A} (P : A -> bool) l : lenN (filter P l) <= lenN l.
Proof. unfold lenN. induction l as [|a l IH]; cbn; [lia|]. destruct (P a); cbn; lia. Qed.

(* a reactor that can report as many events as the wait set can hold never truncates *)
Lemma ready_ok_of_cfg s : Inv s -> rcap (w s) <= rmaxev (w s) -> ready_ok s.
Proof.
  intros I H. unfold Inv in I. unfold ready_ok.
  assert (A := filter_lenN (fun f => memN f (pend s)) (reactor (w s))).
  assert (B : lenN (reactor (w s)) <= lenN (guards s)) by (rewrite (I_reactor _ _ _ I); apply keys_of_len).
  assert (C := I_cap _ _ _ I). lia.
Qed.

(* ---------- whole histories ---------- *)
Lemma run_refines s h :
  Inv s -> rcap (w s) <= rmaxev (w s) ->
  abs (fst (run s h)) = fst (sp_run (abs s) h) /\
  obs_rel_run (abs s) h (snd (run s h)) (snd (sp_run (abs s) h)).
Proof.
  revert s; induction h as [|o h IH]; intros s I C; cbn; auto.
  assert (R := step_refines s o I (fun _ => ready_ok_of_cfg s I C)).
  assert (I1 := step_inv s o I). assert (C1 := step_cfg s o I).
  destruct (step s o) as [s1 ob] eqn:E. destruct (sp_step (abs s) o) as [a1 ob'] eqn:E'.
  cbn [fst snd] in *. destruct R as [R1 R2]. destruct C1 as [C1 [C2 _]].
  assert (C' : rcap (w s1) <= rmaxev (w s1)) by (rewrite C1, C2; exact C).
  specialize (IH s1 I1 C'). rewrite R1 in IH.
  destruct (run s1 h) as [s2 obs2]. destruct (sp_run a1 h) as [a2 obs2']. cbn [fst snd] in *.
  destruct IH as [IH1 IH2]. split; auto.
Qed.

(* ---------- exactness of one processing call at a reachable state ---------- *)
Lemma process_exact s o : Inv s -> ready_ok s -> is_process o = true -> snd (step s o) = spec_delivery s.
Proof.
  intros I R P. destruct (step_refines s o I (fun _ => R)) as [_ [E|E]].
  - rewrite E. unfold spec_delivery. destruct o; try discriminate; cbn [sp_step]; unfold sp_process; cbn [abs s_gl];
      destruct (guards s); reflexivity.
  - exfalso. unfold obs_ok in E. destruct o; try discriminate; cbn [op_skind] in E; destruct (snd (step s _)); discriminate.
Qed.

(* ---------- only live guards are ever reported ---------- *)
Lemma callback_ids_live s ids1 ids2 id :
  Inv s -> process_ids (w s) (pend s) = Some (ids1, ids2) -> In id (ids1 ++ ids2) ->
  exists g k, In g (guards s) /\ classify1 (guards s) id = [(g_no g, k)].
Proof.
  intros I H Hin. unfold process_ids in H. destruct (N.eqb (counter (w s)) 0); [discriminate|].
  inversion H; subst. eapply ids_singleton; eauto.
Qed.

Lemma classify_nos gl ids n k : In (n, k) (classify gl ids) -> In n (map g_no gl).
Proof.
  unfold classify, classify1. intros H. apply in_flat_map in H. destruct H as [id [_ H]].
  apply in_flat_map in H. destruct H as [g [Hg H]]. apply in_map_iff. exists g. split; auto.
  unfold match_kinds in H. apply in_app_or in H.
  destruct H as [H|H]; [destruct (has_event_from id (g_id g))|destruct (has_missed_deadline id (g_id g))];
    cbn in H; try contradiction; destruct H as [H|[]]; now inversion H.
Qed.

Definition gone (n : N) (s : sys) : Prop := n < nextg s /\ ~ In n (map g_no (guards s)).

Lemma gone_attach n s r p : gone n s -> gone n (fst (do_attach s r p)).
Proof.
  intros [A B]. destruct r as [w' [a|e]]; unfold gone; cbn [fst do_attach nextg guards]; [|split; auto].
  split; [lia|]. rewrite map_app. cbn [map g_no]. intro H. apply in_app_or in H. destruct H as [H|[H|[]]]; auto. lia.
Qed.

Lemma gone_step n s o : gone n s -> gone n (fst (step s o)).
Proof.
  intros G. destruct o; cbn [step]; try (apply gone_attach; assumption); try exact G.
  - destruct (nth_error (guards s) (N.to_nat j)) as [g|] eqn:E; cbn; auto.
    destruct (nth_error_split' _ _ _ E) as [l1 [l2 [E1 E2]]]. destruct G as [A B]. split; auto.
    cbn. rewrite E2. intro H. apply B. rewrite E1. rewrite map_app in *. cbn.
    apply in_app_or in H. apply in_or_app. destruct H; [left|right; right]; auto.
  - destruct (step_w_unchanged_process s (fun _ _ p => p)) as [_ [B C]]. unfold gone. now rewrite B, C.
  - match goal with |- context [do_process s ?pp] => destruct (step_w_unchanged_process s pp) as [_ [B C]] end.
    unfold gone. now rewrite B, C.
  - match goal with |- context [do_process s ?pp] => destruct (step_w_unchanged_process s pp) as [_ [B C]] end.
    unfold gone. now rewrite B, C.
Qed.

Lemma gone_not_reported n s o : gone n s -> not_reported n (snd (step s o)).
Proof.
  intros [A B]. destruct o; cbn [step]; try exact Logic.I.
  - destruct (attach_notification (w s) f) as [w' [a|e]]; exact Logic.I.
  - destruct (attach_deadline (w s) f p) as [w' [a|e]]; exact Logic.I.
  - destruct (attach_interval (w s) p) as [w' [a|e]]; exact Logic.I.
  - destruct (nth_error (guards s) (N.to_nat j)); exact Logic.I.
  - unfold do_process. destruct (process_ids (w s) (pend s)) as [[i1 i2]|]; cbn; auto.
    intro H. apply in_map_iff in H. destruct H as [[m k] [E H]]. cbn in E. subst.
    apply B. apply in_app_or in H. destruct H as [H|H]; eapply classify_nos; eauto.
  - unfold do_process. destruct (process_ids (w s) (pend s)) as [[i1 i2]|]; cbn; auto.
    intro H. apply in_map_iff in H. destruct H as [[m k] [E H]]. cbn in E. subst.
    apply B. apply in_app_or in H. destruct H as [H|H]; eapply classify_nos; eauto.
  - unfold do_process. destruct (process_ids (w s) (pend s)) as [[i1 i2]|]; cbn; auto.
    intro H. apply in_map_iff in H. destruct H as [[m k] [E H]]. cbn in E. subst.
    apply B. apply in_app_or in H. destruct H as [H|H]; eapply classify_nos; eauto.
Qed.

Lemma gone_never_reported n s h : gone n s -> Forall (not_reported n) (snd (run s h)).
Proof.
  revert s; induction h as [|o h IH]; intros s G; cbn; [constructor|].
  assert (G1 := gone_step n s o G). assert (N1 := gone_not_reported n s o G).
  destruct (step s o) as [s1 ob]. cbn [fst snd] in *. specialize (IH s1 G1).
  destruct (run s1 h) as [s2 obs2]. cbn [snd] in *. constructor; auto.
Qed.

Lemma dropped_is_gone s j g :
  Inv s -> nth_error (guards s) (N.to_nat j) = Some g -> gone (g_no g) (fst (step s (ODrop j))).
Proof.
  intros I E. unfold Inv in I. cbn [step]. rewrite E. cbn.
  destruct (nth_error_split' _ _ _ E) as [l1 [l2 [E1 E2]]]. split.
  - cbn. apply (I_no_lt _ _ _ I). rewrite E1. apply in_or_app. right. now left.
  - cbn. rewrite E2. assert (ND := I_nd_no _ _ _ I). rewrite E1 in ND. rewrite map_app in *. cbn in ND.
    now apply NoDup_remove_2 in ND.
Qed.

(* ---------- events are not lost ---------- *)
Lemma add_pend_keep fs p f : In f p -> In f (add_pend fs p).
Proof.
  unfold add_pend. revert p; induction fs as [|a fs IH]; intros p H; cbn; auto.
  apply IH. destruct (memN a p); auto. apply in_or_app. now left.
Qed.

Lemma add_pend_in fs p f : In f fs -> In f (add_pend fs p).
Proof.
  unfold add_pend. revert p; induction fs as [|a fs IH]; intros p H; cbn; [contradiction|].
  destruct H as [H|H].
  - subst. apply (add_pend_keep fs). destruct (memN f p) eqn:E; [now apply memN_In|apply in_or_app; right; now left].
  - now apply IH.
Qed.

Lemma pend_do_attach s r p : pend (fst (do_attach s r p)) = pend s.
Proof. destruct r as [w' [a|e]]; reflexivity. Qed.

Lemma pend_persist s o f :
  In f (pend s) -> o <> ODrain f -> o <> OProcessConsume -> In f (pend (fst (step s o))).
Proof.
  intros H D C. destruct o; cbn [step]; try (rewrite pend_do_attach; assumption).
  - destruct (nth_error (guards s) (N.to_nat j)); cbn; auto.
  - cbn. now apply add_pend_keep.
  - cbn. unfold removeN. apply filter_In. split; auto. apply negb_true_iff. apply N.eqb_neq. intro; subst. now apply D.
  - unfold do_process. destruct (process_ids (w s) (pend s)) as [[i1 i2]|]; cbn; auto.
  - now exfalso.
  - unfold do_process. destruct (process_ids (w s) (pend s)) as [[i1 i2]|]; cbn; auto.
    destruct (i1 ++ i2); auto. now apply add_pend_keep.
Qed.

Lemma pend_persist_run s h f : In f (pend s) -> Forall (keeps f) h -> In f (pend (fst (run s h))).
Proof.
  revert s; induction h as [|o h IH]; intros s H F; cbn; auto.
  inversion F as [|o' h' [K1 K2] F']; subst.
  assert (P := pend_persist s o f H K1 K2).
  destruct (step s o) as [s1 ob]. cbn [fst] in P. specialize (IH s1 P F').
  destruct (run s1 h) as [s2 obs2]. exact IH.
Qed.

Lemma reported_when_pending s f g :
  Inv s -> ready_ok s -> In f (pend s) -> In g (guards s) -> fdk g = Some f ->
  exists dl nt fo, snd (step s OProcess) = ODelivered dl nt fo /\ In (g_no g, KEvent) nt.
Proof.
  intros I R P Hg Hk. rewrite (process_exact s OProcess I R eq_refl). unfold spec_delivery.
  destruct (guards s) as [|g0 gl0] eqn:Eg; [contradiction|]. rewrite <- Eg in *.
  do 3 eexists. split; [reflexivity|].
  unfold dispatch_nt. rewrite flat_map_map. apply in_flat_map. exists g. split; auto.
  unfold abs_g. cbn [fst snd]. rewrite sk_fd_abs, Hk.
  replace (memN f (pend s)) with true by (symmetry; now apply memN_In). now left.
Qed.

(* ---------- a refused attach ---------- *)
Lemma ws_unchanged_refl W : ws_unchanged_but_cursor W W.
Proof. unfold ws_unchanged_but_cursor. repeat split; auto. lia. Qed.

Lemma attach_reject s o e s' :
  Inv s -> op_skind o <> None -> step s o = (s', OAttachErr e) ->
  ws_unchanged_but_cursor (w s) (w s') /\ guards s' = guards s /\ nextg s' = nextg s /\ pend s' = pend s /\
  obs_ok (abs s) o (OAttachErr e) = true.
Proof.
  intros I A H. assert (I' := I). unfold Inv in I'. destruct o; try (exfalso; apply A; reflexivity); cbn [step] in H.
  - rewrite attach_notification_char in H.
    destruct (refused_by_reactor (w s) f) eqn:R.
    + cbn in H. inversion H; subst. refine (conj _ (conj eq_refl (conj eq_refl (conj eq_refl _)))); [apply ws_unchanged_refl|].
      destruct (reactor_refusal_documented s f (SNotif f) I R eq_refl) as [e0 [rest [E1 E2]]].
      unfold obs_ok. cbn [op_skind]. exact E2.
    + destruct (N.eqb (counter (w s)) (rcap (w s))) eqn:C; cbn in H; [|discriminate].
      inversion H; subst. refine (conj _ (conj eq_refl (conj eq_refl (conj eq_refl _)))); [apply ws_unchanged_refl|].
      unfold obs_ok. cbn [op_skind]. rewrite (sp_errs_when_free s f (SNotif f) I R eq_refl), C. reflexivity.
  - rewrite attach_deadline_char in H by (eapply inv_dq_fresh; eauto).
    destruct (refused_by_reactor (w s) f) eqn:R.
    + cbn in H. inversion H; subst. refine (conj _ (conj eq_refl (conj eq_refl (conj eq_refl _)))); [apply ws_unchanged_refl|].
      destruct (reactor_refusal_documented s f (SDeadline f p) I R eq_refl) as [e0 [rest [E1 E2]]].
      unfold obs_ok. cbn [op_skind]. exact E2.
    + destruct (N.eqb (counter (w s)) (rcap (w s))) eqn:C; cbn in H; [|discriminate].
      inversion H; subst. refine (conj _ (conj eq_refl (conj eq_refl (conj eq_refl _)))); [unfold ws_unchanged_but_cursor, W_ai_fail; cbn [w rcap rmaxev rorder reactor dq a2d d2a counter id_count set_dq]; repeat split; auto; lia|].
      unfold obs_ok. cbn [op_skind]. rewrite (sp_errs_when_free s f (SDeadline f p) I R eq_refl), C. reflexivity.
  - rewrite attach_interval_char in H by (eapply inv_dq_fresh; eauto).
    destruct (N.eqb (counter (w s)) (rcap (w s))) eqn:C; cbn in H; [|discriminate].
    inversion H; subst. refine (conj _ (conj eq_refl (conj eq_refl (conj eq_refl _)))); [unfold ws_unchanged_but_cursor, W_ai_fail; cbn [w rcap rmaxev rorder reactor dq a2d d2a counter id_count set_dq]; repeat split; auto; lia|].
    unfold obs_ok. cbn [op_skind]. rewrite (sp_errs_tick s p I), C. reflexivity.
Qed.

(* ---------- the property theorems (stated in props/C20.v) ---------- *)
Lemma p_c20_exact : forall cap maxev ord h o,
  ready_ok (reach cap maxev ord h) -> is_process o = true ->
  snd (step (reach cap maxev ord h) o) = spec_delivery (reach cap maxev ord h).
Proof. intros cap maxev ord h o. apply process_exact. apply run_inv. apply inv_new. Qed.

Lemma p_c20_refines_spec : forall cap maxev ord h,
  cap <= maxev ->
  obs_rel_run (sp_new cap) h (snd (run (sys_new cap maxev ord) h)) (snd (sp_run (sp_new cap) h)).
Proof.
  intros cap maxev ord h H.
  exact (proj2 (run_refines (sys_new cap maxev ord) h (inv_new cap maxev ord) H)).
Qed.

Lemma p_c20_not_lost : forall cap maxev ord h1 fs h2 f g,
  let s2 := fst (run (fst (step (reach cap maxev ord h1) (ONotify fs))) h2) in
  In f fs -> Forall (keeps f) h2 ->
  In g (guards s2) -> fd_of (g_id g) = Some f -> ready_ok s2 ->
  exists dl nt fo, snd (step s2 OProcess) = ODelivered dl nt fo /\ In (g_no g, KEvent) nt.
Proof.
  intros cap maxev ord h1 fs h2 f g s2 Hf Hk Hg Hfd R.
  assert (I1 : Inv (fst (step (reach cap maxev ord h1) (ONotify fs)))).
  { apply step_inv. apply run_inv. apply inv_new. }
  apply (reported_when_pending s2 f g); auto.
  - apply run_inv. exact I1.
  - apply pend_persist_run; auto. cbn. now apply add_pend_in.
Qed.

Lemma p_c20_not_lost_during_processing : forall cap maxev ord h1 fs h2 f g ids1 ids2,
  let s1 := reach cap maxev ord h1 in
  let s2 := fst (run (fst (step s1 (OProcessNotify fs))) h2) in
  process_ids (w s1) (pend s1) = Some (ids1, ids2) -> ids1 ++ ids2 <> [] ->   (* the callback ran *)
  In f fs -> Forall (keeps f) h2 ->
  In g (guards s2) -> fd_of (g_id g) = Some f -> ready_ok s2 ->
  exists dl nt fo, snd (step s2 OProcess) = ODelivered dl nt fo /\ In (g_no g, KEvent) nt.
Proof.
  intros cap maxev ord h1 fs h2 f g ids1 ids2 s1 s2 Hp Hne Hf Hk Hg Hfd R.
  assert (I1 : Inv (fst (step s1 (OProcessNotify fs)))).
  { apply step_inv. apply run_inv. apply inv_new. }
  apply (reported_when_pending s2 f g); auto.
  - apply run_inv. exact I1.
  - apply pend_persist_run; auto. cbn [step]. unfold do_process. rewrite Hp. cbn.
    destruct (ids1 ++ ids2); [now exfalso|]. now apply add_pend_in.
Qed.

Lemma p_c20_callback_ids_belong_to_live_guards : forall cap maxev ord h ids1 ids2 id,
  let s := reach cap maxev ord h in
  process_ids (w s) (pend s) = Some (ids1, ids2) -> In id (ids1 ++ ids2) ->
  exists g k, In g (guards s) /\ classify1 (guards s) id = [(g_no g, k)].
Proof.
  intros cap maxev ord h ids1 ids2 id s. apply callback_ids_live. apply run_inv. apply inv_new.
Qed.

Lemma p_c20_no_dropped_guard_reported : forall cap maxev ord h j g h',
  let s := reach cap maxev ord h in
  nth_error (guards s) (N.to_nat j) = Some g ->
  Forall (not_reported (g_no g)) (snd (run (fst (step s (ODrop j))) h')).
Proof.
  intros cap maxev ord h j g h' s E. apply gone_never_reported. apply dropped_is_gone; auto.
  apply run_inv. apply inv_new.
Qed.

Lemma p_c20_attach_reject_full : forall cap maxev ord h o e s',
  let s := reach cap maxev ord h in
  op_skind o <> None -> step s o = (s', OAttachErr e) ->
  ws_unchanged_but_cursor (w s) (w s') /\ guards s' = guards s /\ nextg s' = nextg s /\ pend s' = pend s /\
  obs_ok (abs s) o (OAttachErr e) = true.
Proof.
  intros cap maxev ord h o e s' s. apply attach_reject. apply run_inv. apply inv_new.
Qed.

(* ---------- concrete instances: the hypotheses of the theorems are satisfiable, former witnesses ---------- *)
Lemma p_c20_exact_nonvacuous :
  let s := reach 3 512 DupFirst [OAttachN 0; OAttachD 1 1; OAttachI 1; ONotify [0; 1]] in
  ready_ok s /\ is_process OProcess = true /\
  snd (step s OProcess) = ODelivered [(1, KMissed); (2, KEvent)] [(0, KEvent); (1, KEvent)] 0.
Proof. vm_compute. repeat split; auto. intro H; discriminate H. Qed.

Lemma p_c20_exact_needs_ready_bound :
  let s := reach 2 1 DupFirst [OAttachN 0; OAttachN 1; ONotify [0; 1]] in
  ~ ready_ok s /\ snd (step s OProcess) <> spec_delivery s.
Proof. vm_compute. split; [intro H; apply H; reflexivity|intro H; discriminate H]. Qed.

Lemma p_c20_refines_spec_nonvacuous :
  (2 <= 2) /\
  snd (run (sys_new 2 2 CapFirst) [OAttachN 0; OAttachI 1; OAttachD 1 1; ODrop 1; OAttachD 1 1; ONotify [1]; OProcessConsume; OProcess]) =
  [OAttached 0; OAttached 1; OAttachErr EInsufficientCapacity; ODropped true; OAttached 2; ODone;
   ODelivered [(2, KMissed)] [(2, KEvent)] 0; ODelivered [(2, KMissed)] [] 0].
Proof. vm_compute. split; [intro H; discriminate H|reflexivity]. Qed.

Lemma p_c20_not_lost_nonvacuous :
  let s2 := fst (run (fst (step (reach 4 512 DupFirst [OAttachN 0]) (ONotify [0; 1]))) [OAttachD 1 3600000000000; OProcess]) in
  In 1 [0; 1] /\ Forall (keeps 1) [OAttachD 1 3600000000000; OProcess] /\ ready_ok s2 /\
  snd (step s2 OProcess) = ODelivered [] [(0, KEvent); (1, KEvent)] 0.
Proof.
  vm_compute. repeat split; auto; try (intro H; discriminate H).
  repeat constructor; intro H; discriminate H.
Qed.

Lemma p_c20_not_lost_during_processing_nonvacuous :
  let s1 := reach 4 512 DupFirst [OAttachN 0; OAttachI 1] in
  let s2 := fst (run (fst (step s1 (OProcessNotify [0]))) []) in
  process_ids (w s1) (pend s1) = Some ([ATick 0], []) /\ ready_ok s2 /\
  snd (step s1 (OProcessNotify [0])) = ODelivered [(1, KEvent)] [] 0 /\
  snd (step s2 OProcess) = ODelivered [(1, KEvent)] [(0, KEvent)] 0.
Proof. vm_compute. repeat split; auto. intro H; discriminate H. Qed.

Lemma p_c20_no_dropped_guard_reported_nonvacuous :
  let s := reach 4 512 DupFirst [OAttachD 0 1; ONotify [0]] in
  (exists g, nth_error (guards s) (N.to_nat 0) = Some g /\ g_no g = 0) /\
  snd (run (fst (step s (ODrop 0))) [OAttachN 0; OProcess]) = [OAttached 1; ODelivered [] [(1, KEvent)] 0].
Proof. vm_compute. split; [eexists; split; reflexivity|reflexivity]. Qed.

Lemma p_c20_attach_reject_full_nonvacuous :
  snd (step (reach 2 2 CapFirst [OAttachN 0; OAttachN 1]) (OAttachN 2)) = OAttachErr EInsufficientCapacity /\
  (let s := reach 2 2 CapFirst [OAttachN 0; OAttachI 3600000000000] in
   snd (step s (OAttachD 1 1)) = OAttachErr EInsufficientCapacity /\
   a2d (w (fst (step s (OAttachD 1 1)))) = [] /\ d2a (w (fst (step s (OAttachD 1 1)))) = [] /\
   id_count (w (fst (step s (OAttachD 1 1)))) = 2) /\
  snd (step (reach 1 1 CapFirst [OAttachN 0]) (OAttachN 0)) = OAttachErr EInsufficientCapacity /\
  snd (step (reach 1 1 DupFirst [OAttachN 0]) (OAttachN 0)) = OAttachErr EAlreadyAttached.
Proof. vm_compute. repeat split; reflexivity. Qed.
