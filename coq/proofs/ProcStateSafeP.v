(* C07: closure checks, processes run as root *)
From V Require Import model.Base model.Conc model.Fs model.ProcState proofs.ProcStateClosure proofs.ProcStateDefs.
Open Scope N_scope.
Lemma mon_safe_p : check true true P_safe (inst_mon None) = true. Proof. vm_compute. reflexivity. Qed.
Lemma cln_safe_p : check true true P_safe (inst_cln None) = true. Proof. vm_compute. reflexivity. Qed.
Lemma mon_exit_nolock_p : check true true P_nolock inst_mon_exit = true. Proof. vm_compute. reflexivity. Qed.
