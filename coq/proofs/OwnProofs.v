(* C17 -- proofs about the reference-counting semantics of model/Own.v.

   Main invariant (Inv): at every point of a cascade of releases, with H the handles the
   application still holds and P the references that are scheduled to be released,
       count x = #H x + #P x + #(references to x from objects that are not yet finalised)
   and  "not finalised <-> count > 0".  Acyclicity enters twice: the cascade terminates within
   rank-many nested calls (no OutOfFuel), and once no handle is left nothing can stay alive
   (an alive object of maximal rank would have count 0).  No enumeration of drop orders. *)
From V Require Import model.Base gen.OwnGraph model.Own.
From Coq Require Import Permutation Lia.

Local Notation cocc := (count_occ Nat.eq_dec).

(* ---------- sums over finite index lists ---------- *)
Lemma list_sum_cons : forall a l, list_sum (a :: l) = a + list_sum l.
Proof. reflexivity. Qed.

Lemma sum_ge_term : forall (f : nat -> nat) l p, In p l -> f p <= list_sum (map f l).
Proof.
  intros f l p; induction l as [|a l IH]; cbn [map In]; intros Hin; [tauto|]. rewrite list_sum_cons.
  destruct Hin as [->|Hin]; [lia|]. specialize (IH Hin). lia.
Qed.

Lemma sum_pos_term : forall (f : nat -> nat) l, list_sum (map f l) > 0 -> exists p, In p l /\ f p > 0.
Proof.
  intros f l; induction l as [|a l IH]; cbn [map]; intros Hs; [cbn in Hs; lia|]. rewrite list_sum_cons in Hs.
  destruct (Nat.eq_dec (f a) 0) as [E|E].
  - destruct IH as [p [Hp Hf]]; [lia|]. exists p; split; [right; exact Hp|exact Hf].
  - exists a; split; [left; reflexivity|lia].
Qed.

Lemma sum_kill : forall (f : nat -> nat) o l, NoDup l -> In o l ->
  list_sum (map (fun p => if Nat.eqb p o then 0 else f p) l) + f o = list_sum (map f l).
Proof.
  intros f o l; induction l as [|a l IH]; intros Hnd Hin; [destruct Hin|].
  inversion Hnd as [|a' l' Hna Hnd']; subst. cbn [map]. rewrite !list_sum_cons.
  destruct Hin as [->|Hin].
  - rewrite Nat.eqb_refl.
    assert (E : map (fun p => if Nat.eqb p o then 0 else f p) l = map f l).
    { apply map_ext_in. intros p Hp. destruct (Nat.eqb p o) eqn:Epo; [|reflexivity].
      apply Nat.eqb_eq in Epo; subst; contradiction. }
    rewrite E. lia.
  - destruct (Nat.eqb a o) eqn:Eao.
    + apply Nat.eqb_eq in Eao; subst; contradiction.
    + specialize (IH Hnd' Hin). lia.
Qed.

Lemma list_max_ge : forall l x, In x l -> x <= list_max l.
Proof.
  intros l x Hin. assert (Hf : Forall (fun k => k <= list_max l) l) by (apply list_max_le; lia).
  rewrite Forall_forall in Hf. apply Hf; exact Hin.
Qed.

Lemma flat_map_ext_in' : forall {A B} (f h : A -> list B) l,
  (forall a, In a l -> f a = h a) -> flat_map f l = flat_map h l.
Proof.
  intros A B f h l; induction l as [|a l IH]; intros Hext; [reflexivity|].
  cbn [flat_map]. rewrite (Hext a (or_introl eq_refl)), IH; [reflexivity|].
  intros b Hb; apply Hext; right; exact Hb.
Qed.

Lemma filter_flat_map : forall {A B} (t : B -> bool) (f : A -> list B) l,
  filter t (flat_map f l) = flat_map (fun a => filter t (f a)) l.
Proof.
  intros A B t f l; induction l as [|a l IH]; [reflexivity|].
  cbn [flat_map]. rewrite filter_app, IH. reflexivity.
Qed.

Lemma rkind_eqb_eq : forall a b, rkind_eqb a b = true -> a = b.
Proof. intros a b; destruct a, b; cbn; intros E; try discriminate E; reflexivity. Qed.

Lemma rsrc_eqb_eq : forall a b, rsrc_eqb a b = true -> a = b.
Proof.
  intros [ka na] [kb nb]; unfold rsrc_eqb; cbn [fst snd]; intros E.
  apply andb_true_iff in E; destruct E as [E1 E2].
  apply rkind_eqb_eq in E1; apply Nat.eqb_eq in E2; subst; reflexivity.
Qed.

Lemma rlist_eqb_eq : forall a b, rlist_eqb a b = true -> a = b.
Proof.
  induction a as [|x a IH]; destruct b as [|y b]; cbn [rlist_eqb]; intros E; try discriminate E; [reflexivity|].
  apply andb_true_iff in E; destruct E as [E1 E2].
  apply rsrc_eqb_eq in E1; apply IH in E2; subst; reflexivity.
Qed.

(* ---------- the type graph: a strictly decreasing rank excludes cycles ---------- *)
Inductive path (edges : list (nat * nat)) : nat -> nat -> Prop :=
  | path_one : forall a b, In (a, b) edges -> path edges a b
  | path_cons : forall a b c, In (a, b) edges -> path edges b c -> path edges a c.

Lemma acyclicb_edge : forall edges a b, acyclicb edges = true -> In (a, b) edges ->
  ty_rank edges b < ty_rank edges a.
Proof.
  intros edges a b Hac Hin. unfold acyclicb in Hac. rewrite forallb_forall in Hac.
  specialize (Hac (a, b) Hin). cbn [fst snd] in Hac. apply Nat.ltb_lt in Hac; exact Hac.
Qed.

Lemma path_rank : forall edges a b, acyclicb edges = true -> path edges a b ->
  ty_rank edges b < ty_rank edges a.
Proof.
  intros edges a b Hac Hp; induction Hp as [a b Hin|a b c Hin Hp IH].
  - apply acyclicb_edge; assumption.
  - pose proof (acyclicb_edge edges a b Hac Hin). lia.
Qed.

Lemma acyclicb_no_cycle : forall edges, acyclicb edges = true -> forall a, ~ path edges a a.
Proof. intros edges Hac a Hp. pose proof (path_rank edges a a Hac Hp). lia. Qed.

Lemma edge_inb_in : forall edges a b, edge_inb edges a b = true -> In (a, b) edges.
Proof.
  intros edges a b E. unfold edge_inb in E. apply existsb_exists in E.
  destruct E as [[x y] [Hin E]]. cbn [fst snd] in E. apply andb_true_iff in E; destruct E as [E1 E2].
  apply Nat.eqb_eq in E1; apply Nat.eqb_eq in E2; subst; exact Hin.
Qed.

(* ---------- reference counting over an instance with a rank ---------- *)
Section Counting.
Variable g : inst.
Variable rk : nat -> nat.
Hypothesis keeps_lt : forall p k, p < nobjs g -> In k (keeps g p) -> k < nobjs g /\ rk k < rk p.

Lemma incoming_kill : forall al o x, o < nobjs g -> al o = true ->
  incoming g (updf al o false) x + cocc (keeps g o) x = incoming g al x.
Proof.
  intros al o x Ho Hal. unfold incoming.
  pose (f := fun p => if al p then cocc (keeps g p) x else 0).
  assert (E : map (fun p => if updf al o false p then cocc (keeps g p) x else 0) (seq 0 (nobjs g))
            = map (fun p => if Nat.eqb p o then 0 else f p) (seq 0 (nobjs g))).
  { apply map_ext. intros p. unfold updf, f. destruct (Nat.eqb p o); reflexivity. }
  rewrite E. fold f.
  assert (Hfo : f o = cocc (keeps g o) x) by (unfold f; rewrite Hal; reflexivity).
  rewrite <- Hfo. apply sum_kill; [apply seq_NoDup|apply in_seq; lia].
Qed.

Lemma incoming_ge : forall al p x, p < nobjs g -> al p = true -> cocc (keeps g p) x <= incoming g al x.
Proof.
  intros al p x Hp Hal. unfold incoming.
  pose (f := fun p => if al p then cocc (keeps g p) x else 0).
  assert (Hfp : f p = cocc (keeps g p) x) by (unfold f; rewrite Hal; reflexivity).
  rewrite <- Hfp. apply (sum_ge_term f). apply in_seq; lia.
Qed.

Lemma incoming_pos : forall al x, incoming g al x > 0 ->
  exists p, p < nobjs g /\ al p = true /\ In x (keeps g p).
Proof.
  intros al x Hpos. unfold incoming in Hpos. apply sum_pos_term in Hpos.
  destruct Hpos as [p [Hin Hf]]. apply in_seq in Hin. exists p. split; [lia|].
  destruct (al p); [|lia]. split; [reflexivity|]. apply (count_occ_In Nat.eq_dec); exact Hf.
Qed.

Record Inv (s : st) (H P : list nat) : Prop := mkInv {
  i_cnt : forall x, cnt s x = cocc H x + cocc P x + incoming g (alive s) x;
  i_alive : forall x, x < nobjs g -> (alive s x = true <-> cnt s x > 0);
  i_bound : forall x, In x H \/ In x P -> x < nobjs g;
  i_log : forall x, x < nobjs g -> (alive s x = false <-> In x (flog s));
  i_logb : forall x, In x (flog s) -> x < nobjs g;
  i_nodup : NoDup (flog s);
  i_ord : forall l1 x l2, flog s = l1 ++ x :: l2 -> forall p, p < nobjs g -> In x (keeps g p) -> In p l2
}.

Definition dec_ok (f : nat) : Prop :=
  forall o s H P, Inv s H (o :: P) -> rk o < f -> exists s', dec f g o s = Done s' /\ Inv s' H P.

Lemma dec_list_inv : forall f, dec_ok f -> forall ks s H P,
  Inv s H (ks ++ P) -> (forall k, In k ks -> rk k < f) ->
  exists s', fold_left (fun acc k => match acc with Done s' => dec f g k s' | e => e end) ks (Done s) = Done s'
             /\ Inv s' H P.
Proof.
  intros f Hok ks; induction ks as [|k ks IH]; intros s H P HI Hrk.
  - exists s; split; [reflexivity|exact HI].
  - cbn [fold_left]. destruct (Hok k s H (ks ++ P) HI (Hrk k (or_introl eq_refl))) as [s1 [E1 HI1]].
    rewrite E1. apply IH; [exact HI1|]. intros k' Hk'; apply Hrk; right; exact Hk'.
Qed.

Lemma dec_inv : forall f, dec_ok f.
Proof.
  induction f as [|f IHf]; intros o s H P HI Hrk; [lia|].
  destruct HI as [Hc Ha Hb Hl Hlb Hnd Hord].
  assert (Ho : o < nobjs g) by (apply Hb; right; left; reflexivity).
  assert (Hco : cnt s o = cocc H o + S (cocc P o) + incoming g (alive s) o).
  { rewrite (Hc o). cbn [count_occ]. destruct (Nat.eq_dec o o) as [_|N]; [reflexivity|contradiction]. }
  cbn [dec]. destruct (cnt s o) as [|c] eqn:Ecnt; [lia|].
  destruct (Nat.eqb c 0) eqn:Ec0.
  - (* last reference *)
    apply Nat.eqb_eq in Ec0; subst c.
    assert (HH0 : cocc H o = 0) by lia. assert (HP0 : cocc P o = 0) by lia.
    assert (HI0 : incoming g (alive s) o = 0) by lia.
    assert (Hao : alive s o = true) by (apply Ha; [exact Ho|lia]).
    assert (Hself : cocc (keeps g o) o = 0).
    { pose proof (incoming_ge (alive s) o o Ho Hao). lia. }
    set (s2 := mkst (updf (cnt s) o 0) (updf (alive s) o false) (o :: flog s)).
    assert (HI2 : Inv s2 H (keeps g o ++ P)).
    { constructor; cbn [cnt alive flog s2].
      - intros x. rewrite count_occ_app.
        pose proof (incoming_kill (alive s) o x Ho Hao) as Hk. unfold updf at 1.
        destruct (Nat.eqb x o) eqn:Exo.
        + apply Nat.eqb_eq in Exo; subst x. lia.
        + apply Nat.eqb_neq in Exo. rewrite (Hc x). cbn [count_occ].
          destruct (Nat.eq_dec o x) as [E|_]; [congruence|]. lia.
      - intros x Hx. unfold updf. destruct (Nat.eqb x o) eqn:Exo.
        + split; [discriminate|lia].
        + apply Ha; exact Hx.
      - intros x [Hx|Hx]; [apply Hb; left; exact Hx|].
        apply in_app_or in Hx. destruct Hx as [Hx|Hx].
        + apply (keeps_lt o x Ho Hx).
        + apply Hb; right; right; exact Hx.
      - intros x Hx. unfold updf. destruct (Nat.eqb x o) eqn:Exo.
        + apply Nat.eqb_eq in Exo; subst x. split; [intros _; left; reflexivity|reflexivity].
        + apply Nat.eqb_neq in Exo. rewrite (Hl x Hx). cbn [In]. split; [tauto|]. intros [E|E]; [congruence|exact E].
      - intros x [E|Hx]; [subst; exact Ho|apply Hlb; exact Hx].
      - constructor; [|exact Hnd]. intros Hin. apply (Hl o Ho) in Hin. congruence.
      - intros l1 x l2 El p Hp Hin. destruct l1 as [|y l1]; cbn [app] in El.
        + inversion El; subst x l2.
          (* every keeper of o is already finalised: no live object references o *)
          apply (Hl p Hp). destruct (alive s p) eqn:Eap; [|reflexivity].
          pose proof (incoming_ge (alive s) p o Hp Eap) as Hge.
          apply (count_occ_In Nat.eq_dec) in Hin. lia.
        + inversion El; subst y. eapply Hord; eauto. }
    destruct (dec_list_inv f IHf (keeps g o) s2 H P HI2) as [s' [E' HI']].
    { intros k Hk. pose proof (keeps_lt o k Ho Hk). lia. }
    exists s'; split; [exact E'|exact HI'].
  - (* other references remain *)
    apply Nat.eqb_neq in Ec0.
    exists (mkst (updf (cnt s) o c) (alive s) (flog s)). split; [reflexivity|].
    constructor; cbn [cnt alive flog]; try assumption.
    + intros x. unfold updf. destruct (Nat.eqb x o) eqn:Exo.
      * apply Nat.eqb_eq in Exo; subst x. lia.
      * apply Nat.eqb_neq in Exo. rewrite (Hc x). cbn [count_occ].
        destruct (Nat.eq_dec o x) as [E|_]; [congruence|]. lia.
    + intros x Hx. unfold updf. destruct (Nat.eqb x o) eqn:Exo.
      * apply Nat.eqb_eq in Exo; subst x. split; [lia|]. intros _. apply Ha; [exact Ho|lia].
      * apply Ha; exact Hx.
    + intros x [Hx|Hx]; apply Hb; [left; exact Hx|right; right; exact Hx].
Qed.

Lemma Inv_perm : forall s H H' P, Inv s H P -> Permutation H H' -> Inv s H' P.
Proof.
  intros s H H' P [Hc Ha Hb Hl Hlb Hnd Hord] Hp. constructor; try assumption.
  - intros x. rewrite (Hc x). rewrite (proj1 (Permutation_count_occ Nat.eq_dec H H') Hp x). reflexivity.
  - intros x [Hx|Hx]; apply Hb; [left; apply (Permutation_in x (Permutation_sym Hp) Hx)|right; exact Hx].
Qed.

Lemma Inv_schedule : forall s h H, Inv s (h :: H) [] -> Inv s H [h].
Proof.
  intros s h H [Hc Ha Hb Hl Hlb Hnd Hord]. constructor; try assumption.
  - intros x. rewrite (Hc x). cbn [count_occ]. destruct (Nat.eq_dec h x); lia.
  - intros x [Hx|Hx]; apply Hb; left; [right; exact Hx|]. destruct Hx as [->|[]]. left; reflexivity.
Qed.

Lemma run_inv : forall fuel, (forall o, o < nobjs g -> rk o < fuel) ->
  forall order s H, Inv s (order ++ H) [] -> exists s', run fuel g order s = Done s' /\ Inv s' H [].
Proof.
  intros fuel Hfuel order; induction order as [|h t IH]; intros s H HI.
  - exists s; split; [reflexivity|exact HI].
  - cbn [run]. cbn [app] in HI. apply Inv_schedule in HI.
    assert (Hh : h < nobjs g) by (apply (i_bound _ _ _ HI); right; left; reflexivity).
    destruct (dec_inv fuel h s (t ++ H) [] HI (Hfuel h Hh)) as [s1 [E1 HI1]].
    rewrite E1. apply IH; exact HI1.
Qed.

(* what the invariant says about a state between two drops *)
Lemma survivors : forall s H, Inv s H [] ->
  (forall h, In h H -> alive s h = true) /\
  (forall p k, p < nobjs g -> alive s p = true -> In k (keeps g p) -> alive s k = true) /\
  (forall x, x < nobjs g -> alive s x = true -> ~ In x (flog s)).
Proof.
  intros s H [Hc Ha Hb Hl Hlb Hnd Hord]. repeat split.
  - intros h Hh. apply Ha; [apply Hb; left; exact Hh|]. rewrite (Hc h).
    apply (count_occ_In Nat.eq_dec) in Hh. lia.
  - intros p k Hp Hap Hk. destruct (keeps_lt p k Hp Hk) as [Hkn _]. apply Ha; [exact Hkn|].
    rewrite (Hc k). pose proof (incoming_ge (alive s) p k Hp Hap).
    apply (count_occ_In Nat.eq_dec) in Hk. lia.
  - intros x Hx Hax Hin. apply (Hl x Hx) in Hin. congruence.
Qed.

Lemma all_dead : forall fuel, (forall o, o < nobjs g -> rk o < fuel) ->
  forall s, Inv s [] [] -> forall x, x < nobjs g -> alive s x = false.
Proof.
  intros fuel Hfuel s [Hc Ha Hb Hl Hlb Hnd Hord].
  assert (Hd : forall d x, x < nobjs g -> fuel - rk x <= d -> alive s x = false).
  { induction d as [|d IH]; intros x Hx Hle.
    - pose proof (Hfuel x Hx). lia.
    - destruct (alive s x) eqn:Eax; [|reflexivity]. exfalso.
      assert (Hpos : cnt s x > 0) by (apply Ha; assumption).
      rewrite (Hc x) in Hpos. cbn [count_occ] in Hpos.
      destruct (incoming_pos (alive s) x) as [p [Hp [Hap Hin]]]; [lia|].
      destruct (keeps_lt p x Hp Hin) as [_ Hrk]. pose proof (Hfuel p Hp).
      rewrite (IH p Hp) in Hap; [discriminate|lia]. }
  intros x Hx. apply (Hd fuel x Hx). lia.
Qed.

Lemma final_log : forall fuel, (forall o, o < nobjs g -> rk o < fuel) ->
  forall s, Inv s [] [] -> Permutation (rev (flog s)) (seq 0 (nobjs g)) /\ fin_order_ok g (rev (flog s)).
Proof.
  intros fuel Hfuel s HI. pose proof (all_dead fuel Hfuel s HI) as Hdead.
  destruct HI as [Hc Ha Hb Hl Hlb Hnd Hord]. split.
  - apply Permutation_trans with (flog s); [apply Permutation_sym, Permutation_rev|].
    apply NoDup_Permutation; [exact Hnd|apply seq_NoDup|].
    intros x; split; intros Hx.
    + apply in_seq. pose proof (Hlb x Hx). lia.
    + apply in_seq in Hx. apply Hl; [lia|]. apply Hdead; lia.
  - intros l1 x l2 El p Hp Hin.
    assert (E : flog s = rev l2 ++ x :: rev l1).
    { rewrite <- (rev_involutive (flog s)), El, rev_app_distr. cbn [rev]. rewrite <- app_assoc. reflexivity. }
    apply in_rev. eapply Hord; eauto.
Qed.

Lemma order_any_time : forall s H, Inv s H [] -> fin_order_ok g (rev (flog s)).
Proof.
  intros s H [Hc Ha Hb Hl Hlb Hnd Hord] l1 x l2 El p Hp Hin.
  assert (E : flog s = rev l2 ++ x :: rev l1).
  { rewrite <- (rev_involutive (flog s)), El, rev_app_distr. cbn [rev]. rewrite <- app_assoc. reflexivity. }
  apply in_rev. eapply Hord; eauto.
Qed.

Lemma init_inv : forall H, (forall h, In h H -> h < nobjs g) ->
  (forall x, x < nobjs g -> cnt (init g H) x > 0) -> Inv (init g H) H [].
Proof.
  intros H Hb Hpos. constructor; cbn [init cnt alive flog].
  - intros x. cbn [count_occ]. lia.
  - intros x Hx. split; [intros _; apply (Hpos x Hx)|reflexivity].
  - intros x [Hx|[]]. apply Hb; exact Hx.
  - intros x Hx. split; [discriminate|intros []].
  - intros x [].
  - constructor.
  - intros l1 x l2 El. destruct l1; discriminate El.
Qed.

End Counting.

(* ---------- instances typed over an acyclic type graph ---------- *)
Section Typed.
Variable edges : list (nat * nat).
Hypothesis Hac : acyclicb edges = true.
Variable g : inst.
Variable H : list nat.
Hypothesis Hwf : wf_instb edges g H = true.

Lemma wf_parts :
  (forall h, In h H -> h < nobjs g) /\
  (forall p k, p < nobjs g -> In k (keeps g p) -> k < nobjs g /\ rank_of edges g k < rank_of edges g p) /\
  (forall x, x < nobjs g -> cnt (init g H) x > 0) /\
  (forall p, p < nobjs g -> o_removes (getobj g p) = filter transient (o_creates (getobj g p))).
Proof.
  unfold wf_instb in Hwf.
  apply andb_true_iff in Hwf; destruct Hwf as [W123 W4].
  apply andb_true_iff in W123; destruct W123 as [W12 W3].
  apply andb_true_iff in W12; destruct W12 as [W1 W2].
  rewrite forallb_forall in W1, W2, W3, W4. repeat split.
  - intros h Hh. apply Nat.ltb_lt. apply W1; exact Hh.
  - assert (Hp' : In p (seq 0 (nobjs g))) by (apply in_seq; lia).
    specialize (W2 p Hp'). rewrite forallb_forall in W2. specialize (W2 k H1).
    apply andb_true_iff in W2. apply Nat.ltb_lt. tauto.
  - assert (Hp' : In p (seq 0 (nobjs g))) by (apply in_seq; lia).
    specialize (W2 p Hp'). rewrite forallb_forall in W2. specialize (W2 k H1).
    apply andb_true_iff in W2. destruct W2 as [_ W2]. apply edge_inb_in in W2.
    unfold rank_of. apply acyclicb_edge; assumption.
  - intros x Hx. apply Nat.ltb_lt. apply W3. apply in_seq; lia.
  - intros p Hp. apply rlist_eqb_eq. apply W4. apply in_seq; lia.
Qed.

Lemma fuel_ok : forall o, o < nobjs g -> rank_of edges g o < inst_fuel edges g.
Proof.
  intros o Ho. unfold inst_fuel.
  assert (rank_of edges g o <= list_max (map (rank_of edges g) (seq 0 (nobjs g)))).
  { apply list_max_ge. apply in_map. apply in_seq; lia. }
  lia.
Qed.

Lemma typed_any_order : forall order, Permutation order H ->
  exists s, run_all edges g order (init g H) = Done s /\
    (forall x, x < nobjs g -> alive s x = false) /\
    Permutation (rev (flog s)) (seq 0 (nobjs g)) /\
    fin_order_ok g (rev (flog s)) /\
    Permutation (removed g s) (filter transient (created g)).
Proof.
  intros order Hperm. destruct wf_parts as [Hb [Hk [Hpos Hres]]].
  pose proof (init_inv g H Hb Hpos) as HI0.
  apply (Inv_perm g _ _ order) in HI0; [|apply Permutation_sym; exact Hperm].
  rewrite <- (app_nil_r order) in HI0.
  destruct (run_inv g (rank_of edges g) Hk (inst_fuel edges g) fuel_ok order _ [] HI0) as [s [E HI]].
  exists s. split; [exact E|].
  pose proof (all_dead g (rank_of edges g) Hk (inst_fuel edges g) fuel_ok s HI) as Hdead.
  destruct (final_log g (rank_of edges g) Hk (inst_fuel edges g) fuel_ok s HI) as [Hpl Hord].
  repeat split; try assumption.
  unfold removed, created.
  apply Permutation_trans with (flat_map (fun o => o_removes (getobj g o)) (seq 0 (nobjs g))).
  - apply Permutation_flat_map; exact Hpl.
  - rewrite filter_flat_map.
    rewrite (flat_map_ext_in' (fun o => o_removes (getobj g o)) (fun a => filter transient (o_creates (getobj g a)))).
    + apply Permutation_refl.
    + intros a Ha. apply in_seq in Ha. apply Hres; lia.
Qed.

Lemma typed_survivors : forall pre post, Permutation (pre ++ post) H ->
  exists s, run_all edges g pre (init g H) = Done s /\
    (forall h, In h post -> alive s h = true) /\
    (forall p k, p < nobjs g -> alive s p = true -> In k (keeps g p) -> alive s k = true) /\
    (forall x, x < nobjs g -> alive s x = true -> ~ In x (flog s)) /\
    fin_order_ok g (rev (flog s)).
Proof.
  intros pre post Hperm. destruct wf_parts as [Hb [Hk [Hpos Hres]]].
  pose proof (init_inv g H Hb Hpos) as HI0.
  apply (Inv_perm g _ _ (pre ++ post)) in HI0; [|apply Permutation_sym; exact Hperm].
  destruct (run_inv g (rank_of edges g) Hk (inst_fuel edges g) fuel_ok pre _ post HI0) as [s [E HI]].
  exists s. split; [exact E|].
  destruct (survivors g (rank_of edges g) Hk s post HI) as [S1 [S2 S3]].
  repeat split; try assumption.
  apply (order_any_time g s post HI).
Qed.

End Typed.

(* the generated table (plus the two OS-level sharing edges) is acyclic: computation *)
Lemma keep_edges_acyclic : acyclicb keep_edges = true.
Proof. vm_compute. reflexivity. Qed.

(* the statements in the argument order of props/C17.v *)
Lemma any_order_thm : forall (edges : list (nat * nat)), acyclicb edges = true ->
  forall (g : inst) (H order : list nat), wf_instb edges g H = true -> Permutation order H ->
  exists s, run_all edges g order (init g H) = Done s /\
    (forall x, x < nobjs g -> alive s x = false) /\
    Permutation (rev (flog s)) (seq 0 (nobjs g)) /\
    fin_order_ok g (rev (flog s)) /\
    Permutation (removed g s) (filter transient (created g)).
Proof. intros edges Hac g H order Hwf Hp. exact (typed_any_order edges Hac g H Hwf order Hp). Qed.

Lemma any_order_generated : forall (g : inst) (H order : list nat),
  wf_instb keep_edges g H = true -> Permutation order H ->
  exists s, run_all keep_edges g order (init g H) = Done s /\
    (forall x, x < nobjs g -> alive s x = false) /\
    Permutation (rev (flog s)) (seq 0 (nobjs g)) /\
    fin_order_ok g (rev (flog s)) /\
    Permutation (removed g s) (filter transient (created g)).
Proof. exact (any_order_thm keep_edges keep_edges_acyclic). Qed.

Lemma survivors_thm : forall (edges : list (nat * nat)), acyclicb edges = true ->
  forall (g : inst) (H pre post : list nat), wf_instb edges g H = true -> Permutation (pre ++ post) H ->
  exists s, run_all edges g pre (init g H) = Done s /\
    (forall h, In h post -> alive s h = true) /\
    (forall p k, p < nobjs g -> alive s p = true -> In k (keeps g p) -> alive s k = true) /\
    (forall x, x < nobjs g -> alive s x = true -> ~ In x (flog s)) /\
    fin_order_ok g (rev (flog s)).
Proof. intros edges Hac g H pre post Hwf Hp. exact (typed_survivors edges Hac g H Hwf pre post Hp). Qed.

(* ---------- the connection of a departed sender is released only when nothing is borrowed ---------- *)
Lemma scan_from_and : forall chs d b,
  scan_from andb chs d b = (d || existsb fst chs, b || existsb (fun c => Nat.ltb 0 (snd c)) chs).
Proof.
  induction chs as [|[cd cb] r IH]; intros d b; cbn [scan_from existsb fst snd].
  - rewrite !orb_false_r. reflexivity.
  - destruct ((d || cd) && (b || Nat.ltb 0 cb)) eqn:E.
    + apply andb_true_iff in E; destruct E as [E1 E2].
      rewrite !orb_assoc, E1, E2. reflexivity.
    + rewrite IH, !orb_assoc. reflexivity.
Qed.

(* computation over the generated decision rows: the early exit of the scan is `&&`, an expired
   connection is released iff it has neither borrows nor data, kept on disconnect iff data or borrows *)
Lemma brk_code_is_and : brk_code = andb.
Proof. vm_compute. reflexivity. Qed.
Lemma remove_rule_is : remove_rule_code = (fun d b => negb b && negb d).
Proof. vm_compute. reflexivity. Qed.
Lemma keep_rule_is : keep_if_data_or_borrows = true.
Proof. vm_compute. reflexivity. Qed.

Lemma scan_spec : forall chs, scan chs = (existsb fst chs, existsb (fun c => Nat.ltb 0 (snd c)) chs).
Proof. intros chs. unfold scan. rewrite brk_code_is_and, scan_from_and. reflexivity. Qed.

Lemma existsb_false_all : forall {A} (f : A -> bool) l, existsb f l = false -> forall x, In x l -> f x = false.
Proof.
  intros A f l E x Hin. destruct (f x) eqn:Ef; [|reflexivity].
  assert (existsb f l = true) by (apply existsb_exists; exists x; split; assumption). congruence.
Qed.

(* a rule that releases only when nothing is borrowed *)
Lemma removed_no_borrow_with : forall (rule : bool -> bool -> bool), (forall d b, rule d b = true -> b = false) ->
  forall chs c m, poll_expired_with rule chs c m = XRemove ->
  (forall ch, In ch chs -> snd ch = 0) /\ fst (nth c chs (false, 0)) = false.
Proof.
  intros rule Hrule chs c m. unfold poll_expired_with. destruct (nth c chs (false, 0)) as [cd cb] eqn:En.
  destruct (Nat.eqb cb m); [discriminate|]. destruct cd; [discriminate|].
  rewrite scan_spec. destruct (rule _ _) eqn:Er; [|discriminate]. intros _.
  apply Hrule in Er. split; [|reflexivity]. intros ch Hin.
  pose proof (existsb_false_all _ _ Er ch Hin) as Hf. cbn beta in Hf. apply Nat.ltb_ge in Hf. lia.
Qed.

Lemma expired_removed_no_borrow : forall chs c m, poll_expired chs c m = XRemove ->
  (forall ch, In ch chs -> snd ch = 0) /\ fst (nth c chs (false, 0)) = false.
Proof.
  unfold poll_expired. rewrite remove_rule_is. apply removed_no_borrow_with.
  intros d b E. apply andb_true_iff in E. destruct E as [E _]. apply negb_true_iff in E. exact E.
Qed.

Lemma keep_on_disconnect_iff : forall chs,
  keep_on_disconnect chs = true <-> exists ch, In ch chs /\ (fst ch = true \/ 0 < snd ch).
Proof.
  intros chs. unfold keep_on_disconnect. rewrite scan_spec, keep_rule_is.
  rewrite orb_true_iff, !existsb_exists. split.
  - intros [[ch [Hin Hf]]|[ch [Hin Hf]]]; exists ch; split; try assumption; [left; exact Hf|right; apply Nat.ltb_lt; exact Hf].
  - intros [ch [Hin [Hf|Hf]]]; [left|right]; exists ch; split; try assumption. apply Nat.ltb_lt; exact Hf.
Qed.

(* "... and no delivered, unreceived chunk of ANY channel is discarded": holds since fix 9915d96 *)
Definition expired_keeps_data_with (rule : bool -> bool -> bool) : Prop :=
  forall chs c m, poll_expired_with rule chs c m = XRemove -> forall ch, In ch chs -> fst ch = false.
Definition expired_keeps_data_full : Prop := expired_keeps_data_with remove_rule_code.
Lemma expired_keeps_data : expired_keeps_data_full.
Proof.
  unfold expired_keeps_data_full. rewrite remove_rule_is. intros chs c m. unfold poll_expired_with.
  destruct (nth c chs (false, 0)) as [cd cb]. destruct (Nat.eqb cb m); [discriminate|]. destruct cd; [discriminate|].
  rewrite scan_spec. destruct (existsb fst chs) eqn:Ed.
  - rewrite andb_false_r. discriminate.
  - intros _ ch Hin. exact (existsb_false_all _ _ Ed ch Hin).
Qed.
(* the condition before the fix (`if !has_borrows`) released a connection with data on another channel *)
Lemma expired_keeps_data_old_refuted : ~ expired_keeps_data_with remove_if_old.
Proof.
  intros H. specialize (H [(true, 0); (false, 0)] 1 2).
  assert (E : poll_expired_with remove_if_old [(true, 0); (false, 0)] 1 2 = XRemove) by (vm_compute; reflexivity).
  specialize (H E (true, 0) (or_introl eq_refl)). discriminate H.
Qed.

(* why the early exit must be `&&`: with `||` the scan stops at the first channel that merely has
   data and never sees the borrow on a later channel *)
Lemma scan_or_misses_later_borrow : scan_from orb [(true, 0); (false, 1)] false false = (true, false).
Proof. reflexivity. Qed.

(* ---------- a connection with a live borrow can always be parked ---------- *)
Lemma expired_capacity_ge : forall buffer maxb, maxb <= expired_capacity buffer maxb /\ buffer <= expired_capacity buffer maxb.
Proof.
  intros buffer maxb. unfold expired_capacity.
  assert (E : cap_arg_is_sized && cap_size_is_max = true) by (vm_compute; reflexivity).
  rewrite E. destruct (Nat.leb maxb buffer) eqn:El; [apply Nat.leb_le in El|apply Nat.leb_gt in El]; lia.
Qed.

Lemma all_borrowed_sum : forall (l : list econn), existsb (fun e => Nat.eqb (snd e) 0) l = false ->
  List.length l <= list_sum (map snd l).
Proof.
  induction l as [|[d b] l IH]; cbn [existsb map snd List.length]; intros E; [cbn; lia|].
  apply orb_false_iff in E; destruct E as [E1 E2]. apply Nat.eqb_neq in E1. specialize (IH E2).
  rewrite list_sum_cons. lia.
Qed.

Lemma park_never_fatal : forall buffer maxb (l : list econn) (c : econn), 0 < snd c ->
  list_sum (map snd l) + snd c <= maxb -> park (expired_capacity buffer maxb) l c <> ParkFatalPanic.
Proof.
  intros buffer maxb l c Hc Hsum. unfold park.
  match goal with |- context [if ?b then Parked else _] => destruct b eqn:El end; [discriminate|].
  match goal with |- context [if ?b then ParkedEvictingIdle else _] => destruct b end; [discriminate|].
  match goal with |- context [if ?b then _ else NewDiscarded] => destruct b end; [|discriminate].
  match goal with |- context [if ?b then ParkedDiscardingData else _] => destruct b eqn:Ee end; [discriminate|]. intros _.
  apply Nat.ltb_ge in El. pose proof (all_borrowed_sum l Ee). destruct (expired_capacity_ge buffer maxb). lia.
Qed.

(* with the raw buffer as capacity (buffer 1 < max borrowed samples 2) the second borrowed connection is fatal *)
Lemma park_raw_buffer_fatal : park 1 [(false, 1)] (false, 1) = ParkFatalPanic.
Proof. reflexivity. Qed.

(* ---------- a refused open leaves no service tag ---------- *)
Lemma refused_open_no_tag : forall k left, open_run open_steps_code k false false = Some left -> left = false.
Proof.
  assert (E : open_steps_code = [OCreateTag; OFallible; OFallible; OReleaseTag]) by (vm_compute; reflexivity).
  rewrite E. intros [|[|k]] left; cbn [open_run andb negb]; intros H; inversion H; reflexivity.
Qed.
