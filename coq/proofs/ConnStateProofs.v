(* Invariants of the connection lifecycle step model (model/ConnState.v), all schedules, any
   number of threads.  Shape as in SpscQueueProofs.v: GInv (global, incl. ghost), LInv (per
   thread by pc), frame lemma for the steps of other threads, step_inv, inv_reachable. *)
From V Require Import model.Base model.Conc model.Events model.ConnState proofs.ListLemmas.
From Coq Require Import ZifyBool ZifyNat ZifyN.
Open Scope N_scope.

(* ---------------- byte level ---------------- *)
Definition valid_st (c : N) : Prop := c = 0 \/ c = 1 \/ c = 2 \/ c = 3 \/ c = 128.

Fixpoint upto (n : nat) : list N := match n with O => [] | S k => upto k ++ [N.of_nat k] end.

Lemma upto_in n b : (N.to_nat b < n)%nat -> In b (upto n).
Proof.
  induction n as [|n IH]; intros H; [lia|]. cbn [upto]. apply in_or_app.
  destruct (Nat.eq_dec (N.to_nat b) n) as [E|E].
  - right. left. subst n. now rewrite N2Nat.id.
  - left. apply IH. lia.
Qed.

Definition other (r : role) : role := match r with RSend => RRecv | RRecv => RSend end.

(* everything the CAS loops can compute from any value of the byte *)
Definition byte_ok (b : N) : bool :=
  forallb (fun r =>
    (* reserve_port *)
    (match reserve_check b r with
     | RsvAnother => negb (N.land b (rbit r) =? 0)
     | RsvCleanup => (N.land b (rbit r) =? 0) && negb (N.land b MARKED =? 0)
     | RsvTry n => (N.land b (rbit r) =? 0) && (N.land b MARKED =? 0) && (n <? 256)
                   && negb (N.land n (rbit r) =? 0) && (N.land n (rbit (other r)) =? N.land b (rbit (other r)))
                   && (N.land n MARKED =? 0)
     end) &&
    (* remove_state *)
    (let n := remove_new b r in
     (n <? 256) &&
     (if b =? rbit r then n =? MARKED
      else (N.land n (rbit r) =? 0) && (N.land n (rbit (other r)) =? N.land b (rbit (other r)))
           && (N.land n MARKED =? N.land b MARKED))))
    [RSend; RRecv].

Lemma byte_table : forallb byte_ok (upto 256) = true.
Proof. vm_compute. reflexivity. Qed.

Lemma byte_ok_all b : b < 256 -> byte_ok b = true.
Proof.
  intros H. pose proof byte_table as T. rewrite forallb_forall in T. apply T. apply upto_in. lia.
Qed.

Lemma valid_cases (P : N -> Prop) : P 0 -> P 1 -> P 2 -> P 3 -> P 128 -> forall c, valid_st c -> P c.
Proof. intros ? ? ? ? ? c [->|[->|[->|[->| ->]]]]; auto. Qed.

(* ---------------- invariants ---------------- *)
Definition att (g : gst) (t : nat) (h : handle) : Prop :=
  holder (get_inc g (h_inc h)) (h_role h) = Some (t, h_id h) \/ In (t, h_id h) (stolen g).

Definition inc_ok (x : inc) : Prop :=
  valid_st (i_st x) /\
  (i_hs x = None <-> N.land (i_st x) 1 = 0) /\
  (i_hr x = None <-> N.land (i_st x) 2 = 0).

Definition mkP (g : gst) (i : nat) : Prop :=
  saw_marked g = false -> st_of g i = MARKED /\ cur g = Some i.

Definition GInv (g : gst) : Prop :=
  (forall i, cur g = Some i -> (i < length (incs g))%nat) /\
  (forall i, (i < length (incs g))%nat -> inc_ok (get_inc g i)) /\
  (NoDup (removed g) /\ forall i, In i (removed g) -> (i < length (incs g))%nat /\ cur g <> Some i) /\
  (saw_marked g = false -> forall i, (i < length (incs g))%nat -> st_of g i <> MARKED -> cur g = Some i) /\
  (saw_marked g = false -> forall u, In u (unl g) -> unlink_good u = true).

Definition inflight (p : pc) : option handle :=
  match p with
  | Idle => None
  | CrLoad h _ | CrCas h _ _ | CrFail h _ | CrOwn h _ | CrRel h
  | RsLoad h _ | RsCas h _ _ | Acq h _ | DrOwn h _ | DrRm h _ => Some h
  end.

Definition marker (l : lst) : option nat :=
  match at_pc l with
  | Acq h _ => Some (h_inc h)
  | DrOwn h _ => if h_own h then Some (h_inc h) else None
  | DrRm h _ => Some (h_inc h)
  | _ => None
  end.

Definition slot_free (l : lst) (h : handle) : Prop := nth (h_id h) (hs l) None = None.

Definition pc_ok (g : gst) (t : nat) (l : lst) : Prop :=
  match at_pc l with
  | Idle => True
  | CrLoad h _ => h_id h = opi l
  | CrCas h _ c => h_id h = opi l /\ N.land c (rbit (h_role h)) = 0 /\ N.land c MARKED = 0
  | CrFail h _ => h_id h = opi l
  | CrOwn h _ => h_id h = opi l /\ att g t h
  | CrRel h => h_id h = opi l /\ att g t h
  | RsLoad h w => h_own h = false /\ slot_free l h /\ (w <> WForce -> att g t h)
  | RsCas h w _ => h_own h = false /\ slot_free l h /\ (w <> WForce -> att g t h)
  | Acq _ _ | DrOwn _ _ | DrRm _ _ => True
  end.

Definition LInv (g : gst) (t : nat) (l : lst) : Prop :=
  length (hs l) = opi l /\
  (forall k h, nth k (hs l) None = Some h ->
     (h_inc h < length (incs g))%nat /\ h_own h = false /\ h_id h = k /\ att g t h) /\
  (forall h, inflight (at_pc l) = Some h -> (h_inc h < length (incs g))%nat) /\
  pc_ok g t l /\
  (forall i, marker l = Some i -> mkP g i).

Definition Inv (c : cfg gst lst) : Prop :=
  GInv (fst c) /\ (forall t, LInv (fst c) t (snd c t)) /\
  (saw_marked (fst c) = false -> forall t t' i, marker (snd c t) = Some i -> marker (snd c t') = Some i -> t = t').

(* ---------------- list / record helpers ---------------- *)
Lemma get_set_same g i x : (i < length (incs g))%nat -> get_inc (set_inc g i x) i = x.
Proof. intros H. unfold get_inc, set_inc; cbn [incs]. now apply nth_upd_same. Qed.

Lemma get_set_other g i j x : i <> j -> get_inc (set_inc g i x) j = get_inc g j.
Proof. intros H. unfold get_inc, set_inc; cbn [incs]. now apply nth_upd_other. Qed.

Lemma set_inc_len g i x : length (incs (set_inc g i x)) = length (incs g).
Proof. unfold set_inc; cbn [incs]. apply upd_length. Qed.

Lemma nth_app_new {A} (l : list A) x d : nth (length l) (l ++ [x]) d = x.
Proof. rewrite app_nth2 by lia. now rewrite Nat.sub_diag. Qed.

Lemma nth_app_old {A} (l : list A) x d k : (k < length l)%nat -> nth k (l ++ [x]) d = nth k l d.
Proof. intros H. now apply app_nth1. Qed.

Lemma removed_app g u :
  flat_map (fun u => match u_rm u with Some i => [i] | None => [] end) (unl g ++ [u]) =
  removed g ++ match u_rm u with Some i => [i] | None => [] end.
Proof. unfold removed. rewrite flat_map_app. cbn. now rewrite app_nil_r. Qed.

Lemma hid_eqb_eq a b : hid_eqb a b = true <-> a = b.
Proof.
  destruct a as [a1 a2], b as [b1 b2]. unfold hid_eqb; cbn [fst snd]. rewrite andb_true_iff, !Nat.eqb_eq.
  split; [intros [-> ->]; reflexivity | intros E; inversion E; auto].
Qed.

Lemma holder_set_same x r st v : holder (set_holder x r st v) r = v.
Proof. destruct r; reflexivity. Qed.
Lemma holder_set_other x r st v : holder (set_holder x r st v) (other r) = holder x (other r).
Proof. destruct r; reflexivity. Qed.
Lemma st_set_holder x r st v : i_st (set_holder x r st v) = st.
Proof. destruct r; reflexivity. Qed.
Lemma role_cases r r' : r' = r \/ r' = other r.
Proof. destruct r, r'; auto. Qed.

Lemma stolen_steal g o me x : In x (stolen g) -> In x (stolen (steal g o me)).
Proof.
  intros H. unfold steal. destruct o as [o|]; auto. destruct (hid_eqb o me); auto. cbn [stolen]. now right.
Qed.
Lemma steal_fields g o me :
  cur (steal g o me) = cur g /\ incs (steal g o me) = incs g /\ unl (steal g o me) = unl g /\
  saw_marked (steal g o me) = saw_marked g.
Proof. unfold steal. destruct o as [o|]; auto. destruct (hid_eqb o me); auto. Qed.
