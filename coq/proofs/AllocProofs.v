(* C15: address arithmetic of the pool / bump / one-chunk allocators, PointerOffset codec,
   resize hints, chunk layouts and segment sizing.  All statements are universally quantified
   (no enumeration). *)
From V Require Import model.Base model.Alloc proofs.AllocArith.
From Coq Require Import ZifyBool ZifyNat ZifyN Permutation.
Open Scope N_scope.

(* ------------------------------------------------------------------ pool geometry *)
Lemma pool_nbuckets_val bl ptr size n :
  pool_nbuckets bl ptr size = Val n ->
  align ptr (lalign bl) <= ptr + size /\ align (lsize bl) (lalign bl) <> 0 /\
  n = (ptr + size - align ptr (lalign bl)) / align (lsize bl) (lalign bl).
Proof.
  unfold pool_nbuckets. destruct (N.ltb_spec (ptr + size) (align ptr (lalign bl))); [discriminate|].
  destruct (N.eqb_spec (align (lsize bl) (lalign bl)) 0); [discriminate|].
  intros E. inversion E. auto.
Qed.

Lemma pool_new_fields bl ptr size p :
  pool_new bl ptr size = Val p ->
  p_bsize p = align (lsize bl) (lalign bl) /\ p_balign p = lalign bl /\ p_start p = align ptr (lalign bl) /\
  p_size p = size /\ pool_nbuckets bl ptr size = Val (p_nb p) /\ p_free p = nseq 0 (N.to_nat (p_nb p)).
Proof.
  unfold pool_new. destruct (pool_nbuckets bl ptr size) as [n|]; [|discriminate].
  intros E. inversion E. cbn. auto 10.
Qed.

(* n * (aligned bucket size) fits between the aligned start and the end of the block *)
Lemma pool_capacity_fits bl ptr size n :
  pool_nbuckets bl ptr size = Val n ->
  align ptr (lalign bl) + n * align (lsize bl) (lalign bl) <= ptr + size.
Proof.
  intros H. apply pool_nbuckets_val in H. destruct H as (Hs & Hb & ->).
  pose proof (N.mul_div_le (ptr + size - align ptr (lalign bl)) (align (lsize bl) (lalign bl)) Hb) as Hd.
  remember ((ptr + size - align ptr (lalign bl)) / align (lsize bl) (lalign bl)) as n.
  remember (align (lsize bl) (lalign bl)) as abs. nia.
Qed.

Theorem pool_inbounds bl ptr size p i :
  lalign bl <> 0 -> pool_new bl ptr size = Val p -> i < p_nb p ->
  ptr <= bucket_addr p i /\ bucket_addr p i + p_bsize p <= ptr + size.
Proof.
  intros Ha Hn Hi. apply pool_new_fields in Hn. destruct Hn as (Hb & _ & Hs & _ & Hnb & _).
  pose proof (pool_capacity_fits _ _ _ _ Hnb) as Hfit.
  pose proof (align_ge ptr (lalign bl) Ha) as Hge.
  unfold bucket_addr. rewrite Hb, Hs. split; [lia|]. nia.
Qed.

Theorem pool_disjoint (p : pool) i j :
  i <> j ->
  bucket_addr p i + p_bsize p <= bucket_addr p j \/ bucket_addr p j + p_bsize p <= bucket_addr p i.
Proof.
  intros Hij. unfold bucket_addr.
  destruct (N.lt_ge_cases i j) as [H|H]; [left|right]; nia.
Qed.

(* every bucket address is a multiple of the bucket alignment -- no guard needed any more:
   the stride is the aligned bucket size *)
Theorem pool_aligned bl ptr size p i :
  lalign bl <> 0 -> pool_new bl ptr size = Val p ->
  (p_balign p | bucket_addr p i).
Proof.
  intros Ha Hn. apply pool_new_fields in Hn. destruct Hn as (Hb & Hal & Hs & _).
  unfold bucket_addr. rewrite Hb, Hal, Hs. apply N.divide_add_r.
  - apply align_divide; exact Ha.
  - apply N.divide_mul_r. apply align_divide; exact Ha.
Qed.

(* F13 regression (fixed by 1e23dc4): Layout(5,4) over a 16-aligned block; the second bucket
   handed out for an accepted Layout(4,4) request used to be start+5, it is start+8 now *)
Theorem pool_f13_regression :
  exists p p1 p2 a1 a2,
    pool_new {| lsize := 5; lalign := 4 |} 1048576 64 = Val p /\
    pool_allocate p {| lsize := 4; lalign := 4 |} = (p1, AOk a1) /\
    pool_allocate p1 {| lsize := 4; lalign := 4 |} = (p2, AOk a2) /\
    a2 = 1048576 + 8 /\ a2 mod 4 = 0.
Proof.
  eexists. eexists. eexists. eexists. eexists.
  split; [vm_compute; reflexivity|]. split; [vm_compute; reflexivity|]. split; [vm_compute; reflexivity|].
  split; reflexivity.
Qed.

(* a successful allocation *)
Theorem pool_size_ok p l p' addr :
  pool_allocate p l = (p', AOk addr) ->
  lsize l <= p_bsize p /\ lalign l <= p_balign p /\
  exists i, p_free p = i :: p_free p' /\ addr = bucket_addr p i /\
            p_bsize p' = p_bsize p /\ p_balign p' = p_balign p /\ p_start p' = p_start p /\
            p_size p' = p_size p /\ p_nb p' = p_nb p.
Proof.
  unfold pool_allocate.
  destruct (N.ltb_spec (p_bsize p) (lsize l)); [intros E; inversion E|].
  destruct (N.ltb_spec (p_balign p) (lalign l)); [intros E; inversion E|].
  destruct (p_free p) as [|i r] eqn:Hf; [intros E; inversion E|].
  intros E. inversion E. subst. cbn. split; [lia|]. split; [lia|]. exists i. auto 10.
Qed.

(* rejected requests: the documented error, nothing changes *)
Theorem pool_reject p l :
  (p_bsize p < lsize l -> pool_allocate p l = (p, AErr ESizeTooLarge)) /\
  (lsize l <= p_bsize p -> p_balign p < lalign l -> pool_allocate p l = (p, AErr EAlignmentFailure)) /\
  (lsize l <= p_bsize p -> lalign l <= p_balign p -> p_free p = [] -> pool_allocate p l = (p, AErr EOutOfMemory)) /\
  (forall p' e, pool_allocate p l = (p', AErr e) -> p' = p).
Proof.
  unfold pool_allocate. repeat split.
  - intros H. destruct (N.ltb_spec (p_bsize p) (lsize l)); [reflexivity|lia].
  - intros H1 H2. destruct (N.ltb_spec (p_bsize p) (lsize l)); [lia|].
    destruct (N.ltb_spec (p_balign p) (lalign l)); [reflexivity|lia].
  - intros H1 H2 H3. destruct (N.ltb_spec (p_bsize p) (lsize l)); [lia|].
    destruct (N.ltb_spec (p_balign p) (lalign l)); [lia|]. rewrite H3. reflexivity.
  - intros p' e. destruct (N.ltb (p_bsize p) (lsize l)); [intros E; inversion E; reflexivity|].
    destruct (N.ltb (p_balign p) (lalign l)); [intros E; inversion E; reflexivity|].
    destruct (p_free p); intros E; inversion E; reflexivity.
Qed.

(* get_index inverts bucket_addr; a freed bucket is the next one handed out *)
Definition pool_geom (p : pool) : Prop := 1 <= p_bsize p /\ p_nb p * p_bsize p <= p_size p.

Lemma pool_new_geom bl ptr size p :
  lalign bl <> 0 -> 1 <= lsize bl -> pool_new bl ptr size = Val p -> pool_geom p.
Proof.
  intros Ha Hs Hn. apply pool_new_fields in Hn. destruct Hn as (Hb & _ & Hst & Hsz & Hnb & _).
  pose proof (pool_capacity_fits _ _ _ _ Hnb) as Hfit.
  pose proof (align_ge ptr (lalign bl) Ha). pose proof (align_ge (lsize bl) (lalign bl) Ha).
  unfold pool_geom. rewrite Hb, Hsz. split; lia.
Qed.

Lemma pool_get_index_bucket p i :
  pool_geom p -> i < p_nb p -> pool_get_index p (bucket_addr p i) = Val i.
Proof.
  intros [Hb Hfit] Hi. unfold pool_get_index, pool_ptr_managed, bucket_addr.
  assert (Hz : p_bsize p <> 0) by lia.
  replace (p_start p + i * p_bsize p - p_start p) with (i * p_bsize p) by lia.
  rewrite N.mod_mul by exact Hz. rewrite N.div_mul by exact Hz.
  destruct (N.eqb_spec (p_bsize p) 0); [lia|].
  destruct (N.ltb_spec (p_start p + i * p_bsize p) (p_start p)); [lia|].
  destruct (N.ltb_spec (p_start p + p_size p) (p_start p + i * p_bsize p)); [nia|].
  reflexivity.
Qed.

Theorem pool_free_reusable p i l :
  pool_geom p -> i < p_nb p -> lsize l <= p_bsize p -> lalign l <= p_balign p ->
  exists p1 p2, pool_deallocate p (bucket_addr p i) = Val p1 /\
                pool_allocate p1 l = (p2, AOk (bucket_addr p i)) /\ p_free p2 = p_free p.
Proof.
  intros Hg Hi Hs Ha. unfold pool_deallocate. rewrite pool_get_index_bucket by assumption.
  eexists. eexists. split; [reflexivity|]. unfold pool_allocate. cbn [p_bsize p_balign p_free p_start p_size p_nb].
  destruct (N.ltb_spec (p_bsize p) (lsize l)); [lia|].
  destruct (N.ltb_spec (p_balign p) (lalign l)); [lia|]. split; reflexivity.
Qed.

(* ------------------------------------------------------------------ pool histories *)
(* The allocator state over any allocate / deallocate history: `live` are the addresses
   currently handed out (deallocate is only ever called with one of them: the Rust safety
   contract).  Invariant: free indices and live indices together are duplicate-free and
   below the bucket count, so two live allocations are different buckets. *)
Inductive pop := PAlloc (l : layout) | PFree (k : nat).

Fixpoint remove_nth {A} (k : nat) (l : list A) : list A :=
  match l, k with [], _ => [] | _ :: t, O => t | h :: t, S j => h :: remove_nth j t end.

Definition pool_step (st : pool * list N) (o : pop) : res (pool * list N) :=
  let '(p, live) := st in
  match o with
  | PAlloc l => match pool_allocate p l with
                | (p', AOk a) => Val (p', a :: live)
                | (p', AErr _) => Val (p', live)
                end
  | PFree k => match nth_error live k with
               | None => Val (p, live)
               | Some a => match pool_deallocate p a with
                           | Panic => Panic
                           | Val p' => Val (p', remove_nth k live)
                           end
               end
  end.

Fixpoint pool_run (st : pool * list N) (ops : list pop) : res (pool * list N) :=
  match ops with
  | [] => Val st
  | o :: r => match pool_step st o with Panic => Panic | Val st' => pool_run st' r end
  end.

Definition pool_hinv (p0 : pool) (st : pool * list N) : Prop :=
  let '(p, live) := st in
  p_bsize p = p_bsize p0 /\ p_balign p = p_balign p0 /\ p_start p = p_start p0 /\ p_size p = p_size p0 /\
  p_nb p = p_nb p0 /\
  exists idx, live = map (bucket_addr p0) idx /\ NoDup (p_free p ++ idx) /\
              (forall i, In i (p_free p ++ idx) -> i < p_nb p0).

Lemma nseq_spec s len i : In i (nseq s len) <-> s <= i < s + N.of_nat len.
Proof.
  revert s. induction len as [|k IH]; intros s; cbn [nseq In].
  - lia.
  - rewrite IH. lia.
Qed.

Lemma nseq_nodup s len : NoDup (nseq s len).
Proof.
  revert s. induction len as [|k IH]; intros s; cbn [nseq]; constructor.
  - rewrite nseq_spec. lia.
  - apply IH.
Qed.

Lemma pool_hinv_init bl ptr size p : pool_new bl ptr size = Val p -> pool_hinv p (p, []).
Proof.
  intros Hn. apply pool_new_fields in Hn. destruct Hn as (_ & _ & _ & _ & _ & Hf).
  cbn. repeat split; try reflexivity. exists []. rewrite app_nil_r, Hf. split; [reflexivity|]. split.
  - apply nseq_nodup.
  - intros i Hi. apply nseq_spec in Hi. lia.
Qed.

Lemma nth_error_map_inv {A B} (f : A -> B) l k b :
  nth_error (map f l) k = Some b -> exists a, nth_error l k = Some a /\ b = f a.
Proof.
  revert k. induction l as [|h t IH]; intros [|k]; cbn; try discriminate.
  - intros E. inversion E. eauto.
  - apply IH.
Qed.

Lemma remove_nth_map {A B} (f : A -> B) l k : remove_nth k (map f l) = map f (remove_nth k l).
Proof. revert k. induction l as [|h t IH]; intros [|k]; cbn; auto. now rewrite IH. Qed.

Lemma nth_error_split_remove {A} (l : list A) k a :
  nth_error l k = Some a -> exists l1 l2, l = l1 ++ a :: l2 /\ remove_nth k l = l1 ++ l2.
Proof.
  revert k. induction l as [|h t IH]; intros [|k]; cbn; try discriminate.
  - intros E. inversion E. exists [], t. auto.
  - intros E. destruct (IH _ E) as (l1 & l2 & -> & ->). exists (h :: l1), l2. auto.
Qed.

Lemma pool_step_inv p0 st o :
  pool_geom p0 -> pool_hinv p0 st -> exists st', pool_step st o = Val st' /\ pool_hinv p0 st'.
Proof.
  intros Hg. destruct st as [p live]. intros (Hb & Hal & Hs & Hsz & Hnb & idx & Hl & Hnd & Hlt).
  destruct o as [l|k]; cbn [pool_step].
  - destruct (pool_allocate p l) as [p' [a|e]] eqn:E.
    + apply pool_size_ok in E. destruct E as (_ & _ & i & Hf & Ha & Hb' & Hal' & Hs' & Hsz' & Hnb').
      eexists. split; [reflexivity|]. cbn. repeat split; try congruence.
      exists (i :: idx). split; [cbn; f_equal; [rewrite Ha; unfold bucket_addr; congruence|exact Hl]|].
      rewrite Hf in Hnd, Hlt. split.
      * cbn in Hnd. apply (Permutation_NoDup (l := i :: p_free p' ++ idx)).
        -- apply Permutation_middle.
        -- exact Hnd.
      * intros j Hj. apply Hlt. cbn. apply in_app_or in Hj. destruct Hj as [Hj|[Hj|Hj]]; auto.
        -- right. apply in_or_app. auto.
        -- right. apply in_or_app. auto.
    + pose proof (proj2 (proj2 (proj2 (pool_reject p l))) _ _ E) as ->.
      eexists. split; [reflexivity|]. cbn. repeat split; try assumption. exists idx. auto.
  - destruct (nth_error live k) as [a|] eqn:En.
    + rewrite Hl in En. apply nth_error_map_inv in En. destruct En as (i & Ei & ->).
      assert (Hi : i < p_nb p0).
      { apply Hlt. apply in_or_app. right. eapply nth_error_In; eauto. }
      unfold pool_deallocate.
      assert (Hgi : pool_get_index p (bucket_addr p0 i) = Val i).
      { assert (Hbb : bucket_addr p0 i = bucket_addr p i) by (unfold bucket_addr; congruence).
        rewrite Hbb. apply pool_get_index_bucket; [|congruence].
        destruct Hg as [G1 G2]. unfold pool_geom. rewrite Hb, Hnb, Hsz. auto. }
      rewrite Hgi. eexists. split; [reflexivity|]. cbn. repeat split; try assumption.
      destruct (nth_error_split_remove _ _ _ Ei) as (l1 & l2 & Hidx & Hrem).
      exists (remove_nth k idx). split; [rewrite Hl; apply remove_nth_map|].
      rewrite Hrem. rewrite Hidx in Hnd, Hlt. split.
      * apply (Permutation_NoDup (l := p_free p ++ l1 ++ i :: l2)); [|exact Hnd].
        cbn. rewrite app_assoc. rewrite (app_assoc (p_free p) l1 l2).
        apply Permutation_sym. apply Permutation_middle.
      * intros j Hj. apply Hlt. cbn in Hj. destruct Hj as [<-|Hj].
        -- apply in_or_app. right. apply in_or_app. right. left. reflexivity.
        -- apply in_app_or in Hj. destruct Hj as [Hj|Hj]; [apply in_or_app; auto|].
           apply in_or_app. right. apply in_app_or in Hj. apply in_or_app. destruct Hj; [auto|right; right; auto].
    + eexists. split; [reflexivity|]. cbn. repeat split; try assumption. exists idx. auto.
Qed.

Lemma pool_run_inv p0 ops : pool_geom p0 -> forall st,
  pool_hinv p0 st -> exists st', pool_run st ops = Val st' /\ pool_hinv p0 st'.
Proof.
  intros Hg. induction ops as [|o r IH]; intros st Hi; cbn [pool_run].
  - eauto.
  - destruct (pool_step_inv p0 st o Hg Hi) as (st' & -> & Hi'). apply IH. exact Hi'.
Qed.

Lemma NoDup_app_r {A} (l1 l2 : list A) : NoDup (l1 ++ l2) -> NoDup l2.
Proof. induction l1 as [|h t IH]; cbn; [auto|]. intros H. inversion H. auto. Qed.

Lemma NoDup_nth_error_neq {A} (l : list A) i j a b :
  NoDup l -> i <> j -> nth_error l i = Some a -> nth_error l j = Some b -> a <> b.
Proof.
  intros Hnd Hij Ha Hb Heq. subst b.
  assert (Hi : (i < length l)%nat) by (apply nth_error_Some; congruence).
  rewrite <- Ha in Hb. apply (proj1 (NoDup_nth_error l) Hnd) in Hb; [congruence|].
  apply nth_error_Some. congruence.
Qed.

(* over every history the allocator never panics, and any two live allocations are distinct
   buckets inside the block *)
Theorem pool_history_safe bl ptr size p0 ops :
  lalign bl <> 0 -> 1 <= lsize bl -> pool_new bl ptr size = Val p0 ->
  lsize bl <= p_bsize p0 /\
  exists p live, pool_run (p0, []) ops = Val (p, live) /\
    (forall k a, nth_error live k = Some a ->
       ptr <= a /\ a + p_bsize p0 <= ptr + size /\ (lalign bl | a)) /\
    (forall k1 k2 a1 a2, k1 <> k2 -> nth_error live k1 = Some a1 -> nth_error live k2 = Some a2 ->
       a1 + p_bsize p0 <= a2 \/ a2 + p_bsize p0 <= a1).
Proof.
  intros Ha Hs Hn.
  pose proof (pool_new_geom _ _ _ _ Ha Hs Hn) as Hg.
  assert (Hbs : p_bsize p0 = align (lsize bl) (lalign bl)) by (apply pool_new_fields in Hn; tauto).
  assert (Hba : p_balign p0 = lalign bl) by (apply pool_new_fields in Hn; tauto).
  split; [rewrite Hbs; apply align_ge; exact Ha|].
  destruct (pool_run_inv p0 ops Hg (p0, []) (pool_hinv_init _ _ _ _ Hn)) as ([p live] & Hr & Hi).
  exists p, live. split; [exact Hr|].
  destruct Hi as (_ & _ & _ & _ & _ & idx & Hl & Hnd & Hlt).
  split.
  - intros k a Hk. rewrite Hl in Hk. apply nth_error_map_inv in Hk. destruct Hk as (i & Hi & ->).
    assert (Hib : i < p_nb p0) by (apply Hlt; apply in_or_app; right; eapply nth_error_In; eauto).
    destruct (pool_inbounds bl ptr size p0 i Ha Hn Hib) as [B1 B2]. split; [exact B1|]. split; [exact B2|].
    rewrite <- Hba. apply (pool_aligned bl ptr size p0 i Ha Hn).
  - intros k1 k2 a1 a2 Hk E1 E2. rewrite Hl in E1, E2.
    apply nth_error_map_inv in E1. apply nth_error_map_inv in E2.
    destruct E1 as (i & Hi & ->). destruct E2 as (j & Hj & ->).
    apply pool_disjoint.
    apply NoDup_app_r in Hnd. eapply NoDup_nth_error_neq; eauto.
Qed.

(* ------------------------------------------------------------------ bump allocator *)
Theorem bump_alloc_ok b l b' addr :
  lalign l <> 0 -> b_pos b <= b_total b -> bump_allocate b l = (b', AOk addr) ->
  addr mod lalign l = 0 /\
  b_start b + b_pos b <= addr /\ addr + lsize l = b_start b' + b_pos b' /\
  b_pos b' <= b_total b' /\ b_start b' = b_start b /\ b_total b' = b_total b /\ 1 <= lsize l.
Proof.
  intros Ha Hp. unfold bump_allocate.
  destruct (N.eqb_spec (lsize l) 0); [intros E; inversion E|].
  pose proof (align_ge (b_start b + b_pos b) (lalign l) Ha) as Hge.
  destruct (N.ltb_spec (b_total b) (align (b_start b + b_pos b) (lalign l) - b_start b + lsize l)); [intros E; inversion E|].
  intros E. inversion E. subst. cbn.
  replace (b_start b + (align (b_start b + b_pos b) (lalign l) - b_start b)) with (align (b_start b + b_pos b) (lalign l)) by lia.
  split; [apply align_mod; exact Ha|]. repeat split; lia.
Qed.

Theorem bump_reject b l :
  (lsize l = 0 -> bump_allocate b l = (b, AErr ESizeIsZero)) /\
  (forall b' e, bump_allocate b l = (b', AErr e) -> b' = b /\ (e = ESizeIsZero \/ e = EOutOfMemory)).
Proof.
  unfold bump_allocate. split.
  - intros ->. reflexivity.
  - intros b' e. destruct (N.eqb (lsize l) 0); [intros E; inversion E; auto|].
    destruct (N.ltb (b_total b) _); intros E; inversion E; auto.
Qed.

(* every allocation of a run: (address, size, alignment) *)
Fixpoint bump_run (b : bump) (ls : list layout) : list live :=
  match ls with
  | [] => []
  | l :: r => match bump_allocate b l with
              | (b', AOk a) => {| lv_addr := a; lv_size := lsize l; lv_align := lalign l |} :: bump_run b' r
              | (b', AErr _) => bump_run b' r
              end
  end.

Lemma bump_run_bounds ls : Forall (fun l => lalign l <> 0) ls -> forall b,
  b_pos b <= b_total b ->
  Forall (fun x => b_start b + b_pos b <= lv_addr x /\ lv_addr x + lv_size x <= b_start b + b_total b /\
                   lv_addr x mod lv_align x = 0) (bump_run b ls).
Proof.
  induction 1 as [|l r Hl Hr IH]; intros b Hp; cbn [bump_run]; [constructor|].
  destruct (bump_allocate b l) as [b' [a|e]] eqn:E.
  - destruct (bump_alloc_ok _ _ _ _ Hl Hp E) as (Hal & Hlo & Hhi & Hp' & Hs' & Ht' & _).
    constructor; [cbn; split; [lia|split; [lia|exact Hal]]|].
    eapply Forall_impl; [|apply (IH b' Hp')]. cbn. intros x (H1 & H2 & H3). repeat split; try lia; exact H3.
  - destruct (proj2 (bump_reject b l) _ _ E) as [-> _]. apply IH; exact Hp.
Qed.

Theorem bump_history_safe start total ls :
  Forall (fun l => lalign l <> 0) ls ->
  live_ok start (start + total) (bump_run (bump_new start total) ls) = true.
Proof.
  intros Hls.
  assert (G : forall b, b_pos b <= b_total b ->
              forallb (live_ok_one (b_start b) (b_start b + b_total b)) (bump_run b ls) = true /\
              live_pairwise_disjoint (bump_run b ls) = true).
  { induction Hls as [|l r Hl Hr IH]; intros b Hp; cbn [bump_run]; [split; reflexivity|].
    destruct (bump_allocate b l) as [b' [a|e]] eqn:E.
    - destruct (bump_alloc_ok _ _ _ _ Hl Hp E) as (Hal & Hlo & Hhi & Hp' & Hs' & Ht' & _).
      destruct (IH b' Hp') as [I1 I2]. rewrite Hs', Ht' in I1.
      cbn [forallb live_pairwise_disjoint]. rewrite I1, I2. split.
      + rewrite andb_true_r. unfold live_ok_one. cbn [lv_addr lv_size lv_align]. rewrite Hal.
        destruct (N.leb_spec (b_start b) a); [|lia].
        destruct (N.leb_spec (a + lsize l) (b_start b + b_total b)); [reflexivity|lia].
      + rewrite andb_true_r. pose proof (bump_run_bounds r Hr b' Hp') as Hb.
        clear -Hb Hhi. induction Hb as [|x t Hx Ht IHt]; cbn [live_disjoint_from]; [reflexivity|].
        rewrite IHt, andb_true_r. unfold ranges_disjoint. cbn [lv_addr lv_size].
        destruct Hx as (Hx & _). destruct (N.leb_spec (a + lsize l) (lv_addr x)); [reflexivity|lia].
    - destruct (proj2 (bump_reject b l) _ _ E) as [-> _]. apply IH; exact Hp. }
  unfold live_ok. destruct (G (bump_new start total)) as [G1 G2]; [cbn; lia|].
  cbn [b_start b_total bump_new] in G1. rewrite G1, G2. reflexivity.
Qed.

(* ------------------------------------------------------------------ one-chunk allocator *)
Theorem onechunk_alloc_ok o l o' addr :
  lalign l <> 0 -> oc_allocate o l = Val (o', AOk addr) ->
  oc_chunk o = 0 /\ addr mod lalign l = 0 /\ oc_start o <= addr /\ addr + lsize l < oc_start o + oc_size o /\
  oc_chunk o' = addr.
Proof.
  intros Ha. unfold oc_allocate.
  destruct (N.eqb_spec (oc_chunk o) 0) as [Hc|Hc]; cbn [negb]; [|intros E; inversion E].
  pose proof (align_ge (oc_start o) (lalign l) Ha).
  destruct (N.ltb_spec (oc_size o) (align (oc_start o) (lalign l) - oc_start o)); [discriminate|].
  destruct (N.leb_spec (oc_size o - (align (oc_start o) (lalign l) - oc_start o)) (lsize l)); intros E; inversion E.
  subst. cbn. split; [exact Hc|]. split; [apply align_mod; exact Ha|]. repeat split; lia.
Qed.

Theorem onechunk_exclusive o l :
  oc_chunk o <> 0 -> oc_allocate o l = Val (o, AErr EOutOfMemory).
Proof.
  intros Hc. unfold oc_allocate. destruct (N.eqb_spec (oc_chunk o) 0); [contradiction|reflexivity].
Qed.

(* ------------------------------------------------------------------ PointerOffset *)
Theorem offset_codec offset seg :
  offset < 2 ^ 56 -> seg < 256 ->
  po_offset (po_make offset seg) = offset /\ po_segment (po_make offset seg) = seg.
Proof.
  intros Ho Hs. rewrite po_make_arith by assumption. rewrite po_offset_arith, po_segment_arith.
  apply divmod_256; exact Hs.
Qed.

Theorem offset_set_segment v seg :
  seg < 256 -> po_offset (po_set_segment v seg) = po_offset v /\ po_segment (po_set_segment v seg) = seg.
Proof.
  intros Hs. rewrite po_set_segment_arith by exact Hs. rewrite !po_offset_arith, po_segment_arith.
  apply divmod_256; exact Hs.
Qed.

(* beyond 2^56 the shift silently drops bits (usize offset on a 64-bit target) *)
Theorem offset_codec_truncates : po_offset (po_make (2 ^ 56) 0) = 0.
Proof. vm_compute. reflexivity. Qed.

(* ------------------------------------------------------------------ resize hints *)
Theorem resize_hint_count_rule used nb s :
  (used <> nb -> resize_hint_count used nb s = nb) /\
  (used = nb -> match s with
                | BestFit => resize_hint_count used nb s = nb + 1
                | PowerOfTwo => nb + 1 <= resize_hint_count used nb s /\ exists k, resize_hint_count used nb s = 2 ^ k
                | Static => resize_hint_count used nb s = nb
                end).
Proof.
  unfold resize_hint_count. split.
  - intros H. destruct (N.eqb_spec used nb); [contradiction|reflexivity].
  - intros ->. rewrite N.eqb_refl. destruct s; auto. split; [apply next_pow2_ge|apply next_pow2_is_pow2].
Qed.

Theorem resize_hint_layout_rule cur l s :
  lalign cur <> 0 -> lalign l <> 0 ->
  let r := resize_hint_layout cur l s in
  (s = Static -> r = cur) /\
  (s <> Static -> lsize cur <= lsize r /\ lsize l <= lsize r /\ lalign cur <= lalign r /\ lalign l <= lalign r /\
                  lalign r <> 0 /\ ((lalign cur | lsize cur) -> (lalign r | lsize r))) /\
  (s = PowerOfTwo -> (lsize cur < lsize l \/ lalign cur < lalign l) ->
                  (exists k, lalign r = 2 ^ k) /\ (lalign r | lsize r)).
Proof.
  intros Hc Hl. unfold resize_hint_layout.
  assert (Hma : N.max (lalign l) (lalign cur) <> 0) by lia.
  pose proof (next_pow2_ge (N.max (lalign l) (lalign cur))) as Hpa.
  pose proof (next_pow2_ge (N.max (lsize l) (lsize cur))) as Hps.
  pose proof (next_pow2_pos (N.max (lalign l) (lalign cur))) as Hpz.
  pose proof (align_ge (N.max (lsize l) (lsize cur)) _ Hma) as Hb1.
  pose proof (align_divide (N.max (lsize l) (lsize cur)) _ Hma) as Hb2.
  pose proof (align_ge (next_pow2 (N.max (lsize l) (lsize cur))) _ Hpz) as Hp1.
  pose proof (align_divide (next_pow2 (N.max (lsize l) (lsize cur))) _ Hpz) as Hp2.
  destruct (N.ltb (lsize cur) (lsize l) || N.ltb (lalign cur) (lalign l)) eqn:Hcond.
  - destruct s; cbn [lsize lalign]; rewrite ?next_multiple_of_align by assumption.
    + split; [discriminate|]. split; [|discriminate]. intros _. repeat split; try lia. intros _. exact Hb2.
    + split; [discriminate|]. split.
      * intros _. repeat split; try lia. intros _. exact Hp2.
      * intros _ _. split; [apply next_pow2_is_pow2|exact Hp2].
    + split; [reflexivity|]. split; [intros H; contradiction|discriminate].
  - assert (lsize l <= lsize cur /\ lalign l <= lalign cur) as [G1 G2] by lia.
    split; [reflexivity|]. split.
    + intros _. repeat split; try lia. auto.
    + intros _ Hor. lia.
Qed.

(* ------------------------------------------------------------------ message_type_details *)
Definition mtd_ok (m : mtd) : Prop :=
  td_align (m_header m) <> 0 /\ td_align (m_uheader m) <> 0 /\ td_align (m_payload m) <> 0.

Theorem chunk_layout_guard m n :
  mtd_ok m ->
  let cl := chunk_layout m n in
  lalign cl <> 0 /\ (lalign cl | lsize cl) /\
  td_align (m_header m) <= lalign cl /\ td_align (m_uheader m) <= lalign cl /\ td_align (m_payload m) <= lalign cl /\
  all_headers_len m + align (td_size (m_payload m)) (td_align (m_payload m)) * n <= lsize cl.
Proof.
  intros (H1 & H2 & H3). cbn [chunk_layout lsize lalign]. unfold mtd_max_alignment.
  assert (Hz : N.max (N.max (td_align (m_header m)) (td_align (m_uheader m))) (td_align (m_payload m)) <> 0) by lia.
  split; [exact Hz|]. split; [apply align_divide; exact Hz|]. repeat split; try lia. apply align_ge; exact Hz.
Qed.

(* header at an address that is a multiple of the user-header and payload alignments (true for
   every bucket of a pool whose bucket alignment is the chunk layout's, when alignments are
   powers of two): user header and payload are aligned and the payload of n elements ends
   inside the chunk *)
Theorem chunk_payload_fits m n h :
  mtd_ok m -> (td_align (m_uheader m) | h) -> (td_align (m_payload m) | h) ->
  (td_align (m_uheader m) | user_header_ptr_from_header m h) /\
  (td_align (m_payload m) | payload_ptr_from_header m h) /\
  payload_ptr_from_header m h = h + all_headers_len m /\
  h + td_size (m_header m) <= user_header_ptr_from_header m h /\
  user_header_ptr_from_header m h + td_size (m_uheader m) <= payload_ptr_from_header m h /\
  payload_ptr_from_header m h + align (td_size (m_payload m)) (td_align (m_payload m)) * n
    <= h + lsize (chunk_layout m n).
Proof.
  intros Hok Hu Hp. pose proof (chunk_layout_guard m n Hok) as (_ & _ & _ & _ & _ & Hfit).
  destruct Hok as (H1 & H2 & H3).
  unfold payload_ptr_from_header, user_header_ptr_from_header, all_headers_len in *.
  rewrite (align_add_multiple h _ _ H2 Hu).
  rewrite <- N.add_assoc. rewrite (align_add_multiple h _ _ H3 Hp).
  split; [apply N.divide_add_r; [exact Hu|apply align_divide; exact H2]|].
  split; [apply N.divide_add_r; [exact Hp|apply align_divide; exact H3]|].
  split; [reflexivity|].
  pose proof (align_ge (td_size (m_header m)) _ H2).
  pose proof (align_ge (align (td_size (m_header m)) (td_align (m_uheader m)) + td_size (m_uheader m)) _ H3).
  repeat split; lia.
Qed.

Lemma pow2_divide_max2 i j :
  (2 ^ i | N.max (2 ^ i) (2 ^ j)) /\ (2 ^ j | N.max (2 ^ i) (2 ^ j)) /\ exists m, N.max (2 ^ i) (2 ^ j) = 2 ^ m.
Proof.
  destruct (N.max_spec (2 ^ i) (2 ^ j)) as [[H ->]|[H ->]]; repeat split; eauto;
    try apply N.divide_refl; apply pow2_le_divide; lia.
Qed.

Lemma pow2_divide_max a b c i j k :
  a = 2 ^ i -> b = 2 ^ j -> c = 2 ^ k -> (b | N.max (N.max a b) c) /\ (c | N.max (N.max a b) c).
Proof.
  intros -> -> ->. destruct (pow2_divide_max2 i j) as (_ & Hb & m & E). rewrite E in *.
  destruct (pow2_divide_max2 m k) as (Hm & Hk & _). split; [|exact Hk].
  eapply N.divide_trans; [exact Hb|exact Hm].
Qed.

(* ------------------------------------------------------------------ segment sizing *)
Theorem segment_enough bs a ptr k :
  1 <= bs -> a <> 0 -> (a | bs) ->
  exists n, pool_nbuckets {| lsize := bs; lalign := a |} ptr (static_segment_size {| lsize := bs; lalign := a |} k) = Val n /\ k <= n.
Proof.
  intros Hb Ha Hd. unfold pool_nbuckets, static_segment_size. cbn [lsize lalign].
  rewrite (align_id bs a Ha Hd).
  pose proof (align_lt ptr a Ha) as Hlt. pose proof (align_ge ptr a Ha) as Hge.
  destruct (N.ltb_spec (ptr + (bs * k + a - 1)) (align ptr a)); [lia|].
  destruct (N.eqb_spec bs 0); [lia|].
  eexists. split; [reflexivity|]. apply N.div_le_lower_bound; [lia|]. nia.
Qed.

(* The dynamic segment (initial_setup_hint / resize_hint: size * k bytes) has no alignment
   slack.  The full claim "it yields the requested number of buckets for every payload start"
   is false (known finding F18); what does hold: it is enough when the payload start is a
   multiple of the bucket alignment, and in general at most ONE bucket is lost. *)
Definition dyn_segment_enough_full : Prop :=
  forall bs a ptr k, 1 <= bs -> a <> 0 -> (a | bs) -> 1 <= k ->
  exists n, pool_nbuckets {| lsize := bs; lalign := a |} ptr (dynamic_segment_size {| lsize := bs; lalign := a |} k) = Val n /\ k <= n.

(* F18: payload start 8 mod 16 (what the posix and process-local shared memory produce),
   Layout(16,16), one chunk requested: zero buckets *)
Theorem dyn_segment_enough_refuted : ~ dyn_segment_enough_full.
Proof.
  intros H. destruct (H 16 16 (1048576 + 8) 1) as (n & Hn & Hk); try lia.
  - exists 1. reflexivity.
  - vm_compute in Hn. inversion Hn. subst. lia.
Qed.

Theorem dyn_segment_enough_aligned bs a ptr k :
  1 <= bs -> a <> 0 -> (a | bs) -> (a | ptr) ->
  exists n, pool_nbuckets {| lsize := bs; lalign := a |} ptr (dynamic_segment_size {| lsize := bs; lalign := a |} k) = Val n /\ k <= n.
Proof.
  intros Hb Ha Hd Hp. unfold pool_nbuckets, dynamic_segment_size, setup_payload_size. cbn [lsize lalign].
  rewrite (align_id bs a Ha Hd). rewrite (align_id ptr a Ha Hp).
  destruct (N.ltb_spec (ptr + bs * k) ptr); [lia|].
  destruct (N.eqb_spec bs 0); [lia|].
  eexists. split; [reflexivity|]. apply N.div_le_lower_bound; [lia|]. nia.
Qed.

Theorem dyn_segment_enough_partial bs a ptr k :
  1 <= bs -> a <> 0 -> (a | bs) -> 1 <= k ->
  exists n, pool_nbuckets {| lsize := bs; lalign := a |} ptr (dynamic_segment_size {| lsize := bs; lalign := a |} k) = Val n /\ k - 1 <= n.
Proof.
  intros Hb Ha Hd Hk. unfold pool_nbuckets, dynamic_segment_size, setup_payload_size. cbn [lsize lalign].
  rewrite (align_id bs a Ha Hd).
  pose proof (align_lt ptr a Ha) as Hlt. pose proof (align_ge ptr a Ha) as Hge.
  assert (Hab : a <= bs).
  { destruct Hd as [q Hq]. destruct (N.eq_dec q 0) as [->|Hq0]; [lia|]. assert (1 <= q) by lia. rewrite Hq. nia. }
  destruct (N.ltb_spec (ptr + bs * k) (align ptr a)); [nia|].
  destruct (N.eqb_spec bs 0); [lia|].
  eexists. split; [reflexivity|]. apply N.div_le_lower_bound; [lia|]. nia.
Qed.

(* ------------------------------------------------------------------ FixedSizePoolAllocator::new *)
(* since fix 5269bf7 the constructor is total: whenever the bucket count is computable the
   index set memory (MAX+1 cells) suffices *)
Theorem fixed_ctor_total max mgmt bl ptr size n :
  (4 | mgmt) -> pool_nbuckets bl ptr size = Val n ->
  exists p, fixed_pool_new max mgmt bl ptr size = Val p /\ p_nb p = N.min n max.
Proof.
  intros Hm Hn. unfold fixed_pool_new. rewrite Hn. unfold bump_allocate, bump_new.
  cbn [lsize lalign b_start b_pos b_total snd].
  destruct (N.eqb_spec (4 * (N.min n max + 1)) 0); [lia|].
  rewrite N.add_0_r. rewrite (align_id mgmt 4) by (try lia; exact Hm).
  replace (mgmt - mgmt) with 0 by lia.
  assert (H8 : 4 * (max + 1) <= align (4 * (max + 1)) 8) by (apply align_ge; lia).
  destruct (N.ltb_spec (align (4 * (max + 1)) 8) (0 + 4 * (N.min n max + 1))); [lia|].
  cbn [snd]. eexists. split; [reflexivity|]. reflexivity.
Qed.

Theorem fixed_ctor_total' max mgmt bl ptr size :
  (4 | mgmt) -> 1 <= lsize bl -> lalign bl <> 0 -> align ptr (lalign bl) <= ptr + size ->
  exists p, fixed_pool_new max mgmt bl ptr size = Val p.
Proof.
  intros Hm Hs Ha Hfit.
  assert (exists n, pool_nbuckets bl ptr size = Val n) as [n Hn].
  { unfold pool_nbuckets. destruct (N.ltb_spec (ptr + size) (align ptr (lalign bl))); [lia|].
    pose proof (align_ge (lsize bl) (lalign bl) Ha).
    destruct (N.eqb_spec (align (lsize bl) (lalign bl)) 0); [lia|]. eauto. }
  destruct (fixed_ctor_total max mgmt bl ptr size n Hm Hn) as (p & Hp & _). eauto.
Qed.

(* F16 regression: MAX = 4, Layout(8,8), aligned block of 32 bytes = exactly MAX buckets *)
Theorem fixed_f16_regression :
  exists p, fixed_pool_new 4 0 {| lsize := 8; lalign := 8 |} 1048576 32 = Val p /\ p_nb p = 4.
Proof. eexists. split; vm_compute; reflexivity. Qed.

(* ------------------------------------------------------------------ publisher chain *)
Definition mtd_pow2 (m : mtd) : Prop :=
  (exists i, td_align (m_header m) = 2 ^ i) /\ (exists j, td_align (m_uheader m) = 2 ^ j) /\
  (exists k, td_align (m_payload m) = 2 ^ k).

Lemma mtd_pow2_ok m : mtd_pow2 m -> mtd_ok m.
Proof. intros ((i & Hi) & (j & Hj) & (k & Hk)). unfold mtd_ok. rewrite Hi, Hj, Hk. repeat split; apply N.pow_nonzero; lia. Qed.

Lemma mtd_pow2_divides m : mtd_pow2 m ->
  (td_align (m_header m) | mtd_max_alignment m) /\ (td_align (m_uheader m) | mtd_max_alignment m) /\
  (td_align (m_payload m) | mtd_max_alignment m).
Proof.
  intros ((i & Hi) & (j & Hj) & (k & Hk)). unfold mtd_max_alignment. rewrite Hi, Hj, Hk.
  destruct (pow2_divide_max2 i j) as (Ha & Hb & mm & E). rewrite E in *.
  destruct (pow2_divide_max2 mm k) as (Hm & Hc & _).
  split; [eapply N.divide_trans; [exact Ha|exact Hm]|]. split; [eapply N.divide_trans; [exact Hb|exact Hm]|exact Hc].
Qed.

(* The data segment of a publisher / client / server is a pool whose bucket layout is
   chunk_layout m n (publisher.rs, data_segment.rs).  For every bucket of such a pool: the
   chunk header, the user header and the payload are aligned as their types require and the
   payload of n elements ends inside the bucket -- whatever the block start and size. *)
Theorem publisher_chunk_aligned m n ptr size p i :
  mtd_pow2 m -> pool_new (chunk_layout m n) ptr size = Val p ->
  let h := bucket_addr p i in
  p_bsize p = lsize (chunk_layout m n) /\
  (td_align (m_header m) | h) /\
  (td_align (m_uheader m) | user_header_ptr_from_header m h) /\
  (td_align (m_payload m) | payload_ptr_from_header m h) /\
  h + td_size (m_header m) <= user_header_ptr_from_header m h /\
  user_header_ptr_from_header m h + td_size (m_uheader m) <= payload_ptr_from_header m h /\
  payload_ptr_from_header m h + align (td_size (m_payload m)) (td_align (m_payload m)) * n <= h + p_bsize p.
Proof.
  intros Hp2 Hn h. pose proof (mtd_pow2_ok m Hp2) as Hok.
  destruct (chunk_layout_guard m n Hok) as (Hz & Hdiv & _).
  destruct (mtd_pow2_divides m Hp2) as (D1 & D2 & D3).
  pose proof (pool_aligned _ ptr size p i Hz Hn) as Hal.
  pose proof (pool_new_fields _ _ _ _ Hn) as (Hb & Hba & _).
  rewrite (align_id _ _ Hz Hdiv) in Hb. rewrite Hba in Hal. cbn [chunk_layout lalign] in Hal.
  fold h in Hal.
  assert (H1 : (td_align (m_header m) | h)) by (eapply N.divide_trans; eauto).
  assert (H2 : (td_align (m_uheader m) | h)) by (eapply N.divide_trans; eauto).
  assert (H3 : (td_align (m_payload m) | h)) by (eapply N.divide_trans; eauto).
  destruct (chunk_payload_fits m n h Hok H2 H3) as (F1 & F2 & _ & F4 & F5 & F6).
  rewrite Hb. auto 10.
Qed.

(* and the static data segment (data_segment.rs sizing) holds the requested number of chunks *)
Theorem publisher_static_segment_enough m n ptr k :
  mtd_ok m -> 1 <= lsize (chunk_layout m n) ->
  exists nb, pool_nbuckets (chunk_layout m n) ptr (static_segment_size (chunk_layout m n) k) = Val nb /\ k <= nb.
Proof.
  intros Hok Hs. destruct (chunk_layout_guard m n Hok) as (Hz & Hdiv & _).
  pose proof (segment_enough (lsize (chunk_layout m n)) (lalign (chunk_layout m n)) ptr k Hs Hz Hdiv) as H.
  destruct (chunk_layout m n). exact H.
Qed.
