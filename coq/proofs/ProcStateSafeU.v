(* C07: closure checks, processes run as an ordinary user *)
From V Require Import model.Base model.Conc model.Fs model.ProcState proofs.ProcStateClosure proofs.ProcStateDefs.
Open Scope N_scope.
Lemma mon_safe_u : check false true P_safe (inst_mon None) = true. Proof. vm_compute. reflexivity. Qed.
Lemma cln_safe_u : check false true P_safe (inst_cln None) = true. Proof. vm_compute. reflexivity. Qed.
Lemma mon_exit_nolock_u : check false true P_nolock inst_mon_exit = true. Proof. vm_compute. reflexivity. Qed.
