(* C14 -- the generated table of shared-memory types (gen/ShmTypes.v) against `pi_free`
   (model/ShmTypes.v): the allow-list with its justifications, and the theorems, all by
   vm_compute over the finite table named in the statement. *)
From Coq Require Import List String Bool.
From V Require Import model.ShmTypes gen.ShmTypes.
Import ListNotations.
Open Scope string_scope.

Definition shm_tables : tables := mk_tables shm_types aux_types pointer_families.

(* Fields that hold an address of the creating process, or an unchecked parameter, and are
   accepted.  Each entry is LIVE (theorem exceptions_live): removing the reason from the
   source makes the entry stale and the check fails. *)
Definition exceptions : list exception := [
  mk_exc "iceoryx2_bb_elementary::bump_allocator::BumpAllocator" "start"
    "SyncPointer<u8> = the creator's address of the managed memory.  allocate() uses it only arithmetically (align(start + pos) - start; the returned pointer start + offset is turned back into an offset by the shm allocator before it leaves the process) and the cal shm allocators hand out PointerOffset values only.  NOT address free in the strict sense: cal BumpAllocator::grow and PoolAllocator::grow(.., ContentPlacement::Back) dereference start_address() + offset, which is valid only in the creating process (harness subjects calbumpgrow / calpoolgrow exhibit it).";
  mk_exc "iceoryx2_bb_memory::pool_allocator::PoolAllocator" "start"
    "SyncPointer<u8> = the creator's address of bucket 0; allocate/deallocate_bucket use it only in index arithmetic ((ptr - start) / bucket_size, start + index * bucket_size); the cal PoolAllocator subtracts start_address() again before an offset leaves the process.  Same caveat for grow(Back) as above.";
  mk_exc "iceoryx2_bb_posix::ipc_capable::internal::HandleStorage" "handle"
    "UnsafeCell<T> with T not bounded by ZeroCopySend in `unsafe impl<T> ZeroCopySend for HandleStorage<T>`; T is instantiated with posix::sem_t / pthread_mutex_t / pthread_rwlock_t / pthread_barrier_t: OS objects initialised PTHREAD_PROCESS_SHARED, whose position independence is the operating system's contract.";
  mk_exc "iceoryx2_bb_concurrency::atomic::Atomic" "0"
    "iceoryx2_pal_concurrency_sync::atomic::Atomic<T> with T: internal::AtomicInteger, a sealed trait implemented for the integer primitives only; the bound is not spelled as ZeroCopySend."
].

(* Rows that are NOT address free and are not excused: confirmed by reading the source. *)
Definition known_not_pi_free : list string := [
  "iceoryx2_bb_threadsafe::trigger_queue::TriggerQueue"
].

Definition row_ok_or_known (r : row) : bool :=
  mem_str (r_qual r) known_not_pi_free || row_ok shm_tables exceptions r.

(* the full claim: every type placed in shared memory is address free *)
Definition all_shm_types_pi_free_full : Prop :=
  forallb (row_ok shm_tables exceptions) shm_types = true.

Lemma all_shm_types_pi_free_refuted : ~ all_shm_types_pi_free_full.
Proof. unfold all_shm_types_pi_free_full. vm_compute. discriminate. Qed.

(* the witness: `unsafe impl ZeroCopySend for TriggerQueue<'_, T, CAPACITY>` although its fields
   hold references (Mutex<'a, ..>.handle : &MutexHandle, UnnamedSemaphore<'a>.handle : &UnnamedSemaphoreHandle) *)
Lemma trigger_queue_not_pi_free :
  map (fun x => (fst (fst x), snd (fst x))) (failing shm_tables exceptions) =
  [("iceoryx2_bb_threadsafe::trigger_queue::TriggerQueue", "queue");
   ("iceoryx2_bb_threadsafe::trigger_queue::TriggerQueue", "free_slots");
   ("iceoryx2_bb_threadsafe::trigger_queue::TriggerQueue", "used_slots")].
Proof. vm_compute. reflexivity. Qed.

Lemma all_shm_types_pi_free_partial : forallb row_ok_or_known shm_types = true.
Proof. vm_compute. reflexivity. Qed.

Lemma exceptions_live : forallb (exception_live shm_tables) exceptions = true.
Proof. vm_compute. reflexivity. Qed.

(* every known-failing entry really fails (no stale entry) *)
Lemma known_not_pi_free_live :
  forallb (fun q => existsb (fun r => String.eqb (r_qual r) q && negb (row_ok shm_tables exceptions r)) shm_types)
          known_not_pi_free = true.
Proof. vm_compute. reflexivity. Qed.

(* the table is not empty and contains the relocatable structures the harness moves *)
Definition relocated_by_harness : list string := [
  "iceoryx2_bb_container::vector::relocatable_vec::RelocatableVec";
  "iceoryx2_bb_container::queue::RelocatableQueue";
  "iceoryx2_bb_container::string::relocatable_string::RelocatableString";
  "iceoryx2_bb_container::slotmap::RelocatableSlotMap";
  "iceoryx2_bb_container::flatmap::RelocatableFlatMap";
  "iceoryx2_bb_lock_free::spsc::index_queue::details::IndexQueue";
  "iceoryx2_bb_lock_free::spsc::safely_overflowing_index_queue::details::SafelyOverflowingIndexQueue";
  "iceoryx2_bb_lock_free::mpmc::unique_index_set::UniqueIndexSet";
  "iceoryx2_bb_lock_free::mpmc::robust_unique_index_set::RobustUniqueIndexSet";
  "iceoryx2_bb_lock_free::mpmc::bit_set::details::BitSet";
  "iceoryx2_bb_lock_free::mpmc::container::Container";
  "iceoryx2_cal::zero_copy_connection::used_chunk_list::details::UsedChunkList";
  "iceoryx2_cal::shm_allocator::pool_allocator::PoolAllocator";
  "iceoryx2_cal::shm_allocator::bump_allocator::BumpAllocator";
  "iceoryx2_bb_memory::pool_allocator::PoolAllocator";
  "iceoryx2_bb_elementary::bump_allocator::BumpAllocator";
  "iceoryx2_bb_elementary::relocatable_pointer::RelocatablePointer"
].

Lemma relocated_types_in_table :
  forallb (fun q => existsb (fun r => String.eqb (r_qual r) q) shm_types) relocated_by_harness = true.
Proof. vm_compute. reflexivity. Qed.
