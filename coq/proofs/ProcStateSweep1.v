(* C07: closure checks, guard killed before its k-th call, k = 0..6 *)
From V Require Import model.Base model.Conc model.Fs model.ProcState proofs.ProcStateClosure proofs.ProcStateDefs.
Open Scope N_scope.
Lemma sweep_nolock_1 : forallb (fun k => check false true P_nolock (inst_mon (Some k))) (seq 0 7) = true. Proof. vm_compute. reflexivity. Qed.
