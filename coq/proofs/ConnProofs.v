(* Invariants and lemmas about one zero-copy connection (model/Conn.v): for ALL buffer sizes,
   borrow limits, overflow settings and all operation sequences (no enumeration). *)
From V Require Import model.Base model.Conn.
From Coq Require Import Permutation Sorted Lia.

(* ---------------------------------------------------------------------------------------- *)
(* list helpers                                                                              *)
(* ---------------------------------------------------------------------------------------- *)
Lemma mem_off_In o l : mem_off o l = true <-> In o l.
Proof.
  unfold mem_off. rewrite existsb_exists. split.
  - intros [x [Hin Hx]]. apply Nat.eqb_eq in Hx. subst. exact Hin.
  - intros Hin. exists o. split; [exact Hin | apply Nat.eqb_refl].
Qed.

Lemma mem_off_false o l : mem_off o l = false <-> ~ In o l.
Proof. rewrite <- mem_off_In. destruct (mem_off o l); split; intros; congruence. Qed.

Lemma rm_off_notin o l : ~ In o l -> rm_off o l = l.
Proof.
  induction l as [|h t IH]; intros Hn; [reflexivity|].
  cbn [rm_off filter]. destruct (Nat.eqb o h) eqn:E.
  - apply Nat.eqb_eq in E. subst. exfalso. apply Hn. now left.
  - cbn [negb]. f_equal. apply IH. intros Hin. apply Hn. now right.
Qed.

Lemma rm_off_In o x l : In x (rm_off o l) <-> In x l /\ x <> o.
Proof.
  unfold rm_off. rewrite filter_In. split; intros [H1 H2]; split; auto.
  - intros ->. rewrite Nat.eqb_refl in H2. discriminate.
  - apply Bool.negb_true_iff. apply Nat.eqb_neq. auto.
Qed.

(* multisets of offsets as counting functions *)
Notation cnt l x := (count_occ Nat.eq_dec l x).

Lemma cnt_rm_off o l x : cnt (rm_off o l) x = if Nat.eq_dec x o then 0 else cnt l x.
Proof.
  induction l as [|h t IH]; cbn [rm_off filter count_occ].
  - destruct (Nat.eq_dec x o); reflexivity.
  - fold (rm_off o t). destruct (Nat.eqb o h) eqn:E; cbn [negb].
    + apply Nat.eqb_eq in E. subst h. rewrite IH. destruct (Nat.eq_dec x o) as [Heq|Hne].
      * reflexivity.
      * destruct (Nat.eq_dec o x); [congruence|reflexivity].
    + apply Nat.eqb_neq in E. cbn [count_occ]. rewrite IH.
      destruct (Nat.eq_dec h x); destruct (Nat.eq_dec x o); try congruence; reflexivity.
Qed.

Lemma cnt_app l1 l2 x : cnt (l1 ++ l2) x = cnt l1 x + cnt l2 x.
Proof. apply count_occ_app. Qed.

Lemma cnt_one a x : cnt [a] x = if Nat.eq_dec a x then 1 else 0.
Proof. cbn. destruct (Nat.eq_dec a x); reflexivity. Qed.

Lemma cnt_cons a l x : cnt (a :: l) x = (if Nat.eq_dec a x then 1 else 0) + cnt l x.
Proof. cbn. destruct (Nat.eq_dec a x); reflexivity. Qed.

Lemma nodup_cnt l : NoDup l <-> forall x, cnt l x <= 1.
Proof. apply NoDup_count_occ. Qed.

Lemma cnt_pos_In l x : 0 < cnt l x <-> In x l.
Proof. split; intros H; [apply (count_occ_In Nat.eq_dec) | apply (count_occ_In Nat.eq_dec) in H]; auto. Qed.

Lemma cnt_length_le l x : cnt l x <= length l.
Proof. apply count_occ_bound. Qed.

Ltac splits := repeat match goal with |- _ /\ _ => split end.

Definition offs (c : conn) : list off := map q_off (c_sub c).
Definition idxs (c : conn) : list nat := map q_idx (c_sub c).

(* ---------------------------------------------------------------------------------------- *)
(* the connection invariant, relative to the ghost list of offsets the receiver has borrowed  *)
(* ---------------------------------------------------------------------------------------- *)
Record conn_inv (c : conn) (bor : list off) : Prop := {
  ci_nodup : NoDup (c_used c);
  ci_perm : forall x, cnt (c_used c) x = cnt (offs c) x + cnt bor x + cnt (c_comp c) x;   (* used = sub + borrowed + comp (multisets) *)
  ci_sub : length (c_sub c) <= c_B c;
  ci_borrow : c_borrow c = length bor;
  ci_B : 1 <= c_B c }.

Lemma conn_new_inv b m ovf n : conn_inv (conn_new b m ovf n) [].
Proof.
  constructor; unfold offs, conn_new; cbn [c_used c_sub c_comp c_borrow c_B map app length count_occ];
    first [constructor | lia | intros; lia].
Qed.

Lemma conn_inv_parts c bor :
  conn_inv c bor -> (forall o, In o (offs c) -> In o (c_used c))
                    /\ (forall o, In o bor -> In o (c_used c))
                    /\ (forall o, In o (c_comp c) -> In o (c_used c))
                    /\ NoDup bor.
Proof.
  intros [Hnd Hp _ _ _]. splits.
  - intros o Ho. apply cnt_pos_In. apply cnt_pos_In in Ho. rewrite Hp. lia.
  - intros o Ho. apply cnt_pos_In. apply cnt_pos_In in Ho. rewrite Hp. lia.
  - intros o Ho. apply cnt_pos_In. apply cnt_pos_In in Ho. rewrite Hp. lia.
  - apply nodup_cnt. intros x. pose proof (proj1 (nodup_cnt _) Hnd x). rewrite Hp in H. lia.
Qed.

(* ---------------------------------------------------------------------------------------- *)
(* try_send                                                                                  *)
(* ---------------------------------------------------------------------------------------- *)
Definition sent_ok (r : send_res) : bool := match r with SOk _ => true | _ => false end.

Lemma try_send_no_panic c bor o gi :
  conn_inv c bor -> o < c_n c -> ~ In o (c_used c) -> exists c' r, c_try_send c o gi = Val (c', r).
Proof.
  intros Hinv Hn Hno. unfold c_try_send. cbn zeta.
  destruct (negb (c_ovf c) && c_is_full c); [do 2 eexists; reflexivity|].
  destruct (Nat.leb (c_n c) o) eqn:E1; [apply Nat.leb_le in E1; lia|].
  apply mem_off_false in Hno. rewrite Hno.
  destruct (Nat.ltb (length (c_sub c)) (c_B c)) eqn:E2; [do 2 eexists; reflexivity|].
  destruct (c_sub c) as [|old rest] eqn:Es.
  - apply Nat.ltb_ge in E2. cbn in E2. pose proof (ci_B _ _ Hinv). lia.
  - match goal with |- context [mem_off (q_off old) ?l] => destruct (mem_off (q_off old) l) end; do 2 eexists; reflexivity.
Qed.

(* what a send does to an invariant-satisfying connection: the complete case analysis *)
Lemma try_send_spec c bor o gi c' r :
  conn_inv c bor -> c_try_send c o gi = Val (c', r) ->
  let e := {| q_off := o; q_idx := gi |} in
  match r with
  | SOk None =>
      length (c_sub c) < c_B c /\ c_sub c' = c_sub c ++ [e] /\ c_used c' = o :: c_used c
      /\ c_comp c' = c_comp c /\ ~ In o (c_used c) /\ conn_inv c' bor
  | SOk (Some old) =>
      c_ovf c = true /\ length (c_sub c) = c_B c
      /\ (exists e0 rest, c_sub c = e0 :: rest /\ old = q_off e0 /\ c_sub c' = rest ++ [e])   (* exactly the oldest is evicted and handed back *)
      /\ (forall x, cnt (c_used c') x + cnt [old] x = cnt (c_used c) x + cnt [o] x)
      /\ c_comp c' = c_comp c /\ ~ In o (c_used c) /\ In old (c_used c) /\ conn_inv c' bor
  | SBufferFull => c' = c /\ c_ovf c = false /\ length (c_sub c) = c_B c
  | _ => False
  end.
Proof.
  intros Hinv Hs e. unfold c_try_send in Hs. cbn zeta in Hs.
  destruct (negb (c_ovf c) && c_is_full c) eqn:Efull.
  { inversion Hs; subst. apply andb_prop in Efull as [E1 E2]. apply Bool.negb_true_iff in E1.
    unfold c_is_full in E2. apply Nat.eqb_eq in E2. auto. }
  destruct (Nat.leb (c_n c) o); [discriminate|].
  destruct (mem_off o (c_used c)) eqn:Emem; [discriminate|].
  apply mem_off_false in Emem.
  destruct (conn_inv_parts _ _ Hinv) as (Hs1 & Hs2 & Hs3 & Hndb).
  destruct Hinv as [Hnd Hp Hsub Hbor HB].
  destruct (Nat.ltb (length (c_sub c)) (c_B c)) eqn:E2.
  - apply Nat.ltb_lt in E2. inversion Hs; subst c' r. cbn [c_sub c_used c_comp c_ovf c_B set_sub_used].
    splits; auto.
    constructor.
    + cbn. constructor; auto.
    + intros x. unfold offs in *. cbn [c_sub c_used c_comp set_sub_used]. rewrite map_app, cnt_app. cbn [map].
      rewrite cnt_one, cnt_cons. cbn [q_off e]. specialize (Hp x). destruct (Nat.eq_dec o x); lia.
    + cbn. rewrite app_length. cbn. lia.
    + cbn. exact Hbor.
    + cbn. exact HB.
  - apply Nat.ltb_ge in E2.
    destruct (c_sub c) as [|old rest] eqn:Es; [discriminate|].
    assert (Hfull : length (old :: rest) = c_B c) by (cbn in *; lia).
    assert (Hovf : c_ovf c = true).
    { destruct (c_ovf c); [reflexivity|]. cbn in Efull. unfold c_is_full in Efull. rewrite Es in Efull.
      apply Nat.eqb_neq in Efull. contradiction. }
    assert (Hin : In (q_off old) (c_used c)).
    { apply Hs1. unfold offs. rewrite Es. cbn. now left. }
    match type of Hs with context [mem_off (q_off old) ?l] =>
      assert (Hmem : mem_off (q_off old) l = true) by (apply mem_off_In; now right) end.
    rewrite Hmem in Hs. inversion Hs; subst c' r. cbn [c_sub c_used c_comp c_ovf c_B set_sub_used].
    assert (Hne : q_off old <> o) by (intros Heq; apply Emem; rewrite <- Heq; exact Hin).
    assert (Hc1 : cnt (c_used c) (q_off old) = 1).
    { pose proof (proj1 (nodup_cnt _) Hnd (q_off old)). apply cnt_pos_In in Hin. lia. }
    assert (Hc0 : cnt (c_used c) o = 0) by (apply count_occ_not_In; exact Emem).
    assert (Hneb : (q_off old =? o) = false) by (apply Nat.eqb_neq; exact Hne).
    rewrite ?Hneb. cbn [negb].
    splits; auto.
    + exists old, rest. auto.
    + intros x. rewrite cnt_cons, cnt_rm_off, !cnt_one.
      destruct (Nat.eq_dec x (q_off old)); destruct (Nat.eq_dec o x); destruct (Nat.eq_dec (q_off old) x); try congruence; try lia.
      subst. lia.
    + constructor.
      * cbn [c_used set_sub_used]. apply nodup_cnt. intros x. rewrite cnt_cons, cnt_rm_off.
        pose proof (proj1 (nodup_cnt _) Hnd x).
        destruct (Nat.eq_dec x (q_off old)); destruct (Nat.eq_dec o x); subst; try congruence; lia.
      * intros x. unfold offs in *. cbn [c_sub c_used c_comp set_sub_used]. rewrite map_app, cnt_app. cbn [map]. rewrite cnt_one. cbn [q_off e].
        rewrite cnt_cons, cnt_rm_off. specialize (Hp x). rewrite Es in Hp. cbn [map] in Hp. rewrite cnt_cons in Hp.
        destruct (Nat.eq_dec x (q_off old)) as [Hx|Hx].
        -- subst x. destruct (Nat.eq_dec (q_off old) (q_off old)); [|congruence]. destruct (Nat.eq_dec o (q_off old)); [congruence|]. lia.
        -- destruct (Nat.eq_dec (q_off old) x); [congruence|]. destruct (Nat.eq_dec o x); lia.
      * cbn. rewrite app_length. cbn in *. lia.
      * cbn. exact Hbor.
      * cbn. exact HB.
Qed.

(* the queue of send indices behaves like the reference bounded FIFO *)
Lemma try_send_ref c bor o gi c' r :
  conn_inv c bor -> c_try_send c o gi = Val (c', r) ->
  (idxs c', sent_ok r) = ref_push (c_ovf c) (c_B c) (idxs c) gi.
Proof.
  intros Hinv Hs. pose proof (try_send_spec _ _ _ _ _ _ Hinv Hs) as H. cbn zeta in H.
  unfold ref_push, idxs. rewrite map_length.
  destruct r as [[old|]| | | | |]; try contradiction.
  - destruct H as (Hovf & Hfull & (e0 & rest & Hsub & _ & Hsub') & _).
    rewrite Hfull, Nat.ltb_irrefl, Hovf, Hsub', Hsub. cbn. rewrite map_app. reflexivity.
  - destruct H as (Hlt & Hsub' & _). apply Nat.ltb_lt in Hlt. rewrite Hlt, Hsub', map_app. reflexivity.
  - destruct H as (-> & Hovf & Hfull). rewrite Hfull, Nat.ltb_irrefl, Hovf. reflexivity.
Qed.

(* ---------------------------------------------------------------------------------------- *)
(* the reference bounded FIFO keeps exactly the newest min(k, B) elements with overflow       *)
(* ---------------------------------------------------------------------------------------- *)
Fixpoint ref_push_all (ovf : bool) (b : nat) (q : list nat) (l : list nat) : list nat :=
  match l with
  | [] => q
  | i :: t => ref_push_all ovf b (fst (ref_push ovf b q i)) t
  end.

(* r is the suffix of length n of l *)
Definition suffix_of_len (r l : list nat) (n : nat) : Prop := (exists pre, l = pre ++ r) /\ length r = n.

Lemma ref_push_overflow b q i :
  1 <= b -> length q <= b -> suffix_of_len (fst (ref_push true b q i)) (q ++ [i]) (Nat.min b (length q + 1)).
Proof.
  intros Hb Hq. unfold ref_push. destruct (Nat.ltb (length q) b) eqn:E.
  - apply Nat.ltb_lt in E. cbn [fst]. split; [exists []; reflexivity|]. rewrite app_length. cbn. lia.
  - apply Nat.ltb_ge in E. cbn [fst]. assert (Hl : length q = b) by lia.
    destruct q as [|h t]; [cbn in Hl; lia|]. cbn [tl]. split.
    + exists [h]. reflexivity.
    + rewrite app_length. cbn in *. lia.
Qed.

(* with safe overflow, after pushing l the queue holds exactly the newest min(B, |q| + |l|) elements *)
Lemma ref_push_all_overflow b l : forall q,
  1 <= b -> length q <= b -> suffix_of_len (ref_push_all true b q l) (q ++ l) (Nat.min b (length q + length l)).
Proof.
  induction l as [|i t IH]; intros q Hb Hq.
  - cbn. split; [exists []; now rewrite app_nil_r|]. lia.
  - cbn [ref_push_all]. destruct (ref_push_overflow b q i Hb Hq) as [[pre1 He1] Hl1].
    assert (Hq1 : length (fst (ref_push true b q i)) <= b) by lia.
    destruct (IH _ Hb Hq1) as [[pre2 He2] Hl2]. split.
    + exists (pre1 ++ pre2).
      replace (q ++ i :: t) with ((q ++ [i]) ++ t) by (rewrite <- app_assoc; reflexivity).
      rewrite He1, <- !app_assoc. f_equal. exact He2.
    + rewrite Hl2, Hl1. cbn [length]. lia.
Qed.

(* without overflow nothing is ever evicted: the queue only grows by accepted pushes *)
Lemma ref_push_no_overflow b q i :
  ref_push false b q i = if Nat.ltb (length q) b then (q ++ [i], true) else (q, false).
Proof. unfold ref_push. destruct (Nat.ltb (length q) b); reflexivity. Qed.

(* ---------------------------------------------------------------------------------------- *)
(* order: the send indices in the submission queue increase strictly                          *)
(* ---------------------------------------------------------------------------------------- *)
Definition increasing (l : list nat) : Prop := StronglySorted lt l.

Lemma increasing_app_one l i : increasing l -> (forall j, In j l -> j < i) -> increasing (l ++ [i]).
Proof.
  induction l as [|h t IH]; intros Hs Hlt.
  - cbn. constructor; constructor.
  - cbn. inversion Hs as [|? ? Hst Hfa]; subst. constructor.
    + apply IH; auto. intros j Hj. apply Hlt. now right.
    + apply Forall_app. split; [exact Hfa|]. constructor; [|constructor]. apply Hlt. now left.
Qed.

Lemma increasing_tl l : increasing l -> increasing (tl l).
Proof. destruct l; cbn; auto. intros H. now inversion H. Qed.

Lemma try_send_increasing c bor o gi c' r :
  conn_inv c bor -> c_try_send c o gi = Val (c', r) ->
  increasing (idxs c) -> (forall j, In j (idxs c) -> j < gi) ->
  increasing (idxs c') /\ (forall j, In j (idxs c') -> j <= gi).
Proof.
  intros Hinv Hs Hinc Hlt. pose proof (try_send_ref _ _ _ _ _ _ Hinv Hs) as Href.
  unfold ref_push in Href.
  destruct (Nat.ltb (length (idxs c)) (c_B c)).
  - inversion Href as [[H1 H2]]. rewrite H1. split.
    + now apply increasing_app_one.
    + intros j Hj. apply in_app_or in Hj as [Hj|[<-|[]]]; [apply Hlt in Hj|]; lia.
  - destruct (c_ovf c).
    + inversion Href as [[H1 H2]]. rewrite H1. split.
      * apply increasing_app_one; [now apply increasing_tl|].
        intros j Hj. apply Hlt. destruct (idxs c); cbn in *; auto.
      * intros j Hj. apply in_app_or in Hj as [Hj|[<-|[]]]; [|lia].
        assert (In j (idxs c)) by (destruct (idxs c); cbn in *; auto). apply Hlt in H. lia.
    + inversion Href as [[H1 H2]]. rewrite H1. split; auto. intros j Hj. apply Hlt in Hj. lia.
Qed.

(* ---------------------------------------------------------------------------------------- *)
(* receive / release / reclaim / acquire_used_offsets                                         *)
(* ---------------------------------------------------------------------------------------- *)
Lemma receive_spec c bor c' r :
  conn_inv c bor -> c_receive c = (c', r) ->
  match r with
  | RcvOk (Some e) => c_borrow c < c_M c /\ c_sub c = e :: c_sub c' /\ c_comp c' = c_comp c /\ c_used c' = c_used c
                      /\ conn_inv c' (bor ++ [q_off e])              (* FIFO: the oldest entry; it becomes borrowed *)
  | RcvOk None => c' = c /\ c_sub c = [] /\ c_borrow c < c_M c
  | RcvExceedsMaxBorrow => c' = c /\ c_M c <= c_borrow c              (* rejected: nothing changes *)
  end.
Proof.
  intros Hinv Hr. unfold c_receive in Hr.
  destruct (Nat.leb (c_M c) (c_borrow c)) eqn:E.
  - inversion Hr; subst. apply Nat.leb_le in E. auto.
  - apply Nat.leb_gt in E. destruct (c_sub c) as [|e rest] eqn:Es.
    + inversion Hr; subst. auto.
    + inversion Hr; subst c' r. cbn. splits; auto.
      destruct Hinv as [Hnd Hp Hsub Hbor HB]. constructor.
      * cbn. exact Hnd.
      * intros x. specialize (Hp x). unfold offs in *. rewrite Es in Hp. cbn [map] in Hp. rewrite cnt_cons in Hp.
        cbn [c_sub c_used c_comp set_sub_borrow]. rewrite cnt_app, cnt_one. lia.
      * cbn. rewrite Es in Hsub. cbn in Hsub. lia.
      * cbn. rewrite app_length. cbn. lia.
      * cbn. exact HB.
Qed.

(* bor' = bor minus one occurrence of o *)
Definition minus_one (bor : list off) (o : off) (bor' : list off) : Prop :=
  length bor = S (length bor') /\ forall x, cnt bor x = cnt [o] x + cnt bor' x.

Lemma release_spec c bor o bor' :
  conn_inv c bor -> minus_one bor o bor' ->
  length (c_sub c) + length bor + length (c_comp c) <= c_B c + c_M c + 1 ->
  exists c', c_release c o = Val (c', true)                                   (* the completion queue is never full *)
             /\ c_sub c' = c_sub c /\ c_used c' = c_used c /\ c_comp c' = c_comp c ++ [o] /\ conn_inv c' bor'.
Proof.
  intros Hinv [Hl Hperm] Hbound. unfold c_release, comp_cap.
  destruct (Nat.ltb (length (c_comp c)) (c_B c + c_M c + 1)) eqn:E; [|apply Nat.ltb_ge in E; lia].
  destruct Hinv as [Hnd Hp Hsub Hbor HB].
  destruct (c_borrow c) as [|b] eqn:Eb; [lia|].
  eexists. split; [reflexivity|]. cbn. splits; auto.
  constructor.
  - cbn. exact Hnd.
  - intros x. unfold offs in *. cbn [c_sub c_used c_comp set_comp_borrow]. rewrite cnt_app. specialize (Hp x). specialize (Hperm x). lia.
  - cbn. exact Hsub.
  - cbn. lia.
  - cbn. exact HB.
Qed.

Lemma reclaim_spec c bor c' r :
  conn_inv c bor -> c_reclaim c = (c', r) ->
  match r with
  | RNone => c' = c /\ c_comp c = []
  | RSome o => c_comp c = o :: c_comp c' /\ c_sub c' = c_sub c /\ In o (c_used c)
               /\ (forall x, cnt (c_used c) x = cnt [o] x + cnt (c_used c') x) /\ conn_inv c' bor
  | RCorrupt => False
  end.
Proof.
  intros Hinv Hr. unfold c_reclaim in Hr.
  destruct (c_comp c) as [|o rest] eqn:Ec.
  - inversion Hr; subst. auto.
  - destruct (conn_inv_parts _ _ Hinv) as (_ & _ & Hs3 & _).
    assert (Hin : In o (c_used c)) by (apply Hs3; rewrite Ec; now left).
    pose proof (proj2 (mem_off_In o (c_used c)) Hin) as Hm. rewrite Hm in Hr.
    inversion Hr; subst c' r. cbn. destruct Hinv as [Hnd Hp Hsub Hbor HB].
    assert (Hc1 : cnt (c_used c) o = 1).
    { pose proof (proj1 (nodup_cnt _) Hnd o). apply cnt_pos_In in Hin. lia. }
    splits; auto.
    + intros x. rewrite cnt_rm_off. destruct (Nat.eq_dec x o); destruct (Nat.eq_dec o x); try congruence; try lia. subst. lia.
    + constructor.
      * cbn. apply nodup_cnt. intros x. rewrite cnt_rm_off. pose proof (proj1 (nodup_cnt _) Hnd x). destruct (Nat.eq_dec x o); lia.
      * intros x. cbn [c_sub c_used c_comp set_comp_used offs]. rewrite cnt_rm_off. specialize (Hp x). rewrite Ec, cnt_cons in Hp. unfold offs in *. cbn [c_sub set_comp_used].
        destruct (Nat.eq_dec x o); destruct (Nat.eq_dec o x); try congruence; try lia. subst. lia.
      * cbn. exact Hsub.
      * cbn. exact Hbor.
      * cbn. exact HB.
Qed.

Lemma nodup_same_cnt (l1 l2 : list nat) :
  NoDup l1 -> NoDup l2 -> (forall x, In x l1 <-> In x l2) -> forall x, cnt l1 x = cnt l2 x.
Proof.
  intros H1 H2 Hiff x.
  pose proof (proj1 (nodup_cnt _) H1 x) as B1. pose proof (proj1 (nodup_cnt _) H2 x) as B2.
  destruct (in_dec Nat.eq_dec x l1) as [Hi|Hni].
  - pose proof (proj1 (Hiff x) Hi) as Hi2. apply cnt_pos_In in Hi. apply cnt_pos_In in Hi2. lia.
  - assert (Hni2 : ~ In x l2) by (intros Hf; apply Hni, Hiff, Hf).
    apply (count_occ_not_In Nat.eq_dec) in Hni. apply (count_occ_not_In Nat.eq_dec) in Hni2. lia.
Qed.

Lemma acquire_used_spec c c' l :
  c_acquire_used c = (c', l) -> NoDup (c_used c) -> (forall o, In o (c_used c) -> o < c_n c) ->
  c_used c' = [] /\ c_sub c' = c_sub c /\ c_comp c' = c_comp c /\ (forall x, cnt l x = cnt (c_used c) x).
Proof.
  intros Ha Hnd Hlt. unfold c_acquire_used in Ha. inversion Ha; subst c' l. cbn [c_used c_sub c_comp set_comp_used]. splits; auto.
  apply nodup_same_cnt; auto.
  - apply NoDup_filter, seq_NoDup.
  - intros x. rewrite filter_In, in_seq, mem_off_In. split; [tauto|]. intros Hx. pose proof (Hlt _ Hx). split; [lia|exact Hx].
Qed.

(* ---------------------------------------------------------------------------------------- *)
(* rejecting a borrow beyond the limit is clean, and succeeds again after one release         *)
(* ---------------------------------------------------------------------------------------- *)
Lemma receive_reject_then_release c bor o bor' :
  conn_inv c bor -> snd (c_receive c) = RcvExceedsMaxBorrow -> minus_one bor o bor' ->
  length (c_sub c) + length bor + length (c_comp c) <= c_B c + c_M c + 1 -> c_borrow c = c_M c ->
  fst (c_receive c) = c /\
  exists c1, c_release c o = Val (c1, true) /\ snd (c_receive c1) <> RcvExceedsMaxBorrow.
Proof.
  intros Hinv Hrej Hperm Hbound Heq.
  destruct (c_receive c) as [c0 r0] eqn:Er. cbn in Hrej. subst r0.
  pose proof (receive_spec _ _ _ _ Hinv Er) as [-> _]. split; [reflexivity|].
  destruct (release_spec _ _ _ _ Hinv Hperm Hbound) as (c1 & Hrel & _ & _ & _ & Hinv1).
  exists c1. split; [exact Hrel|].
  unfold c_release in Hrel. destruct (Nat.ltb (length (c_comp c)) (comp_cap c)); [|discriminate].
  destruct (c_borrow c) as [|b] eqn:Eb; [discriminate|]. inversion Hrel; subst c1.
  unfold c_receive. cbn. rewrite <- Heq.
  destruct (Nat.leb (S b) b) eqn:E; [apply Nat.leb_le in E; lia|].
  destruct (c_sub c); cbn; discriminate.
Qed.
