From Coq Require Import NArith ZArith Lia ZifyBool ZifyNat ZifyN.
Ltac Zify.zify_post_hook ::= Z.div_mod_to_equations.
Open Scope N_scope.

Lemma mod_small_or_sub r d c : r < c -> d < c ->
  (r + d) mod c = (if r + d <? c then r + d else r + d - c).
Proof.
  intros Hr Hd. destruct (N.ltb_spec (r+d) c) as [H|H].
  - apply N.mod_small; lia.
  - assert (E : r + d = (r + d - c) + 1 * c) by lia.
    rewrite E at 1. rewrite N.mod_add by lia. apply N.mod_small; lia.
Qed.

Lemma mod_add_neq a d c : 0 < d -> d < c -> (a + d) mod c <> a mod c.
Proof.
  intros H0 H1. rewrite <- N.add_mod_idemp_l by lia.
  assert (Hr : a mod c < c) by (apply N.mod_lt; lia).
  rewrite mod_small_or_sub by lia. destruct (N.ltb_spec (a mod c + d) c); lia.
Qed.

Lemma mod_lt' a c : 0 < c -> a mod c < c.
Proof. intros; apply N.mod_lt; lia. Qed.
