(* Invariants of the event hand-shake step model (model/Event.v): data invariants (no phantom,
   merged-not-dropped, counting conservation) and the wake-up invariant
      undelivered i -> st = Notified \/ the listener is between its wake-up and the Drain of i's word
   with the auxiliary invariant for notifiers between their trigger and their second CAS.
   All candidate invariants were first evaluated on every reachable configuration of small
   instances (ocaml/c05/explore.ml). *)
From V Require Import model.Base model.Conc model.Events model.Event.
From Coq Require Import ZifyBool ZifyNat ZifyN.
Open Scope N_scope.

Ltac divlia := zify; Z.div_mod_to_equations; lia.

Definition lpc (ls : nat -> elst) : epc := at_pc (ls O).

Definition in_phase (k : ekind) (pc : epc) (i : N) : Prop :=
  match pc with
  | LStoreIdle | LEmpty | LStoreIdle2 => True
  | LDrainPtr w _ | LDrain w _ => w <= widx k i
  | _ => False
  end.

Definition role (t : nat) (pc : epc) : Prop :=
  match pc with
  | PIdle => True
  | LWait _ | LStoreIdle | LEmpty | LStoreIdle2 | LDrainPtr _ _ | LDrain _ _ => t = O
  | NAct _ | NActCas _ _ | NCasIP _ | NTrig _ | NCasPN _ => t <> O
  end.

(* activation index x of id i is taken care of: already drained, or the flag promises a drain,
   or (b) a trigger is still to come, or the listener is on its way to i's word *)
Definition safe (b : bool) (g : egst) (lp : epc) (i x : N) : Prop :=
  x <= covered g i \/ st g = Notified \/ (b = true /\ st g = Pending) \/ in_phase (kind g) lp i.

Definition DInv (g : egst) : Prop :=
  0 < cap g /\
  forall i,
  covered g i <= notified_total g i /\ done_idx g i <= notified_total g i /\
  (cap g <= i -> notified_total g i = 0) /\
  match kind g with
  | EBitSet => delivered_total g i <= covered g i /\
               (N.testbit (words g (i / 8)) (i mod 8) = true <-> covered g i < notified_total g i)
  | ECounting => delivered_total g i + words g i + two64 * lost g i = notified_total g i /\ words g i < two64
  end.

Definition WInv (g : egst) (lp : epc) : Prop := forall i, safe false g lp i (done_idx g i).

Definition LInv (g : egst) (lp : epc) (t : nat) (l : elst) : Prop :=
  role t (at_pc l) /\
  match at_pc l with
  | NAct i => i < cap g
  | NActCas i _ => i < cap g /\ kind g = EBitSet
  | NCasIP i => i < cap g /\ my_idx l <= notified_total g i
  | NTrig i | NCasPN i => i < cap g /\ my_idx l <= notified_total g i /\ safe true g lp i (my_idx l)
  | LDrainPtr w _ | LDrain w _ => w < nwords (kind g) (cap g)
  | _ => True
  end.

Definition Inv (c : cfg egst elst) : Prop :=
  DInv (fst c) /\ WInv (fst c) (lpc (snd c)) /\ forall t, LInv (fst c) (lpc (snd c)) t (snd c t).

(* safe-preservation of a step *)
Definition SP (g : egst) (lp : epc) (g' : egst) (lp' : epc) : Prop :=
  forall b i x, i < cap g -> x <= notified_total g i -> safe b g lp i x -> safe b g' lp' i x.

Lemma widx_lt k c i : i < c -> widx k i < nwords k c.
Proof. destruct k; unfold widx, nwords; intros; [divlia|lia]. Qed.

Lemma same_word_neq i j : j / 8 = i / 8 -> j <> i -> j mod 8 <> i mod 8.
Proof. intros. divlia. Qed.

Lemma linv_frame g lp g' lp' t l :
  LInv g lp t l -> kind g' = kind g -> cap g' = cap g ->
  (forall i, notified_total g i <= notified_total g' i) -> SP g lp g' lp' -> LInv g' lp' t l.
Proof.
  intros [Hr H] Ek Ec Hn Hsp. split; [exact Hr|]. rewrite Ek, Ec.
  destruct (at_pc l); auto.
  - destruct H as (H1 & H2). split; auto. specialize (Hn i). lia.
  - destruct H as (H1 & H2 & H3). split; auto. split; [specialize (Hn i); lia|]. apply Hsp; auto.
  - destruct H as (H1 & H2 & H3). split; auto. split; [specialize (Hn i); lia|]. apply Hsp; auto.
Qed.

Lemma winv_frame g lp g' lp' :
  WInv g lp -> DInv g -> done_idx g' = done_idx g -> SP g lp g' lp' -> WInv g' lp'.
Proof.
  intros HW [Hc HD] Ed Hsp i. rewrite Ed. destruct (HD i) as (H1 & H2 & H3 & _).
  destruct (N.ltb_spec i (cap g)) as [Hi|Hi].
  - apply Hsp; auto.
  - left. rewrite (H3 Hi) in H2. lia.
Qed.

Lemma sp_notifier g lp g' :
  kind g' = kind g -> covered g' = covered g ->
  (st g' = st g \/ st g = Idle \/ st g' = Notified) -> SP g lp g' lp.
Proof.
  intros Ek Ec Hs b i x _ _ H. unfold safe in *. rewrite Ek, Ec.
  destruct Hs as [Hs|[Hs|Hs]].
  - rewrite Hs. exact H.
  - destruct H as [H|[H|[[_ H]|H]]]; auto; congruence.
  - auto.
Qed.

Lemma sp_inphase g lp g' lp' : (forall i, in_phase (kind g') lp' i) -> SP g lp g' lp'.
Proof. intros H b i x _ _ _. right; right; right. apply H. Qed.

Lemma sp_same g lp g' lp' :
  kind g' = kind g -> covered g' = covered g -> st g' = st g ->
  (forall i, in_phase (kind g) lp i -> in_phase (kind g) lp' i) -> SP g lp g' lp'.
Proof.
  intros Ek Ec Es Hp b i x _ _ H. unfold safe in *. rewrite Ek, Ec, Es.
  destruct H as [H|[H|[H|H]]]; auto.
Qed.

Lemma sp_drain g w tot lp' :
  w < nwords (kind g) (cap g) ->
  (lp' = PIdle /\ nwords (kind g) (cap g) <= w + 1 \/ exists tot', lp' = LDrainPtr (w + 1) tot') ->
  SP g (LDrain w tot) (drained g w) lp'.
Proof.
  intros Hw Hlp b i x Hi Hx H. unfold safe in *. cbn [drained kind covered st].
  destruct (N.eqb_spec (widx (kind g) i) w) as [E|E].
  - left. lia.
  - destruct H as [H|[H|[H|H]]]; auto.
    cbn [in_phase] in H. right; right; right.
    pose proof (widx_lt (kind g) (cap g) i Hi).
    destruct Hlp as [[-> Hn]|[tot' ->]]; cbn [in_phase]; lia.
Qed.

(* ---------------- data invariant ---------------- *)
Lemma dinv_upd_real g s tr : DInv g -> DInv (upd_real g (words g) s tr).
Proof. intros H. exact H. Qed.

Lemma dinv_returned g s i x : DInv g -> x <= notified_total g i -> DInv (returned g s i x).
Proof.
  intros [Hc H] Hx. split; [exact Hc|]. intros j. specialize (H j).
  cbn [returned kind cap words notified_total delivered_total covered done_idx lost].
  unfold fupd. destruct (N.eqb_spec j i) as [->|E]; [|exact H].
  destruct H as (H1 & H2 & H3 & H4). repeat split; auto. lia.
Qed.

(* bit_set: the bit of i is observed set (merged activation) *)
Lemma dinv_act_merged g i :
  DInv g -> kind g = EBitSet -> i < cap g -> N.testbit (words g (i / 8)) (i mod 8) = true ->
  DInv (activated g (words g) i false).
Proof.
  intros [Hc H] Ek Hi Hb. split; [exact Hc|]. intros j. specialize (H j).
  cbn [activated kind cap words notified_total delivered_total covered done_idx lost].
  rewrite Ek in *. unfold fupd. destruct (N.eqb_spec j i) as [->|E]; [|exact H].
  destruct H as (H1 & H2 & H3 & H4 & H5). repeat split; auto; try lia.
Qed.

(* bit_set: successful CAS of i's word *)
Lemma dinv_act_cas g i :
  DInv g -> kind g = EBitSet -> i < cap g ->
  DInv (activated g (fupd (words g) (i / 8) (N.setbit (words g (i / 8)) (i mod 8))) i false).
Proof.
  intros [Hc H] Ek Hi. split; [exact Hc|]. intros j. specialize (H j).
  cbn [activated kind cap words notified_total delivered_total covered done_idx lost].
  rewrite Ek in *. unfold fupd.
  destruct H as (H1 & H2 & H3 & H4 & H5).
  destruct (N.eqb_spec j i) as [->|E].
  - rewrite N.eqb_refl. rewrite N.setbit_eq. repeat split; auto; try lia.
  - split; [lia|]. split; [lia|]. split; [auto|]. split; [auto|].
    destruct (N.eqb_spec (j / 8) (i / 8)) as [Ew|Ew]; [|exact H5].
    rewrite N.setbit_neq by (apply not_eq_sym; apply same_word_neq; auto). rewrite <- Ew. exact H5.
Qed.

(* counting: fetch_add *)
Lemma dinv_act_counting g i :
  DInv g -> kind g = ECounting -> i < cap g ->
  DInv (activated g (fupd (words g) i ((words g i + 1) mod two64)) i (N.eqb ((words g i + 1) mod two64) 0)).
Proof.
  intros [Hc H] Ek Hi. split; [exact Hc|]. intros j. specialize (H j).
  cbn [activated kind cap words notified_total delivered_total covered done_idx lost].
  rewrite Ek in *. unfold fupd.
  destruct H as (H1 & H2 & H3 & H4 & H5).
  assert (T : two64 = 18446744073709551616) by reflexivity.
  destruct (N.eqb_spec j i) as [->|E].
  - split; [lia|]. split; [lia|]. split; [lia|].
    destruct (N.eqb_spec ((words g i + 1) mod two64) 0) as [Ez|Ez].
    + rewrite N.eqb_refl. split; [|rewrite T in *; divlia]. rewrite T in *. divlia.
    + split; [|rewrite T in *; divlia]. rewrite T in *. divlia.
  - split; [lia|]. split; [lia|]. split; [auto|].
    destruct (N.eqb ((words g i + 1) mod two64) 0); [|split; auto].
    destruct (N.eqb_spec j i); [congruence|]. split; auto.
Qed.

Lemma dinv_drained g w : DInv g -> DInv (drained g w).
Proof.
  intros [Hc H]. split; [exact Hc|]. intros j. specialize (H j).
  cbn [drained kind cap words notified_total delivered_total covered done_idx lost].
  unfold fupd, pend, widx. destruct (kind g).
  - destruct H as (H1 & H2 & H3 & H4 & H5).
    destruct (N.eqb_spec (j / 8) w) as [Ew|Ew].
    + split; [lia|]. split; [lia|]. split; [auto|]. rewrite N.bits_0.
      split; [|split; [discriminate|lia]].
      destruct (N.testbit (words g (j / 8)) (j mod 8)) eqn:Eb; [|lia].
      assert (covered g j < notified_total g j) by (apply H5; auto). lia.
    + repeat split; auto; apply H5.
  - destruct H as (H1 & H2 & H3 & H4 & H5).
    destruct (N.eqb_spec j w) as [Ew|Ew].
    + split; [lia|]. split; [lia|]. split; [auto|]. assert (T : two64 = 18446744073709551616) by reflexivity. split; lia.
    + repeat split; auto.
Qed.

(* ---------------- assembling the invariant after a step ---------------- *)
Lemma lpc_upd_other ls t l : t <> O -> lpc (upd_l ls t l) = lpc ls.
Proof. intros H. unfold lpc. rewrite upd_l_other; auto. Qed.

Lemma lpc_upd_self ls l : lpc (upd_l ls O l) = at_pc l.
Proof. unfold lpc. now rewrite upd_l_same. Qed.

Lemma inv_build g ls t g' l' :
  Inv (g, ls) -> DInv g' -> kind g' = kind g -> cap g' = cap g ->
  (forall i, notified_total g i <= notified_total g' i) ->
  SP g (lpc ls) g' (lpc (upd_l ls t l')) ->
  WInv g' (lpc (upd_l ls t l')) ->
  LInv g' (lpc (upd_l ls t l')) t l' ->
  Inv (g', upd_l ls t l').
Proof.
  intros (HD & HW & HL) HD' Ek Ec Hn Hsp HW' Hl. cbn [fst snd] in *.
  split; [exact HD'|]. split; [exact HW'|]. cbn [fst snd].
  intros t'. destruct (Nat.eq_dec t' t) as [->|E].
  - rewrite upd_l_same. exact Hl.
  - rewrite upd_l_other by auto. apply (linv_frame g (lpc ls) g' _ t' (ls t')); auto.
Qed.

Lemma inv_notifier_step g ls t g' l' :
  t <> O -> Inv (g, ls) -> DInv g' -> kind g' = kind g -> cap g' = cap g ->
  (forall i, notified_total g i <= notified_total g' i) -> covered g' = covered g ->
  (st g' = st g \/ st g = Idle \/ st g' = Notified) -> done_idx g' = done_idx g ->
  LInv g' (lpc ls) t l' -> Inv (g', upd_l ls t l').
Proof.
  intros Ht HI HD' Ek Ec Hn Ecov Hs Ed Hl.
  assert (Hsp : SP g (lpc ls) g' (lpc ls)) by (apply sp_notifier; auto).
  apply (inv_build g); auto; rewrite lpc_upd_other by auto; auto.
  destruct HI as (HD & HW & _). eapply winv_frame; eauto.
Qed.

Lemma inv_returned_step g ls t s i x l' :
  t <> O -> Inv (g, ls) -> x <= notified_total g i -> i < cap g ->
  (s = st g \/ s = Notified) ->
  safe false (returned g s i x) (lpc ls) i x ->
  LInv (returned g s i x) (lpc ls) t l' -> Inv (returned g s i x, upd_l ls t l').
Proof.
  intros Ht HI Hx Hi Hs Hsafe Hl.
  assert (Hsp : SP g (lpc ls) (returned g s i x) (lpc ls)).
  { apply sp_notifier; auto. cbn [returned st]. destruct Hs; auto. }
  pose proof HI as (HD & HW & _). cbn [fst snd] in HD, HW.
  apply (inv_build g); auto; try (rewrite lpc_upd_other by auto); auto.
  - apply dinv_returned; auto.
  - cbn [returned notified_total]. intros; lia.
  - intros j. cbn [returned done_idx]. unfold fupd.
    destruct (N.eqb_spec j i) as [->|E].
    + destruct (N.max_spec (done_idx g i) x) as [[_ ->]|[_ ->]]; [exact Hsafe|].
      destruct HD as [_ HD]. destruct (HD i) as (_ & H2 & _). apply Hsp; auto.
    + destruct HD as [Hc HD]. destruct (HD j) as (_ & H2 & H3 & _).
      destruct (N.ltb_spec j (cap g)) as [Hj|Hj]; [apply Hsp; auto|].
      left. rewrite (H3 Hj) in H2. cbn [returned covered]. lia.
Qed.

Lemma inv_listener_step g ls g' l' :
  Inv (g, ls) -> DInv g' -> kind g' = kind g -> cap g' = cap g ->
  (forall i, notified_total g i <= notified_total g' i) -> done_idx g' = done_idx g ->
  SP g (lpc ls) g' (at_pc l') -> LInv g' (at_pc l') O l' -> Inv (g', upd_l ls O l').
Proof.
  intros HI HD' Ek Ec Hn Ed Hsp Hl.
  apply (inv_build g); auto; rewrite lpc_upd_self; auto.
  destruct HI as (HD & HW & _). eapply winv_frame; eauto.
Qed.

Lemma safe_true_of_st g lp i x : st g <> Idle -> safe true g lp i x.
Proof. intros H. unfold safe. destruct (st g); [congruence|right; right; left; auto|right; left; auto]. Qed.

Ltac fields := cbn [kind cap tcap repaired pdist after_wait after_empty words st trig notified_total delivered_total covered done_idx lost
                    upd_real activated returned drained prog at_pc ffull my_idx set_l set_li] in *.

Theorem step_inv t c c' e : Inv c -> step1 step t c = Some (c', e) -> Inv c'.
Proof.
  destruct c as [g ls]. intros HI Hs. unfold step1 in Hs. cbn [fst snd] in Hs.
  destruct (step t g (ls t)) as [[[g' l'] e']|] eqn:Est; [|discriminate].
  inversion Hs; subst c' e; clear Hs.
  pose proof HI as (HD & HW & HL). cbn [fst snd] in HD, HW, HL.
  pose proof (HL t) as [Hrole Hpc].
  assert (Hn0 : forall i, notified_total g i <= notified_total g i) by (intros; lia).
  unfold step in Est.
  destruct (at_pc (ls t)) as [|i|i cur|i|i|i|m| | | |w tot|w tot] eqn:Epc; cbn [role] in Hrole.
  - (* PIdle *)
    destruct (prog (ls t)) as [|[i|m] p]; [discriminate| |].
    + destruct t as [|u].
      * inversion Est; subst g' l' e'; clear Est.
        apply (inv_listener_step g); auto; fields.
        -- apply sp_same; auto. unfold lpc. rewrite Epc. auto.
        -- split; cbn; auto.
      * destruct (N.leb_spec (cap g) i) as [Hc|Hc]; inversion Est; subst g' l' e'; clear Est.
        -- apply (inv_notifier_step g); auto; fields. split; cbn; auto.
        -- apply (inv_notifier_step g); auto; fields. split; cbn; auto.
    + destruct t as [|u].
      * destruct (st g) eqn:Es; inversion Est; subst g' l' e'; clear Est.
        -- apply (inv_listener_step g); auto; fields.
           ++ apply sp_same; auto. unfold lpc. rewrite Epc. cbn. tauto.
           ++ split; cbn; auto.
        -- apply (inv_listener_step g); auto; fields.
           ++ apply sp_same; auto. unfold lpc. rewrite Epc. cbn. tauto.
           ++ split; cbn; auto.
        -- apply (inv_listener_step g); auto; fields.
           ++ apply sp_inphase. intros; cbn; auto.
           ++ split; cbn; auto.
      * inversion Est; subst g' l' e'; clear Est.
        apply (inv_notifier_step g); auto; fields. split; cbn; auto.
  - (* NAct *)
    destruct (kind g) eqn:Ek.
    + destruct (N.testbit (words g (i / 8)) (bitno i)) eqn:Eb; inversion Est; subst g' l' e'; clear Est.
      * apply (inv_notifier_step g); auto; fields.
        -- apply dinv_act_merged; auto.
        -- intros j. unfold fupd. destruct (N.eqb_spec j i); subst; lia.
        -- split; cbn; auto. split; auto. unfold fupd. rewrite N.eqb_refl. lia.
      * apply (inv_notifier_step g); auto; fields. split; cbn; auto.
    + inversion Est; subst g' l' e'; clear Est.
      apply (inv_notifier_step g); auto; fields.
      * apply dinv_act_counting; auto.
      * intros j. unfold fupd. destruct (N.eqb_spec j i); subst; lia.
      * split; cbn; auto. split; auto. unfold fupd. rewrite N.eqb_refl. lia.
  - (* NActCas *)
    destruct Hpc as [Hi Ek].
    destruct (N.eqb_spec (words g (i / 8)) cur) as [Ev|Ev].
    + inversion Est; subst g' l' e'; clear Est. subst cur.
      apply (inv_notifier_step g); auto; fields.
      * apply dinv_act_cas; auto.
      * intros j. unfold fupd. destruct (N.eqb_spec j i); subst; lia.
      * split; cbn; auto. split; auto. unfold fupd. rewrite N.eqb_refl. lia.
    + destruct (N.testbit (words g (i / 8)) (bitno i)) eqn:Eb; inversion Est; subst g' l' e'; clear Est.
      * apply (inv_notifier_step g); auto; fields.
        -- apply dinv_act_merged; auto.
        -- intros j. unfold fupd. destruct (N.eqb_spec j i); subst; lia.
        -- split; cbn; auto. split; auto. unfold fupd. rewrite N.eqb_refl. lia.
      * apply (inv_notifier_step g); auto; fields. split; cbn; auto.
  - (* NCasIP *)
    destruct Hpc as [Hi Hx].
    destruct (st g) eqn:Es; inversion Est; subst g' l' e'; clear Est.
    + apply (inv_notifier_step g); auto; fields.
      split; cbn; auto. split; auto. split; auto. apply safe_true_of_st. cbn. discriminate.
    + apply (inv_notifier_step g); auto; fields.
      split; cbn; auto. split; auto. split; auto. apply safe_true_of_st. rewrite Es. discriminate.
    + apply inv_returned_step; auto.
      * unfold safe. fields. auto.
      * split; cbn; auto.
  - (* NTrig *)
    destruct Hpc as (Hi & Hx & Hsf).
    destruct (trig_full g).
    + destruct (ffull (ls t)); inversion Est; subst g' l' e'; clear Est.
      * apply (inv_notifier_step g); auto; fields. split; cbn; auto.
      * apply (inv_notifier_step g); auto; fields. split; cbn; auto.
    + inversion Est; subst g' l' e'; clear Est.
      apply (inv_notifier_step g); auto; fields. split; cbn; auto.
  - (* NCasPN *)
    destruct Hpc as (Hi & Hx & Hsf).
    destruct (st g) eqn:Es; inversion Est; subst g' l' e'; clear Est.
    + apply inv_returned_step; auto.
      * unfold safe in *. fields. rewrite Es in *.
        destruct Hsf as [H|[H|[[_ H]|H]]]; auto; discriminate.
      * split; cbn; auto.
    + apply inv_returned_step; auto.
      * unfold safe. fields. auto.
      * split; cbn; auto.
    + apply inv_returned_step; auto.
      * unfold safe. fields. auto.
      * split; cbn; auto.
  - (* LWait *)
    subst t.
    destruct (N.eqb (trig g) 0).
    + destruct m; inversion Est; subst g' l' e'; clear Est.
      * apply (inv_listener_step g); auto; fields. apply sp_inphase; intros; cbn; auto. split; cbn; auto.
      * apply (inv_listener_step g); auto; fields. apply sp_inphase; intros; cbn; auto. split; cbn; auto.
    + inversion Est; subst g' l' e'; clear Est.
      apply (inv_listener_step g); auto; fields. apply sp_inphase; intros; cbn; auto. split; cbn; auto.
  - (* LStoreIdle *)
    subst t. inversion Est; subst g' l' e'; clear Est.
    apply (inv_listener_step g); auto; fields. apply sp_inphase; intros; cbn; auto. split; cbn; auto.
  - (* LEmpty *)
    subst t. inversion Est; subst g' l' e'; clear Est.
    apply (inv_listener_step g); auto; fields.
    + apply sp_inphase; intros; destruct (repaired g); cbn; auto. lia.
    + split; destruct (repaired g); cbn; auto. destruct HD as [Hc _]. destruct (kind g); unfold nwords; [divlia|lia].
  - (* LStoreIdle2 *)
    subst t. inversion Est; subst g' l' e'; clear Est.
    apply (inv_listener_step g); auto; fields.
    + apply sp_inphase; intros; cbn. lia.
    + split; cbn; auto. destruct HD as [Hc _]. destruct (kind g); unfold nwords; [divlia|lia].
  - (* LDrainPtr *)
    subst t. inversion Est; subst g' l' e'; clear Est.
    apply (inv_listener_step g); auto; fields.
    + apply sp_same; auto. unfold lpc. rewrite Epc. cbn. auto.
    + split; cbn; auto.
  - (* LDrain *)
    subst t.
    destruct (N.leb_spec (nwords (kind g) (cap g)) (w + 1)) as [Hlast|Hlast]; inversion Est; subst g' l' e'; clear Est.
    + apply (inv_listener_step g); auto; fields.
      * apply dinv_drained; auto.
      * unfold lpc. rewrite Epc. apply sp_drain; auto.
      * split; cbn; auto.
    + apply (inv_listener_step g); auto; fields.
      * apply dinv_drained; auto.
      * unfold lpc. rewrite Epc. apply sp_drain; auto. right. eexists; reflexivity.
      * split; cbn; auto.
Qed.

(* ---------------- reachable configurations ---------------- *)
Lemma inv_init rp k c tc po pd lp np ff : 0 < c -> Inv (init rp k c tc po pd lp np ff).
Proof.
  intros Hc. unfold Inv, init. cbn [fst snd]. split; [|split].
  - split; [exact Hc|]. intros i. unfold g_init, zero. cbn.
    destruct k; repeat split; try lia; try discriminate; rewrite ?N.bits_0; try discriminate; reflexivity.
  - intros i. left. cbn. unfold zero. lia.
  - intros t. unfold lpc. destruct t; split; cbn; auto.
Qed.

Theorem inv_reach rp k c tc po pd lp np ff cf :
  0 < c -> reachable step (init rp k c tc po pd lp np ff) cf -> Inv cf.
Proof.
  intros Hc. apply (inv_reachable _ _ _ step Inv).
  - apply inv_init; auto.
  - intros t c0 c' e. apply step_inv.
Qed.

(* ---------------- no phantom ---------------- *)
Theorem ev_no_phantom rp k c tc po pd lp np ff g ls i :
  0 < c -> reachable step (init rp k c tc po pd lp np ff) (g, ls) ->
  delivered_total g i <= notified_total g i.
Proof.
  intros Hc Hr. destruct (inv_reach _ _ _ _ _ _ _ _ _ _ Hc Hr) as ([_ HD] & _). cbn [fst] in HD.
  specialize (HD i). destruct (kind g); destruct HD as (H1 & H2 & H3 & H4 & H5); lia.
Qed.

Lemma bit_reports_in w v i n b k :
  In (i, n) (bit_reports w v b k) -> n = 1 /\ exists b', b <= b' /\ b' < b + N.of_nat k /\ i = 8 * w + b' /\ N.testbit v b' = true.
Proof.
  revert b. induction k as [|k IH]; intros b H; cbn [bit_reports] in H; [contradiction|].
  apply in_app_or in H. destruct H as [H|H].
  - destruct (N.testbit v b) eqn:Eb; [|contradiction]. destruct H as [H|[]]. inversion H; subst.
    split; auto. exists b. repeat split; auto; lia.
  - destruct (IH _ H) as (-> & b' & H1 & H2 & H3 & H4). split; auto. exists b'. repeat split; auto; lia.
Qed.

Lemma bit_reports_complete w v b k b' :
  b <= b' -> b' < b + N.of_nat k -> N.testbit v b' = true -> In (8 * w + b', 1) (bit_reports w v b k).
Proof.
  revert b. induction k as [|k IH]; intros b H1 H2 Hb; [lia|]. cbn [bit_reports]. apply in_or_app.
  destruct (N.eq_dec b b') as [->|E].
  - left. rewrite Hb. left; auto.
  - right. apply IH; auto; lia.
Qed.

(* what a Drain step of word w reports: exactly ids of that word with a pending occurrence,
   with their pending count; such ids were notified *)
Theorem ev_reported_was_notified rp k c tc po pd lp np ff g ls w i n :
  0 < c -> reachable step (init rp k c tc po pd lp np ff) (g, ls) ->
  In (i, n) (reports (kind g) w (words g w)) ->
  0 < n /\ n = pend (kind g) (words g) i /\ widx (kind g) i = w /\ n <= notified_total g i + two64 * lost g i.
Proof.
  intros Hc Hr Hin. destruct (inv_reach _ _ _ _ _ _ _ _ _ _ Hc Hr) as ([_ HD] & _). cbn [fst] in HD.
  specialize (HD i). unfold reports, pend, widx in *. destruct (kind g).
  - apply bit_reports_in in Hin. destruct Hin as (-> & b & _ & Hb & -> & Ht). cbn in Hb.
    assert (E1 : (8 * w + b) / 8 = w) by divlia. assert (E2 : (8 * w + b) mod 8 = b) by divlia.
    rewrite E1, E2, Ht. destruct HD as (H1 & H2 & H3 & H4 & H5). rewrite E1, E2 in H5.
    assert (covered g (8 * w + b) < notified_total g (8 * w + b)) by (apply H5; auto).
    repeat split; auto; lia.
  - destruct (N.eqb_spec (words g w) 0) as [E|E]; [contradiction|]. destruct Hin as [H|[]]. inversion H; subst.
    destruct HD as (H1 & H2 & H3 & H4 & H5). repeat split; auto; lia.
Qed.

(* ---------------- merged, never dropped ---------------- *)
Theorem ev_counting_conservation rp k c tc po pd lp np ff g ls i :
  0 < c -> reachable step (init rp k c tc po pd lp np ff) (g, ls) -> kind g = ECounting ->
  delivered_total g i + pend (kind g) (words g) i + two64 * lost g i = notified_total g i /\
  (notified_total g i - delivered_total g i < two64 ->
   delivered_total g i + pend (kind g) (words g) i = notified_total g i).
Proof.
  intros Hc Hr Ek. destruct (inv_reach _ _ _ _ _ _ _ _ _ _ Hc Hr) as ([_ HD] & _). cbn [fst] in HD.
  specialize (HD i). rewrite Ek in *. unfold pend. destruct HD as (H1 & H2 & H3 & H4 & H5).
  assert (T : two64 = 18446744073709551616) by reflexivity. split; [exact H4|]. rewrite T in *. lia.
Qed.

Theorem ev_bitset_pending_iff rp k c tc po pd lp np ff g ls i :
  0 < c -> reachable step (init rp k c tc po pd lp np ff) (g, ls) -> kind g = EBitSet ->
  (pend (kind g) (words g) i = 1 <-> covered g i < notified_total g i) /\ pend (kind g) (words g) i <= 1 /\
  delivered_total g i <= covered g i.
Proof.
  intros Hc Hr Ek. destruct (inv_reach _ _ _ _ _ _ _ _ _ _ Hc Hr) as ([_ HD] & _). cbn [fst] in HD.
  specialize (HD i). rewrite Ek in *. unfold pend. destruct HD as (H1 & H2 & H3 & H4 & H5).
  destruct (N.testbit (words g (i / 8)) (i mod 8)).
  - split; [split; [intros _; apply H5; auto|auto]|split; [lia|auto]].
  - split; [split; [discriminate|intros H; apply H5 in H; discriminate]|split; [lia|auto]].
Qed.

(* a notifier that has activated id i and not yet returned: its activation has been taken by a
   Drain step already or the id is still pending (bit set) *)
Theorem ev_bitset_my_activation rp k c tc po pd lp np ff g ls t i :
  0 < c -> reachable step (init rp k c tc po pd lp np ff) (g, ls) -> kind g = EBitSet ->
  (at_pc (ls t) = NCasIP i \/ at_pc (ls t) = NTrig i \/ at_pc (ls t) = NCasPN i) ->
  my_idx (ls t) <= covered g i \/ pend (kind g) (words g) i = 1.
Proof.
  intros Hc Hr Ek Hpc. destruct (inv_reach _ _ _ _ _ _ _ _ _ _ Hc Hr) as ([_ HD] & _ & HL). cbn [fst snd] in *.
  specialize (HD i). specialize (HL t). destruct HL as [_ HL]. rewrite Ek in *. unfold pend.
  destruct HD as (H1 & H2 & H3 & H4 & H5).
  assert (Hx : my_idx (ls t) <= notified_total g i).
  { destruct Hpc as [E|[E|E]]; rewrite E in HL; tauto. }
  destruct (N.leb_spec (my_idx (ls t)) (covered g i)) as [Hle|Hlt]; [left; auto|right].
  assert (Hb : N.testbit (words g (i / 8)) (i mod 8) = true) by (apply H5; lia). rewrite Hb. reflexivity.
Qed.

(* a pending occurrence stays pending until the Drain step of its word, which reports it *)
Theorem ev_pending_until_drained rp k c tc po pd lp np ff cf t cf' es i :
  0 < c -> reachable step (init rp k c tc po pd lp np ff) cf ->
  step1 step t cf = Some (cf', es) ->
  0 < pend (kind (fst cf)) (words (fst cf)) i -> pend (kind (fst cf)) (words (fst cf)) i + 1 < two64 ->
  0 < pend (kind (fst cf')) (words (fst cf')) i \/
  exists w tot, at_pc (snd cf t) = LDrain w tot /\ widx (kind (fst cf)) i = w /\
                In (ERet (rep_code (i, pend (kind (fst cf)) (words (fst cf)) i))) es.
Proof.
  intros Hc Hr Hs Hp Hnw. pose proof (inv_reach _ _ _ _ _ _ _ _ _ _ Hc Hr) as (HD & _ & HL).
  destruct cf as [g ls]. cbn [fst snd] in *. unfold step1 in Hs. cbn [fst snd] in Hs.
  destruct (step t g (ls t)) as [[[g' l'] e']|] eqn:Est; [|discriminate].
  inversion Hs; subst cf' es; clear Hs. cbn [fst snd].
  specialize (HL t). destruct HL as [_ Hpc]. unfold step in Est.
  assert (T : two64 = 18446744073709551616) by reflexivity.
  destruct (at_pc (ls t)) as [|j|j cur|j|j|j|m| | | |w tot|w tot] eqn:Epc.
  - destruct (prog (ls t)) as [|[j|m] p]; [discriminate| |].
    + destruct t; [inversion Est; subst; auto|].
      destruct (N.leb (cap g) j); inversion Est; subst; auto.
    + destruct t; [|inversion Est; subst; auto].
      destruct (st g); inversion Est; subst; auto.
  - destruct (kind g) eqn:Ek.
    + destruct (N.testbit (words g (j / 8)) (bitno j)); inversion Est; subst; fields; rewrite ?Ek; auto.
    + inversion Est; subst; fields. rewrite Ek in *. left. unfold pend, fupd in *.
      destruct (N.eqb_spec i j) as [->|E]; [|auto]. rewrite T in *. divlia.
  - destruct Hpc as [Hj Ek]. rewrite Ek in *.
    destruct (N.eqb_spec (words g (j / 8)) cur) as [Ev|Ev].
    + inversion Est; subst; fields. rewrite Ek. left. unfold pend, fupd in *.
      destruct (N.eqb_spec (i / 8) (j / 8)) as [Ew|Ew]; [|auto].
      destruct (N.testbit (words g (i / 8)) (i mod 8)) eqn:Eb; [|lia].
      destruct (N.eq_dec (i mod 8) (bitno j)) as [Eq|Nq].
      * rewrite Eq. rewrite N.setbit_eq. lia.
      * rewrite N.setbit_neq by auto. rewrite <- Ew, Eb. lia.
    + destruct (N.testbit (words g (j / 8)) (bitno j)); inversion Est; subst; fields; rewrite ?Ek; auto.
  - destruct (st g); inversion Est; subst; fields; auto.
  - destruct (trig_full g); [destruct (ffull (ls t))|]; inversion Est; subst; fields; auto.
  - destruct (st g); inversion Est; subst; fields; auto.
  - destruct (N.eqb (trig g) 0); [destruct m|]; inversion Est; subst; fields; auto.
  - inversion Est; subst; fields; auto.
  - inversion Est; subst; fields; auto.
  - inversion Est; subst; fields; auto.
  - inversion Est; subst; fields; auto.
  - assert (Hdr : 0 < pend (kind g) (words (drained g w)) i \/ widx (kind g) i = w /\
                  In (ERet (rep_code (i, pend (kind g) (words g) i)))
                     (map (fun r => ERet (rep_code r)) (reports (kind g) w (words g w)))).
    { cbn [drained words]. unfold pend, fupd, widx, reports in *. destruct (kind g).
      - destruct (N.eqb_spec (i / 8) w) as [Ew|Ew]; [right|left; auto]. split; auto.
        destruct (N.testbit (words g (i / 8)) (i mod 8)) eqn:Eb; [|lia].
        apply in_map_iff. exists (i, 1). split; auto.
        replace i with (8 * w + i mod 8) at 1 by divlia. apply bit_reports_complete; try divlia.
        rewrite <- Ew. exact Eb.
      - destruct (N.eqb_spec i w) as [Ew|Ew]; [right|left; auto]. split; auto. subst w.
        destruct (N.eqb_spec (words g i) 0); [lia|]. left. reflexivity. }
    destruct (N.leb (nwords (kind g) (cap g)) (w + 1)); inversion Est; subst; cbn [fst drained kind];
      (destruct Hdr as [H|[H1 H2]]; [left; exact H|right; exists w, tot; split; auto; split; auto]).
    + cbn [app In]. right. apply in_or_app. left. exact H2.
    + cbn [In]. right. exact H2.
Qed.

(* ---------------- wake-up ---------------- *)
(* an undelivered returned notification is always covered by a promise: the flag is Notified
   (the listener's next state check drains) or the listener is between its wake-up and the
   Drain of the id's word *)
Theorem ev_wakeup_invariant rp k c tc po pd lp np ff cf i :
  0 < c -> reachable step (init rp k c tc po pd lp np ff) cf -> undelivered (fst cf) i ->
  st (fst cf) = Notified \/ in_phase (kind (fst cf)) (listener_pc cf) i.
Proof.
  intros Hc Hr Hu. destruct (inv_reach _ _ _ _ _ _ _ _ _ _ Hc Hr) as (_ & HW & _).
  specialize (HW i). unfold undelivered in Hu. destruct HW as [H|[H|[[H _]|H]]]; auto; [lia|discriminate].
Qed.

(* the bad window is the ONLY way to lose a wake-up *)
Theorem ev_lost_wakeup_only_in_bad_window rp k c tc po pd lp np ff cf i :
  0 < c -> reachable step (init rp k c tc po pd lp np ff) cf -> asleep cf -> undelivered (fst cf) i -> bad_window cf.
Proof.
  intros Hc Hr Ha Hu. split; [exact Ha|].
  destruct (ev_wakeup_invariant _ _ _ _ _ _ _ _ _ _ _ Hc Hr Hu) as [H|H]; [exact H|].
  destruct Ha as [Ha _]. rewrite Ha in H. contradiction.
Qed.

(* the bad window is ENTERED only by a notifier's late Pending -> Notified CAS while the listener
   already sleeps on the empty trigger (the token that notifier posted has been consumed) *)
Theorem ev_bad_window_entry rp k c tc po pd lp np ff cf t cf' es :
  0 < c -> reachable step (init rp k c tc po pd lp np ff) cf ->
  step1 step t cf = Some (cf', es) -> ~ bad_window cf -> bad_window cf' ->
  asleep cf /\ st (fst cf) = Pending /\ t <> O /\ exists i, at_pc (snd cf t) = NCasPN i.
Proof.
  intros Hc Hr Hs Hnb Hb. pose proof (inv_reach _ _ _ _ _ _ _ _ _ _ Hc Hr) as (_ & _ & HL).
  destruct cf as [g ls]. cbn [fst snd] in *. unfold step1 in Hs. cbn [fst snd] in Hs.
  destruct (step t g (ls t)) as [[[g' l'] e']|] eqn:Est; [|discriminate].
  inversion Hs; subst cf' es; clear Hs.
  destruct Hb as [[Hpc' Htr'] Hst']. unfold listener_pc in *. cbn [fst snd] in *.
  specialize (HL t). destruct HL as [Hrole _]. unfold step in Est.
  destruct t as [|u].
  - (* the listener itself cannot enter the window: it reaches LWait only after seeing a state other than Notified *)
    exfalso. rewrite upd_l_same in Hpc'.
    destruct (at_pc (ls O)) as [|j|j cur|j|j|j|m| | | |w tot|w tot] eqn:Epc; cbn [role] in Hrole; try congruence.
    + destruct (prog (ls O)) as [|[j|m] p]; [discriminate| |].
      * inversion Est; subst. discriminate.
      * destruct (st g) eqn:Es; inversion Est; subst; fields; try discriminate; congruence.
    + destruct (N.eqb (trig g) 0); [destruct m|]; inversion Est; subst; discriminate.
    + inversion Est; subst; discriminate.
    + inversion Est; subst; fields. destruct (repaired g); discriminate.
    + inversion Est; subst; discriminate.
    + inversion Est; subst; discriminate.
    + destruct (N.leb (nwords (kind g) (cap g)) (w + 1)); inversion Est; subst; discriminate.
  - rewrite upd_l_other in Hpc' by discriminate.
    assert (Hnb' : ~ (trig g = 0 /\ st g = Notified)).
    { intros [A B]. apply Hnb. split; [split|]; auto. }
    destruct (at_pc (ls (S u))) as [|j|j cur|j|j|j|m| | | |w tot|w tot] eqn:Epc; cbn [role] in Hrole; try discriminate.
    + exfalso. destruct (prog (ls (S u))) as [|[j|m] p]; [discriminate| |].
      * destruct (N.leb (cap g) j); inversion Est; subst; auto.
      * inversion Est; subst; auto.
    + exfalso. destruct (kind g).
      * destruct (N.testbit (words g (j / 8)) (bitno j)); inversion Est; subst; fields; auto.
      * inversion Est; subst; fields; auto.
    + exfalso. destruct (N.eqb (words g (j / 8)) cur); [|destruct (N.testbit (words g (j / 8)) (bitno j))];
        inversion Est; subst; fields; auto.
    + exfalso. destruct (st g) eqn:Es; inversion Est; subst; fields; try discriminate; try congruence; apply Hnb'; split; congruence.
    + exfalso. destruct (trig_full g); [destruct (ffull (ls (S u)))|]; inversion Est; subst; fields; auto. lia.
    + destruct (st g) eqn:Es; inversion Est; subst; fields; try discriminate.
      * repeat split; auto; try discriminate. eexists; reflexivity.
      * exfalso. apply Hnb'. split; congruence.
Qed.

(* a thread cannot move only when it is finished or in a blocking wait on an empty trigger:
   try_wait and timed_wait never sleep forever, every started notify runs to completion *)
Theorem ev_blocked_only_in_blocking_wait t g l :
  step t g l = None -> (at_pc l = PIdle /\ prog l = []) \/ (at_pc l = LWait WBlock /\ trig g = 0).
Proof.
  unfold step. intros H.
  destruct (at_pc l) as [|j|j cur|j|j|j|m| | | |w tot|w tot] eqn:Epc.
  - left. split; auto. destruct (prog l) as [|[j|m] p]; auto; exfalso.
    + destruct t; [discriminate|]. destruct (N.leb (cap g) j); discriminate.
    + destruct t; [|discriminate]. destruct (st g); discriminate.
  - exfalso. destruct (kind g); [destruct (N.testbit (words g (j / 8)) (bitno j))|]; discriminate.
  - exfalso. destruct (N.eqb (words g (j / 8)) cur); [|destruct (N.testbit (words g (j / 8)) (bitno j))]; discriminate.
  - exfalso. destruct (st g); discriminate.
  - exfalso. destruct (trig_full g); [destruct (ffull l)|]; discriminate.
  - exfalso. destruct (st g); discriminate.
  - right. destruct (N.eqb_spec (trig g) 0) as [E|E]; [|discriminate]. destruct m; try discriminate. auto.
  - discriminate.
  - discriminate.
  - discriminate.
  - discriminate.
  - exfalso. destruct (N.leb (nwords (kind g) (cap g)) (w + 1)); discriminate.
Qed.

(* ================= the repaired protocol: full no-lost-wake-up ================= *)
(* a wake-up is available or on its way: a token is in the trigger, or a notifier is between its
   Idle -> Pending CAS (or its observation of Pending) and its trigger post *)
Definition Tok (g : egst) (ls : nat -> elst) : Prop := 0 < trig g \/ exists t j, at_pc (ls t) = NTrig j.

(* the configurations in which the flag alone does not guarantee that the listener will look again *)
Definition need (lp : epc) (s : nst) : Prop :=
  match lp, s with
  | (PIdle | LDrainPtr _ _ | LDrain _ _), Pending => True
  | LWait _, (Pending | Notified) => True
  | _, _ => False
  end.

Definition TInv (c : cfg egst elst) : Prop := need (lpc (snd c)) (st (fst c)) -> Tok (fst c) (snd c).

Lemma tok_keep g ls g' t l' :
  Tok g ls -> (0 < trig g -> 0 < trig g') -> (forall j, at_pc (ls t) <> NTrig j) -> Tok g' (upd_l ls t l').
Proof.
  intros [H|(u & j & H)] Ht Hn; [left; auto|]. right. exists u, j.
  destruct (Nat.eq_dec u t) as [->|E]; [exfalso; eapply Hn; eauto|]. rewrite upd_l_other; auto.
Qed.

Lemma tok_new g ls t l' j : at_pc l' = NTrig j -> Tok g (upd_l ls t l').
Proof. intros H. right. exists t, j. rewrite upd_l_same. exact H. Qed.

Lemma lpc_upd ls t l : lpc (upd_l ls t l) = match t with O => at_pc l | S _ => lpc ls end.
Proof. destruct t; [apply lpc_upd_self|apply lpc_upd_other; discriminate]. Qed.

Theorem step_tinv t c c' e :
  repaired (fst c) = true -> tcap (fst c) <> Some 0 ->
  Inv c -> TInv c -> step1 step t c = Some (c', e) -> TInv c'.
Proof.
  destruct c as [g ls]. intros Hrp Htc HI HT Hs. unfold step1 in Hs. cbn [fst snd] in *.
  destruct (step t g (ls t)) as [[[g' l'] e']|] eqn:Est; [|discriminate].
  inversion Hs; subst c' e; clear Hs.
  destruct HI as (_ & _ & HL). cbn [fst snd] in HL.
  pose proof (HL t) as [Hrole _]. unfold TInv in *. cbn [fst snd] in *. rewrite lpc_upd.
  unfold step in Est.
  (* a step that changes neither the flag nor the listener's phase, does not take tokens, and is not a post *)
  assert (Hsame : forall (g1 : egst) (l1 : elst), st g1 = st g -> (0 < trig g -> 0 < trig g1) ->
            (forall j, at_pc (ls t) <> NTrig j) ->
            match t with O => at_pc l1 | S _ => lpc ls end = lpc ls ->
            need (match t with O => at_pc l1 | S _ => lpc ls end) (st g1) -> Tok g1 (upd_l ls t l1)).
  { intros g1 l1 E1 E2 E3 E4 Hn. rewrite E4, E1 in Hn. apply (tok_keep g); auto. }
  destruct (at_pc (ls t)) as [|i|i cur|i|i|i|m| | | |w tot|w tot] eqn:Epc; cbn [role] in Hrole.
  - (* PIdle *)
    destruct (prog (ls t)) as [|[i|m] p]; [discriminate| |].
    + destruct t as [|u].
      * inversion Est; subst g' l' e'; clear Est. apply Hsame; auto; try discriminate; try (unfold lpc; rewrite Epc; reflexivity).
      * destruct (N.leb (cap g) i); inversion Est; subst g' l' e'; clear Est; apply Hsame; auto; discriminate.
    + destruct t as [|u].
      * destruct (st g) eqn:Es; inversion Est; subst g' l' e'; clear Est; cbn [set_l at_pc upd_real st]; rewrite ?Es; cbn [need]; try (intros []).
        apply (tok_keep g); auto; [|rewrite Epc; discriminate]. apply HT. unfold lpc. rewrite Epc. exact I.
      * inversion Est; subst g' l' e'; clear Est. apply Hsame; auto; discriminate.
  - (* NAct *)
    destruct t as [|u]; [congruence|].
    destruct (kind g); [destruct (N.testbit (words g (i / 8)) (bitno i))|]; inversion Est; subst g' l' e'; clear Est;
      apply Hsame; auto; discriminate.
  - (* NActCas *)
    destruct t as [|u]; [congruence|].
    destruct (N.eqb (words g (i / 8)) cur); [|destruct (N.testbit (words g (i / 8)) (bitno i))]; inversion Est; subst g' l' e'; clear Est;
      apply Hsame; auto; discriminate.
  - (* NCasIP *)
    destruct t as [|u]; [congruence|].
    destruct (st g) eqn:Es; inversion Est; subst g' l' e'; clear Est.
    + intros _. eapply tok_new. reflexivity.
    + intros _. eapply tok_new. reflexivity.
    + apply Hsame; auto; discriminate.
  - (* NTrig *)
    destruct t as [|u]; [congruence|].
    assert (Hfull : trig_full g = true -> 0 < trig g).
    { unfold trig_full. destruct (tcap g) as [c0|]; [|discriminate]. intros H. apply N.leb_le in H.
      destruct (N.eq_dec c0 0) as [->|]; [congruence|lia]. }
    destruct (trig_full g) eqn:Ef.
    + destruct (ffull (ls (S u))); inversion Est; subst g' l' e'; clear Est; intros _; left; auto.
    + inversion Est; subst g' l' e'; clear Est. intros _. left. cbn [upd_real trig]. lia.
  - (* NCasPN *)
    destruct t as [|u]; [congruence|].
    destruct (st g) eqn:Es; inversion Est; subst g' l' e'; clear Est.
    + apply Hsame; auto; discriminate.
    + (* the late Pending -> Notified CAS: a promise existed for Pending already *)
      cbn [returned st]. intros Hn. apply (tok_keep g); auto; [|rewrite Epc; discriminate].
      apply HT. destruct (lpc ls); cbn [need] in *; auto.
    + apply Hsame; auto; discriminate.
  - (* LWait *)
    subst t. destruct (N.eqb (trig g) 0); [destruct m|]; inversion Est; subst g' l' e'; clear Est; cbn [set_l at_pc need]; intros [].
  - (* LStoreIdle *)
    subst t. inversion Est; subst g' l' e'; clear Est; cbn [set_l at_pc need]. intros [].
  - (* LEmpty: the repaired protocol goes on to its second reset *)
    subst t. inversion Est; subst g' l' e'; clear Est; cbn [set_l at_pc]. rewrite Hrp. cbn [need]. intros [].
  - (* LStoreIdle2 *)
    subst t. inversion Est; subst g' l' e'; clear Est; cbn [set_l at_pc upd_real st need]. intros [].
  - (* LDrainPtr *)
    subst t. inversion Est; subst g' l' e'; clear Est. cbn [set_l at_pc]. intros Hn.
    apply (tok_keep g); auto; [|rewrite Epc; discriminate]. apply HT. unfold lpc. rewrite Epc. exact Hn.
  - (* LDrain *)
    subst t. destruct (N.leb (nwords (kind g) (cap g)) (w + 1)); inversion Est; subst g' l' e'; clear Est;
      cbn [set_l at_pc drained st trig]; intros Hn;
      (apply (tok_keep g); [|cbn [drained trig]; auto|rewrite Epc; discriminate]); apply HT; unfold lpc; rewrite Epc;
      destruct (st g); cbn [need] in *; auto.
Qed.

Lemma step_static t g l g' l' e :
  step t g l = Some (g', l', e) -> repaired g' = repaired g /\ tcap g' = tcap g.
Proof.
  unfold step. intros H.
  repeat match type of H with
         | context [match ?x with _ => _ end] => destruct x eqn:?
         end; try discriminate; inversion H; subst; cbn; auto.
Qed.

Definition Inv2 (c : cfg egst elst) : Prop :=
  Inv c /\ repaired (fst c) = true /\ tcap (fst c) <> Some 0 /\ TInv c.

Theorem inv2_reach k c tc po pd lp np ff cf :
  0 < c -> tc <> Some 0 -> reachable step (init true k c tc po pd lp np ff) cf -> Inv2 cf.
Proof.
  intros Hc Htc. apply (inv_reachable _ _ _ step Inv2).
  - split; [apply inv_init; auto|]. split; [reflexivity|]. split; [exact Htc|].
    unfold TInv, init, lpc. cbn. intros [].
  - intros t c0 c' e (HI & Hrp & Ht & HT) Hs. split; [eapply step_inv; eauto|].
    assert (Hst : repaired (fst c') = repaired (fst c0) /\ tcap (fst c') = tcap (fst c0)).
    { destruct c0 as [g ls]. unfold step1 in Hs. cbn [fst snd] in *.
      destruct (step t g (ls t)) as [[[g' l'] e']|] eqn:Est; [|discriminate]. inversion Hs; subst. cbn [fst].
      eapply step_static; eauto. }
    destruct Hst as [E1 E2]. rewrite E1, E2. split; auto. split; auto. eapply step_tinv; eauto.
Qed.

(* FULL no-lost-wake-up clause for the repaired protocol: whenever the listener is in (or about to
   enter) a wait on the trigger while a notification whose notify returned Ok is undelivered, a token
   is in the trigger or a notifier is between its state CAS and its trigger post *)
Theorem ev_no_lost_wakeup k c tc po pd lp np ff cf m i :
  0 < c -> tc <> Some 0 -> reachable step (init true k c tc po pd lp np ff) cf ->
  listener_pc cf = LWait m -> undelivered (fst cf) i -> Tok (fst cf) (snd cf).
Proof.
  intros Hc Htc Hr Hpc Hu. destruct (inv2_reach _ _ _ _ _ _ _ _ _ Hc Htc Hr) as (_ & _ & _ & HT).
  destruct (ev_wakeup_invariant _ _ _ _ _ _ _ _ _ _ _ Hc Hr Hu) as [H|H].
  - apply HT. unfold listener_pc, lpc in *. rewrite Hpc, H. exact I.
  - rewrite Hpc in H. contradiction.
Qed.

(* the same for a notification whose notify has not returned yet but has passed its trigger post *)
Theorem ev_inflight_has_token k c tc po pd lp np ff cf m t i :
  0 < c -> tc <> Some 0 -> reachable step (init true k c tc po pd lp np ff) cf ->
  listener_pc cf = LWait m -> at_pc (snd cf t) = NCasPN i -> covered (fst cf) i < my_idx (snd cf t) ->
  Tok (fst cf) (snd cf).
Proof.
  intros Hc Htc Hr Hpc Ht Hcov. destruct (inv2_reach _ _ _ _ _ _ _ _ _ Hc Htc Hr) as ((_ & _ & HL) & _ & _ & HT).
  specialize (HL t). destruct HL as [_ HL]. rewrite Ht in HL. destruct HL as (_ & _ & Hs).
  unfold listener_pc, lpc in *. unfold TInv in HT. unfold lpc in HT.
  destruct Hs as [H|[H|[[_ H]|H]]].
  - lia.
  - apply HT. rewrite Hpc, H. exact I.
  - apply HT. rewrite Hpc, H. exact I.
  - rewrite Hpc in H. contradiction.
Qed.

(* hence no sleeping listener with an undelivered notification is ever stuck: the in-flight post
   is enabled and puts a token into the trigger; in particular no such state is terminal *)
Theorem ev_sleeping_listener_gets_token k c tc po pd lp np ff cf i :
  0 < c -> tc <> Some 0 -> reachable step (init true k c tc po pd lp np ff) cf ->
  asleep cf -> undelivered (fst cf) i ->
  exists t j cf' es, at_pc (snd cf t) = NTrig j /\ step1 step t cf = Some (cf', es) /\ 0 < trig (fst cf').
Proof.
  intros Hc Htc Hr [Hpc Htr] Hu.
  destruct (ev_no_lost_wakeup _ _ _ _ _ _ _ _ _ _ _ Hc Htc Hr Hpc Hu) as [H|(t & j & H)]; [lia|].
  destruct (inv2_reach _ _ _ _ _ _ _ _ _ Hc Htc Hr) as (_ & _ & Ht0 & _).
  destruct cf as [g ls]. cbn [fst snd] in *. exists t, j.
  unfold step1, step. cbn [fst snd]. rewrite H.
  assert (Ef : trig_full g = false).
  { unfold trig_full. destruct (tcap g) as [c0|]; auto. apply N.leb_gt. destruct (N.eq_dec c0 0); [congruence|lia]. }
  rewrite Ef. eexists. eexists. split; [reflexivity|]. split; [reflexivity|]. cbn. lia.
Qed.

Theorem ev_no_terminal_lost_wakeup k c tc po pd lp np ff cf i :
  0 < c -> tc <> Some 0 -> reachable step (init true k c tc po pd lp np ff) cf ->
  (forall t, step1 step t cf = None) -> asleep cf -> ~ undelivered (fst cf) i.
Proof.
  intros Hc Htc Hr Hterm Ha Hu.
  destruct (ev_sleeping_listener_gets_token _ _ _ _ _ _ _ _ _ _ Hc Htc Hr Ha Hu) as (t & j & cf' & es & _ & Hs & _).
  rewrite Hterm in Hs. discriminate.
Qed.
