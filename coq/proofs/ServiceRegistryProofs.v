(* C06, registry part: the node registry of a service instance = the nodes that hold a handle plus the nodes in flight
   inside open / create / drop; the lock of the last deregistration is safe (given the re-check of acquire) -- for ALL
   interleavings of the refined protocol of model/Service.v, as long as no release reported Locked for a set that
   another release had locked (ghost flag gmulti; that behaviour exists and is refuted separately in props/C06.v). *)
From V Require Import model.Base model.Conc model.Service proofs.ServiceProofs.
From Coq Require Import ZifyBool ZifyNat ZifyN.

(* ---- classes of program counters, as far as the node registry is concerned ---- *)
Inductive pclass :=
| CNone
| COpen (j : nat)            (* inside open, instance j read from the static config, not yet in the registry *)
| CUnconf (j : nat)          (* cell populated, generation not yet incremented *)
| CCreate (i : nat)          (* creator of i before its initializer registered it *)
| CInit (i : nat)            (* creator of i, registered by the initializer, handle not yet handed out *)
| CDropPre (h : nat)         (* dropping the node's last handle, cell still populated *)
| CSnap (h : nat) | CCas (h g0 : nat)   (* inside lock() *)
| CRem (h : nat).            (* got NoMoreOwners: removing the resources *)

Definition pcl (p : pc) : pclass :=
  match p with
  | PFstat2 j _ | PRead j | OTagStat j | OTagOpen j | OTagChmod1 j | OTagWrite j | OTagChmod2 j
  | ORes j _ | ODyOpen j _ _ | ODyFstatSize j _ _ | ODyFstatPerm j _ _ | OReg j _ => COpen j
  | RIncr j _ => CUnconf j
  | CStChmod1 _ i | CStWrite _ i | CStChmod2 _ i | CRes _ i | CDyOpen _ i | CDyTrunc _ i | CDyFstat _ i
  | CDyInit _ i | CPanicRmStatic _ i | CFailRmStatic _ i _ => CCreate i
  | CDyChmod _ i => CInit i
  | DRmTag h | DDereg h => CDropPre h
  | DSnap h => CSnap h
  | DCas h g0 => CCas h g0
  | DDyChmod h | DDyUnlink h | DResRemove h | DStRemove h => CRem h
  | _ => CNone
  end.

Definition special (p : pc) : bool :=
  match p with
  | Idle | POpen2 | OReg _ _ | RIncr _ _ | CStOpen _ | CDyInit _ _ | CDyChmod _ _ | CPanicRmStatic _ _ | CFailRmStatic _ _ _
  | DDereg _ | DSnap _ | DCas _ _ | DDyUnlink _ | DStRemove _ => true
  | _ => false
  end.

(* what the helpers (returns, waits, clean-up continuations) leave alone *)
Definition gsame (g g' : gst) : Prop :=
  insts g' = insts g /\ cur g' = cur g /\ gmulti g' = gmulti g.
Definition lsame (l l' : lst) : Prop :=
  regi l' = regi l /\ nreg l' = nreg l /\ handles l' = handles l /\ leaks l' = leaks l.
Definition hpc (p : pc) : Prop := match p with Idle | PAccess | PRmTag _ | CTagStat => True | _ => False end.
Definition calm (g g' : gst) (l l' : lst) : Prop := gsame g g' /\ lsame l l' /\ hpc (at_pc l').

Ltac calm_now := split; [repeat split|split; [repeat split|cbn; auto]].

Lemma op_done_calm t g l r g' l' es es' : op_done t g l r (handles l) (nreg l) es = Some (g', l', es') -> calm g g' l l'.
Proof. unfold op_done, op_done_k. intros H; inversion H; subst. calm_now. Qed.

Lemma ooc_tail_calm P t g l o es g' l' es' : ooc_tail P t g l o es = Some (g', l', es') -> calm g g' l l'.
Proof.
  unfold ooc_tail. destruct (Nat.leb _ _); intros H; [eapply op_done_calm; eauto|inversion H; subst; calm_now].
Qed.

Lemma call_fails_calm P t g l k e es g' l' es' : call_fails P t g l k e es = Some (g', l', es') -> calm g g' l l'.
Proof.
  unfold call_fails. destruct (in_ooc l) as [o|]; [|apply op_done_calm].
  destruct k; destruct e; intros H;
    try (eapply op_done_calm; eassumption); try (eapply ooc_tail_calm; eassumption).
  destruct (create_precheck _ _) in H; [eapply op_done_calm; eauto|inversion H; subst; calm_now].
Qed.

Lemma wait_retry_calm P t g l es g' l' es' : wait_retry P t g l es = Some (g', l', es') -> calm g g' l l'.
Proof.
  unfold wait_retry. destruct (Nat.leb _ _); intros H; [eapply call_fails_calm; eauto|inversion H; subst; calm_now].
Qed.

Lemma run_cont_calm P t g l c es g' l' es' : run_cont P t g l c es = Some (g', l', es') -> calm g g' l l'.
Proof.
  unfold run_cont. destruct c; intros H; [eapply call_fails_calm|eapply op_done_calm|eapply wait_retry_calm]; eauto.
Qed.

Lemma fail_with_tag_calm P t g l own c es g' l' es' : fail_with_tag P t g l own c es = Some (g', l', es') -> calm g g' l l'.
Proof.
  unfold fail_with_tag. destruct own; intros H; [inversion H; subst; calm_now|eapply run_cont_calm; eauto].
Qed.

Lemma avail_hangs_calm P t g l es g' l' es' : avail_hangs P t g l es = Some (g', l', es') -> calm g g' l l'.
Proof.
  unfold avail_hangs. destruct (cur_kind l); intros H; try (eapply wait_retry_calm; eassumption); eapply call_fails_calm; eauto.
Qed.

Lemma avail_none_calm P t g l es g' l' es' : avail_none P t g l es = Some (g', l', es') -> calm g g' l l'.
Proof.
  unfold avail_none. destruct (cur_kind l); intros H; try (eapply call_fails_calm; eassumption); inversion H; subst; calm_now.
Qed.

Ltac calm_of H :=
  first [ eapply call_fails_calm in H | eapply wait_retry_calm in H
        | eapply run_cont_calm in H | eapply fail_with_tag_calm in H | eapply avail_hangs_calm in H | eapply avail_none_calm in H
        | eapply ooc_tail_calm in H | eapply op_done_calm in H ].

(* ---- what a step that is not one of the registry-relevant ones does ---- *)
Definition rsame (x x' : inst) : Prop :=
  i_locked x' = i_locked x /\ i_gen x' = i_gen x /\ i_members x' = i_members x /\
  (i_dy x' = DFinal <-> i_dy x = DFinal) /\ (i_dy_linked x = true -> i_dy_linked x' = true) /\ i_owner x' = i_owner x.

Lemma rsame_refl x : rsame x x.
Proof. unfold rsame. tauto. Qed.

(* classes that count as "in the registry" *)
Definition xcl (c : pclass) : bool := match c with CUnconf _ | CInit _ | CDropPre _ => true | _ => false end.

Definition neutral (g g' : gst) (l l' : lst) : Prop :=
  cur g' = cur g /\ gmulti g' = gmulti g /\ length (insts g') = length (insts g) /\
  (forall i x, get_inst g i = Some x -> exists x', get_inst g' i = Some x' /\ rsame x x') /\
  lsame l l' /\ (pcl (at_pc l') = pcl (at_pc l) \/ (pcl (at_pc l') = CNone /\ xcl (pcl (at_pc l)) = false)).

Lemma neutral_of_calm g0 g g' l0 l l' :
  cur g = cur g0 -> gmulti g = gmulti g0 -> length (insts g) = length (insts g0) ->
  (forall i x, get_inst g0 i = Some x -> exists x', get_inst g i = Some x' /\ rsame x x') ->
  lsame l0 l -> xcl (pcl (at_pc l0)) = false -> calm g g' l l' -> neutral g0 g' l0 l'.
Proof.
  intros Hc Hm Hl Hi Hs Hx ((Ei & Ec & Em) & (A & B & C & D) & Hp).
  destruct Hs as (A' & B' & C' & D').
  split; [congruence|]. split; [congruence|]. split; [rewrite Ei; auto|].
  split; [intros i x H; destruct (Hi i x H) as (x' & Hx' & R); exists x'; split; auto; unfold get_inst in *; rewrite Ei; auto|].
  split; [repeat split; congruence|].
  right. split; auto. destruct (at_pc l'); cbn in *; try contradiction; auto.
Qed.

Lemma insts_same_set_inst g j y x0 :
  get_inst g j = Some x0 -> rsame x0 y ->
  forall i x, get_inst g i = Some x -> exists x', get_inst (set_inst g j y) i = Some x' /\ rsame x x'.
Proof.
  intros H R i x Hi. destruct (Nat.eq_dec i j) as [->|Hne].
  - exists y. rewrite (get_set_inst_same _ _ _ _ H). assert (x = x0) by congruence. subst. auto.
  - exists x. rewrite get_set_inst_other; auto. split; auto. apply rsame_refl.
Qed.

Lemma insts_same_refl g : forall i x, get_inst g i = Some x -> exists x', get_inst g i = Some x' /\ rsame x x'.
Proof. intros i x H. exists x. split; auto. apply rsame_refl. Qed.

Ltac rsame_inst :=
  unfold rsame, upd_st, upd_dy, upd_res, upd_reg; cbn;
  repeat match goal with Ed : i_dy _ = _ |- _ => rewrite Ed | Es : i_st _ = _ |- _ => rewrite Es end;
  cbn; repeat split; auto; try congruence; try discriminate.

Ltac neutral_explicit :=
  split; [reflexivity|]; split; [reflexivity|]; split; [first [reflexivity | unfold set_inst; cbn [insts]; apply upd_len]|];
  split; [first [apply insts_same_refl
                | (intros ? ? Hx; eexists; split; [exact Hx|apply rsame_refl])
                | match goal with E : get_inst ?g ?j = Some ?x0 |- _ => apply (insts_same_set_inst g j _ x0 E); rsame_inst end]|];
  split; [repeat split|try match goal with Ep : at_pc _ = _ |- _ => rewrite Ep end; cbn; auto].

Lemma step_neutral P t g l g' l' es :
  step P t g l = Some (g', l', es) -> special (at_pc l) = false -> neutral g g' l l'.
Proof.
  unfold step, with_inst. intros H Hs.
  destruct (at_pc l) eqn:Epc; cbn in Hs; try discriminate.
  all: step_cases H.
  all: try (inversion H; subst; neutral_explicit; fail).
  all: try (calm_of H; eapply neutral_of_calm; [| | | | | |exact H];
            first [reflexivity | (rewrite Epc; reflexivity) | unfold set_inst; cbn [insts]; apply upd_len | apply insts_same_refl
                  | (intros ? ? Hx; eexists; split; [exact Hx|apply rsame_refl]) | repeat split
                  | match goal with E : get_inst ?g ?j = Some ?x0 |- _ => apply (insts_same_set_inst g j _ x0 E); rsame_inst end]; fail).
Qed.

(* ------------------------------------------------------------------------------------------ *)
(* The registry invariant                                                                       *)
(* ------------------------------------------------------------------------------------------ *)
Definition unl (g : gst) (i : nat) : Prop :=
  exists x, get_inst g i = Some x /\ i_dy x = DFinal /\ i_locked x = false.

(* thread-side reading of "node t is in the registry of instance i" *)
Definition expected (l : lst) (i : nat) : Prop :=
  regi l = Some i \/ pcl (at_pc l) = CUnconf i \/ pcl (at_pc l) = CInit i \/ pcl (at_pc l) = CDropPre i.

Record LB (g : gst) (ls : nat -> lst) (t : nat) : Prop := mkLB {
  lb_reg0 : nreg (ls t) = O <-> regi (ls t) = None;
  lb_len : length (handles (ls t)) = nreg (ls t);
  lb_hreg : forall j c, In (j, c) (handles (ls t)) -> regi (ls t) = Some j;
  lb_regi : forall i, regi (ls t) = Some i -> unl g i;
  lb_open : forall j, (pcl (at_pc (ls t)) = COpen j \/ pcl (at_pc (ls t)) = CUnconf j) -> forall i, regi (ls t) = Some i -> j = i;
  lb_unconf : forall j, pcl (at_pc (ls t)) = CUnconf j -> regi (ls t) = None /\ final g j;
  lb_create : forall i, (pcl (at_pc (ls t)) = CCreate i \/ pcl (at_pc (ls t)) = CInit i) -> cur g = Some i /\ regi (ls t) = None;
  lb_droppre : forall h, pcl (at_pc (ls t)) = CDropPre h -> unl g h /\ regi (ls t) = None;
  lb_snap : forall h, pcl (at_pc (ls t)) = CSnap h -> final g h /\ regi (ls t) = None;
  lb_cas : forall h g0, pcl (at_pc (ls t)) = CCas h g0 ->
           regi (ls t) = None /\
           exists x, get_inst g h = Some x /\ i_dy x = DFinal /\ (g0 <= i_gen x)%nat /\
             (i_locked x = false -> i_gen x = g0 -> forall t', In t' (i_members x) -> pcl (at_pc (ls t')) = CUnconf h);
  lb_rem : forall h, pcl (at_pc (ls t)) = CRem h ->
           regi (ls t) = None /\ cur g = Some h /\ exists x, get_inst g h = Some x /\ i_dy x = DFinal /\ i_locked x = true
}.

Record GB (g : gst) (ls : nat -> lst) : Prop := mkGB {
  gb_corr : forall i x, get_inst g i = Some x -> i_locked x = false -> forall t, In t (i_members x) <-> expected (ls t) i;
  gb_lock : forall i x, get_inst g i = Some x -> i_locked x = true ->
            i_dy x = DFinal /\ forall t, expected (ls t) i -> pcl (at_pc (ls t)) = CUnconf i;
  gb_live : forall i x, get_inst g i = Some x -> i_locked x = false -> i_dy x = DFinal -> cur g = Some i /\ i_dy_linked x = true;
  gb_cur : forall i, cur g = Some i -> exists x, get_inst g i = Some x;
  gb_rem1 : forall t t' h, pcl (at_pc (ls t)) = CRem h -> pcl (at_pc (ls t')) = CRem h -> t = t'
}.

Definition Body (g : gst) (ls : nat -> lst) : Prop := GB g ls /\ forall t, LB g ls t.

(* ---- transfer along a neutral step ---- *)
Lemma neutral_back g g' l l' i x' :
  neutral g g' l l' -> get_inst g' i = Some x' -> exists x, get_inst g i = Some x /\ rsame x x'.
Proof.
  intros (_ & _ & Hl & Hi & _) H.
  assert (Hlt : (i < length (insts g'))%nat) by (apply nth_error_Some; unfold get_inst in H; congruence).
  rewrite Hl in Hlt. apply nth_error_Some in Hlt. destruct (nth_error (insts g) i) as [x|] eqn:E; [|congruence].
  exists x. split; auto. destruct (Hi i x E) as (y & Hy & R). assert (y = x') by congruence. subst. auto.
Qed.

Lemma neutral_final g g' l l' i : neutral g g' l l' -> final g i -> final g' i.
Proof.
  intros (_ & _ & _ & Hi & _) (x & Hx & Hd). destruct (Hi i x Hx) as (x' & Hx' & (_ & _ & _ & Hf & _)).
  exists x'. split; auto. apply Hf; auto.
Qed.

Lemma neutral_unl g g' l l' i : neutral g g' l l' -> unl g i -> unl g' i.
Proof.
  intros (_ & _ & _ & Hi & _) (x & Hx & Hd & Hl). destruct (Hi i x Hx) as (x' & Hx' & (A & _ & _ & Hf & _)).
  exists x'. split; auto. split; [apply Hf; auto|congruence].
Qed.

Lemma expected_same l l' i :
  regi l' = regi l -> (pcl (at_pc l') = pcl (at_pc l) \/ (pcl (at_pc l') = CNone /\ xcl (pcl (at_pc l)) = false)) ->
  (expected l' i <-> expected l i).
Proof.
  intros Er [Ec|[Ec Ex]]; unfold expected; rewrite Er.
  - rewrite Ec. tauto.
  - rewrite Ec. destruct (pcl (at_pc l)); cbn in Ex; try discriminate; split; intros [H|[H|[H|H]]]; auto; discriminate.
Qed.

Lemma cls_back l l' c :
  (pcl (at_pc l') = pcl (at_pc l) \/ (pcl (at_pc l') = CNone /\ xcl (pcl (at_pc l)) = false)) ->
  pcl (at_pc l') = c -> c <> CNone -> pcl (at_pc l) = c.
Proof. intros [E|[E _]] H N; congruence. Qed.

Lemma neutral_preserves g ls t g' l' :
  neutral g g' (ls t) l' -> Body g ls -> Body g' (upd_l ls t l').
Proof.
  intros Hn [HG HL].
  pose proof Hn as (Hcur & Hmul & Hlen & Hi & (Er & En & Eh & Ek) & Hc).
  assert (Hexp : forall t' i, expected (upd_l ls t l' t') i <-> expected (ls t') i).
  { intros t' i. destruct (Nat.eq_dec t' t) as [->|Hne]; [rewrite upd_l_same; apply expected_same; auto|rewrite upd_l_other by auto; tauto]. }
  assert (Hcl : forall t' c, pcl (at_pc (upd_l ls t l' t')) = c -> c <> CNone -> pcl (at_pc (ls t')) = c).
  { intros t' c. destruct (Nat.eq_dec t' t) as [->|Hne]; [rewrite upd_l_same; apply cls_back; auto|rewrite upd_l_other by auto; auto]. }
  assert (Hregi : forall t', regi (upd_l ls t l' t') = regi (ls t')).
  { intros t'. destruct (Nat.eq_dec t' t) as [->|Hne]; [rewrite upd_l_same; auto|rewrite upd_l_other by auto; auto]. }
  split.
  - (* GB *)
    constructor.
    + intros i x' Hx' Hl t'. destruct (neutral_back _ _ _ _ _ _ Hn Hx') as (x & Hx & (A & B & C & D)).
      rewrite Hexp, C. apply (gb_corr _ _ HG i x Hx). congruence.
    + intros i x' Hx' Hl. destruct (neutral_back _ _ _ _ _ _ Hn Hx') as (x & Hx & (A & B & C & D & _)).
      destruct (gb_lock _ _ HG i x Hx) as [Hd He]; [congruence|]. split; [apply D; auto|].
      intros t' Ht'. apply Hexp in Ht'. specialize (He t' Ht').
      destruct (Nat.eq_dec t' t) as [->|Hne]; [rewrite upd_l_same|rewrite upd_l_other by auto; auto].
      destruct Hc as [Ec|[Ec Ex]]; [congruence|]. rewrite He in Ex. discriminate.
    + intros i x' Hx' Hl Hd. destruct (neutral_back _ _ _ _ _ _ Hn Hx') as (x & Hx & (A & B & C & D & E & _)).
      destruct (gb_live _ _ HG i x Hx) as [Hcu Hlk]; [congruence|apply D; auto|]. split; [congruence|auto].
    + intros i Hci. rewrite Hcur in Hci. destruct (gb_cur _ _ HG i Hci) as (x & Hx). destruct (Hi i x Hx) as (x' & Hx' & _). eauto.
    + intros t1 t2 h H1 H2. apply (gb_rem1 _ _ HG t1 t2 h); apply Hcl; auto; discriminate.
  - (* LB *)
    intros t'. specialize (HL t').
    assert (Hloc : nreg (upd_l ls t l' t') = nreg (ls t') /\ handles (upd_l ls t l' t') = handles (ls t')).
    { destruct (Nat.eq_dec t' t) as [->|Hne]; [rewrite upd_l_same; auto|rewrite upd_l_other by auto; auto]. }
    destruct Hloc as [Enr Ehd].
    constructor; rewrite ?Hregi, ?Enr, ?Ehd.
    + apply (lb_reg0 _ _ _ HL).
    + apply (lb_len _ _ _ HL).
    + apply (lb_hreg _ _ _ HL).
    + intros i Hr. eapply neutral_unl; eauto. apply (lb_regi _ _ _ HL); auto.
    + intros j [H|H] i Hr; apply (lb_open _ _ _ HL j); auto; [left|right]; apply Hcl; auto; discriminate.
    + intros j H. apply Hcl in H; [|discriminate]. destruct (lb_unconf _ _ _ HL j H). split; auto. eapply neutral_final; eauto.
    + intros i H. rewrite Hcur. apply (lb_create _ _ _ HL i). destruct H as [H|H]; [left|right]; apply Hcl; auto; discriminate.
    + intros h H. apply Hcl in H; [|discriminate]. destruct (lb_droppre _ _ _ HL h H). split; auto. eapply neutral_unl; eauto.
    + intros h H. apply Hcl in H; [|discriminate]. destruct (lb_snap _ _ _ HL h H). split; auto. eapply neutral_final; eauto.
    + intros h g0 H. apply Hcl in H; [|discriminate]. destruct (lb_cas _ _ _ HL h g0 H) as (Hr & x & Hx & Hd & Hge & Hp).
      split; auto. destruct (Hi h x Hx) as (x' & Hx' & (A & B & C & D & _)).
      exists x'. split; auto. split; [apply D; auto|]. split; [lia|].
      intros Hl Hg t2 Hin. rewrite C in Hin. rewrite A in Hl. rewrite B in Hg. specialize (Hp Hl Hg t2 Hin).
      destruct (Nat.eq_dec t2 t) as [->|Hne]; [rewrite upd_l_same|rewrite upd_l_other by auto; auto].
      destruct Hc as [Ec|[Ec Ex]]; [congruence|]. rewrite Hp in Ex. discriminate.
    + intros h H. apply Hcl in H; [|discriminate]. destruct (lb_rem _ _ _ HL h H) as (Hr & Hcu & x & Hx & Hd & Hl).
      split; auto. split; [congruence|]. destruct (Hi h x Hx) as (x' & Hx' & (A & B & C & D & _)).
      exists x'. split; auto. split; [apply D; auto|congruence].
Qed.

(* ---- frame for the threads that did not move ---- *)
Lemma LB_frame g g' ls ls' t' :
  ls' t' = ls t' ->
  (forall i, (regi (ls t') = Some i \/ pcl (at_pc (ls t')) = CDropPre i) -> unl g i -> unl g' i) ->
  (forall i, (pcl (at_pc (ls t')) = CUnconf i \/ pcl (at_pc (ls t')) = CSnap i) -> final g i -> final g' i) ->
  (forall i, cur g = Some i -> (exists c, pcl (at_pc (ls t')) = c /\ (c = CCreate i \/ c = CInit i \/ c = CRem i)) -> cur g' = Some i) ->
  (forall h g0 x, pcl (at_pc (ls t')) = CCas h g0 -> get_inst g h = Some x -> i_dy x = DFinal -> (g0 <= i_gen x)%nat ->
     (i_locked x = false -> i_gen x = g0 -> forall t2, In t2 (i_members x) -> pcl (at_pc (ls t2)) = CUnconf h) ->
     exists x', get_inst g' h = Some x' /\ i_dy x' = DFinal /\ (g0 <= i_gen x')%nat /\
       (i_locked x' = false -> i_gen x' = g0 -> forall t2, In t2 (i_members x') -> pcl (at_pc (ls' t2)) = CUnconf h)) ->
  (forall h x, pcl (at_pc (ls t')) = CRem h -> get_inst g h = Some x -> i_dy x = DFinal -> i_locked x = true ->
     exists x', get_inst g' h = Some x' /\ i_dy x' = DFinal /\ i_locked x' = true) ->
  LB g ls t' -> LB g' ls' t'.
Proof.
  intros E Punl Pfin Pcur Pcas Plk HL. constructor; rewrite E.
  - apply (lb_reg0 _ _ _ HL).
  - apply (lb_len _ _ _ HL).
  - apply (lb_hreg _ _ _ HL).
  - intros i Hr. apply Punl; auto. apply (lb_regi _ _ _ HL); auto.
  - apply (lb_open _ _ _ HL).
  - intros j H. destruct (lb_unconf _ _ _ HL j H). split; auto.
  - intros i H. destruct (lb_create _ _ _ HL i H) as [Hc Hr]. split; auto. apply Pcur; auto.
    destruct H as [H|H]; eexists; split; eauto.
  - intros h H. destruct (lb_droppre _ _ _ HL h H). split; auto.
  - intros h H. destruct (lb_snap _ _ _ HL h H). split; auto.
  - intros h g0 H. destruct (lb_cas _ _ _ HL h g0 H) as (Hr & x & Hx & Hd & Hge & Hp). split; auto.
    apply (Pcas h g0 x); auto.
  - intros h H. destruct (lb_rem _ _ _ HL h H) as (Hr & Hc & x & Hx & Hd & Hl). split; auto.
    split; [apply Pcur; auto; eexists; split; eauto|]. apply (Plk h x); auto.
Qed.

(* a step that leaves the instances and cur alone (it may append to the log) *)
Lemma gsame_step_preserves g g' ls t l' :
  gsame g g' ->
  (forall i x, get_inst g i = Some x -> i_locked x = false -> (expected l' i <-> expected (ls t) i)) ->
  (forall i x, get_inst g i = Some x -> i_locked x = true -> expected l' i -> pcl (at_pc l') = CUnconf i) ->
  (forall h x, get_inst g h = Some x -> i_locked x = false -> In t (i_members x) ->
     pcl (at_pc (ls t)) = CUnconf h -> pcl (at_pc l') = CUnconf h) ->
  (forall h, pcl (at_pc l') <> CRem h) ->
  LB g (upd_l ls t l') t ->
  Body g ls -> Body g' (upd_l ls t l').
Proof.
  intros (Ei & Ec & Em) E1 E2 E3 Hnr O6 [HG HL].
  assert (Hget : forall i, get_inst g' i = get_inst g i) by (intros; unfold get_inst; now rewrite Ei).
  assert (Hcls : forall t' c, t' <> t -> pcl (at_pc (upd_l ls t l' t')) = c -> pcl (at_pc (ls t')) = c)
    by (intros t' c Hne; rewrite upd_l_other by auto; auto).
  split.
  - constructor.
    + intros i x Hxi Hl t'. rewrite Hget in Hxi. destruct (Nat.eq_dec t' t) as [->|Hne].
      * rewrite upd_l_same. rewrite (E1 i x Hxi Hl). apply (gb_corr _ _ HG i x Hxi Hl).
      * rewrite upd_l_other by auto. apply (gb_corr _ _ HG i x Hxi Hl).
    + intros i x Hxi Hl. rewrite Hget in Hxi. destruct (gb_lock _ _ HG i x Hxi Hl) as [Hd He]. split; auto.
      intros t' Ht'. destruct (Nat.eq_dec t' t) as [->|Hne].
      * rewrite upd_l_same in *. apply (E2 i x); auto.
      * rewrite upd_l_other in * by auto. auto.
    + intros i x Hxi Hl Hd. rewrite Hget in Hxi. rewrite Ec. apply (gb_live _ _ HG i x Hxi Hl Hd).
    + intros i Hci. rewrite Ec in Hci. destruct (gb_cur _ _ HG i Hci) as (x & Hxi). exists x. now rewrite Hget.
    + intros t1 t2 h H1 H2. destruct (Nat.eq_dec t1 t) as [->|N1]; [rewrite upd_l_same in H1; exfalso; eapply Hnr; eauto|].
      destruct (Nat.eq_dec t2 t) as [->|N2]; [rewrite upd_l_same in H2; exfalso; eapply Hnr; eauto|].
      apply (gb_rem1 _ _ HG t1 t2 h); apply Hcls; auto.
  - intros t'. destruct (Nat.eq_dec t' t) as [->|Hne].
    + apply (LB_frame g g' (upd_l ls t l') (upd_l ls t l')); auto.
      * intros i _ (x & A & B & C). exists x. rewrite Hget. auto.
      * intros i _ (x & A & B). exists x. rewrite Hget. auto.
      * intros i H _. congruence.
      * intros h g0 x Hc Hxh Hd Hge Hp. exists x. rewrite Hget. repeat split; auto.
      * intros h x _ Hxh Hd Hl. exists x. rewrite Hget. auto.
    + apply (LB_frame g g' ls); auto.
      * apply upd_l_other; auto.
      * intros i _ (x & A & B & C). exists x. rewrite Hget. auto.
      * intros i _ (x & A & B). exists x. rewrite Hget. auto.
      * intros i H _. congruence.
      * intros h g0 x Hc Hxh Hd Hge Hp. exists x. rewrite Hget. repeat split; auto.
        intros Hl Hg t2 Hin. specialize (Hp Hl Hg t2 Hin).
        destruct (Nat.eq_dec t2 t) as [->|N2]; [|rewrite upd_l_other by auto; auto].
        rewrite upd_l_same. apply (E3 h x); auto.
      * intros h x _ Hxh Hd Hl. exists x. rewrite Hget. auto.
Qed.

(* ---- a step that rewrites ONE instance and the stepping thread's local state ---- *)
Lemma inst_step_preserves g ls t g' l' j x y :
  get_inst g j = Some x -> get_inst g' j = Some y ->
  (forall i, i <> j -> get_inst g' i = get_inst g i) ->
  cur g' = cur g ->
  Body g ls ->
  (i_locked y = false -> forall t', In t' (i_members y) <-> expected (upd_l ls t l' t') j) ->
  (i_locked y = true -> i_dy y = DFinal /\ forall t', expected (upd_l ls t l' t') j -> pcl (at_pc (upd_l ls t l' t')) = CUnconf j) ->
  (i_locked y = false -> i_dy y = DFinal -> cur g = Some j /\ i_dy_linked y = true) ->
  (forall i, i <> j -> (expected l' i <-> expected (ls t) i)) ->
  (forall i, i <> j -> pcl (at_pc (ls t)) = CUnconf i -> pcl (at_pc l') = CUnconf i) ->
  (forall h, pcl (at_pc l') = CRem h -> forall t', t' <> t -> pcl (at_pc (ls t')) <> CRem h) ->
  LB g' (upd_l ls t l') t ->
  (forall t', t' <> t -> LB g ls t' -> LB g' (upd_l ls t l') t') ->
  Body g' (upd_l ls t l').
Proof.
  intros Hx Hy Hoth Hcur [HG HL] O1 O2 O3 O4 O4' O5 O6 O7.
  assert (Hexp : forall t' i, i <> j -> (expected (upd_l ls t l' t') i <-> expected (ls t') i)).
  { intros t' i Hne. destruct (Nat.eq_dec t' t) as [->|N]; [rewrite upd_l_same; auto|rewrite upd_l_other by auto; tauto]. }
  split.
  - constructor.
    + intros i z Hz Hl t'. destruct (Nat.eq_dec i j) as [->|Hne].
      * assert (z = y) by congruence. subst. apply O1; auto.
      * rewrite Hoth in Hz by auto. rewrite Hexp by auto. apply (gb_corr _ _ HG i z Hz Hl).
    + intros i z Hz Hl. destruct (Nat.eq_dec i j) as [->|Hne].
      * assert (z = y) by congruence. subst. apply O2; auto.
      * rewrite Hoth in Hz by auto. destruct (gb_lock _ _ HG i z Hz Hl) as [Hd He]. split; auto.
        intros t' Ht'. apply Hexp in Ht'; auto. specialize (He t' Ht').
        destruct (Nat.eq_dec t' t) as [->|N]; [rewrite upd_l_same; apply O4'; auto|rewrite upd_l_other by auto; auto].
    + intros i z Hz Hl Hd. rewrite Hcur. destruct (Nat.eq_dec i j) as [->|Hne].
      * assert (z = y) by congruence. subst. apply O3; auto.
      * rewrite Hoth in Hz by auto. apply (gb_live _ _ HG i z Hz Hl Hd).
    + intros i Hci. rewrite Hcur in Hci. destruct (Nat.eq_dec i j) as [->|Hne]; [eauto|].
      destruct (gb_cur _ _ HG i Hci) as (z & Hz). exists z. rewrite Hoth; auto.
    + intros t1 t2 h H1 H2.
      destruct (Nat.eq_dec t1 t) as [->|N1]; destruct (Nat.eq_dec t2 t) as [->|N2]; auto.
      * rewrite upd_l_same in H1. rewrite upd_l_other in H2 by auto. exfalso. eapply O5; eauto.
      * rewrite upd_l_same in H2. rewrite upd_l_other in H1 by auto. exfalso. eapply O5; eauto.
      * rewrite upd_l_other in H1, H2 by auto. apply (gb_rem1 _ _ HG t1 t2 h); auto.
  - intros t'. destruct (Nat.eq_dec t' t) as [->|N]; auto.
Qed.

(* the instances other than j, for the unmoved threads *)
Lemma unl_other g g' j i :
  (forall k, k <> j -> get_inst g' k = get_inst g k) -> i <> j -> unl g i -> unl g' i.
Proof. intros H N (x & A & B). exists x. rewrite H; auto. Qed.

Lemma final_other g g' j i :
  (forall k, k <> j -> get_inst g' k = get_inst g k) -> i <> j -> final g i -> final g' i.
Proof. intros H N (x & A & B). exists x. rewrite H; auto. Qed.

Lemma LB_other_inst g g' ls t l' j x y t' :
  t' <> t ->
  get_inst g j = Some x -> get_inst g' j = Some y ->
  (forall i, i <> j -> get_inst g' i = get_inst g i) ->
  cur g' = cur g ->
  (i_dy x = DFinal -> i_dy y = DFinal) ->
  ((regi (ls t') = Some j \/ pcl (at_pc (ls t')) = CDropPre j) -> i_locked x = false -> i_locked y = false) ->
  (forall g0, pcl (at_pc (ls t')) = CCas j g0 -> i_dy x = DFinal -> (g0 <= i_gen x)%nat ->
     (i_locked x = false -> i_gen x = g0 -> forall t2, In t2 (i_members x) -> pcl (at_pc (ls t2)) = CUnconf j) ->
     (g0 <= i_gen y)%nat /\
     (i_locked y = false -> i_gen y = g0 -> forall t2, In t2 (i_members y) -> pcl (at_pc (upd_l ls t l' t2)) = CUnconf j)) ->
  (pcl (at_pc (ls t')) = CRem j -> i_locked x = true -> i_locked y = true) ->
  (forall h, h <> j -> pcl (at_pc (ls t)) = CUnconf h -> pcl (at_pc l') = CUnconf h) ->
  LB g ls t' -> LB g' (upd_l ls t l') t'.
Proof.
  intros N Hx Hy Hoth Hcur Hd Hunl Hcas Hrem Hkeep HL.
  apply (LB_frame g g' ls); auto.
  - apply upd_l_other; auto.
  - intros i Hneed Hu. destruct (Nat.eq_dec i j) as [->|Hne]; [|eapply unl_other; eauto].
    destruct Hu as (z & A & B & C). assert (z = x) by congruence. subst. exists y. split; auto.
  - intros i _ Hf. destruct (Nat.eq_dec i j) as [->|Hne]; [|eapply final_other; eauto].
    destruct Hf as (z & A & B). assert (z = x) by congruence. subst. exists y. split; auto.
  - intros i H _. congruence.
  - intros h g0 z Hc Hz Hdz Hge Hp. destruct (Nat.eq_dec h j) as [->|Hne].
    + assert (z = x) by congruence. subst. exists y. destruct (Hcas g0 Hc Hdz Hge Hp) as [A B]. repeat split; auto.
    + exists z. rewrite Hoth by auto. repeat split; auto.
      intros Hl Hg t2 Hin. specialize (Hp Hl Hg t2 Hin).
      destruct (Nat.eq_dec t2 t) as [->|N2]; [rewrite upd_l_same; apply Hkeep; auto|rewrite upd_l_other by auto; auto].
  - intros h z Hc Hz Hdz Hl. destruct (Nat.eq_dec h j) as [->|Hne].
    + assert (z = x) by congruence. subst. exists y. auto.
    + exists z. rewrite Hoth by auto. auto.
Qed.

(* ------------------------------------------------------------------------------------------ *)
(* The registry steps                                                                           *)
(* ------------------------------------------------------------------------------------------ *)
Lemma get_set_same g j y x0 : get_inst g j = Some x0 -> get_inst (set_inst g j y) j = Some y.
Proof. apply get_set_inst_same. Qed.

Lemma expected_set_pc l p i :
  expected (set_pc l p) i <-> (regi l = Some i \/ pcl p = CUnconf i \/ pcl p = CInit i \/ pcl p = CDropPre i).
Proof. unfold expected; cbn. tauto. Qed.

Ltac other_same := intros ? ?; unfold get_inst, add_log; cbn [insts]; 
  match goal with |- nth_error (upd (insts ?g) ?j ?y) ?i = _ => fold (get_inst (set_inst g j y) i); fold (get_inst g i) end;
  apply get_set_inst_other; auto.

(* acquire, part 1: the cell is populated *)
Lemma reg_populate g ls t j own x :
  Body g ls -> at_pc (ls t) = OReg j own -> get_inst g j = Some x -> nreg (ls t) = O -> i_locked x = false -> final g j ->
  Body (set_inst g j (upd_reg x false (i_gen x) (i_members x ++ [t]))) (upd_l ls t (set_pc (ls t) (RIncr j own))).
Proof.
  intros HB Epc Hx Hn Hl Hf. pose proof HB as [HG HL]. pose proof (HL t) as Ht.
  assert (Hr : regi (ls t) = None) by (apply (lb_reg0 _ _ _ Ht); auto).
  set (y := upd_reg x false (i_gen x) (i_members x ++ [t])).
  assert (Hy : get_inst (set_inst g j y) j = Some y) by (eapply get_set_same; eauto).
  assert (Hoth : forall i, i <> j -> get_inst (set_inst g j y) i = get_inst g i) by (intros; apply get_set_inst_other; auto).
  apply (inst_step_preserves g ls t _ _ j x y); auto.
  - intros _ t'. cbn [y upd_reg i_members]. rewrite in_app_iff. destruct (Nat.eq_dec t' t) as [->|N].
    + rewrite upd_l_same, expected_set_pc. cbn. split; auto.
    + rewrite upd_l_other by auto. rewrite <- (gb_corr _ _ HG j x Hx Hl t'). cbn. split; [intros [H|[H|[]]]; auto; congruence|auto].
  - cbn. discriminate.
  - intros _ Hd. apply (gb_live _ _ HG j x Hx Hl Hd).
  - intros i N. rewrite expected_set_pc. unfold expected. rewrite Epc. cbn.
    split; intros [H|[H|[H|H]]]; auto; try discriminate; inversion H; congruence.
  - intros i N. rewrite Epc. cbn. discriminate.
  - cbn. discriminate.
  - constructor; rewrite upd_l_same; cbn [set_pc nreg regi handles at_pc pcl].
    + apply (lb_reg0 _ _ _ Ht).
    + apply (lb_len _ _ _ Ht).
    + apply (lb_hreg _ _ _ Ht).
    + intros i H. congruence.
    + intros j0 _ i H. congruence.
    + intros j0 H. inversion H; subst. split; auto. destruct Hf as (z & A & B). assert (z = x) by congruence. subst.
      exists y. split; auto.
    + intros i [H|H]; discriminate.
    + intros h H; discriminate.
    + intros h H; discriminate.
    + intros h g0 H; discriminate.
    + intros h H; discriminate.
  - intros t' N HL'. apply (LB_other_inst g _ ls t _ j x y t' N Hx Hy Hoth eq_refl); [| | | | |exact HL'].
    + auto.
    + auto.
    + intros g0 Hc Hd Hge Hp. cbn. split; auto. intros _ Hg t2 Hin. apply in_app_or in Hin.
      destruct (Nat.eq_dec t2 t) as [->|N2]; [rewrite upd_l_same; reflexivity|rewrite upd_l_other by auto].
      destruct Hin as [Hin|[Hin|[]]]; [apply Hp; auto|congruence].
    + intros _ H. congruence.
    + intros h _. rewrite Epc. cbn. discriminate.
Qed.

(* ---- helpers for steps that leave the instances alone ---- *)
Definition lsame3 (l l' : lst) : Prop := regi l' = regi l /\ nreg l' = nreg l /\ handles l' = handles l.

Lemma expected_cnone l i : pcl (at_pc l) = CNone -> (expected l i <-> regi l = Some i).
Proof. unfold expected. intros ->. split; [intros [H|[H|[H|H]]]; auto; discriminate|auto]. Qed.

Lemma LB_cnone g ls t l' :
  pcl (at_pc l') = CNone ->
  (nreg l' = O <-> regi l' = None) -> length (handles l') = nreg l' ->
  (forall j c, In (j, c) (handles l') -> regi l' = Some j) ->
  (forall i, regi l' = Some i -> unl g i) ->
  LB g (upd_l ls t l') t.
Proof.
  intros Hc H0 Hl Hh Hr. constructor; rewrite upd_l_same.
  - exact H0.
  - exact Hl.
  - exact Hh.
  - exact Hr.
  - intros j [H|H]; rewrite Hc in H; discriminate.
  - intros j H; rewrite Hc in H; discriminate.
  - intros i [H|H]; rewrite Hc in H; discriminate.
  - intros h H; rewrite Hc in H; discriminate.
  - intros h H; rewrite Hc in H; discriminate.
  - intros h g0 H; rewrite Hc in H; discriminate.
  - intros h H; rewrite Hc in H; discriminate.
Qed.

Lemma hpc_cnone p : hpc p -> pcl p = CNone.
Proof. destruct p; cbn; intros H; try contradiction; auto. Qed.

Lemma calm_body g g' ls t l' :
  gsame g g' -> lsame3 (ls t) l' -> hpc (at_pc l') ->
  (forall i, (pcl (at_pc (ls t)) = CUnconf i \/ pcl (at_pc (ls t)) = CInit i \/ pcl (at_pc (ls t)) = CDropPre i) ->
     exists x, get_inst g i = Some x /\ i_locked x = true) ->
  Body g ls -> Body g' (upd_l ls t l').
Proof.
  intros Hg (Er & En & Eh) Hp Hold HB. pose proof HB as [HG HL]. pose proof (HL t) as Ht.
  pose proof (hpc_cnone _ Hp) as Hc.
  apply (gsame_step_preserves g g' ls t l'); auto.
  - intros i x Hx Hl. rewrite (expected_cnone _ _ Hc), Er. unfold expected. split; auto.
    intros [H|H]; auto. destruct (Hold i H) as (z & Hz & Hlz). congruence.
  - intros i x Hx Hl He. apply (expected_cnone _ _ Hc) in He. rewrite Er in He.
    destruct (lb_regi _ _ _ Ht i He) as (z & Hz & _ & Hlz). congruence.
  - intros h x Hx Hl Hin Hcl. destruct (Hold h (or_introl Hcl)) as (z & Hz & Hlz). congruence.
  - intros h. rewrite Hc. discriminate.
  - apply LB_cnone; auto; rewrite ?Er, ?En, ?Eh.
    + apply (lb_reg0 _ _ _ Ht).
    + apply (lb_len _ _ _ Ht).
    + apply (lb_hreg _ _ _ Ht).
    + apply (lb_regi _ _ _ Ht).
Qed.

Lemma calm_lsame3 g g' l l' : calm g g' l l' -> gsame g g' /\ lsame3 l l' /\ hpc (at_pc l').
Proof. intros (A & (B & C & D & _) & E). repeat split; auto; apply A. Qed.

(* acquire, part 2 succeeded: the registration is confirmed, the handle is handed out *)
Lemma reg_confirm g g' ls t l' j x y c :
  Body g ls -> pcl (at_pc (ls t)) = CUnconf j -> get_inst g j = Some x -> i_locked x = false ->
  get_inst g' j = Some y -> (forall i, i <> j -> get_inst g' i = get_inst g i) -> cur g' = cur g ->
  i_locked y = false -> i_gen y = S (i_gen x) -> i_members y = i_members x -> i_dy y = i_dy x -> i_dy_linked y = i_dy_linked x ->
  pcl (at_pc l') = CNone -> regi l' = Some j -> nreg l' = 1%nat -> handles l' = handles (ls t) ++ [(j, c)] ->
  Body g' (upd_l ls t l').
Proof.
  intros HB Ecl Hx Hl Hy Hoth Hcur Yl Yg Ym Yd Yk Lc Lr Ln Lh. pose proof HB as [HG HL]. pose proof (HL t) as Ht.
  destruct (lb_unconf _ _ _ Ht j Ecl) as [Hr (z & Hz & Hzd)]. assert (z = x) by congruence. subst z.
  assert (Hn0 : nreg (ls t) = O) by (apply (lb_reg0 _ _ _ Ht); auto).
  assert (Hh0 : handles (ls t) = []) by (pose proof (lb_len _ _ _ Ht) as E; rewrite Hn0 in E; destruct (handles (ls t)); auto; discriminate).
  apply (inst_step_preserves g ls t g' l' j x y Hx Hy Hoth Hcur HB).
  - intros _ t'. rewrite Ym. destruct (Nat.eq_dec t' t) as [->|N].
    + rewrite upd_l_same. rewrite (gb_corr _ _ HG j x Hx Hl t). unfold expected. rewrite Ecl, Lr. tauto.
    + rewrite upd_l_other by auto. apply (gb_corr _ _ HG j x Hx Hl t').
  - congruence.
  - intros _ Hd. rewrite Yk. apply (gb_live _ _ HG j x Hx Hl). congruence.
  - intros i N. rewrite (expected_cnone _ _ Lc), Lr. unfold expected. rewrite Hr, Ecl.
    split; [intros H; inversion H; congruence|intros [H|[H|[H|H]]]; try discriminate; inversion H; congruence].
  - intros i N. rewrite Ecl. intros H; inversion H; congruence.
  - intros h. rewrite Lc. discriminate.
  - apply LB_cnone; auto; rewrite ?Lr, ?Ln, ?Lh, ?Hh0.
    + split; discriminate.
    + reflexivity.
    + intros j0 c0 [H|[]]. inversion H; auto.
    + intros i H. inversion H; subst. exists y. repeat split; auto. congruence.
  - intros t' N HL'. apply (LB_other_inst g g' ls t l' j x y t' N Hx Hy Hoth Hcur); [| | | | |exact HL'].
    + congruence.
    + intros _ _. exact Yl.
    + intros g0 Hc Hd Hge Hp. split; [lia|]. intros _ Hg. lia.
    + intros _ H. congruence.
    + intros h N'. rewrite Ecl. intros H; inversion H; congruence.
Qed.

(* the creator's initializer registers the creator *)
Lemma reg_init g g' ls t l' i x y :
  Body g ls -> pcl (at_pc (ls t)) = CCreate i -> get_inst g i = Some x -> i_dy x <> DFinal -> i_owner x = t ->
  (forall t', pcl (at_pc (ls t')) = CInit i -> t' = t) ->
  get_inst g' i = Some y -> (forall k, k <> i -> get_inst g' k = get_inst g k) -> cur g' = cur g ->
  i_locked y = false -> i_members y = [t] -> i_dy y = i_dy x ->
  pcl (at_pc l') = CInit i -> lsame3 (ls t) l' ->
  Body g' (upd_l ls t l').
Proof.
  intros HB Ecl Hx Hnf Hown Huniq Hy Hoth Hcur Yl Ym Yd Lc (Lr & Ln & Lh). pose proof HB as [HG HL]. pose proof (HL t) as Ht.
  destruct (lb_create _ _ _ Ht i (or_introl Ecl)) as [Hci Hr].
  assert (Hxl : i_locked x = false).
  { destruct (i_locked x) eqn:E; auto. destruct (gb_lock _ _ HG i x Hx E). congruence. }
  assert (Hnone : forall t', t' <> t -> ~ expected (ls t') i).
  { intros t' N [H|[H|[H|H]]].
    - destruct (lb_regi _ _ _ (HL t') i H) as (z & Hz & Hzd & _). congruence.
    - destruct (lb_unconf _ _ _ (HL t') i H) as [_ (z & Hz & Hzd)]. congruence.
    - apply N. auto.
    - destruct (lb_droppre _ _ _ (HL t') i H) as [(z & Hz & Hzd & _) _]. congruence. }
  apply (inst_step_preserves g ls t g' l' i x y Hx Hy Hoth Hcur HB).
  - intros _ t'. rewrite Ym. destruct (Nat.eq_dec t' t) as [->|N].
    + rewrite upd_l_same. unfold expected. rewrite Lc. cbn. tauto.
    + rewrite upd_l_other by auto. split; [intros [H|[]]; congruence|intros H; exfalso; eapply Hnone; eauto].
  - congruence.
  - intros _ Hd. congruence.
  - intros k N. unfold expected. rewrite Lr, Lc, Ecl, Hr.
    split; intros [H|[H|[H|H]]]; try discriminate; inversion H; congruence.
  - intros k N. rewrite Ecl. discriminate.
  - intros h. rewrite Lc. discriminate.
  - constructor; rewrite upd_l_same; rewrite ?Lr, ?Ln, ?Lh, ?Lc.
    + apply (lb_reg0 _ _ _ Ht).
    + apply (lb_len _ _ _ Ht).
    + apply (lb_hreg _ _ _ Ht).
    + intros k H. congruence.
    + intros j [H|H]; discriminate.
    + intros j H; discriminate.
    + intros k [H|H]; [discriminate|]. inversion H; subst. split; congruence.
    + intros h H; discriminate.
    + intros h H; discriminate.
    + intros h g0 H; discriminate.
    + intros h H; discriminate.
  - intros t' N HL'. apply (LB_other_inst g g' ls t l' i x y t' N Hx Hy Hoth Hcur); [| | | | |exact HL'].
    + congruence.
    + intros [H|H] _; exfalso; apply (Hnone t' N); unfold expected; auto.
    + intros g0 Hc. destruct (lb_cas _ _ _ HL' i g0 Hc) as (_ & z & Hz & Hzd & _). congruence.
    + intros Hc. destruct (lb_rem _ _ _ HL' i Hc) as (_ & _ & z & Hz & Hzd & _). congruence.
    + intros h N'. rewrite Ecl. discriminate.
Qed.

Lemma create_unlocked g ls i x : GB g ls -> get_inst g i = Some x -> i_dy x <> DFinal -> i_locked x = false.
Proof. intros HG Hx Hn. destruct (i_locked x) eqn:E; auto. destruct (gb_lock _ _ HG i x Hx E). congruence. Qed.

(* the creator's last step: final permissions, the handle is handed out *)
Lemma fin_handout g g' ls t l' i x y c :
  Body g ls -> pcl (at_pc (ls t)) = CInit i -> get_inst g i = Some x -> i_dy x <> DFinal ->
  get_inst g' i = Some y -> (forall k, k <> i -> get_inst g' k = get_inst g k) -> cur g' = cur g ->
  i_locked y = i_locked x -> i_gen y = i_gen x -> i_members y = i_members x -> i_dy y = DFinal -> i_dy_linked y = true ->
  pcl (at_pc l') = CNone -> regi l' = Some i -> nreg l' = 1%nat -> handles l' = handles (ls t) ++ [(i, c)] ->
  Body g' (upd_l ls t l').
Proof.
  intros HB Ecl Hx Hnf Hy Hoth Hcur Yl Yg Ym Yd Yk Lc Lr Ln Lh. pose proof HB as [HG HL]. pose proof (HL t) as Ht.
  destruct (lb_create _ _ _ Ht i (or_intror Ecl)) as [Hci Hr].
  pose proof (create_unlocked _ _ _ _ HG Hx Hnf) as Hxl.
  assert (Hn0 : nreg (ls t) = O) by (apply (lb_reg0 _ _ _ Ht); auto).
  assert (Hh0 : handles (ls t) = []) by (pose proof (lb_len _ _ _ Ht) as E; rewrite Hn0 in E; destruct (handles (ls t)); auto; discriminate).
  apply (inst_step_preserves g ls t g' l' i x y Hx Hy Hoth Hcur HB).
  - intros _ t'. rewrite Ym. destruct (Nat.eq_dec t' t) as [->|N].
    + rewrite upd_l_same. rewrite (gb_corr _ _ HG i x Hx Hxl t). unfold expected. rewrite Ecl, Lr. tauto.
    + rewrite upd_l_other by auto. apply (gb_corr _ _ HG i x Hx Hxl t').
  - congruence.
  - intros _ _. auto.
  - intros k N. rewrite (expected_cnone _ _ Lc), Lr. unfold expected. rewrite Hr, Ecl.
    split; [intros H; inversion H; congruence|intros [H|[H|[H|H]]]; try discriminate; inversion H; congruence].
  - intros k N. rewrite Ecl. discriminate.
  - intros h. rewrite Lc. discriminate.
  - apply LB_cnone; auto; rewrite ?Lr, ?Ln, ?Lh, ?Hh0.
    + split; discriminate.
    + reflexivity.
    + intros j0 c0 [H|[]]. inversion H; auto.
    + intros k H. inversion H; subst. exists y. repeat split; auto. congruence.
  - intros t' N HL'. apply (LB_other_inst g g' ls t l' i x y t' N Hx Hy Hoth Hcur); [| | | | |exact HL'].
    + auto.
    + intros _ _. congruence.
    + intros g0 Hc. destruct (lb_cas _ _ _ HL' i g0 Hc) as (_ & z & Hz & Hzd & _). congruence.
    + intros Hc. destruct (lb_rem _ _ _ HL' i Hc) as (_ & _ & z & Hz & Hzd & _). congruence.
    + intros h N'. rewrite Ecl. discriminate.
Qed.

Lemma filter_neq_in t t' (m : list nat) : In t' (filter (fun y => negb (Nat.eqb y t)) m) <-> (In t' m /\ t' <> t).
Proof.
  rewrite filter_In. split; intros [A B]; split; auto.
  - intros ->. rewrite Nat.eqb_refl in B. discriminate.
  - apply Bool.negb_true_iff. apply Nat.eqb_neq. auto.
Qed.

(* release, part 1: the cell is cleared, the generation advances *)
Lemma dereg_clear g g' ls t l' h x y :
  Body g ls -> pcl (at_pc (ls t)) = CDropPre h -> get_inst g h = Some x ->
  get_inst g' h = Some y -> (forall k, k <> h -> get_inst g' k = get_inst g k) -> cur g' = cur g ->
  i_locked y = false -> i_gen y = S (i_gen x) -> i_members y = filter (fun z => negb (Nat.eqb z t)) (i_members x) ->
  i_dy y = i_dy x -> i_dy_linked y = i_dy_linked x ->
  pcl (at_pc l') = CSnap h -> lsame3 (ls t) l' ->
  Body g' (upd_l ls t l').
Proof.
  intros HB Ecl Hx Hy Hoth Hcur Yl Yg Ym Yd Yk Lc (Lr & Ln & Lh). pose proof HB as [HG HL]. pose proof (HL t) as Ht.
  destruct (lb_droppre _ _ _ Ht h Ecl) as [(z & Hz & Hzd & Hzl) Hr]. assert (z = x) by congruence. subst z.
  apply (inst_step_preserves g ls t g' l' h x y Hx Hy Hoth Hcur HB).
  - intros _ t'. rewrite Ym, filter_neq_in. destruct (Nat.eq_dec t' t) as [->|N].
    + rewrite upd_l_same. unfold expected. rewrite Lr, Lc, Hr. split; [tauto|intros [H|[H|[H|H]]]; discriminate].
    + rewrite upd_l_other by auto. rewrite (gb_corr _ _ HG h x Hx Hzl t'). tauto.
  - congruence.
  - intros _ Hd. rewrite Yk. apply (gb_live _ _ HG h x Hx Hzl). congruence.
  - intros k N. unfold expected. rewrite Lr, Lc, Ecl.
    split; intros [H|[H|[H|H]]]; auto; try discriminate; inversion H; congruence.
  - intros k N. rewrite Ecl. discriminate.
  - intros k. rewrite Lc. discriminate.
  - constructor; rewrite upd_l_same; rewrite ?Lr, ?Ln, ?Lh, ?Lc.
    + apply (lb_reg0 _ _ _ Ht).
    + apply (lb_len _ _ _ Ht).
    + apply (lb_hreg _ _ _ Ht).
    + intros k H. congruence.
    + intros j [H|H]; discriminate.
    + intros j H; discriminate.
    + intros k [H|H]; discriminate.
    + intros k H; discriminate.
    + intros k H. inversion H; subst. split; auto. exists y. split; auto. congruence.
    + intros k g0 H; discriminate.
    + intros k H; discriminate.
  - intros t' N HL'. apply (LB_other_inst g g' ls t l' h x y t' N Hx Hy Hoth Hcur); [| | | | |exact HL'].
    + congruence.
    + intros _ _. exact Yl.
    + intros g0 Hc Hd Hge Hp. split; [lia|]. intros _ Hg. lia.
    + intros _ H. congruence.
    + intros k N'. rewrite Ecl. discriminate.
Qed.

(* lock(): the snapshot (generation, number of populated cells) *)
Lemma snap_step g g' ls t l' h x y :
  Body g ls -> pcl (at_pc (ls t)) = CSnap h -> get_inst g h = Some x -> i_locked x = false ->
  get_inst g' h = Some y -> (forall k, k <> h -> get_inst g' k = get_inst g k) -> cur g' = cur g ->
  i_locked y = false -> i_gen y = S (i_gen x) -> i_members y = i_members x -> i_dy y = i_dy x -> i_dy_linked y = i_dy_linked x ->
  lsame3 (ls t) l' ->
  ((i_members x = [] /\ pcl (at_pc l') = CCas h (S (i_gen x))) \/ pcl (at_pc l') = CNone) ->
  Body g' (upd_l ls t l').
Proof.
  intros HB Ecl Hx Hxl Hy Hoth Hcur Yl Yg Ym Yd Yk (Lr & Ln & Lh) Lc. pose proof HB as [HG HL]. pose proof (HL t) as Ht.
  destruct (lb_snap _ _ _ Ht h Ecl) as [(z & Hz & Hzd) Hr]. assert (z = x) by congruence. subst z.
  assert (Hne : forall k, ~ expected l' k).
  { intros k. unfold expected. rewrite Lr, Hr. destruct Lc as [[_ Lc]|Lc]; rewrite Lc; intros [H|[H|[H|H]]]; discriminate. }
  assert (Hno : forall k, ~ expected (ls t) k).
  { intros k. unfold expected. rewrite Hr, Ecl. intros [H|[H|[H|H]]]; discriminate. }
  apply (inst_step_preserves g ls t g' l' h x y Hx Hy Hoth Hcur HB).
  - intros _ t'. rewrite Ym. destruct (Nat.eq_dec t' t) as [->|N].
    + rewrite upd_l_same. rewrite (gb_corr _ _ HG h x Hx Hxl t). split; intros H; exfalso; [eapply Hno|eapply Hne]; eauto.
    + rewrite upd_l_other by auto. apply (gb_corr _ _ HG h x Hx Hxl t').
  - congruence.
  - intros _ Hd. rewrite Yk. apply (gb_live _ _ HG h x Hx Hxl). congruence.
  - intros k N. split; intros H; exfalso; [eapply Hne|eapply Hno]; eauto.
  - intros k N. rewrite Ecl. discriminate.
  - intros k. destruct Lc as [[_ Lc]|Lc]; rewrite Lc; discriminate.
  - destruct Lc as [[Hm Lc]|Lc].
    + constructor; rewrite upd_l_same; rewrite ?Lr, ?Ln, ?Lh, ?Lc.
      * apply (lb_reg0 _ _ _ Ht).
      * apply (lb_len _ _ _ Ht).
      * apply (lb_hreg _ _ _ Ht).
      * intros k H. congruence.
      * intros j [H|H]; discriminate.
      * intros j H; discriminate.
      * intros k [H|H]; discriminate.
      * intros k H; discriminate.
      * intros k H; discriminate.
      * intros k g0 H. inversion H; subst. split; auto. exists y. split; auto. split; [congruence|]. split; [lia|].
        intros _ _ t2 Hin. rewrite Ym, Hm in Hin. destruct Hin.
      * intros k H; discriminate.
    + apply LB_cnone; auto; rewrite ?Lr, ?Ln, ?Lh.
      * apply (lb_reg0 _ _ _ Ht).
      * apply (lb_len _ _ _ Ht).
      * apply (lb_hreg _ _ _ Ht).
      * intros k H. congruence.
  - intros t' N HL'. apply (LB_other_inst g g' ls t l' h x y t' N Hx Hy Hoth Hcur); [| | | | |exact HL'].
    + congruence.
    + intros _ _. exact Yl.
    + intros g0 Hc Hd Hge Hp. split; [lia|]. intros _ Hg. lia.
    + intros _ H. congruence.
    + intros k N'. rewrite Ecl. discriminate.
Qed.

(* lock(): the CAS generation -> LOCK succeeded *)
Lemma cas_lock g g' ls t l' h g0 x y :
  Body g ls -> pcl (at_pc (ls t)) = CCas h g0 -> get_inst g h = Some x -> i_locked x = false -> i_gen x = g0 ->
  get_inst g' h = Some y -> (forall k, k <> h -> get_inst g' k = get_inst g k) -> cur g' = cur g ->
  i_locked y = true -> i_gen y = i_gen x -> i_members y = i_members x -> i_dy y = i_dy x -> i_dy_linked y = i_dy_linked x ->
  pcl (at_pc l') = CRem h -> lsame3 (ls t) l' ->
  Body g' (upd_l ls t l').
Proof.
  intros HB Ecl Hx Hxl Hxg Hy Hoth Hcur Yl Yg Ym Yd Yk Lc (Lr & Ln & Lh). pose proof HB as [HG HL]. pose proof (HL t) as Ht.
  destruct (lb_cas _ _ _ Ht h g0 Ecl) as (Hr & z & Hz & Hzd & Hge & Hp). assert (z = x) by congruence. subst z.
  specialize (Hp Hxl Hxg).
  destruct (gb_live _ _ HG h x Hx Hxl Hzd) as [Hch Hlk].
  assert (Hne : forall k, ~ expected l' k).
  { intros k. unfold expected. rewrite Lr, Hr, Lc. intros [H|[H|[H|H]]]; discriminate. }
  assert (Hno : forall k, ~ expected (ls t) k).
  { intros k. unfold expected. rewrite Hr, Ecl. intros [H|[H|[H|H]]]; discriminate. }
  apply (inst_step_preserves g ls t g' l' h x y Hx Hy Hoth Hcur HB).
  - congruence.
  - intros _. split; [congruence|]. intros t' He. destruct (Nat.eq_dec t' t) as [->|N].
    + rewrite upd_l_same in He. exfalso. eapply Hne; eauto.
    + rewrite upd_l_other in * by auto. apply Hp. apply (gb_corr _ _ HG h x Hx Hxl t'). auto.
  - congruence.
  - intros k N. split; intros H; exfalso; [eapply Hne|eapply Hno]; eauto.
  - intros k N. rewrite Ecl. discriminate.
  - intros k Hk t' N Hc'. rewrite Lc in Hk. inversion Hk; subst k.
    destruct (lb_rem _ _ _ (HL t') h Hc') as (_ & _ & z2 & Hz2 & _ & Hzl2). congruence.
  - constructor; rewrite upd_l_same; rewrite ?Lr, ?Ln, ?Lh, ?Lc.
    + apply (lb_reg0 _ _ _ Ht).
    + apply (lb_len _ _ _ Ht).
    + apply (lb_hreg _ _ _ Ht).
    + intros k H. congruence.
    + intros j [H|H]; discriminate.
    + intros j H; discriminate.
    + intros k [H|H]; discriminate.
    + intros k H; discriminate.
    + intros k H; discriminate.
    + intros k g1 H; discriminate.
    + intros k H. inversion H; subst. split; auto. split; [congruence|]. exists y. split; auto. split; [congruence|auto].
  - intros t' N HL'. apply (LB_other_inst g g' ls t l' h x y t' N Hx Hy Hoth Hcur); [| | | | |exact HL'].
    + congruence.
    + intros Hneed _. exfalso.
      assert (He : expected (ls t') h) by (unfold expected; destruct Hneed; auto).
      apply (gb_corr _ _ HG h x Hx Hxl t') in He. specialize (Hp t' He).
      destruct Hneed as [H|H]; [|congruence].
      destruct (lb_unconf _ _ _ HL' h Hp). congruence.
    + intros g1 Hc Hd Hge' Hp'. split; [lia|]. intros Hl. congruence.
    + intros _ _. exact Yl.
    + intros k N'. rewrite Ecl. discriminate.
Qed.

(* the remover unlinks the dynamic config *)
Lemma rem_step g g' ls t l' h x y :
  Body g ls -> pcl (at_pc (ls t)) = CRem h -> get_inst g h = Some x ->
  get_inst g' h = Some y -> (forall k, k <> h -> get_inst g' k = get_inst g k) -> cur g' = cur g ->
  i_locked y = i_locked x -> i_gen y = i_gen x -> i_members y = i_members x -> i_dy y = i_dy x ->
  pcl (at_pc l') = CRem h -> lsame3 (ls t) l' ->
  Body g' (upd_l ls t l').
Proof.
  intros HB Ecl Hx Hy Hoth Hcur Yl Yg Ym Yd Lc (Lr & Ln & Lh). pose proof HB as [HG HL]. pose proof (HL t) as Ht.
  destruct (lb_rem _ _ _ Ht h Ecl) as (Hr & Hch & z & Hz & Hzd & Hzl). assert (z = x) by congruence. subst z.
  assert (Hexp : forall k, expected l' k <-> expected (ls t) k).
  { intros k. unfold expected. rewrite Lr, Lc, Ecl. tauto. }
  apply (inst_step_preserves g ls t g' l' h x y Hx Hy Hoth Hcur HB).
  - congruence.
  - intros _. split; [congruence|]. intros t' He. destruct (gb_lock _ _ HG h x Hx Hzl) as [_ Hk].
    destruct (Nat.eq_dec t' t) as [->|N].
    + rewrite upd_l_same in *. apply Hexp in He. specialize (Hk t He). congruence.
    + rewrite upd_l_other in * by auto. auto.
  - congruence.
  - intros k _. apply Hexp.
  - intros k N. rewrite Ecl. discriminate.
  - intros k Hk t' N Hc'. rewrite Lc in Hk. inversion Hk; subst k. apply N. apply (gb_rem1 _ _ HG t' t h); auto.
  - constructor; rewrite upd_l_same; rewrite ?Lr, ?Ln, ?Lh, ?Lc.
    + apply (lb_reg0 _ _ _ Ht).
    + apply (lb_len _ _ _ Ht).
    + apply (lb_hreg _ _ _ Ht).
    + intros k H. congruence.
    + intros j [H|H]; discriminate.
    + intros j H; discriminate.
    + intros k [H|H]; discriminate.
    + intros k H; discriminate.
    + intros k H; discriminate.
    + intros k g1 H; discriminate.
    + intros k H. inversion H; subst. split; auto. split; [congruence|]. exists y. split; auto. split; congruence.
  - intros t' N HL'. apply (LB_other_inst g g' ls t l' h x y t' N Hx Hy Hoth Hcur); [| | | | |exact HL'].
    + congruence.
    + intros _ H. congruence.
    + intros g1 Hc Hd Hge' Hp'. split; [lia|]. intros Hl. congruence.
    + intros _ _. congruence.
    + intros k N'. rewrite Ecl. discriminate.
Qed.

(* the static config file is unlinked (by the remover, or by a creator that unwinds) *)
Lemma cur_clear g g' ls t l' c0 :
  cur g = Some c0 -> insts g' = insts g -> cur g' = None ->
  (forall x, get_inst g c0 = Some x -> i_dy x <> DFinal \/ i_locked x = true) ->
  (forall t', t' <> t -> pcl (at_pc (ls t')) <> CCreate c0 /\ pcl (at_pc (ls t')) <> CInit c0 /\ pcl (at_pc (ls t')) <> CRem c0) ->
  pcl (at_pc l') = CNone -> lsame3 (ls t) l' -> xcl (pcl (at_pc (ls t))) = false ->
  Body g ls -> Body g' (upd_l ls t l').
Proof.
  intros Hc0 Ei Ec Hdead Hoth Lc (Lr & Ln & Lh) Hx [HG HL]. pose proof (HL t) as Ht.
  assert (Hget : forall i, get_inst g' i = get_inst g i) by (intros; unfold get_inst; now rewrite Ei).
  assert (Hexp : forall t' i, expected (upd_l ls t l' t') i <-> expected (ls t') i).
  { intros t' i. destruct (Nat.eq_dec t' t) as [->|N]; [rewrite upd_l_same|rewrite upd_l_other by auto; tauto].
    rewrite (expected_cnone _ _ Lc), Lr. unfold expected. split; auto.
    intros [H|[H|[H|H]]]; auto; rewrite H in Hx; discriminate. }
  split.
  - constructor.
    + intros i x Hxi Hl t'. rewrite Hget in Hxi. rewrite Hexp. apply (gb_corr _ _ HG i x Hxi Hl).
    + intros i x Hxi Hl. rewrite Hget in Hxi. destruct (gb_lock _ _ HG i x Hxi Hl) as [Hd He]. split; auto.
      intros t' Ht'. apply Hexp in Ht'. specialize (He t' Ht').
      destruct (Nat.eq_dec t' t) as [->|N]; [|rewrite upd_l_other by auto; auto].
      rewrite He in Hx. discriminate.
    + intros i x Hxi Hl Hd. rewrite Hget in Hxi. exfalso.
      destruct (gb_live _ _ HG i x Hxi Hl Hd) as [Hci _]. assert (i = c0) by congruence. subst.
      destruct (Hdead x Hxi); congruence.
    + intros i H. congruence.
    + intros t1 t2 h H1 H2.
      destruct (Nat.eq_dec t1 t) as [->|N1]; [rewrite upd_l_same in H1; congruence|].
      destruct (Nat.eq_dec t2 t) as [->|N2]; [rewrite upd_l_same in H2; congruence|].
      rewrite upd_l_other in H1, H2 by auto. apply (gb_rem1 _ _ HG t1 t2 h); auto.
  - intros t'. destruct (Nat.eq_dec t' t) as [->|N].
    + apply LB_cnone; auto; rewrite ?Lr, ?Ln, ?Lh.
      * apply (lb_reg0 _ _ _ Ht).
      * apply (lb_len _ _ _ Ht).
      * apply (lb_hreg _ _ _ Ht).
      * intros i H. destruct (lb_regi _ _ _ Ht i H) as (x & A & B & C). exists x. rewrite Hget. auto.
    + destruct (Hoth t' N) as (N1 & N2 & N3).
      apply (LB_frame g g' ls); auto.
      * apply upd_l_other; auto.
      * intros i _ (x & A & B & C). exists x. rewrite Hget. auto.
      * intros i _ (x & A & B). exists x. rewrite Hget. auto.
      * intros i Hci (c & Hcl & Hor). exfalso. assert (i = c0) by congruence. subst.
        destruct Hor as [E | [E | E]]; [apply N1|apply N2|apply N3]; exact E.
      * intros h g0 x Hcl Hxh Hd Hge Hp. exists x. rewrite Hget. repeat split; auto.
        intros Hl Hg t2 Hin. specialize (Hp Hl Hg t2 Hin).
        destruct (Nat.eq_dec t2 t) as [->|N2']; [|rewrite upd_l_other by auto; auto].
        rewrite Hp in Hx. discriminate.
      * intros h x _ Hxh Hd Hl. exists x. rewrite Hget. auto.
Qed.

(* create_locked succeeded: a fresh instance, its static config linked under the name *)
Lemma new_instance g ls t l' x0 :
  cur g = None -> pcl (at_pc (ls t)) = CNone ->
  i_locked x0 = false -> i_members x0 = [] -> i_dy x0 = DAbsent ->
  pcl (at_pc l') = CCreate (length (insts g)) -> lsame3 (ls t) l' ->
  Body g ls -> Body (set_cur (add_inst g x0) (Some (length (insts g)))) (upd_l ls t l').
Proof.
  intros Hc Ecl Xl Xm Xd Lc (Lr & Ln & Lh) [HG HL]. pose proof (HL t) as Ht.
  set (n := length (insts g)) in *. set (g' := set_cur (add_inst g x0) (Some n)).
  assert (Hold : forall i x, get_inst g i = Some x -> get_inst g' i = Some x) by (intros; apply get_add_inst_old; auto).
  assert (Hnew : get_inst g' n = Some x0) by apply get_add_inst_new.
  assert (Hinv : forall i x, get_inst g' i = Some x -> (get_inst g i = Some x /\ i <> n) \/ (i = n /\ x = x0)).
  { intros i x H. destruct (Nat.eq_dec i n) as [->|N]; [right; split; auto; congruence|left].
    unfold g', set_cur, add_inst, get_inst in H; cbn [insts] in H.
    assert (i < n)%nat. { assert (i < length (insts g ++ [x0]))%nat by (apply nth_error_Some; congruence). rewrite app_length in H0. cbn in H0. lia. }
    rewrite nth_error_app1 in H by auto. split; auto. }
  assert (Hnone : get_inst g n = None) by (apply nth_error_None; unfold n; lia).
  assert (F1 : forall i x, get_inst g i = Some x -> i_locked x = false -> i_dy x = DFinal -> False).
  { intros i x Hx Hl Hd. destruct (gb_live _ _ HG i x Hx Hl Hd). congruence. }
  assert (F2 : forall t', regi (ls t') = None).
  { intros t'. destruct (regi (ls t')) eqn:E; auto. destruct (lb_regi _ _ _ (HL t') _ E) as (x & A & B & C). exfalso. eauto. }
  assert (Hexp : forall t' i, i <> n -> (expected (upd_l ls t l' t') i <-> expected (ls t') i)).
  { intros t' i N. destruct (Nat.eq_dec t' t) as [->|N']; [rewrite upd_l_same|rewrite upd_l_other by auto; tauto].
    unfold expected. rewrite Lr, Lc, Ecl. split; intros [H|[H|[H|H]]]; auto; discriminate. }
  assert (Hnoexp : forall t', ~ expected (upd_l ls t l' t') n).
  { intros t'. destruct (Nat.eq_dec t' t) as [->|N'].
    - rewrite upd_l_same. unfold expected. rewrite Lr, F2, Lc. intros [H|[H|[H|H]]]; discriminate.
    - rewrite upd_l_other by auto. intros [H|[H|[H|H]]].
      + rewrite F2 in H. discriminate.
      + destruct (lb_unconf _ _ _ (HL t') n H) as [_ (x & A & _)]. rewrite Hnone in A. discriminate.
      + destruct (lb_create _ _ _ (HL t') n (or_intror H)). congruence.
      + destruct (lb_droppre _ _ _ (HL t') n H) as [(x & A & _) _]. rewrite Hnone in A. discriminate. }
  split.
  - constructor.
    + intros i x Hx Hl t'. destruct (Hinv i x Hx) as [[Hg N]|[-> ->]].
      * rewrite Hexp by auto. apply (gb_corr _ _ HG i x Hg Hl).
      * rewrite Xm. split; [intros []|intros H; exfalso; eapply Hnoexp; eauto].
    + intros i x Hx Hl. destruct (Hinv i x Hx) as [[Hg N]|[-> ->]]; [|congruence].
      destruct (gb_lock _ _ HG i x Hg Hl) as [Hd He]. split; auto.
      intros t' Ht'. apply Hexp in Ht'; auto. specialize (He t' Ht').
      destruct (Nat.eq_dec t' t) as [->|N']; [|rewrite upd_l_other by auto; auto]. congruence.
    + intros i x Hx Hl Hd. destruct (Hinv i x Hx) as [[Hg N]|[-> ->]]; [exfalso; eauto|congruence].
    + intros i H. inversion H; subst. eauto.
    + intros t1 t2 h H1 H2.
      destruct (Nat.eq_dec t1 t) as [->|N1]; [rewrite upd_l_same in H1; congruence|].
      destruct (Nat.eq_dec t2 t) as [->|N2]; [rewrite upd_l_same in H2; congruence|].
      rewrite upd_l_other in H1, H2 by auto. apply (gb_rem1 _ _ HG t1 t2 h); auto.
  - intros t'. destruct (Nat.eq_dec t' t) as [->|N].
    + constructor; rewrite upd_l_same; rewrite ?Lr, ?Ln, ?Lh, ?Lc.
      * apply (lb_reg0 _ _ _ Ht).
      * apply (lb_len _ _ _ Ht).
      * apply (lb_hreg _ _ _ Ht).
      * intros i H. rewrite F2 in H. discriminate.
      * intros j [H|H]; discriminate.
      * intros j H; discriminate.
      * intros i [H|H]; [|discriminate]. inversion H; subst. split; auto.
      * intros h H; discriminate.
      * intros h H; discriminate.
      * intros h g0 H; discriminate.
      * intros h H; discriminate.
    + apply (LB_frame g g' ls); auto.
      * apply upd_l_other; auto.
      * intros i _ (x & A & B & C). exists x. auto.
      * intros i _ (x & A & B). exists x. auto.
      * intros i H. congruence.
      * intros h g0 x Hcl Hxh Hd Hge Hp. exists x. repeat split; auto.
        intros Hl Hg t2 Hin. specialize (Hp Hl Hg t2 Hin).
        destruct (Nat.eq_dec t2 t) as [->|N2']; [|rewrite upd_l_other by auto; auto]. congruence.
      * intros h x _ Hxh Hd Hl. exists x. auto.
Qed.

(* ---- the multi-last flag only ever goes up ---- *)
Lemma calm_multi g g' l l' : calm g g' l l' -> gmulti g' = gmulti g.
Proof. intros ((_ & _ & E) & _). exact E. Qed.

Ltac unfold_helpers H :=
  unfold fail_with_tag, run_cont, avail_hangs, avail_none, wait_retry, call_fails, ooc_tail, start_call, call_succeeds,
         op_done, op_done_k in H;
  repeat match type of H with
         | context [if ?b then _ else _] => destruct b
         | context [match ?x with _ => _ end] => destruct x
         end.

Lemma step_multi P t g l g' l' es : step P t g l = Some (g', l', es) -> gmulti g' = false -> gmulti g = false.
Proof.
  unfold step, with_inst. intros H.
  destruct (at_pc l) eqn:Epc.
  all: step_cases H.
  all: try (inversion H; subst; cbn; auto; discriminate).
  all: try (inversion H; subst; cbn; auto; fail).
  all: try (calm_of H; rewrite (calm_multi _ _ _ _ H); cbn; auto; fail).
  all: unfold_helpers H; try discriminate; inversion H; subst; cbn; auto; try discriminate.
Qed.

Lemma start_call_calm P t g l r k o g' l' es' :
  start_call P t g l r k o = Some (g', l', es') -> gsame g g' /\ lsame3 l l' /\ hpc (at_pc l').
Proof.
  unfold start_call, op_done, op_done_k. destruct k; intros H; try (inversion H; subst; repeat split; cbn; auto; fail).
  destruct (create_precheck _ _) in H; inversion H; subst; repeat split; cbn; auto.
Qed.

Lemma gsame_add_log g t k r : gsame g (add_log g t k r).
Proof. repeat split. Qed.

(* a node that is registered already obtains one more handle (add_or counts up) *)
Lemma handle_add g ls t l' j c :
  Body g ls -> pcl (at_pc (ls t)) = COpen j -> nreg (ls t) <> O ->
  pcl (at_pc l') = CNone -> regi l' = regi (ls t) -> nreg l' = S (nreg (ls t)) -> handles l' = handles (ls t) ++ [(j, c)] ->
  forall g', gsame g g' -> Body g' (upd_l ls t l').
Proof.
  intros HB Ecl Hn Lc Lr Ln Lh g' Hg. pose proof HB as [HG HL]. pose proof (HL t) as Ht.
  destruct (regi (ls t)) as [i|] eqn:Er; [|exfalso; apply Hn; apply (lb_reg0 _ _ _ Ht); auto].
  assert (j = i) by (apply (lb_open _ _ _ Ht j); auto). subst j.
  apply (gsame_step_preserves g g' ls t l'); auto.
  - intros k x Hx Hl. rewrite (expected_cnone _ _ Lc), Lr. unfold expected. rewrite Er, Ecl.
    split; auto. intros [H|[H|[H|H]]]; auto; discriminate.
  - intros k x Hx Hl He. apply (expected_cnone _ _ Lc) in He. rewrite Lr in He.
    destruct (lb_regi _ _ _ Ht k) as (z & Hz & _ & Hzl); [congruence|]. congruence.
  - intros h x Hx Hl Hin H. congruence.
  - intros h. rewrite Lc. discriminate.
  - apply LB_cnone; auto; rewrite ?Lr, ?Ln, ?Lh.
    + split; discriminate.
    + rewrite app_length. cbn. rewrite (lb_len _ _ _ Ht). lia.
    + intros j0 c0 Hin. apply in_app_or in Hin. destruct Hin as [Hin|[Hin|[]]].
      * rewrite <- Er. apply (lb_hreg _ _ _ Ht j0 c0 Hin).
      * inversion Hin; auto.
    + intros k H. apply (lb_regi _ _ _ Ht). congruence.
Qed.

Lemma in_remove_nth {A} (l : list A) k x : In x (firstn k l ++ skipn (S k) l) -> In x l.
Proof.
  revert k. induction l as [|a l IH]; intros k H.
  - destruct k; cbn in H; auto.
  - destruct k as [|k].
    + change (In x l) in H. right. exact H.
    + change (a = x \/ In x (firstn k l ++ skipn (S k) l)) in H. destruct H as [H|H]; [left; auto|right; eapply IH; eauto].
Qed.

Lemma length_remove_nth {A} (l : list A) k y : nth_error l k = Some y -> length (firstn k l ++ skipn (S k) l) = pred (length l).
Proof.
  intros H. assert (k < length l)%nat by (apply nth_error_Some; congruence).
  rewrite app_length, firstn_length, skipn_length. lia.
Qed.

(* dropping a handle that is not the node's last one *)
Lemma handle_drop g ls t l' :
  Body g ls -> pcl (at_pc (ls t)) = CNone -> (2 <= nreg (ls t))%nat ->
  pcl (at_pc l') = CNone -> regi l' = regi (ls t) -> nreg l' = pred (nreg (ls t)) ->
  length (handles l') = pred (length (handles (ls t))) -> (forall e, In e (handles l') -> In e (handles (ls t))) ->
  forall g', gsame g g' -> Body g' (upd_l ls t l').
Proof.
  intros HB Ecl Hn Lc Lr Ln Lhl Lhi g' Hg. pose proof HB as [HG HL]. pose proof (HL t) as Ht.
  apply (gsame_step_preserves g g' ls t l'); auto.
  - intros k x Hx Hl. rewrite (expected_cnone _ _ Lc), (expected_cnone _ _ Ecl), Lr. tauto.
  - intros k x Hx Hl He. apply (expected_cnone _ _ Lc) in He. rewrite Lr in He.
    destruct (lb_regi _ _ _ Ht k He) as (z & Hz & _ & Hzl). congruence.
  - intros h x Hx Hl Hin H. congruence.
  - intros h. rewrite Lc. discriminate.
  - apply LB_cnone; auto; rewrite ?Lr, ?Ln.
    + split; intros H.
      * lia.
      * exfalso. assert (nreg (ls t) = O) by (apply (lb_reg0 _ _ _ Ht); auto). lia.
    + rewrite Lhl, (lb_len _ _ _ Ht). reflexivity.
    + intros j0 c0 Hin. apply (lb_hreg _ _ _ Ht j0 c0). auto.
    + apply (lb_regi _ _ _ Ht).
Qed.

(* dropping the node's last handle: the registration entry goes first, the clean-up call follows *)
Lemma drop_start g ls t l' h c :
  Body g ls -> pcl (at_pc (ls t)) = CNone -> nreg (ls t) = 1%nat -> In (h, c) (handles (ls t)) ->
  pcl (at_pc l') = CDropPre h -> regi l' = None -> nreg l' = O -> handles l' = [] ->
  Body g (upd_l ls t l').
Proof.
  intros HB Ecl Hn Hin Lc Lr Ln Lh. pose proof HB as [HG HL]. pose proof (HL t) as Ht.
  pose proof (lb_hreg _ _ _ Ht h c Hin) as Er.
  apply (gsame_step_preserves g g ls t l'); auto.
  - repeat split.
  - intros k x Hx Hl. unfold expected. rewrite Lr, Lc, Er, Ecl.
    split; intros [H|[H|[H|H]]]; try discriminate; inversion H; auto.
  - intros k x Hx Hl He. exfalso. unfold expected in He. rewrite Lr, Lc in He.
    destruct He as [H|[H|[H|H]]]; try discriminate. inversion H; subst k.
    destruct (lb_regi _ _ _ Ht h Er) as (z & Hz & _ & Hzl). congruence.
  - intros k x Hx Hl Hi H. congruence.
  - intros k. rewrite Lc. discriminate.
  - constructor; rewrite upd_l_same; rewrite ?Lr, ?Ln, ?Lh, ?Lc.
    + tauto.
    + reflexivity.
    + intros j0 c0 [].
    + intros k H. discriminate.
    + intros j [H|H]; discriminate.
    + intros j H; discriminate.
    + intros k [H|H]; discriminate.
    + intros k H. inversion H; subst. split; auto. apply (lb_regi _ _ _ Ht). auto.
    + intros k H; discriminate.
    + intros k g0 H; discriminate.
    + intros k H; discriminate.
Qed.

(* ------------------------------------------------------------------------------------------ *)
(* Preservation                                                                                 *)
(* ------------------------------------------------------------------------------------------ *)
Section Main.
Variable P : params.
Hypothesis Hre : p_recheck P = true.

Definition RInv (c : cfg gst lst) : Prop := gmulti (fst c) = false -> Body (fst c) (snd c).

Ltac class_now Epc := rewrite Epc; cbn; auto; try discriminate.

Lemma Hold_vac (l : lst) g :
  xcl (pcl (at_pc l)) = false ->
  forall i, (pcl (at_pc l) = CUnconf i \/ pcl (at_pc l) = CInit i \/ pcl (at_pc l) = CDropPre i) ->
     exists x, get_inst g i = Some x /\ i_locked x = true.
Proof. intros H i [E|[E|E]]; rewrite E in H; discriminate. Qed.

Lemma special_step g ls t g' l' es :
  special (at_pc (ls t)) = true ->
  step P t g (ls t) = Some (g', l', es) -> gmulti g' = false ->
  Body g ls -> (forall t', LInv g t' (ls t')) ->
  Body g' (upd_l ls t l').
Proof.
  intros Hsp H Hm HB HLI. pose proof HB as [HG HL]. pose proof (HL t) as Ht. pose proof (HLI t) as Hli.
  unfold step, with_inst in H.
  destruct (at_pc (ls t)) eqn:Epc; cbn in Hsp; try discriminate.
  - (* Idle *)
    destruct (prog (ls t)) as [|o p]; [discriminate|].
    destruct o as [r|r|r|k].
    + apply start_call_calm in H. destruct H as (A & B & C). apply (calm_body g); auto. apply (Hold_vac _ g). class_now Epc.
    + apply start_call_calm in H. destruct H as (A & B & C). apply (calm_body g); auto. apply (Hold_vac _ g). class_now Epc.
    + apply start_call_calm in H. destruct H as (A & B & C). apply (calm_body g); auto. apply (Hold_vac _ g). class_now Epc.
    + destruct (nth_error (handles (ls t)) k) as [[h c]|] eqn:En.
      * destruct (Nat.eqb (nreg (ls t)) 1) eqn:E1.
        -- injection H as Eg' El' Ee'; subst g' l' es. apply Nat.eqb_eq in E1.
           apply (drop_start g ls t _ h c); auto; try solve [class_now Epc].
           ++ eapply nth_error_In; eauto.
           ++ pose proof (lb_len _ _ _ Ht) as Hlen. rewrite E1 in Hlen.
              destruct (handles (ls t)) as [|a [|b r]]; try discriminate.
              destruct k as [|[|k]]; cbn in En; try discriminate; reflexivity.
        -- unfold op_done, op_done_k in H. injection H as Eg' El' Ee'; subst g' l' es. apply Nat.eqb_neq in E1.
           assert (Hn2 : (2 <= nreg (ls t))%nat).
           { pose proof (lb_len _ _ _ Ht). assert (k < length (handles (ls t)))%nat by (apply nth_error_Some; congruence). lia. }
           apply (handle_drop g ls t); auto; try solve [class_now Epc]; cbn.
           ++ eapply length_remove_nth; eauto.
           ++ intros e. apply in_remove_nth.
           ++ apply gsame_add_log.
      * unfold op_done, op_done_k in H. injection H as Eg' El' Ee'; subst g' l' es.
        apply (calm_body g); [apply gsame_add_log|repeat split|cbn; auto|apply (Hold_vac _ g); class_now Epc|auto].
  - (* POpen2 *)
    destruct (cur g) as [j|] eqn:Ec.
    + injection H as Eg' El' Ee'; subst g' l' es.
      apply (gsame_step_preserves g g ls t); auto.
      * repeat split.
      * intros i x Hx Hl. unfold expected. cbn. rewrite Epc. cbn. split; intros [Hq|[Hq|[Hq|Hq]]]; auto; discriminate.
      * intros i x Hx Hl He. exfalso. unfold expected in He; cbn in He.
        destruct He as [He|[He|[He|He]]]; try discriminate.
        destruct (lb_regi _ _ _ Ht i He) as (z & Hz & _ & Hzl). congruence.
      * intros h x Hx Hl Hin Hc. rewrite Epc in Hc. discriminate.
      * intros h. cbn. discriminate.
      * constructor; rewrite upd_l_same; cbn [set_pc nreg regi handles at_pc pcl].
        -- apply (lb_reg0 _ _ _ Ht).
        -- apply (lb_len _ _ _ Ht).
        -- apply (lb_hreg _ _ _ Ht).
        -- apply (lb_regi _ _ _ Ht).
        -- intros j0 [Hj|Hj]; [|discriminate]. inversion Hj; subst. intros i Hr.
           destruct (lb_regi _ _ _ Ht i Hr) as (z & Hz & Hzd & Hzl).
           destruct (gb_live _ _ HG i z Hz Hzl Hzd). congruence.
        -- intros j0 Hj; discriminate.
        -- intros i [Hj|Hj]; discriminate.
        -- intros h Hj; discriminate.
        -- intros h Hj; discriminate.
        -- intros h g0 Hj; discriminate.
        -- intros h Hj; discriminate.
    + apply avail_none_calm in H. apply calm_lsame3 in H. destruct H as (A & B & C).
      apply (calm_body g); auto. apply (Hold_vac _ g). class_now Epc.
  - (* OReg *)
    destruct (get_inst g j) as [x|] eqn:Ex; [|discriminate].
    destruct (Nat.ltb 0 (nreg (ls t))) eqn:En.
    + unfold call_succeeds, op_done_k in H. injection H as Eg' El' Ee'; subst g' l' es. apply Nat.ltb_lt in En.
      apply (handle_add g ls t _ j (i_cfg x)); auto; try solve [class_now Epc]; try lia.
      * cbn. destruct (regi (ls t)) eqn:Er; auto. exfalso.
        assert (nreg (ls t) = O) by (apply (lb_reg0 _ _ _ Ht); auto). lia.
      * apply gsame_add_log.
    + apply Nat.ltb_ge in En. assert (Hn0 : nreg (ls t) = O) by lia.
      destruct (i_locked x) eqn:El.
      * apply fail_with_tag_calm in H. apply calm_lsame3 in H. destruct H as (A & B & C).
        apply (calm_body g); auto. apply (Hold_vac _ g). class_now Epc.
      * destruct (N.leb (max_nodes (i_cfg x)) (lenN (i_members x))).
        -- apply fail_with_tag_calm in H. apply calm_lsame3 in H. destruct H as (A & B & C).
           apply (calm_body g); auto. apply (Hold_vac _ g). class_now Epc.
        -- injection H as Eg' El' Ee'; subst g' l' es. apply reg_populate; auto.
           unfold LInv in Hli. rewrite Epc in Hli. exact Hli.
  - (* RIncr *)
    destruct (get_inst g j) as [x|] eqn:Ex; [|discriminate].
    destruct (i_locked x) eqn:El.
    + rewrite Hre in H. apply fail_with_tag_calm in H. apply calm_lsame3 in H. destruct H as (A & (B1 & B2 & B3) & C).
      apply (calm_body g); auto.
      * repeat split; auto.
      * intros i Hi. rewrite Epc in Hi. cbn in Hi. destruct Hi as [E|[E|E]]; try discriminate. inversion E; subst. eauto.
    + unfold call_succeeds, op_done_k in H. injection H as Eg' El' Ee'; subst g' l' es.
      assert (Hr : regi (ls t) = None) by (apply (lb_unconf _ _ _ Ht j); class_now Epc).
      eapply (reg_confirm g _ ls t _ j x (upd_reg x false (S (i_gen x)) (i_members x)) (i_cfg x)); eauto; try solve [class_now Epc].
      * unfold get_inst, add_log; cbn [insts]. eapply get_set_same; eauto.
      * intros i N. unfold get_inst, add_log; cbn [insts]. apply (get_set_inst_other g j _ i N).
      * cbn. rewrite Hr. reflexivity.
  - (* CStOpen *)
    destruct (cur g) as [c0|] eqn:Ec.
    + apply fail_with_tag_calm in H. apply calm_lsame3 in H. destruct H as (A & B & C).
      apply (calm_body g); auto. apply (Hold_vac _ g). class_now Epc.
    + injection H as Eg' El' Ee'; subst g' l' es. apply new_instance; auto; try solve [class_now Epc]. repeat split.
  - (* CDyInit *)
    destruct (get_inst g i) as [x|] eqn:Ex; [|discriminate].
    unfold LInv in Hli. rewrite Epc in Hli. cbn in Hli. destruct Hli as (z & Hz & Hown & Hnf). assert (z = x) by congruence. subst z.
    destruct (init_panics (i_cfg x)).
    + injection H as Eg' El' Ee'; subst g' l' es.
      apply (gsame_step_preserves g g ls t); auto.
      * repeat split.
      * intros k y Hy Hl. unfold expected. cbn. rewrite Epc. cbn. split; intros [Hq|[Hq|[Hq|Hq]]]; auto; discriminate.
      * intros k y Hy Hl He. exfalso. unfold expected in He; cbn in He.
        destruct He as [He|[He|[He|He]]]; try discriminate.
        destruct (lb_regi _ _ _ Ht k He) as (z & Hz' & _ & Hzl). congruence.
      * intros h y Hy Hl Hin Hc. rewrite Epc in Hc. discriminate.
      * intros h. cbn. discriminate.
      * destruct (lb_create _ _ _ Ht i) as [Hci Hr]; [left; class_now Epc|].
        constructor; rewrite upd_l_same; cbn [set_pc nreg regi handles at_pc pcl].
        -- apply (lb_reg0 _ _ _ Ht).
        -- apply (lb_len _ _ _ Ht).
        -- apply (lb_hreg _ _ _ Ht).
        -- apply (lb_regi _ _ _ Ht).
        -- intros j0 [Hj|Hj]; discriminate.
        -- intros j0 Hj; discriminate.
        -- intros k [Hj|Hj]; [|discriminate]. inversion Hj; subst. auto.
        -- intros h Hj; discriminate.
        -- intros h Hj; discriminate.
        -- intros h g0 Hj; discriminate.
        -- intros h Hj; discriminate.
    + injection H as Eg' El' Ee'; subst g' l' es.
      eapply (reg_init g _ ls t _ i x (upd_reg x false 1 [t])); eauto; try solve [class_now Epc].
      * intros t' Hc. specialize (HLI t'). unfold LInv in HLI.
        destruct (at_pc (ls t')) eqn:E'; cbn in Hc; try discriminate. inversion Hc; subst.
        cbn in HLI. destruct HLI as (z & Hz' & Ho & _). congruence.
      * eapply get_set_same; eauto.
      * intros k N. apply get_set_inst_other; auto.
      * repeat split.
  - (* CDyChmod *)
    destruct (get_inst g i) as [x|] eqn:Ex; [|discriminate].
    unfold LInv in Hli. rewrite Epc in Hli. cbn in Hli. destruct Hli as (z & Hz & Hown & Hnf). assert (z = x) by congruence. subst z.
    destruct (lb_create _ _ _ Ht i) as [Hci Hr]; [right; class_now Epc|].
    assert (Hn0 : nreg (ls t) = O) by (apply (lb_reg0 _ _ _ Ht); auto).
    rewrite Hn0 in H. cbn [Nat.ltb Nat.leb] in H.
    unfold call_succeeds, op_done_k in H. injection H as Eg' El' Ee'; subst g' l' es.
    eapply (fin_handout g _ ls t _ i x (upd_dy x DFinal true) (i_cfg x)); eauto; try solve [class_now Epc].
    + unfold get_inst, add_log; cbn [insts]. eapply get_set_same; eauto.
    + intros k N. unfold get_inst, add_log; cbn [insts]. apply (get_set_inst_other g i _ k N).
    + cbn. rewrite Hr. reflexivity.
  - (* CPanicRmStatic *)
    unfold LInv in Hli. rewrite Epc in Hli. cbn in Hli. destruct Hli as (x & Hx & Hown & Hnf).
    destruct (lb_create _ _ _ Ht i) as [Hci Hr]; [left; class_now Epc|].
    apply fail_with_tag_calm in H. apply calm_lsame3 in H. destruct H as ((A1 & A2 & A3) & B & C).
    apply (cur_clear g g' ls t l' i); auto.
    + intros z Hz. left. congruence.
    + intros t' N. specialize (HLI t'). unfold LInv in HLI. repeat split; intros Hc.
      * destruct (at_pc (ls t')) eqn:E'; cbn in Hc; try discriminate; inversion Hc; subst; cbn in HLI;
          destruct HLI as (z & Hz & Ho & _); congruence.
      * destruct (at_pc (ls t')) eqn:E'; cbn in Hc; try discriminate; inversion Hc; subst; cbn in HLI;
          destruct HLI as (z & Hz & Ho & _); congruence.
      * destruct (lb_rem _ _ _ (HL t') i Hc) as (_ & _ & z & Hz & Hzd & _). congruence.
    + apply hpc_cnone; auto.
    + class_now Epc.
  - (* CFailRmStatic *)
    unfold LInv in Hli. rewrite Epc in Hli. cbn in Hli. destruct Hli as (x & Hx & Hown & Hnf).
    destruct (lb_create _ _ _ Ht i) as [Hci Hr]; [left; class_now Epc|].
    destruct (p_own_static P).
    + apply fail_with_tag_calm in H. apply calm_lsame3 in H. destruct H as ((A1 & A2 & A3) & B & C).
      apply (cur_clear g g' ls t l' i); auto.
      * intros z Hz. left. congruence.
      * intros t' N. specialize (HLI t'). unfold LInv in HLI. repeat split; intros Hc.
        -- destruct (at_pc (ls t')) eqn:E'; cbn in Hc; try discriminate; inversion Hc; subst; cbn in HLI;
             destruct HLI as (z & Hz & Ho & _); congruence.
        -- destruct (at_pc (ls t')) eqn:E'; cbn in Hc; try discriminate; inversion Hc; subst; cbn in HLI;
             destruct HLI as (z & Hz & Ho & _); congruence.
        -- destruct (lb_rem _ _ _ (HL t') i Hc) as (_ & _ & z & Hz & Hzd & _). congruence.
      * apply hpc_cnone; auto.
      * class_now Epc.
    + apply fail_with_tag_calm in H. apply calm_lsame3 in H. destruct H as (A & B & C).
      apply (calm_body g); auto. apply (Hold_vac _ g). class_now Epc.
  - (* DDereg *)
    destruct (get_inst g h) as [x|] eqn:Ex; [|discriminate]. injection H as Eg' El' Ee'; subst g' l' es.
    destruct (lb_droppre _ _ _ Ht h) as [(z & Hz & Hzd & Hzl) Hr]; [class_now Epc|]. assert (z = x) by congruence. subst z.
    eapply (dereg_clear g _ ls t _ h x (upd_reg x (i_locked x) (if i_locked x then i_gen x else S (i_gen x)) (filter (fun y => negb (Nat.eqb y t)) (i_members x)))); eauto; try solve [class_now Epc].
    + eapply get_set_same; eauto.
    + intros k N. apply get_set_inst_other; auto.
    + cbn. rewrite Hzl. reflexivity.
    + repeat split.
  - (* DSnap *)
    destruct (get_inst g h) as [x|] eqn:Ex; [|discriminate].
    destruct (i_locked x) eqn:El; [injection H as Eg' El' Ee'; subst g' l' es; cbn in Hm; discriminate|].
    destruct (i_members x) eqn:Em.
    + injection H as Eg' El' Ee'; subst g' l' es.
      eapply (snap_step g _ ls t _ h x (upd_reg x false (S (i_gen x)) [])); eauto; try solve [class_now Epc].
      all: try (eapply get_set_same; eassumption).
      all: try (intros k N; apply get_set_inst_other; auto; fail).
      all: try (repeat split; fail).
      all: try (cbn; rewrite ?Em; auto; fail).
    + rewrite <- Em in H. unfold op_done, op_done_k in H. injection H as Eg' El' Ee'; subst g' l' es.
      eapply (snap_step g _ ls t _ h x (upd_reg x false (S (i_gen x)) (i_members x))); eauto; try solve [class_now Epc].
      all: try (unfold get_inst, add_log; cbn [insts]; eapply get_set_same; eassumption).
      all: try (intros k N; unfold get_inst, add_log; cbn [insts]; apply (get_set_inst_other g h _ k N); fail).
      all: try (cbn; rewrite ?Em; auto; fail).
      all: destruct (lb_snap _ _ _ Ht h) as [_ Hr]; [class_now Epc|];
           assert (Hn0 : nreg (ls t) = O) by (apply (lb_reg0 _ _ _ Ht); auto); repeat split; cbn; auto.
  - (* DCas *)
    destruct (get_inst g h) as [x|] eqn:Ex; [|discriminate].
    destruct (i_locked x) eqn:El; [injection H as Eg' El' Ee'; subst g' l' es; cbn in Hm; discriminate|].
    destruct (Nat.eqb (i_gen x) g0) eqn:Eg.
    + injection H as Eg' El' Ee'; subst g' l' es. apply Nat.eqb_eq in Eg.
      eapply (cas_lock g _ ls t _ h g0 x (upd_reg x true (i_gen x) (i_members x))); eauto; try solve [class_now Epc].
      * eapply get_set_same; eauto.
      * intros k N. apply get_set_inst_other; auto.
      * repeat split.
    + injection H as Eg' El' Ee'; subst g' l' es.
      destruct (lb_cas _ _ _ Ht h g0) as (Hr & z & Hz & Hzd & _); [class_now Epc|].
      apply (gsame_step_preserves g g ls t); auto.
      * repeat split.
      * intros k y Hy Hl. unfold expected. cbn. rewrite Epc. cbn. split; intros [Hq|[Hq|[Hq|Hq]]]; auto; discriminate.
      * intros k y Hy Hl He. exfalso. unfold expected in He; cbn in He.
        destruct He as [He|[He|[He|He]]]; try discriminate. congruence.
      * intros k y Hy Hl Hin Hc. rewrite Epc in Hc. discriminate.
      * intros k. cbn. discriminate.
      * constructor; rewrite upd_l_same; cbn [set_pc nreg regi handles at_pc pcl].
        -- apply (lb_reg0 _ _ _ Ht).
        -- apply (lb_len _ _ _ Ht).
        -- apply (lb_hreg _ _ _ Ht).
        -- apply (lb_regi _ _ _ Ht).
        -- intros j0 [Hj|Hj]; discriminate.
        -- intros j0 Hj; discriminate.
        -- intros k [Hj|Hj]; discriminate.
        -- intros k Hj; discriminate.
        -- intros k Hj. inversion Hj; subst. split; auto. exists z. auto.
        -- intros k g1 Hj; discriminate.
        -- intros k Hj; discriminate.
  - (* DDyUnlink *)
    destruct (get_inst g h) as [x|] eqn:Ex; [|discriminate]. injection H as Eg' El' Ee'; subst g' l' es.
    eapply (rem_step g _ ls t _ h x (upd_dy x (i_dy x) false)); eauto; try solve [class_now Epc].
    + eapply get_set_same; eauto.
    + intros k N. apply get_set_inst_other; auto.
    + destruct (i_res x); cbn; auto.
    + repeat split.
  - (* DStRemove *)
    unfold op_done, op_done_k in H. injection H as Eg' El' Ee'; subst g' l' es.
    destruct (lb_rem _ _ _ Ht h) as (Hr & Hch & x & Hx & Hxd & Hxl); [class_now Epc|].
    apply (cur_clear g _ ls t _ h); auto.
    + intros z Hz. right. congruence.
    + intros t' N. specialize (HLI t'). unfold LInv in HLI. repeat split; intros Hc.
      * destruct (at_pc (ls t')) eqn:E'; cbn in Hc; try discriminate; inversion Hc; subst; cbn in HLI;
          destruct HLI as (z & Hz & _ & Hnf); congruence.
      * destruct (at_pc (ls t')) eqn:E'; cbn in Hc; try discriminate; inversion Hc; subst; cbn in HLI;
          destruct HLI as (z & Hz & _ & Hnf); congruence.
      * apply N. apply (gb_rem1 _ _ HG t' t h); auto. class_now Epc.
    + assert (Hn0 : nreg (ls t) = O) by (apply (lb_reg0 _ _ _ Ht); auto).
      pose proof (lb_len _ _ _ Ht) as Hlen. repeat split; cbn; auto.
    + class_now Epc.
Qed.
End Main.

Theorem rstep_inv P t c c' e :
  p_recheck P = true -> Inv c -> RInv c -> step1 (step P) t c = Some (c', e) -> RInv c'.
Proof.
  intros Hre. destruct c as [g ls]. intros [_ HLI] HR Hs. unfold step1 in Hs. cbn [fst snd] in *.
  destruct (step P t g (ls t)) as [[[g' l'] e']|] eqn:Est; [|discriminate].
  inversion Hs; subst c' e; clear Hs. unfold RInv. cbn [fst snd]. intros Hm.
  assert (Hm0 : gmulti g = false) by (eapply step_multi; eauto). specialize (HR Hm0). cbn [fst snd] in HR.
  destruct (special (at_pc (ls t))) eqn:Es.
  - eapply special_step; eauto.
  - apply (neutral_preserves g ls t g' l'); auto. eapply step_neutral; eauto.
Qed.

Lemma body_init progs : Body g_init (fun t => l_init (progs t)).
Proof.
  split.
  - constructor.
    + intros i x H. destruct i; discriminate.
    + intros i x H. destruct i; discriminate.
    + intros i x H. destruct i; discriminate.
    + intros i H. discriminate.
    + intros t t' h H. discriminate.
  - intros t. constructor; cbn.
    + tauto.
    + reflexivity.
    + intros j c [].
    + intros i H; discriminate.
    + intros j [H|H]; discriminate.
    + intros j H; discriminate.
    + intros i [H|H]; discriminate.
    + intros h H; discriminate.
    + intros h H; discriminate.
    + intros h g0 H; discriminate.
    + intros h H; discriminate.
Qed.

Theorem reg_inv_reachable P progs c :
  p_recheck P = true -> reachable (step P) (init progs) c -> Inv c /\ RInv c.
Proof.
  intros Hre. apply (inv_reachable gst lst ev (step P) (fun c => Inv c /\ RInv c)).
  - split; [apply inv_init|]. intros _. apply body_init.
  - intros t c0 c' e [HI HR] Hs. split; [eapply step_inv; eauto|eapply rstep_inv; eauto].
Qed.

(* ---- consequences ---- *)
Section Consequences.
Variables (P : params) (progs : nat -> list op) (g : gst) (ls : nat -> lst).
Hypothesis Hre : p_recheck P = true.
Hypothesis Hr : reachable (step P) (init progs) (g, ls).
Hypothesis Hm : gmulti g = false.

Lemma the_body : Body g ls.
Proof. destruct (reg_inv_reachable P progs (g, ls) Hre Hr) as [_ HR]. apply HR. exact Hm. Qed.

(* (1) registry = holders + in-flight *)
Theorem registry_correspondence i x t :
  get_inst g i = Some x -> i_locked x = false ->
  (In t (i_members x) <->
   regi (ls t) = Some i \/                     (* holds at least one handle obtained through this registration *)
   pcl (at_pc (ls t)) = CUnconf i \/           (* inside open: cell populated, generation not yet incremented *)
   pcl (at_pc (ls t)) = CInit i \/             (* the creator between its initializer and the hand-out *)
   pcl (at_pc (ls t)) = CDropPre i).           (* inside drop of the last handle, cell not yet cleared *)
Proof. intros Hx Hl. destruct the_body as [HG _]. apply (gb_corr _ _ HG i x Hx Hl t). Qed.

Theorem handles_registered t j c :
  In (j, c) (handles (ls t)) -> regi (ls t) = Some j /\ nreg (ls t) = length (handles (ls t)).
Proof.
  intros Hin. destruct the_body as [_ HL]. split; [apply (lb_hreg _ _ _ (HL t) j c Hin)|symmetry; apply (lb_len _ _ _ (HL t))].
Qed.

(* (2a) as long as a node holds a handle: the instance is completely initialised, not marked for destruction, its
   dynamic config exists, its static config is the one linked under the name, and the node is in its registry *)
Theorem holder_resources_exist t j c :
  In (j, c) (handles (ls t)) ->
  exists x, get_inst g j = Some x /\ i_dy x = DFinal /\ i_locked x = false /\ i_dy_linked x = true /\ cur g = Some j /\
            In t (i_members x).
Proof.
  intros Hin. destruct the_body as [HG HL]. pose proof (lb_hreg _ _ _ (HL t) j c Hin) as Hreg.
  destruct (lb_regi _ _ _ (HL t) j Hreg) as (x & Hx & Hd & Hl).
  destruct (gb_live _ _ HG j x Hx Hl Hd) as [Hc Hk].
  exists x. repeat split; auto. apply (gb_corr _ _ HG j x Hx Hl t). left. auto.
Qed.

(* (2b) once the registry is locked nobody holds a handle of the instance, nobody is about to deregister from it, and
   whoever is still inside its registration will fail the re-check *)
Theorem locked_no_holder i x t :
  get_inst g i = Some x -> i_locked x = true ->
  (forall c, ~ In (i, c) (handles (ls t))) /\ regi (ls t) <> Some i /\
  pcl (at_pc (ls t)) <> CInit i /\ pcl (at_pc (ls t)) <> CDropPre i.
Proof.
  intros Hx Hl. destruct the_body as [HG HL]. destruct (gb_lock _ _ HG i x Hx Hl) as [_ He].
  assert (Hreg : regi (ls t) <> Some i).
  { intros H. destruct (lb_regi _ _ _ (HL t) i H) as (z & Hz & _ & Hzl). congruence. }
  repeat split; auto.
  - intros c Hin. apply Hreg. apply (lb_hreg _ _ _ (HL t) i c Hin).
  - intros H. assert (E : expected (ls t) i) by (unfold expected; auto). specialize (He t E). congruence.
  - intros H. assert (E : expected (ls t) i) by (unfold expected; auto). specialize (He t E). congruence.
Qed.

(* (2c) the resources are removed only by a thread whose release got NoMoreOwners, and only after the lock *)
Theorem removal_only_when_locked t h :
  pcl (at_pc (ls t)) = CRem h ->
  cur g = Some h /\ exists x, get_inst g h = Some x /\ i_dy x = DFinal /\ i_locked x = true.
Proof. intros H. destruct the_body as [_ HL]. destruct (lb_rem _ _ _ (HL t) h H) as (_ & A & B). auto. Qed.

Theorem unlinked_only_after_lock i x :
  get_inst g i = Some x -> i_dy x = DFinal -> i_dy_linked x = false -> i_locked x = true.
Proof.
  intros Hx Hd Hk. destruct the_body as [HG _]. destruct (i_locked x) eqn:E; auto.
  destruct (gb_live _ _ HG i x Hx E Hd). congruence.
Qed.

Theorem one_remover t t' h : pcl (at_pc (ls t)) = CRem h -> pcl (at_pc (ls t')) = CRem h -> t = t'.
Proof. destruct the_body as [HG _]. apply (gb_rem1 _ _ HG). Qed.

(* an unlocked, completely initialised instance is the one linked under the name: a new create cannot succeed *)
Theorem live_is_linked i x : get_inst g i = Some x -> i_dy x = DFinal -> i_locked x = false -> cur g = Some i.
Proof. intros Hx Hd Hl. destruct the_body as [HG _]. apply (gb_live _ _ HG i x Hx Hl Hd). Qed.
End Consequences.

(* (2d) the late opener: with the re-check, a registration whose cell was populated fails once the set is locked;
   no handle is handed out *)
Theorem late_opener_refused P t g l j own x :
  p_recheck P = true -> at_pc l = RIncr j own -> get_inst g j = Some x -> i_locked x = true ->
  exists g' l' es, step P t g l = Some (g', l', es) /\ handles l' = handles l /\ nreg l' = nreg l /\ insts g' = insts g.
Proof.
  intros Hre Epc Hx Hl. unfold step, with_inst. rewrite Epc, Hx, Hl, Hre.
  destruct (fail_with_tag P t g (add_leak l j) own (KRet KOpen IsMarkedForDestruction) []) as [[[g' l'] es]|] eqn:E.
  - exists g', l', es. split; auto. apply fail_with_tag_calm in E. destruct E as ((A & _) & (_ & B & C & _) & _). auto.
  - unfold fail_with_tag, run_cont, call_fails, ooc_tail, op_done, op_done_k in E.
    destruct own; [discriminate|]. destruct (in_ooc (add_leak l j)); [|discriminate].
    destruct (Nat.leb _ _); discriminate.
Qed.
