(* The ring buffer of queue.rs refines the unbounded FIFO with a capacity guard:
   for every capacity, every operation sequence, the observations coincide. *)
From V Require Import model.Base model.RingQueue proofs.ModArith proofs.ListLemmas.
From Coq Require Import ZifyBool ZifyNat ZifyN.
Open Scope N_scope.

Fixpoint abs_from (d : list N) (c pos : N) (n : nat) : list N :=
  match n with
  | O => []
  | S k => nthN d (pos mod c) 0 :: abs_from d c (pos + 1) k
  end.

Definition abs (q : rq) : list N :=
  abs_from (data q) (cap q) (start q - len q) (N.to_nat (len q)).

Definition Inv (q : rq) : Prop :=
  len q <= cap q /\ len q <= start q /\ lenN (data q) = cap q.

Definition R (q : rq) (s : sq) : Prop :=
  Inv q /\ scap s = cap q /\ items s = abs q.

Lemma abs_from_length d c pos n : length (abs_from d c pos n) = n.
Proof. revert pos; induction n as [|n IH]; intros; cbn; auto. Qed.

Lemma abs_from_snoc d c pos n :
  abs_from d c pos (S n) = abs_from d c pos n ++ [nthN d ((pos + N.of_nat n) mod c) 0].
Proof.
  revert pos; induction n as [|n IH]; intros pos.
  - cbn. now rewrite N.add_0_r.
  - change (abs_from d c pos (S (S n))) with (nthN d (pos mod c) 0 :: abs_from d c (pos + 1) (S n)).
    rewrite IH. cbn [abs_from app].
    replace (pos + 1 + N.of_nat n) with (pos + N.of_nat (S n)) by lia. reflexivity.
Qed.

Lemma abs_from_upd_other d c pos n i v :
  (forall k, (k < n)%nat -> (pos + N.of_nat k) mod c <> i) ->
  abs_from (updN d i v) c pos n = abs_from d c pos n.
Proof.
  revert pos; induction n as [|n IH]; intros pos H; cbn [abs_from]; auto.
  f_equal.
  - apply nthN_updN_other. specialize (H O). rewrite N.add_0_r in H. intro E; apply H; [lia|auto].
  - apply IH. intros k Hk. specialize (H (S k)).
    replace (pos + 1 + N.of_nat k) with (pos + N.of_nat (S k)) by lia. apply H; lia.
Qed.

Lemma abs_from_nth d c pos n k :
  (k < n)%nat -> nth k (abs_from d c pos n) 0 = nthN d ((pos + N.of_nat k) mod c) 0.
Proof.
  revert pos k; induction n as [|n IH]; intros pos k H; [lia|].
  destruct k as [|k]; cbn [abs_from nth].
  - now rewrite N.add_0_r.
  - rewrite IH by lia. f_equal. f_equal. lia.
Qed.

Lemma inv_new c : R (rq_new c) (sq_new c).
Proof.
  unfold R, Inv, rq_new, sq_new, abs; cbn. rewrite lenN_repeat. repeat split; lia.
Qed.

(* unchecked_push on a non-full queue appends *)
Lemma push_abs q v :
  Inv q -> len q < cap q ->
  exists q', rq_unchecked_push q v = Val q' /\ Inv q' /\ cap q' = cap q /\ abs q' = abs q ++ [v].
Proof.
  intros (Hlc & Hls & Hd) Hlt. unfold rq_unchecked_push.
  destruct (N.eqb_spec (cap q) 0) as [E|E]; [lia|].
  eexists; split; [reflexivity|]. unfold Inv, abs; cbn [start len cap data].
  rewrite lenN_updN. repeat split; try lia.
  replace (N.to_nat (len q + 1)) with (S (N.to_nat (len q))) by lia.
  replace (start q + 1 - (len q + 1)) with (start q - len q) by lia.
  rewrite abs_from_snoc. f_equal.
  - apply abs_from_upd_other. intros k Hk.
    replace (start q) with ((start q - len q + N.of_nat k) + (len q - N.of_nat k)) at 2 by lia.
    intro Heq. symmetry in Heq. revert Heq. apply mod_add_neq; lia.
  - f_equal. replace (start q - len q + N.of_nat (N.to_nat (len q))) with (start q) by lia.
    apply nthN_updN_same. rewrite Hd. apply mod_lt'. lia.
Qed.

Lemma abs_nonempty q :
  Inv q -> 0 < len q ->
  abs q = nthN (data q) ((start q - len q) mod cap q) 0 ::
          abs_from (data q) (cap q) (start q - (len q - 1)) (N.to_nat (len q - 1)).
Proof.
  intros (Hlc & Hls & Hd) Hpos. unfold abs.
  replace (N.to_nat (len q)) with (S (N.to_nat (len q - 1))) by lia.
  cbn [abs_from]. f_equal. f_equal. lia.
Qed.

Lemma pop_abs q :
  Inv q -> 0 < len q ->
  exists q', rq_pop q = Val (q', hd_error (abs q)) /\ Inv q' /\ cap q' = cap q /\ abs q' = tl (abs q)
             /\ len q' = len q - 1.
Proof.
  intros HI Hpos. pose proof (abs_nonempty q HI Hpos) as Ha.
  destruct HI as (Hlc & Hls & Hd).
  unfold rq_pop, rq_is_empty.
  destruct (N.eqb_spec (len q) 0) as [E|E]; [lia|].
  destruct (N.eqb_spec (cap q) 0) as [E2|E2]; [lia|].
  eexists; split; [rewrite Ha; reflexivity|].
  unfold Inv; cbn [start len cap data]. repeat split; try lia.
  rewrite Ha. reflexivity.
Qed.

Lemma abs_empty q : len q = 0 -> abs q = [].
Proof. unfold abs; intros ->; reflexivity. Qed.

Lemma abs_lenN q : lenN (abs q) = len q.
Proof. unfold abs, lenN. rewrite abs_from_length. lia. Qed.

Lemma clear_fuel_abs fuel q acc :
  Inv q -> (N.to_nat (len q) < fuel)%nat ->
  exists q', rq_clear_fuel fuel q acc = Val (q', acc ++ abs q) /\ Inv q' /\ cap q' = cap q /\ len q' = 0.
Proof.
  revert q acc; induction fuel as [|f IH]; intros q acc HI Hf; [lia|].
  cbn [rq_clear_fuel].
  destruct (N.eq_dec (len q) 0) as [E|E].
  - unfold rq_pop, rq_is_empty. rewrite E. cbn. exists q. rewrite abs_empty, app_nil_r by auto. auto.
  - destruct (pop_abs q HI ltac:(lia)) as (q' & Hp & HI' & Hc & Ha & Hl).
    rewrite Hp. pose proof (abs_lenN q) as HL.
    destruct (abs q) as [|x xs] eqn:Eabs; [unfold lenN in HL; cbn in HL; lia|].
    cbn [hd_error]. destruct (IH q' (acc ++ [x]) HI' ltac:(lia)) as (q2 & H2 & HI2 & Hc2 & Hl2).
    exists q2. rewrite H2. cbn [tl] in Ha. rewrite Ha, <- app_assoc. cbn [app].
    split; [reflexivity|]. split; [exact HI2|]. split; congruence.
Qed.

(* one step of the concrete queue against one step of the reference *)
Theorem rq_step_refines q s o :
  R q s ->
  let '(q', ob) := rq_step q o in
  let '(s', ob') := sq_step s o in
  ob = ob' /\ R q' s'.
Proof.
  intros (HI & Hcap & Habs). pose proof HI as (Hlc & Hls & Hd).
  pose proof (abs_lenN q) as HL.
  destruct o as [v|v| | |i| |]; cbn [rq_step sq_step].
  - (* push *)
    unfold rq_push. rewrite Habs, HL, Hcap.
    destruct (N.eqb_spec (len q) (cap q)) as [E|E].
    + destruct (N.ltb_spec (len q) (cap q)); [lia|]. split; [reflexivity|]. repeat split; auto.
    + destruct (N.ltb_spec (len q) (cap q)); [|lia].
      destruct (push_abs q v HI ltac:(lia)) as (q' & Hp & HI' & Hc' & Ha'). rewrite Hp.
      split; [reflexivity|]. repeat split; try apply HI'; cbn; congruence.
  - (* push_with_overflow *)
    unfold rq_push_overflow. rewrite Habs, HL, Hcap.
    destruct (N.eqb_spec (cap q) 0) as [E0|E0].
    { split; [reflexivity|]. repeat split; auto. }
    destruct (N.eqb_spec (len q) (cap q)) as [E|E].
    + destruct (N.ltb_spec (len q) (cap q)); [lia|].
      destruct (pop_abs q HI ltac:(lia)) as (q1 & Hp & HI1 & Hc1 & Ha1 & Hl1). rewrite Hp.
      destruct (push_abs q1 v HI1 ltac:(lia)) as (q2 & Hp2 & HI2 & Hc2 & Ha2). rewrite Hp2.
      split; [reflexivity|]. repeat split; try apply HI2; cbn; congruence.
    + destruct (N.ltb_spec (len q) (cap q)); [|lia].
      destruct (push_abs q v HI ltac:(lia)) as (q' & Hp & HI' & Hc' & Ha'). rewrite Hp.
      split; [reflexivity|]. repeat split; try apply HI'; cbn; congruence.
  - (* pop *)
    destruct (N.eq_dec (len q) 0) as [E|E].
    + unfold rq_pop, rq_is_empty. rewrite E. cbn. rewrite Habs, abs_empty by auto. cbn.
      split; [reflexivity|]. repeat split; auto. cbn. now rewrite abs_empty.
    + destruct (pop_abs q HI ltac:(lia)) as (q1 & Hp & HI1 & Hc1 & Ha1 & Hl1). rewrite Hp, Habs.
      split; [reflexivity|]. repeat split; try apply HI1; cbn; congruence.
  - (* peek *)
    unfold rq_peek, rq_is_empty.
    destruct (N.eqb_spec (len q) 0) as [E|E].
    + rewrite Habs, abs_empty by auto. split; [reflexivity|]. repeat split; auto.
    + destruct (N.eqb_spec (cap q) 0); [lia|]. rewrite Habs, (abs_nonempty q HI) by lia. cbn.
      split; [reflexivity|]. repeat split; auto.
  - (* get *)
    unfold rq_get. rewrite Habs, HL.
    destruct (N.leb_spec (len q) i) as [E|E]; destruct (N.ltb_spec i (len q)) as [E'|E']; try lia.
    + split; [reflexivity|]. repeat split; auto.
    + destruct (N.eqb_spec (cap q) 0); [lia|]. split; [|repeat split; auto].
      f_equal. unfold abs, nthN at 2. rewrite abs_from_nth by lia. f_equal. f_equal. lia.
  - (* clear *)
    unfold rq_clear.
    destruct (clear_fuel_abs (S (N.to_nat (len q))) q [] HI ltac:(lia)) as (q' & Hc & HI' & Hcap' & Hl').
    rewrite Hc. cbn [app]. rewrite Habs. split; [reflexivity|].
    repeat split; try apply HI'; cbn; try congruence. now rewrite abs_empty.
  - (* len *)
    rewrite Habs, HL. split; [reflexivity|]. repeat split; auto.
Qed.

Fixpoint rq_run (q : rq) (ops : list qop) : list qobs :=
  match ops with [] => [] | o :: t => let '(q', ob) := rq_step q o in ob :: rq_run q' t end.
Fixpoint sq_run (s : sq) (ops : list qop) : list qobs :=
  match ops with [] => [] | o :: t => let '(s', ob) := sq_step s o in ob :: sq_run s' t end.

Theorem rq_refines_fifo : forall (c : N) (ops : list qop),
  rq_run (rq_new c) ops = sq_run (sq_new c) ops.
Proof.
  intros c ops. generalize (inv_new c). generalize (rq_new c) (sq_new c).
  induction ops as [|o t IH]; intros q s HR; cbn [rq_run sq_run]; auto.
  pose proof (rq_step_refines q s o HR) as H.
  destruct (rq_step q o) as [q' ob], (sq_step s o) as [s' ob'].
  destruct H as [-> HR']. f_equal. now apply IH.
Qed.

(* capacity errors change nothing; bounds *)
Theorem rq_len_bounded : forall c ops q,
  q = fold_left (fun q o => fst (rq_step q o)) ops (rq_new c) -> len q <= cap q /\ cap q = c.
Proof.
  intros c ops. 
  assert (G : forall q0 s0, R q0 s0 -> forall q, q = fold_left (fun q o => fst (rq_step q o)) ops q0 ->
              len q <= cap q /\ cap q = cap q0).
  { induction ops as [|o t IH]; intros q0 s0 HR q ->; cbn [fold_left].
    - destruct HR as ((H & _) & _). auto.
    - pose proof (rq_step_refines q0 s0 o HR) as H.
      destruct (rq_step q0 o) as [q' ob] eqn:E1, (sq_step s0 o) as [s' ob'] eqn:E2.
      destruct H as [_ HR']. cbn [fst].
      destruct (IH q' s' HR' _ eq_refl) as [A B]. split; auto. rewrite B.
      clear - E1 E2 HR HR'. destruct HR as (_ & C1 & _), HR' as (_ & C2 & _).
      assert (scap s' = scap s0).
      { destruct o; cbn in E2; repeat match type of E2 with context [if ?b then _ else _] => destruct b end;
          inversion E2; subst; reflexivity. }
      congruence. }
  intros q Hq. destruct (G _ _ (inv_new c) q Hq). auto.
Qed.
