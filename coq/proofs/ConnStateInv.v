(* step_inv for the connection lifecycle model: every step preserves Inv (ConnStateProofs.v). *)
From V Require Import model.Base model.Conc model.Events model.ConnState proofs.ListLemmas proofs.ConnStateProofs.
From Coq Require Import ZifyBool ZifyNat ZifyN.
Open Scope N_scope.

(* ---------------- frame of LInv under a change of the global state ---------------- *)
Lemma linv_frame g g' t l :
  LInv g t l ->
  (length (incs g) <= length (incs g'))%nat ->
  (forall h, (h_inc h < length (incs g))%nat -> att g t h -> att g' t h) ->
  (forall i, marker l = Some i -> mkP g i -> mkP g' i) ->
  LInv g' t l.
Proof.
  intros (L1 & L2 & L3 & L4 & L5) Hlen Hatt Hmk. unfold LInv. split; [exact L1|]. split.
  { intros k h E. destruct (L2 k h E) as (A & B & C & D). split; [lia|]. split; [exact B|]. split; [exact C|]. apply Hatt; auto. }
  split. { intros h E. specialize (L3 h E). lia. }
  split.
  { assert (HA : forall h, inflight (at_pc l) = Some h -> att g t h -> att g' t h).
    { intros h E A. apply Hatt; auto. }
    unfold pc_ok in *. destruct (at_pc l) eqn:Epc; auto; cbn [inflight] in HA; intuition auto. }
  intros i E. apply Hmk; auto.
Qed.

(* att under the different changes of G *)
Lemma att_same g g' t h :
  incs g' = incs g -> (forall x, In x (stolen g) -> In x (stolen g')) -> att g t h -> att g' t h.
Proof. intros E S [A|A]; [left|right; auto]. unfold get_inc in *. now rewrite E. Qed.

Lemma att_create g g' t h x :
  incs g' = incs g ++ [x] -> stolen g' = stolen g -> (h_inc h < length (incs g))%nat -> att g t h -> att g' t h.
Proof.
  intros E S R [A|A]; [left|right; now rewrite S]. unfold get_inc in *. rewrite E. now rewrite nth_app_old.
Qed.

Lemma att_attach g t h i r c me :
  (i < length (incs g))%nat -> inc_ok (get_inc g i) -> i_st (get_inc g i) = c -> N.land c (rbit r) = 0 ->
  att g t h ->
  att (set_inc g i (set_holder (get_inc g i) r (N.lor c (rbit r)) (Some me))) t h.
Proof.
  intros Hi (V & HS & HR) Ec Hb [A|A]; [|right; exact A].
  destruct (Nat.eq_dec (h_inc h) i) as [E|E].
  - left. rewrite E in *. rewrite get_set_same by auto.
    destruct (role_cases r (h_role h)) as [Er|Er]; rewrite Er in *.
    + exfalso. rewrite Ec in *. destruct r; cbn [holder rbit] in *.
      * apply HS in Hb. congruence.
      * apply HR in Hb. congruence.
    + rewrite holder_set_other. exact A.
  - left. rewrite get_set_other by auto. exact A.
Qed.

Lemma att_detach g t h i r new me (clr : bool) :
  (i < length (incs g))%nat -> (t, h_id h) <> me ->
  att g t h ->
  att (if clr then steal (set_inc g i (set_holder (get_inc g i) r new None)) (holder (get_inc g i) r) me
       else set_inc g i (set_holder (get_inc g i) r new (holder (get_inc g i) r))) t h.
Proof.
  intros Hi Hne [A|A]; unfold att.
  2:{ right. destruct clr; [apply stolen_steal|]; exact A. }
  destruct (Nat.eq_dec (h_inc h) i) as [E|E].
  - rewrite E in *. destruct (role_cases r (h_role h)) as [Er|Er]; rewrite Er in *.
    + destruct clr.
      * right. rewrite A. unfold steal. destruct (hid_eqb (t, h_id h) me) eqn:Eq.
        { apply hid_eqb_eq in Eq. contradiction. }
        cbn [stolen]. now left.
      * left. rewrite get_set_same by auto. rewrite holder_set_same. exact A.
    + left. destruct clr.
      * destruct (steal_fields (set_inc g i (set_holder (get_inc g i) r new None)) (holder (get_inc g i) r) me) as (_ & E2 & _).
        unfold get_inc at 1. rewrite E2. fold (get_inc (set_inc g i (set_holder (get_inc g i) r new None)) i).
        rewrite get_set_same by auto. rewrite holder_set_other. exact A.
      * rewrite get_set_same by auto. rewrite holder_set_other. exact A.
  - left. destruct clr.
    + destruct (steal_fields (set_inc g i (set_holder (get_inc g i) r new None)) (holder (get_inc g i) r) me) as (_ & E2 & _).
      unfold get_inc at 1. rewrite E2. fold (get_inc (set_inc g i (set_holder (get_inc g i) r new None)) (h_inc h)).
      rewrite get_set_other by auto. exact A.
    + rewrite get_set_other by auto. exact A.
Qed.

(* ---------------- GInv under the different changes ---------------- *)
Lemma ginv_same g g' :
  cur g' = cur g -> incs g' = incs g -> unl g' = unl g -> (saw_marked g' = false -> saw_marked g = false) ->
  GInv g -> GInv g'.
Proof.
  intros Ec Ei Eu Hs (G1 & G2 & G3 & G4 & G5). unfold GInv, removed, st_of, get_inc in *. rewrite Ec, Ei, Eu.
  split; [exact G1|]. split; [exact G2|]. split; [exact G3|].
  split; [intros H; apply G4; auto | intros H; apply G5; auto].
Qed.

Lemma ginv_create g p :
  cur g = None -> GInv g ->
  GInv {| cur := Some (length (incs g)); incs := incs g ++ [{| i_st := 0; i_par := p; i_hs := None; i_hr := None |}];
          unl := unl g; saw_marked := saw_marked g; stolen := stolen g |}.
Proof.
  intros Ec (G1 & G2 & (G3a & G3b) & G4 & G5). unfold GInv, removed, st_of, get_inc in *. cbn [cur incs unl saw_marked].
  rewrite app_length; cbn [length]. split; [|split; [|split; [|split]]].
  - intros i E. inversion E. lia.
  - intros i Hi. destruct (Nat.eq_dec i (length (incs g))) as [->|Ne].
    + rewrite nth_app_new. unfold inc_ok, valid_st; cbn. intuition.
    + rewrite nth_app_old by lia. apply G2. lia.
  - split; auto. intros i Hin. destruct (G3b i Hin) as (A & B). split; [lia|]. intros E. inversion E. lia.
  - intros Hs i Hi Hne. destruct (Nat.eq_dec i (length (incs g))) as [->|Ne]; auto.
    rewrite nth_app_old in Hne by lia. assert (Hi' : (i < length (incs g))%nat) by lia.
    specialize (G4 Hs i Hi' Hne). congruence.
  - exact G5.
Qed.

Lemma ginv_attach g i r c me :
  (i < length (incs g))%nat -> i_st (get_inc g i) = c -> N.land c (rbit r) = 0 -> N.land c MARKED = 0 ->
  GInv g -> GInv (set_inc g i (set_holder (get_inc g i) r (N.lor c (rbit r)) (Some me))).
Proof.
  intros Hi Ec Hb Hm (G1 & G2 & G3 & G4 & G5). unfold GInv. rewrite set_inc_len.
  split; [exact G1|]. split; [|split; [exact G3|split; [|exact G5]]].
  - intros j Hj. destruct (Nat.eq_dec j i) as [->|Ne].
    + rewrite get_set_same by auto. destruct (G2 i Hi) as (V & HS & HR). rewrite Ec in *.
      unfold inc_ok. rewrite st_set_holder.
      revert Hb Hm HS HR. pattern c. apply valid_cases with (c := c); auto; destruct r; cbn [rbit];
        intros Hb Hm HS HR; try (vm_compute in Hb; discriminate); try (vm_compute in Hm; discriminate);
        unfold valid_st; cbn [set_holder i_hs i_hr]; (split; [vm_compute; intuition congruence|]);
        split; split; intros X; try discriminate; try (vm_compute in X; discriminate); try (vm_compute; reflexivity);
        try (apply HS; vm_compute; reflexivity); try (apply HR; vm_compute; reflexivity);
        try (apply HS in X; vm_compute in X; vm_compute; congruence); try (apply HR in X; vm_compute in X; vm_compute; congruence).
    + rewrite get_set_other by auto. apply G2; auto.
  - intros Hs j Hj Hne. change (saw_marked (set_inc g i (set_holder (get_inc g i) r (N.lor c (rbit r)) (Some me)))) with (saw_marked g) in Hs.
    change (cur (set_inc g i (set_holder (get_inc g i) r (N.lor c (rbit r)) (Some me)))) with (cur g).
    destruct (Nat.eq_dec j i) as [->|Ne].
    + apply G4; auto. unfold st_of. rewrite Ec. intros E. rewrite E in Hm. vm_compute in Hm. discriminate.
    + apply G4; auto. unfold st_of in *. rewrite get_set_other in Hne by auto. exact Hne.
Qed.

Lemma NoDup_app_single {A} (l : list A) x : NoDup l -> ~ In x l -> NoDup (l ++ [x]).
Proof.
  intros H Hn. induction H as [|y l Hy H IH]; cbn.
  - constructor; [intros []|constructor].
  - constructor.
    + intros Hin. apply in_app_or in Hin. destruct Hin as [Hin|[<-|[]]]; [contradiction|]. apply Hn. now left.
    + apply IH. intros Hin. apply Hn. now right.
Qed.

Lemma remove_new_marked r : remove_new MARKED r = MARKED.
Proof. destruct r; vm_compute; reflexivity. Qed.

Lemma ginv_detach_core g i r c v :
  (i < length (incs g))%nat -> i_st (get_inc g i) = c ->
  v = (if N.land c (rbit r) =? 0 then holder (get_inc g i) r else None) ->
  GInv g -> GInv (set_inc g i (set_holder (get_inc g i) r (remove_new c r) v)).
Proof.
  intros Hi Ec Ev (G1 & G2 & G3 & G4 & G5). unfold GInv. rewrite set_inc_len.
  split; [exact G1|]. split; [|split; [exact G3|split; [|exact G5]]].
  - intros j Hj. destruct (Nat.eq_dec j i) as [->|Ne].
    + rewrite get_set_same by auto. destruct (G2 i Hi) as (V & HS & HR). rewrite Ec in *.
      unfold inc_ok. rewrite st_set_holder. subst v.
      revert HS HR. pattern c. apply valid_cases with (c := c); auto; destruct r; cbn [rbit holder];
        intros HS HR; unfold valid_st;
        (split; [vm_compute; intuition congruence|]);
        cbn [set_holder i_hs i_hr];
        split; split; intros X; try discriminate; try (vm_compute in X; discriminate); try (vm_compute; reflexivity);
        try (apply HS; vm_compute; reflexivity); try (apply HR; vm_compute; reflexivity);
        try (vm_compute in X; apply HS in X; vm_compute in X; vm_compute; congruence);
        try (vm_compute in X; apply HR in X; vm_compute in X; vm_compute; congruence);
        try (vm_compute; vm_compute in X; apply HS; exact X); try (vm_compute; vm_compute in X; apply HR; exact X).
    + rewrite get_set_other by auto. apply G2; auto.
  - intros Hs j Hj Hne.
    change (saw_marked (set_inc g i (set_holder (get_inc g i) r (remove_new c r) v))) with (saw_marked g) in Hs.
    change (cur (set_inc g i (set_holder (get_inc g i) r (remove_new c r) v))) with (cur g).
    destruct (Nat.eq_dec j i) as [->|Ne].
    + apply G4; auto. unfold st_of in *. rewrite get_set_same in Hne by auto. rewrite st_set_holder in Hne.
      rewrite Ec. intros E. rewrite E in Hne. rewrite remove_new_marked in Hne. congruence.
    + apply G4; auto. unfold st_of in *. rewrite get_set_other in Hne by auto. exact Hne.
Qed.

Lemma ginv_unlink g t hinc :
  mkP g hinc -> GInv g ->
  GInv {| cur := None; incs := incs g;
          unl := unl g ++ [match cur g with
                           | Some i => {| u_t := t; u_hinc := hinc; u_rm := Some i; u_st := st_of g i; u_att := attached (get_inc g i) |}
                           | None => {| u_t := t; u_hinc := hinc; u_rm := None; u_st := 0; u_att := false |}
                           end];
          saw_marked := saw_marked g; stolen := stolen g |}.
Proof.
  intros P (G1 & G2 & (G3a & G3b) & G4 & G5). unfold GInv. cbn [cur incs unl saw_marked].
  split; [intros i E; discriminate|]. split; [exact G2|]. split; [|split].
  - unfold removed at 1 2. cbn [unl]. rewrite removed_app. destruct (cur g) as [j|] eqn:Ec; cbn [u_rm].
    + split.
      * apply NoDup_app_single; auto. intros Hin. destruct (G3b j Hin) as (_ & B). congruence.
      * intros i Hin. apply in_app_or in Hin. destruct Hin as [Hin|[<-|[]]].
        { destruct (G3b i Hin) as (A & _). split; [exact A|discriminate]. }
        { split; [apply G1; reflexivity|discriminate]. }
    + rewrite app_nil_r. split; [exact G3a|]. intros i Hin. destruct (G3b i Hin) as (A & _). split; [exact A|discriminate].
  - intros Hs i Hi Hne. exfalso. specialize (G4 Hs i Hi Hne). destruct (P Hs) as (A & B).
    rewrite B in G4. inversion G4. subst i. contradiction.
  - intros Hs u Hin. apply in_app_or in Hin. destruct Hin as [Hin|[<-|[]]]; [apply G5; auto|].
    destruct (cur g) as [j|] eqn:Ec; [|reflexivity].
    destruct (P Hs) as (A & B). rewrite Ec in B. inversion B. subst j.
    unfold unlink_good; cbn [u_rm u_hinc u_st u_att]. rewrite Nat.eqb_refl, A.
    destruct (G2 hinc (G1 _ eq_refl)) as (V & HS & HR). unfold st_of in A. rewrite A in HS, HR.
    unfold attached. rewrite (proj2 HS), (proj2 HR) by (vm_compute; reflexivity). reflexivity.
Qed.
