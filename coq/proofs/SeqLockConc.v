(* Generic facts about model/Conc.v runs used by the C12 projection theorem: schedules compose,
   and runs only depend on the thread-local states pointwise. *)
From V Require Import model.Base model.Conc.

Section ConcFacts.
  Variables (G L E : Type).
  Variable step : nat -> G -> L -> option (G * L * list E).

  Definition ceq (c c' : cfg G L) : Prop := fst c = fst c' /\ forall u, snd c u = snd c' u.

  Lemma ceq_refl c : ceq c c.
  Proof. split; auto. Qed.

  Lemma ceq_sym c c' : ceq c c' -> ceq c' c.
  Proof. intros [A B]; split; auto. Qed.

  Lemma ceq_trans c1 c2 c3 : ceq c1 c2 -> ceq c2 c3 -> ceq c1 c3.
  Proof. intros [A B] [C D]; split; [congruence|]. intros u. rewrite B. apply D. Qed.

  Lemma upd_l_ext (ls ls' : nat -> L) t l : (forall u, ls u = ls' u) -> forall u, upd_l ls t l u = upd_l ls' t l u.
  Proof. intros H u. unfold upd_l. destruct (Nat.eqb u t); auto. Qed.

  Lemma upd_l_twice (ls : nat -> L) t l l' : forall u, upd_l (upd_l ls t l) t l' u = upd_l ls t l' u.
  Proof. intros u. unfold upd_l. destruct (Nat.eqb u t); auto. Qed.

  Lemma upd_l_id (ls : nat -> L) t : forall u, upd_l ls t (ls t) u = ls u.
  Proof. intros u. unfold upd_l. destruct (Nat.eqb_spec u t); subst; auto. Qed.

  Lemma step1_ceq t c c' :
    ceq c c' ->
    match step1 step t c, step1 step t c' with
    | None, None => True
    | Some (d, e), Some (d', e') => ceq d d' /\ e = e'
    | _, _ => False
    end.
  Proof.
    intros [A B]. unfold step1. rewrite A, (B t).
    destruct (step t (fst c') (snd c' t)) as [[[g' l'] e]|]; auto.
    split; auto. split; cbn [fst snd]; auto. apply upd_l_ext; auto.
  Qed.

  Lemma run_ceq s : forall c c', ceq c c' -> ceq (fst (run step s c)) (fst (run step s c')) /\ snd (run step s c) = snd (run step s c').
  Proof.
    induction s as [|t s IH]; intros c c' H; cbn [run fst snd]; auto.
    pose proof (step1_ceq t c c' H) as H1.
    destruct (step1 step t c) as [[d e]|], (step1 step t c') as [[d' e']|]; try contradiction.
    - destruct H1 as [Hd ->]. specialize (IH d d' Hd).
      destruct (run step s d) as [x tr], (run step s d') as [x' tr']. cbn [fst snd] in *.
      destruct IH as [I1 I2]. split; auto. now rewrite I2.
    - apply IH; auto.
  Qed.

  Lemma run_app s1 : forall s2 c,
    run step (s1 ++ s2) c =
    (fst (run step s2 (fst (run step s1 c))), snd (run step s1 c) ++ snd (run step s2 (fst (run step s1 c)))).
  Proof.
    induction s1 as [|t s1 IH]; intros s2 c; cbn [app run fst snd].
    - destruct (run step s2 c); reflexivity.
    - destruct (step1 step t c) as [[d e]|].
      + rewrite IH. destruct (run step s1 d) as [x tr]. cbn [fst snd].
        destruct (run step s2 x) as [y tr2]. cbn [fst snd]. now rewrite app_assoc.
      + apply IH.
  Qed.

  Lemma reachable_step init c t c' e : reachable step init c -> step1 step t c = Some (c', e) -> reachable step init c'.
  Proof.
    intros [s Hs] H1. exists (s ++ [t]). rewrite run_app. cbn [fst]. rewrite Hs. cbn [run]. rewrite H1. reflexivity.
  Qed.
End ConcFacts.

Arguments ceq {G L} c c'.
