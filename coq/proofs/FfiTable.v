(* C18 part A -- facts about the GENERATED tables gen/FfiEnums.v, each one a boolean checker of
   model/Ffi.v evaluated by vm_compute over the finite tables (the domain is the two lists
   ffi_cenums / ffi_rmaps, stated in every theorem) and lifted by proofs/FfiProofs.v.

   The exception lists below are hand-written and are part of the theorem statements
   (props/C18.v pins them).  Every entry is a collapse / defect of /repo found by the translator
   and is proved REAL below (`*_real`), so a stale entry breaks the build just like a new
   unlisted collapse does.  To accept a changed table: update the lists here, nothing else. *)
From V Require Import model.Base model.Ffi proofs.FfiProofs gen.FfiEnums.
From Coq Require Import String.
Open Scope string_scope.

(* (Rust enum, C variant) that is the image of more than one leaf: payload ignored by `(_)`.
   (The two self-recursive SystemInFlux arms, the two top-level collisions ServiceRemoveError /
   EventOpenOrCreateError and the zero discriminant of iox2_connection_failure_e that were listed
   here have been repaired in /repo: 76b0be9 c6bf028 41ac4e3 e07cbfb bd7254f.) *)
Definition known_leaf_collapses : list key :=
  [ ("SendError", "CONNECTION_ERROR");
    ("RequestSendError", "CONNECTION_ERROR");
    ("ReceiveError", "FAILED_TO_ESTABLISH_CONNECTION");
    ("ReceiveError", "UNABLE_TO_MAP_SENDERS_DATA_SEGMENT");
    ("ConnectionFailure", "FAILED_TO_ESTABLISH_CONNECTION");
    ("ConnectionFailure", "UNABLE_TO_MAP_SENDERS_DATA_SEGMENT") ].

(* C enums with two variants that print the same string *)
Definition known_dup_names : list string :=
  [ "iox2_event_open_or_create_error_e";
    "iox2_pub_sub_open_or_create_error_e";
    "iox2_request_response_open_or_create_error_e" ].

(* Rust enums two of whose leaves get different codes but the same printable name *)
Definition known_name_clashes : list string :=
  [ "EventOpenOrCreateError";
    "PublishSubscribeOpenOrCreateError";
    "RequestResponseOpenOrCreateError" ].

(* ---- computed facts ---- *)
Lemma tbl_wf : tables_wf ffi_cenums ffi_rmaps.
Proof. apply tables_wf_b_sound. vm_cast_no_check (eq_refl true). Qed.

Lemma tbl_total : forall m l, In m ffi_rmaps -> In l (rm_leaves m) -> exists z, leaf_code ffi_cenums l = Some z.
Proof.
  intros m l Hm Hl.
  assert (T : forall m, In m ffi_rmaps -> total ffi_cenums [] m).
  { apply (all_sound _ _ _ _ (total_b_sound ffi_cenums [])). vm_cast_no_check (eq_refl true). }
  apply (T m Hm l Hl). intros [].
Qed.

Lemma tbl_single_cenum : forall m, In m ffi_rmaps -> single_cenum m.
Proof. apply (all_sound _ _ _ _ single_cenum_b_sound). vm_cast_no_check (eq_refl true). Qed.

Lemma tbl_injective_top : forall m a b z, In m ffi_rmaps -> In a (rm_leaves m) -> In b (rm_leaves m) ->
  leaf_code ffi_cenums a = Some z -> leaf_code ffi_cenums b = Some z -> lf_top a = lf_top b.
Proof.
  intros m a b z Hm Ha Hb Hza Hzb.
  assert (T : forall m, In m ffi_rmaps -> injective_top ffi_cenums [] m).
  { apply (all_sound _ _ _ _ (injective_top_b_sound ffi_cenums [])). vm_cast_no_check (eq_refl true). }
  destruct (T m Hm a b z Ha Hb Hza Hzb) as [E|[]]. exact E.
Qed.

Lemma tbl_injective_leaf : forall m, In m ffi_rmaps -> injective_leaf ffi_cenums known_leaf_collapses m.
Proof. apply (all_sound _ _ _ _ (injective_leaf_b_sound ffi_cenums known_leaf_collapses)). vm_cast_no_check (eq_refl true). Qed.

Lemma tbl_nonzero : forall m l, In m ffi_rmaps -> rm_is_error m = true -> In l (rm_leaves m) ->
  leaf_code ffi_cenums l <> Some ffi_ok.
Proof.
  intros m l Hm He Hl Hc.
  assert (T : forall m, In m ffi_rmaps -> nonzero ffi_ok ffi_cenums [] m).
  { apply (all_sound _ _ _ _ (nonzero_b_sound ffi_ok ffi_cenums [])). vm_cast_no_check (eq_refl true). }
  exact (T m Hm He l Hl Hc).
Qed.

Lemma tbl_names_distinct : forall c, In c ffi_cenums -> names_distinct known_dup_names c.
Proof. apply (all_sound _ _ _ _ (names_distinct_b_sound known_dup_names)). vm_cast_no_check (eq_refl true). Qed.

Lemma tbl_names_separate : forall m, In m ffi_rmaps -> names_separate ffi_cenums known_name_clashes m.
Proof. apply (all_sound _ _ _ _ (names_separate_b_sound ffi_cenums known_name_clashes)). vm_cast_no_check (eq_refl true). Qed.

Lemma tbl_codes_distinct : forall c, In c ffi_cenums -> codes_distinct c.
Proof. apply (all_sound _ _ _ _ codes_distinct_b_sound). vm_cast_no_check (eq_refl true). Qed.

(* ---- every exception is real ---- *)
Lemma known_leaf_collapses_real : forall k, In k known_leaf_collapses ->
  exists m a b z, In m ffi_rmaps /\ rm_name m = fst k /\ In a (rm_leaves m) /\ In b (rm_leaves m)
    /\ leaf_cvariant a = snd k /\ leaf_code ffi_cenums a = Some z /\ leaf_code ffi_cenums b = Some z /\ lf_name a <> lf_name b.
Proof. apply (all_sound _ _ _ _ (collapses_leaf_b_sound ffi_cenums ffi_rmaps)). vm_cast_no_check (eq_refl true). Qed.

Lemma known_dup_names_real : forall n, In n known_dup_names ->
  exists c, In c ffi_cenums /\ ce_name c = n /\ ce_cstr c = true /\ ~ NoDup (map cv_str (ce_variants c)).
Proof. apply (all_sound _ _ _ _ (dupname_b_sound ffi_cenums)). vm_cast_no_check (eq_refl true). Qed.

(* ---- the statements without exceptions are false of the current tables ---- *)
Lemma tbl_injective_leaf_full_refuted : ~ (forall m, In m ffi_rmaps -> injective_leaf ffi_cenums [] m).
Proof. apply (injective_leaf_full_refuted _ _ ("SendError", "CONNECTION_ERROR")). vm_cast_no_check (eq_refl true). Qed.

Lemma tbl_names_distinct_full_refuted : ~ (forall c, In c ffi_cenums -> names_distinct [] c).
Proof. apply (names_distinct_full_refuted _ "iox2_pub_sub_open_or_create_error_e"). vm_cast_no_check (eq_refl true). Qed.

(* ---- non-vacuity: the tables are not empty and contain a fully ordinary mapping ---- *)
Lemma tbl_nonvacuous :
  exists m a b za zb sa sb,
    In m ffi_rmaps /\ rm_is_error m = true /\ In a (rm_leaves m) /\ In b (rm_leaves m)
    /\ leaf_code ffi_cenums a = Some za /\ leaf_code ffi_cenums b = Some zb
    /\ za <> ffi_ok /\ za <> zb /\ lf_name a <> lf_name b
    /\ leaf_str ffi_cenums a = Some sa /\ leaf_str ffi_cenums b = Some sb /\ sa <> sb /\ sa <> "".
Proof.
  destruct (find_rmap ffi_rmaps "LoanError") as [m|] eqn:F; [|vm_compute in F; discriminate].
  pose proof (find_rmap_In _ _ _ F) as [Hm _].
  vm_compute in F. inversion F as [E]. clear F.
  exists m. subst m.
  eexists (mk_leaf "OutOfMemory" "OutOfMemory" (TCode "iox2_loan_error_e" "OUT_OF_MEMORY")).
  eexists (mk_leaf "ExceedsMaxLoans" "ExceedsMaxLoans" (TCode "iox2_loan_error_e" "EXCEEDS_MAX_LOANED_SAMPLES")).
  exists 1%Z, 2%Z, "out of memory", "exceeds max loaned samples".
  repeat split; try (vm_compute; reflexivity); try exact Hm;
    try (cbn; tauto); try (vm_compute; intuition discriminate).
Qed.

Lemma tbl_cenums_nonvacuous : exists c, In c ffi_cenums /\ ce_cstr c = true /\ (2 <= List.length (ce_variants c))%nat.
Proof.
  destruct (find_cenum ffi_cenums "iox2_loan_error_e") as [c|] eqn:F; [|vm_compute in F; discriminate].
  exists c. unfold find_cenum in F. pose proof (find_some _ _ F) as [Hc _].
  vm_compute in F. inversion F. subst c. repeat split; try exact Hc. cbn. lia.
Qed.
