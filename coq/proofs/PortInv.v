(* The world invariant of the publish-subscribe model (model/Port.v) as propositions, the
   algebra of the world accessors under the world updates, and the generic transfer lemmas.
   The per-function preservation lemmas are in PortInvPub.v / PortInvSub.v, the induction over
   histories in PortInvStep.v. *)
From V Require Import model.Base model.Conn model.Port proofs.ListLemmas proofs.ConnProofs proofs.PortProofs proofs.PortView.
From Coq Require Import Lia.
Local Open Scope nat_scope.

(* ---------------------------------------------------------------------------------------- *)
(* accessors under updates                                                                    *)
(* ---------------------------------------------------------------------------------------- *)
Lemma upd_oob {A} (l : list A) i y : length l <= i -> upd l i y = l.
Proof. revert i. induction l as [|h t IH]; intros i Hi; [reflexivity|]. destruct i; cbn in *; [lia|]. f_equal. apply IH. lia. Qed.

Lemma getp_setp_same w p x : p < length (w_pubs w) -> getp (setp w p x) p = x.
Proof. intros H. unfold getp, setp. cbn. now apply nth_upd_same. Qed.
Lemma getp_setp_other w p x q : p <> q -> getp (setp w p x) q = getp w q.
Proof. intros H. unfold getp, setp. cbn. now apply nth_upd_other. Qed.
Lemma gets_sets_same w s x : s < length (w_subs w) -> gets (sets w s x) s = x.
Proof. intros H. unfold gets, sets. cbn. now apply nth_upd_same. Qed.
Lemma gets_sets_other w s x t : s <> t -> gets (sets w s x) t = gets w t.
Proof. intros H. unfold gets, sets. cbn. now apply nth_upd_other. Qed.
Lemma gets_setp w p x s : gets (setp w p x) s = gets w s. Proof. reflexivity. Qed.
Lemma getp_sets w s x p : getp (sets w s x) p = getp w p. Proof. reflexivity. Qed.
Lemma getc_sets w s x a b : getc (sets w s x) a b = getc w a b. Proof. reflexivity. Qed.
Lemma gets_setc w p s c t : gets (setc w p s c) t = gets w t.
Proof. unfold setc. destruct (c_snd c || c_rcv c); reflexivity. Qed.
Lemma len_pubs_setp w p x : length (w_pubs (setp w p x)) = length (w_pubs w).
Proof. unfold setp. cbn. apply upd_length. Qed.
Lemma len_subs_sets w s x : length (w_subs (sets w s x)) = length (w_subs w).
Proof. unfold sets. cbn. apply upd_length. Qed.

Lemma setc_fields w p s c :
  w_cfg (setc w p s c) = w_cfg w /\ w_sreg (setc w p s c) = w_sreg w /\ w_preg (setc w p s c) = w_preg w
  /\ w_pubs (setc w p s c) = w_pubs w /\ w_subs (setc w p s c) = w_subs w /\ w_loans (setc w p s c) = w_loans w
  /\ w_samples (setc w p s c) = w_samples w /\ w_nloan (setc w p s c) = w_nloan w /\ w_nsample (setc w p s c) = w_nsample w.
Proof. unfold setc. destruct (c_snd c || c_rcv c); cbn; auto 12. Qed.

Lemma find_conn_del_otherp l p s p' s' : p <> p' -> find_conn (del_conn l p s) p' s' = find_conn l p' s'.
Proof.
  intros Hne. induction l as [|k t IH]; [reflexivity|].
  cbn [del_conn filter]. fold (del_conn t p s).
  destruct (ckey_eqb p s k) eqn:E; cbn [negb].
  - cbn [find_conn]. destruct (ckey_eqb p' s' k) eqn:E2; [|exact IH].
    unfold ckey_eqb in *. apply andb_prop in E as [Ea _]. apply andb_prop in E2 as [Eb _].
    apply Nat.eqb_eq in Ea, Eb. congruence.
  - cbn [find_conn]. destruct (ckey_eqb p' s' k); [reflexivity|exact IH].
Qed.

Lemma getc_setc_otherp w p s c p' s' : p <> p' -> getc (setc w p s c) p' s' = getc w p' s'.
Proof.
  intros Hne. unfold getc, setc. destruct (c_snd c || c_rcv c); cbn [w_conns w_set_conns].
  - unfold put_conn. cbn [find_conn]. unfold ckey_eqb at 1. cbn [fst snd].
    destruct (Nat.eqb p p') eqn:E; [apply Nat.eqb_eq in E; contradiction|]. cbn [andb]. now apply find_conn_del_otherp.
  - now apply find_conn_del_otherp.
Qed.

Lemma getc_setc_eq w p s c : getc (setc w p s c) p s = if c_snd c || c_rcv c then Some c else None.
Proof.
  unfold getc, setc. destruct (c_snd c || c_rcv c); cbn [w_conns w_set_conns].
  - unfold put_conn. cbn [find_conn]. unfold ckey_eqb. cbn [fst snd]. now rewrite !Nat.eqb_refl.
  - apply find_conn_del_same.
Qed.

Lemma getc_setc_ne w p s c p' s' : (p, s) <> (p', s') -> getc (setc w p s c) p' s' = getc w p' s'.
Proof.
  intros Hne. destruct (Nat.eq_dec p p') as [<-|Hp]; [|now apply getc_setc_otherp].
  apply getc_setc_other. intros ->. now apply Hne.
Qed.

(* derived accessors *)
Lemma loans_of_setp w p x q : loans_of (setp w p x) q = loans_of w q. Proof. reflexivity. Qed.
Lemma loans_of_sets w s x q : loans_of (sets w s x) q = loans_of w q. Proof. reflexivity. Qed.
Lemma loans_of_setc w p s c q : loans_of (setc w p s c) q = loans_of w q.
Proof. unfold loans_of. now destruct (setc_fields w p s c) as (_&_&_&_&_&->&_). Qed.
Lemma borrowed_setp w p x a b : borrowed (setp w p x) a b = borrowed w a b. Proof. reflexivity. Qed.
Lemma borrowed_sets w s x a b : borrowed (sets w s x) a b = borrowed w a b. Proof. reflexivity. Qed.
Lemma borrowed_setc w p s c a b : borrowed (setc w p s c) a b = borrowed w a b.
Proof. unfold borrowed. now destruct (setc_fields w p s c) as (_&_&_&_&_&_&->&_). Qed.

(* ---------------------------------------------------------------------------------------- *)
(* the invariant                                                                             *)
(* ---------------------------------------------------------------------------------------- *)
Definition pact (w : world) (p : nat) : Prop := p_active (getp w p) = true.
Definition sact (w : world) (s : nat) : Prop := s_active (gets w s) = true.
Definition salive (w : world) (s : nat) : Prop := s_alive (gets w s) = true.

Lemma pact_lt w p : pact w p -> p < length (w_pubs w).
Proof. unfold pact, getp. intros H. destruct (Nat.lt_ge_cases p (length (w_pubs w))); [auto|]. rewrite nth_overflow in H by lia. discriminate. Qed.
Lemma sact_lt w s : sact w s -> s < length (w_subs w).
Proof. unfold sact, gets. intros H. destruct (Nat.lt_ge_cases s (length (w_subs w))); [auto|]. rewrite nth_overflow in H by lia. discriminate. Qed.
Lemma salive_lt w s : salive w s -> s < length (w_subs w).
Proof. unfold salive, gets. intros H. destruct (Nat.lt_ge_cases s (length (w_subs w))); [auto|]. rewrite nth_overflow in H by lia. discriminate. Qed.

Definition PubInv (w : world) (p : nat) : Prop :=
  PubInvV (w_cfg w) (getp w p) (loans_of w p) (fun s => getc w p s) (fun s => borrowed w p s).

(* the subscriber's connection storage; `hole` = an index of s_tab whose key may be stale (inside
   update_connection, between prepare_connection_removal and the new create) *)
Record SubInvH (w : world) (s : nat) (hole : option nat) : Prop := {
  sv_tab_len : length (s_tab (gets w s)) = cf_P (w_cfg w);
  sv_buf : 1 <= s_buf (gets w s) /\ s_buf (gets w s) <= cf_B (w_cfg w);
  sv_keys_nd : NoDup (opt_keys (s_tab (gets w s)));
  sv_tab_store : forall i key, nth i (s_tab (gets w s)) None = Some key -> hole <> Some i ->
                 exists e, nth key (s_store (gets w s)) None = Some e;
  sv_free_nd : NoDup (s_freekeys (gets w s));
  sv_free : forall key, In key (s_freekeys (gets w s)) ->
            key < length (s_store (gets w s)) /\ nth key (s_store (gets w s)) None = None;
  sv_slot : forall key e, nth key (s_store (gets w s)) None = Some e -> pact w (se_pub e) ->
            nth (p_slot (getp w (se_pub e))) (s_tab (gets w s)) None = Some key;
  sv_tbr : forall key e, In key (s_tbr (gets w s)) -> nth key (s_store (gets w s)) None = Some e -> ~ pact w (se_pub e);
  sv_tbr_tab : forall i key, nth i (s_tab (gets w s)) None = Some key -> In key (s_tbr (gets w s)) -> hole = Some i;
  sv_uniq : forall k1 k2 e1 e2, nth k1 (s_store (gets w s)) None = Some e1 -> nth k2 (s_store (gets w s)) None = Some e2 ->
            se_pub e1 = se_pub e2 -> k1 = k2;
  sv_conn : forall key e, nth key (s_store (gets w s)) None = Some e ->
            se_pub e < length (w_pubs w) /\ exists c, getc w (se_pub e) s = Some c /\ c_rcv c = true }.
Definition SubInv (w : world) (s : nat) : Prop := SubInvH w s None.

Record InvG (H : nat -> option nat) (w : world) : Prop := {
  iv_cfg : cfg_sane (w_cfg w);
  iv_preg_len : length (r_slots (w_preg w)) = cf_P (w_cfg w);
  iv_sreg_len : length (r_slots (w_sreg w)) = cf_S (w_cfg w);
  iv_preg : forall i d, nth i (r_slots (w_preg w)) None = Some d ->
            pact w (pd_id d) /\ p_slot (getp w (pd_id d)) = i /\ pd_n d = p_n (getp w (pd_id d));
  iv_sreg : forall i d, nth i (r_slots (w_sreg w)) None = Some d ->
            sact w (sd_id d) /\ s_slot (gets w (sd_id d)) = i /\ sd_buf d = s_buf (gets w (sd_id d)) /\ sd_hreq d = s_hreq (gets w (sd_id d));
  iv_pub : forall p, pact w p -> PubInv w p;
  iv_sub : forall s, salive w s -> SubInvH w s (H s);
  iv_act_alive : forall s, sact w s -> salive w s;
  iv_samp_alive : forall x, In x (w_samples w) -> salive w (x_sub x) /\ x_origin x < length (w_pubs w);
  iv_samp_store : forall x, In x (w_samples w) -> pact w (x_origin x) ->
                  exists e, nth (x_key x) (s_store (gets w (x_sub x))) None = Some e /\ se_pub e = x_origin x;
  iv_samp_ids : NoDup (map x_id (w_samples w)) /\ forall x, In x (w_samples w) -> x_id x < w_nsample w;
  iv_loan_ids : NoDup (map l_id (w_loans w)) /\ forall l, In l (w_loans w) -> l_id l < w_nloan w /\ l_pub l < length (w_pubs w);
  iv_conn_range : forall p s c, getc w p s = Some c -> p < length (w_pubs w) /\ s < length (w_subs w);
  iv_conn_B : forall p s c, getc w p s = Some c -> c_B c = Nat.max 1 (s_buf (gets w s));
  iv_tab_slot : forall p i s, pact w p -> nth i (p_tab (getp w p)) None = Some s ->
                s < length (w_subs w) /\ (sact w s -> s_slot (gets w s) = i);
  iv_snd_tab : forall p s c, pact w p -> getc w p s = Some c -> c_snd c = true -> In (Some s) (p_tab (getp w p));
  iv_fresh : forall p s c, pact w p -> sact w s -> getc w p s = Some c -> c_snd c = false ->
             c_sub c = [] /\ c_comp c = [] /\ c_used c = [] /\ borrowed w p s = [] /\ c_borrow c = 0
             /\ c_B c = Nat.max 1 (s_buf (gets w s)) /\ c_M c = cf_M (w_cfg w) /\ c_n c = p_n (getp w p);
  iv_cover : forall x, In x (w_samples w) -> pact w (x_origin x) -> sact w (x_sub x) ->
             In (Some (x_sub x)) (p_tab (getp w (x_origin x))) }.

(* active ports are in their registry (not during their own creation) *)
Definition RegP (w : world) : Prop :=
  forall p, pact w p -> nth (p_slot (getp w p)) (r_slots (w_preg w)) None = Some {| pd_id := p; pd_n := p_n (getp w p) |}.
Definition RegS (w : world) : Prop :=
  forall s, sact w s -> nth (s_slot (gets w s)) (r_slots (w_sreg w)) None
                        = Some {| sd_id := s; sd_buf := s_buf (gets w s); sd_hreq := s_hreq (gets w s) |}.

Definition Inv (w : world) : Prop := InvG (fun _ => None) w.
(* not part of SubInvH but needed to keep it: the keys of to_be_removed_connections are pairwise
   different and in use *)
Definition TbrOk (w : world) (s : nat) : Prop :=
  NoDup (s_tbr (gets w s)) /\ forall k, In k (s_tbr (gets w s)) -> nth k (s_store (gets w s)) None <> None.
Definition TbrAll (w : world) : Prop := forall s, salive w s -> TbrOk w s.
Definition InvR (w : world) : Prop := Inv w /\ RegP w /\ RegS w /\ TbrAll w.

(* ---------------------------------------------------------------------------------------- *)
(* generic transfer                                                                          *)
(* ---------------------------------------------------------------------------------------- *)
Lemma PubInv_frame w w' p :
  w_cfg w' = w_cfg w -> getp w' p = getp w p -> loans_of w' p = loans_of w p ->
  (forall s, In (Some s) (p_tab (getp w p)) -> getc w' p s = getc w p s /\ borrowed w' p s = borrowed w p s) ->
  PubInv w p -> PubInv w' p.
Proof.
  unfold PubInv. intros E1 E2 E3 E4 I. rewrite E1, E2, E3. eapply PubInvV_ext; [|exact I]. exact E4.
Qed.

Lemma SubInvH_frame w w' s h :
  w_cfg w' = w_cfg w -> gets w' s = gets w s -> length (w_pubs w') = length (w_pubs w) ->
  (forall q, pact w' q <-> pact w q) -> (forall q, pact w q -> p_slot (getp w' q) = p_slot (getp w q)) ->
  (forall q c, getc w q s = Some c -> c_rcv c = true -> exists c', getc w' q s = Some c' /\ c_rcv c' = true) ->
  SubInvH w s h -> SubInvH w' s h.
Proof.
  intros E1 E2 E3 E4 E5 E6 [a b c d e f g h0 h1 i j]. constructor; rewrite ?E1, ?E2; auto.
  - intros key en Hk Hp. apply E4 in Hp. rewrite E5 by exact Hp. now apply g.
  - intros key en Hi Hk Hp. apply E4 in Hp. eapply h0; eauto.
  - intros key en Hk. destruct (j key en Hk) as [Hr [cc [Hc Hrc]]]. split; [now rewrite E3|]. eapply E6; eauto.
Qed.

(* what a publisher-side function leaves alone *)
Record PubStep (p : nat) (w w' : world) : Prop := {
  ps_cfg : w_cfg w' = w_cfg w;
  ps_sreg : w_sreg w' = w_sreg w;
  ps_preg : w_preg w' = w_preg w;
  ps_subs : w_subs w' = w_subs w;
  ps_samples : w_samples w' = w_samples w;
  ps_nsample : w_nsample w' = w_nsample w;
  ps_len : length (w_pubs w') = length (w_pubs w);
  ps_other : forall q, q <> p -> getp w' q = getp w q;
  ps_active : p_active (getp w' p) = p_active (getp w p);
  ps_slot : p_slot (getp w' p) = p_slot (getp w p);
  ps_n : p_n (getp w' p) = p_n (getp w p);
  ps_loans_other : forall q, q <> p -> loans_of w' q = loans_of w q;
  ps_conn_other : forall q s, q <> p -> getc w' q s = getc w q s;
  ps_rcv : forall s c, getc w p s = Some c -> c_rcv c = true -> exists c', getc w' p s = Some c' /\ c_rcv c' = true }.

Lemma PubStep_refl p w : PubStep p w w.
Proof. constructor; auto. intros s c H1 H2. eauto. Qed.

Lemma PubStep_trans p w1 w2 w3 : PubStep p w1 w2 -> PubStep p w2 w3 -> PubStep p w1 w3.
Proof.
  intros [a1 b1 c1 d1 e1 f1 g1 h1 i1 j1 k1 l1 m1 n1] [a2 b2 c2 d2 e2 f2 g2 h2 i2 j2 k2 l2 m2 n2].
  constructor; try congruence.
  - intros q Hq. rewrite h2, h1; auto.
  - intros q Hq. rewrite l2, l1; auto.
  - intros q s Hq. rewrite m2, m1; auto.
  - intros s c H1 H2. destruct (n1 s c H1 H2) as [c' [H3 H4]]. eauto.
Qed.

Lemma PubStep_pact p w w' q : PubStep p w w' -> (pact w' q <-> pact w q).
Proof. intros S. unfold pact. destruct (Nat.eq_dec q p) as [->|Hne]; [rewrite (ps_active _ _ _ S)|rewrite (ps_other _ _ _ S) by exact Hne]; tauto. Qed.

Lemma PubStep_gets p w w' s : PubStep p w w' -> gets w' s = gets w s.
Proof. intros S. unfold gets. now rewrite (ps_subs _ _ _ S). Qed.

Lemma PubStep_borrowed p w w' a b : PubStep p w w' -> borrowed w' a b = borrowed w a b.
Proof. intros S. unfold borrowed. now rewrite (ps_samples _ _ _ S). Qed.

(* the clauses of the invariant that speak about publisher p itself *)
Record PubSelf (w : world) (p : nat) : Prop := {
  pf_inv : pact w p -> PubInv w p;
  pf_range : forall s c, getc w p s = Some c -> p < length (w_pubs w) /\ s < length (w_subs w);
  pf_B : forall s c, getc w p s = Some c -> c_B c = Nat.max 1 (s_buf (gets w s));
  pf_tab_slot : forall i s, pact w p -> nth i (p_tab (getp w p)) None = Some s -> s < length (w_subs w) /\ (sact w s -> s_slot (gets w s) = i);
  pf_snd_tab : forall s c, pact w p -> getc w p s = Some c -> c_snd c = true -> In (Some s) (p_tab (getp w p));
  pf_fresh : forall s c, pact w p -> sact w s -> getc w p s = Some c -> c_snd c = false ->
             c_sub c = [] /\ c_comp c = [] /\ c_used c = [] /\ borrowed w p s = [] /\ c_borrow c = 0
             /\ c_B c = Nat.max 1 (s_buf (gets w s)) /\ c_M c = cf_M (w_cfg w) /\ c_n c = p_n (getp w p);
  pf_cover : forall x, In x (w_samples w) -> x_origin x = p -> pact w p -> sact w (x_sub x) -> In (Some (x_sub x)) (p_tab (getp w p)) }.

Lemma Inv_PubSelf H w p : InvG H w -> PubSelf w p.
Proof.
  intros I. constructor.
  - apply (iv_pub _ _ I).
  - intros s c Hc. now apply (iv_conn_range _ _ I) in Hc.
  - intros s c. apply (iv_conn_B _ _ I).
  - intros i s. apply (iv_tab_slot _ _ I).
  - intros s c. apply (iv_snd_tab _ _ I).
  - intros s c. apply (iv_fresh _ _ I).
  - intros x Hx <-. now apply (iv_cover _ _ I).
Qed.

Lemma PubStep_inv H p w w' :
  InvG H w -> PubStep p w w' -> PubSelf w' p ->
  (NoDup (map l_id (w_loans w')) /\ forall l, In l (w_loans w') -> l_id l < w_nloan w' /\ l_pub l < length (w_pubs w')) ->
  InvG H w'.
Proof.
  intros I S F L.
  pose proof (PubStep_pact p w w') as Hpa. specialize (fun q => Hpa q S).
  pose proof (fun s => PubStep_gets p w w' s S) as Hgs.
  assert (Hsa : forall s, sact w' s <-> sact w s) by (intros s; unfold sact; rewrite Hgs; tauto).
  assert (Hsl : forall s, salive w' s <-> salive w s) by (intros s; unfold salive; rewrite Hgs; tauto).
  assert (Hslot : forall q, p_slot (getp w' q) = p_slot (getp w q)).
  { intros q. destruct (Nat.eq_dec q p) as [->|Hne]; [apply (ps_slot _ _ _ S)|now rewrite (ps_other _ _ _ S)]. }
  assert (Hn : forall q, p_n (getp w' q) = p_n (getp w q)).
  { intros q. destruct (Nat.eq_dec q p) as [->|Hne]; [apply (ps_n _ _ _ S)|now rewrite (ps_other _ _ _ S)]. }
  assert (Hrcv : forall q s c, getc w q s = Some c -> c_rcv c = true -> exists c', getc w' q s = Some c' /\ c_rcv c' = true).
  { intros q s c H1 H2. destruct (Nat.eq_dec q p) as [->|Hne]; [eapply (ps_rcv _ _ _ S); eauto|].
    rewrite (ps_conn_other _ _ _ S) by exact Hne. eauto. }
  constructor.
  - rewrite (ps_cfg _ _ _ S). apply (iv_cfg _ _ I).
  - rewrite (ps_preg _ _ _ S), (ps_cfg _ _ _ S). apply (iv_preg_len _ _ I).
  - rewrite (ps_sreg _ _ _ S), (ps_cfg _ _ _ S). apply (iv_sreg_len _ _ I).
  - intros i d. rewrite (ps_preg _ _ _ S). intros Hd. destruct (iv_preg _ _ I i d Hd) as (A & B & C).
    rewrite Hpa, Hslot, Hn. auto.
  - intros i d. rewrite (ps_sreg _ _ _ S). intros Hd. rewrite Hsa, Hgs. apply (iv_sreg _ _ I i d Hd).
  - intros q Hq. destruct (Nat.eq_dec q p) as [->|Hne]; [now apply (pf_inv _ _ F)|].
    apply Hpa in Hq. eapply PubInv_frame; [apply (ps_cfg _ _ _ S)|now apply (ps_other _ _ _ S)|now apply (ps_loans_other _ _ _ S)| |now apply (iv_pub _ _ I)].
    intros s _. split; [now apply (ps_conn_other _ _ _ S)|apply (PubStep_borrowed _ _ _ _ _ S)].
  - intros s Hs. apply Hsl in Hs. eapply SubInvH_frame; [apply (ps_cfg _ _ _ S)|apply Hgs|apply (ps_len _ _ _ S)|exact Hpa| | |now apply (iv_sub _ _ I)].
    + intros q _. apply Hslot.
    + intros q c. apply Hrcv.
  - intros s. rewrite Hsa, Hsl. apply (iv_act_alive _ _ I).
  - intros x. rewrite (ps_samples _ _ _ S), Hsl, (ps_len _ _ _ S). apply (iv_samp_alive _ _ I).
  - intros x. rewrite (ps_samples _ _ _ S), Hpa, Hgs. apply (iv_samp_store _ _ I).
  - rewrite (ps_samples _ _ _ S), (ps_nsample _ _ _ S). apply (iv_samp_ids _ _ I).
  - exact L.
  - intros q s c Hc. destruct (Nat.eq_dec q p) as [->|Hne].
    + eapply (pf_range _ _ F); eauto.
    + rewrite (ps_len _ _ _ S), (ps_subs _ _ _ S). rewrite (ps_conn_other _ _ _ S) in Hc by exact Hne. now apply (iv_conn_range _ _ I) in Hc.
  - intros q s c Hc. destruct (Nat.eq_dec q p) as [->|Hne].
    + eapply (pf_B _ _ F); eauto.
    + rewrite Hgs. rewrite (ps_conn_other _ _ _ S) in Hc by exact Hne. now apply (iv_conn_B _ _ I) in Hc.
  - intros q i s Hq. destruct (Nat.eq_dec q p) as [->|Hne].
    + apply (pf_tab_slot _ _ F); auto.
    + rewrite (ps_other _ _ _ S) by exact Hne. apply Hpa in Hq. rewrite (ps_subs _ _ _ S), Hsa, Hgs. now apply (iv_tab_slot _ _ I).
  - intros q s c Hq. destruct (Nat.eq_dec q p) as [->|Hne].
    + now apply (pf_snd_tab _ _ F).
    + rewrite (ps_conn_other _ _ _ S), (ps_other _ _ _ S) by exact Hne. apply Hpa in Hq. now apply (iv_snd_tab _ _ I).
  - intros q s c Hq. destruct (Nat.eq_dec q p) as [->|Hne].
    + now apply (pf_fresh _ _ F).
    + rewrite (ps_conn_other _ _ _ S), (ps_other _ _ _ S) by exact Hne. apply Hpa in Hq.
      rewrite Hsa, Hgs, (PubStep_borrowed _ _ _ _ _ S), (ps_cfg _ _ _ S). now apply (iv_fresh _ _ I).
  - intros x Hx Hq. destruct (Nat.eq_dec (x_origin x) p) as [E|Hne].
    + rewrite E in *. now apply (pf_cover _ _ F).
    + rewrite (ps_other _ _ _ S) by exact Hne. apply Hpa in Hq. rewrite Hsa. rewrite (ps_samples _ _ _ S) in Hx. now apply (iv_cover _ _ I).
Qed.

(* what a subscriber-side function leaves alone *)
Record SubStep (s : nat) (w w' : world) : Prop := {
  ss_cfg : w_cfg w' = w_cfg w;
  ss_sreg : w_sreg w' = w_sreg w;
  ss_preg : w_preg w' = w_preg w;
  ss_pubs : w_pubs w' = w_pubs w;
  ss_loans : w_loans w' = w_loans w;
  ss_nloan : w_nloan w' = w_nloan w;
  ss_len : length (w_subs w') = length (w_subs w);
  ss_other : forall t, t <> s -> gets w' t = gets w t;
  ss_active : s_active (gets w' s) = s_active (gets w s);
  ss_alive : s_alive (gets w' s) = s_alive (gets w s);
  ss_slot : s_slot (gets w' s) = s_slot (gets w s);
  ss_buf : s_buf (gets w' s) = s_buf (gets w s);
  ss_hreq : s_hreq (gets w' s) = s_hreq (gets w s);
  ss_conn_other : forall q t, t <> s -> getc w' q t = getc w q t;
  ss_bor_other : forall q t, t <> s -> borrowed w' q t = borrowed w q t }.

Lemma SubStep_refl s w : SubStep s w w.
Proof. constructor; auto. Qed.

Lemma SubStep_trans s w1 w2 w3 : SubStep s w1 w2 -> SubStep s w2 w3 -> SubStep s w1 w3.
Proof.
  intros [a1 b1 c1 d1 e1 f1 g1 h1 i1 j1 k1 l1 l1' m1 n1] [a2 b2 c2 d2 e2 f2 g2 h2 i2 j2 k2 l2 l2' m2 n2].
  constructor; try congruence.
  - intros t Ht. rewrite h2, h1; auto.
  - intros q t Ht. rewrite m2, m1; auto.
  - intros q t Ht. rewrite n2, n1; auto.
Qed.

Lemma SubStep_getp s w w' p : SubStep s w w' -> getp w' p = getp w p.
Proof. intros S. unfold getp. now rewrite (ss_pubs _ _ _ S). Qed.
Lemma SubStep_pact s w w' p : SubStep s w w' -> (pact w' p <-> pact w p).
Proof. intros S. unfold pact. rewrite (SubStep_getp _ _ _ _ S). tauto. Qed.
Lemma SubStep_sact s w w' t : SubStep s w w' -> (sact w' t <-> sact w t).
Proof. intros S. unfold sact. destruct (Nat.eq_dec t s) as [->|Hne]; [rewrite (ss_active _ _ _ S)|rewrite (ss_other _ _ _ S) by exact Hne]; tauto. Qed.
Lemma SubStep_salive s w w' t : SubStep s w w' -> (salive w' t <-> salive w t).
Proof. intros S. unfold salive. destruct (Nat.eq_dec t s) as [->|Hne]; [rewrite (ss_alive _ _ _ S)|rewrite (ss_other _ _ _ S) by exact Hne]; tauto. Qed.
Lemma SubStep_loans_of s w w' p : SubStep s w w' -> loans_of w' p = loans_of w p.
Proof. intros S. unfold loans_of. now rewrite (ss_loans _ _ _ S). Qed.

(* the clauses of the invariant that speak about subscriber s, its connections, and the samples *)
Record SubSelf (w : world) (s : nat) (h : option nat) : Prop := {
  sf_pub : forall p, pact w p -> PubInv w p;
  sf_inv : salive w s -> SubInvH w s h;
  sf_samp_alive : forall x, In x (w_samples w) -> salive w (x_sub x) /\ x_origin x < length (w_pubs w);
  sf_samp_store : forall x, In x (w_samples w) -> pact w (x_origin x) ->
                  exists e, nth (x_key x) (s_store (gets w (x_sub x))) None = Some e /\ se_pub e = x_origin x;
  sf_samp_ids : NoDup (map x_id (w_samples w)) /\ forall x, In x (w_samples w) -> x_id x < w_nsample w;
  sf_cover : forall x, In x (w_samples w) -> pact w (x_origin x) -> sact w (x_sub x) -> In (Some (x_sub x)) (p_tab (getp w (x_origin x)));
  sf_range : forall p c, getc w p s = Some c -> p < length (w_pubs w) /\ s < length (w_subs w);
  sf_B : forall p c, getc w p s = Some c -> c_B c = Nat.max 1 (s_buf (gets w s));
  sf_snd_tab : forall p c, pact w p -> getc w p s = Some c -> c_snd c = true -> In (Some s) (p_tab (getp w p));
  sf_fresh : forall p c, pact w p -> sact w s -> getc w p s = Some c -> c_snd c = false ->
             c_sub c = [] /\ c_comp c = [] /\ c_used c = [] /\ borrowed w p s = [] /\ c_borrow c = 0
             /\ c_B c = Nat.max 1 (s_buf (gets w s)) /\ c_M c = cf_M (w_cfg w) /\ c_n c = p_n (getp w p) }.

Lemma Inv_SubSelf H w s : InvG H w -> SubSelf w s (H s).
Proof.
  intros I. constructor; try apply I.
  - intros p c Hc. now apply (iv_conn_range _ _ I) in Hc.
  - intros p c. apply (iv_conn_B _ _ I).
  - intros p c. apply (iv_snd_tab _ _ I).
  - intros p c. apply (iv_fresh _ _ I).
Qed.

Lemma SubStep_inv H s h w w' : InvG H w -> SubStep s w w' -> SubSelf w' s h -> InvG (fupd H s h) w'.
Proof.
  intros I S F.
  pose proof (fun p => SubStep_getp s w w' p S) as Hgp.
  pose proof (fun p => SubStep_pact s w w' p S) as Hpa.
  pose proof (fun t => SubStep_sact s w w' t S) as Hsa.
  pose proof (fun t => SubStep_salive s w w' t S) as Hsl.
  assert (Hslot : forall t, s_slot (gets w' t) = s_slot (gets w t)).
  { intros t. destruct (Nat.eq_dec t s) as [->|Hne]; [apply (ss_slot _ _ _ S)|now rewrite (ss_other _ _ _ S)]. }
  assert (Hbuf : forall t, s_buf (gets w' t) = s_buf (gets w t)).
  { intros t. destruct (Nat.eq_dec t s) as [->|Hne]; [apply (ss_buf _ _ _ S)|now rewrite (ss_other _ _ _ S)]. }
  constructor.
  - rewrite (ss_cfg _ _ _ S). apply (iv_cfg _ _ I).
  - rewrite (ss_preg _ _ _ S), (ss_cfg _ _ _ S). apply (iv_preg_len _ _ I).
  - rewrite (ss_sreg _ _ _ S), (ss_cfg _ _ _ S). apply (iv_sreg_len _ _ I).
  - intros i d. rewrite (ss_preg _ _ _ S), Hpa, Hgp. apply (iv_preg _ _ I).
  - intros i d. rewrite (ss_sreg _ _ _ S). intros Hd. destruct (iv_sreg _ _ I i d Hd) as (A & B & C & D).
    rewrite Hsa, Hslot, Hbuf. splits; auto.
    destruct (Nat.eq_dec (sd_id d) s) as [E|Hne]; [|now rewrite (ss_other _ _ _ S)].
    rewrite D, E. symmetry. apply (ss_hreq _ _ _ S).
  - apply (sf_pub _ _ _ F).
  - intros t Ht. destruct (Nat.eq_dec t s) as [->|Hne]; [rewrite fupd_same; now apply (sf_inv _ _ _ F)|].
    rewrite fupd_other by exact Hne. apply Hsl in Ht. eapply SubInvH_frame; [apply (ss_cfg _ _ _ S)|now apply (ss_other _ _ _ S)|now rewrite (ss_pubs _ _ _ S)|exact Hpa| | |now apply (iv_sub _ _ I)].
    + intros q _. now rewrite Hgp.
    + intros q c H1 H2. rewrite (ss_conn_other _ _ _ S) by exact Hne. eauto.
  - intros t. rewrite Hsa, Hsl. apply (iv_act_alive _ _ I).
  - apply (sf_samp_alive _ _ _ F).
  - apply (sf_samp_store _ _ _ F).
  - apply (sf_samp_ids _ _ _ F).
  - rewrite (ss_loans _ _ _ S), (ss_nloan _ _ _ S), (ss_pubs _ _ _ S). apply (iv_loan_ids _ _ I).
  - intros q t c Hc. destruct (Nat.eq_dec t s) as [->|Hne]; [eapply (sf_range _ _ _ F); eauto|].
    rewrite (ss_pubs _ _ _ S), (ss_len _ _ _ S). rewrite (ss_conn_other _ _ _ S) in Hc by exact Hne. now apply (iv_conn_range _ _ I) in Hc.
  - intros q t c Hc. destruct (Nat.eq_dec t s) as [->|Hne]; [eapply (sf_B _ _ _ F); eauto|].
    rewrite Hbuf. rewrite (ss_conn_other _ _ _ S) in Hc by exact Hne. now apply (iv_conn_B _ _ I) in Hc.
  - intros q i t. rewrite Hpa, Hgp, (ss_len _ _ _ S), Hsa, Hslot. apply (iv_tab_slot _ _ I).
  - intros q t c. destruct (Nat.eq_dec t s) as [->|Hne]; [apply (sf_snd_tab _ _ _ F)|].
    rewrite Hpa, Hgp, (ss_conn_other _ _ _ S) by exact Hne. apply (iv_snd_tab _ _ I).
  - intros q t c. destruct (Nat.eq_dec t s) as [->|Hne]; [apply (sf_fresh _ _ _ F)|].
    rewrite Hpa, Hsa, Hgp, (ss_conn_other _ _ _ S), (ss_bor_other _ _ _ S), (ss_other _ _ _ S), (ss_cfg _ _ _ S) by exact Hne. apply (iv_fresh _ _ I).
  - apply (sf_cover _ _ _ F).
Qed.

Lemma RegP_step w w' : w_preg w' = w_preg w -> (forall p, pact w' p -> pact w p /\ p_slot (getp w' p) = p_slot (getp w p) /\ p_n (getp w' p) = p_n (getp w p)) ->
  RegP w -> RegP w'.
Proof. intros E H R p Hp. destruct (H p Hp) as (A & B & C). rewrite E, B, C. now apply R. Qed.
Lemma RegS_step w w' : w_sreg w' = w_sreg w ->
  (forall s, sact w' s -> sact w s /\ s_slot (gets w' s) = s_slot (gets w s) /\ s_buf (gets w' s) = s_buf (gets w s) /\ s_hreq (gets w' s) = s_hreq (gets w s)) ->
  RegS w -> RegS w'.
Proof. intros E H R s Hs. destruct (H s Hs) as (A & B & C & D). rewrite E, B, C, D. now apply R. Qed.

(* ---------------------------------------------------------------------------------------- *)
(* more generic facts                                                                        *)
(* ---------------------------------------------------------------------------------------- *)
Lemma SubInvH_ext w s h h' : h = h' -> SubInvH w s h -> SubInvH w s h'.
Proof. now intros ->. Qed.

Lemma InvG_ext H H' w : (forall t, H t = H' t) -> InvG H w -> InvG H' w.
Proof. intros E [a b c d e f g h i j k l m m' n o p q]. constructor; auto. intros s Hs. rewrite <- E. now apply g. Qed.

(* a hole only weakens what is known about the subscriber (when no tab key is in to_be_removed) *)
Lemma SubInvH_weaken w s i : SubInvH w s None -> SubInvH w s (Some i).
Proof.
  intros [a b c d e f g h0 h1 k j]. constructor; auto.
  - intros i0 key Hk _. eapply d; eauto. discriminate.
  - intros i0 key Hk Hi. specialize (h1 i0 key Hk Hi). discriminate.
Qed.

(* the number of chunks a connection accounts for: submission queue + borrowed samples + completion queue *)
Definition phi (w : world) (p t : nat) : nat :=
  match getc w p t with Some c => length (c_sub c) + length (borrowed w p t) + length (c_comp c) | None => 0 end.
Definition PhiLe (w w' : world) : Prop := forall p t, phi w' p t <= phi w p t.
Lemma PhiLe_refl w : PhiLe w w. Proof. intros p t. lia. Qed.
Lemma PhiLe_trans w1 w2 w3 : PhiLe w1 w2 -> PhiLe w2 w3 -> PhiLe w1 w3.
Proof. intros A B p t. specialize (A p t). specialize (B p t). lia. Qed.

Lemma SubStep_RegP s w w' : SubStep s w w' -> RegP w -> RegP w'.
Proof.
  intros S R. eapply RegP_step; [apply (ss_preg _ _ _ S)| |exact R].
  intros p Hp. rewrite (SubStep_getp _ _ _ _ S). split; [now apply (SubStep_pact _ _ _ _ S)|auto].
Qed.
Lemma SubStep_RegS s w w' : SubStep s w w' -> RegS w -> RegS w'.
Proof.
  intros S R. eapply RegS_step; [apply (ss_sreg _ _ _ S)| |exact R].
  intros t Ht. split; [now apply (SubStep_sact _ _ _ _ S)|].
  destruct (Nat.eq_dec t s) as [->|Hne].
  - splits; [apply (ss_slot _ _ _ S)|apply (ss_buf _ _ _ S)|apply (ss_hreq _ _ _ S)].
  - rewrite (ss_other _ _ _ S) by exact Hne. auto.
Qed.
Lemma PubStep_RegP p w w' : PubStep p w w' -> RegP w -> RegP w'.
Proof.
  intros S R. eapply RegP_step; [apply (ps_preg _ _ _ S)| |exact R].
  intros q Hq. split; [now apply (PubStep_pact _ _ _ _ S)|].
  destruct (Nat.eq_dec q p) as [->|Hne]; [split; [apply (ps_slot _ _ _ S)|apply (ps_n _ _ _ S)]|rewrite (ps_other _ _ _ S) by exact Hne; auto].
Qed.
Lemma PubStep_RegS p w w' : PubStep p w w' -> RegS w -> RegS w'.
Proof.
  intros S R. eapply RegS_step; [apply (ps_sreg _ _ _ S)| |exact R].
  intros t Ht. rewrite (PubStep_gets _ _ _ _ S). split; [|auto]. unfold sact in *. now rewrite (PubStep_gets _ _ _ _ S) in Ht.
Qed.

Lemma TbrOk_gets w w' s : gets w' s = gets w s -> TbrOk w s -> TbrOk w' s.
Proof. unfold TbrOk. intros ->. auto. Qed.
Lemma PubStep_TbrAll p w w' : PubStep p w w' -> TbrAll w -> TbrAll w'.
Proof.
  intros S T s Ha. unfold salive in Ha. rewrite (PubStep_gets _ _ _ _ S) in Ha.
  eapply TbrOk_gets; [apply (PubStep_gets _ _ _ _ S)|apply T; exact Ha].
Qed.
