(* step_inv: every step of the connection lifecycle model preserves Inv; reachable states satisfy it. *)
From V Require Import model.Base model.Conc model.Events model.ConnState proofs.ListLemmas
  proofs.ConnStateProofs proofs.ConnStateInv.
From Coq Require Import ZifyBool ZifyNat ZifyN.
Open Scope N_scope.

Definition HsOk (g : gst) (t : nat) (l : list (option handle)) : Prop :=
  forall k h, nth k l None = Some h ->
    (h_inc h < length (incs g))%nat /\ h_own h = false /\ h_id h = k /\ att g t h.

Lemma hsok_keep g g' t l :
  HsOk g t l -> (length (incs g) <= length (incs g'))%nat ->
  (forall k h, nth k l None = Some h -> att g t h -> att g' t h) -> HsOk g' t l.
Proof.
  intros H Hlen Ha k h E. destruct (H k h E) as (A & B & C & D).
  split; [lia|]. split; [exact B|]. split; [exact C|]. eapply Ha; eauto.
Qed.

Lemma hsok_app g t l x :
  HsOk g t l ->
  (forall h, x = Some h -> (h_inc h < length (incs g))%nat /\ h_own h = false /\ h_id h = length l /\ att g t h) ->
  HsOk g t (l ++ [x]).
Proof.
  intros H Hx k h E. destruct (Nat.lt_ge_cases k (length l)) as [Lt|Ge].
  - rewrite app_nth1 in E by auto. apply H; auto.
  - rewrite app_nth2 in E by auto. destruct (k - length l)%nat as [|m] eqn:Ek.
    + cbn in E. assert (k = length l) by lia. subst k. destruct (Hx h E) as (A & B & C & D). auto.
    + cbn in E. destruct m; discriminate.
Qed.

Lemma hsok_clear g t l k : HsOk g t l -> HsOk g t (upd l k None).
Proof.
  intros H j h E. destruct (Nat.eq_dec k j) as [->|Ne].
  - destruct (Nat.lt_ge_cases j (length l)) as [Lt|Ge].
    + rewrite nth_upd_same in E by auto. discriminate.
    + rewrite nth_overflow in E by (rewrite upd_length; lia). discriminate.
  - rewrite nth_upd_other in E by auto. apply H; auto.
Qed.

Lemma nth_some_lt {A} (l : list (option A)) k x : nth k l None = Some x -> (k < length l)%nat.
Proof.
  intros E. destruct (Nat.lt_ge_cases k (length l)) as [Lt|Ge]; auto. rewrite nth_overflow in E by auto. discriminate.
Qed.

Lemma mk_same g g' i :
  cur g' = cur g -> incs g' = incs g -> (saw_marked g' = false -> saw_marked g = false) -> mkP g i -> mkP g' i.
Proof. intros Ec Ei Hs P H. destruct (P (Hs H)) as (A & B). unfold st_of, get_inc in *. rewrite Ec, Ei. auto. Qed.

Lemma mk_create g g' i : cur g = None -> saw_marked g' = saw_marked g -> mkP g i -> mkP g' i.
Proof. intros Ec Es P H. rewrite Es in H. destruct (P H) as (_ & B). congruence. Qed.

Lemma mk_upd g g' i0 x' i :
  (i0 < length (incs g))%nat ->
  cur g' = cur g -> incs g' = upd (incs g) i0 x' -> (saw_marked g' = false -> saw_marked g = false) ->
  (st_of g i0 = MARKED -> saw_marked g' = false -> i_st x' = MARKED) ->
  mkP g i -> mkP g' i.
Proof.
  intros Hi Ec Ei Hs Hx P H. destruct (P (Hs H)) as (A & B). split; [|rewrite Ec; exact B].
  unfold st_of, get_inc in *. rewrite Ei. destruct (Nat.eq_dec i0 i) as [->|Ne].
  - rewrite nth_upd_same by auto. apply Hx; auto.
  - rewrite nth_upd_other by auto. exact A.
Qed.

(* the bundle that step_inv establishes case by case *)
Definition Kprop (g g' : gst) (t : nat) (ls : nat -> lst) (l' : lst) : Prop :=
  GInv g' /\ LInv g' t l' /\ (length (incs g) <= length (incs g'))%nat /\
  (forall t' h, t' <> t -> (h_inc h < length (incs g))%nat -> att g t' h -> att g' t' h) /\
  (forall t' i, t' <> t -> marker (ls t') = Some i -> mkP g i -> mkP g' i) /\
  (saw_marked g' = false -> saw_marked g = false) /\
  (forall i, saw_marked g' = false -> marker l' = Some i ->
     marker (ls t) = Some i \/ (forall t2, t2 <> t -> marker (ls t2) <> Some i)).

Lemma k_assemble g g' t ls l' :
  Inv (g, ls) -> Kprop g g' t ls l' -> Inv (g', upd_l ls t l').
Proof.
  intros (HG & HL & HMU) (K1 & K2 & K3 & K4 & K5 & K6 & K7). unfold Inv. cbn [fst snd] in *.
  split; [exact K1|]. split.
  - intros t'. destruct (Nat.eq_dec t' t) as [->|Ne].
    + rewrite upd_l_same. exact K2.
    + rewrite upd_l_other by auto.
      apply linv_frame with (g := g); [apply HL | exact K3 | intros h; apply K4; auto | intros i; apply K5; auto].
  - intros Hs t1 t2 i E1 E2.
    destruct (Nat.eq_dec t1 t) as [->|N1], (Nat.eq_dec t2 t) as [->|N2]; auto.
    + rewrite upd_l_same in E1. rewrite upd_l_other in E2 by auto.
      destruct (K7 i Hs E1) as [E|E]; [apply (HMU (K6 Hs) t t2 i); auto | exfalso; apply (E t2 N2); auto].
    + rewrite upd_l_same in E2. rewrite upd_l_other in E1 by auto.
      destruct (K7 i Hs E2) as [E|E]; [apply (HMU (K6 Hs) t1 t i); auto | exfalso; apply (E t1 N1); auto].
    + rewrite upd_l_other in E1, E2 by auto. apply (HMU (K6 Hs) t1 t2 i); auto.
Qed.

(* steps that do not touch cur / incs / unl, may add to stolen and may set saw_marked *)
Lemma k_same g g' t ls l' :
  GInv g -> cur g' = cur g -> incs g' = incs g -> unl g' = unl g ->
  (forall x, In x (stolen g) -> In x (stolen g')) ->
  (saw_marked g' = false -> saw_marked g = false) ->
  LInv g' t l' ->
  (forall i, saw_marked g' = false -> marker l' = Some i ->
     marker (ls t) = Some i \/ (forall t2, t2 <> t -> marker (ls t2) <> Some i)) ->
  Kprop g g' t ls l'.
Proof.
  intros HG Ec Ei Eu Hst Hs HL HM. unfold Kprop.
  split; [eapply ginv_same; eauto|]. split; [exact HL|]. split; [rewrite Ei; lia|].
  split; [intros; eapply att_same; eauto|]. split; [intros; eapply mk_same; eauto|]. split; auto.
Qed.

Lemma linv_same g g' t l :
  LInv g t l -> cur g' = cur g -> incs g' = incs g ->
  (forall x, In x (stolen g) -> In x (stolen g')) -> (saw_marked g' = false -> saw_marked g = false) ->
  LInv g' t l.
Proof.
  intros HL Ec Ei Hst Hs. apply linv_frame with (g := g); auto.
  - rewrite Ei; lia.
  - intros; eapply att_same; eauto.
  - intros; eapply mk_same; eauto.
Qed.

(* moving the pc / finishing an operation *)
Lemma linv_goto g t l p :
  length (hs l) = opi l -> HsOk g t (hs l) ->
  (forall h, inflight p = Some h -> (h_inc h < length (incs g))%nat) ->
  pc_ok g t (goto l p) -> (forall i, marker (goto l p) = Some i -> mkP g i) ->
  LInv g t (goto l p).
Proof. intros L1 L2 H3 H4 H5. unfold LInv. cbn [goto hs opi at_pc]. auto. Qed.

Lemma linv_finish g t l x :
  length (hs l) = opi l -> HsOk g t (hs l) ->
  (forall h, x = Some h -> (h_inc h < length (incs g))%nat /\ h_own h = false /\ h_id h = opi l /\ att g t h) ->
  LInv g t (finish l x).
Proof.
  intros L1 L2 Hx. unfold LInv, finish, pc_ok, marker. cbn [hs opi at_pc inflight].
  split; [rewrite app_length; cbn; lia|]. split.
  - apply hsok_app; auto. rewrite L1. exact Hx.
  - split; [intros h E; discriminate|]. split; [exact I|]. intros i E; discriminate.
Qed.

Lemma reserve_try c r n :
  reserve_check c r = RsvTry n -> N.land c (rbit r) = 0 /\ N.land c MARKED = 0.
Proof.
  unfold reserve_check. destruct (N.eqb_spec (N.land c (rbit r)) 0) as [A|A]; cbn [negb]; [|discriminate].
  destruct (N.eqb_spec (N.land c MARKED) 0) as [B|B]; cbn [negb]; [|discriminate]. auto.
Qed.

Lemma att_set_own g t h b : att g t (set_own h b) <-> att g t h.
Proof. unfold att, set_own; cbn [h_inc h_role h_id]. tauto. Qed.

(* what a successful remove_state CAS does to G (before the saw_marked flag) *)
Lemma detach_facts g i r c me :
  (i < length (incs g))%nat -> i_st (get_inc g i) = c -> GInv g ->
  let x := get_inc g i in
  let new := remove_new c r in
  let x' := if N.land c (rbit r) =? 0 then set_holder x r new (holder x r) else set_holder x r new None in
  let g1 := if N.land c (rbit r) =? 0 then set_inc g i x' else steal (set_inc g i x') (holder x r) me in
  GInv g1 /\ cur g1 = cur g /\ incs g1 = upd (incs g) i x' /\ unl g1 = unl g /\ saw_marked g1 = saw_marked g /\
  i_st x' = new /\
  (forall t' h', (t', h_id h') <> me -> att g t' h' -> att g1 t' h').
Proof.
  intros Hi Ec HG x new x' g1. subst x' g1.
  destruct (N.land c (rbit r) =? 0) eqn:Eb.
  - split; [apply ginv_detach_core; auto; rewrite Eb; reflexivity|].
    repeat (split; [reflexivity|]). split; [apply st_set_holder|].
    intros t' h' Hne A. apply (att_detach g t' h' i r new me false); auto.
  - destruct (steal_fields (set_inc g i (set_holder x r new None)) (holder x r) me) as (F1 & F2 & F3 & F4).
    split.
    { eapply ginv_same; [exact F1|exact F2|exact F3|rewrite F4; auto|].
      apply ginv_detach_core; auto. rewrite Eb. reflexivity. }
    split; [exact F1|]. split; [exact F2|]. split; [exact F3|]. split; [exact F4|]. split; [apply st_set_holder|].
    intros t' h' Hne A. apply (att_detach g t' h' i r new me true); auto.
Qed.
