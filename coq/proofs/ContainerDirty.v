(* C10 proofs, part 2b: the steps of a thread whose owner died inside a call (until its recover
   completes), and the step theorem for all threads. *)
From V Require Import model.Base model.Conc model.Events model.Container proofs.ListLemmas proofs.ContainerBase proofs.ContainerInv proofs.ContainerStep.
From Coq Require Import ZifyBool ZifyNat ZifyN.
Open Scope N_scope.

Lemma same_pcinvd g g' o l : Same g g' -> PcInvD g o l -> PcInvD g' o l.
Proof.
  intros [A B C D E F G H I]. unfold PcInvD, Stale. rewrite ?A, ?B, ?C, ?D, ?I. auto.
Qed.
Lemma same_linv_d g g' t l : Same g g' -> LDirty g t l -> LDirty g' t l.
Proof.
  intros S [H0 H1 H2 H3 H6 H7 H8 H9 H10 H11]. pose proof (same_pcinvd _ _ (me t l) l S H7) as H7'.
  destruct S as [A B C D E F G H I].
  constructor; rewrite ?A, ?B, ?C, ?D, ?E, ?G, ?H, ?I; auto. lia.
Qed.

Section StepDirty.
  Variables (t : nat) (g : cgst) (l : clst).
  Hypothesis HGI : GInv g.
  Hypothesis HD : LDirty g t l.

  Definition Goal3C (r : option (cgst * clst * list ev)) : Prop :=
    match r with Some (g', l', _) => Guar t g g' /\ LInvC g' t l' /\ GInv g' | None => True end.

  Ltac dmove g' :=
    let HS := fresh "HS" in
    assert (HS : Same g g') by (first [apply same_refl | apply same_tick | apply same_igen]);
    split; [apply same_guar; exact HS|];
    split; [right|apply (same_ginv g g' HS HGI)].

  Ltac getp :=
    try match goal with Hw : _ \/ ?p = true |- _ =>
      is_var p; let Hp := fresh "Hp" in
      assert (Hp : p = true) by (let E := fresh "E" in destruct Hw as [[E _]|E]; [discriminate E|exact E]); subst p
    end.
  Ltac dstep g' :=
    dmove g'; match goal with HS : Same _ _ |- _ => apply (same_linv_d g _ _ _ HS) end;
    (eapply (ldirty_pc g t l); [exact HD|dside..]); try (repeat split; auto; fail).

  Lemma step_dirty_ok : Goal3C (step_acc t g l).
  Proof.
    pose proof HD as [(Hcf & Hdy & Hfn & Hwhere) H1 H2 H3 H6 H7 H8 H9 H10 H11]. unfold PcInvD in H7.
    unfold step_acc, Goal3C.
    destruct (pc l) eqn:Epc;
      try (exfalso; destruct Hwhere as [[E _]|E]; cbn in E; discriminate);
      cbn [rec_true] in Hwhere.
    - (* Idle *)
      destruct Hwhere as [[_ [r Er]]|E]; [|discriminate]. rewrite Er in *.
      pose proof (crash_ok_tl _ _ Hcf) as Hcf'.
      dmove (tick g). apply (same_linv_d g _ _ _ HS).
      eapply (ldirty_pc g t l); [exact HD|dside..]. repeat split; auto.
    - (* IncLoad *)
      destruct k as [v n|i gn|n acc p]; try (exfalso; destruct Hwhere as [[E _]|E]; cbn in E; discriminate).
      assert (Hp : p = true) by (destruct Hwhere as [[E _]|E]; [discriminate|exact E]). subst p.
      dmove g. apply (same_linv_d g _ _ _ HS).
      eapply (ldirty_pc g t l); [exact HD|dside..]. repeat split; auto.
    - (* IncCas *)
      destruct k as [v n|i gn|n acc p]; try (exfalso; destruct Hwhere as [[E _]|E]; cbn in E; discriminate).
      assert (Hp : p = true) by (destruct Hwhere as [[E _]|E]; [discriminate|exact E]). subst p.
      destruct (N.eqb_spec (igen g) c).
      + unfold after_inc, rec_next. destruct (N.ltb_spec (n + 1) (cap g)); dmove (set_igen g (c + 1)); apply (same_linv_d g _ _ _ HS);
          (eapply (ldirty_pc g t l); [exact HD|dside..]); repeat split; auto.
      + dmove g. apply (same_linv_d g _ _ _ HS).
        eapply (ldirty_pc g t l); [exact HD|dside..]. repeat split; auto.
    - (* RecDist2 *)
      assert (Hp : p = true) by (destruct Hwhere as [[E _]|E]; [discriminate|exact E]). subst p.
      unfold rec_next. destruct (N.ltb_spec 0 (cap g)); dmove g; apply (same_linv_d g _ _ _ HS);
        (eapply (ldirty_pc g t l); [exact HD|dside..]); repeat split; auto.
    - (* RecLoadCell *)
      getp. unfold rec_next.
      destruct (N.eqb_spec (cells g n) EMPTY); try destruct (N.ltb_spec (n + 1) (cap g)); dstep g.
      all: unfold PcInvD; simp; auto.
    - (* RecPDist0 *)
      getp. unfold rec_next.
      destruct (N.eqb_spec o (owner_of t (epoch l))); try destruct (N.ltb_spec (n + 1) (cap g)); dstep g.
      all: unfold PcInvD in *; simp; tauto.
    - (* RecLoadGen *)
      getp. destruct H7 as (Hn & Hc).
      destruct (odd (gens g n)) eqn:Eo; dstep g.
      all: unfold PcInvD; simp; auto.
    - (* RecPDist1 *) getp. dstep g.
    - (* RecRead *) getp. dstep g.
    - (* RecValidate *)
      getp. destruct H7 as (Hn & Hc).
      destruct (N.eqb_spec (gens g n) cur) as [Eq|Eq]; [|destruct (odd (gens g n)) eqn:Eo]; dstep g.
      all: unfold PcInvD; simp; auto.
    - (* RecCasCell *)
      getp. destruct H7 as (Hn & Hc & Hg).
      destruct (N.eqb_spec (cells g n) (owner_of t (epoch l))) as [_|Ebad]; [|exfalso; apply Ebad; exact Hc].
      assert (Hne : me t l <> EMPTY) by apply owner_not_empty.
      assert (Hle : v <= gens g n) by (destruct Hg as [->|[_ ->]]; lia).
      split; [|split].
      * apply (guar_slot t g _ n); simp; auto; try lia; try (intros; congruence);
          try (intros m Hm; rewrite !fupd_other by auto; auto); rewrite ?fupd_same; try lia; auto.
        all: try solve [left; exists (epoch l); auto].
        all: try solve [right; right; split; auto; exists (epoch l); auto].
      * right. destruct H1 as [H1a H1b].
        constructor; unfold PcInvD; simp; auto.
        -- repeat split; auto. right. destruct (odd v); reflexivity.
        -- intros m e. unfold fupd. destruct (N.eqb_spec m n); subst; [|apply H6].
           intros E. exfalso. eapply owner_not_empty. symmetry. exact E.
        -- destruct (odd v) eqn:Eo; simp; [|exact I]. unfold Stale. simp. rewrite fupd_same.
           repeat split; auto. discriminate.
      * destruct HGI as [GA' GB' GC' GD' GE']. constructor; simp; auto.
        intros m. unfold fupd. destruct (N.eqb_spec m n); subst; [discriminate|apply GE'].
    - (* RecSDist0 *) getp. dstep g.
    - (* RecCasGen *)
      getp. destruct H7 as (Hn & Ho & Hle & Hst).
      assert (Hog : odd (v + 1) = false) by (rewrite odd_succ, Ho; reflexivity).
      destruct (N.eqb_spec (gens g n) v) as [Eg|Eg].
      + assert (Hs : settled g n = false) by (destruct (settled g n); auto; specialize (Hst eq_refl); lia).
        split; [apply guar_stale; auto|]. split.
        * right. destruct H1 as [H1a H1b]. constructor; unfold PcInvD; simp; auto.
          -- intros m. unfold fupd. destruct (N.eqb_spec m n); subst; [pose proof (H2 n); lia|apply H2].
          -- intros m gm [E|Hin].
             ++ inversion E; subst. rewrite fupd_same. split; auto; lia.
             ++ destruct (H3 m gm Hin). split; auto. unfold fupd. destruct (N.eqb_spec m n); subst; lia.
        * destruct HGI as [GA' GB' GC' GD' GE']. constructor; simp; auto.
          -- intros m a b Hin. destruct (GA' m a b Hin). split; auto. unfold fupd. destruct (N.eqb_spec m n); subst; lia.
          -- intros m. unfold fupd. destruct (N.eqb_spec m n); subst; [congruence|apply GB'].
          -- intros m gm c e Hin. destruct (GD' _ _ _ _ Hin) as (? & ? & ? & ?). repeat split; auto.
             unfold fupd. destruct (N.eqb_spec m n); subst; lia.
      + dstep g. intros m gm [E|Hin]; [|left; exact Hin]. inversion E; subst. right. split; auto; lia.
    - (* RecEnd *) dstep g.
    - (* RecIncChange *)
      split; [apply guar_complete|]. split; [|apply ginv_complete; auto].
      left. apply linv_complete0; auto. destruct H1 as [H1a H1b].
      assert (Hnone : forall j i, nth j (map (fun _ : option N => @None N) (handles l)) None <> Some i).
      { intros j i. generalize (handles l) j. induction l0 as [|h hs IH]; intros [|j0]; cbn; try discriminate. apply IH. }
      constructor; unfold PcInv, L0P; simp; auto.
      all: try solve [repeat split; auto; intros Hz; exfalso; apply Hz; reflexivity].
      all: try solve [intros i gm []].
      all: try solve [intros _ j i Hj; exfalso; eapply Hnone; eauto].
      all: try solve [intros m Hc _; unfold me in Hc; simp; apply H6 in Hc; lia].
      all: try solve [intros m e Hc; apply H6 in Hc; lia].
      all: try solve [intros; eauto].
      split; [exact Hcf|]. split; [reflexivity|]. intros Hz. exfalso. apply Hz. reflexivity.
  Qed.
End StepDirty.

Lemma step_fuse0 t g l : fuse l = Some 0%nat -> fusable (pc l) = true -> step t g l = Some (tick g, abandon l, []).
Proof.
  intros Ef Hb. unfold step. rewrite Ef. destruct (pc l); try discriminate; try reflexivity.
Qed.
Lemma step_fuseS t g l k : fuse l = Some (S k) -> fusable (pc l) = true -> step t g l = step_acc t g (set_fuse l (Some k)).
Proof.
  intros Ef Hb. unfold step. rewrite Ef. destruct (pc l); try discriminate; try reflexivity.
Qed.

(* every step of every thread, whatever its mode *)
Theorem step_okC t g l g' l' es :
  GInv g -> LInvC g t l -> step t g l = Some (g', l', es) ->
  Guar t g g' /\ LInvC g' t l' /\ GInv g'.
Proof.
  intros HG [HL|HD] Hs.
  - pose proof (L0 _ _ _ HL) as (Hcf & Hdy & Hfz).
    destruct (fuse l) as [[|k]|] eqn:Ef.
    + assert (Hz : Some 0%nat <> @None nat) by discriminate. destruct (Hfz Hz) as [Hb _].
      rewrite (step_fuse0 t g l Ef Hb) in Hs. inversion Hs; subst g' l' es; clear Hs.
      destruct (step_abandon g t l HG HL) as (A & B & C); [rewrite Ef; discriminate|].
      split; [exact A|split; [right; exact B|exact C]].
    + assert (Hz : Some (S k) <> @None nat) by discriminate. destruct (Hfz Hz) as [Hb _].
      rewrite (step_fuseS t g l k Ef Hb) in Hs.
      pose proof (step_ok t g _ HG (linv_setfuse g t l k HL Ef)) as H.
      rewrite Hs in H. cbn in H. destruct H as (A & B & C). split; [exact A|split; [left; exact B|exact C]].
    + unfold step in Hs. rewrite Ef in Hs.
      pose proof (step_ok t g l HG HL) as H. rewrite Hs in H. cbn in H. destruct H as (A & B & C).
      split; [exact A|split; [left; exact B|exact C]].
  - pose proof (D0 _ _ _ HD) as (_ & _ & Hfn & _). unfold step in Hs. rewrite Hfn in Hs.
    pose proof (step_dirty_ok t g l HG HD) as H. rewrite Hs in H. exact H.
Qed.
