(* Helper lemmas for proofs/PortInvSub.v: list facts, world accessors under the subscriber-side updates,
   the SubOK predicate and the generic assembly of the invariant after a subscriber-side step. *)
From V Require Import model.Base model.Conn model.Port proofs.ListLemmas proofs.ConnProofs proofs.PortProofs proofs.PortView proofs.PortInv.
From Coq Require Import Lia.
Local Open Scope nat_scope.

(* ---------------------------------------------------------------------------------------- *)
(* list facts                                                                                *)
(* ---------------------------------------------------------------------------------------- *)
Lemma nth_some_lt {A} (l : list (option A)) i v : nth i l None = Some v -> i < length l.
Proof. intros H. destruct (Nat.lt_ge_cases i (length l)); [auto|]. rewrite nth_overflow in H by lia. discriminate. Qed.

Lemma nth_upd_none {A} (l : list (option A)) i j : nth j (upd l i None) None = if Nat.eqb j i then None else nth j l None.
Proof.
  destruct (Nat.eqb_spec j i) as [->|Hne]; [|apply nth_upd_other; congruence].
  destruct (Nat.lt_ge_cases i (length l)); [now apply nth_upd_same|].
  rewrite upd_oob by lia. apply nth_overflow. lia.
Qed.

Lemma nth_upd_some {A} (l : list (option A)) i j v : i < length l ->
  nth j (upd l i (Some v)) None = if Nat.eqb j i then Some v else nth j l None.
Proof. intros Hi. destruct (Nat.eqb_spec j i) as [->|Hne]; [now apply nth_upd_same|apply nth_upd_other; congruence]. Qed.

Lemma in_some_nth {A} (l : list (option A)) v : In (Some v) l <-> exists i, nth i l None = Some v.
Proof.
  split.
  - intros Hin. destruct (In_nth _ _ None Hin) as [i [_ Hi]]. eauto.
  - intros [i Hi]. rewrite <- Hi. apply nth_In. eapply nth_some_lt; eauto.
Qed.

Lemma nodup_keys_inj l : NoDup (opt_keys l) -> forall i j k, nth i l None = Some k -> nth j l None = Some k -> i = j.
Proof.
  induction l as [|e t IH]; intros Hnd i j k Hi Hj; [destruct i; discriminate|].
  assert (Hnd' : NoDup (opt_keys t)).
  { destruct e; [rewrite opt_keys_cons_some in Hnd; now inversion Hnd|now rewrite opt_keys_cons_none in Hnd]. }
  assert (Hhead : forall m, e = Some k -> nth m t None = Some k -> False).
  { intros m -> Hm. rewrite opt_keys_cons_some in Hnd. inversion Hnd as [|? ? Hni _]; subst. apply Hni.
    apply in_opt_keys. apply in_some_nth. eauto. }
  destruct i as [|i], j as [|j]; cbn [nth] in Hi, Hj; auto.
  - exfalso. eauto.
  - exfalso. eauto.
  - f_equal. eauto.
Qed.

Lemma nodup_keys_of_inj l : (forall i j k, nth i l None = Some k -> nth j l None = Some k -> i = j) -> NoDup (opt_keys l).
Proof.
  induction l as [|e t IH]; intros Hinj; [constructor|].
  assert (Ht : NoDup (opt_keys t)).
  { apply IH. intros i j k Hi Hj. specialize (Hinj (S i) (S j) k Hi Hj). congruence. }
  destruct e as [k|]; [|now rewrite opt_keys_cons_none].
  rewrite opt_keys_cons_some. constructor; [|exact Ht].
  intros Hin. apply in_opt_keys in Hin. apply in_some_nth in Hin as [m Hm].
  specialize (Hinj 0 (S m) k eq_refl Hm). discriminate.
Qed.

Lemma nth_map_none {A} (l : list (option A)) i : nth i (map (fun _ => @None A) l) None = None.
Proof. revert i. induction l as [|h t IH]; intros [|i]; cbn; auto. Qed.

Lemma in_remove_nth {A} (l : list A) n k : In k (remove_nth n l) -> In k l.
Proof.
  revert n. induction l as [|h t IH]; intros n H; [destruct n; exact H|].
  destruct n; cbn [remove_nth] in H; [now right|]. destruct H as [H|H]; [now left|right; eauto].
Qed.

Lemma nodup_remove_nth {A} (l : list A) n : NoDup l -> NoDup (remove_nth n l).
Proof.
  revert n. induction l as [|h t IH]; intros n H; [destruct n; exact H|].
  inversion H as [|? ? Hni Hnd]; subst. destruct n; cbn [remove_nth]; [exact Hnd|].
  constructor; [|now apply IH]. intros Hi. apply Hni. eapply in_remove_nth; eauto.
Qed.

Lemma notin_remove_nth {A} (l : list A) n k : NoDup l -> nth_error l n = Some k -> ~ In k (remove_nth n l).
Proof.
  revert n. induction l as [|h t IH]; intros n Hnd Hn; [destruct n; discriminate|].
  inversion Hnd as [|? ? Hni Hnd']; subst. destruct n; cbn [remove_nth nth_error] in *.
  - inversion Hn; subst. exact Hni.
  - intros [He|Hi]; [|eapply IH; eauto]. subst. apply Hni. eapply nth_error_In; eauto.
Qed.

Lemma nth_error_skipn' {A} (l : list A) n m : nth_error (skipn n l) m = nth_error l (n + m).
Proof. revert l. induction n as [|n IH]; intros l; [reflexivity|]. destruct l; [now destruct m|]. cbn. apply IH. Qed.

(* removing the sample with a given id from a list with pairwise different ids *)
Lemma filter_id_split (l : list sample) x :
  NoDup (map x_id l) -> In x l ->
  exists l1 l2, l = l1 ++ x :: l2 /\ filter (fun y => negb (Nat.eqb (x_id y) (x_id x))) l = l1 ++ l2.
Proof.
  intros Hnd Hin. apply in_split in Hin as [l1 [l2 ->]]. exists l1, l2. split; [reflexivity|].
  rewrite map_app in Hnd. cbn [map] in Hnd.
  assert (Hne : forall y, In y (l1 ++ l2) -> x_id y <> x_id x).
  { intros y Hy He. apply NoDup_remove_2 in Hnd. apply Hnd. rewrite <- He, <- map_app. now apply in_map. }
  rewrite filter_app. cbn [filter]. rewrite Nat.eqb_refl. cbn [negb].
  assert (Hf : forall l', (forall y, In y l' -> x_id y <> x_id x) -> filter (fun y => negb (Nat.eqb (x_id y) (x_id x))) l' = l').
  { induction l' as [|a t IH]; intros Hl; [reflexivity|]. cbn [filter].
    destruct (Nat.eqb_spec (x_id a) (x_id x)) as [E|E]; [exfalso; eapply Hl; [now left|exact E]|].
    cbn [negb]. f_equal. apply IH. intros y Hy. apply Hl. now right. }
  rewrite !Hf; auto.
  - intros y Hy. apply Hne. apply in_or_app. now right.
  - intros y Hy. apply Hne. apply in_or_app. now left.
Qed.

(* ---------------------------------------------------------------------------------------- *)
(* world accessors                                                                           *)
(* ---------------------------------------------------------------------------------------- *)
Lemma pact_sets w s x p : pact (sets w s x) p = pact w p. Proof. reflexivity. Qed.
Lemma pact_setc w q s c p : pact (setc w q s c) p = pact w p.
Proof. unfold pact. now rewrite getp_setc. Qed.
Lemma sact_setc w q s c t : sact (setc w q s c) t = sact w t.
Proof. unfold sact. now rewrite gets_setc. Qed.
Lemma salive_setc w q s c t : salive (setc w q s c) t = salive w t.
Proof. unfold salive. now rewrite gets_setc. Qed.
Lemma len_subs_setc w q s c : length (w_subs (setc w q s c)) = length (w_subs w).
Proof. now destruct (setc_fields w q s c) as (_&_&_&_&->&_). Qed.
Lemma len_pubs_setc w q s c : length (w_pubs (setc w q s c)) = length (w_pubs w).
Proof. now destruct (setc_fields w q s c) as (_&_&_&->&_). Qed.
Lemma cfg_setc w q s c : w_cfg (setc w q s c) = w_cfg w.
Proof. now destruct (setc_fields w q s c) as (->&_). Qed.
Lemma samples_setc w q s c : w_samples (setc w q s c) = w_samples w.
Proof. now destruct (setc_fields w q s c) as (_&_&_&_&_&_&->&_). Qed.
Lemma nsample_setc w q s c : w_nsample (setc w q s c) = w_nsample w.
Proof. now destruct (setc_fields w q s c) as (_&_&_&_&_&_&_&_&->). Qed.

Lemma borrowed_nil w p s :
  (forall x, In x (w_samples w) -> x_origin x = p -> x_sub x = s -> False) -> borrowed w p s = [].
Proof.
  intros H. unfold borrowed. induction (w_samples w) as [|a t IH]; [reflexivity|]. cbn [filter].
  destruct (Nat.eqb_spec (x_origin a) p) as [E1|E1]; cbn [andb].
  - destruct (Nat.eqb_spec (x_sub a) s) as [E2|E2].
    + exfalso. eapply H; eauto. now left.
    + apply IH. intros x Hx. apply H. now right.
  - apply IH. intros x Hx. apply H. now right.
Qed.

Lemma in_borrowed w x : In x (w_samples w) -> In (x_off x) (borrowed w (x_origin x) (x_sub x)).
Proof. intros Hx. unfold borrowed. apply in_map. apply filter_In. split; [exact Hx|]. now rewrite !Nat.eqb_refl. Qed.

(* ---------------------------------------------------------------------------------------- *)
(* SubOK                                                                                     *)
(* ---------------------------------------------------------------------------------------- *)
(* not part of SubInvH (PortInv.v) but needed to keep it: the keys of to_be_removed_connections
   are pairwise different and in use *)
(* TbrOk: see PortInv.v *)

Definition SubOK (H : nat -> option nat) (s : nat) (w w' : world) : Prop :=
  InvG H w' /\ SubStep s w w' /\ PhiLe w w' /\ (TbrOk w s -> TbrOk w' s).

Lemma SubOK_refl H s w : InvG H w -> SubOK H s w w.
Proof. intros I. split; [exact I|]. split; [apply SubStep_refl|]. split; [apply PhiLe_refl|auto]. Qed.

Lemma SubOK_trans H1 H2 s w1 w2 w3 : SubOK H1 s w1 w2 -> SubOK H2 s w2 w3 -> SubOK H2 s w1 w3.
Proof.
  intros (A1 & B1 & C1 & D1) (A2 & B2 & C2 & D2). split; [exact A2|].
  split; [eapply SubStep_trans; eauto|]. split; [eapply PhiLe_trans; eauto|auto].
Qed.

Lemma SubOK_ext H H' s w w' : (forall t, H t = H' t) -> SubOK H s w w' -> SubOK H' s w w'.
Proof. intros E (A & B). split; [eapply InvG_ext; eauto|exact B]. Qed.

Lemma fupd_id {A} (f : nat -> A) k t : fupd f k (f k) t = f t.
Proof. unfold fupd. destruct (Nat.eqb_spec t k); congruence. Qed.

Lemma fupd_fupd' {A} (f : nat -> A) k a b t : fupd (fupd f k a) k b t = fupd f k b t.
Proof. unfold fupd. now destruct (Nat.eqb t k). Qed.

Lemma SubOK_intro H w w' s h :
  InvG H w -> SubStep s w w' -> SubSelf w' s h -> PhiLe w w' -> (TbrOk w s -> TbrOk w' s) -> SubOK (fupd H s h) s w w'.
Proof. intros I S F P T. split; [eapply SubStep_inv; eauto|auto]. Qed.

(* ---------------------------------------------------------------------------------------- *)
(* footprints                                                                                *)
(* ---------------------------------------------------------------------------------------- *)
Lemma SubStep_sets w s x' : s < length (w_subs w) ->
  s_active x' = s_active (gets w s) -> s_alive x' = s_alive (gets w s) -> s_slot x' = s_slot (gets w s) ->
  s_buf x' = s_buf (gets w s) -> s_hreq x' = s_hreq (gets w s) -> SubStep s w (sets w s x').
Proof.
  intros L A B C D E. constructor; try reflexivity; rewrite ?gets_sets_same by exact L; auto.
  - apply len_subs_sets.
  - intros t Ht. apply gets_sets_other. congruence.
Qed.

Lemma SubStep_setc w q s c : SubStep s w (setc w q s c).
Proof.
  destruct (setc_fields w q s c) as (A & B & C & D & E & F & G & I & J).
  constructor; auto; try (now rewrite gets_setc).
  - now rewrite E.
  - intros t _. apply gets_setc.
  - intros q' t Ht. apply getc_setc_ne. congruence.
  - intros q' t _. apply borrowed_setc.
Qed.

Lemma phi_setc_ne w q s c p t : (q, s) <> (p, t) -> phi (setc w q s c) p t = phi w p t.
Proof. intros Hne. unfold phi. now rewrite getc_setc_ne, borrowed_setc. Qed.

Lemma PhiLe_sets w s x : PhiLe w (sets w s x).
Proof. intros p t. apply Nat.le_refl. Qed.

Lemma PhiLe_setc w q s c c' :
  getc w q s = Some c -> length (c_sub c') <= length (c_sub c) -> length (c_comp c') <= length (c_comp c) ->
  PhiLe w (setc w q s c').
Proof.
  intros Hc A B p t.
  destruct (Nat.eq_dec q p) as [<-|Hp]; [destruct (Nat.eq_dec s t) as [<-|Ht]|].
  - unfold phi. rewrite getc_setc_eq, borrowed_setc, Hc. destruct (c_snd c' || c_rcv c'); lia.
  - rewrite phi_setc_ne by congruence. lia.
  - rewrite phi_setc_ne by congruence. lia.
Qed.

Lemma PhiLe_setc_new w q s c' :
  c_sub c' = [] -> c_comp c' = [] -> borrowed w q s = [] -> PhiLe w (setc w q s c').
Proof.
  intros A B C p t.
  destruct (Nat.eq_dec q p) as [<-|Hp]; [destruct (Nat.eq_dec s t) as [<-|Ht]|].
  - unfold phi at 1. rewrite getc_setc_eq, borrowed_setc, C. destruct (c_snd c' || c_rcv c'); [rewrite A, B; cbn|]; lia.
  - rewrite phi_setc_ne by congruence. lia.
  - rewrite phi_setc_ne by congruence. lia.
Qed.

(* ---------------------------------------------------------------------------------------- *)
(* the clauses of SubSelf about the connections of s                                          *)
(* ---------------------------------------------------------------------------------------- *)
Record ConnSelf (w : world) (s : nat) : Prop := {
  cs_pub : forall p, pact w p -> PubInv w p;
  cs_range : forall p c, getc w p s = Some c -> p < length (w_pubs w) /\ s < length (w_subs w);
  cs_B : forall p c, getc w p s = Some c -> c_B c = Nat.max 1 (s_buf (gets w s));
  cs_snd_tab : forall p c, pact w p -> getc w p s = Some c -> c_snd c = true -> In (Some s) (p_tab (getp w p));
  cs_fresh : forall p c, pact w p -> sact w s -> getc w p s = Some c -> c_snd c = false ->
             c_sub c = [] /\ c_comp c = [] /\ c_used c = [] /\ borrowed w p s = [] /\ c_borrow c = 0
             /\ c_B c = Nat.max 1 (s_buf (gets w s)) /\ c_M c = cf_M (w_cfg w) /\ c_n c = p_n (getp w p) }.

Lemma Inv_ConnSelf H w s : InvG H w -> ConnSelf w s.
Proof.
  intros I. constructor.
  - apply (iv_pub _ _ I).
  - intros p c Hc. now apply (iv_conn_range _ _ I) in Hc.
  - intros p c. apply (iv_conn_B _ _ I).
  - intros p c. apply (iv_snd_tab _ _ I).
  - intros p c. apply (iv_fresh _ _ I).
Qed.

Lemma ConnSelf_sets w s x' :
  s < length (w_subs w) -> s_active x' = s_active (gets w s) -> s_buf x' = s_buf (gets w s) ->
  ConnSelf w s -> ConnSelf (sets w s x') s.
Proof.
  intros L A B [a b b' c d]. constructor.
  - intros p Hp. exact (a p Hp).
  - intros p cc Hc. rewrite len_subs_sets. exact (b p cc Hc).
  - intros p cc Hc. rewrite gets_sets_same by exact L. rewrite B. exact (b' p cc Hc).
  - intros p cc Hp Hc Hs. exact (c p cc Hp Hc Hs).
  - intros p cc Hp Hs Hc Hf. unfold sact in Hs. rewrite gets_sets_same in * by exact L. rewrite B.
    apply (d p cc Hp); auto. unfold sact. now rewrite <- A.
Qed.

(* detach / attach of the receiver port of the connection (q, s) *)
Definition flipc (c : conn) (r : bool) : conn := set_ports (set_sub_borrow c (c_sub c) 0) (c_snd c) r.

Lemma pn_pos cfg x ls cf bf : cfg_sane cfg -> PubInvV cfg x ls cf bf -> 1 <= p_n x.
Proof.
  intros (A & B & C & D & _) I. rewrite (pv_n _ _ _ _ _ I). unfold required_samples.
  assert (1 <= cf_S cfg * (cf_B cfg + cf_M cfg)) by nia. lia.
Qed.

Lemma flip_ConnSelf H w q s c0 r :
  InvG H w -> s < length (w_subs w) -> q < length (w_pubs w) ->
  (getc w q s = Some c0
   \/ (getc w q s = None /\ c0 = conn_new (s_buf (gets w s)) (cf_M (w_cfg w)) (cf_ovf (w_cfg w)) (p_n (getp w q)))) ->
  (pact w q -> borrowed w q s = []) ->
  ConnSelf (setc w q s (flipc c0 r)) s.
Proof.
  intros I Ls Lq Hc0 Hb. constructor.
  - intros p Hp. rewrite pact_setc in Hp.
    destruct (Nat.eq_dec q p) as [<-|Hne].
    2:{ eapply PubInv_frame; [apply cfg_setc|apply getp_setc|apply loans_of_setc| |now apply (iv_pub _ _ I)].
        intros t _. split; [now apply getc_setc_otherp|apply borrowed_setc]. }
    pose proof (iv_pub _ _ I q Hp) as PI.
    destruct (in_dec opt_nat_dec (Some s) (p_tab (getp w q))) as [Hin|Hni].
    2:{ eapply PubInv_frame; [apply cfg_setc|apply getp_setc|apply loans_of_setc| |exact PI].
        intros t Ht. split; [|apply borrowed_setc]. apply getc_setc_other. intros ->. contradiction. }
    unfold PubInv in PI. destruct (pv_conn _ _ _ _ _ PI s Hin) as [c [Hc Ok]].
    rewrite (Hb Hp) in Ok.
    assert (c0 = c) by (destruct Hc0 as [E|[E _]]; congruence). subst c0.
    pose proof (ConnOk_ports _ _ c (c_snd c) r Ok (co_snd _ _ _ _ Ok)) as Ok'.
    pose proof (V_conn_replace _ _ _ _ _ s c (flipc c r) [] PI Hc (fun o => eq_refl) Ok') as PI'.
    unfold PubInv. rewrite cfg_setc, getp_setc, loans_of_setc. eapply PubInvV_ext; [|exact PI'].
    intros t Ht. destruct (Nat.eq_dec t s) as [->|Hts].
    + rewrite !fupd_same, getc_setc_eq, borrowed_setc. cbn [flipc set_ports c_snd c_rcv].
      rewrite (co_snd _ _ _ _ Ok). cbn [orb]. auto.
    + rewrite !fupd_other by exact Hts. rewrite getc_setc_other by congruence. now rewrite borrowed_setc.
  - intros p c Hc. rewrite len_pubs_setc, len_subs_setc.
    destruct (Nat.eq_dec q p) as [<-|Hne]; [auto|].
    rewrite getc_setc_otherp in Hc by exact Hne. now apply (iv_conn_range _ _ I) in Hc.
  - intros p c Hc. rewrite gets_setc. destruct (Nat.eq_dec q p) as [<-|Hne].
    + rewrite getc_setc_eq in Hc. destruct (c_snd (flipc c0 r) || c_rcv (flipc c0 r)); [|discriminate].
      inversion Hc; subst c. cbn [flipc set_ports set_sub_borrow c_B].
      destruct Hc0 as [E|[_ E]]; [now apply (iv_conn_B _ _ I) in E|]. subst c0. reflexivity.
    + rewrite getc_setc_otherp in Hc by exact Hne. now apply (iv_conn_B _ _ I) in Hc.
  - intros p c Hp Hc Hs. rewrite pact_setc in Hp. rewrite getp_setc.
    destruct (Nat.eq_dec q p) as [<-|Hne].
    + rewrite getc_setc_eq in Hc. destruct (c_snd (flipc c0 r) || c_rcv (flipc c0 r)); [|discriminate].
      inversion Hc; subst c. cbn [flipc set_ports c_snd] in Hs.
      destruct Hc0 as [E|[_ E]]; [eapply (iv_snd_tab _ _ I); eauto|]. subst c0. discriminate.
    + rewrite getc_setc_otherp in Hc by exact Hne. eapply (iv_snd_tab _ _ I); eauto.
  - intros p c Hp Hs Hc Hf. rewrite pact_setc in Hp. rewrite sact_setc in Hs.
    rewrite getp_setc, gets_setc, cfg_setc, borrowed_setc.
    destruct (Nat.eq_dec q p) as [<-|Hne].
    + rewrite getc_setc_eq in Hc. destruct (c_snd (flipc c0 r) || c_rcv (flipc c0 r)); [|discriminate].
      inversion Hc; subst c. cbn [flipc set_ports set_sub_borrow c_snd c_sub c_comp c_used c_borrow c_B c_M c_n] in *.
      destruct Hc0 as [E|[_ E]].
      * destruct (iv_fresh _ _ I q s c0 Hp Hs E Hf) as (A1 & A2 & A3 & A4 & A5 & A6 & A7 & A8). splits; auto.
      * subst c0. cbn [conn_new c_sub c_comp c_used c_B c_M c_n]. splits; auto.
        -- destruct (iv_cfg _ _ I) as (_ & _ & _ & HM & _). lia.
        -- pose proof (pn_pos _ _ _ _ _ (iv_cfg _ _ I) (iv_pub _ _ I q Hp)). lia.
    + rewrite getc_setc_otherp in Hc by exact Hne. eapply (iv_fresh _ _ I); eauto.
Qed.

(* assembling SubSelf when the samples are untouched *)
Lemma SubSelf_build H w w' s h :
  InvG H w -> SubStep s w w' -> w_samples w' = w_samples w -> w_nsample w' = w_nsample w ->
  ConnSelf w' s -> (salive w' s -> SubInvH w' s h) ->
  (forall x, In x (w_samples w) -> x_sub x = s -> pact w (x_origin x) ->
             exists e, nth (x_key x) (s_store (gets w' s)) None = Some e /\ se_pub e = x_origin x) ->
  SubSelf w' s h.
Proof.
  intros I S E1 E2 [a b b' c d] V X. constructor; auto; rewrite ?E1, ?E2.
  - intros x Hx. rewrite (SubStep_salive _ _ _ _ S), (ss_pubs _ _ _ S). now apply (iv_samp_alive _ _ I).
  - intros x Hx Hp. apply (SubStep_pact _ _ _ _ S) in Hp.
    destruct (Nat.eq_dec (x_sub x) s) as [E|Hne]; [rewrite E; now apply X|].
    rewrite (ss_other _ _ _ S) by exact Hne. now apply (iv_samp_store _ _ I).
  - apply (iv_samp_ids _ _ I).
  - intros x Hx Hp Hs. apply (SubStep_pact _ _ _ _ S) in Hp. apply (SubStep_sact _ _ _ _ S) in Hs.
    rewrite (SubStep_getp _ _ _ _ S). now apply (iv_cover _ _ I).
Qed.

(* SubInvH of a world whose subscriber s has local state x', in terms of x' and an earlier world *)
Lemma SubInvH_mk w w' s h x' :
  gets w' s = x' -> w_cfg w' = w_cfg w -> w_pubs w' = w_pubs w ->
  length (s_tab x') = cf_P (w_cfg w) -> (1 <= s_buf x' /\ s_buf x' <= cf_B (w_cfg w)) -> NoDup (opt_keys (s_tab x')) ->
  (forall i key, nth i (s_tab x') None = Some key -> h <> Some i -> exists e, nth key (s_store x') None = Some e) ->
  NoDup (s_freekeys x') ->
  (forall key, In key (s_freekeys x') -> key < length (s_store x') /\ nth key (s_store x') None = None) ->
  (forall key e, nth key (s_store x') None = Some e -> pact w (se_pub e) ->
                 nth (p_slot (getp w (se_pub e))) (s_tab x') None = Some key) ->
  (forall key e, In key (s_tbr x') -> nth key (s_store x') None = Some e -> ~ pact w (se_pub e)) ->
  (forall i key, nth i (s_tab x') None = Some key -> In key (s_tbr x') -> h = Some i) ->
  (forall k1 k2 e1 e2, nth k1 (s_store x') None = Some e1 -> nth k2 (s_store x') None = Some e2 -> se_pub e1 = se_pub e2 -> k1 = k2) ->
  (forall key e, nth key (s_store x') None = Some e ->
                 se_pub e < length (w_pubs w) /\ exists c, getc w' (se_pub e) s = Some c /\ c_rcv c = true) ->
  SubInvH w' s h.
Proof.
  intros G C P a b c d e f g h0 h1 i j.
  constructor; rewrite ?G, ?C; auto; unfold pact, getp; rewrite ?P; auto.
Qed.

(* a change of the subscriber state that keeps every field SubInvH reads *)
Lemma SubInvH_frame2 w w' s h :
  w_cfg w' = w_cfg w -> w_pubs w' = w_pubs w ->
  s_tab (gets w' s) = s_tab (gets w s) -> s_store (gets w' s) = s_store (gets w s) ->
  s_freekeys (gets w' s) = s_freekeys (gets w s) -> s_tbr (gets w' s) = s_tbr (gets w s) -> s_buf (gets w' s) = s_buf (gets w s) ->
  (forall q c, getc w q s = Some c -> c_rcv c = true -> exists c', getc w' q s = Some c' /\ c_rcv c' = true) ->
  SubInvH w s h -> SubInvH w' s h.
Proof.
  intros C P E1 E2 E3 E4 E5 E6 [a b c d e f g h0 h1 i j].
  constructor; rewrite ?C, ?E1, ?E2, ?E3, ?E4, ?E5; auto; unfold pact, getp; rewrite ?P; auto.
  intros key en Hk. destruct (j key en Hk) as [Hr [cc [Hc Hrc]]]. split; [exact Hr|]. eapply E6; eauto.
Qed.
