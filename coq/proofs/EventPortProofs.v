From V Require Import model.Base model.EventPort.
From Coq Require Import ZifyBool ZifyNat ZifyN.
Open Scope N_scope.

(* every occupied slot is notified, whatever the occupancy pattern; empty slots stay empty; the
   returned count is the number of occupied slots *)
Theorem fanout_all i s :
  length (fst (fanout i s)) = length s /\
  snd (fanout i s) = occupied s /\
  forall k, (nth_error s k = Some None -> nth_error (fst (fanout i s)) k = Some None) /\
            (forall p, nth_error s k = Some (Some p) -> nth_error (fst (fanout i s)) k = Some (Some (pend_add i p))).
Proof.
  induction s as [|[p|] r IH]; cbn [fanout].
  - cbn. repeat split; auto; intros; destruct k; discriminate.
  - destruct (fanout i r) as [r' n] eqn:E. cbn [fst snd] in *. destruct IH as (Hl & Hn & Hk).
    split; [cbn; congruence|]. split.
    + unfold occupied in *. cbn [filter length]. lia.
    + intros k. destruct k as [|k]; cbn [nth_error].
      * split; [discriminate|]. intros q H. inversion H; subst. reflexivity.
      * apply Hk.
  - destruct (fanout i r) as [r' n] eqn:E. cbn [fst snd] in *. destruct IH as (Hl & Hn & Hk).
    split; [cbn; congruence|]. split.
    + unfold occupied in *. cbn [filter length]. exact Hn.
    + intros k. destruct k as [|k]; cbn [nth_error].
      * split; [reflexivity|discriminate].
      * apply Hk.
Qed.

Lemma pend_add_in i p : exists c, In (i, c) (pend_add i p) /\ 0 < c.
Proof.
  induction p as [|[j c] r IH]; cbn [pend_add].
  - exists 1. split; [left; auto|lia].
  - destruct (N.eqb_spec i j) as [->|E].
    + exists (c + 1). split; [left; auto|lia].
    + destruct (N.ltb i j).
      * exists 1. split; [left; auto|lia].
      * destruct IH as (c0 & H & Hc). exists c0. split; [right; auto|auto].
Qed.

(* so: after a notify, every listener that was attached has the id pending *)
Theorem fanout_reaches_everyone i s k p :
  nth_error s k = Some (Some p) ->
  exists p' c, nth_error (fst (fanout i s)) k = Some (Some p') /\ In (i, c) p' /\ 0 < c.
Proof.
  intros H. destruct (fanout_all i s) as (_ & _ & Hk). destruct (Hk k) as [_ H2].
  destruct (pend_add_in i p) as (c & Hin & Hc). exists (pend_add i p), c. auto.
Qed.
