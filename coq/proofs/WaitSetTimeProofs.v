(* The deadline queue with time: no period boundary is lost between consecutive processing
   calls, none is invented; the rule "previous_iteration := time after the callbacks" loses one. *)
From V Require Import model.Base model.WaitSet.
From Coq Require Import ZifyBool ZifyNat ZifyN.
Open Scope N_scope.

Lemma div_lt_iff a b p : p <> 0 -> (a / p < b <-> a < b * p).
Proof.
  intros Hp. split; intros H.
  - destruct (N.lt_ge_cases a (b * p)) as [L|G]; auto.
    assert (b <= a / p) by (apply N.div_le_lower_bound; auto; lia). lia.
  - apply N.div_lt_upper_bound; auto. lia.
Qed.

Lemma div_ge_iff a b p : p <> 0 -> (b <= a / p <-> b * p <= a).
Proof.
  intros Hp. split; intros H.
  - destruct (N.le_gt_cases (b * p) a) as [L|G]; auto.
    assert (a / p < b) by (apply div_lt_iff; auto). lia.
  - apply N.div_le_lower_bound; auto. lia.
Qed.

(* the code's test = "a boundary start + k*period lies in (max prev start, now]" *)
Lemma t_due_iff_boundary prev now e :
  t_period e <> 0 -> t_start e <= now ->
  (t_due prev now e = true <->
   exists k, N.max prev (t_start e) < t_start e + k * t_period e /\ t_start e + k * t_period e <= now).
Proof.
  intros Hp Hs. unfold t_due. replace (N.eqb (t_period e) 0) with false by (symmetry; now apply N.eqb_neq).
  rewrite N.ltb_lt. set (p := t_period e) in *. set (s := t_start e) in *. set (m := N.max prev s - s).
  assert (Hm : N.max prev s = s + m) by (unfold m; lia).
  split.
  - intros H. exists (m / p + 1). split.
    + rewrite Hm. assert (m < (m / p + 1) * p); [|lia]. apply div_lt_iff; auto. lia.
    + assert (m / p + 1 <= (now - s) / p) by lia. apply div_ge_iff in H0; auto. lia.
  - intros [k [H1 H2]].
    assert (A : m / p < k) by (apply div_lt_iff; auto; lia).
    assert (B : k <= (now - s) / p) by (apply div_ge_iff; auto; lia). lia.
Qed.

Lemma t_due_spec prev now e : t_start e <= now -> t_due prev now e = t_spec_due prev now e.
Proof.
  intros Hs. unfold t_due, t_spec_due, t_next_boundary. destruct (N.eqb_spec (t_period e) 0) as [E|E]; auto.
  set (p := t_period e) in *. set (s := t_start e) in *. set (L := (N.max prev s - s) / p).
  destruct (N.ltb_spec L ((now - s) / p)) as [H|H]; symmetry.
  - apply N.leb_le. assert (L + 1 <= (now - s) / p) by lia. apply div_ge_iff in H0; auto. lia.
  - apply N.leb_gt. assert ((now - s) / p < L + 1) by lia. apply div_lt_iff in H0; auto. lia.
Qed.

Lemma t_missed_spec q now :
  (forall e, In e (t_att q) -> t_start e <= now) -> t_missed q now = t_spec_missed q now.
Proof.
  intros H. unfold t_missed, t_spec_missed. f_equal. apply filter_ext_in. intros e He. apply t_due_spec. auto.
Qed.

Lemma existsb_false_in {A} (f : A -> bool) l x : existsb f l = false -> In x l -> f x = false.
Proof.
  intros H Hin. destruct (f x) eqn:E; auto.
  assert (existsb f l = true) by (apply existsb_exists; eauto). congruence.
Qed.

(* a boundary that falls after the evaluation time b1 of one call -- for instance while that
   call's callbacks run -- and not after the evaluation time b2 of the next call is reported
   by the next call *)
Lemma t_no_expiry_lost q a1 b1 a2 b2 e k :
  In e (t_att q) -> t_period e <> 0 -> t_start e <= b1 -> b1 <= a2 -> a2 <= b2 ->
  b1 < t_start e + k * t_period e -> t_start e + k * t_period e <= b2 ->
  In (t_idx e) (snd (t_call (fst (t_call q a1 b1)) a2 b2)).
Proof.
  intros Hin Hp Hs H12 Hab Hlo Hhi.
  unfold t_call at 1. unfold t_report. cbn [snd]. unfold t_missed.
  apply in_map. apply filter_In.
  assert (Hatt : t_att (t_peek (fst (t_call q a1 b1)) a2) = t_att q).
  { unfold t_peek, t_call, t_report, t_set_prev. cbn [fst t_att t_prev].
    destruct (existsb _ _); cbn; unfold t_peek; destruct (existsb _ (t_att q)); reflexivity. }
  rewrite Hatt. split; auto.
  assert (Hs2 : t_start e <= b2) by lia.
  apply (proj2 (t_due_iff_boundary _ _ _ Hp Hs2)).
  exists k. split; [|exact Hhi].
  unfold t_peek at 1. cbn [t_call t_report fst t_set_prev t_prev t_att].
  assert (Hl : t_att (t_peek q a1) = t_att q) by (unfold t_peek; destruct (existsb _ _); reflexivity).
  rewrite Hl.
  destruct (existsb (t_due b1 a2) (t_att q)) eqn:Ex.
  - cbn [t_prev t_set_prev]. lia.
  - cbn [t_prev t_set_prev].
    assert (Hn := existsb_false_in _ _ e Ex Hin).
    destruct (N.lt_ge_cases (N.max a2 (t_start e)) (t_start e + k * t_period e)) as [L|G]; auto.
    exfalso. assert (t_due b1 a2 e = true); [|congruence].
    assert (Hs3 : t_start e <= a2) by lia.
    apply (proj2 (t_due_iff_boundary _ _ _ Hp Hs3)). exists k. split; lia.
Qed.

(* nothing is invented: a report means that a boundary was crossed since the previous evaluation *)
Lemma t_report_sound q a b i :
  (forall e, In e (t_att q) -> t_period e <> 0 /\ t_start e <= b) ->
  In i (snd (t_call q a b)) ->
  exists e k, In e (t_att q) /\ t_idx e = i /\
              t_prev (t_peek q a) < t_start e + k * t_period e /\ t_start e + k * t_period e <= b.
Proof.
  intros H Hin. unfold t_call, t_report in Hin. cbn [snd] in Hin. unfold t_missed in Hin.
  apply in_map_iff in Hin. destruct Hin as [e [Ei He]]. apply filter_In in He. destruct He as [He Hd].
  assert (Hl : t_att (t_peek q a) = t_att q) by (unfold t_peek; destruct (existsb _ _); reflexivity).
  rewrite Hl in He. destruct (H e He) as [Hp Hs].
  apply (proj1 (t_due_iff_boundary _ _ _ Hp Hs)) in Hd. destruct Hd as [k [K1 K2]]. exists e, k. repeat split; auto. lia.
Qed.

(* the rule "previous_iteration := time after the callbacks" is refuted *)
Definition t_no_expiry_lost_late_full : Prop :=
  forall q a1 b1 d1 a2 b2 d2 e k,
  In e (t_att q) -> t_period e <> 0 -> t_start e <= b1 -> b1 + d1 <= a2 -> a2 <= b2 ->
  b1 < t_start e + k * t_period e -> t_start e + k * t_period e <= b2 ->
  In (t_idx e) (snd (t_call_late (fst (t_call_late q a1 b1 d1)) a2 b2 d2)).

Lemma t_no_expiry_lost_late_refuted : ~ t_no_expiry_lost_late_full.
Proof.
  intros H.
  (* deadline of 400 attached at 0; call at 150 whose callbacks take 350; next call at 500 *)
  specialize (H (t_add (tdq_new 0) 400 0) 150 150 350 500 500 0 {| t_idx := 0; t_period := 400; t_start := 0 |} 1).
  vm_compute in H. 
  assert (X : False); [|exact X].
  apply H; auto; try (intro E; discriminate E).
Qed.

Lemma t_no_expiry_lost_nonvacuous :
  let q := t_add (t_add (tdq_new 0) 100 0) 400 0 in
  snd (t_call q 150 150) = [0] /\ snd (t_call (fst (t_call q 150 150)) 450 450) = [0; 1] /\
  snd (t_call_late (fst (t_call_late q 150 150 300)) 450 450 0) = [].
Proof. vm_compute. repeat split; reflexivity. Qed.
