(* C11 -- lemmas about model/ReqRes.v, part 3: the client half of routing.  Every queued request sits in a connection of
   the client that sent it, every queued response in a connection of the client whose request
   it answers -- provided no response is ever SENT into a connection of another client. *)
From V Require Import model.Base model.ReqRes proofs.ReqResProofs proofs.ReqResInv.
From Coq Require Import ZifyBool ZifyNat ZifyN.
Open Scope N_scope.

Definition chan_rt (cl : N) (x : chan) : Prop := forall m, In m (c_sub x) -> p_ocl m = cl.
Definition conn_rt (k : conn) : Prop :=
  (forall m, In m (k_rsub k) -> q_cl m = k_cl k) /\ Forall (chan_rt (k_cl k)) (k_ch k).
Definition rt_ok (s : state) : Prop := Forall conn_rt (s_conns s).

Lemma chan_rt_dchan : forall cl, chan_rt cl dchan. Proof. intros cl m []. Qed.
Lemma k_chan_rt : forall k c, conn_rt k -> chan_rt (k_cl k) (k_chan k c).
Proof. intros k c [_ H]. unfold k_chan, nthN. apply Forall_nth; [exact H|apply chan_rt_dchan]. Qed.
Lemma k_set_chan_rt : forall k c x, conn_rt k -> chan_rt (k_cl k) x -> conn_rt (k_set_chan k c x).
Proof. intros k c x [H1 H2] Hx. split; [exact H1|]. cbn [k_set_chan k_with_ch k_ch k_cl mk_conn]. unfold updN. apply Forall_upd; assumption. Qed.
Lemma k_map_state_rt : forall k c f, conn_rt k -> conn_rt (k_map_state k c f).
Proof. intros. unfold k_map_state. apply k_set_chan_rt; [assumption|]. exact (k_chan_rt k c H). Qed.
Lemma Forall_map_if' : forall A (P : A -> Prop) (c : A -> bool) f l,
  Forall P l -> (forall k, c k = true -> P k -> P (f k)) -> Forall P (map (fun k => if c k then f k else k) l).
Proof. induction l as [|h t IH]; intros Hl Hf; cbn [map]; [constructor|]. inversion Hl; subst. constructor; [destruct (c h) eqn:E; auto|auto]. Qed.
Lemma rt_upd_conn : forall s a b f, rt_ok s -> (forall k, k_cl k = a -> conn_rt k -> conn_rt (f k)) -> rt_ok (upd_conn s a b f).
Proof.
  intros. unfold rt_ok, upd_conn. cbn [s_conns st_conns]. apply Forall_map_if'; [assumption|].
  intros k Hk. apply H0. unfold is_key in Hk. apply andb_prop in Hk. destruct Hk as [Hk _]. apply N.eqb_eq in Hk. exact Hk.
Qed.
Lemma rt_st_conns_map : forall s s' (c : conn -> bool) (f : conn -> conn), rt_ok s -> (forall k, conn_rt k -> conn_rt (f k)) ->
  rt_ok (st_conns s' (map (fun k => if c k then f k else k) (s_conns s))).
Proof. intros. unfold rt_ok. cbn [s_conns st_conns]. apply Forall_map_if; assumption. Qed.
Lemma rt_upd_server : forall s i f, rt_ok s -> rt_ok (upd_server s i f). Proof. intros; assumption. Qed.
Lemma rt_upd_client : forall s i f, rt_ok s -> rt_ok (upd_client s i f). Proof. intros; assumption. Qed.
Lemma conn_rt_new : forall g a b, conn_rt (new_conn g a b).
Proof.
  intros. unfold new_conn, conn_rt. cbn [k_ch k_rsub k_cl mk_conn]. split; [intros m []|].
  apply Forall_forall. intros x Hx. apply repeat_spec in Hx. subst. apply chan_rt_dchan.
Qed.
Lemma rt_ensure_conn : forall g s a b, rt_ok s -> rt_ok (ensure_conn g s a b).
Proof.
  intros. unfold ensure_conn. destruct (get_conn s a b); [assumption|].
  unfold rt_ok. cbn [s_conns st_conns]. apply Forall_app. split; [assumption|]. constructor; [apply conn_rt_new|constructor].
Qed.
Lemma get_conn_rt : forall s a b k, rt_ok s -> get_conn s a b = Some k -> conn_rt k /\ k_cl k = a /\ k_sv k = b.
Proof.
  intros s a b k H Hg. unfold get_conn in Hg. apply find_some in Hg. destruct Hg as [Hin Hk]. unfold rt_ok in H. rewrite Forall_forall in H.
  unfold is_key in Hk. apply andb_prop in Hk. destruct Hk as [H1 H2]. apply N.eqb_eq in H1. apply N.eqb_eq in H2. auto.
Qed.
Lemma conn_rt_req_nil : forall k c, conn_rt k -> conn_rt (k_with_req k [] [] c).
Proof. intros k c [H1 H2]. split; [intros m []|exact H2]. Qed.
Lemma conn_rt_req_same : forall k b c, conn_rt k -> conn_rt (k_with_req k (k_rsub k) b c).
Proof. intros k b c [H1 H2]. split; [exact H1|exact H2]. Qed.
Lemma conn_rt_clear_ch : forall k, conn_rt k -> conn_rt (k_with_ch k (map (fun x => mk_chan (c_state x) [] [] []) (k_ch k))).
Proof.
  intros k [H1 H2]. split; [exact H1|]. cbn [k_with_ch k_ch k_cl mk_conn].
  apply Forall_forall. intros x Hx. apply in_map_iff in Hx. destruct Hx as [y [<- _]]. intros m [].
Qed.

Lemma rt_client_sync : forall g s cl, rt_ok s -> rt_ok (client_sync g s cl).
Proof.
  intros g s cl H. unfold client_sync. apply fold_left_inv.
  - intros a b Ha. apply rt_upd_conn; [apply rt_ensure_conn; exact Ha|]. intros k _ Hk. destruct (view_active (k_cv k)); exact Hk.
  - apply rt_st_conns_map; [exact H|]. intros k Hk. unfold client_detach. apply (conn_rt_req_nil k [] Hk).
Qed.
Lemma rt_server_sync_idx : forall g sv s ir, rt_ok s -> rt_ok (server_sync_idx g sv s ir).
Proof.
  intros g sv s [i reg] H. unfold server_sync_idx.
  destruct (get_server s sv) as [srv|]; [|exact H].
  match goal with |- context [if ?b then _ else _] => destruct b end; [exact H|].
  apply rt_upd_server.
  match goal with |- rt_ok (match reg with Some c => _ | None => ?x end) => set (s1 := x) end.
  assert (H1 : rt_ok s1).
  { unfold s1. destruct (nthN (sv_conns srv) i None); [|exact H]. destruct (get_conn s n sv); [|exact H].
    apply rt_upd_conn; [apply rt_upd_server; exact H|]. intros k0 _ Hk. unfold server_detach. apply (conn_rt_clear_ch k0 Hk). }
  destruct reg; [|exact H1]. apply rt_upd_conn; [apply rt_ensure_conn; exact H1|]. intros k _ Hk; exact Hk.
Qed.
Lemma rt_server_sync : forall g s sv, rt_ok s -> rt_ok (server_sync g s sv).
Proof. intros. unfold server_sync. apply fold_left_inv; [intros; apply rt_server_sync_idx; assumption|assumption]. Qed.
Lemma rt_gc : forall s, rt_ok s -> rt_ok (gc s).
Proof.
  intros s H. unfold gc. cbv zeta.
  match goal with |- rt_ok (st_conns ?x (filter ?f (s_conns ?x))) => assert (H0 : rt_ok x) end.
  2:{ unfold rt_ok in *. cbn [s_conns st_conns]. apply Forall_forall. intros k Hk. apply filter_In in Hk.
      rewrite Forall_forall in H0. apply H0. tauto. }
  apply fold_left_inv.
  - intros a c Ha. unfold gc_server. destruct (sv_obj c || server_refs a (sv_inst c)); [exact Ha|].
    unfold rt_ok. cbn [s_conns st_reg st_conns st_servers].
    apply (Forall_map_if _ conn_rt (fun k => N.eqb (k_sv k) (sv_inst c)) (fun k => k_with_svw k VNone)); [exact Ha|]. intros k Hk; exact Hk.
  - apply fold_left_inv; [|exact H]. intros a c Ha. unfold gc_client.
    destruct (cl_obj c || client_refs a (cl_inst c)); [exact Ha|].
    assert (H1 : rt_ok (upd_conns_of_client (st_clients a (filter (fun x => negb (cl_inst x =? cl_inst c)) (s_clients a))) (cl_inst c) (fun k => k_with_cv k VNone))).
    { unfold upd_conns_of_client, rt_ok. cbn [s_conns st_conns st_clients].
      apply (Forall_map_if _ conn_rt (fun k => N.eqb (k_cl k) (cl_inst c)) (fun k => k_with_cv k VNone)); [exact Ha|]. intros k Hk; exact Hk. }
    match goal with |- context [index_of ?x ?l ?i] => destruct (index_of x l i) end; exact H1.
Qed.
Lemma rt_client_reclaim : forall s cl, rt_ok s -> rt_ok (client_reclaim s cl).
Proof. intros s cl H. unfold client_reclaim. apply rt_st_conns_map; [exact H|]. intros k Hk. apply conn_rt_req_same; exact Hk. Qed.
Lemma rt_server_reclaim : forall s sv, rt_ok s -> rt_ok (server_reclaim s sv).
Proof.
  intros s sv H. unfold server_reclaim. apply rt_st_conns_map; [exact H|].
  intros k [H1 H2]. split; [exact H1|]. cbn [k_with_ch k_ch k_cl mk_conn].
  apply Forall_forall. intros x Hx. apply in_map_iff in Hx. destruct Hx as [y [<- Hy]].
  rewrite Forall_forall in H2. exact (H2 y Hy).
Qed.
Lemma rt_client_loan : forall g s cl hid, rt_ok s -> rt_ok (fst (client_loan g s cl hid)).
Proof.
  intros g s cl hid H. unfold client_loan.
  destruct (get_client s cl); [|exact H].
  destruct (N.eqb (ML g) (cl_loans c)); [exact H|].
  pose proof (rt_client_reclaim s cl H) as H1.
  destruct (get_client (client_reclaim s cl) cl); [|exact H1].
  destruct (N.leb _ _); [exact H1|]. destruct (N.leb _ _); [exact H1|]. destruct (cl_avail c0); [exact H1|].
  unfold fresh. cbn [fst snd]. exact H1.
Qed.
Lemma try_send_in : forall A ovf cap (q : list A) m q' ev x, try_send ovf cap q m = Some (q', ev) -> In x q' -> x = m \/ In x q.
Proof.
  intros A ovf cap q m q' ev x. unfold try_send.
  destruct (negb ovf && N.leb cap (lenN q)); [discriminate|].
  destruct (N.leb cap (lenN q)).
  - destruct q as [|o t]; intro E; inversion E; subst; intro Hin.
    + destruct Hin as [<- | []]. left; reflexivity.
    + apply in_app_or in Hin. destruct Hin as [Hin | [<- | []]]; [right; right; exact Hin|left; reflexivity].
  - intro E; inversion E; subst. intro Hin. apply in_app_or in Hin. destruct Hin as [Hin | [<- | []]]; [right; exact Hin|left; reflexivity].
Qed.
Lemma rt_deliver_request : forall g cl m acc k, q_cl m = cl -> rt_ok (fst acc) -> rt_ok (fst (deliver_request g cl m acc k)).
Proof.
  intros g cl m [s n] k Hm H. unfold deliver_request. cbn [fst] in *.
  destruct (get_conn s cl (k_sv k)) as [k1|] eqn:Eg; [|exact H].
  pose proof (get_conn_rt s cl (k_sv k) k1 H Eg) as [[A B] [C D]].
  destruct (try_send _ _ _ _) as [[q ev]|] eqn:Et; [|exact H].
  cbn [fst].
  assert (H1 : rt_ok (upd_conn s cl (k_sv k1) (fun k0 => k_with_req k0 q (k_rbor k0) (k_rcomp k0)))).
  { apply rt_upd_conn; [exact H|]. intros k0 Hk0 [A0 B0]. split; [|exact B0].
    cbn [k_with_req k_rsub k_cl mk_conn]. intros x Hx. destruct (try_send_in _ _ _ _ _ _ _ x Et Hx) as [-> | Hin].
    - rewrite Hk0. exact Hm.
    - rewrite Hk0, <- C. apply A. exact Hin. }
  destruct ev; exact H1.
Qed.
Lemma rt_client_send : forall g s m, rt_ok s -> rt_ok (fst (client_send g s m)).
Proof.
  intros g s m H. unfold client_send.
  destruct (get_client s (q_cl m)); [|exact H].
  destruct (N.leb _ _); [exact H|].
  unfold fresh. cbv zeta. cbn [fst snd].
  match goal with |- context [fold_left ?f ?l ?a0] =>
    assert (HF : rt_ok (fst (fold_left f l a0))) end.
  { apply fold_left_inv; [intros a b Ha; apply rt_deliver_request; [reflexivity|assumption]|].
    cbn [fst]. apply rt_client_reclaim.
    apply rt_st_conns_map; [apply rt_client_sync; exact H|]. intros k Hk. apply k_map_state_rt; exact Hk. }
  match goal with |- context [fold_left ?f ?l ?a0] => destruct (fold_left f l a0) as [s2 n2] end.
  cbn [fst] in *. exact HF.
Qed.
Lemma rt_pend_drop : forall s p, rt_ok s -> rt_ok (pend_drop s p).
Proof.
  intros s p H. unfold pend_drop, request_release.
  apply rt_upd_client. apply rt_st_conns_map; [exact H|]. intros k Hk. apply k_map_state_rt; exact Hk.
Qed.
Lemma rt_pend_hint : forall s p, rt_ok s -> rt_ok (pend_hint s p).
Proof. intros s p H. unfold pend_hint. apply rt_st_conns_map; [exact H|]. intros k Hk. apply k_map_state_rt; exact Hk. Qed.
Lemma rt_response_release : forall s a b c m, rt_ok s -> rt_ok (response_release s a b c m).
Proof.
  intros s a b c m H. unfold response_release. apply rt_upd_conn; [exact H|].
  intros k _ Hk. destruct (view_on (k_cv k)); [|exact Hk].
  apply k_set_chan_rt; [exact Hk|]. exact (k_chan_rt k c Hk).
Qed.

(* polling: the state stays well-routed, and a returned response was queued in a connection of `cl` *)
Definition polled (cl : N) (k : conn) : Prop := conn_rt k /\ k_cl k = cl.
Lemma rt_poll_retained : forall g cl ch l s, rt_ok s -> Forall (polled cl) l ->
  rt_ok (fst (poll_retained g s cl ch l)) /\
  (forall sv m, snd (poll_retained g s cl ch l) = R1Some sv m -> p_ocl m = cl).
Proof.
  induction l as [|k t IH]; intros s H Hl; cbn [poll_retained]; [split; [exact H|intros; discriminate]|].
  inversion Hl as [|? ? [Hk Hc] Ht]; subst.
  destruct (N.eqb _ _); [apply IH; assumption|].
  pose proof (k_chan_rt k ch Hk) as A.
  destruct (c_sub (k_chan k ch)) as [|m q] eqn:Es.
  - apply IH; [|exact Ht]. destruct (existsb _ _); [exact H|]. apply rt_upd_conn; [exact H|]. intros k0 _ Hk0; exact Hk0.
  - cbn [fst snd]. split.
    + apply rt_upd_conn; [exact H|]. intros k0 Hk0 Hr0. apply k_set_chan_rt; [exact Hr0|].
      intros x Hx. cbn [c_sub mk_chan] in Hx. rewrite Hk0. apply A. rewrite Es. right; exact Hx.
    + intros sv m0 E. inversion E; subst. apply A. rewrite Es. left; reflexivity.
Qed.
Lemma rt_poll_all : forall g cl ch l s a b, rt_ok s -> Forall (polled cl) l ->
  rt_ok (fst (poll_all g s cl ch l a b)) /\
  (forall sv m, snd (poll_all g s cl ch l a b) = R1Some sv m -> p_ocl m = cl).
Proof.
  induction l as [|k t IH]; intros s a b H Hl; cbn [poll_all].
  { split; [exact H|]. intros sv m E. destruct (b && a); discriminate. }
  inversion Hl as [|? ? [Hk Hc] Ht]; subst.
  pose proof (k_chan_rt k ch Hk) as A.
  destruct (c_sub (k_chan k ch)) as [|m q] eqn:Es; [apply IH; assumption|].
  destruct (N.leb _ _); [apply IH; assumption|].
  cbn [fst snd]. split.
  - apply rt_upd_conn; [exact H|]. intros k0 Hk0 Hr0. apply k_set_chan_rt; [exact Hr0|].
    intros x Hx. cbn [c_sub mk_chan] in Hx. rewrite Hk0. apply A. rewrite Es. right; exact Hx.
  - intros sv m0 E. inversion E; subst. apply A. rewrite Es. left; reflexivity.
Qed.
Lemma conns_in_order_polled : forall s cl ord p, rt_ok s -> Forall (polled cl) (conns_in_order s cl ord p).
Proof.
  intros s cl ord p H. unfold conns_in_order. apply Forall_forall. intros k Hk. apply in_flat_map in Hk.
  destruct Hk as [sv [_ Hk]]. destruct (get_conn s cl sv) as [k1|] eqn:E; [|destruct Hk].
  destruct (p k1); [|destruct Hk]. destruct Hk as [<- | []].
  destruct (get_conn_rt _ _ _ _ H E) as [A [B _]]. split; assumption.
Qed.
Lemma rt_client_rcv1 : forall g s cl ch ord, rt_ok s ->
  rt_ok (fst (client_rcv1 g s cl ch ord)) /\
  (forall sv m, snd (client_rcv1 g s cl ch ord) = R1Some sv m -> p_ocl m = cl).
Proof.
  intros g s cl ch ord H. unfold client_rcv1.
  pose proof (rt_poll_retained g cl ch (conns_in_order s cl ord (fun k => view_retained (k_cv k))) s H (conns_in_order_polled _ _ _ _ H)) as [H1 H2].
  destruct (poll_retained _ _ _ _ _) as [s1 r]. cbn [fst snd] in *.
  destruct r as [| |sv0 m0].
  - apply rt_poll_all; [exact H1|apply conns_in_order_polled; exact H1].
  - split; [exact H1|intros; discriminate].
  - split; [exact H1|exact H2].
Qed.
Lemma rt_pend_receive : forall fuel g s p ord, rt_ok s ->
  rt_ok (fst (pend_receive fuel g s p ord)) /\
  (forall sv m, snd (pend_receive fuel g s p ord) = PRSome sv m -> p_ocl m = pn_cl p).
Proof.
  induction fuel as [|f IH]; intros g s p ord H; cbn [pend_receive]; [split; [exact H|intros; discriminate]|].
  pose proof (rt_client_rcv1 g (client_sync g s (pn_cl p)) (pn_cl p) (q_ch (pn_msg p)) ord (rt_client_sync _ _ _ H)) as [H1 H2].
  destruct (client_rcv1 _ _ _ _ _) as [s1 r]. cbn [fst snd] in *.
  destruct r as [| |sv0 m0]; try (split; [exact H1|intros; discriminate]).
  destruct (N.eqb _ _).
  - cbn [fst snd]. split; [exact H1|]. intros sv m E. inversion E; subst. apply (H2 _ _ eq_refl).
  - apply IH. apply rt_response_release; exact H1.
Qed.

(* server side *)
Lemma conn_rt_rsub_tl : forall k m q b c, conn_rt k -> k_rsub k = m :: q -> forall k0, k_cl k0 = k_cl k -> conn_rt k0 -> conn_rt (k_with_req k0 q b c).
Proof.
  intros k m q b c [A _] Es k0 Hc [A0 B0]. split; [|exact B0].
  cbn [k_with_req k_rsub k_cl mk_conn]. intros x Hx. rewrite Hc. apply A. rewrite Es. right; exact Hx.
Qed.
Lemma rt_act_drop : forall s a, rt_ok s -> rt_ok (act_drop s a).
Proof.
  intros s a H. unfold act_drop.
  match goal with |- context [act_conn ?x _ _] => assert (H1 : rt_ok x) end.
  { apply rt_upd_conn; [exact H|]. intros k _ Hk. destruct (view_on (k_svw k)); [|exact Hk]. apply conn_rt_req_same; exact Hk. }
  destruct (act_conn _ _ _); [|exact H1]. apply rt_upd_conn; [exact H1|]. intros k _ Hk. apply k_map_state_rt; exact Hk.
Qed.
Lemma rt_spoll_retained : forall g sv l s, rt_ok s -> Forall conn_rt l -> rt_ok (fst (spoll_retained g s sv l)).
Proof.
  induction l as [|k t IH]; intros s H Hl; cbn [spoll_retained]; [exact H|].
  inversion Hl as [|? ? Hk Ht]; subst.
  destruct (N.eqb _ _); [apply IH; assumption|].
  destruct (k_rsub k) as [|m q] eqn:Es.
  - apply IH; [|exact Ht]. destruct (nonempty _); [exact H|]. apply rt_upd_conn; [exact H|]. intros k0 _ Hk0; exact Hk0.
  - cbn [fst]. apply rt_upd_conn; [exact H|]. intros k0 Hk0 Hr0. apply (conn_rt_rsub_tl k m q _ _ Hk Es k0 Hk0 Hr0).
Qed.
Lemma rt_spoll_all : forall g sv l s a b, rt_ok s -> Forall conn_rt l -> rt_ok (fst (spoll_all g s sv l a b)).
Proof.
  induction l as [|k t IH]; intros s a b H Hl; cbn [spoll_all]; [exact H|].
  inversion Hl as [|? ? Hk Ht]; subst.
  destruct (k_rsub k) as [|m q] eqn:Es; [apply IH; assumption|].
  destruct (N.leb _ _); [apply IH; assumption|].
  cbn [fst]. apply rt_upd_conn; [exact H|]. intros k0 Hk0 Hr0. apply (conn_rt_rsub_tl k m q _ _ Hk Es k0 Hk0 Hr0).
Qed.
Lemma sconns_in_order_rt : forall s sv ord p, rt_ok s -> Forall conn_rt (sconns_in_order s sv ord p).
Proof.
  intros s sv ord p H. unfold sconns_in_order. apply Forall_forall. intros k Hk. apply in_flat_map in Hk.
  destruct Hk as [cl [_ Hk]]. destruct (get_conn s cl sv) as [k1|] eqn:E; [|destruct Hk].
  destruct (p k1); [|destruct Hk]. destruct Hk as [<- | []]. exact (proj1 (get_conn_rt _ _ _ _ H E)).
Qed.
Lemma rt_server_rcv1 : forall g s sv ord, rt_ok s -> rt_ok (fst (server_rcv1 g s sv ord)).
Proof.
  intros g s sv ord H. unfold server_rcv1.
  pose proof (rt_spoll_retained g sv (sconns_in_order s sv ord (fun k => view_retained (k_svw k))) s H (sconns_in_order_rt _ _ _ _ H)) as H1.
  destruct (spoll_retained _ _ _ _) as [s1 r]. cbn [fst] in H1.
  destruct r; try exact H1. apply rt_spoll_all; [exact H1|apply sconns_in_order_rt; exact H1].
Qed.
Lemma rt_server_receive : forall fuel g s sv slot ord, rt_ok s -> rt_ok (fst (server_receive fuel g s sv slot ord)).
Proof.
  induction fuel as [|f IH]; intros g s sv slot ord H; cbn [server_receive]; [exact H|].
  pose proof (rt_server_rcv1 g (server_sync g s sv) sv ord (rt_server_sync _ _ _ H)) as H1.
  destruct (server_rcv1 _ _ _ _) as [s1 r]. cbn [fst] in H1.
  destruct r as [| |cl m]; try exact H1.
  destruct (match get_server s1 sv with Some srv => index_of cl (sv_conns srv) 0 | None => None end).
  - unfold fresh. cbn [fst snd].
    match goal with |- context [if ?b then _ else _] => destruct b end; [|exact H1].
    apply IH. apply rt_act_drop. exact H1.
  - destruct (faf g); [unfold fresh; cbn [fst snd]; exact H1|].
    apply IH. apply rt_upd_conn; [exact H1|]. intros k _ Hk. destruct (view_on (k_svw k)); [|exact Hk]. apply conn_rt_req_same; exact Hk.
Qed.
Lemma rt_act_loan : forall g s a v, rt_ok s -> rt_ok (fst (act_loan g s a v)).
Proof.
  intros g s a v H. unfold act_loan.
  destruct (N.leb _ _); [exact H|].
  pose proof (rt_server_reclaim (set_act_loans s (ac_uid a) (fun n => n + 1)) (ac_sv a) H) as H1.
  destruct (get_server _ _); [|exact H1].
  destruct (N.leb _ _); [exact H1|]. destruct (N.leb _ _); [exact H1|].
  unfold fresh. cbn [fst snd]. exact H1.
Qed.

(* the one hypothesis: the connection a response is delivered into belongs to the client whose
   request the response answers (false exactly in the known defect class) *)
Definition send_ok (g : cfg) (s : state) (r : rloanrec) : Prop := send_okb g s r = true.
Lemma rt_rloan_send : forall g s r, send_ok g s r -> rt_ok s -> rt_ok (rloan_send g s r).
Proof.
  intros g s r Hs H. unfold rloan_send, rloan_release. apply rt_upd_server.
  match goal with |- rt_ok (set_act_loans ?x _ _) => change (rt_ok x) end.
  pose proof (rt_server_sync g s (rl_sv r) H) as H0.
  destruct (rl_idx r) as [i|] eqn:Ei; [|exact H0].
  pose proof (rt_server_reclaim _ (rl_sv r) H0) as H1.
  unfold send_ok, send_okb in Hs. rewrite Ei in Hs.
  destruct (act_conn _ _ _) as [k|] eqn:Ea; [|exact H1]. apply N.eqb_eq in Hs.
  unfold fresh. cbn [fst snd].
  destruct (try_send _ _ _ _) as [[q ev]|] eqn:Et; [|exact H1].
  match goal with |- rt_ok (match ev with Some _ => _ | None => ?x end) => assert (H2 : rt_ok x) end.
  { apply rt_upd_server. apply rt_upd_conn; [exact H1|]. intros k0 Hk0 Hr0. apply k_set_chan_rt; [exact Hr0|].
    intros x Hx. cbn [c_sub mk_chan] in Hx. destruct (try_send_in _ _ _ _ _ _ _ x Et Hx) as [-> | Hin].
    - cbn [p_ocl]. rewrite Hk0. symmetry. exact Hs.
    - assert (Hk : conn_rt k /\ k_cl k = k_cl k0).
      { unfold act_conn in Ea. destruct (get_server _ _); [|discriminate]. destruct (nthN _ _ _) as [c|]; [|discriminate].
        destruct (get_conn_rt _ _ _ _ H1 Ea) as [A [B _]]. split; [exact A|]. rewrite Hk0.
        (* k_cl k0 = k_cl k by the key of upd_conn *) reflexivity. }
      destruct Hk as [Hk Hc]. rewrite <- Hc. apply (k_chan_rt k (rl_ch r) Hk). exact Hin. }
  destruct ev; exact H2.
Qed.

Lemma rt_client_create : forall g s i, rt_ok s -> rt_ok (fst (client_create g s i)).
Proof.
  intros g s i H. unfold client_create. destruct (nthN _ _ _); [exact H|]. destruct (first_free _ _); [|exact H].
  unfold fresh. cbn [fst snd].
  match goal with |- rt_ok (st_reg ?x _ _ _ _ _) => change (rt_ok x) end.
  apply rt_client_sync. exact H.
Qed.
Lemma rt_server_create : forall g s i, rt_ok s -> rt_ok (fst (server_create g s i)).
Proof.
  intros g s i H. unfold server_create. destruct (nthN _ _ _); [exact H|]. destruct (N.leb _ _); [exact H|].
  unfold fresh. cbn [fst snd].
  match goal with |- rt_ok (st_reg ?x _ _ _ _ _) => change (rt_ok x) end.
  apply rt_server_sync. exact H.
Qed.
Lemma rt_do_q : forall g s i b, rt_ok s -> rt_ok (fst (do_q g s i b)).
Proof.
  intros g s i b H. unfold do_q. destruct (slot_inst _ _); [|exact H].
  pose proof (rt_client_loan g (st_hid s (s_hid s + 1)) n (s_hid s) H) as H1.
  destruct (client_loan _ _ _ _) as [s1 r]. cbn [fst] in H1.
  destruct r as [[e|m]|]; try exact H1.
  pose proof (rt_client_send g s1 m H1) as H2.
  destruct (client_send g s1 m) as [s2 [e|p]]; cbn [fst] in *; [exact H2|].
  destruct b; cbn [fst]; [apply rt_pend_drop; exact H2|exact H2].
Qed.

(* the hypothesis on one step: whatever response the step sends goes into a connection of the
   client whose request it answers *)
Definition step_send_ok (g : cfg) (s : state) (o : op) : Prop := step_send_okb g s o = true.

Lemma step_rt : forall g ord s o, step_send_ok g s o -> rt_ok s -> rt_ok (fst (step g ord s o)).
Proof.
  intros g ord s o Hso H. unfold step.
  match goal with |- context [let '(a, b) := ?e in _] => destruct e as [s1 ob] eqn:E end.
  cbn [fst]. apply rt_gc.
  destruct o.
  - pose proof (rt_client_create g s i H) as H1. rewrite E in H1. exact H1.
  - unfold client_drop in E. destruct (nthN _ _ _); inversion E; subst; exact H.
  - pose proof (rt_server_create g s i H) as H1. rewrite E in H1. exact H1.
  - unfold server_drop in E. destruct (nthN _ _ _); inversion E; subst; exact H.
  - destruct (slot_inst _ _); [|inversion E; subst; exact H].
    pose proof (rt_client_loan g (st_hid s (s_hid s + 1)) n (s_hid s) H) as H1.
    destruct (client_loan _ _ _ _) as [s2 r]. cbn [fst] in H1.
    destruct r as [[e|m1]|]; inversion E; subst; exact H1.
  - destruct (s_loans s) as [|l t]; [inversion E; subst; exact H|].
    pose proof (rt_client_send g (st_loans s t) (ln_msg l) H) as H1.
    destruct (client_send _ _ _) as [s2 [e|p1]]; cbn [fst] in H1; inversion E; subst; exact H1.
  - destruct (s_loans s) as [|l t]; inversion E; subst; exact H.
  - pose proof (rt_do_q g s i false H) as H1. rewrite E in H1. exact H1.
  - pose proof (rt_do_q g s i true H) as H1. rewrite E in H1. exact H1.
  - destruct (nth_opt (s_pends s) k) as [p0|]; [|inversion E; subst; exact H].
    pose proof (proj1 (rt_pend_receive (rcv_fuel s) g s p0 ord H)) as H1.
    destruct (pend_receive _ _ _ _ _) as [s2 r]. cbn [fst] in H1.
    destruct r; inversion E; subst; exact H1.
  - destruct (nth_opt _ _); inversion E; subst; [|exact H]. apply rt_pend_drop. exact H.
  - destruct (nth_opt _ _); inversion E; subst; [|exact H]. apply rt_pend_hint. exact H.
  - destruct (nth_opt _ _); inversion E; subst; [|exact H]. apply rt_response_release. exact H.
  - destruct (slot_inst _ _); [|inversion E; subst; exact H].
    pose proof (rt_server_receive (srv_fuel s) g s n j ord H) as H1.
    destruct (server_receive _ _ _ _ _ _) as [s2 r]. cbn [fst] in H1.
    destruct r; inversion E; subst; exact H1.
  - destruct (slot_inst _ _); [|inversion E; subst; exact H].
    unfold server_has_requests in E. inversion E; subst. apply rt_server_sync. exact H.
  - unfold step_send_ok, step_send_okb in Hso. destruct (nth_opt _ _) as [ar|]; [|inversion E; subst; exact H].
    match type of E with context [act_loan g ?x ar ?v] =>
      pose proof (rt_act_loan g x ar v H) as H1; destruct (act_loan g x ar v) as [s2 [e|r]] eqn:EL end;
      cbn [fst] in H1; inversion E; subst; [exact H1|]. apply rt_rloan_send; [exact Hso|exact H1].
  - destruct (nth_opt _ _) as [ar|]; [|inversion E; subst; exact H].
    match type of E with context [act_loan g ?x ar ?v] => pose proof (rt_act_loan g x ar v H) as H1; destruct (act_loan g x ar v) as [s2 [e|r]] end;
      cbn [fst] in H1; inversion E; subst; exact H1.
  - unfold step_send_ok, step_send_okb in Hso. destruct (s_rloans s) as [|r t]; inversion E; subst; [exact H|]. apply rt_rloan_send; assumption.
  - destruct (s_rloans s) as [|r t]; inversion E; subst; exact H.
  - destruct (nth_opt _ _); inversion E; subst; [|exact H]. apply rt_act_drop. exact H.
Qed.

(* histories in which no response is sent into a connection of another client *)
Inductive reach_ok (g : cfg) : state -> Prop :=
| reach_ok0 : reach_ok g (init g)
| reach_okS : forall s ord o, reach_ok g s -> step_send_ok g s o -> reach_ok g (fst (step g ord s o)).
Lemma reach_ok_reach : forall g s, reach_ok g s -> reach g s.
Proof. intros g s H. induction H; [constructor|apply reachS; assumption]. Qed.

Definition rlog_cl (s : state) : Prop := forall p m, In (p, m) (s_rlog s) -> p_ocl m = pn_cl p.

Lemma step_rlog_cl : forall g ord s o, rt_ok s -> rlog_cl s -> rlog_cl (fst (step g ord s o)).
Proof.
  intros g ord s o Hrt Hs. unfold rlog_cl. intros p m Hin.
  destruct (step_rlog_cases g ord s o) as [Hsame | [p0 [s0 [sv [m0 [fuel [HP Happ]]]]]]].
  - rewrite Hsame in Hin. apply Hs; exact Hin.
  - rewrite Happ in Hin. apply in_app_or in Hin. destruct Hin as [Hin | [Heq | []]].
    + apply Hs; exact Hin.
    + inversion Heq; subst.
      pose proof (proj2 (rt_pend_receive fuel g s p ord Hrt)) as H2. apply (H2 sv). rewrite HP. reflexivity.
Qed.

Theorem routing_reach_ok : forall g s, reach_ok g s ->
  forall p m, In (p, m) (s_rlog s) -> p_rid m = q_rid (pn_msg p) /\ p_ocl m = pn_cl p.
Proof.
  intros g s H.
  assert (HI : rt_ok s /\ rlog_cl s).
  { induction H as [|s ord o Hr [IH1 IH2] Hso].
    - split; [constructor|intros p m []].
    - split; [apply step_rt; assumption|apply step_rlog_cl; assumption]. }
  intros p m Hin. split; [apply (rlog_ok_reach g s (reach_ok_reach g s H) p m Hin)|apply (proj2 HI p m Hin)].
Qed.

(* the hypothesis is not vacuous: the whole stale-response / channel-reuse history satisfies it *)
Fixpoint all_send_okb (g : cfg) (s : state) (ops : list op) : bool :=
  match ops with
  | [] => true
  | o :: t => step_send_okb g s o && all_send_okb g (fst (step g ord_all s o)) t
  end.
Lemma reach_ok_run_from : forall g ops s, reach_ok g s -> all_send_okb g s ops = true -> reach_ok g (run_from g s ops).
Proof.
  induction ops as [|o t IH]; intros s H Ha; cbn [run_from fold_left]; [exact H|].
  cbn [all_send_okb] in Ha. apply andb_prop in Ha. destruct Ha as [Ho Ht]. apply IH; [apply reach_okS; assumption|exact Ht].
Qed.
(* ... the channel-reuse history with the stale response satisfies it, and so do all histories
   without client churn that the correspondence runs exercise; the known-defect history does not *)
Lemma w_reuse_ok : reach_ok cfg3 (run cfg3 (w_reuse ++ [Pr 0])) /\ length (s_rlog (run cfg3 (w_reuse ++ [Pr 0]))) = 1%nat.
Proof. split; [apply reach_ok_run_from; [constructor|vm_compute; reflexivity]|vm_compute; reflexivity]. Qed.
Lemma w_routing_not_ok : all_send_okb cfg1 (init cfg1) w_routing = false.
Proof. vm_compute. reflexivity. Qed.


