(* C06, atomicity part: a create that fails after it has created the static config removes it again -- as long as create()
   keeps the ownership of the static config until the creation is complete (params.p_own_static). *)
From V Require Import model.Base model.Conc model.Service proofs.ServiceProofs proofs.ServiceRegistryProofs.
From Coq Require Import ZifyBool ZifyNat ZifyN.

Lemma calm_cur g g' l l' : calm g g' l l' -> cur g' = cur g.
Proof. intros ((_ & E & _) & _). exact E. Qed.

(* what a step does to the linked name *)
Definition cur_effect (t : nat) (g g' : gst) (l' : lst) : Prop :=
  cur g' = cur g \/ cur g' = None \/
  (cur g = None /\ cur g' = Some (length (insts g)) /\ creating (at_pc l') = Some (length (insts g)) /\
   exists x0, get_inst g' (length (insts g)) = Some x0 /\ i_owner x0 = t /\ i_dy x0 <> DFinal).

Lemma step_cur P t g l g' l' es : step P t g l = Some (g', l', es) -> cur_effect t g g' l'.
Proof.
  unfold step, with_inst, cur_effect. intros H.
  destruct (at_pc l) eqn:Epc.
  all: destruct (cur g) eqn:Ecur.
  all: step_cases H.
  all: try (inversion H; subst; left; first [reflexivity | assumption | (cbn; assumption)]).
  all: try (calm_of H; left; rewrite (calm_cur _ _ _ _ H); first [reflexivity | assumption | (cbn; assumption)]).
  all: try (calm_of H; right; left; rewrite (calm_cur _ _ _ _ H); reflexivity).
  all: try (unfold_helpers H; try discriminate; inversion H; subst; cbn; auto; fail).
  (* CStOpen *)
  all: inversion H; subst; right; right; cbn; repeat split; auto;
       eexists; split; [apply get_add_inst_new|cbn; split; auto; discriminate].
Qed.

(* a creator either stays a creator of its instance, or finishes it, or unlinks the name *)
Lemma step_creating P t g l g' l' es i :
  step P t g l = Some (g', l', es) -> p_own_static P = true -> creating (at_pc l) = Some i ->
  creating (at_pc l') = Some i \/ final g' i \/ cur g' = None.
Proof.
  unfold step, with_inst. intros H Hown Hc.
  destruct (at_pc l) eqn:Epc; cbn in Hc; try discriminate; inversion Hc; subst.
  all: try rewrite Hown in H.
  all: step_cases H.
  all: try (inversion H; subst; left; reflexivity).
  all: try (calm_of H; right; right; rewrite (calm_cur _ _ _ _ H); reflexivity).
  all: try (unfold call_succeeds, op_done, op_done_k in H; inversion H; subst; right; left;
            eexists; split; [unfold get_inst, add_log; cbn [insts]; eapply get_set_inst_same; eassumption|reflexivity]).
Qed.

Definition NInv (c : cfg gst lst) : Prop :=
  forall i, cur (fst c) = Some i ->
    exists x, get_inst (fst c) i = Some x /\ (i_dy x = DFinal \/ creating (at_pc (snd c (i_owner x))) = Some i).

Lemma ninv_init progs : NInv (init progs).
Proof. intros i H. discriminate. Qed.

Theorem nstep_inv P t c c' e :
  p_own_static P = true -> NInv c -> step1 (step P) t c = Some (c', e) -> NInv c'.
Proof.
  intros Hown. destruct c as [g ls]. intros HN Hs. unfold step1 in Hs. cbn [fst snd] in *.
  destruct (step P t g (ls t)) as [[[g' l'] e']|] eqn:Est; [|discriminate].
  inversion Hs; subst c' e; clear Hs. unfold NInv in *. cbn [fst snd] in *. intros i Hci.
  pose proof (step_mono _ _ _ _ _ _ _ Est) as (Hle & _).
  destruct (step_cur _ _ _ _ _ _ _ Est) as [Ec|[Ec|(Ec0 & Ec1 & Hcr & x0 & Hx0 & Ho & Hnf)]].
  - rewrite Ec in Hci. destruct (HN i Hci) as (x & Hx & Hor).
    destruct (Hle i x Hx) as (x' & Hx' & (_ & Eo & _ & Hrank)).
    exists x'. split; auto. destruct Hor as [Hd|Hcre].
    + left. rewrite Hd in Hrank. destruct (i_dy x'); cbn in Hrank; auto; lia.
    + rewrite Eo. destruct (Nat.eq_dec (i_owner x) t) as [E|N].
      * rewrite E in *. rewrite upd_l_same.
        destruct (step_creating _ _ _ _ _ _ _ i Est Hown Hcre) as [A|[(z & Hz & Hzd)|A]].
        -- right. exact A.
        -- left. congruence.
        -- congruence.
      * rewrite upd_l_other by auto. right. exact Hcre.
  - congruence.
  - rewrite Ec1 in Hci. inversion Hci; subst i. exists x0. split; auto. right. rewrite Ho, upd_l_same. exact Hcr.
Qed.

Theorem ninv_reachable P progs c : p_own_static P = true -> reachable (step P) (init progs) c -> NInv c.
Proof.
  intros Hown. apply (inv_reachable gst lst ev (step P) NInv).
  - apply ninv_init.
  - intros t c0 c' e HI Hs. eapply nstep_inv; eauto.
Qed.

(* a create that has returned (its thread is not inside a creation any more) without completing its instance has left
   no static config of that instance behind: the name is free, or linked to a completely initialised instance, or to an
   instance whose creator is still at work *)
Theorem failed_create_leaves_no_static P progs g ls i x :
  p_own_static P = true -> reachable (step P) (init progs) (g, ls) ->
  get_inst g i = Some x -> i_dy x <> DFinal -> creating (at_pc (ls (i_owner x))) <> Some i -> cur g <> Some i.
Proof.
  intros Hown Hr Hx Hnf Hnc Hci. destruct (ninv_reachable P progs (g, ls) Hown Hr i Hci) as (z & Hz & Hor).
  cbn [fst snd] in *. assert (z = x) by congruence. subst z. destruct Hor; contradiction.
Qed.
