(* Publisher-side functions of model/Port.v preserve the world invariant (proofs/PortInv.v). *)
From V Require Import model.Base model.Conn model.Port proofs.ListLemmas proofs.ConnProofs proofs.PortProofs proofs.PortView proofs.PortInv.
From Coq Require Import Lia.
Local Open Scope nat_scope.

(* ---------------------------------------------------------------------------------------- *)
(* quiet steps: the table and the attachment of the sender do not change                      *)
(* ---------------------------------------------------------------------------------------- *)
Record PubQuiet (p : nat) (w w' : world) : Prop := {
  pq_step : PubStep p w w';
  pq_tab : p_tab (getp w' p) = p_tab (getp w p);
  pq_conn : forall s c', getc w' p s = Some c' ->
            exists c, getc w p s = Some c /\ c_snd c' = c_snd c /\ c_B c' = c_B c /\ (c_snd c = false -> c' = c) }.

Lemma PubQuiet_refl p w : PubQuiet p w w.
Proof. constructor; [apply PubStep_refl|reflexivity|]. intros s c' H. exists c'. auto. Qed.

Lemma PubQuiet_trans p w1 w2 w3 : PubQuiet p w1 w2 -> PubQuiet p w2 w3 -> PubQuiet p w1 w3.
Proof.
  intros [a1 b1 c1] [a2 b2 c2]. constructor; [eapply PubStep_trans; eauto|congruence|].
  intros s c3 H3. destruct (c2 s c3 H3) as [cc2 [H2 [E2 [B2 F2]]]]. destruct (c1 s cc2 H2) as [cc1 [H1 [E1 [B1 F1]]]].
  exists cc1. splits; auto; [congruence|congruence|]. intros Hf. assert (c_snd cc2 = false) by congruence. rewrite F2 by assumption. now apply F1.
Qed.

Lemma PubQuiet_self H p w w' :
  InvG H w -> PubQuiet p w w' -> (pact w' p -> PubInv w' p) -> PubSelf w' p.
Proof.
  intros I Q P. pose proof (pq_step _ _ _ Q) as S.
  assert (Hpa : pact w' p <-> pact w p) by (apply (PubStep_pact _ _ _ _ S)).
  assert (Hgs : forall s, gets w' s = gets w s) by (intros s; apply (PubStep_gets _ _ _ _ S)).
  assert (Hsa : forall s, sact w' s <-> sact w s) by (intros s; unfold sact; rewrite Hgs; tauto).
  constructor.
  - exact P.
  - intros s c' Hc'. destruct (pq_conn _ _ _ Q s c' Hc') as [c [Hc _]]. rewrite (ps_len _ _ _ S), (ps_subs _ _ _ S). now apply (iv_conn_range _ _ I) in Hc.
  - intros s c' Hc'. destruct (pq_conn _ _ _ Q s c' Hc') as [c [Hc [_ [B _]]]]. rewrite B, Hgs. now apply (iv_conn_B _ _ I) in Hc.
  - intros i s Hp. rewrite (pq_tab _ _ _ Q), (ps_subs _ _ _ S), Hsa, Hgs. apply Hpa in Hp. now apply (iv_tab_slot _ _ I).
  - intros s c' Hp Hc' Hs. destruct (pq_conn _ _ _ Q s c' Hc') as [c [Hc [E _]]]. rewrite (pq_tab _ _ _ Q). apply Hpa in Hp.
    eapply (iv_snd_tab _ _ I); eauto; congruence.
  - intros s c' Hp Hs Hc' Hf. destruct (pq_conn _ _ _ Q s c' Hc') as [c [Hc [E [_ F]]]]. apply Hpa in Hp. apply Hsa in Hs.
    assert (Hcf : c_snd c = false) by congruence. rewrite (F Hcf) in *. rewrite Hgs, (PubStep_borrowed _ _ _ _ _ S), (ps_cfg _ _ _ S), (ps_n _ _ _ S).
    now apply (iv_fresh _ _ I).
  - intros x Hx Ho Hp Hs. rewrite (pq_tab _ _ _ Q). rewrite (ps_samples _ _ _ S) in Hx. apply Hpa in Hp. apply Hsa in Hs. subst p. now apply (iv_cover _ _ I).
Qed.

Lemma PubQuiet_inv H p w w' :
  InvG H w -> PubQuiet p w w' -> (pact w' p -> PubInv w' p) ->
  w_loans w' = w_loans w -> w_nloan w' = w_nloan w -> InvG H w'.
Proof.
  intros I Q P L1 L2. eapply PubStep_inv; [exact I|apply (pq_step _ _ _ Q)|eapply PubQuiet_self; eauto|].
  rewrite L1, L2, (ps_len _ _ _ (pq_step _ _ _ Q)). apply (iv_loan_ids _ _ I).
Qed.

(* basic quiet updates *)
Lemma pq_setp p w x' :
  p < length (w_pubs w) ->
  p_active x' = p_active (getp w p) -> p_slot x' = p_slot (getp w p) -> p_n x' = p_n (getp w p) -> p_tab x' = p_tab (getp w p) ->
  PubQuiet p w (setp w p x').
Proof.
  intros Hl E1 E2 E3 E4. constructor.
  - constructor; try reflexivity.
    + apply len_pubs_setp.
    + intros q Hq. apply getp_setp_other. congruence.
    + now rewrite getp_setp_same.
    + now rewrite getp_setp_same.
    + now rewrite getp_setp_same.
    + intros s c H1 H2. rewrite getc_setp. eauto.
  - now rewrite getp_setp_same.
  - intros s c' Hc. rewrite getc_setp in Hc. exists c'. auto.
Qed.

Lemma pq_setc p w s c c' :
  getc w p s = Some c -> c_snd c = true -> c_snd c' = true -> c_rcv c' = c_rcv c -> c_B c' = c_B c ->
  PubQuiet p w (setc w p s c').
Proof.
  intros Hc Hs Hs' Hr HB.
  destruct (setc_fields w p s c') as (F1 & F2 & F3 & F4 & F5 & F6 & F7 & F8 & F9).
  constructor.
  - constructor; auto.
    + now rewrite F4.
    + intros q Hq. apply getp_setc.
    + now rewrite getp_setc.
    + now rewrite getp_setc.
    + now rewrite getp_setc.
    + intros q Hq. apply loans_of_setc.
    + intros q t Hq. apply getc_setc_otherp. congruence.
    + intros t ct H1 H2. destruct (Nat.eq_dec t s) as [->|Hne].
      * rewrite getc_setc_eq, Hs'. cbn. rewrite H1 in Hc. inversion Hc; subst. exists c'. split; [reflexivity|congruence].
      * rewrite getc_setc_other by congruence. eauto.
  - now rewrite getp_setc.
  - intros t ct Ht. destruct (Nat.eq_dec t s) as [->|Hne].
    + rewrite getc_setc_eq, Hs' in Ht. cbn in Ht. inversion Ht; subst. exists c. splits; auto; [congruence|]. intros Hf. congruence.
    + rewrite getc_setc_other in Ht by congruence. exists ct. auto.
Qed.

Lemma ps_setp p w x' :
  p < length (w_pubs w) ->
  p_active x' = p_active (getp w p) -> p_slot x' = p_slot (getp w p) -> p_n x' = p_n (getp w p) ->
  PubStep p w (setp w p x').
Proof.
  intros Hl E1 E2 E3. constructor; try reflexivity.
  - apply len_pubs_setp.
  - intros q Hq. apply getp_setp_other. congruence.
  - now rewrite getp_setp_same.
  - now rewrite getp_setp_same.
  - now rewrite getp_setp_same.
  - intros s c H1 H2. rewrite getc_setp. eauto.
Qed.

Lemma ps_setc p w s c' :
  (forall c0, getc w p s = Some c0 -> c_rcv c0 = true -> c_rcv c' = true) ->
  PubStep p w (setc w p s c').
Proof.
  intros Hr. destruct (setc_fields w p s c') as (F1 & F2 & F3 & F4 & F5 & F6 & F7 & F8 & F9).
  constructor; auto.
  - now rewrite F4.
  - intros q Hq. apply getp_setc.
  - now rewrite getp_setc.
  - now rewrite getp_setc.
  - now rewrite getp_setc.
  - intros q Hq. apply loans_of_setc.
  - intros q t Hq. apply getc_setc_otherp. congruence.
  - intros t ct H1 H2. destruct (Nat.eq_dec t s) as [->|Hne].
    + rewrite getc_setc_eq. rewrite (Hr ct H1 H2). rewrite Bool.orb_true_r. eauto.
    + rewrite getc_setc_other by congruence. eauto.
Qed.

(* the view of p after "setc (setp w p x1) p s c1" *)
Lemma PubInv_after w p s x1 c1 :
  p < length (w_pubs w) -> c_snd c1 = true ->
  PubInvV (w_cfg w) x1 (loans_of w p) (fupd (fun t => getc w p t) s (Some c1)) (fun t => borrowed w p t) ->
  PubInv (setc (setp w p x1) p s c1) p.
Proof.
  intros Hl Hs I. unfold PubInv.
  destruct (setc_fields (setp w p x1) p s c1) as (F1 & _). rewrite F1. change (w_cfg (setp w p x1)) with (w_cfg w).
  rewrite getp_setc, getp_setp_same by exact Hl. rewrite loans_of_setc, loans_of_setp.
  eapply PubInvV_ext; [|exact I]. intros t _. split.
  - unfold fupd. destruct (Nat.eqb t s) eqn:E.
    + apply Nat.eqb_eq in E. subst. rewrite getc_setc_eq, Hs. reflexivity.
    + apply Nat.eqb_neq in E. rewrite getc_setc_other by congruence. apply getc_setp.
  - rewrite borrowed_setc. apply borrowed_setp.
Qed.

(* ---------------------------------------------------------------------------------------- *)
(* retrieve_returned_chunks                                                                   *)
(* ---------------------------------------------------------------------------------------- *)
Lemma fupd_fupd {A} (f : nat -> A) k a b j : fupd (fupd f k a) k b j = fupd f k b j.
Proof. unfold fupd. destruct (Nat.eqb j k); reflexivity. Qed.

Lemma reclaim_all_V cfg ls bf s fuel : forall x cf c x1 c1,
  cfg_sane cfg -> PubInvV cfg x ls cf bf -> In (Some s) (p_tab x) -> cf s = Some c ->
  reclaim_all fuel x c = (x1, c1) ->
  PubInvV cfg x1 ls (fupd cf s (Some c1)) bf
  /\ p_tab x1 = p_tab x /\ p_active x1 = p_active x /\ p_slot x1 = p_slot x /\ p_n x1 = p_n x
  /\ c_snd c1 = c_snd c /\ c_rcv c1 = c_rcv c /\ p_hist x1 = p_hist x /\ c_B c1 = c_B c.
Proof.
  induction fuel as [|f IH]; intros x cf c x1 c1 Hsane I Hin Hc Hr.
  - cbn in Hr. inversion Hr; subst. splits; auto.
    eapply PubInvV_ext; [|exact I]. intros t _. split; [|reflexivity]. unfold fupd. destruct (Nat.eqb t s) eqn:E; [apply Nat.eqb_eq in E; subst; auto|reflexivity].
  - cbn [reclaim_all] in Hr. destruct (c_reclaim c) as [c2 r] eqn:Er.
    destruct (c_reclaim_params _ _ _ Er) as (P1 & P2 & P3 & _).
    destruct r as [|o|].
    + inversion Hr; subst. splits; auto.
      eapply PubInvV_ext; [|exact I]. intros t _. split; [|reflexivity].
      assert (c1 = c) by (unfold c_reclaim in Er; destruct (c_comp c) as [|o t']; [inversion Er; auto|destruct (mem_off o (c_used c)); inversion Er]).
      subst. unfold fupd. destruct (Nat.eqb t s) eqn:E; [apply Nat.eqb_eq in E; subst; auto|reflexivity].
    + pose proof (V_reclaim cfg x ls cf bf s c c2 o Hsane I Hin Hc Er) as I2.
      assert (Hin2 : In (Some s) (p_tab (pub_release x o))) by exact Hin.
      destruct (IH (pub_release x o) (fupd cf s (Some c2)) c2 x1 c1 Hsane I2 Hin2 (fupd_same _ _ _) Hr) as (J & T & A & B & C & D & E & Hh & HB).
      splits; auto; try congruence.
      eapply PubInvV_ext; [|exact J]. intros t _. split; [|reflexivity]. symmetry. apply fupd_fupd.
    + exfalso. destruct (pv_conn _ _ _ _ _ I s Hin) as [c0 [Hc0 Ok]]. rewrite Hc in Hc0. inversion Hc0; subst.
      exact (reclaim_spec _ _ _ _ (co_inv _ _ _ _ Ok) Er).
Qed.

Lemma retrieve_from_ok H p : forall tab w,
  InvG H w -> pact w p -> (forall s, In (Some s) tab -> In (Some s) (p_tab (getp w p))) ->
  InvG H (retrieve_from w p tab) /\ PubQuiet p w (retrieve_from w p tab)
  /\ w_loans (retrieve_from w p tab) = w_loans w /\ w_nloan (retrieve_from w p tab) = w_nloan w
  /\ p_hist (getp (retrieve_from w p tab) p) = p_hist (getp w p).
Proof.
  induction tab as [|e t IH]; intros w I Hp Hsub.
  - cbn. splits; auto. apply PubQuiet_refl.
  - destruct e as [s|]; cbn [retrieve_from]; [|apply IH; auto; intros s Hs; apply Hsub; now right].
    destruct (getc w p s) as [c|] eqn:Ec; [|apply IH; auto; intros s' Hs; apply Hsub; now right].
    destruct (reclaim_all (length (c_comp c)) (getp w p) c) as [x1 c1] eqn:Er.
    pose proof (pact_lt _ _ Hp) as Hl.
    assert (Hin : In (Some s) (p_tab (getp w p))) by (apply Hsub; now left).
    pose proof (iv_pub _ _ I p Hp) as PI. unfold PubInv in PI.
    destruct (pv_conn _ _ _ _ _ PI s Hin) as [c0 [Hc0 Ok]]. rewrite Ec in Hc0. inversion Hc0; subst c0.
    destruct (reclaim_all_V _ _ _ s _ _ _ c x1 c1 (iv_cfg _ _ I) PI Hin Ec Er) as (J & T & A & B & C & D & E & Hh & HB).
    set (w1 := setc (setp w p x1) p s c1).
    assert (Q1 : PubQuiet p w w1).
    { eapply PubQuiet_trans; [apply (pq_setp p w x1); auto|].
      apply (pq_setc p (setp w p x1) s c c1); [now rewrite getc_setp|apply (co_snd _ _ _ _ Ok)|rewrite D; apply (co_snd _ _ _ _ Ok)|exact E|exact HB]. }
    assert (P1 : PubInv w1 p) by (apply PubInv_after; [exact Hl|rewrite D; apply (co_snd _ _ _ _ Ok)|exact J]).
    assert (L1 : w_loans w1 = w_loans w /\ w_nloan w1 = w_nloan w).
    { unfold w1. destruct (setc_fields (setp w p x1) p s c1) as (_ & _ & _ & _ & _ & F6 & _ & F8 & _). rewrite F6, F8. auto. }
    destruct L1 as [L1 L2].
    assert (I1 : InvG H w1) by (eapply PubQuiet_inv; eauto).
    assert (Hp1 : pact w1 p) by (apply (PubStep_pact _ _ _ _ (pq_step _ _ _ Q1)); exact Hp).
    destruct (IH w1 I1 Hp1) as (I2 & Q2 & L3 & L4 & Hh2).
    { intros s' Hs'. rewrite (pq_tab _ _ _ Q1). apply Hsub. now right. }
    splits; auto; try congruence; [eapply PubQuiet_trans; eauto|].
    rewrite Hh2. unfold w1. rewrite getp_setc, getp_setp_same by exact Hl. exact Hh.
Qed.

Lemma pub_retrieve_ok H p w :
  InvG H w -> pact w p ->
  InvG H (pub_retrieve w p) /\ PubQuiet p w (pub_retrieve w p)
  /\ w_loans (pub_retrieve w p) = w_loans w /\ w_nloan (pub_retrieve w p) = w_nloan w
  /\ p_hist (getp (pub_retrieve w p) p) = p_hist (getp w p)
  /\ comps_empty (pub_retrieve w p) p.
Proof.
  intros I Hp. destruct (retrieve_from_ok H p (p_tab (getp w p)) w I Hp (fun s h => h)) as (A & B & C & D & E).
  splits; auto. apply retrieve_empties_completion_queues.
Qed.

(* ---------------------------------------------------------------------------------------- *)
(* one delivery                                                                              *)
(* ---------------------------------------------------------------------------------------- *)
Lemma PubInv_after2 w p s x1 c1 :
  p < length (w_pubs w) -> c_snd c1 = true ->
  PubInvV (w_cfg w) x1 (loans_of w p) (fupd (fun t => getc w p t) s (Some c1)) (fun t => borrowed w p t) ->
  PubInv (setp (setc w p s c1) p x1) p.
Proof.
  intros Hl Hs I. unfold PubInv.
  destruct (setc_fields w p s c1) as (F1 & _ & _ & F4 & _).
  change (w_cfg (setp (setc w p s c1) p x1)) with (w_cfg (setc w p s c1)). rewrite F1.
  rewrite getp_setp_same by (rewrite F4; exact Hl). rewrite loans_of_setp, loans_of_setc.
  eapply PubInvV_ext; [|exact I]. intros t _. split.
  - rewrite getc_setp. unfold fupd. destruct (Nat.eqb t s) eqn:E.
    + apply Nat.eqb_eq in E. subst. rewrite getc_setc_eq, Hs. reflexivity.
    + apply Nat.eqb_neq in E. now rewrite getc_setc_other by congruence.
  - rewrite borrowed_setp. apply borrowed_setc.
Qed.

Lemma c_blocking_send_cases c o gi h r c1 sr :
  c_blocking_send c o gi h r = Val (c1, sr) ->
  (c1 = c /\ (sr = SNoReceiver \/ sr = SBlocks \/ sr = SUnableToDeliver)) \/ c_try_send c o gi = Val (c1, sr).
Proof.
  unfold c_blocking_send. destruct (negb (c_ovf c) && c_is_full c); [|auto].
  destruct (negb (c_is_connected c)); [intros E; inversion E; auto|].
  destruct (wait_loop _ h r 0) as [[|]|]; try (intros E; inversion E; auto 6).
Qed.

Definition tight (w : world) (p s : nat) : Prop :=
  forall c, getc w p s = Some c -> phi w p s <= c_B c + c_M c.

(* the world after the connection answered (c1, sr) to a send of chunk o, and the accounting *)
Definition after_send (w : world) (p s : nat) (o : off) (c1 : conn) (sr : send_res) : world :=
  let w1 := setc w p s c1 in
  match sr with SOk ev => setp w1 p (pub_account_send (getp w1 p) o ev) | _ => w1 end.

Lemma after_send_ok H w p s c o gi c1 sr :
  InvG H w -> pact w p -> In (Some s) (p_tab (getp w p)) -> getc w p s = Some c ->
  ((c1 = c /\ (sr = SNoReceiver \/ sr = SBlocks \/ sr = SUnableToDeliver)) \/ c_try_send c o gi = Val (c1, sr)) ->
  o < p_n (getp w p) -> 1 <= holdersV (getp w p) (loans_of w p) (fun t => getc w p t) o -> tight w p s ->
  InvG H (after_send w p s o c1 sr) /\ PubQuiet p w (after_send w p s o c1 sr)
  /\ w_loans (after_send w p s o c1 sr) = w_loans w /\ w_nloan (after_send w p s o c1 sr) = w_nloan w
  /\ p_hist (getp (after_send w p s o c1 sr) p) = p_hist (getp w p)
  /\ (forall t, t <> s -> getc (after_send w p s o c1 sr) p t = getc w p t).
Proof.
  intros I Hp Hin Hc Hcase Hon Hge Ht.
  pose proof (pact_lt _ _ Hp) as Hl.
  pose proof (iv_pub _ _ I p Hp) as PI. unfold PubInv in PI.
  destruct (pv_conn _ _ _ _ _ PI s Hin) as [c0 [Hc0 Ok]]. rewrite Hc in Hc0. inversion Hc0; subst c0.
  destruct (setc_fields w p s c1) as (F1 & F2 & F3 & F4 & F5 & F6 & F7 & F8 & F9).
  assert (Hsame : c1 = c -> InvG H (setc w p s c1) /\ PubQuiet p w (setc w p s c1)).
  { intros ->. assert (Q : PubQuiet p w (setc w p s c)) by (apply (pq_setc p w s c c); auto; apply (co_snd _ _ _ _ Ok)).
    split; [|exact Q]. eapply PubQuiet_inv; eauto. intros _.
    eapply PubInv_frame; [exact F1|apply getp_setc|apply loans_of_setc| |exact (iv_pub _ _ I p Hp)].
    intros t _. split; [|apply borrowed_setc]. destruct (Nat.eq_dec t s) as [->|Hne].
    - rewrite getc_setc_eq, (co_snd _ _ _ _ Ok). cbn. now rewrite Hc.
    - now rewrite getc_setc_other by congruence. }
  assert (Hoth : forall t, t <> s -> getc (setc w p s c1) p t = getc w p t) by (intros t Hne; apply getc_setc_other; congruence).
  destruct Hcase as [[-> Hsr]|Hts].
  - assert (E : after_send w p s o c sr = setc w p s c) by (unfold after_send; destruct Hsr as [->|[->| ->]]; reflexivity).
    rewrite E. destruct (Hsame eq_refl) as [A B]. splits; auto. now rewrite getp_setc.
  - pose proof (try_send_spec _ _ _ _ _ _ (co_inv _ _ _ _ Ok) Hts) as Hspec. cbn zeta in Hspec.
    destruct (c_try_send_params _ _ _ _ _ Hts) as (P1 & P2 & P3 & _).
    destruct sr as [ev| | | | |]; try contradiction.
    + (* delivered *)
      assert (Htight : length (c_sub c) + length (borrowed w p s) + length (c_comp c) <= c_B c + c_M c).
      { specialize (Ht c Hc). unfold phi in Ht. now rewrite Hc in Ht. }
      pose proof (V_send _ _ _ _ _ s c c1 o gi ev (iv_cfg _ _ I) PI Hin Hc Hts Hon Hge Htight) as J.
      unfold after_send. rewrite getp_setc.
      set (x1 := pub_account_send (getp w p) o ev).
      assert (Hs1 : c_snd c1 = true) by (rewrite P1; apply (co_snd _ _ _ _ Ok)).
      assert (Q : PubQuiet p w (setp (setc w p s c1) p x1)).
      { eapply PubQuiet_trans; [apply (pq_setc p w s c c1); auto; apply (co_snd _ _ _ _ Ok)|].
        apply pq_setp; rewrite ?getp_setc; try (rewrite F4; exact Hl); unfold x1, pub_account_send; destruct ev; reflexivity. }
      splits.
      * eapply PubQuiet_inv; [exact I|exact Q| |cbn; exact F6|cbn; exact F8]. intros _. now apply PubInv_after2.
      * exact Q.
      * cbn. exact F6.
      * cbn. exact F8.
      * rewrite getp_setp_same by (rewrite F4; exact Hl). unfold x1, pub_account_send. destruct ev; reflexivity.
      * intros t Hne. rewrite getc_setp. now apply Hoth.
    + (* refused: buffer full *)
      destruct Hspec as (-> & _). unfold after_send. destruct (Hsame eq_refl) as [A B]. splits; auto. now rewrite getp_setc.
Qed.

(* ---------------------------------------------------------------------------------------- *)
(* history                                                                                   *)
(* ---------------------------------------------------------------------------------------- *)
Lemma PubInv_setp w p x1 :
  p < length (w_pubs w) ->
  PubInvV (w_cfg w) x1 (loans_of w p) (fun t => getc w p t) (fun t => borrowed w p t) -> PubInv (setp w p x1) p.
Proof. intros Hl I. unfold PubInv. now rewrite getp_setp_same by exact Hl. Qed.

Lemma pub_add_history_ok H w p o gi :
  InvG H w -> pact w p -> o < p_n (getp w p) -> In o (loans_of w p) ->
  InvG H (pub_add_history w p o gi) /\ PubQuiet p w (pub_add_history w p o gi)
  /\ w_loans (pub_add_history w p o gi) = w_loans w /\ w_nloan (pub_add_history w p o gi) = w_nloan w
  /\ (forall t, getc (pub_add_history w p o gi) p t = getc w p t).
Proof.
  intros I Hp Hon Hlo. pose proof (pact_lt _ _ Hp) as Hl.
  pose proof (iv_pub _ _ I p Hp) as PI. unfold PubInv in PI.
  assert (Hge : 1 <= holdersV (getp w p) (loans_of w p) (fun t => getc w p t) o) by (unfold holdersV; apply cnt_pos_In in Hlo; lia).
  unfold pub_add_history.
  destruct (Nat.eqb (cf_H (w_cfg w)) 0) eqn:E0; [splits; auto; apply PubQuiet_refl|].
  cbn [p_hist fst pub_borrow p_set_chunks].
  destruct (Nat.ltb (length (p_hist (getp w p))) (cf_H (w_cfg w))) eqn:E1.
  - apply Nat.ltb_lt in E1.
    pose proof (V_hist_push _ _ _ _ _ o gi (iv_cfg _ _ I) PI Hon Hge E1) as J.
    assert (Q : PubQuiet p w (setp w p (p_set_hist (fst (pub_borrow (getp w p) o)) (p_hist (getp w p) ++ [{| he_off := o; he_idx := gi |}])))) by (apply pq_setp; auto).
    splits; auto. eapply PubQuiet_inv; eauto. intros _. now apply PubInv_setp.
  - destruct (p_hist (getp w p)) as [|old rest] eqn:Eh; [splits; auto; apply PubQuiet_refl|].
    pose proof (V_hist_evict _ _ _ _ _ o gi old rest (iv_cfg _ _ I) PI Hon Hge Eh) as J.
    match goal with |- InvG H (setp w p ?X) /\ _ => set (x1 := X) in * end.
    assert (Q : PubQuiet p w (setp w p x1)) by (apply pq_setp; auto).
    splits; auto. eapply PubQuiet_inv; eauto. intros _. now apply PubInv_setp.
Qed.

(* ---------------------------------------------------------------------------------------- *)
(* deliver_sample_history                                                                    *)
(* ---------------------------------------------------------------------------------------- *)
Lemma tight_after_retrieve H w p s :
  InvG H w -> pact w p -> In (Some s) (p_tab (getp w p)) -> comps_empty w p -> tight w p s.
Proof.
  intros I Hp Hin Hce c Hc. unfold phi. rewrite Hc.
  pose proof (iv_pub _ _ I p Hp) as PI. unfold PubInv in PI.
  destruct (pv_conn _ _ _ _ _ PI s Hin) as [c0 [Hc0 Ok]]. rewrite Hc in Hc0. inversion Hc0; subst c0.
  assert (Hcomp : c_comp c = []).
  { apply (Hce s c). unfold tab_conns. apply in_flat_map. exists (Some s). split; [exact Hin|]. rewrite Hc. now left. }
  rewrite Hcomp. cbn [length]. pose proof (ci_sub _ _ (co_inv _ _ _ _ Ok)). pose proof (co_bor _ _ _ _ Ok). lia.
Qed.

Lemma deliver_history_ok H p s : forall ents w w',
  InvG H w -> pact w p -> In (Some s) (p_tab (getp w p)) ->
  (forall e, In e ents -> In (he_off e) (map he_off (p_hist (getp w p)))) ->
  deliver_history w p s ents = Val w' ->
  InvG H w' /\ PubQuiet p w w' /\ w_loans w' = w_loans w /\ w_nloan w' = w_nloan w.
Proof.
  induction ents as [|e t IH]; intros w w' I Hp Hin Hh Hd.
  - cbn in Hd. inversion Hd; subst. splits; auto. apply PubQuiet_refl.
  - cbn [deliver_history] in Hd.
    destruct (pub_retrieve_ok H p w I Hp) as (I1 & Q1 & L1 & L1' & Hh1 & Hce).
    set (w1 := pub_retrieve w p) in *.
    assert (Hp1 : pact w1 p) by (apply (PubStep_pact _ _ _ _ (pq_step _ _ _ Q1)); exact Hp).
    assert (Hin1 : In (Some s) (p_tab (getp w1 p))) by (rewrite (pq_tab _ _ _ Q1); exact Hin).
    destruct (getc w1 p s) as [c|] eqn:Ec; [|inversion Hd; subst; splits; auto].
    destruct (c_try_send c (he_off e) (he_idx e)) as [[c1 sr]|] eqn:Ets; [|discriminate]. cbn [rbind] in Hd.
    pose proof (iv_pub _ _ I1 p Hp1) as PI1. unfold PubInv in PI1.
    assert (Hoh : In (he_off e) (map he_off (p_hist (getp w1 p)))) by (rewrite Hh1; apply Hh; now left).
    assert (Hon : he_off e < p_n (getp w1 p)) by (now apply (pv_hist_lt _ _ _ _ _ PI1)).
    assert (Hge : 1 <= holdersV (getp w1 p) (loans_of w1 p) (fun t => getc w1 p t) (he_off e)) by (unfold holdersV; apply cnt_pos_In in Hoh; lia).
    pose proof (tight_after_retrieve H w1 p s I1 Hp1 Hin1 Hce) as Ht.
    destruct (after_send_ok H w1 p s c (he_off e) (he_idx e) c1 sr I1 Hp1 Hin1 Ec (or_intror Ets) Hon Hge Ht) as (I2 & Q2 & L2 & L2' & Hh2 & _).
    change (match sr with SOk ev => setp (setc w1 p s c1) p (pub_account_send (getp (setc w1 p s c1) p) (he_off e) ev) | _ => setc w1 p s c1 end)
      with (after_send w1 p s (he_off e) c1 sr) in Hd.
    set (w2 := after_send w1 p s (he_off e) c1 sr) in *.
    assert (Q12 : PubQuiet p w w2) by (eapply PubQuiet_trans; eauto).
    destruct (IH w2 w' I2) as (I3 & Q3 & L3 & L3'); auto.
    + apply (PubStep_pact _ _ _ _ (pq_step _ _ _ Q12)); exact Hp.
    + rewrite (pq_tab _ _ _ Q12); exact Hin.
    + intros e' He'. rewrite Hh2, Hh1. apply Hh. now right.
    + splits; auto; try congruence. eapply PubQuiet_trans; eauto.
Qed.

(* ---------------------------------------------------------------------------------------- *)
(* remove_connection                                                                          *)
(* ---------------------------------------------------------------------------------------- *)
Lemma nth_upd_none_some {A} (l : list (option A)) i j v :
  nth j (upd l i None) None = Some v -> j <> i /\ nth j l None = Some v.
Proof.
  revert i j. induction l as [|h t IH]; intros i j Hn; [destruct i, j; discriminate|].
  destruct i, j; cbn in *; try discriminate; auto.
  destruct (IH _ _ Hn). auto.
Qed.

Lemma in_upd_none_other {A} (l : list (option A)) i (u v : A) :
  In (Some v) l -> nth i l None = Some u -> u <> v -> In (Some v) (upd l i None).
Proof.
  revert i. induction l as [|h t IH]; intros i Hin Hn Hne; [destruct Hin|].
  destruct i; cbn in *.
  - subst h. destruct Hin as [E|Hin]; [congruence|now right].
  - destruct Hin as [E|Hin]; [now left|right; eauto].
Qed.

Lemma not_in_upd_none (l : list (option nat)) j s :
  NoDup (opt_keys l) -> nth j l None = Some s -> ~ In (Some s) (upd l j None).
Proof.
  revert j. induction l as [|h t IH]; intros j Hnd Hj; [destruct j; discriminate|].
  destruct j; cbn [nth upd] in *.
  - subst h. rewrite opt_keys_cons_some in Hnd. inversion Hnd; subst. intros [E|Hi]; [discriminate|]. apply H1. now apply in_opt_keys.
  - destruct h as [k|].
    + rewrite opt_keys_cons_some in Hnd. inversion Hnd; subst. intros [E|Hi].
      * inversion E; subst. apply H1. apply in_opt_keys. rewrite <- Hj. apply nth_In.
        destruct (Nat.lt_ge_cases j (length t)); [auto|]. rewrite nth_overflow in Hj by lia. discriminate.
      * now apply (IH j H2 Hj).
    + rewrite opt_keys_cons_none in Hnd. intros [E|Hi]; [discriminate|]. now apply (IH j Hnd Hj).
Qed.

Lemma c_acquire_used_params c c1 offs : c_acquire_used c = (c1, offs) ->
  c_snd c1 = c_snd c /\ c_rcv c1 = c_rcv c /\ c_used c1 = [].
Proof. unfold c_acquire_used. intros E. inversion E; subst. cbn. auto. Qed.

Lemma pub_remove_connection_ok H w p i s :
  InvG H w -> pact w p -> nth i (p_tab (getp w p)) None = Some s -> ~ sact w s ->
  let w' := pub_remove_connection w p i in
  InvG H w' /\ PubStep p w w' /\ w_loans w' = w_loans w /\ w_nloan w' = w_nloan w
  /\ p_tab (getp w' p) = upd (p_tab (getp w p)) i None
  /\ p_hist (getp w' p) = p_hist (getp w p) /\ p_snap (getp w' p) = p_snap (getp w p).
Proof.
  intros I Hp Hn Hns. pose proof (pact_lt _ _ Hp) as Hl.
  assert (Hin : In (Some s) (p_tab (getp w p))).
  { rewrite <- Hn. apply nth_In. destruct (Nat.lt_ge_cases i (length (p_tab (getp w p)))); [auto|]. rewrite nth_overflow in Hn by lia. discriminate. }
  pose proof (iv_pub _ _ I p Hp) as PI. unfold PubInv in PI.
  destruct (pv_conn _ _ _ _ _ PI s Hin) as [c [Hc Ok]]. cbn beta in Hc.
  unfold pub_remove_connection. rewrite Hn, Hc.
  destruct (c_acquire_used c) as [c1 offs] eqn:Ea.
  destruct (c_acquire_used_params _ _ _ Ea) as (A1 & A2 & A3).
  set (x1 := fold_left pub_release offs (getp w p)).
  set (cd := set_ports c1 false (c_rcv c1)).
  set (w1 := setc (setp w p x1) p s cd).
  destruct (fold_release_fields offs (getp w p)) as (F1 & F2 & F3 & F4 & F5 & F6 & F7 & F8 & F9 & F10).
  fold x1 in F1, F2, F3, F4, F5, F6, F7, F8, F9, F10.
  assert (G1 : getp w1 p = x1) by (unfold w1; rewrite getp_setc; now apply getp_setp_same).
  rewrite G1. set (x2 := p_set_tab x1 (upd (p_tab x1) i None)). set (w' := setp w1 p x2).
  destruct (setc_fields (setp w p x1) p s cd) as (S1 & S2 & S3 & S4 & S5 & S6 & S7 & S8 & S9).
  assert (Hl1 : p < length (w_pubs w1)) by (unfold w1; rewrite S4; rewrite len_pubs_setp; exact Hl).
  assert (G2 : getp w' p = x2) by (unfold w'; now apply getp_setp_same).
  assert (Gc : forall t, getc w' p t = if Nat.eqb t s then (if c_rcv c then Some cd else None) else getc w p t).
  { intros t. unfold w'. rewrite getc_setp. unfold w1. destruct (Nat.eqb t s) eqn:E.
    - apply Nat.eqb_eq in E. subst. rewrite getc_setc_eq. unfold cd. cbn [c_snd c_rcv set_ports]. now rewrite A2.
    - apply Nat.eqb_neq in E. rewrite getc_setc_other by congruence. apply getc_setp. }
  assert (PS : PubStep p w w').
  { eapply PubStep_trans; [apply (ps_setp p w x1); auto|].
    eapply PubStep_trans; [apply (ps_setc p (setp w p x1) s cd)|].
    - intros c0 Hc0 Hr0. rewrite getc_setp, Hc in Hc0. inversion Hc0; subst. unfold cd. cbn. congruence.
    - fold w1. apply ps_setp; auto; rewrite G1; reflexivity. }
  assert (Hbor : forall a b, borrowed w' a b = borrowed w a b) by (intros; apply (PubStep_borrowed _ _ _ _ _ PS)).
  assert (Hgs : forall t, gets w' t = gets w t) by (intros; apply (PubStep_gets _ _ _ _ PS)).
  assert (Hsa : forall t, sact w' t <-> sact w t) by (intros t; unfold sact; rewrite Hgs; tauto).
  assert (Hpa : pact w' p <-> pact w p) by (apply (PubStep_pact _ _ _ _ PS)).
  assert (Htab : p_tab (getp w' p) = upd (p_tab (getp w p)) i None) by (rewrite G2; unfold x2; cbn; now rewrite F6).
  assert (L : w_loans w' = w_loans w /\ w_nloan w' = w_nloan w) by (unfold w', w1; cbn; rewrite S6, S8; auto).
  destruct L as [L1 L2].
  splits; auto.
  - eapply PubStep_inv; [exact I|exact PS| |rewrite L1, L2, (ps_len _ _ _ PS); apply (iv_loan_ids _ _ I)].
    constructor.
    + intros _. unfold PubInv. rewrite G2, (ps_cfg _ _ _ PS).
      replace (loans_of w' p) with (loans_of w p) by (unfold loans_of; now rewrite L1).
      pose proof (V_remove _ _ _ _ _ i s c c1 offs (iv_cfg _ _ I) PI Hn Hc Ea) as J. fold x1 in J.
      unfold x2. rewrite F6.
      eapply PubInvV_ext; [|exact J]. intros t Ht. cbn [p_tab p_set_tab] in Ht. split; [|apply Hbor].
      rewrite Gc. destruct (Nat.eqb t s) eqn:E; [|reflexivity]. apply Nat.eqb_eq in E. subst t. exfalso.
      (* s is no longer in the table *)
      pose proof (pv_tab_nd _ _ _ _ _ PI) as Hnd.
      exact (not_in_upd_none _ _ _ Hnd Hn Ht).
    + intros t ct Hct. rewrite (ps_len _ _ _ PS), (ps_subs _ _ _ PS). rewrite Gc in Hct. destruct (Nat.eqb t s) eqn:E.
      * apply Nat.eqb_eq in E. subst. now apply (iv_conn_range _ _ I) in Hc.
      * now apply (iv_conn_range _ _ I) in Hct.
    + intros t ct Hct. rewrite Hgs. rewrite Gc in Hct. destruct (Nat.eqb t s) eqn:E.
      * apply Nat.eqb_eq in E. subst. destruct (c_rcv c); [|discriminate]. inversion Hct; subst ct. unfold cd. cbn [c_B set_ports].
        assert (HB1 : c_B c1 = c_B c) by (unfold c_acquire_used in Ea; inversion Ea; reflexivity). rewrite HB1. now apply (iv_conn_B _ _ I) in Hc.
      * now apply (iv_conn_B _ _ I) in Hct.
    + intros j t Hq Hj. rewrite Htab in Hj. apply nth_upd_none_some in Hj as [_ Hj]. rewrite (ps_subs _ _ _ PS), Hsa, Hgs. apply Hpa in Hq. now apply (iv_tab_slot _ _ I p j t).
    + intros t ct Hq Hct Hs. rewrite Gc in Hct. destruct (Nat.eqb t s) eqn:E.
      * destruct (c_rcv c); [|discriminate]. inversion Hct; subst. cbn in Hs. discriminate.
      * apply Nat.eqb_neq in E. apply Hpa in Hq. rewrite Htab. pose proof (iv_snd_tab _ _ I p t ct Hq Hct Hs) as Hi.
        eapply in_upd_none_other; eauto.
    + intros t ct Hq Ht Hct Hf. rewrite Gc in Hct. destruct (Nat.eqb t s) eqn:E.
      * apply Nat.eqb_eq in E. subst. exfalso. apply Hns. now apply Hsa.
      * apply Hpa in Hq. apply Hsa in Ht. rewrite Hbor, Hgs, (ps_cfg _ _ _ PS), (ps_n _ _ _ PS). now apply (iv_fresh _ _ I).
    + intros x Hx Ho Hq Hs. rewrite (ps_samples _ _ _ PS) in Hx. apply Hpa in Hq. apply Hsa in Hs. subst p. rewrite Htab.
      pose proof (iv_cover _ _ I x Hx Hq Hs) as Hi.
      eapply in_upd_none_other; eauto. intros E. apply Hns. rewrite E. exact Hs.
  - rewrite G2. unfold x2. cbn. exact F5.
  - rewrite G2. unfold x2. cbn. exact F10.
Qed.

(* ---------------------------------------------------------------------------------------- *)
(* create connection (+ history delivery)                                                    *)
(* ---------------------------------------------------------------------------------------- *)
Lemma nth_upd_some_cases {A} (l : list (option A)) i j u v :
  nth j (upd l i (Some u)) None = Some v -> (j = i /\ v = u) \/ (j <> i /\ nth j l None = Some v).
Proof.
  revert i j. induction l as [|h t IH]; intros i j Hn; [destruct i, j; discriminate|].
  destruct i, j; cbn [nth upd] in *.
  - left. split; [reflexivity|congruence].
  - right. split; [discriminate|exact Hn].
  - right. split; [discriminate|exact Hn].
  - destruct (IH _ _ Hn) as [[-> ->]|[Ha Hb]]; [left; auto|right; split; [congruence|exact Hb]].
Qed.

Lemma in_upd_some_keep {A} (l : list (option A)) i (u v : A) :
  In (Some v) l -> nth i l None = None -> In (Some v) (upd l i (Some u)).
Proof.
  revert i. induction l as [|h t IH]; intros i Hin Hn; [destruct Hin|].
  destruct i; cbn [nth upd] in *.
  - subst h. destruct Hin as [E|Hin]; [discriminate|now right].
  - destruct Hin as [E|Hin]; [now left|right; eauto].
Qed.

Lemma in_upd_some_new {A} (l : list (option A)) i (u : A) : i < length l -> In (Some u) (upd l i (Some u)).
Proof.
  revert i. induction l as [|h t IH]; intros i Hi; [cbn in Hi; lia|].
  destruct i; cbn [upd]; [now left|right; apply IH; cbn in Hi; lia].
Qed.

Lemma lastn_incl {A} n (l : list A) x : In x (lastn n l) -> In x l.
Proof. unfold lastn. intros H. rewrite <- (firstn_skipn (length l - n) l). apply in_or_app. now right. Qed.

Lemma borrowed_nil w p s :
  (forall x, In x (w_samples w) -> x_origin x = p -> x_sub x = s -> False) -> borrowed w p s = [].
Proof.
  unfold borrowed. induction (w_samples w) as [|x t IH]; intros Hx; [reflexivity|].
  cbn [filter]. destruct (Nat.eqb (x_origin x) p && Nat.eqb (x_sub x) s) eqn:E.
  - exfalso. apply andb_prop in E as [E1 E2]. apply Nat.eqb_eq in E1, E2. eapply Hx; eauto. now left.
  - apply IH. intros y Hy. apply Hx. now right.
Qed.

Lemma pub_create_connection_ok H w p i d w' :
  InvG H w -> pact w p -> nth i (p_tab (getp w p)) None = None ->
  nth i (r_slots (w_sreg w)) None = Some d ->
  pub_create_connection w p i d = Val w' ->
  InvG H w' /\ PubStep p w w' /\ w_loans w' = w_loans w /\ w_nloan w' = w_nloan w
  /\ p_tab (getp w' p) = upd (p_tab (getp w p)) i (Some (sd_id d)).
Proof.
  intros I Hp Hn Hd Hcr. pose proof (pact_lt _ _ Hp) as Hl.
  destruct (iv_sreg _ _ I i d Hd) as (Hsa & Hslot & Hbuf & Hhreq).
  set (s := sd_id d) in *.
  pose proof (iv_pub _ _ I p Hp) as PI. unfold PubInv in PI.
  pose proof (iv_cfg _ _ I) as (HS & HP & HB & HM & Hsm).
  assert (Hi : i < length (p_tab (getp w p))).
  { rewrite (pv_tab _ _ _ _ _ PI), <- (iv_sreg_len _ _ I). destruct (Nat.lt_ge_cases i (length (r_slots (w_sreg w)))); [auto|]. rewrite nth_overflow in Hd by lia. discriminate. }
  assert (Hni : ~ In (Some s) (p_tab (getp w p))).
  { intros Hin. apply In_nth with (d := None) in Hin as [j [Hj Hnj]]. destruct (iv_tab_slot _ _ I p j s Hp Hnj) as [_ Hs]. specialize (Hs Hsa). rewrite Hslot in Hs. subst j. rewrite Hn in Hnj. discriminate. }
  pose proof (iv_sub _ _ I s (iv_act_alive _ _ I s Hsa)) as SI.
  destruct (sv_buf _ _ _ SI) as [Hb1 Hb2].
  assert (Hpn : 1 <= p_n (getp w p)) by (rewrite (pv_n _ _ _ _ _ PI); unfold required_samples; nia).
  unfold pub_create_connection in Hcr. fold s in Hcr.
  set (c0 := match getc w p s with Some c => c | None => conn_new (sd_buf d) (cf_M (w_cfg w)) (cf_ovf (w_cfg w)) (p_n (getp w p)) end) in *.
  set (c1 := set_ports c0 true (c_rcv c0)) in *.
  (* the connection p attaches to is empty and has the right parameters *)
  assert (Hc0 : c_sub c0 = [] /\ c_comp c0 = [] /\ c_used c0 = [] /\ borrowed w p s = [] /\ c_borrow c0 = 0
                /\ c_B c0 = Nat.max 1 (s_buf (gets w s)) /\ c_M c0 = cf_M (w_cfg w) /\ c_n c0 = p_n (getp w p)
                /\ (forall cc, getc w p s = Some cc -> cc = c0)).
  { unfold c0. destruct (getc w p s) as [c|] eqn:Ec.
    - assert (Hsf : c_snd c = false).
      { destruct (c_snd c) eqn:E; [|reflexivity]. exfalso. apply Hni. eapply (iv_snd_tab _ _ I); eauto. }
      destruct (iv_fresh _ _ I p s c Hp Hsa Ec Hsf) as (A1 & A2 & A3 & A4 & A5 & A6 & A7 & A8). splits; auto. intros cc E. now inversion E.
    - unfold conn_new. cbn [c_sub c_comp c_used c_borrow c_B c_M c_n]. rewrite Hbuf. splits; auto; try lia; try discriminate.
      apply borrowed_nil. intros x Hx E1 E2.
      assert (Hpo : pact w (x_origin x)) by (rewrite E1; exact Hp).
      destruct (iv_samp_store _ _ I x Hx Hpo) as [e [He1 He2]].
      destruct (iv_samp_alive _ _ I x Hx) as [Hal _].
      destruct (sv_conn _ _ _ (iv_sub _ _ I _ Hal) _ _ He1) as [_ [cc [Hcc _]]]. rewrite He2, E1, E2 in Hcc. congruence. }
  destruct Hc0 as (E1 & E2 & E3 & E4 & E5 & E6 & E7 & E8 & Huniq).
  assert (Ok1 : ConnOk (w_cfg w) (p_n (getp w p)) c1 (borrowed w p s)).
  { rewrite E4. unfold c1. constructor.
    - reflexivity.
    - constructor.
      + cbn [c_used set_ports]. rewrite E3. constructor.
      + intros x. unfold offs. cbn [c_used c_sub c_comp set_ports]. rewrite E1, E2, E3. reflexivity.
      + cbn [c_sub c_B set_ports]. rewrite E1, E6. cbn [length]. lia.
      + cbn [c_borrow set_ports]. rewrite E5. reflexivity.
      + cbn [c_B set_ports]. rewrite E6. lia.
    - cbn [c_used set_ports]. rewrite E3. intros o [].
    - cbn [length]. lia.
    - cbn [c_sub c_comp c_B c_M set_ports]. rewrite E1, E2. cbn [length]. lia.
    - cbn [c_B set_ports]. rewrite E6. lia.
    - cbn [c_M set_ports]. exact E7.
    - cbn [c_n set_ports]. exact E8. }
  set (w1 := setc w p s c1) in *.
  set (x2 := p_set_tab (getp w p) (upd (p_tab (getp w p)) i (Some s))) in *.
  set (w2 := setp w1 p x2) in *.
  destruct (setc_fields w p s c1) as (S1 & S2 & S3 & S4 & S5 & S6 & S7 & S8 & S9).
  assert (Hl1 : p < length (w_pubs w1)) by (unfold w1; rewrite S4; exact Hl).
  assert (G2 : getp w2 p = x2) by (unfold w2; now apply getp_setp_same).
  assert (Gc : forall t, getc w2 p t = if Nat.eqb t s then Some c1 else getc w p t).
  { intros t. unfold w2. rewrite getc_setp. unfold w1. destruct (Nat.eqb t s) eqn:E.
    - apply Nat.eqb_eq in E. subst. rewrite getc_setc_eq. unfold c1. cbn. reflexivity.
    - apply Nat.eqb_neq in E. now rewrite getc_setc_other by congruence. }
  assert (PS : PubStep p w w2).
  { eapply PubStep_trans; [apply (ps_setc p w s c1)|].
    - intros cc Hcc Hr. rewrite (Huniq cc Hcc) in Hr. unfold c1. cbn. exact Hr.
    - fold w1. apply ps_setp; auto; unfold w1; rewrite getp_setc; reflexivity. }
  assert (Hbor : forall a b, borrowed w2 a b = borrowed w a b) by (intros; apply (PubStep_borrowed _ _ _ _ _ PS)).
  assert (Hgs : forall t, gets w2 t = gets w t) by (intros; apply (PubStep_gets _ _ _ _ PS)).
  assert (Hsa2 : forall t, sact w2 t <-> sact w t) by (intros t; unfold sact; rewrite Hgs; tauto).
  assert (Hpa : pact w2 p <-> pact w p) by (apply (PubStep_pact _ _ _ _ PS)).
  assert (L : w_loans w2 = w_loans w /\ w_nloan w2 = w_nloan w).
  { unfold w2. change (w_loans (setp w1 p x2)) with (w_loans w1). change (w_nloan (setp w1 p x2)) with (w_nloan w1). unfold w1. rewrite S6, S8. auto. }
  destruct L as [L1 L2].
  assert (I2 : InvG H w2).
  { eapply PubStep_inv; [exact I|exact PS| |rewrite L1, L2, (ps_len _ _ _ PS); apply (iv_loan_ids _ _ I)].
    constructor.
    - intros _. unfold PubInv. rewrite G2, (ps_cfg _ _ _ PS).
      replace (loans_of w2 p) with (loans_of w p) by (unfold loans_of; now rewrite L1).
      assert (J0 : PubInvV (w_cfg w) (getp w p) (loans_of w p) (fupd (fun t => getc w p t) s (Some c1)) (fun t => borrowed w p t)).
      { eapply PubInvV_ext; [|exact PI]. intros t Ht. split; [|reflexivity]. apply fupd_other. intros ->. contradiction. }
      pose proof (V_attach _ _ _ _ _ i s c1 J0 Hn Hi Hni (fupd_same _ _ _) Ok1 ltac:(unfold c1; cbn; exact E3)) as J.
      eapply PubInvV_ext; [|exact J]. intros t _. split; [|apply Hbor]. rewrite Gc. unfold fupd. destruct (Nat.eqb t s); reflexivity.
    - intros t ct Hct. rewrite (ps_len _ _ _ PS), (ps_subs _ _ _ PS). rewrite Gc in Hct. destruct (Nat.eqb t s) eqn:E.
      + apply Nat.eqb_eq in E. subst t. split; [exact Hl|]. now apply sact_lt.
      + now apply (iv_conn_range _ _ I) in Hct.
    - intros t ct Hct. rewrite Hgs. rewrite Gc in Hct. destruct (Nat.eqb t s) eqn:E.
      + apply Nat.eqb_eq in E. subst t. inversion Hct; subst ct. unfold c1. cbn [c_B set_ports]. exact E6.
      + now apply (iv_conn_B _ _ I) in Hct.
    - intros j t Hq Hj. rewrite G2 in Hj. unfold x2 in Hj. cbn [p_tab p_set_tab] in Hj.
      rewrite (ps_subs _ _ _ PS), Hsa2, Hgs. apply nth_upd_some_cases in Hj as [[-> ->]|[_ Hj]].
      + split; [now apply sact_lt|intros _; exact Hslot].
      + now apply (iv_tab_slot _ _ I p j t).
    - intros t ct Hq Hct Hs. rewrite G2. unfold x2. cbn [p_tab p_set_tab]. rewrite Gc in Hct. destruct (Nat.eqb t s) eqn:E.
      + apply Nat.eqb_eq in E. subst t. now apply in_upd_some_new.
      + apply in_upd_some_keep; [|exact Hn]. eapply (iv_snd_tab _ _ I); eauto.
    - intros t ct Hq Ht Hct Hf. rewrite Gc in Hct. destruct (Nat.eqb t s) eqn:E.
      + inversion Hct; subst ct. unfold c1 in Hf. cbn in Hf. discriminate.
      + apply Hsa2 in Ht. rewrite Hbor, Hgs, (ps_cfg _ _ _ PS), (ps_n _ _ _ PS). now apply (iv_fresh _ _ I).
    - intros x Hx Ho Hq Hs. rewrite (ps_samples _ _ _ PS) in Hx. apply Hsa2 in Hs. subst p. rewrite G2. unfold x2. cbn [p_tab p_set_tab].
      apply in_upd_some_keep; [|exact Hn]. now apply (iv_cover _ _ I). }
  (* history delivery *)
  assert (Hp2 : pact w2 p) by (now apply Hpa).
  assert (Hin2 : In (Some s) (p_tab (getp w2 p))) by (rewrite G2; unfold x2; cbn; now apply in_upd_some_new).
  match type of Hcr with deliver_history _ _ _ ?E = _ =>
    destruct (deliver_history_ok H p s E w2 w' I2 Hp2 Hin2) as (I3 & Q3 & L3 & L3'); [|exact Hcr|] end.
  { intros e He. apply lastn_incl in He. rewrite G2. unfold x2. cbn. now apply in_map. }
  splits; auto; try congruence.
  - eapply PubStep_trans; [exact PS|apply (pq_step _ _ _ Q3)].
  - rewrite (pq_tab _ _ _ Q3), G2. reflexivity.
Qed.

(* ---------------------------------------------------------------------------------------- *)
(* update_connections                                                                        *)
(* ---------------------------------------------------------------------------------------- *)
Notation PubOK H p w w' := (InvG H w' /\ PubStep p w w' /\ w_loans w' = w_loans w /\ w_nloan w' = w_nloan w).

Lemma PubOK_trans H p w1 w2 w3 : PubOK H p w1 w2 -> PubOK H p w2 w3 -> PubOK H p w1 w3.
Proof. intros (A & B & C & D) (A' & B' & C' & D'). splits; auto; try congruence. eapply PubStep_trans; eauto. Qed.

Lemma not_sact_of_registry H w p i s :
  InvG H w -> RegS w -> pact w p -> nth i (p_tab (getp w p)) None = Some s ->
  (forall d, nth i (r_slots (w_sreg w)) None = Some d -> sd_id d <> s) -> ~ sact w s.
Proof.
  intros I R Hp Hn Hreg Hs. destruct (iv_tab_slot _ _ I p i s Hp Hn) as [_ Hsl]. specialize (Hsl Hs).
  specialize (R s Hs). rewrite Hsl in R. eapply Hreg; eauto.
Qed.

Lemma pub_update_connection_ok H w p i d w' :
  InvG H w -> RegS w -> pact w p -> nth i (r_slots (w_sreg w)) None = Some d ->
  pub_update_connection w p i d = Val w' -> PubOK H p w w'.
Proof.
  intros I R Hp Hd Hu. unfold pub_update_connection in Hu.
  destruct (nth i (p_tab (getp w p)) None) as [s|] eqn:Hn.
  - destruct (Nat.eqb s (sd_id d)) eqn:E.
    + inversion Hu; subst. splits; auto. apply PubStep_refl.
    + apply Nat.eqb_neq in E.
      assert (Hns : ~ sact w s).
      { eapply not_sact_of_registry; eauto. intros d' Hd'. rewrite Hd in Hd'. inversion Hd'; subst. congruence. }
      destruct (pub_remove_connection_ok H w p i s I Hp Hn Hns) as (I1 & S1 & L1 & L1' & T1 & _).
      set (w1 := pub_remove_connection w p i) in *.
      assert (Hp1 : pact w1 p) by (apply (PubStep_pact _ _ _ _ S1); exact Hp).
      assert (Hn1 : nth i (p_tab (getp w1 p)) None = None).
      { rewrite T1. assert (Hi : i < length (p_tab (getp w p))). { destruct (Nat.lt_ge_cases i (length (p_tab (getp w p)))); [auto|]. rewrite nth_overflow in Hn by lia. discriminate. }
        now apply nth_upd_same. }
      assert (Hd1 : nth i (r_slots (w_sreg w1)) None = Some d) by (rewrite (ps_sreg _ _ _ S1); exact Hd).
      destruct (pub_create_connection_ok H w1 p i d w' I1 Hp1 Hn1 Hd1 Hu) as (I2 & S2 & L2 & L2' & _).
      splits; auto; try congruence. eapply PubStep_trans; eauto.
  - destruct (pub_create_connection_ok H w p i d w' I Hp Hn Hd Hu) as (I2 & S2 & L2 & L2' & _). splits; auto.
Qed.

Lemma pub_update_slots_ok H p : forall slots w i w',
  InvG H w -> RegS w -> pact w p ->
  (forall j, nth j slots None = nth (i + j) (r_slots (w_sreg w)) None) ->
  pub_update_slots w p slots i = Val w' -> PubOK H p w w'.
Proof.
  induction slots as [|e t IH]; intros w i w' I R Hp Hs Hu.
  - cbn in Hu. inversion Hu; subst. splits; auto. apply PubStep_refl.
  - assert (Ht : forall w0, w_sreg w0 = w_sreg w -> forall j, nth j t None = nth (S i + j) (r_slots (w_sreg w0)) None).
    { intros w0 E j. rewrite E. specialize (Hs (S j)). cbn [nth] in Hs. rewrite Hs. f_equal. lia. }
    destruct e as [d|]; cbn [pub_update_slots] in Hu.
    + destruct (pub_update_connection w p i d) as [w1|] eqn:E1; [|discriminate]. cbn [rbind] in Hu.
      assert (Hd : nth i (r_slots (w_sreg w)) None = Some d) by (specialize (Hs 0); cbn [nth] in Hs; rewrite Nat.add_0_r in Hs; now rewrite <- Hs).
      pose proof (pub_update_connection_ok H w p i d w1 I R Hp Hd E1) as O1. destruct O1 as (I1 & S1 & L1 & L1').
      eapply PubOK_trans; [splits; eauto|].
      eapply IH; eauto.
      * eapply PubStep_RegS; eauto.
      * apply (PubStep_pact _ _ _ _ S1); exact Hp.
      * apply Ht. apply (ps_sreg _ _ _ S1).
    + eapply IH; eauto.
Qed.

Lemma pub_finish_cycle_ok H p : forall slots w i,
  InvG H w -> RegS w -> pact w p ->
  (forall j, nth j slots None = nth (i + j) (r_slots (w_sreg w)) None) ->
  PubOK H p w (pub_finish_cycle w p slots i).
Proof.
  induction slots as [|e t IH]; intros w i I R Hp Hs.
  - cbn. splits; auto. apply PubStep_refl.
  - assert (Ht : forall w0, w_sreg w0 = w_sreg w -> forall j, nth j t None = nth (S i + j) (r_slots (w_sreg w0)) None).
    { intros w0 E j. rewrite E. specialize (Hs (S j)). cbn [nth] in Hs. rewrite Hs. f_equal. lia. }
    destruct e as [d|]; cbn [pub_finish_cycle]; [apply IH; auto|].
    assert (Hd : nth i (r_slots (w_sreg w)) None = None) by (specialize (Hs 0); cbn [nth] in Hs; rewrite Nat.add_0_r in Hs; now rewrite <- Hs).
    destruct (nth i (p_tab (getp w p)) None) as [s|] eqn:Hn.
    + assert (Hns : ~ sact w s) by (eapply not_sact_of_registry; eauto; intros d' Hd'; rewrite Hd in Hd'; discriminate).
      destruct (pub_remove_connection_ok H w p i s I Hp Hn Hns) as (I1 & S1 & L1 & L1' & _).
      eapply PubOK_trans; [splits; eauto|].
      apply IH; auto.
      * eapply PubStep_RegS; eauto.
      * apply (PubStep_pact _ _ _ _ S1); exact Hp.
      * apply Ht. apply (ps_sreg _ _ _ S1).
    + assert (E : pub_remove_connection w p i = w) by (unfold pub_remove_connection; now rewrite Hn).
      rewrite E. apply IH; auto.
Qed.

Lemma pub_force_update_ok H w p w' :
  InvG H w -> RegS w -> pact w p -> sn_slots (p_snap (getp w p)) = r_slots (w_sreg w) ->
  pub_force_update w p = Val w' -> PubOK H p w w'.
Proof.
  intros I R Hp Hsn Hf. unfold pub_force_update in Hf. rewrite Hsn in Hf.
  destruct (pub_update_slots w p (r_slots (w_sreg w)) 0) as [w1|] eqn:E1; [|discriminate]. cbn [rbind] in Hf. inversion Hf; subst w'.
  pose proof (pub_update_slots_ok H p _ w 0 w1 I R Hp (fun j => eq_refl) E1) as O1. destruct O1 as (I1 & S1 & L1 & L1').
  eapply PubOK_trans; [splits; eauto|].
  apply pub_finish_cycle_ok; auto.
  - eapply PubStep_RegS; eauto.
  - apply (PubStep_pact _ _ _ _ S1); exact Hp.
  - intros j. now rewrite (ps_sreg _ _ _ S1).
Qed.

Lemma pub_set_snap_ok H w p sn :
  InvG H w -> pact w p -> PubOK H p w (setp w p (p_set_snap (getp w p) sn)) /\ PubQuiet p w (setp w p (p_set_snap (getp w p) sn)).
Proof.
  intros I Hp. pose proof (pact_lt _ _ Hp) as Hl.
  assert (Q : PubQuiet p w (setp w p (p_set_snap (getp w p) sn))) by (apply pq_setp; auto).
  split; [|exact Q]. splits; auto; [|apply (pq_step _ _ _ Q)].
  eapply PubQuiet_inv; eauto. intros _. apply PubInv_setp; [exact Hl|].
  eapply (PubInvV_fields _ (getp w p)); try reflexivity. exact (iv_pub _ _ I p Hp).
Qed.

Lemma pub_update_connections_ok H w p w' :
  InvG H w -> RegS w -> pact w p -> pub_update_connections w p = Val w' -> PubOK H p w w'.
Proof.
  intros I R Hp Hu. unfold pub_update_connections in Hu. unfold reg_update_state in Hu.
  destruct (N.eqb (sn_cc (p_snap (getp w p))) (r_cc (w_sreg w))).
  - inversion Hu; subst. splits; auto. apply PubStep_refl.
  - destruct (pub_set_snap_ok H w p (reg_get_state (w_sreg w)) I Hp) as [O1 Q1]. destruct O1 as (I1 & S1 & L1 & L1').
    eapply PubOK_trans; [splits; eauto|].
    eapply (pub_force_update_ok H _ p w'); [exact I1| | | |exact Hu].
    + eapply PubStep_RegS; eauto.
    + apply (PubStep_pact _ _ _ _ S1); exact Hp.
    + rewrite getp_setp_same by (now apply pact_lt). reflexivity.
Qed.

(* ---------------------------------------------------------------------------------------- *)
(* send: the back-pressure handler may run subscriber-side operations in the middle           *)
(* ---------------------------------------------------------------------------------------- *)
Record SubSide (w w' : world) : Prop := {
  sx_pubs : w_pubs w' = w_pubs w;
  sx_loans : w_loans w' = w_loans w;
  sx_nloan : w_nloan w' = w_nloan w;
  sx_cfg : w_cfg w' = w_cfg w;
  sx_sreg : w_sreg w' = w_sreg w;
  sx_preg : w_preg w' = w_preg w;
  sx_buf : forall t, s_buf (gets w' t) = s_buf (gets w t);
  sx_phi : PhiLe w w' }.

Lemma SubSide_refl w : SubSide w w.
Proof. constructor; auto. apply PhiLe_refl. Qed.
Lemma SubSide_trans w1 w2 w3 : SubSide w1 w2 -> SubSide w2 w3 -> SubSide w1 w3.
Proof.
  intros [a1 b1 c1 d1 e1 f1 g1 h1] [a2 b2 c2 d2 e2 f2 g2 h2]. constructor; try congruence.
  all: try (intros t; rewrite (g2 t); apply g1).
  all: eapply PhiLe_trans; eauto.
Qed.

Definition HxOK (hx : hexec) : Prop :=
  forall w s acts w' tr, InvR w -> hx w s acts = Val (w', tr) -> InvR w' /\ SubSide w w'.

Definition tightB (w : world) (p s : nat) : Prop :=
  phi w p s <= Nat.max 1 (s_buf (gets w s)) + cf_M (w_cfg w).

Lemma tightB_tight H w p s : InvG H w -> pact w p -> In (Some s) (p_tab (getp w p)) -> tightB w p s -> tight w p s.
Proof.
  intros I Hp Hin Ht c Hc. unfold tightB in Ht.
  pose proof (iv_pub _ _ I p Hp) as PI. unfold PubInv in PI.
  destruct (pv_conn _ _ _ _ _ PI s Hin) as [c0 [Hc0 Ok]]. rewrite Hc in Hc0. inversion Hc0; subst c0.
  rewrite (iv_conn_B _ _ I p s c Hc), (co_M _ _ _ _ Ok). exact Ht.
Qed.

Lemma tight_tightB H w p s : InvG H w -> pact w p -> In (Some s) (p_tab (getp w p)) -> tight w p s -> tightB w p s.
Proof.
  intros I Hp Hin Ht. unfold tightB.
  pose proof (iv_pub _ _ I p Hp) as PI. unfold PubInv in PI.
  destruct (pv_conn _ _ _ _ _ PI s Hin) as [c [Hc Ok]]. cbn beta in Hc.
  specialize (Ht c Hc). rewrite (iv_conn_B _ _ I p s c Hc), (co_M _ _ _ _ Ok) in Ht. exact Ht.
Qed.

Lemma SubSide_getp w w' p : SubSide w w' -> getp w' p = getp w p.
Proof. intros S. unfold getp. now rewrite (sx_pubs _ _ S). Qed.
Lemma SubSide_loans_of w w' p : SubSide w w' -> loans_of w' p = loans_of w p.
Proof. intros S. unfold loans_of. now rewrite (sx_loans _ _ S). Qed.
Lemma SubSide_tightB w w' p s : SubSide w w' -> tightB w p s -> tightB w' p s.
Proof. intros S T. unfold tightB in *. rewrite (sx_buf _ _ S), (sx_cfg _ _ S). pose proof (sx_phi _ _ S p s). lia. Qed.

Lemma wait_world_ok hx p s gs last r fuel : forall w k tr w1 wr cn tr1,
  HxOK hx -> InvR w -> wait_world fuel hx w p s gs last r k tr = Val (w1, wr, cn, tr1) ->
  InvR w1 /\ SubSide w w1.
Proof.
  induction fuel as [|f IH]; intros w k tr w1 wr cn tr1 Hx I Hw.
  - cbn in Hw. inversion Hw; subst. split; [exact I|apply SubSide_refl].
  - cbn [wait_world] in Hw. destruct (getc w p s) as [c|]; [|inversion Hw; subst; split; [exact I|apply SubSide_refl]].
    destruct (c_is_connected c && c_is_full c); [|inversion Hw; subst; split; [exact I|apply SubSide_refl]].
    destruct (hx w s (g_acts (nth k gs last))) as [[w2 t2]|] eqn:Eh; [|discriminate]. cbn [rbind] in Hw.
    destruct (Hx _ _ _ _ _ I Eh) as [I2 S2].
    destruct (g_ans (nth k gs last)).
    + destruct r; inversion Hw; subst; auto.
    + destruct (IH _ _ _ _ _ _ _ Hx I2 Hw) as [I3 S3]. split; [exact I3|eapply SubSide_trans; eauto].
    + inversion Hw; subst; auto.
    + inversion Hw; subst; auto.
Qed.

(* what one delivery does, seen from the delivery loop *)
Record DelStep (p s : nat) (w w' : world) : Prop := {
  dl_loans : w_loans w' = w_loans w;
  dl_nloan : w_nloan w' = w_nloan w;
  dl_cfg : w_cfg w' = w_cfg w;
  dl_tab : p_tab (getp w' p) = p_tab (getp w p);
  dl_n : p_n (getp w' p) = p_n (getp w p);
  dl_act : p_active (getp w' p) = p_active (getp w p);
  dl_buf : forall t, s_buf (gets w' t) = s_buf (gets w t);
  dl_phi : forall t, t <> s -> phi w' p t <= phi w p t }.

Lemma DelStep_of_SubSide p s w w' : SubSide w w' -> DelStep p s w w'.
Proof.
  intros S. constructor; try apply S; rewrite ?(SubSide_getp _ _ _ S); auto.
  intros t _. apply (sx_phi _ _ S).
Qed.

Lemma DelStep_of_quiet p s w w' :
  PubQuiet p w w' -> w_loans w' = w_loans w -> w_nloan w' = w_nloan w -> (forall t, t <> s -> getc w' p t = getc w p t) -> DelStep p s w w'.
Proof.
  intros Q L1 L2 Ho. pose proof (pq_step _ _ _ Q) as S. constructor; auto; try apply S; try apply Q.
  - intros t. now rewrite (PubStep_gets _ _ _ _ S).
  - intros t Hne. unfold phi. rewrite Ho by exact Hne. rewrite (PubStep_borrowed _ _ _ _ _ S). lia.
Qed.

Lemma DelStep_trans p s w1 w2 w3 : DelStep p s w1 w2 -> DelStep p s w2 w3 -> DelStep p s w1 w3.
Proof.
  intros [a1 b1 c1 d1 e1 f1 g1 h1] [a2 b2 c2 d2 e2 f2 g2 h2]. constructor; try congruence.
  all: try (intros t; rewrite (g2 t); apply g1).
  all: intros t Hne; specialize (h1 t Hne); specialize (h2 t Hne); lia.
Qed.

Lemma InvR_of_quiet p w w' :
  InvR w -> PubQuiet p w w' -> Inv w' -> InvR w'.
Proof.
  intros (I & RP & RS & TB) Q I'. split; [exact I'|]. split; [eapply PubStep_RegP; [apply (pq_step _ _ _ Q)|exact RP]|split; [eapply PubStep_RegS; [apply (pq_step _ _ _ Q)|exact RS]|eapply PubStep_TbrAll; [apply (pq_step _ _ _ Q)|exact TB]]].
Qed.

Lemma after_send_del w p s c o gi c1 sr :
  InvR w -> pact w p -> In (Some s) (p_tab (getp w p)) -> getc w p s = Some c ->
  ((c1 = c /\ (sr = SNoReceiver \/ sr = SBlocks \/ sr = SUnableToDeliver)) \/ c_try_send c o gi = Val (c1, sr)) ->
  o < p_n (getp w p) -> In o (loans_of w p) -> tightB w p s ->
  InvR (after_send w p s o c1 sr) /\ DelStep p s w (after_send w p s o c1 sr).
Proof.
  intros IR Hp Hin Hc Hcase Hon Hlo Ht. destruct IR as (I & RP & RS & TB).
  assert (Hge : 1 <= holdersV (getp w p) (loans_of w p) (fun t => getc w p t) o) by (unfold holdersV; apply cnt_pos_In in Hlo; lia).
  destruct (after_send_ok _ w p s c o gi c1 sr I Hp Hin Hc Hcase Hon Hge (tightB_tight _ _ _ _ I Hp Hin Ht)) as (I2 & Q2 & L2 & L2' & _ & Ho).
  split; [eapply (InvR_of_quiet p w); [unfold InvR; splits; auto|exact Q2|exact I2]|]. now apply DelStep_of_quiet.
Qed.

Lemma pub_deliver_one_ok hx w p i o gi w' res tr :
  HxOK hx -> InvR w -> pact w p -> o < p_n (getp w p) -> In o (loans_of w p) ->
  (forall s, nth i (p_tab (getp w p)) None = Some s -> tightB w p s) ->
  pub_deliver_one hx w p i o gi = Val (w', res, tr) ->
  InvR w' /\ forall s, nth i (p_tab (getp w p)) None = Some s \/ nth i (p_tab (getp w p)) None = None -> DelStep p s w w'.
Proof.
  intros Hx IR Hp Hon Hlo Ht Hd. unfold pub_deliver_one in Hd.
  destruct (nth i (p_tab (getp w p)) None) as [s|] eqn:Hn.
  2:{ inversion Hd; subst. split; [exact IR|]. intros s _. apply DelStep_of_SubSide, SubSide_refl. }
  assert (Hin : In (Some s) (p_tab (getp w p))).
  { rewrite <- Hn. apply nth_In. destruct (Nat.lt_ge_cases i (length (p_tab (getp w p)))); [auto|]. rewrite nth_overflow in Hn by lia. discriminate. }
  assert (Hres : InvR w' /\ DelStep p s w w').
  2:{ destruct Hres as [A B]. split; [exact A|]. intros s' [E|E]; [inversion E; subst; exact B|discriminate]. }
  specialize (Ht s eq_refl).
  destruct (getc w p s) as [c|] eqn:Hc; [|inversion Hd; subst; split; [exact IR|apply DelStep_of_SubSide, SubSide_refl]].
  (* the three ways to get an answer from the connection *)
  assert (Hdirect : forall c1 sr,
            ((c1 = c /\ (sr = SNoReceiver \/ sr = SBlocks \/ sr = SUnableToDeliver)) \/ c_try_send c o gi = Val (c1, sr)) ->
            forall wf, wf = after_send w p s o c1 sr -> InvR wf /\ DelStep p s w wf).
  { intros c1 sr Hcase wf ->. eapply after_send_del; eauto. }
  assert (Hfin : forall w1 sr tr0 res0,
            (match sr with
             | SOk ev => Val (setp w1 p (pub_account_send (getp w1 p) o ev), (1, false, false), tr0)
             | SUnableToDeliver => Val (w1, (0, true, false), tr0)
             | SBlocks => Val (w1, (0, false, true), tr0)
             | _ => Val (w1, (0, false, false), tr0)
             end = Val (w', res0, tr)) ->
            w' = match sr with SOk ev => setp w1 p (pub_account_send (getp w1 p) o ev) | _ => w1 end).
  { intros w1 sr tr0 res0 E. destruct sr; inversion E; reflexivity. }
  destruct (p_handler (getp w p)) as [|h|gs last].
  - (* no handler *)
    destruct (p_retry (getp w p)).
    + destruct (c_blocking_send c o gi hscript_follow true) as [[c1 sr]|] eqn:Eb; [|discriminate]. cbn [rbind fst snd] in Hd.
      apply Hfin in Hd. eapply (Hdirect c1 sr); [apply (c_blocking_send_cases _ _ _ _ _ _ _ Eb)|exact Hd].
    + remember (c_try_send c o gi) as ts eqn:Eb in Hd. symmetry in Eb. destruct ts as [[c1 sr]|]; [|discriminate]. cbn [rbind fst snd] in Hd.
      apply Hfin in Hd. eapply (Hdirect c1 sr); [right; exact Eb|exact Hd].
  - destruct (c_blocking_send c o gi h (p_retry (getp w p))) as [[c1 sr]|] eqn:Eb; [|discriminate]. cbn [rbind fst snd] in Hd.
    apply Hfin in Hd. eapply (Hdirect c1 sr); [apply (c_blocking_send_cases _ _ _ _ _ _ _ Eb)|exact Hd].
  - (* acting handler *)
    unfold pub_blocking_world in Hd. rewrite Hc in Hd.
    destruct (negb (c_ovf c) && c_is_full c).
    2:{ remember (c_try_send c o gi) as ts eqn:Eb in Hd. symmetry in Eb. destruct ts as [[c1 sr]|]; [|discriminate]. cbn [rbind fst snd] in Hd.
        apply Hfin in Hd. eapply (Hdirect c1 sr); [right; exact Eb|exact Hd]. }
    destruct (wait_world _ hx w p s gs last (p_retry (getp w p)) 0 []) as [[[[w1 wr] cn] tr1]|] eqn:Ew; [|discriminate]. cbn [rbind] in Hd.
    destruct (wait_world_ok _ _ _ _ _ _ _ _ _ _ _ _ _ _ Hx IR Ew) as [IR1 S1].
    assert (Hstay : forall sr0 tr0 res0, (sr0 = SNoReceiver \/ sr0 = SBlocks \/ sr0 = SUnableToDeliver) ->
                    (match sr0 with
                     | SOk ev => Val (setp w1 p (pub_account_send (getp w1 p) o ev), (1, false, false), tr0)
                     | SUnableToDeliver => Val (w1, (0, true, false), tr0)
                     | SBlocks => Val (w1, (0, false, true), tr0)
                     | _ => Val (w1, (0, false, false), tr0)
                     end = Val (w', res0, tr)) -> InvR w' /\ DelStep p s w w').
    { intros sr0 tr0 res0 Hs E. assert (w' = w1) by (destruct Hs as [->|[->| ->]]; inversion E; reflexivity). subst w'.
      split; [exact IR1|now apply DelStep_of_SubSide]. }
    destruct wr as [fl|].
    2:{ cbn [rbind] in Hd. eapply Hstay; [right; left; reflexivity|exact Hd]. }
    destruct (negb cn); [cbn [rbind] in Hd; eapply Hstay; [left; reflexivity|exact Hd]|].
    destruct fl; [cbn [rbind] in Hd; eapply Hstay; [right; right; reflexivity|exact Hd]|].
    destruct (getc w1 p s) as [c1|] eqn:Hc1; [|cbn [rbind] in Hd; eapply Hstay; [left; reflexivity|exact Hd]].
    destruct (c_try_send c1 o gi) as [[c2 sr]|] eqn:Eb; [|discriminate]. cbn [rbind fst snd] in Hd.
    apply Hfin in Hd.
    assert (Hp1 : pact w1 p) by (unfold pact; now rewrite (SubSide_getp _ _ _ S1)).
    destruct (after_send_del w1 p s c1 o gi c2 sr IR1 Hp1) as [IR2 D2]; auto.
    + now rewrite (SubSide_getp _ _ _ S1).
    + now rewrite (SubSide_getp _ _ _ S1).
    + now rewrite (SubSide_loans_of _ _ _ S1).
    + now apply (SubSide_tightB _ _ _ _ S1).
    + subst w'. split; [exact IR2|]. eapply DelStep_trans; [apply DelStep_of_SubSide; exact S1|exact D2].
Qed.

Lemma nth_nodup_ne (l : list (option nat)) i j s t :
  NoDup (opt_keys l) -> nth i l None = Some s -> nth j l None = Some t -> i <> j -> s <> t.
Proof.
  revert i j. induction l as [|h tl IH]; intros i j Hnd Hi Hj Hne; [destruct i; discriminate|].
  destruct i, j; cbn [nth] in *; try congruence.
  - subst h. rewrite opt_keys_cons_some in Hnd. inversion Hnd; subst. intros ->. apply H1. apply in_opt_keys. rewrite <- Hj. apply nth_In.
    destruct (Nat.lt_ge_cases j (length tl)); [auto|]. rewrite nth_overflow in Hj by lia. discriminate.
  - subst h. rewrite opt_keys_cons_some in Hnd. inversion Hnd; subst. intros <-. apply H1. apply in_opt_keys. rewrite <- Hi. apply nth_In.
    destruct (Nat.lt_ge_cases i (length tl)); [auto|]. rewrite nth_overflow in Hi by lia. discriminate.
  - destruct h; [rewrite opt_keys_cons_some in Hnd; inversion Hnd; subst|rewrite opt_keys_cons_none in Hnd]; eapply IH; eauto.
Qed.

Lemma pub_deliver_all_ok hx p o gi : forall n w i acc tra w' res tr,
  HxOK hx -> InvR w -> pact w p -> o < p_n (getp w p) -> In o (loans_of w p) ->
  (forall j s, i <= j -> nth j (p_tab (getp w p)) None = Some s -> tightB w p s) ->
  pub_deliver_all hx w p n i o gi acc tra = Val (w', res, tr) ->
  InvR w' /\ w_loans w' = w_loans w /\ w_nloan w' = w_nloan w /\ p_active (getp w' p) = p_active (getp w p).
Proof.
  induction n as [|n IH]; intros w i acc tra w' res tr Hx IR Hp Hon Hlo Ht Hd.
  - cbn in Hd. inversion Hd; subst. auto.
  - cbn [pub_deliver_all] in Hd.
    destruct (pub_deliver_one hx w p i o gi) as [[[w1 [[k f] b]] tr1]|] eqn:E1; [|discriminate]. cbn [rbind] in Hd.
    destruct (pub_deliver_one_ok hx w p i o gi w1 _ tr1 Hx IR Hp Hon Hlo (fun s Hs => Ht i s (le_n _) Hs) E1) as [IR1 D1].
    destruct acc as [[ak af] ab].
    assert (HD : forall s, (forall si, nth i (p_tab (getp w p)) None = Some si -> si <> s) -> exists s0, s0 <> s /\ DelStep p s0 w w1).
    { intros s Hs. destruct (nth i (p_tab (getp w p)) None) as [si|] eqn:Hn.
      - exists si. split; [now apply Hs|apply D1; now left].
      - exists (S s). split; [lia|apply D1; now right]. }
    assert (D : exists s0, DelStep p s0 w w1).
    { destruct (nth i (p_tab (getp w p)) None) as [si|] eqn:Hn; [exists si; apply D1; now left|exists 0; apply D1; now right]. }
    destruct D as [s0 D].
    destruct b; [inversion Hd; subst; splits; auto; apply D|].
    destruct IR as (I & _).
    pose proof (iv_pub _ _ I p Hp) as PI. unfold PubInv in PI.
    assert (Hp1 : pact w1 p) by (unfold pact; rewrite (dl_act _ _ _ _ D); exact Hp).
    destruct (IH w1 (S i) (ak + k, af || f, ab) (tra ++ tr1) w' res tr Hx IR1 Hp1) as (IR2 & L1 & L2 & A2); auto.
    + now rewrite (dl_n _ _ _ _ D).
    + unfold loans_of. rewrite (dl_loans _ _ _ _ D). exact Hlo.
    + intros j s Hj Hn. rewrite (dl_tab _ _ _ _ D) in Hn.
      destruct (HD s) as [s1 [Hne D']].
      { intros si Hi. eapply (nth_nodup_ne _ i j); eauto; [apply (pv_tab_nd _ _ _ _ _ PI)|lia]. }
      unfold tightB. rewrite (dl_buf _ _ _ _ D'), (dl_cfg _ _ _ _ D'). pose proof (dl_phi _ _ _ _ D' s ltac:(congruence)). specialize (Ht j s ltac:(lia) Hn). unfold tightB in Ht. lia.
    + splits; auto.
      * rewrite L1. apply D.
      * rewrite L2. apply D.
      * rewrite A2. apply D.
Qed.

Lemma InvR_of_step p w w' : InvR w -> PubStep p w w' -> Inv w' -> InvR w'.
Proof. intros (I & RP & RS & TB) S I'. split; [exact I'|]. split; [eapply PubStep_RegP; eauto|split; [eapply PubStep_RegS; eauto|eapply PubStep_TbrAll; eauto]]. Qed.

Lemma pub_set_sent_ok H w p l :
  InvG H w -> pact w p ->
  InvG H (setp w p (p_set_sent (getp w p) l)) /\ PubQuiet p w (setp w p (p_set_sent (getp w p) l)).
Proof.
  intros I Hp. pose proof (pact_lt _ _ Hp) as Hl.
  assert (Q : PubQuiet p w (setp w p (p_set_sent (getp w p) l))) by (apply pq_setp; auto).
  split; [|exact Q]. eapply PubQuiet_inv; eauto. intros _. apply PubInv_setp; [exact Hl|].
  eapply (PubInvV_fields _ (getp w p)); try reflexivity. exact (iv_pub _ _ I p Hp).
Qed.

Lemma pub_send_sample_ok hx w p o w' sr tr :
  HxOK hx -> InvR w -> In o (loans_of w p) ->
  pub_send_sample hx w p o = Val (w', sr, tr) ->
  InvR w' /\ w_loans w' = w_loans w /\ w_nloan w' = w_nloan w /\ p_active (getp w' p) = p_active (getp w p).
Proof.
  intros Hx IR Hlo Hs. unfold pub_send_sample in Hs.
  destruct (p_active (getp w p)) eqn:Ea; cbn [negb] in Hs; [|inversion Hs; subst; auto].
  assert (Hp : pact w p) by exact Ea.
  destruct IR as (I & RP & RS & TB).
  destruct (pub_update_connections w p) as [w1|] eqn:E1; [|discriminate]. cbn [rbind] in Hs.
  destruct (pub_update_connections_ok _ w p w1 I RS Hp E1) as (I1 & S1 & L1 & L1').
  assert (IR1 : InvR w1) by (eapply (InvR_of_step p w); [unfold InvR; auto|exact S1|exact I1]).
  assert (Hp1 : pact w1 p) by (apply (PubStep_pact _ _ _ _ S1); exact Hp).
  set (gi := length (p_sent (getp w1 p))) in *.
  destruct (pub_set_sent_ok _ w1 p (p_sent (getp w1 p) ++ [nth o (p_mem (getp w1 p)) pl0]) I1 Hp1) as [I2 Q2].
  set (w2 := setp w1 p (p_set_sent (getp w1 p) (p_sent (getp w1 p) ++ [nth o (p_mem (getp w1 p)) pl0]))) in *.
  assert (Hp2 : pact w2 p) by (apply (PubStep_pact _ _ _ _ (pq_step _ _ _ Q2)); exact Hp1).
  assert (Hlo2 : In o (loans_of w2 p)) by (change (loans_of w2 p) with (loans_of w1 p); unfold loans_of; rewrite L1; exact Hlo).
  assert (Hon2 : o < p_n (getp w2 p)) by (apply (pv_ls_lt _ _ _ _ _ (iv_pub _ _ I2 p Hp2)); exact Hlo2).
  destruct (pub_add_history_ok _ w2 p o gi I2 Hp2 Hon2 Hlo2) as (I3 & Q3 & L3 & L3' & _).
  set (w3 := pub_add_history w2 p o gi) in *.
  assert (Hp3 : pact w3 p) by (apply (PubStep_pact _ _ _ _ (pq_step _ _ _ Q3)); exact Hp2).
  destruct (pub_retrieve_ok _ p w3 I3 Hp3) as (I4 & Q4 & L4 & L4' & _ & Hce).
  set (w4 := pub_retrieve w3 p) in *.
  assert (Hp4 : pact w4 p) by (apply (PubStep_pact _ _ _ _ (pq_step _ _ _ Q4)); exact Hp3).
  assert (S14 : PubStep p w1 w4) by (eapply PubStep_trans; [apply (pq_step _ _ _ Q2)|eapply PubStep_trans; [apply (pq_step _ _ _ Q3)|apply (pq_step _ _ _ Q4)]]).
  assert (IR4 : InvR w4) by (eapply (InvR_of_step p w1); eauto).
  assert (Hlo4 : In o (loans_of w4 p)) by (unfold loans_of; rewrite L4, L3; exact Hlo2).
  assert (Hon4 : o < p_n (getp w4 p)) by (apply (pv_ls_lt _ _ _ _ _ (iv_pub _ _ I4 p Hp4)); exact Hlo4).
  destruct (pub_deliver_all hx w4 p (length (p_tab (getp w4 p))) 0 o gi (0, false, false) []) as [[[w5 [[k f] b]] tr5]|] eqn:E5; [|discriminate].
  cbn [rbind] in Hs. inversion Hs; subst w' sr tr.
  destruct (pub_deliver_all_ok hx p o gi (length (p_tab (getp w4 p))) w4 0 (0, false, false) [] w5 (k, f, b) tr5 Hx IR4 Hp4 Hon4 Hlo4) as (IR5 & L5 & L5' & A5); [|exact E5|].
  { intros j s _ Hn. apply (tight_tightB _ w4 p s I4 Hp4).
    - rewrite <- Hn. apply nth_In. destruct (Nat.lt_ge_cases j (length (p_tab (getp w4 p)))); [auto|]. rewrite nth_overflow in Hn by lia. discriminate.
    - eapply tight_after_retrieve; eauto. rewrite <- Hn. apply nth_In. destruct (Nat.lt_ge_cases j (length (p_tab (getp w4 p)))); [auto|]. rewrite nth_overflow in Hn by lia. discriminate. }
  splits; auto.
  - rewrite L5, L4, L3. change (w_loans w2) with (w_loans w1). exact L1.
  - rewrite L5', L4', L3'. change (w_nloan w2) with (w_nloan w1). exact L1'.
  - rewrite A5, (ps_active _ _ _ S14), (ps_active _ _ _ S1). exact Ea.
Qed.

(* ---------------------------------------------------------------------------------------- *)
(* loans                                                                                     *)
(* ---------------------------------------------------------------------------------------- *)
Definition record_loan (w : world) (p : nat) (o : off) : world :=
  w_set_loans w (w_loans w ++ [{| l_id := w_nloan w; l_pub := p; l_off := o |}]) (S (w_nloan w)).

Lemma loans_of_app (l1 l2 : list loan) (p : nat) :
  map l_off (filter (fun l => Nat.eqb (l_pub l) p) (l1 ++ l2)) =
  map l_off (filter (fun l => Nat.eqb (l_pub l) p) l1) ++ map l_off (filter (fun l => Nat.eqb (l_pub l) p) l2).
Proof. now rewrite filter_app, map_app. Qed.

Lemma pub_write_ok H w p o :
  InvG H w -> InvG H (pub_write w p o) /\ PubQuiet p w (pub_write w p o) /\ w_loans (pub_write w p o) = w_loans w /\ w_nloan (pub_write w p o) = w_nloan w.
Proof.
  intros I. unfold pub_write.
  destruct (Nat.lt_ge_cases p (length (w_pubs w))) as [Hl|Hge].
  - set (x1 := p_set_mem (getp w p) (upd (p_mem (getp w p)) o {| pl_pub := p; pl_seq := p_seq (getp w p) |}) (N.succ (p_seq (getp w p)))).
    assert (Q : PubQuiet p w (setp w p x1)) by (apply pq_setp; auto).
    splits; auto. eapply PubQuiet_inv; eauto. intros Hp. apply PubInv_setp; [exact Hl|].
    assert (Hp0 : pact w p) by (apply (PubStep_pact _ _ _ _ (pq_step _ _ _ Q)); exact Hp).
    eapply (PubInvV_fields _ (getp w p)); try reflexivity; [unfold x1; cbn; apply upd_length|exact (iv_pub _ _ I p Hp0)].
  - assert (E : setp w p (p_set_mem (getp w p) (upd (p_mem (getp w p)) o {| pl_pub := p; pl_seq := p_seq (getp w p) |}) (N.succ (p_seq (getp w p)))) = w).
    { unfold setp. rewrite upd_oob by exact Hge. destruct w; reflexivity. }
    rewrite E. splits; auto. apply PubQuiet_refl.
Qed.

Lemma alloc_record_ok H w1 p w2 o :
  InvG H w1 -> pact w1 p -> pub_allocate_core w1 p = Val (w2, AOk o) ->
  InvG H (record_loan w2 p o) /\ PubStep p w1 (record_loan w2 p o).
Proof.
  intros I Hp Ha. pose proof (pact_lt _ _ Hp) as Hl.
  pose proof (iv_pub _ _ I p Hp) as PI. unfold PubInv in PI.
  unfold pub_allocate_core in Ha.
  destruct (Nat.leb (p_L (getp w1 p)) (p_loans (getp w1 p))) eqn:El; [discriminate|]. apply Nat.leb_gt in El.
  destruct (p_free (getp w1 p)) as [|o' rest] eqn:Ef; [discriminate|].
  destruct (V_alloc _ _ _ _ _ o' rest PI Ef El) as (J & Hold & Hon & Hz).
  destruct (pub_borrow (p_set_chunks (getp w1 p) (p_refcnt (getp w1 p)) rest) o') as [x1 old] eqn:Eb.
  cbn [fst snd] in J, Hold. subst old. cbn [N.eqb negb] in Ha. inversion Ha; subst w2 o'. clear Ha.
  assert (Hlx : p_loans x1 = p_loans (getp w1 p)) by (unfold pub_borrow in Eb; inversion Eb; reflexivity).
  rewrite Hlx in *.
  set (x2 := p_set_loans x1 (S (p_loans (getp w1 p)))) in *.
  set (w3 := record_loan (setp w1 p x2) p o).
  assert (Hx1 : p_active x1 = p_active (getp w1 p) /\ p_slot x1 = p_slot (getp w1 p) /\ p_n x1 = p_n (getp w1 p) /\ p_tab x1 = p_tab (getp w1 p))
    by (unfold pub_borrow in Eb; inversion Eb; cbn; auto).
  destruct Hx1 as (X1 & X2 & X3 & X4).
  assert (Q0 : PubQuiet p w1 (setp w1 p x2)) by (apply pq_setp; auto).
  assert (Q : PubQuiet p w1 w3).
  { destruct Q0 as [S0 T0 C0]. constructor.
    - destruct S0 as [a b c d e f g h i j k l m n]. constructor; auto.
      intros q Hq. unfold w3, record_loan, loans_of. cbn [w_loans w_set_loans]. rewrite filter_app, map_app. cbn [filter l_pub].
      destruct (Nat.eqb p q) eqn:E; [apply Nat.eqb_eq in E; congruence|]. cbn [map]. rewrite app_nil_r. apply (l q Hq).
    - exact T0.
    - exact C0. }
  split; [|apply (pq_step _ _ _ Q)].
  eapply PubStep_inv; [exact I|apply (pq_step _ _ _ Q)|eapply PubQuiet_self; eauto|].
  - intros _. unfold PubInv.
    assert (G : getp w3 p = x2) by (unfold w3, record_loan; cbn; now apply getp_setp_same).
    assert (Lo : loans_of w3 p = loans_of w1 p ++ [o]).
    { unfold w3, record_loan, loans_of. cbn [w_loans w_set_loans]. rewrite filter_app, map_app. cbn [filter l_pub]. rewrite Nat.eqb_refl. reflexivity. }
    rewrite G, Lo. exact J.
  - destruct (iv_loan_ids _ _ I) as [Hnd Hlt]. unfold w3, record_loan. cbn [w_loans w_nloan w_set_loans w_pubs setp w_set_pubs]. split.
    + rewrite map_app. cbn [map l_id]. apply NoDup_app_one; [exact Hnd|]. intros Hi. apply in_map_iff in Hi as [l [E Hin]]. apply Hlt in Hin. lia.
    + intros l Hin. rewrite upd_length. apply in_app_or in Hin as [Hin|[<-|[]]]; [destruct (Hlt l Hin); lia|cbn; lia].
Qed.

Lemma filter_all_true {A} (f : A -> bool) l : (forall x, In x l -> f x = true) -> filter f l = l.
Proof. induction l as [|a l IH]; intros Hx; cbn; [reflexivity|]. rewrite (Hx a) by now left. f_equal. apply IH. intros x Hi. apply Hx. now right. Qed.

Lemma loans_split (L : list loan) l :
  NoDup (map l_id L) -> In l L ->
  exists l1 l2, L = l1 ++ l :: l2 /\ filter (fun y => negb (Nat.eqb (l_id y) (l_id l))) L = l1 ++ l2.
Proof.
  intros Hnd Hin. destruct (in_split _ _ Hin) as (l1 & l2 & E). exists l1, l2. split; [exact E|]. subst L.
  rewrite map_app in Hnd. cbn [map] in Hnd. pose proof (NoDup_remove_2 _ _ _ Hnd) as Hni.
  rewrite filter_app. cbn [filter]. rewrite Nat.eqb_refl. cbn [negb].
  rewrite !filter_all_true; [reflexivity| |].
  - intros x Hx. apply Bool.negb_true_iff, Nat.eqb_neq. intros E. apply Hni, in_or_app. right. rewrite <- E. now apply in_map.
  - intros x Hx. apply Bool.negb_true_iff, Nat.eqb_neq. intros E. apply Hni, in_or_app. left. rewrite <- E. now apply in_map.
Qed.

Lemma pq_loans p w w0 L n :
  PubQuiet p w w0 -> (forall q, q <> p -> loans_of (w_set_loans w0 L n) q = loans_of w q) -> PubQuiet p w (w_set_loans w0 L n).
Proof.
  intros [S0 T0 C0] HL. constructor; [|exact T0|exact C0].
  destruct S0 as [a b c d e f g h i j k l m n0]. constructor; auto.
Qed.

Definition return_rm (w : world) (l : loan) : world := rm_loan (pub_return_loan w (l_pub l) (l_off l)) (l_id l).

Lemma return_rm_ok H w l :
  InvG H w -> In l (w_loans w) ->
  InvG H (return_rm w l) /\ PubQuiet (l_pub l) w (return_rm w l).
Proof.
  intros I Hin. destruct l as [id p o]. cbn [l_pub l_off l_id return_rm].
  destruct (iv_loan_ids _ _ I) as [Hnd Hlt]. destruct (Hlt _ Hin) as [Hid Hl]. cbn [l_id l_pub] in Hid, Hl.
  destruct (loans_split _ _ Hnd Hin) as (l1 & l2 & E1 & E2). cbn [l_id] in E2.
  unfold pub_return_loan. cbn zeta.
  set (x1 := p_set_loans (pub_release (getp w p) o) (Nat.pred (p_loans (pub_release (getp w p) o)))).
  assert (Q0 : PubQuiet p w (setp w p x1)).
  { apply pq_setp; auto; unfold x1, pub_release; cbn; reflexivity. }
  set (w2 := rm_loan (setp w p x1) id).
  assert (Ew : return_rm w {| l_id := id; l_pub := p; l_off := o |} = w2) by reflexivity. rewrite Ew.
  assert (Lo : forall q, loans_of w2 q = map l_off (filter (fun y => Nat.eqb (l_pub y) q) (l1 ++ l2))).
  { intros q. unfold w2, rm_loan, loans_of. cbn [w_loans w_set_loans setp w_set_pubs]. now rewrite E2. }
  assert (Lw : forall q, loans_of w q = map l_off (filter (fun y => Nat.eqb (l_pub y) q) (l1 ++ {| l_id := id; l_pub := p; l_off := o |} :: l2))).
  { intros q. unfold loans_of. now rewrite E1. }
  assert (Q : PubQuiet p w w2).
  { apply pq_loans; [exact Q0|]. intros q Hq. fold (rm_loan (setp w p x1) id). fold w2. rewrite Lo, Lw.
    rewrite !filter_app. cbn [filter l_pub]. destruct (Nat.eqb p q) eqn:E; [apply Nat.eqb_eq in E; congruence|reflexivity]. }
  split; [|exact Q].
  eapply PubStep_inv; [exact I|apply (pq_step _ _ _ Q)|eapply PubQuiet_self; eauto|].
  - intros Hp'. assert (Hp : pact w p) by (apply (PubStep_pact _ _ _ _ (pq_step _ _ _ Q)); exact Hp').
    unfold PubInv. assert (G : getp w2 p = x1) by (unfold w2, rm_loan; cbn; now apply getp_setp_same).
    rewrite G, Lo. rewrite filter_app, map_app.
    assert (Eb : forall s, borrowed w2 p s = borrowed w p s) by reflexivity.
    assert (Ec : forall s, getc w2 p s = getc w p s) by (intros s; unfold w2, rm_loan, getc; reflexivity).
    assert (Ecfg : w_cfg w2 = w_cfg w) by reflexivity. rewrite Ecfg.
    eapply PubInvV_ext; [intros s _; split; [symmetry; apply Ec|symmetry; apply Eb]|].
    eapply V_loan_drop; [apply (iv_cfg _ _ I)|exact (iv_pub _ _ I p Hp)|].
    rewrite Lw, filter_app, map_app. cbn [filter l_pub]. rewrite Nat.eqb_refl. reflexivity.
  - unfold w2, rm_loan. cbn [w_loans w_nloan w_set_loans w_pubs setp w_set_pubs]. rewrite E2, upd_length. split.
    + rewrite E1, map_app in Hnd. cbn [map] in Hnd. apply NoDup_remove_1 in Hnd. now rewrite map_app.
    + intros l Hi. apply Hlt. rewrite E1. apply in_app_or in Hi as [Hi|Hi]; apply in_or_app; [now left|right; now right].
Qed.

(* the Sender's connections go: the sender side of every connection in the table is closed
   (a connection without any port is removed) *)
Definition PDetR (o o' : option conn) : Prop :=
  match o, o' with
  | Some c, Some c' => c_B c' = c_B c /\ c_rcv c' = c_rcv c
  | Some c, None => c_rcv c = false
  | None, None => True
  | None, Some _ => False
  end.
Definition PDetC (w w' : world) (p : nat) : Prop := forall s, PDetR (getc w p s) (getc w' p s).

Lemma PDetR_refl o : PDetR o o.
Proof. destruct o; cbn; auto. Qed.
Lemma PDetR_trans o1 o2 o3 : PDetR o1 o2 -> PDetR o2 o3 -> PDetR o1 o3.
Proof. destruct o1, o2, o3; cbn; intuition congruence. Qed.

Lemma pub_detach_all_step p : forall tab w,
  let w' := pub_detach_all w p tab in
  PubStep p w w' /\ PDetC w w' p /\ w_pubs w' = w_pubs w /\ w_loans w' = w_loans w /\ w_nloan w' = w_nloan w.
Proof.
  induction tab as [|[s|] tab IH]; intros w; cbn [pub_detach_all]; cbn zeta.
  - splits; auto; [apply PubStep_refl|]. intros s. apply PDetR_refl.
  - destruct (getc w p s) as [c|] eqn:Hc; [|apply IH].
    set (w1 := setc w p s (set_ports c false (c_rcv c))).
    specialize (IH w1). cbn zeta in IH. destruct IH as (S & D & A1 & A2 & A3).
    destruct (setc_fields w p s (set_ports c false (c_rcv c))) as (F1 & F2 & F3 & F4 & F5 & F6 & F7 & F8 & F9).
    assert (S1 : PubStep p w w1).
    { apply ps_setc. intros c0 Hc0 Hr. rewrite Hc in Hc0. inversion Hc0; subst c0. cbn. exact Hr. }
    splits.
    + eapply PubStep_trans; eauto.
    + intros t. eapply PDetR_trans; [|apply D]. unfold w1. destruct (Nat.eq_dec t s) as [->|Hne].
      * rewrite getc_setc_eq, Hc. cbn [set_ports c_snd c_rcv orb]. destruct (c_rcv c) eqn:Er; cbn; auto.
      * rewrite getc_setc_ne by congruence. apply PDetR_refl.
    + rewrite A1. exact F4.
    + rewrite A2. exact F6.
    + rewrite A3. exact F8.
  - apply IH.
Qed.

Lemma pub_maybe_drop_state_ok H w p :
  InvG H w ->
  let w' := pub_maybe_drop_state w p in
  InvG H w' /\ PubStep p w w' /\ w_loans w' = w_loans w /\ w_nloan w' = w_nloan w.
Proof.
  intros I. unfold pub_maybe_drop_state. cbn zeta.
  destruct (negb (p_active (getp w p)) && p_alive (getp w p) && negb (has_loans w p)) eqn:E;
    [|splits; auto; apply PubStep_refl].
  apply Bool.andb_true_iff in E as [E E3]. apply Bool.andb_true_iff in E as [E1 E2]. apply Bool.negb_true_iff in E1.
  assert (Hl : p < length (w_pubs w)).
  { destruct (Nat.lt_ge_cases p (length (w_pubs w))) as [Hl|Hge]; [exact Hl|]. unfold getp in E2. rewrite nth_overflow in E2 by exact Hge. discriminate. }
  destruct (pub_detach_all_step p (p_tab (getp w p)) w) as (S1 & D & A1 & A2 & A3). cbn zeta in *.
  set (w1 := pub_detach_all w p (p_tab (getp w p))) in *.
  assert (G1 : getp w1 p = getp w p) by (unfold getp; now rewrite A1).
  set (x' := p_set_life (p_set_tab (getp w1 p) (map (fun _ => None) (p_tab (getp w p)))) false false).
  assert (S2 : PubStep p w1 (setp w1 p x')).
  { apply ps_setp; [rewrite A1; exact Hl|unfold x'; cbn; rewrite G1; now rewrite E1|reflexivity|reflexivity]. }
  assert (S : PubStep p w (setp w1 p x')) by (eapply PubStep_trans; eauto).
  assert (Hnp : ~ pact (setp w1 p x') p).
  { unfold pact. rewrite getp_setp_same by (rewrite A1; exact Hl). unfold x'. cbn. discriminate. }
  split; [|split; [exact S|split; [cbn; exact A2|cbn; exact A3]]].
  eapply PubStep_inv; [exact I|exact S| |].
  - constructor; try (intros; contradiction).
    + intros s c Hc. rewrite getc_setp in Hc. specialize (D s). rewrite Hc in D.
      destruct (getc w p s) as [c0|] eqn:Hc0; [|contradiction].
      destruct (iv_conn_range _ _ I _ _ _ Hc0) as [R1 R2]. rewrite len_pubs_setp. cbn [w_subs setp w_set_pubs].
      rewrite A1, (ps_subs _ _ _ S1). auto.
    + intros s c Hc. rewrite getc_setp in Hc. specialize (D s). rewrite Hc in D.
      destruct (getc w p s) as [c0|] eqn:Hc0; [|contradiction]. destruct D as [D1 _].
      rewrite D1, (PubStep_gets _ _ _ _ S). eapply (iv_conn_B _ _ I); eauto.
  - cbn [w_loans w_nloan setp w_set_pubs w_pubs]. rewrite upd_length, A1, A2, A3. apply (iv_loan_ids _ _ I).
Qed.

Lemma loan_drop_ok w l :
  InvR w -> In l (w_loans w) -> InvR (loan_drop w l).
Proof.
  intros IR Hin. pose proof IR as (I & _).
  destruct (return_rm_ok _ w l I Hin) as [I1 Q1].
  destruct (pub_maybe_drop_state_ok _ (return_rm w l) (l_pub l) I1) as (I2 & S2 & _). cbn zeta in *.
  unfold loan_drop. cbn zeta. fold (return_rm w l).
  eapply InvR_of_step; [exact IR|eapply PubStep_trans; [apply (pq_step _ _ _ Q1)|exact S2]|exact I2].
Qed.
