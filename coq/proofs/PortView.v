(* The invariant of ONE publisher as a predicate over its view of the world (its own state, the
   configuration, its live loans, the connections of its table, the samples borrowed through
   them), and the effect of every kind of micro-step on that view.  No world plumbing here. *)
From V Require Import model.Base model.Conn model.Port proofs.ListLemmas proofs.ConnProofs proofs.PortProofs.
From Coq Require Import Lia.
Local Open Scope nat_scope.

(* ---------------------------------------------------------------------------------------- *)
(* chunk bookkeeping against an abstract holder count                                        *)
(* ---------------------------------------------------------------------------------------- *)
Record RC (x : pubst) (H : off -> nat) : Prop := {
  rc_len : length (p_refcnt x) = p_n x;
  rc_nd : NoDup (p_free x);
  rc_lt : forall o, In o (p_free x) -> o < p_n x;
  rc_cnt : forall o, o < p_n x -> nth o (p_refcnt x) 0%N = N.of_nat (H o);
  rc_free : forall o, o < p_n x -> (In o (p_free x) <-> H o = 0) }.

Lemma RC_ext x H H' : (forall o, o < p_n x -> H o = H' o) -> RC x H -> RC x H'.
Proof.
  intros E [a b c d e]. constructor; auto.
  - intros o Ho. rewrite <- E by exact Ho. now apply d.
  - intros o Ho. rewrite <- E by exact Ho. now apply e.
Qed.

(* same chunk fields, same invariant *)
Lemma RC_fields x x' H :
  p_refcnt x' = p_refcnt x -> p_free x' = p_free x -> p_n x' = p_n x -> RC x H -> RC x' H.
Proof. intros E1 E2 E3 [a b c d e]. constructor; rewrite ?E1, ?E2, ?E3; auto. Qed.

Definition bump (H : off -> nat) (o0 : off) (v : nat) : off -> nat := fun o => if Nat.eqb o o0 then v else H o.

Lemma RC_release x H o0 :
  RC x H -> o0 < p_n x -> 1 <= H o0 -> (N.of_nat (H o0) < MAX64)%N ->
  RC (pub_release x o0) (bump H o0 (H o0 - 1)).
Proof.
  intros [Hl Hnd Hlt Hc Hf] Ho Hpos Hsm. unfold pub_release.
  rewrite (Hc _ Ho).
  assert (E0 : N.eqb (N.of_nat (H o0)) 0 = false) by (apply N.eqb_neq; lia).
  rewrite E0.
  constructor; cbn [p_refcnt p_free p_n p_set_chunks].
  - now rewrite upd_length.
  - destruct (N.eqb (N.of_nat (H o0)) 1) eqn:E1; [|exact Hnd].
    apply N.eqb_eq in E1. constructor; [|exact Hnd]. intros Hi. apply Hf in Hi; [lia|exact Ho].
  - intros o Hi. destruct (N.eqb (N.of_nat (H o0)) 1); [destruct Hi as [<-|Hi]|]; auto.
  - intros o Hlo. unfold bump. destruct (Nat.eqb o o0) eqn:E.
    + apply Nat.eqb_eq in E. subst o. rewrite nth_upd_same by lia. lia.
    + apply Nat.eqb_neq in E. rewrite nth_upd_other by congruence. now apply Hc.
  - intros o Hlo. unfold bump. destruct (Nat.eqb o o0) eqn:E.
    + apply Nat.eqb_eq in E. subst o.
      destruct (N.eqb (N.of_nat (H o0)) 1) eqn:E1.
      * apply N.eqb_eq in E1. split; [lia|]. intros _. now left.
      * apply N.eqb_neq in E1. split.
        -- intros Hi. apply Hf in Hi; [lia|exact Ho].
        -- intros Hz. lia.
    + apply Nat.eqb_neq in E.
      destruct (N.eqb (N.of_nat (H o0)) 1); [|now apply Hf].
      split.
      * intros [He|Hi]; [congruence|now apply Hf].
      * intros Hz. right. now apply Hf.
Qed.

Lemma RC_borrow x H o0 :
  RC x H -> o0 < p_n x -> 1 <= H o0 -> (N.of_nat (H o0) < MAX64)%N ->
  RC (fst (pub_borrow x o0)) (bump H o0 (S (H o0))) /\ snd (pub_borrow x o0) = N.of_nat (H o0).
Proof.
  intros [Hl Hnd Hlt Hc Hf] Ho Hpos Hsm. unfold pub_borrow. cbn [fst snd].
  rewrite (Hc _ Ho). split; [|reflexivity].
  assert (E0 : N.eqb (N.of_nat (H o0)) MAX64 = false) by (apply N.eqb_neq; lia). rewrite E0.
  constructor; cbn [p_refcnt p_free p_n p_set_chunks]; auto.
  - now rewrite upd_length.
  - intros o Hlo. unfold bump. destruct (Nat.eqb o o0) eqn:E.
    + apply Nat.eqb_eq in E. subst o. rewrite nth_upd_same by lia. lia.
    + apply Nat.eqb_neq in E. rewrite nth_upd_other by congruence. now apply Hc.
  - intros o Hlo. unfold bump. destruct (Nat.eqb o o0) eqn:E.
    + apply Nat.eqb_eq in E. subst o. split; [|lia]. intros Hi. apply Hf in Hi; [lia|exact Ho].
    + now apply Hf.
Qed.

(* the allocation micro-step: the head of the free list, counter 0 -> 1 *)
Lemma RC_alloc x H o0 rest :
  RC x H -> p_free x = o0 :: rest ->
  o0 < p_n x /\ H o0 = 0
  /\ RC (fst (pub_borrow (p_set_chunks x (p_refcnt x) rest) o0)) (bump H o0 1)
  /\ snd (pub_borrow (p_set_chunks x (p_refcnt x) rest) o0) = 0%N.
Proof.
  intros [Hl Hnd Hlt Hc Hf] Ef.
  assert (Ho : o0 < p_n x) by (apply Hlt; rewrite Ef; now left).
  assert (Hz : H o0 = 0) by (apply Hf; [exact Ho|rewrite Ef; now left]).
  rewrite Ef in Hnd. inversion Hnd as [|? ? Hni Hnd']; subst.
  splits; auto.
  - unfold pub_borrow. cbn [fst p_refcnt p_free p_n p_set_chunks].
    rewrite (Hc _ Ho), Hz. cbn [N.of_nat]. change (N.eqb 0 MAX64) with false. cbn iota.
    constructor; cbn [p_refcnt p_free p_n p_set_chunks]; auto.
    + now rewrite upd_length.
    + intros o Hi. apply Hlt. rewrite Ef. now right.
    + intros o Hlo. unfold bump. destruct (Nat.eqb o o0) eqn:E.
      * apply Nat.eqb_eq in E. subst o. rewrite nth_upd_same by lia. reflexivity.
      * apply Nat.eqb_neq in E. rewrite nth_upd_other by congruence. now apply Hc.
    + intros o Hlo. unfold bump. destruct (Nat.eqb o o0) eqn:E.
      * apply Nat.eqb_eq in E. subst o. split; [contradiction|discriminate].
      * apply Nat.eqb_neq in E. rewrite <- (Hf _ Hlo), Ef. cbn [In]. split; [tauto|]. intros [He|Hi]; [congruence|exact Hi].
  - unfold pub_borrow. cbn [snd p_refcnt p_set_chunks]. rewrite (Hc _ Ho), Hz. reflexivity.
Qed.

(* ---------------------------------------------------------------------------------------- *)
(* the sum over the table                                                                    *)
(* ---------------------------------------------------------------------------------------- *)
Definition cmap := nat -> option conn.
Definition bmap := nat -> list off.
Definition fupd {A} (f : nat -> A) (k : nat) (v : A) : nat -> A := fun j => if Nat.eqb j k then v else f j.

Definition used_at (cf : cmap) (o : off) (e : option nat) : nat :=
  match e with Some s => match cf s with Some c => cnt (c_used c) o | None => 0 end | None => 0 end.
Definition usedsum (tab : list (option nat)) (cf : cmap) (o : off) : nat := list_sum (map (used_at cf o) tab).

Lemma usedsum_ext tab cf cf' o :
  (forall s, In (Some s) tab -> cf s = cf' s) -> usedsum tab cf o = usedsum tab cf' o.
Proof.
  unfold usedsum. induction tab as [|e t IH]; intros E; [reflexivity|].
  cbn [map]. rewrite !list_sum_cons. rewrite IH by (intros s Hs; apply E; now right).
  f_equal. destruct e as [s|]; [|reflexivity]. cbn [used_at]. rewrite (E s) by now left. reflexivity.
Qed.

Lemma opt_keys_cons_some s t : opt_keys (Some s :: t) = s :: opt_keys t.
Proof. reflexivity. Qed.
Lemma opt_keys_cons_none t : opt_keys (None :: t) = opt_keys t.
Proof. reflexivity. Qed.
Lemma in_opt_keys s t : In s (opt_keys t) <-> In (Some s) t.
Proof.
  induction t as [|e t IH]; [cbn; tauto|]. destruct e as [k|].
  - rewrite opt_keys_cons_some. cbn [In]. rewrite IH. split; intros [H|H]; auto; left; congruence.
  - rewrite opt_keys_cons_none, IH. cbn [In]. split; [auto|]. intros [H|H]; [discriminate|auto].
Qed.

(* replacing the connection of one table entry (the table has no duplicates) *)
Lemma usedsum_fupd tab cf s0 c c' o :
  NoDup (opt_keys tab) -> In (Some s0) tab -> cf s0 = Some c ->
  usedsum tab (fupd cf s0 (Some c')) o + cnt (c_used c) o = usedsum tab cf o + cnt (c_used c') o.
Proof.
  unfold usedsum. induction tab as [|e t IH]; intros Hnd Hin Hc; [destruct Hin|].
  cbn [map]. rewrite !list_sum_cons.
  destruct e as [s|].
  - rewrite opt_keys_cons_some in Hnd. inversion Hnd as [|? ? Hni Hnd']; subst.
    destruct (Nat.eq_dec s s0) as [->|Hne].
    + (* this entry; the rest does not contain s0 *)
      assert (Hrest : list_sum (map (used_at (fupd cf s0 (Some c')) o) t) = list_sum (map (used_at cf o) t)).
      { apply (usedsum_ext t). intros s Hs. unfold fupd. destruct (Nat.eqb s s0) eqn:E; [|reflexivity].
        apply Nat.eqb_eq in E. subst. exfalso. apply Hni. now apply in_opt_keys. }
      rewrite Hrest. cbn [used_at]. unfold fupd at 1. rewrite Nat.eqb_refl, Hc. lia.
    + destruct Hin as [He|Hin]; [congruence|].
      specialize (IH Hnd' Hin Hc). cbn [used_at]. unfold fupd at 1.
      destruct (Nat.eqb s s0) eqn:E; [apply Nat.eqb_eq in E; contradiction|]. lia.
  - rewrite opt_keys_cons_none in Hnd. destruct Hin as [He|Hin]; [discriminate|].
    specialize (IH Hnd Hin Hc). cbn [used_at]. lia.
Qed.

(* removing / adding a table entry *)
Lemma usedsum_upd_none tab cf i s0 c o :
  nth i tab None = Some s0 -> cf s0 = Some c ->
  usedsum (upd tab i None) cf o + cnt (c_used c) o = usedsum tab cf o.
Proof.
  unfold usedsum. revert i. induction tab as [|e t IH]; intros i Hn Hc; [destruct i; discriminate|].
  destruct i as [|j]; cbn [upd map]; rewrite !list_sum_cons.
  - cbn in Hn. subst e. cbn [used_at]. rewrite Hc. lia.
  - cbn in Hn. specialize (IH j Hn Hc). lia.
Qed.

Lemma usedsum_upd_some tab cf i s0 o :
  nth i tab None = None -> i < length tab ->
  usedsum (upd tab i (Some s0)) cf o = usedsum tab cf o + used_at cf o (Some s0).
Proof.
  unfold usedsum. revert i. induction tab as [|e t IH]; intros i Hn Hi; [cbn in Hi; lia|].
  destruct i as [|j]; cbn [upd map]; rewrite !list_sum_cons.
  - cbn in Hn. subst e. cbn [used_at]. lia.
  - cbn in Hn. cbn in Hi. rewrite (IH j Hn) by lia. lia.
Qed.

Lemma usedsum_le_length tab cf o :
  (forall s c, In (Some s) tab -> cf s = Some c -> NoDup (c_used c)) -> usedsum tab cf o <= length tab.
Proof.
  unfold usedsum. induction tab as [|e t IH]; intros Hnd; [cbn; lia|].
  cbn [map length]. rewrite list_sum_cons.
  assert (IH' : list_sum (map (used_at cf o) t) <= length t) by (apply IH; intros s c Hs; apply Hnd; now right).
  destruct e as [s|]; cbn [used_at]; [|lia].
  destruct (cf s) as [c|] eqn:Ec; [|lia].
  pose proof (proj1 (nodup_cnt _) (Hnd s c (or_introl eq_refl) Ec) o). lia.
Qed.

(* ---------------------------------------------------------------------------------------- *)
(* the view invariant                                                                        *)
(* ---------------------------------------------------------------------------------------- *)
Definition holdersV (x : pubst) (ls : list off) (cf : cmap) (o : off) : nat :=
  cnt ls o + cnt (map he_off (p_hist x)) o + usedsum (p_tab x) cf o.

Record ConnOk (cfg : config) (n : nat) (c : conn) (bor : list off) : Prop := {
  co_snd : c_snd c = true;
  co_inv : conn_inv c bor;
  co_lt : forall o, In o (c_used c) -> o < n;
  co_bor : length bor <= c_M c;
  co_total : length (c_sub c) + length bor + length (c_comp c) <= c_B c + c_M c + 1;
  co_B : c_B c <= cf_B cfg;
  co_M : c_M c = cf_M cfg;
  co_n : c_n c = n }.

Definition cfg_sane (cfg : config) : Prop :=
  1 <= cf_S cfg /\ 1 <= cf_P cfg /\ 1 <= cf_B cfg /\ 1 <= cf_M cfg /\ (N.of_nat (cf_S cfg) + N.of_nat (cf_H cfg) + 4 < MAX64)%N.

Record PubInvV (cfg : config) (x : pubst) (ls : list off) (cf : cmap) (bf : bmap) : Prop := {
  pv_n : p_n x = required_samples cfg (p_L x);
  pv_mem : length (p_mem x) = p_n x;
  pv_tab : length (p_tab x) = cf_S cfg;
  pv_rc : RC x (holdersV x ls cf);
  pv_ls_nd : NoDup ls;
  pv_ls_lt : forall o, In o ls -> o < p_n x;
  pv_loans : p_loans x = length ls;
  pv_loans_le : p_loans x <= p_L x;
  pv_hist : length (p_hist x) <= cf_H cfg;
  pv_hist_lt : forall o, In o (map he_off (p_hist x)) -> o < p_n x;
  pv_tab_nd : NoDup (opt_keys (p_tab x));
  pv_conn : forall s, In (Some s) (p_tab x) -> exists c, cf s = Some c /\ ConnOk cfg (p_n x) c (bf s) }.

Lemma PubInvV_ext cfg x ls cf bf cf' bf' :
  (forall s, In (Some s) (p_tab x) -> cf' s = cf s /\ bf' s = bf s) ->
  PubInvV cfg x ls cf bf -> PubInvV cfg x ls cf' bf'.
Proof.
  intros E [a b c d e f g h i k l m]. constructor; auto.
  - eapply RC_ext; [|exact d]. intros o _. unfold holdersV. f_equal. apply usedsum_ext. intros s Hs. symmetry. now apply E.
  - intros s Hs. destruct (m s Hs) as [cc [H1 H2]]. destruct (E s Hs) as [E1 E2]. exists cc. rewrite E1, E2. auto.
Qed.

(* fields of the publisher state the invariant does not look at *)
Lemma PubInvV_fields cfg x x' ls cf bf :
  p_n x' = p_n x -> p_L x' = p_L x -> p_refcnt x' = p_refcnt x -> p_free x' = p_free x ->
  length (p_mem x') = length (p_mem x) -> p_loans x' = p_loans x -> p_hist x' = p_hist x -> p_tab x' = p_tab x ->
  PubInvV cfg x ls cf bf -> PubInvV cfg x' ls cf bf.
Proof.
  intros E1 E2 E3 E4 E5 E6 E7 E8 [a b c d e f g h i k l m].
  constructor; rewrite ?E1, ?E2, ?E5, ?E6, ?E7, ?E8; auto.
  eapply RC_fields; eauto. eapply RC_ext; [|exact d]. intros o _. unfold holdersV. now rewrite E7, E8.
Qed.

Lemma holdersV_small cfg x ls cf bf o :
  cfg_sane cfg -> PubInvV cfg x ls cf bf -> (N.of_nat (holdersV x ls cf o) + 1 < MAX64)%N.
Proof.
  intros (_ & _ & _ & _ & Hs) I. unfold holdersV.
  pose proof (proj1 (nodup_cnt _) (pv_ls_nd _ _ _ _ _ I) o).
  pose proof (cnt_length_le (map he_off (p_hist x)) o) as Hh. rewrite map_length in Hh.
  pose proof (pv_hist _ _ _ _ _ I).
  assert (usedsum (p_tab x) cf o <= cf_S cfg).
  { rewrite <- (pv_tab _ _ _ _ _ I). apply usedsum_le_length. intros s c Hs' Hc.
    destruct (pv_conn _ _ _ _ _ I s Hs') as [c' [Hc' Ok]]. rewrite Hc in Hc'. inversion Hc'; subst. apply (ci_nodup _ _ (co_inv _ _ _ _ Ok)). }
  lia.
Qed.

(* case analysis on every decidable equality test in sight *)
Ltac deq :=
  repeat match goal with
  | |- context [Nat.eqb ?a ?b] => destruct (Nat.eqb_spec a b)
  | H : context [Nat.eqb ?a ?b] |- _ => destruct (Nat.eqb_spec a b)
  | |- context [Nat.eq_dec ?a ?b] => destruct (Nat.eq_dec a b)
  | H : context [Nat.eq_dec ?a ?b] |- _ => destruct (Nat.eq_dec a b)
  end.

(* ---------------------------------------------------------------------------------------- *)
(* micro-steps on the view                                                                   *)
(* ---------------------------------------------------------------------------------------- *)
Lemma fupd_same {A} (f : nat -> A) k v : fupd f k v k = v.
Proof. unfold fupd. now rewrite Nat.eqb_refl. Qed.
Lemma fupd_other {A} (f : nat -> A) k v j : j <> k -> fupd f k v j = f j.
Proof. intros H. unfold fupd. destruct (Nat.eqb j k) eqn:E; [apply Nat.eqb_eq in E; contradiction|reflexivity]. Qed.

(* the holders of a chunk that some table connection uses *)
Lemma usedsum_ge tab cf s c o : In (Some s) tab -> cf s = Some c -> cnt (c_used c) o <= usedsum tab cf o.
Proof.
  unfold usedsum. induction tab as [|e t IH]; intros Hin Hc; [destruct Hin|].
  cbn [map]. rewrite list_sum_cons. destruct Hin as [->|Hin].
  - cbn [used_at]. rewrite Hc. lia.
  - specialize (IH Hin Hc). lia.
Qed.

(* replace the connection of a table entry by one with the same used-chunk set *)
Lemma V_conn_replace cfg x ls cf bf s c c' bor' :
  PubInvV cfg x ls cf bf -> cf s = Some c ->
  (forall o, cnt (c_used c') o = cnt (c_used c) o) ->
  ConnOk cfg (p_n x) c' bor' ->
  PubInvV cfg x ls (fupd cf s (Some c')) (fupd bf s bor').
Proof.
  intros I Hc Hu Ok. destruct I as [a b cc d e f g h i k l m]. constructor; auto.
  - eapply RC_ext; [|exact d]. intros o _. unfold holdersV. f_equal.
    destruct (in_dec opt_nat_dec (Some s) (p_tab x)) as [Hin|Hni].
    + pose proof (usedsum_fupd (p_tab x) cf s c c' o l Hin Hc). rewrite Hu in H. lia.
    + apply usedsum_ext. intros s' Hs'. symmetry. apply fupd_other. intros ->. contradiction.
  - intros s' Hs'. destruct (Nat.eq_dec s' s) as [->|Hne].
    + rewrite !fupd_same. eauto.
    + rewrite !fupd_other by exact Hne. auto.
Qed.

(* reclaim of one offset from the completion queue + release_chunk *)
Lemma c_reclaim_params c c1 r : c_reclaim c = (c1, r) ->
  c_snd c1 = c_snd c /\ c_rcv c1 = c_rcv c /\ c_B c1 = c_B c /\ c_M c1 = c_M c /\ c_n c1 = c_n c /\ c_borrow c1 = c_borrow c /\ c_ovf c1 = c_ovf c.
Proof.
  unfold c_reclaim. destruct (c_comp c) as [|o t]; [intros H; inversion H; subst; auto 10|].
  destruct (mem_off o (c_used c)); intros H; inversion H; subst; cbn; auto 10.
Qed.

Lemma V_reclaim cfg x ls cf bf s c c1 o :
  cfg_sane cfg -> PubInvV cfg x ls cf bf -> In (Some s) (p_tab x) -> cf s = Some c -> c_reclaim c = (c1, RSome o) ->
  PubInvV cfg (pub_release x o) ls (fupd cf s (Some c1)) bf.
Proof.
  intros Hsane I Hin Hc Hr.
  destruct (pv_conn _ _ _ _ _ I s Hin) as [c0 [Hc0 Ok]]. rewrite Hc in Hc0. inversion Hc0; subst c0.
  pose proof (reclaim_spec _ _ _ _ (co_inv _ _ _ _ Ok) Hr) as (Hcomp & Hsub & Hino & Hcnt & Hinv1).
  destruct (c_reclaim_params _ _ _ Hr) as (P1 & P2 & P3 & P4 & P5 & P6 & P7).
  pose proof (holdersV_small cfg x ls cf bf o Hsane I) as Hsm.
  assert (Hon : o < p_n x) by (apply (co_lt _ _ _ _ Ok); exact Hino).
  assert (Hge : 1 <= holdersV x ls cf o).
  { unfold holdersV. pose proof (usedsum_ge (p_tab x) cf s c o Hin Hc). apply cnt_pos_In in Hino. lia. }
  destruct I as [a b cc d e f g h i k l m].
  constructor; auto.
  - eapply RC_ext; [|apply (RC_release x _ o d Hon Hge); lia].
    intros o' _. unfold bump, holdersV. cbn [p_hist p_tab pub_release p_set_chunks].
    pose proof (usedsum_fupd (p_tab x) cf s c c1 o' l Hin Hc) as Hs. specialize (Hcnt o'). rewrite cnt_one in Hcnt.
    destruct (Nat.eqb o' o) eqn:E.
    + apply Nat.eqb_eq in E. subst o'. destruct (Nat.eq_dec o o); [|congruence]. unfold holdersV in Hge. lia.
    + apply Nat.eqb_neq in E. destruct (Nat.eq_dec o o'); [congruence|]. lia.
  - intros s' Hs'. cbn [p_tab pub_release p_set_chunks] in Hs'. cbn [p_n pub_release p_set_chunks].
    destruct (Nat.eq_dec s' s) as [->|Hne].
    + rewrite fupd_same. exists c1. split; [reflexivity|].
      destruct Ok as [o1 o2 o3 o4 o5 o6 o7 o8]. constructor.
      * congruence.
      * exact Hinv1.
      * intros o' Ho'. apply o3. apply cnt_pos_In. apply cnt_pos_In in Ho'. specialize (Hcnt o'). lia.
      * rewrite P4. exact o4.
      * rewrite Hsub, P3, P4. rewrite Hcomp in o5. cbn [length] in o5. lia.
      * congruence.
      * congruence.
      * congruence.
    + rewrite fupd_other by exact Hne. now apply m.
Qed.

(* one delivery: try_send accepted + borrow_chunk(o) + release_chunk(evicted) *)
Lemma c_try_send_params c o gi c1 r : c_try_send c o gi = Val (c1, r) ->
  c_snd c1 = c_snd c /\ c_rcv c1 = c_rcv c /\ c_B c1 = c_B c /\ c_M c1 = c_M c /\ c_n c1 = c_n c /\ c_borrow c1 = c_borrow c /\ c_ovf c1 = c_ovf c /\ c_comp c1 = c_comp c.
Proof.
  unfold c_try_send. cbn zeta.
  destruct (negb (c_ovf c) && c_is_full c); [intros H; inversion H; subst; auto 10|].
  destruct (Nat.leb (c_n c) o); [discriminate|]. destruct (mem_off o (c_used c)); [discriminate|].
  destruct (Nat.ltb (length (c_sub c)) (c_B c)); [intros H; inversion H; subst; cbn; auto 10|].
  destruct (c_sub c) as [|old rest]; [discriminate|].
  match goal with |- context [mem_off (q_off old) ?l] => destruct (mem_off (q_off old) l) end; intros H; inversion H; subst; cbn; auto 10.
Qed.

Lemma V_send cfg x ls cf bf s c c1 o gi ev :
  cfg_sane cfg -> PubInvV cfg x ls cf bf -> In (Some s) (p_tab x) -> cf s = Some c ->
  c_try_send c o gi = Val (c1, SOk ev) -> o < p_n x -> 1 <= holdersV x ls cf o ->
  length (c_sub c) + length (bf s) + length (c_comp c) <= c_B c + c_M c ->
  PubInvV cfg (pub_account_send x o ev) ls (fupd cf s (Some c1)) bf.
Proof.
  intros Hsane I Hin Hc Hs Hon Hge Htight.
  destruct (pv_conn _ _ _ _ _ I s Hin) as [c0 [Hc0 Ok]]. rewrite Hc in Hc0. inversion Hc0; subst c0.
  pose proof (try_send_spec _ _ _ _ _ _ (co_inv _ _ _ _ Ok) Hs) as Hspec. cbn zeta in Hspec.
  destruct (c_try_send_params _ _ _ _ _ Hs) as (P1 & P2 & P3 & P4 & P5 & P6 & P7 & P8).
  pose proof (fun o' => holdersV_small cfg x ls cf bf o' Hsane I) as Hsm.
  pose proof (RC_borrow x _ o (pv_rc _ _ _ _ _ I) Hon Hge ltac:(specialize (Hsm o); lia)) as [Hb _].
  assert (G1 : p_n (pub_account_send x o ev) = p_n x) by (unfold pub_account_send; destruct ev; reflexivity).
  assert (G2 : p_L (pub_account_send x o ev) = p_L x) by (unfold pub_account_send; destruct ev; reflexivity).
  assert (G3 : p_mem (pub_account_send x o ev) = p_mem x) by (unfold pub_account_send; destruct ev; reflexivity).
  assert (G4 : p_loans (pub_account_send x o ev) = p_loans x) by (unfold pub_account_send; destruct ev; reflexivity).
  assert (G5 : p_hist (pub_account_send x o ev) = p_hist x) by (unfold pub_account_send; destruct ev; reflexivity).
  assert (G6 : p_tab (pub_account_send x o ev) = p_tab x) by (unfold pub_account_send; destruct ev; reflexivity).
  assert (Hpv : forall s', In (Some s') (p_tab x) -> exists c', fupd cf s (Some c1) s' = Some c' /\ ConnOk cfg (p_n x) c' (bf s')).
  { intros s' Hs'. destruct (Nat.eq_dec s' s) as [->|Hne].
    - rewrite fupd_same. exists c1. split; [reflexivity|].
      destruct Ok as [o1 o2 o3 o4 o5 o6 o7 o8].
      destruct ev as [old|].
      + destruct Hspec as (Hovf & Hfull & (e0 & rest & Hsub & Hold & Hsub') & Hcnt & Hcomp & Hni & Hino & Hinv1).
        constructor.
        * congruence.
        * exact Hinv1.
        * intros o' Ho'. apply cnt_pos_In in Ho'. specialize (Hcnt o'). rewrite !cnt_one in Hcnt.
          destruct (Nat.eq_dec o o'); [subst; exact Hon|]. apply o3. apply cnt_pos_In. destruct (Nat.eq_dec old o'); lia.
        * rewrite P4. exact o4.
        * rewrite Hsub', P3, P4, P8. rewrite app_length. rewrite Hsub in o5. cbn [length] in *. lia.
        * congruence.
        * congruence.
        * congruence.
      + destruct Hspec as (Hlt & Hsub' & Hused & Hcomp & Hni & Hinv1).
        constructor.
        * congruence.
        * exact Hinv1.
        * intros o' Ho'. rewrite Hused in Ho'. destruct Ho' as [<-|Ho']; [exact Hon|now apply o3].
        * rewrite P4. exact o4.
        * rewrite Hsub', P3, P4, P8, app_length. cbn [length]. lia.
        * congruence.
        * congruence.
        * congruence.
    - rewrite fupd_other by exact Hne. now apply (pv_conn _ _ _ _ _ I). }
  destruct I as [a b cc d e f g h i k l m].
  constructor; rewrite ?G1, ?G2, ?G3, ?G4, ?G5, ?G6; auto.
  unfold holdersV. rewrite G5, G6. fold (holdersV x ls (fupd cf s (Some c1))).
  unfold pub_account_send.
  destruct ev as [old|]; cbn [pub_release_opt].
  - destruct Hspec as (Hovf & Hfull & (e0 & rest & Hsub & Hold & Hsub') & Hcnt & Hcomp & Hni & Hino & Hinv1).
    assert (Hne : old <> o) by (intros ->; contradiction).
    assert (Holdn : old < p_n x) by (apply (co_lt _ _ _ _ Ok); exact Hino).
    assert (Hge2 : 1 <= bump (holdersV x ls cf) o (S (holdersV x ls cf o)) old).
    { unfold bump. destruct (Nat.eqb old o) eqn:E; [apply Nat.eqb_eq in E; contradiction|].
      unfold holdersV. pose proof (usedsum_ge (p_tab x) cf s c old Hin Hc). apply cnt_pos_In in Hino. lia. }
    eapply RC_ext; [|apply (RC_release _ _ old Hb)]; cbn [p_n fst pub_borrow p_set_chunks]; auto.
    + intros o' _. unfold bump, holdersV.
      pose proof (usedsum_fupd (p_tab x) cf s c c1 o' l Hin Hc) as Hsum. specialize (Hcnt o'). rewrite !cnt_one in Hcnt.
      pose proof (usedsum_ge (p_tab x) cf s c o' Hin Hc) as Hg.
      assert (Hk : o' = old -> 1 <= cnt (c_used c) o') by (intros ->; now apply cnt_pos_In).
      deq; subst; try congruence; try (specialize (Hk eq_refl)); lia.
    + unfold bump. pose proof (Hsm old). pose proof (Hsm o). deq; lia.
  - destruct Hspec as (Hlt & Hsub' & Hused & Hcomp & Hni & Hinv1).
    eapply RC_ext; [|exact Hb].
    intros o' _. unfold bump, holdersV. cbn [p_hist p_tab pub_borrow fst p_set_chunks].
    pose proof (usedsum_fupd (p_tab x) cf s c c1 o' l Hin Hc) as Hsum. rewrite Hused, cnt_cons in Hsum.
    destruct (Nat.eqb o' o) eqn:E.
    + apply Nat.eqb_eq in E. subst. destruct (Nat.eq_dec o o); [|congruence]. lia.
    + apply Nat.eqb_neq in E. destruct (Nat.eq_dec o o'); [congruence|]. lia.
Qed.

(* ---- remove_connection: acquire_used_offsets(release_chunk), connections[i] = None ------- *)
Lemma fold_release_fields offs : forall x,
  p_n (fold_left pub_release offs x) = p_n x /\ p_L (fold_left pub_release offs x) = p_L x
  /\ p_mem (fold_left pub_release offs x) = p_mem x /\ p_loans (fold_left pub_release offs x) = p_loans x
  /\ p_hist (fold_left pub_release offs x) = p_hist x /\ p_tab (fold_left pub_release offs x) = p_tab x
  /\ p_active (fold_left pub_release offs x) = p_active x /\ p_alive (fold_left pub_release offs x) = p_alive x
  /\ p_slot (fold_left pub_release offs x) = p_slot x /\ p_snap (fold_left pub_release offs x) = p_snap x.
Proof. induction offs as [|a t IH]; intros x; [cbn; auto 12|]. cbn [fold_left]. destruct (IH (pub_release x a)) as (?&?&?&?&?&?&?&?&?&?). cbn in *. auto 12. Qed.

Lemma RC_release_list offs : forall x H,
  RC x H -> (forall o, cnt offs o <= H o) -> (forall o, In o offs -> o < p_n x) -> (forall o, (N.of_nat (H o) < MAX64)%N) ->
  RC (fold_left pub_release offs x) (fun o => H o - cnt offs o).
Proof.
  induction offs as [|a t IH]; intros x H R Hle Hlt Hsm.
  - cbn [fold_left]. eapply RC_ext; [|exact R]. intros o _. cbn. lia.
  - cbn [fold_left].
    assert (Ha : a < p_n x) by (apply Hlt; now left).
    assert (Hge : 1 <= H a) by (specialize (Hle a); rewrite cnt_cons in Hle; deq; lia).
    pose proof (RC_release x H a R Ha Hge (Hsm a)) as R1.
    specialize (IH (pub_release x a) _ R1).
    eapply RC_ext; [|apply IH].
    + intros o _. unfold bump. rewrite cnt_cons. deq; subst; lia.
    + intros o. unfold bump. specialize (Hle o). rewrite cnt_cons in Hle. deq; subst; lia.
    + intros o Ho. cbn [p_n pub_release p_set_chunks]. apply Hlt. now right.
    + intros o. unfold bump. pose proof (Hsm o). pose proof (Hsm a). deq; lia.
Qed.

Lemma in_upd_none {A} (l : list (option A)) i v : In (Some v) (upd l i None) -> In (Some v) l.
Proof.
  revert i. induction l as [|h t IH]; intros i H; [destruct i; exact H|].
  destruct i; cbn [upd] in H; destruct H as [H|H].
  - discriminate.
  - now right.
  - now left.
  - right. eauto.
Qed.

Lemma nodup_opt_keys_upd_none l i : NoDup (opt_keys l) -> NoDup (opt_keys (upd l i None)).
Proof.
  revert i. induction l as [|h t IH]; intros i H; [destruct i; exact H|].
  destruct i; cbn [upd].
  - destruct h; [rewrite opt_keys_cons_some in H; inversion H; subst|]; rewrite opt_keys_cons_none; auto.
  - destruct h as [k|].
    + rewrite opt_keys_cons_some in *. inversion H; subst. constructor; auto.
      intros Hi. apply in_opt_keys in Hi. apply in_upd_none in Hi. apply in_opt_keys in Hi. contradiction.
    + rewrite opt_keys_cons_none in *. auto.
Qed.

Lemma V_remove cfg x ls cf bf i s c c1 offs :
  cfg_sane cfg -> PubInvV cfg x ls cf bf -> nth i (p_tab x) None = Some s -> cf s = Some c -> c_acquire_used c = (c1, offs) ->
  PubInvV cfg (p_set_tab (fold_left pub_release offs x) (upd (p_tab x) i None)) ls cf bf.
Proof.
  intros Hsane I Hn Hc Ha.
  assert (Hin : In (Some s) (p_tab x)).
  { rewrite <- Hn. apply nth_In. destruct (Nat.lt_ge_cases i (length (p_tab x))); [auto|]. rewrite nth_overflow in Hn by lia. discriminate. }
  destruct (pv_conn _ _ _ _ _ I s Hin) as [c0 [Hc0 Ok]]. rewrite Hc in Hc0. inversion Hc0; subst c0.
  assert (Hlt : forall o, In o (c_used c) -> o < c_n c) by (intros o Ho; rewrite (co_n _ _ _ _ Ok); now apply (co_lt _ _ _ _ Ok)).
  pose proof (acquire_used_spec _ _ _ Ha (ci_nodup _ _ (co_inv _ _ _ _ Ok)) Hlt) as (_ & _ & _ & Hcnt).
  destruct (fold_release_fields offs x) as (F1 & F2 & F3 & F4 & F5 & F6 & _).
  pose proof (fun o => holdersV_small cfg x ls cf bf o Hsane I) as Hsm.
  assert (R : RC (fold_left pub_release offs x) (fun o => holdersV x ls cf o - cnt offs o)).
  { apply RC_release_list; [exact (pv_rc _ _ _ _ _ I)| | |].
    - intros o. rewrite Hcnt. unfold holdersV. pose proof (usedsum_ge (p_tab x) cf s c o Hin Hc). lia.
    - intros o Ho. apply (co_lt _ _ _ _ Ok). apply cnt_pos_In. rewrite <- Hcnt. now apply cnt_pos_In.
    - intros o. specialize (Hsm o). lia. }
  destruct I as [a b cc d e f g h i0 k l m].
  constructor; cbn [p_n p_L p_mem p_loans p_hist p_tab p_set_tab]; rewrite ?F1, ?F2, ?F3, ?F4, ?F5; auto.
  - now rewrite upd_length.
  - eapply (RC_fields (fold_left pub_release offs x)); [reflexivity|reflexivity|reflexivity|].
    eapply RC_ext; [|exact R]. intros o _. unfold holdersV. cbn [p_hist p_tab p_set_tab]. rewrite F5, Hcnt.
    pose proof (usedsum_upd_none (p_tab x) cf i s c o Hn Hc). lia.
  - now apply nodup_opt_keys_upd_none.
  - intros s' Hs'. apply m. now apply in_upd_none in Hs'.
Qed.

(* ---- a new table entry whose connection uses no chunk yet -------------------------------- *)
Lemma in_upd_some {A} (l : list (option A)) i v u : In (Some v) (upd l i (Some u)) -> v = u \/ In (Some v) l.
Proof.
  revert i. induction l as [|h t IH]; intros i H; [destruct i; destruct H|].
  destruct i; cbn [upd] in H; destruct H as [H|H].
  - left. congruence.
  - right. now right.
  - right. now left.
  - destruct (IH _ H); auto. right. now right.
Qed.

Lemma nodup_opt_keys_upd_some l i u :
  nth i l None = None -> NoDup (opt_keys l) -> ~ In (Some u) l -> NoDup (opt_keys (upd l i (Some u))).
Proof.
  revert i. induction l as [|h t IH]; intros i Hn H Hni; [destruct i; exact H|].
  destruct i; cbn [upd].
  - cbn in Hn. subst h. rewrite opt_keys_cons_none in H. rewrite opt_keys_cons_some. constructor; auto.
    intros Hi. apply in_opt_keys in Hi. apply Hni. now right.
  - cbn in Hn. destruct h as [k|].
    + rewrite opt_keys_cons_some in *. inversion H; subst. constructor.
      * intros Hi. apply in_opt_keys in Hi. apply in_upd_some in Hi as [->|Hi]; [apply Hni; now left|]. apply in_opt_keys in Hi. contradiction.
      * apply IH; auto. intros Hi. apply Hni. now right.
    + rewrite opt_keys_cons_none in *. apply IH; auto. intros Hi. apply Hni. now right.
Qed.

Lemma V_attach cfg x ls cf bf i s c :
  PubInvV cfg x ls cf bf -> nth i (p_tab x) None = None -> i < length (p_tab x) -> ~ In (Some s) (p_tab x) ->
  cf s = Some c -> ConnOk cfg (p_n x) c (bf s) -> c_used c = [] ->
  PubInvV cfg (p_set_tab x (upd (p_tab x) i (Some s))) ls cf bf.
Proof.
  intros I Hn Hi Hni Hc Ok Hu. destruct I as [a b cc d e f g h i0 k l m].
  constructor; cbn [p_n p_L p_mem p_loans p_hist p_tab p_set_tab]; auto.
  - now rewrite upd_length.
  - eapply (RC_fields x); [reflexivity|reflexivity|reflexivity|].
    eapply RC_ext; [|exact d]. intros o _. unfold holdersV. cbn [p_hist p_tab p_set_tab].
    rewrite (usedsum_upd_some (p_tab x) cf i s o Hn Hi). cbn [used_at]. rewrite Hc, Hu. cbn. lia.
  - now apply nodup_opt_keys_upd_some.
  - intros s' Hs'. apply in_upd_some in Hs' as [->|Hs']; eauto.
Qed.

(* ---- history --------------------------------------------------------------------------- *)
Lemma V_hist_push cfg x ls cf bf o gi :
  cfg_sane cfg -> PubInvV cfg x ls cf bf -> o < p_n x -> 1 <= holdersV x ls cf o -> length (p_hist x) < cf_H cfg ->
  PubInvV cfg (p_set_hist (fst (pub_borrow x o)) (p_hist x ++ [{| he_off := o; he_idx := gi |}])) ls cf bf.
Proof.
  intros Hsane I Hon Hge Hlen.
  pose proof (holdersV_small cfg x ls cf bf o Hsane I) as Hsm.
  pose proof (RC_borrow x _ o (pv_rc _ _ _ _ _ I) Hon Hge ltac:(lia)) as [Hb _].
  destruct I as [a b cc d e f g h i0 k l m].
  constructor; cbn [p_n p_L p_mem p_loans p_hist p_tab p_set_hist fst pub_borrow p_set_chunks]; auto.
  - eapply (RC_fields (fst (pub_borrow x o))); [reflexivity|reflexivity|reflexivity|].
    eapply RC_ext; [|exact Hb]. intros o' _. unfold bump, holdersV. cbn [p_hist p_tab p_set_hist fst pub_borrow p_set_chunks].
    rewrite map_app, cnt_app. cbn [map]. rewrite cnt_one. cbn [he_off]. deq; subst; lia.
  - rewrite app_length. cbn. lia.
  - intros o' Ho'. rewrite map_app in Ho'. apply in_app_or in Ho' as [Ho'|[<-|[]]]; auto.
Qed.

Lemma V_hist_evict cfg x ls cf bf o gi old rest :
  cfg_sane cfg -> PubInvV cfg x ls cf bf -> o < p_n x -> 1 <= holdersV x ls cf o -> p_hist x = old :: rest ->
  PubInvV cfg (pub_release (p_set_hist (fst (pub_borrow x o)) (rest ++ [{| he_off := o; he_idx := gi |}])) (he_off old)) ls cf bf.
Proof.
  intros Hsane I Hon Hge Hh.
  pose proof (fun o' => holdersV_small cfg x ls cf bf o' Hsane I) as Hsm.
  pose proof (RC_borrow x _ o (pv_rc _ _ _ _ _ I) Hon Hge ltac:(specialize (Hsm o); lia)) as [Hb _].
  assert (Hold : he_off old < p_n x) by (apply (pv_hist_lt _ _ _ _ _ I); rewrite Hh; now left).
  assert (Hge2 : 1 <= holdersV x ls cf (he_off old)) by (unfold holdersV; rewrite Hh; cbn [map]; rewrite cnt_cons; deq; lia).
  set (x1 := p_set_hist (fst (pub_borrow x o)) (rest ++ [{| he_off := o; he_idx := gi |}])).
  assert (Hb1 : RC x1 (bump (holdersV x ls cf) o (S (holdersV x ls cf o)))) by (eapply (RC_fields (fst (pub_borrow x o))); [reflexivity|reflexivity|reflexivity|exact Hb]).
  assert (R : RC (pub_release x1 (he_off old)) (bump (bump (holdersV x ls cf) o (S (holdersV x ls cf o))) (he_off old)
                                                    (bump (holdersV x ls cf) o (S (holdersV x ls cf o)) (he_off old) - 1))).
  { apply RC_release; auto.
    - unfold bump. deq; lia.
    - unfold bump. pose proof (Hsm o). pose proof (Hsm (he_off old)). deq; lia. }
  destruct I as [a b cc d e f g h i0 k l m].
  constructor; cbn [p_n p_L p_mem p_loans p_hist p_tab p_set_hist fst pub_borrow p_set_chunks pub_release x1]; auto.
  - eapply RC_ext; [|exact R]. intros o' _. unfold bump, holdersV.
    cbn [p_hist p_tab p_set_hist fst pub_borrow p_set_chunks pub_release x1].
    rewrite Hh. cbn [map]. rewrite map_app, cnt_app, !cnt_cons. cbn [map]. rewrite cnt_one. cbn [he_off].
    unfold holdersV in Hge2. rewrite Hh in Hge2. cbn [map] in Hge2. rewrite cnt_cons in Hge2.
    deq; subst; try congruence; lia.
  - rewrite Hh in i0. rewrite app_length. cbn [length] in *. lia.
  - intros o' Ho'. rewrite map_app in Ho'. apply in_app_or in Ho' as [Ho'|[<-|[]]]; auto.
    apply k. rewrite Hh. cbn [map]. now right.
Qed.

Lemma NoDup_app_one (l : list nat) a : NoDup l -> ~ In a l -> NoDup (l ++ [a]).
Proof.
  intros H Hn. apply nodup_cnt. intros x. rewrite cnt_app, cnt_one. pose proof (proj1 (nodup_cnt _) H x).
  destruct (Nat.eq_dec a x); [subst; apply (count_occ_not_In Nat.eq_dec) in Hn; lia|lia].
Qed.

(* ---- loans ------------------------------------------------------------------------------ *)
Lemma V_alloc cfg x ls cf bf o rest :
  PubInvV cfg x ls cf bf -> p_free x = o :: rest -> p_loans x < p_L x ->
  PubInvV cfg (p_set_loans (fst (pub_borrow (p_set_chunks x (p_refcnt x) rest) o)) (S (p_loans x))) (ls ++ [o]) cf bf
  /\ snd (pub_borrow (p_set_chunks x (p_refcnt x) rest) o) = 0%N /\ o < p_n x /\ holdersV x ls cf o = 0.
Proof.
  intros I Hf Hl.
  destruct (RC_alloc x _ o rest (pv_rc _ _ _ _ _ I) Hf) as (Hon & Hz & R & Hold).
  splits; auto.
  assert (Hnl : ~ In o ls).
  { intros Hi. apply cnt_pos_In in Hi. unfold holdersV in Hz. lia. }
  destruct I as [a b cc d e f g h i0 k l m].
  constructor; cbn [p_n p_L p_mem p_loans p_hist p_tab p_set_loans fst pub_borrow p_set_chunks]; auto.
  - eapply (RC_fields (fst (pub_borrow (p_set_chunks x (p_refcnt x) rest) o))); [reflexivity|reflexivity|reflexivity|].
    eapply RC_ext; [|exact R]. intros o' _. unfold bump, holdersV. cbn [p_hist p_tab p_set_loans fst pub_borrow p_set_chunks].
    rewrite cnt_app, cnt_one. unfold holdersV in Hz. deq; subst; lia.
  - apply NoDup_app_one; auto.
  - intros o' Ho'. apply in_app_or in Ho' as [Ho'|[<-|[]]]; auto.
  - rewrite app_length. cbn. lia.
Qed.

Lemma V_loan_drop cfg x ls cf bf l1 o l2 :
  cfg_sane cfg -> PubInvV cfg x ls cf bf -> ls = l1 ++ o :: l2 ->
  PubInvV cfg (p_set_loans (pub_release x o) (Nat.pred (p_loans (pub_release x o)))) (l1 ++ l2) cf bf.
Proof.
  intros Hsane I E.
  pose proof (holdersV_small cfg x ls cf bf o Hsane I) as Hsm.
  assert (Hin : In o ls) by (rewrite E; apply in_or_app; right; now left).
  assert (Hon : o < p_n x) by (now apply (pv_ls_lt _ _ _ _ _ I)).
  assert (Hge : 1 <= holdersV x ls cf o) by (unfold holdersV; apply cnt_pos_In in Hin; lia).
  pose proof (RC_release x _ o (pv_rc _ _ _ _ _ I) Hon Hge ltac:(lia)) as R.
  destruct I as [a b cc d e f g h i0 k l m].
  assert (Hc : forall o', cnt ls o' = cnt (l1 ++ l2) o' + (if Nat.eq_dec o o' then 1 else 0)).
  { intros o'. rewrite E, !cnt_app, cnt_cons. lia. }
  constructor; cbn [p_n p_L p_mem p_loans p_hist p_tab p_set_loans pub_release p_set_chunks]; auto.
  - eapply (RC_fields (pub_release x o)); [reflexivity|reflexivity|reflexivity|].
    eapply RC_ext; [|exact R]. intros o' _. unfold bump, holdersV. cbn [p_hist p_tab pub_release p_set_chunks p_set_loans].
    pose proof (Hc o) as Hco. specialize (Hc o'). unfold holdersV in Hge. deq; subst; try congruence; lia.
  - apply nodup_cnt. intros o'. pose proof (proj1 (nodup_cnt _) e o'). specialize (Hc o'). lia.
  - intros o' Ho'. apply f. rewrite E. apply in_app_or in Ho' as [Ho'|Ho']; apply in_or_app; [now left|right; now right].
  - rewrite g, E, !app_length. cbn [length]. lia.
  - lia.
Qed.

(* ---- what the receiver side does to a table connection ------------------------------------ *)
Lemma c_receive_params c c1 r : c_receive c = (c1, r) ->
  c_snd c1 = c_snd c /\ c_rcv c1 = c_rcv c /\ c_B c1 = c_B c /\ c_M c1 = c_M c /\ c_n c1 = c_n c /\ c_ovf c1 = c_ovf c.
Proof.
  unfold c_receive. destruct (Nat.leb (c_M c) (c_borrow c)); [intros H; inversion H; subst; auto 10|].
  destruct (c_sub c); intros H; inversion H; subst; cbn; auto 10.
Qed.

Lemma ConnOk_recv cfg n c bor c1 e :
  ConnOk cfg n c bor -> c_receive c = (c1, RcvOk (Some e)) ->
  ConnOk cfg n c1 (bor ++ [q_off e]) /\ c_used c1 = c_used c /\ c_sub c = e :: c_sub c1 /\ c_comp c1 = c_comp c.
Proof.
  intros Ok Hr. pose proof (receive_spec _ _ _ _ (co_inv _ _ _ _ Ok) Hr) as H. cbn in H.
  destruct H as (Hlt & Hsub & Hcomp & Hused & Hinv1).
  destruct (c_receive_params _ _ _ Hr) as (P1 & P2 & P3 & P4 & P5 & P6).
  destruct Ok as [o1 o2 o3 o4 o5 o6 o7 o8]. splits; auto.
  constructor.
  - congruence.
  - exact Hinv1.
  - rewrite Hused. exact o3.
  - rewrite app_length, P4. cbn [length]. rewrite <- (ci_borrow _ _ o2). lia.
  - rewrite Hcomp, P3, P4, app_length. rewrite Hsub in o5. cbn [length] in *. lia.
  - congruence.
  - congruence.
  - congruence.
Qed.

Lemma ConnOk_release cfg n c bor o bor' :
  ConnOk cfg n c bor -> minus_one bor o bor' ->
  exists c1, c_release c o = Val (c1, true) /\ ConnOk cfg n c1 bor' /\ c_used c1 = c_used c /\ c_sub c1 = c_sub c.
Proof.
  intros Ok Hm. destruct (release_spec _ _ _ _ (co_inv _ _ _ _ Ok) Hm (co_total _ _ _ _ Ok)) as (c1 & Hr & Hsub & Hused & Hcomp & Hinv1).
  exists c1. splits; auto.
  assert (P : c_snd c1 = c_snd c /\ c_B c1 = c_B c /\ c_M c1 = c_M c /\ c_n c1 = c_n c).
  { unfold c_release in Hr. destruct (Nat.ltb (length (c_comp c)) (comp_cap c)); [|discriminate].
    destruct (c_borrow c); [discriminate|]. inversion Hr; subst. cbn. auto. }
  destruct P as (P1 & P3 & P4 & P5). destruct Hm as [Hl Hc].
  destruct Ok as [o1 o2 o3 o4 o5 o6 o7 o8]. constructor.
  - congruence.
  - exact Hinv1.
  - rewrite Hused. exact o3.
  - rewrite P4. lia.
  - rewrite Hsub, Hcomp, P3, P4, app_length. cbn [length]. lia.
  - congruence.
  - congruence.
  - congruence.
Qed.

(* attach / detach of either port with no sample borrowed through the connection *)
Lemma ConnOk_ports cfg n c sflag rflag :
  ConnOk cfg n c [] -> sflag = true ->
  ConnOk cfg n (set_ports (set_sub_borrow c (c_sub c) 0) sflag rflag) [].
Proof.
  intros [o1 o2 o3 o4 o5 o6 o7 o8] ->. destruct o2 as [i1 i2 i3 i4 i5]. constructor; cbn; auto.
  constructor; cbn; auto.
Qed.

Lemma ConnOk_set_ports cfg n c bor rflag :
  ConnOk cfg n c bor -> ConnOk cfg n (set_ports c true rflag) bor.
Proof.
  intros [o1 o2 o3 o4 o5 o6 o7 o8]. destruct o2 as [i1 i2 i3 i4 i5]. constructor; cbn; auto.
  constructor; cbn; auto.
Qed.
