(* string/mod.rs: what is proved about the model (the refinement of the byte-list reference is
   NOT proved here -- it is tied by the G3 correspondence only): documented errors change
   nothing; acceptance by insert_bytes implies the byte rule and the capacity bound; the three
   deviations from the reference are exhibited on the model. *)
From V Require Import model.Base model.Obs model.Vec model.Str.
From Coq Require Import ZifyBool ZifyNat ZifyN.
Open Scope N_scope.

Lemma str_insert_bytes_cases s idx l r :
  str_insert_bytes s idx l = Val r ->
  (r = (s, OErr EExceedsCapacity) /\ idx <= slen s /\ scap s < slen s + lenN l) \/
  (r = (s, OErr EInvalidCharacter) /\ idx <= slen s /\ slen s + lenN l <= scap s /\ existsb bad_byte l = true) \/
  (snd r = OUnit /\ idx <= slen s /\ slen s + lenN l <= scap s /\ existsb bad_byte l = false /\
   slen (fst r) = slen s + lenN l /\ scap (fst r) = scap s /\ sfl (fst r) = sfl s).
Proof.
  unfold str_insert_bytes. intros H.
  destruct (N.ltb_spec (slen s) idx); [discriminate|].
  destruct (N.ltb_spec (scap s) (slen s + lenN l)).
  { inversion H; subst. left. auto. }
  destruct (existsb bad_byte l) eqn:Eb.
  { inversion H; subst. right; left. auto. }
  right; right.
  destruct (swrite_from s _ idx l); [|discriminate].
  destruct (N.ltb (slen s + lenN l) (slimit s)).
  - destruct (swr s a (slen s + lenN l) 0); [|discriminate]. inversion H; subst. cbn. repeat split; auto.
  - inversion H; subst. cbn. repeat split; auto.
Qed.

(* a call that fails with a documented error leaves the whole record unchanged *)
Theorem str_error_unchanged s o s' e : str_step s o = (s', OErr e) -> s' = s.
Proof.
  assert (G : forall idx l, match str_insert_bytes s idx l with Val r => r | Panic => (s, OP) end = (s', OErr e) -> s' = s).
  { intros idx l H. destruct (str_insert_bytes s idx l) as [r|] eqn:E; [|inversion H].
    subst r. apply str_insert_bytes_cases in E. destruct E as [(E & _)|[(E & _)|(E & _)]].
    - inversion E; auto.
    - inversion E; auto.
    - cbn in E. discriminate. }
  destruct o; cbn [str_step]; intros H; try (eapply G; exact H);
    repeat match type of H with
           | context [match ?x with _ => _ end] => destruct x
           end; inversion H.
Qed.

(* acceptance implies the byte rule: every byte is in 1..127, the index is inside, the result fits *)
Theorem str_insert_accept_sound s idx l s' :
  str_insert_bytes s idx l = Val (s', OUnit) ->
  idx <= slen s /\ slen s + lenN l <= scap s /\ Forall (fun b => 1 <= b <= 127) l /\ slen s' = slen s + lenN l.
Proof.
  intros H. apply str_insert_bytes_cases in H. destruct H as [(E & _)|[(E & _)|(_ & H1 & H2 & H3 & H4 & _)]]; try (inversion E; fail).
  cbn [fst] in H4. repeat split; auto.
  apply Forall_forall. intros b Hb.
  assert (bad_byte b = false).
  { destruct (bad_byte b) eqn:E; [|reflexivity]. rewrite <- H3. symmetry. apply existsb_exists. eauto. }
  unfold bad_byte in H. lia.
Qed.

(* on the reference: accepted iff inside, fits and all bytes in 1..127 (all 256 byte values, and beyond) *)
Theorem sins_accept_iff s i l :
  snd (sins s i l) = OUnit <->
  i <= lenN (sbytes s) /\ lenN (sbytes s) + lenN l <= sscap s /\ Forall (fun b => 1 <= b <= 127) l.
Proof.
  unfold sins.
  destruct (N.ltb_spec (lenN (sbytes s)) i); cbn [snd]; [split; [discriminate|lia]|].
  destruct (N.ltb_spec (sscap s) (lenN (sbytes s) + lenN l)); cbn [snd]; [split; [discriminate|lia]|].
  destruct (existsb bad_byte l) eqn:Eb; cbn [snd].
  - split; [discriminate|]. intros (_ & _ & F). exfalso. apply existsb_exists in Eb. destruct Eb as (b & Hb & Hbad).
    rewrite Forall_forall in F. specialize (F b Hb). unfold bad_byte in Hbad. lia.
  - split; [|reflexivity]. intros _. repeat split; auto. apply Forall_forall. intros b Hb.
    assert (bad_byte b = false).
    { destruct (bad_byte b) eqn:E; [|reflexivity]. rewrite <- Eb. symmetry. apply existsb_exists. eauto. }
    unfold bad_byte in H1. lia.
Qed.

(* ---- the clause as the property states it is false of the faithful model: three witnesses ---- *)
Fixpoint str_run (s : str) (ops : list sop) : list obs :=
  match ops with [] => [] | o :: t => let '(s', ob) := str_step s o in ob :: str_run s' t end.
Fixpoint sstr_run (dev : bool) (s : sstr) (ops : list sop) : list obs :=
  match ops with [] => [] | o :: t => let '(s', ob) := sstr_step dev s o in ob :: sstr_run dev s' t end.

Definition str_refines_full : Prop := forall fl c ops,
  str_run (str_new fl c) ops = sstr_run false (sstr_new fl c) ops.

(* (a) retain removes the bytes for which the predicate holds *)
Lemma str_retain_witness :
  str_run (str_new FPoly 1) [SPush 97; SRetain [97]; SBytes] = [OUnit; OUnit; OL []] /\
  sstr_run false (sstr_new FPoly 1) [SPush 97; SRetain [97]; SBytes] = [OUnit; OUnit; OL [97]].
Proof. split; reflexivity. Qed.
(* regression histories: the former deviations (fixed in /repo by 8cf1846, b417f55) *)
Lemma str_regression_zero_len :
  str_run (str_new FStatic 1) [SPush 97; SStripPrefix []; SStripSuffix []; SRemoveRange 1 0; SBytes] =
  [OUnit; OB true; OB true; OB true; OL [97]].
Proof. reflexivity. Qed.
Lemma str_regression_nul :
  str_run (str_new FReloc 1) [SNul] = [ON 0] /\
  str_run (str_new FPoly 1) [SPush 97; SNul] = [OUnit; ON 0] /\
  str_run (str_new FReloc 1) [SPush 97; SNul] = [OUnit; ON 0].
Proof. repeat split; reflexivity. Qed.

Theorem str_refines_refuted : ~ str_refines_full.
Proof.
  intros H. specialize (H FPoly 1 [SPush 97; SRetain [97]; SBytes]).
  destruct str_retain_witness as (E1 & E2). rewrite E1, E2 in H. discriminate.
Qed.
