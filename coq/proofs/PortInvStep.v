(* Every operation of the history alphabet preserves the world invariant; every reachable world
   satisfies it. *)
From V Require Import model.Base model.Conn model.Port proofs.ListLemmas proofs.ConnProofs proofs.PortProofs proofs.PortView proofs.PortInv
  proofs.PortInvPub proofs.PortInvSub proofs.PortInvLife.
From Coq Require Import Lia.
Local Open Scope nat_scope.

Lemma sub_live_sact w s : sub_live w s = true -> sact w s.
Proof. unfold sub_live. intros H. apply Bool.andb_true_iff in H as [_ H]. exact H. Qed.
Lemma pub_live_pact w p : pub_live w p = true -> pact w p.
Proof. unfold pub_live. intros H. apply Bool.andb_true_iff in H as [_ H]. exact H. Qed.

Lemma SubSide_of_SubStep s w w' : SubStep s w w' -> PhiLe w w' -> SubSide w w'.
Proof.
  intros S P. constructor; try apply S; auto.
  intros t. destruct (Nat.eq_dec t s) as [->|Hne]; [apply (ss_buf _ _ _ S)|now rewrite (ss_other _ _ _ S)].
Qed.

Lemma SubSide_of_SubOK' s w w' : SubOK' s w w' -> SubSide w w'.
Proof.
  intros (I' & Ph & E1 & E2 & E3 & E4 & E5 & E6 & E7 & Go & A1 & A2 & A3 & A4 & Gc & T & Al).
  constructor; auto. intros t. destruct (Nat.eq_dec t s) as [->|Hne]; [exact A3|now rewrite Go].
Qed.

(* the handler's actions *)
Lemma run_hacts_ok : HxOK run_hacts.
Proof.
  unfold HxOK. intros w s acts. revert w. induction acts as [|a t IH]; intros w w' tr IR Hv; cbn [run_hacts] in Hv.
  - inversion Hv; subst. split; [exact IR|apply SubSide_refl].
  - destruct a.
    + destruct (find (fun x => Nat.eqb (x_sub x) s) (w_samples w)) as [x|] eqn:Ef.
      * apply find_some in Ef as [Hx _].
        destruct (sample_drop w x) as [w1|] eqn:E1; [|discriminate]. cbn [rbind] in Hv.
        destruct (run_hacts w1 s t) as [[w2 tr2]|] eqn:E2; [|discriminate]. cbn [rbind fst snd] in Hv. inversion Hv; subst w' tr.
        pose proof (sample_drop_ok w x w1 (proj1 IR) Hx E1) as O.
        destruct (IH w1 w2 tr2 (SubOK'_InvR _ _ _ IR O) E2) as [IR2 S2].
        split; [exact IR2|]. eapply SubSide_trans; [eapply SubSide_of_SubOK'; eauto|exact S2].
      * destruct (run_hacts w s t) as [[w2 tr2]|] eqn:E2; [|discriminate]. cbn [rbind fst snd] in Hv. inversion Hv; subst w' tr.
        eapply IH; eauto.
    + destruct (sub_live w s) eqn:El.
      * destruct (sub_receive w s) as [[w1 rx]|] eqn:E1; [|discriminate]. cbn [rbind] in Hv.
        destruct (run_hacts w1 s t) as [[w2 tr2]|] eqn:E2; [|discriminate]. cbn [rbind fst snd] in Hv. inversion Hv; subst w' tr.
        pose proof IR as (I & RP & RS & TB). apply sub_live_sact in El. pose proof (iv_act_alive _ _ I s El) as Ha.
        pose proof (sub_receive_ok w s w1 rx I RP Ha (TB s Ha) E1) as O.
        destruct (IH w1 w2 tr2 (SubOK_InvR _ _ _ IR Ha O) E2) as [IR2 S2].
        split; [exact IR2|]. eapply SubSide_trans; [|exact S2]. destruct O as (_ & St & Ph & _). eapply SubSide_of_SubStep; eauto.
      * destruct (run_hacts w s t) as [[w2 tr2]|] eqn:E2; [|discriminate]. cbn [rbind fst snd] in Hv. inversion Hv; subst w' tr.
        eapply IH; eauto.
Qed.

(* ---------------------------------------------------------------------------------------- *)
(* loan / send / exhaustion probe                                                            *)
(* ---------------------------------------------------------------------------------------- *)
Lemma pub_allocate_ok w p w1 r :
  InvR w -> pact w p -> pub_allocate w p = Val (w1, r) ->
  match r with
  | AErr _ => InvR w1 /\ w_loans w1 = w_loans w /\ w_nloan w1 = w_nloan w
  | AOk o => InvR (record_loan w1 p o) /\ w_loans w1 = w_loans w /\ w_nloan w1 = w_nloan w
  end.
Proof.
  intros IR Hp Hv. pose proof IR as (I & _). unfold pub_allocate in Hv.
  destruct (pub_retrieve_ok _ p w I Hp) as (I1 & Q1 & L1 & L1' & _).
  set (w0 := pub_retrieve w p) in *.
  assert (IR0 : InvR w0) by (eapply InvR_of_quiet; eauto).
  assert (Hp0 : pact w0 p) by (apply (PubStep_pact _ _ _ _ (pq_step _ _ _ Q1)); exact Hp).
  destruct r as [o|e].
  - destruct (alloc_record_ok _ w0 p w1 o I1 Hp0 Hv) as [I2 S2].
    split; [eapply InvR_of_step; eauto|].
    unfold pub_allocate_core in Hv. destruct (Nat.leb _ _); [discriminate|]. destruct (p_free (getp w0 p)); [discriminate|].
    destruct (pub_borrow _ _) as [x1 old]. destruct (negb _); [discriminate|]. inversion Hv; subst. cbn. auto.
  - assert (w1 = w0); [|subst w1; auto].
    unfold pub_allocate_core in Hv. destruct (Nat.leb _ _); [now inversion Hv|]. destruct (p_free (getp w0 p)); [now inversion Hv|].
    destruct (pub_borrow _ _) as [x1 old]. destruct (negb _); discriminate.
Qed.

Lemma do_loan_ok w p w' ob : InvR w -> pact w p -> do_loan w p = Val (w', ob) -> InvR w'.
Proof.
  intros IR Hp Hv. unfold do_loan in Hv.
  destruct (pub_allocate w p) as [[w1 r]|] eqn:Ea; [|discriminate]. cbn [rbind] in Hv.
  pose proof (pub_allocate_ok w p w1 r IR Hp Ea) as O. destruct r as [o|e].
  - inversion Hv; subst w' ob. clear Hv. destruct O as (IR1 & _).
    change (InvR (pub_write (record_loan w1 p o) p o)).
    destruct (pub_write_ok _ (record_loan w1 p o) p o (proj1 IR1)) as (I2 & Q2 & _).
    eapply InvR_of_quiet; eauto.
  - inversion Hv; subst. apply O.
Qed.

Lemma find_loan_in w id l : find_loan w id = Some l -> In l (w_loans w) /\ l_id l = id.
Proof. unfold find_loan. intros H. apply find_some in H as [A B]. apply Nat.eqb_eq in B. auto. Qed.

Lemma in_loans_of w l : In l (w_loans w) -> In (l_off l) (loans_of w (l_pub l)).
Proof.
  intros H. unfold loans_of. apply in_map. apply filter_In. split; [exact H|apply Nat.eqb_refl].
Qed.

Lemma do_send_ok w l w' ob : InvR w -> In l (w_loans w) -> do_send w l = Val (w', ob) -> InvR w'.
Proof.
  intros IR Hin Hv. unfold do_send in Hv.
  destruct (pub_send_sample run_hacts w (l_pub l) (l_off l)) as [[[w1 sr] tr]|] eqn:Es; [|discriminate]. cbn [rbind] in Hv.
  destruct (pub_send_sample_ok _ _ _ _ _ _ _ run_hacts_ok IR (in_loans_of _ _ Hin) Es) as (IR1 & L1 & _).
  assert (Hin1 : In l (w_loans w1)) by now rewrite L1.
  destruct sr; inversion Hv; subst; auto; now apply loan_drop_ok.
Qed.

Lemma w_loans_loan_drop w l :
  w_loans (loan_drop w l) = filter (fun y => negb (Nat.eqb (l_id y) (l_id l))) (w_loans w).
Proof.
  unfold loan_drop. cbn zeta.
  set (w1 := rm_loan (pub_return_loan w (l_pub l) (l_off l)) (l_id l)).
  assert (E : w_loans (pub_maybe_drop_state w1 (l_pub l)) = w_loans w1).
  { unfold pub_maybe_drop_state. cbn zeta. destruct (_ && _ && _); [|reflexivity].
    destruct (pub_detach_all_step (l_pub l) (p_tab (getp w1 (l_pub l))) w1) as (_ & _ & _ & A & _). cbn zeta in A. cbn. exact A. }
  rewrite E. reflexivity.
Qed.

Lemma drop_all_ok : forall ls w,
  InvR w -> NoDup (map l_id ls) -> incl ls (w_loans w) -> InvR (fold_left loan_drop ls w).
Proof.
  induction ls as [|l ls IH]; intros w IR Hnd Hin; cbn [fold_left]; [exact IR|].
  cbn [map] in Hnd. inversion Hnd as [|? ? Hni Hnd']; subst.
  apply IH; [apply loan_drop_ok; [exact IR|apply Hin; now left]|exact Hnd'|].
  intros l' Hl'. rewrite w_loans_loan_drop. apply filter_In. split; [apply Hin; now right|].
  apply Bool.negb_true_iff, Nat.eqb_neq. intros E. apply Hni. rewrite <- E. now apply in_map.
Qed.

Lemma exhaust_loans_ok p : forall fuel w acc w' ls e,
  InvR w -> pact w p -> NoDup (map l_id acc) -> incl acc (w_loans w) ->
  exhaust_loans fuel w p acc = Val (w', ls, e) ->
  InvR w' /\ NoDup (map l_id ls) /\ incl ls (w_loans w').
Proof.
  induction fuel as [|f IH]; intros w acc w' ls e IR Hp Hnd Hin Hv; cbn [exhaust_loans] in Hv.
  - inversion Hv; subst. auto.
  - destruct (pub_allocate w p) as [[w1 r]|] eqn:Ea; [|discriminate]. cbn [rbind] in Hv.
    pose proof (pub_allocate_ok w p w1 r IR Hp Ea) as O. destruct r as [o|e0].
    + destruct O as (IR1 & L1 & L1').
      eapply (IH (record_loan w1 p o)); [exact IR1| | | |exact Hv].
      * unfold pact. change (getp (record_loan w1 p o) p) with (getp w1 p).
        unfold pub_allocate, pub_allocate_core in Ea.
        destruct (Nat.leb _ _); [discriminate|]. destruct (p_free _); [discriminate|].
        destruct (pub_borrow _ _) as [x1 old] eqn:Eb. destruct (negb _); [discriminate|]. inversion Ea; subst.
        pose proof IR as (I & _). destruct (pub_retrieve_ok _ p w I Hp) as (_ & Q1 & _).
        assert (Hl : p < length (w_pubs (pub_retrieve w p))) by (rewrite (ps_len _ _ _ (pq_step _ _ _ Q1)); now apply pact_lt).
        rewrite getp_setp_same by exact Hl. cbn. unfold pub_borrow in Eb. inversion Eb; subst. cbn.
        rewrite (ps_active _ _ _ (pq_step _ _ _ Q1)). exact Hp.
      * cbn [map l_id]. constructor; [|exact Hnd]. intros Hi. apply in_map_iff in Hi as [l' [E Hl']].
        apply Hin in Hl'. pose proof IR as (I & _). destruct (iv_loan_ids _ _ I) as [_ Hlt]. apply Hlt in Hl'. rewrite L1' in E. lia.
      * intros l' [<-|Hl']; unfold record_loan; cbn [w_loans w_set_loans]; apply in_or_app; [right; now left|left]. rewrite L1. now apply Hin.
    + inversion Hv; subst. destruct O as (IR1 & L1 & _). splits; auto. now rewrite L1.
Qed.

(* ---------------------------------------------------------------------------------------- *)
(* every operation                                                                           *)
(* ---------------------------------------------------------------------------------------- *)
Theorem step_ok w o w' ob : InvR w -> step w o = Val (w', ob) -> InvR w'.
Proof.
  intros IR Hv. pose proof IR as (I & RP & RS & TB). destruct o; cbn [step] in Hv.
  - (* OPubCreate *)
    destruct (pub_create w l retry h) as [[w1 r]|] eqn:E; [|discriminate]. cbn [rbind fst] in Hv. inversion Hv; subst.
    eapply pub_create_ok; eauto.
  - (* OPubDrop *)
    destruct (pub_live w p) eqn:El; inversion Hv; subst; [|exact IR]. apply pub_drop_ok; [exact IR|now apply pub_live_pact].
  - (* OSubCreate *)
    destruct (sub_create w buf hreq) as [[w1 r]|] eqn:E; [|discriminate]. cbn [rbind fst] in Hv. inversion Hv; subst.
    eapply sub_create_ok; eauto.
  - (* OSubDrop *)
    destruct (sub_live w s) eqn:El; inversion Hv; subst; [|exact IR]. apply sub_drop_ok; [exact IR|now apply sub_live_sact].
  - (* OLoan *)
    destruct (pub_live w p) eqn:El; [|inversion Hv; subst; exact IR]. eapply do_loan_ok; eauto. now apply pub_live_pact.
  - (* OWrite *)
    destruct (find_loan w l) as [ln|] eqn:Ef; inversion Hv; subst; [|exact IR].
    destruct (pub_write_ok _ w (l_pub ln) (l_off ln) I) as (I2 & Q2 & _). eapply InvR_of_quiet; eauto.
  - (* OSend *)
    destruct (find_loan w l) as [ln|] eqn:Ef; [|inversion Hv; subst; exact IR].
    eapply do_send_ok; eauto. now apply find_loan_in in Ef.
  - (* OLoanDrop *)
    destruct (find_loan w l) as [ln|] eqn:Ef; inversion Hv; subst; [|exact IR].
    apply loan_drop_ok; [exact IR|now apply find_loan_in in Ef].
  - (* OSendCopy *)
    destruct (pub_live w p) eqn:El; [|inversion Hv; subst; exact IR].
    destruct (do_loan w p) as [[w1 ob1]|] eqn:E1; [|discriminate]. cbn [rbind] in Hv.
    pose proof (do_loan_ok w p w1 ob1 IR (pub_live_pact _ _ El) E1) as IR1.
    destruct ob1; try (inversion Hv; subst; exact IR1).
    destruct (find_loan w1 id) as [ln|] eqn:Ef; [|inversion Hv; subst; exact IR1].
    eapply do_send_ok; [exact IR1| |exact Hv]. now apply find_loan_in in Ef.
  - (* ORecv *)
    destruct (sub_live w s) eqn:El; [|inversion Hv; subst; exact IR].
    destruct (sub_receive w s) as [[w1 rx]|] eqn:E1; [|discriminate]. cbn [rbind] in Hv.
    apply sub_live_sact in El. pose proof (iv_act_alive _ _ I s El) as Ha.
    pose proof (SubOK_InvR _ _ _ IR Ha (sub_receive_ok w s w1 rx I RP Ha (TB s Ha) E1)) as IR1.
    destruct rx; inversion Hv; subst; exact IR1.
  - (* OSampleDrop *)
    destruct (find (fun y => Nat.eqb (x_id y) x) (w_samples w)) as [sm|] eqn:Ef; [|inversion Hv; subst; exact IR].
    apply find_some in Ef as [Hx _].
    destruct (sample_drop w sm) as [w1|] eqn:E1; [|discriminate]. cbn [rbind] in Hv. inversion Hv; subst.
    eapply SubOK'_InvR; [exact IR|eapply sample_drop_ok; eauto].
  - (* OHasSamples *)
    destruct (sub_live w s) eqn:El; [|inversion Hv; subst; exact IR].
    destruct (sub_has_samples w s) as [[w1 b]|] eqn:E1; [|discriminate]. cbn [rbind fst] in Hv. inversion Hv; subst.
    apply sub_live_sact in El. pose proof (iv_act_alive _ _ I s El) as Ha.
    exact (SubOK_InvR _ _ _ IR Ha (sub_has_samples_ok w s w' b I RP Ha (TB s Ha) E1)).
  - (* OPubUpdate *)
    destruct (pub_live w p) eqn:El; [|inversion Hv; subst; exact IR].
    destruct (pub_update_connections w p) as [w1|] eqn:E1; [|discriminate]. cbn [rbind] in Hv. inversion Hv; subst.
    destruct (pub_update_connections_ok _ w p w' I RS (pub_live_pact _ _ El) E1) as (I1 & S1 & _).
    eapply InvR_of_step; eauto.
  - (* OSubUpdate *)
    destruct (sub_live w s) eqn:El; [|inversion Hv; subst; exact IR].
    destruct (sub_update_connections w s) as [w1|] eqn:E1; [|discriminate]. cbn [rbind] in Hv. inversion Hv; subst.
    apply sub_live_sact in El. pose proof (iv_act_alive _ _ I s El) as Ha.
    exact (SubOK_InvR _ _ _ IR Ha (sub_update_connections_ok w s w' I RP Ha (TB s Ha) E1)).
  - (* OExhaust *)
    destruct (pub_live w p) eqn:El; [|inversion Hv; subst; exact IR].
    destruct (exhaust_loans (S (p_n (getp w p))) w p []) as [[[w1 ls] e]|] eqn:E1; [|discriminate]. cbn [rbind] in Hv. inversion Hv; subst.
    destruct (exhaust_loans_ok p _ w [] w1 ls e IR (pub_live_pact _ _ El) ltac:(constructor) ltac:(intros ? []) E1) as (IR1 & Hnd & Hin).
    now apply drop_all_ok.
  - (* OFiles *)
    inversion Hv; subst; exact IR.
Qed.

(* base case *)
Definition cfg_fits (c : config) : Prop :=
  (N.of_nat (Nat.max 1 (cf_S c)) + N.of_nat (cf_H c) + 4 < MAX64)%N.

Lemma world_new_ok c : cfg_fits c -> InvR (world_new c).
Proof.
  intros Hf.
  assert (Dp : forall q, getp (world_new c) q = pub_dead) by (intros [|q]; reflexivity).
  assert (Ds : forall q, gets (world_new c) q = sub_dead) by (intros [|q]; reflexivity).
  assert (Np : forall q, ~ pact (world_new c) q) by (intros q; unfold pact; rewrite Dp; discriminate).
  assert (Ns : forall q, ~ sact (world_new c) q) by (intros q; unfold sact; rewrite Ds; discriminate).
  assert (Na : forall q, ~ salive (world_new c) q) by (intros q; unfold salive; rewrite Ds; discriminate).
  assert (Rn : forall A n i, nth i (repeat (@None A) n) None = None).
  { intros A n i. destruct (Nat.lt_ge_cases i n); [now apply nth_repeat'|]. apply nth_overflow. now rewrite repeat_length. }
  split; [|split; [|split]].
  - constructor; cbn [world_new w_cfg w_preg w_sreg r_slots w_samples w_loans w_nsample w_nloan w_pubs w_subs];
      try (intros; contradiction); try (intros; exfalso; eapply Np; eassumption); try (intros; exfalso; eapply Na; eassumption);
      try (intros; exfalso; eapply Ns; eassumption).
    + unfold cfg_sane, adjust. cbn [cf_S cf_P cf_B cf_M cf_H]. splits; try apply Nat.le_max_l. exact Hf.
    + apply repeat_length.
    + apply repeat_length.
    + intros i d Hd. rewrite Rn in Hd. discriminate.
    + intros i d Hd. rewrite Rn in Hd. discriminate.
    + split; [constructor|intros ? []].
    + split; [constructor|intros ? []].
    + intros p s c0 Hc. discriminate.
    + intros p s c0 Hc. discriminate.
  - intros p Hp. exfalso. eapply Np; eauto.
  - intros s Hs. exfalso. eapply Ns; eauto.
  - intros s Hs. exfalso. eapply Na; eauto.
Qed.

Lemma run_ok : forall h w w' obs, InvR w -> run w h = Val (w', obs) -> InvR w'.
Proof.
  induction h as [|o h IH]; intros w w' obs IR Hv; cbn [run] in Hv.
  - inversion Hv; subst. exact IR.
  - destruct (step w o) as [[w1 ob]|] eqn:Es; [|discriminate].
    destruct (run w1 h) as [[w2 obs2]|] eqn:Er; [|discriminate]. inversion Hv; subst.
    eapply IH; [eapply step_ok; eauto|exact Er].
Qed.

Theorem reachable_InvR c w : cfg_fits c -> reachable c w -> InvR w.
Proof. intros Hf (h & obs & Hr). eapply run_ok; [apply world_new_ok; exact Hf|exact Hr]. Qed.
