(* C12: the invariant of the sequence-lock step model carries over to the release/acquire view
   model (stale loads and stale failed compare-exchanges of write_cell), and no byte of a cell
   that is USED (copied by a validated load / overwritten after a validated load) is accessed
   racily. *)
From V Require Import model.Base model.Conc model.Events model.SeqLock model.SeqLockRA
  proofs.ListLemmas proofs.SeqLockProofs.
From Coq Require Import ZifyBool ZifyNat ZifyN.
Open Scope N_scope.

Definition PcView (l : slst) : Prop :=
  match at_pc (ssc l) with
  | RByte w0 w buf i => sfresh l = true /\ w <= sseen l
  | RCas w0 w buf => sfresh l = true /\ w <= sseen l
  | _ => True
  end.

Definition HInv (c : cfg sgst slst) : Prop :=
  let u := sg (fst c) in
  (forall t, 1 <= sseen (snd c t) /\ sseen (snd c t) <= wc u) /\
  (forall t, dchain (sseen (snd c t)) (loads (ssc (snd c t)))) /\
  srace_used (fst c) = false /\
  (forall t, PcView (snd c t)).

Definition SInv (c : cfg sgst slst) : Prop := Inv (proj c) /\ HInv c.

Lemma stale_bounds cur lo k : lo <= cur -> lo <= stale cur lo k /\ stale cur lo k <= cur.
Proof. unfold stale. intros. lia. Qed.

Lemma sinv_init n v0 orc progs : SInv (sinit n v0 orc progs).
Proof.
  split; [exact (inv_init n v0 progs)|].
  unfold HInv, sinit, sg_init, sll_init, PcView; cbn. repeat split; auto; lia.
Qed.

Lemma proj_upd (ls : nat -> slst) t L' t' : ssc (upd_l ls t L' t') = upd_l (fun x => ssc (ls x)) t (ssc L') t'.
Proof.
  destruct (Nat.eq_dec t' t) as [->|Hne]; [now rewrite !upd_l_same|now rewrite !upd_l_other by assumption].
Qed.

Lemma inv_proj_upd u' (ls : nat -> slst) t L' G' :
  sg G' = u' -> Inv (u', upd_l (fun x => ssc (ls x)) t (ssc L')) -> Inv (proj (G', upd_l ls t L')).
Proof.
  intros E [HG HL]. unfold proj; cbn [fst snd] in *. rewrite E. split; [exact HG|].
  intros t'. specialize (HL t'). rewrite <- proj_upd in HL. exact HL.
Qed.

Lemma sc_step_inv (g : sgst) (ls : nat -> slst) t u' s' es :
  Inv (proj (g, ls)) -> lenN (written u') < W64 ->
  fstep t (sg g) (ssc (ls t)) = Some (u', s', es) ->
  Inv (u', upd_l (fun x => ssc (ls x)) t s').
Proof.
  intros HI Hb Hs.
  apply (fstep_inv t (proj (g, ls)) (u', upd_l (fun x => ssc (ls x)) t s') es HI Hb).
  unfold step1, proj; cbn [fst snd]. rewrite Hs. reflexivity.
Qed.

Ltac sfld := cbn [sg soracle srace_used svalidated ssc sseen sapos sfresh set_s set_sg fst snd] in *.

(* a reader (re)starts a copy with a possibly stale value w of write_cell *)
Lemma restart_inv (g : sgst) (ls : nat -> slst) t p w0 w :
  Inv (proj (g, ls)) ->
  1 <= w0 -> w0 <= w -> w <= wc (sg g) -> dchain w0 (loads (ssc (ls t))) ->
  Inv (sg g, upd_l (fun x => ssc (ls x)) t (set_lst (ssc (ls t)) p (r_next w0 w [] 0 (vsize (sg g))))).
Proof.
  intros [HG HL] A B C D. unfold proj in *; cbn [fst snd] in *.
  split; cbn [fst snd]; [exact HG|].
  intros t'. destruct (Nat.eq_dec t' t) as [->|Hne]; [rewrite upd_l_same|rewrite upd_l_other by assumption; apply HL].
  apply (linv_own (sg g) (sg g)); auto; try lia; try apply ext_nil; try apply HL.
  apply pcinv_r_next; auto; try lia.
Qed.

Lemma r_next_cases w0 w buf i n :
  (exists j, r_next w0 w buf i n = RByte w0 w buf j) \/ r_next w0 w buf i n = RCas w0 w buf.
Proof. unfold r_next. destruct (Nat.ltb i n); eauto. Qed.

Ltac code_ords := cbn [s_rload s_rcas s_rcas_fail s_fadd sl_ords_code is_acq is_rel andb acq_view] in *.

Lemma hinv_frame g ls t G' L' :
  HInv (g, ls) -> wc (sg g) <= wc (sg G') -> srace_used G' = false ->
  1 <= sseen L' -> sseen L' <= wc (sg G') -> dchain (sseen L') (loads (ssc L')) -> PcView L' ->
  HInv (G', upd_l ls t L').
Proof.
  intros (H1 & H2 & H3 & H4) Hw Hr A B C D. unfold HInv in *; cbn [fst snd] in *.
  split. { intros t'. destruct (Nat.eq_dec t' t) as [->|Hne]; [rewrite upd_l_same; auto|rewrite upd_l_other by assumption; specialize (H1 t'); lia]. }
  split. { intros t'. destruct (Nat.eq_dec t' t) as [->|Hne]; [rewrite upd_l_same; auto|rewrite upd_l_other by assumption; apply H2]. }
  split; [exact Hr|].
  intros t'. destruct (Nat.eq_dec t' t) as [->|Hne]; [rewrite upd_l_same; auto|rewrite upd_l_other by assumption; apply H4].
Qed.

(* steps of the fine model that touch neither write_cell nor the loads of the stepping thread and
   end outside a copy *)
Lemma lifted_plain (g : sgst) (ls : nat -> slst) t u' s' es :
  SInv (g, ls) -> lenN (written u') < W64 ->
  fstep t (sg g) (ssc (ls t)) = Some (u', s', es) ->
  wc u' = wc (sg g) -> loads s' = loads (ssc (ls t)) ->
  (match at_pc s' with RByte _ _ _ _ | RCas _ _ _ => False | _ => True end) ->
  SInv (set_sg g u' (soracle g) (srace_used g) (svalidated g),
        upd_l ls t (set_s (ls t) s' (sseen (ls t)) (sapos (ls t)) (sfresh (ls t)))).
Proof.
  intros [HI HH] Hb Hs Ew El Hpc.
  split; [eapply inv_proj_upd; [reflexivity|eapply sc_step_inv; eauto]|].
  pose proof HH as (H1 & H2 & H3 & H4). cbn [fst snd] in *.
  apply (hinv_frame g ls t); sfld; auto; try (rewrite Ew; lia); try apply H1.
  - rewrite Ew. apply H1.
  - rewrite El. apply H2.
  - unfold PcView; sfld. destruct (at_pc s'); auto; contradiction.
Qed.

Lemma w_next_not_reader m v w i n : match w_next m v w i n with RByte _ _ _ _ | RCas _ _ _ => False | _ => True end.
Proof. unfold w_next. destruct (Nat.ltb i n); [exact I|]. destruct m; exact I. Qed.

Theorem sstep_inv t c c' e :
  SInv c -> lenN (written (sg (fst c'))) < W64 ->
  step1 (sstep sl_ords_code) t c = Some (c', e) -> SInv c'.
Proof.
  destruct c as [g ls]. intros HS Hb Hs. pose proof HS as [HI HH]. unfold step1 in Hs. cbn [fst snd] in *.
  destruct (sstep sl_ords_code t g (ls t)) as [[[G' L'] e']|] eqn:Est; [|discriminate].
  inversion Hs; subst c' e; clear Hs. cbn [fst] in Hb.
  pose proof HI as [HG HL]. unfold proj in HG, HL; cbn [fst snd] in HG, HL.
  pose proof (HL t) as (HtP & HtL & HtD & Htpc).
  pose proof HH as (H1 & H2 & H3 & H4). cbn [fst snd] in H1, H2, H3, H4.
  pose proof (H4 t) as HtV. unfold PcView in HtV.
  pose proof HG as (Hwc1 & Hlen & Hl0 & Hl1 & HhP & Hcur).
  unfold sstep in Est.
  destruct (at_pc (ssc (ls t))) as [|m v w|m v w i|m v w|w0 w buf i|w0 w buf] eqn:Epc; cbn [PcInv] in Htpc.
  - (* Idle *)
    destruct (prog (ssc (ls t))) as [|o p] eqn:Eprog.
    { unfold lift, fstep in Est. rewrite Epc, Eprog in Est. discriminate. }
    destruct o as [| |v|v|v|].
    6: { (* OLoad: possibly stale *)
      unfold next_choice in Est.
      set (kk := match soracle g with [] => 0 | k :: _ => k end) in *.
      pose proof (stale_bounds (wc (sg g)) (sseen (ls t)) kk (proj2 (H1 t))) as (S1 & S2).
      set (w := stale (wc (sg g)) (sseen (ls t)) kk) in *.
      assert (Hw1 : 1 <= w) by (specialize (H1 t); lia).
      assert (Est' : G' = set_sg g (sg g) (tl (soracle g)) (srace_used g) (svalidated g) /\
                     L' = set_s (ls t) (set_lst (ssc (ls t)) p (r_next w w [] 0 (vsize (sg g)))) w (N.max (sapos (ls t)) w)
                                (N.leb w (N.max (sapos (ls t)) w))).
      { subst kk w. destruct (soracle g) as [|k orc]; cbn [tl] in *; code_ords;
        match type of Est with context [N.eqb ?x 0] => destruct (N.eqb_spec x 0) as [E0|E0]; [lia|] end;
        inversion Est; subst; split; reflexivity. }
      clear Est. destruct Est' as (-> & ->).
      split.
      { eapply inv_proj_upd; [reflexivity|]. cbn [ssc set_s sg set_sg].
        apply restart_inv; auto; try lia. eapply dchain_mono; [|apply H2]. exact S1. }
      apply (hinv_frame g ls t); sfld; auto; try lia.
      - cbn [set_lst loads]. eapply dchain_mono; [|apply H2]. exact S1.
      - unfold PcView; sfld. cbn [set_lst at_pc].
        assert (Hf : N.leb w (N.max (sapos (ls t)) w) = true) by (apply N.leb_le; lia).
        destruct (r_next_cases w w [] 0 (vsize (sg g))) as [[j ->]| ->]; rewrite Hf; split; auto; lia. }
    all: unfold lift in Est; destruct (fstep t (sg g) (ssc (ls t))) as [[[u' s'] es]|] eqn:Eu; [|discriminate];
      inversion Est; subst G' L' e'; clear Est; cbn [sg set_sg] in Hb;
      apply (lifted_plain g ls t u' s' es HS Hb Eu);
      unfold fstep, start_write in Eu; rewrite Epc, Eprog in Eu;
      repeat match type of Eu with context [if ?b then _ else _] => destruct b end;
      inversion Eu; subst; cbn; auto.
  - (* WCell: first access of a write into cell w % 2 *)
    destruct (fstep t (sg g) (ssc (ls t))) as [[[u' s'] es]|] eqn:Eu; [|discriminate].
    inversion Est; subst G' L' e'; clear Est. cbn [sg set_sg] in Hb.
    assert (Hnr : write_racy sl_ords_code g t w = false) by (unfold write_racy; code_ords; reflexivity).
    rewrite Hnr, H3. cbn [orb]. rewrite <- H3.
    apply (lifted_plain g ls t u' s' es HS Hb Eu);
      unfold fstep in Eu; rewrite Epc in Eu; inversion Eu; subst; cbn [set_lst at_pc loads]; auto;
      try apply w_next_not_reader.
  - (* WByte *)
    unfold lift in Est. destruct (fstep t (sg g) (ssc (ls t))) as [[[u' s'] es]|] eqn:Eu; [|discriminate].
    inversion Est; subst G' L' e'; clear Est. cbn [sg set_sg] in Hb.
    apply (lifted_plain g ls t u' s' es HS Hb Eu);
      unfold fstep in Eu; rewrite Epc in Eu; inversion Eu; subst; cbn [set_lst at_pc loads]; auto;
      try (unfold set_cell; destruct (N.eqb _ _); reflexivity); try apply w_next_not_reader.
  - (* WFadd: publication *)
    destruct (fstep t (sg g) (ssc (ls t))) as [[[u' s'] es]|] eqn:Eu; [|discriminate].
    inversion Est; subst G' L' e'; clear Est. cbn [sg set_sg] in Hb.
    pose proof (sc_step_inv g ls t u' s' es HI Hb Eu) as HI'.
    unfold fstep in Eu. rewrite Epc in Eu. inversion Eu; subst u' s' es; clear Eu.
    assert (Hb' : wc (sg g) + 1 < W64).
    { cbn [publish written] in Hb. rewrite lenN_app in Hb. unfold lenN in Hb at 2. cbn [length] in Hb. lia. }
    assert (Ewc : (wc (sg g) + 1) mod W64 = wc (sg g) + 1) by (apply N.mod_small; exact Hb').
    split; [eapply inv_proj_upd; [reflexivity|exact HI']|].
    apply (hinv_frame g ls t); sfld; cbn [publish wc set_lst loads at_pc]; auto; try (rewrite Ewc; lia).
    rewrite Ewc. eapply dchain_mono; [|apply H2]. specialize (H1 t). lia.
  - (* RByte *)
    unfold lift in Est. destruct (fstep t (sg g) (ssc (ls t))) as [[[u' s'] es]|] eqn:Eu; [|discriminate].
    inversion Est; subst G' L' e'; clear Est. cbn [sg set_sg] in Hb.
    pose proof (sc_step_inv g ls t u' s' es HI Hb Eu) as HI'.
    unfold fstep in Eu. rewrite Epc in Eu. inversion Eu; subst u' s' es; clear Eu.
    split; [eapply inv_proj_upd; [reflexivity|exact HI']|].
    apply (hinv_frame g ls t); sfld; cbn [set_lst loads at_pc]; auto; try lia; try apply H1; try apply H2.
    unfold PcView; sfld. cbn [set_lst at_pc].
    destruct (r_next_cases w0 w (buf ++ [nth i (cellv (sg g) (w - 1)) 0]) (S i) (vsize (sg g))) as [[j ->]| ->]; exact HtV.
  - (* RCas *)
    destruct Htpc as (A & B & C & F & K). destruct HtV as (Hfresh & Hseen).
    destruct (N.eqb_spec (wc (sg g)) w) as [Ew|Ew].
    + (* validated *)
      destruct (fstep t (sg g) (ssc (ls t))) as [[[u' s'] es]|] eqn:Eu; [|discriminate].
      inversion Est; subst G' L' e'; clear Est. cbn [sg set_sg] in Hb.
      pose proof (sc_step_inv g ls t u' s' es HI Hb Eu) as HI'.
      unfold fstep in Eu. rewrite Epc in Eu. destruct (N.eqb_spec (wc (sg g)) w) as [_|Hc]; [|contradiction].
      inversion Eu; subst u' s' es; clear Eu.
      split; [eapply inv_proj_upd; [reflexivity|exact HI']|].
      apply (hinv_frame g ls t); sfld; cbn [loads at_pc]; auto; try lia.
      * cbn [dchain]. repeat split; auto; lia.
      * unfold PcView; sfld. cbn [at_pc]. exact I.
    + (* lost against a publication: possibly stale re-read *)
      unfold next_choice in Est.
      set (kk := match soracle g with [] => 0 | k :: _ => k end) in *.
      assert (Hlo : N.max (sseen (ls t)) (w + 1) <= wc (sg g)) by (specialize (H1 t); lia).
      pose proof (stale_bounds (wc (sg g)) _ kk Hlo) as (S1 & S2).
      set (v := stale (wc (sg g)) (N.max (sseen (ls t)) (w + 1)) kk) in *.
      assert (Est' : G' = set_sg g (sg g) (tl (soracle g)) (srace_used g) (svalidated g) /\
                     L' = set_s (ls t) (set_lst (ssc (ls t)) (prog (ssc (ls t))) (r_next w0 v [] 0 (vsize (sg g)))) v
                                (N.max (sapos (ls t)) v) (N.leb v (N.max (sapos (ls t)) v))).
      { subst kk v. destruct (soracle g) as [|k orc]; cbn [tl] in *; code_ords;
        match type of Est with context [N.eqb ?x 0] => destruct (N.eqb_spec x 0) as [E0|E0]; [lia|] end;
        inversion Est; subst; split; reflexivity. }
      clear Est. destruct Est' as (-> & ->).
      split.
      { eapply inv_proj_upd; [reflexivity|]. cbn [ssc set_s sg set_sg]. apply restart_inv; auto; lia. }
      apply (hinv_frame g ls t); sfld; auto; try lia.
      * cbn [set_lst loads]. eapply dchain_mono; [|apply H2]. lia.
      * unfold PcView; sfld. cbn [set_lst at_pc].
        assert (Hf : N.leb v (N.max (sapos (ls t)) v) = true) by (apply N.leb_le; lia).
        destruct (r_next_cases w0 v [] 0 (vsize (sg g))) as [[j ->]| ->]; rewrite Hf; split; auto; lia.
Qed.

(* ---------------- every reachable state within the 2^64 bound ---------------- *)
Lemma sstep_written_grows Q t g l g' l' e :
  sstep Q t g l = Some (g', l', e) -> exists ext, written (sg g') = written (sg g) ++ ext.
Proof.
  unfold sstep, lift, next_choice. intros H.
  repeat match type of H with
  | context [fstep ?a ?b ?c] => let E := fresh "E" in destruct (fstep a b c) as [[[? ?] ?]|] eqn:E; [apply fstep_written_grows in E|]
  | context [match ?x with _ => _ end] => destruct x
  | context [let '(_, _) := ?x in _] => destruct x
  end; inversion H; subst; cbn [sg set_sg]; auto; try (exists []; now rewrite app_nil_r).
Qed.

Definition SBounded (c : cfg sgst slst) : Prop := lenN (written (sg (fst c))) < W64.

Lemma sstep1_bounded Q t c c' e : step1 (sstep Q) t c = Some (c', e) -> SBounded c' -> SBounded c.
Proof.
  destruct c as [g ls]. unfold step1, SBounded. cbn [fst snd].
  destruct (sstep Q t g (ls t)) as [[[g' l'] e']|] eqn:E; [|discriminate].
  intros H; inversion H; subst; clear H. cbn [fst].
  destruct (sstep_written_grows _ _ _ _ _ _ _ E) as [ext ->]. rewrite lenN_app. lia.
Qed.

Theorem slra_inv_reach n v0 orc progs c :
  reachable (sstep sl_ords_code) (sinit n v0 orc progs) c -> SBounded c -> SInv c.
Proof.
  apply (inv_reachable sgst slst ev (sstep sl_ords_code) (fun c => SBounded c -> SInv c)).
  - intros _. apply sinv_init.
  - intros t c0 c' e HI Hs Hb. eapply sstep_inv; eauto. apply HI. eapply sstep1_bounded; eauto.
Qed.

(* With the orderings of the code, under release/acquire semantics with arbitrarily stale reads
   of write_cell (loads and failed compare-exchanges): no byte that is used is accessed racily,
   every load that returns yields exactly the image its validated write_cell value designates,
   and the validated values of a thread never decrease -- for every value size, any number of
   threads, every schedule and every oracle (within the 2^64 bound of the counter). *)
Theorem slra_atomic_monotone_used_race_free n v0 orc progs g ls :
  reachable (sstep sl_ords_code) (sinit n v0 orc progs) (g, ls) -> lenN (written (sg g)) < W64 ->
  srace_used g = false /\
  (forall t w0 w v, In (w0, w, v) (loads (ssc (ls t))) ->
     1 <= w /\ nth_error (written (sg g)) (N.to_nat (w - 1)) = Some v) /\
  (forall t, dchain (wc (sg g)) (loads (ssc (ls t)))).
Proof.
  intros Hr Hb. destruct (slra_inv_reach _ _ _ _ _ Hr Hb) as [[HG HL] HH].
  unfold proj in *; cbn [fst snd] in *. destruct HH as (_ & _ & Hrace & _).
  split; [exact Hrace|]. split.
  - intros t w0 w v Hin. destruct (HL t) as (_ & Hok & _). unfold loads_ok in Hok. rewrite Forall_forall in Hok.
    apply (Hok _ Hin).
  - intros t. destruct (HL t) as (_ & _ & Hd & _). exact Hd.
Qed.

(* ---- the orderings are necessary; the third line is the table before the repair 0bff03d ---- *)
Definition sl_weak_load : sords := {| s_rload := Relaxed; s_rcas := AcqRel; s_rcas_fail := SeqCst; s_fadd := AcqRel |}.
Definition sl_weak_fail : sords := {| s_rload := Acquire; s_rcas := AcqRel; s_rcas_fail := Relaxed; s_fadd := AcqRel |}.
Definition sl_fadd_release_only : sords := {| s_rload := Acquire; s_rcas := AcqRel; s_rcas_fail := SeqCst; s_fadd := Release |}.
Definition sl_weak_cas : sords := {| s_rload := Acquire; s_rcas := Acquire; s_rcas_fail := SeqCst; s_fadd := AcqRel |}.
Definition sl_fadd_acquire_only : sords := {| s_rload := Acquire; s_rcas := AcqRel; s_rcas_fail := SeqCst; s_fadd := Acquire |}.
Definition ra_progs (t : nat) : list sop :=
  match t with O => [OAcq; OStore [7]; OStore [8]; OStore [9]] | S O => [OLoad] | _ => [] end.
(* store 7; a load validates at 2; store 8; store 9 starts to overwrite the cell the load copied *)
Definition ra_sched : list nat := [0; 0;0;0;0; 1;1;1; 0;0;0;0; 0;0]%nat.
(* the load starts, loses its compare-exchange against store 7 and validates on the retry *)
Definition ra_sched_fail : list nat := [0; 1;1; 0;0;0;0; 1; 1;1]%nat.
Definition used_race_after (Q : sords) (s : list nat) : bool :=
  srace_used (fst (fst (run (sstep Q) s (sinit 1 [5] [] ra_progs)))).
Example slra_orderings_necessary :
  used_race_after sl_weak_load ra_sched = true /\
  used_race_after sl_fadd_acquire_only ra_sched = true /\
  used_race_after sl_fadd_release_only ra_sched = true /\
  used_race_after sl_weak_cas ra_sched = true /\
  used_race_after sl_weak_fail ra_sched_fail = true /\
  used_race_after sl_ords_code ra_sched = false /\
  used_race_after sl_ords_code ra_sched_fail = false.
Proof. vm_compute. repeat split. Qed.

(* non-vacuity: a reachable state in which a stale load happened (the reader saw write_cell = 1
   although it was 2, lost its compare-exchange and validated 2 on the retry) *)
Example slra_nonvacuous_stale :
  let c := fst (run (sstep sl_ords_code) [0; 0;0;0;0; 1;1;1; 1;1]%nat (sinit 1 [5] [5] ra_progs)) in
  loads (ssc (snd c 1%nat)) = [(1, 2, [7])] /\ srace_used (fst c) = false /\ wc (sg (fst c)) = 2.
Proof. vm_compute. repeat split. Qed.
