(* C14 -- the queue image stays inside its block: for every operation list on an initialised
   image (payload right behind the header) every access of the unrelocated run lies in
   [h, h + HDR_WORDS + capacity).  This discharges the side condition of iq_reloc_split. *)
From V Require Import model.Base model.RingQueue model.RelPtr proofs.RelPtrProofs.
From Coq Require Import ZifyBool ZifyNat ZifyN.
Open Scope Z_scope.

Lemma exec_bind : forall A B (p : prog A) (f : A -> prog B) h m,
  exec h m (bind p f) = exec h (fst (exec h m p)) (f (snd (exec h m p))).
Proof.
  induction p as [a|a k IH|a v k IH]; intros f h m; cbn [bind exec fst snd]; auto.
Qed.

Lemma safe_bind : forall P A B (p : prog A) (f : A -> prog B) h m,
  safe P h m p -> safe P h (fst (exec h m p)) (f (snd (exec h m p))) -> safe P h m (bind p f).
Proof.
  induction p as [a|a k IH|a v k IH]; intros f h m Hp Hf; cbn [bind exec safe fst snd] in *; auto.
  - destruct Hp as (H1 & H2 & H3). repeat split; auto.
  - destruct Hp as (H1 & H2 & H3). repeat split; auto.
Qed.

Section Q.
Variable h : Z.
Variable c : N.
Definition blk : Z -> Prop := in_block h (HDR_WORDS + Z.of_N c).

(* header words that the operations rely on; the payload cells are unconstrained *)
Definition QInv (m : mem) : Prop :=
  m (h + F_PTR) = HDR_WORDS /\ m (h + F_CAP) = Z.of_N c /\ 0 <= m (h + F_LEN) <= Z.of_N c.

Definition ok {A} (p : prog A) : Prop :=
  forall m, QInv m -> safe blk h m p /\ QInv (fst (exec h m p)).

Lemma ok_bind : forall A B (p : prog A) (f : A -> prog B), ok p -> (forall a, ok (f a)) -> ok (bind p f).
Proof.
  intros A B p f Hp Hf m Hm. destruct (Hp m Hm) as (Hs & Hi).
  destruct (Hf (snd (exec h m p)) _ Hi) as (Hs2 & Hi2).
  split; [apply safe_bind; auto|rewrite exec_bind; auto].
Qed.

Lemma ok_ret : forall A (a : A), ok (Ret a).
Proof. intros A a m Hm; cbn; auto. Qed.

Ltac hdr := unfold QInv, blk, in_block, HDR_WORDS, F_PTR, F_START, F_LEN, F_CAP, F_INIT in *.

Ltac modb :=
  repeat match goal with
  | |- context [?a mod ?b] =>
    lazymatch goal with
    | _ : 0 <= a mod b < b |- _ => fail
    | _ => assert (0 <= a mod b < b) by (apply Z.mod_pos_bound; lia)
    end
  end.

Ltac fin :=
  unfold rp_as_ptr, mupd in *;
  repeat match goal with
  | |- context [Z.eqb ?a ?b] => destruct (Z.eqb_spec a b); try lia
  end;
  repeat split; try lia.

Ltac sp := repeat match goal with |- _ /\ _ => split end; auto.
Ltac open_prog := cbn [safe exec fst snd resolve acc_ok bind].

(* unchecked_push is only reached with len < cap *)
Lemma upush_ok : forall v m, QInv m -> m (h + F_LEN) < Z.of_N c ->
  safe blk h m (iq_unchecked_push v) /\ QInv (fst (exec h m (iq_unchecked_push v))) /\
  snd (exec h m (iq_unchecked_push v)) = Val tt.
Proof.
  intros v m Hm Hl. unfold iq_unchecked_push. hdr. destruct Hm as (Hp & Hc & Hlen). open_prog.
  destruct (Z.eqb_spec (m (h + 3)) 0) as [E|E]; [lia|]. open_prog.
  rewrite Hp. modb. fin.
Qed.

Lemma pop_ok : forall m, QInv m ->
  safe blk h m iq_pop /\ QInv (fst (exec h m iq_pop)) /\
  (m (h + F_LEN) <> 0 -> fst (exec h m iq_pop) (h + F_LEN) = m (h + F_LEN) - 1 /\
                          exists x, snd (exec h m iq_pop) = Val x).
Proof.
  intros m Hm. unfold iq_pop. hdr. destruct Hm as (Hp & Hc & Hlen). open_prog.
  destruct (Z.eqb_spec (m (h + 2)) 0) as [E|E]; open_prog; [fin|].
  destruct (Z.eqb_spec (m (h + 3)) 0) as [E2|E2]; [lia|]. open_prog.
  assert (Hpw : mupd m (h + 2) (m (h + 2) - 1) (h + 0) = 5) by (unfold mupd; destruct (Z.eqb_spec (h + 0) (h + 2)); lia).
  rewrite Hpw. modb. split; [fin|]. split; [fin|]. intros _. split; [fin|eauto].
Qed.

Lemma ok_pop : ok iq_pop.
Proof. intros m Hm. destruct (pop_ok m Hm) as (A & B & _). auto. Qed.

Lemma ok_peek : ok iq_peek.
Proof.
  intros m Hm. unfold iq_peek. hdr. destruct Hm as (Hp & Hc & Hlen). open_prog.
  destruct (Z.eqb_spec (m (h + 2)) 0) as [E|E]; open_prog; [fin|].
  destruct (Z.eqb_spec (m (h + 3)) 0) as [E2|E2]; [lia|]. open_prog.
  rewrite Hp. modb. fin.
Qed.

Lemma ok_get : forall i, ok (iq_get i).
Proof.
  intros i m Hm. unfold iq_get. hdr. destruct Hm as (Hp & Hc & Hlen). open_prog.
  destruct (Z.leb_spec (m (h + 2)) (Z.of_N i)) as [E|E]; open_prog; [fin|].
  destruct (Z.eqb_spec (m (h + 3)) 0) as [E2|E2]; [lia|]. open_prog.
  rewrite Hp. modb. fin.
Qed.

Lemma blk_hdr : forall k, 0 <= k < HDR_WORDS -> blk (h + k).
Proof. intros k Hk. hdr. lia. Qed.
Hint Resolve blk_hdr : core.
Lemma blk_len : blk (h + F_LEN). Proof. apply blk_hdr. hdr. lia. Qed.
Lemma blk_cap : blk (h + F_CAP). Proof. apply blk_hdr. hdr. lia. Qed.

Lemma ok_push : forall v, ok (iq_push v).
Proof.
  intros v m Hm. unfold iq_push. open_prog.
  pose proof blk_len as BL. pose proof blk_cap as BC.
  destruct (Z.eqb_spec (m (h + F_LEN)) (m (h + F_CAP))) as [E|E].
  { open_prog. split; [sp|exact Hm]. }
  assert (Hl : m (h + F_LEN) < Z.of_N c). { hdr. destruct Hm as (Hp0 & Hc0 & Hlen0). lia. }
  destruct (upush_ok v m Hm Hl) as (A & B & C).
  split; [sp; apply safe_bind; auto; rewrite C; exact I|].
  rewrite exec_bind, C. cbn [exec fst]. auto.
Qed.

Lemma ok_push_overflow : forall v, ok (iq_push_overflow v).
Proof.
  intros v m Hm. unfold iq_push_overflow. open_prog.
  pose proof blk_len as BL. pose proof blk_cap as BC.
  destruct (Z.eqb_spec (m (h + F_CAP)) 0) as [E0|E0].
  { open_prog. split; [sp|exact Hm]. }
  open_prog.
  destruct (Z.eqb_spec (m (h + F_LEN)) (m (h + F_CAP))) as [E|E].
  - destruct (pop_ok m Hm) as (A & B & C).
    assert (Hn : m (h + F_LEN) <> 0) by lia. destruct (C Hn) as (Hl' & x & Hx).
    assert (Hl : fst (exec h m iq_pop) (h + F_LEN) < Z.of_N c). { hdr. destruct Hm as (Hp0 & Hc0 & Hlen0). lia. }
    destruct (upush_ok v _ B Hl) as (A2 & B2 & C2).
    split.
    + sp. apply safe_bind; auto. rewrite Hx. apply safe_bind; auto. rewrite C2. exact I.
    + rewrite exec_bind, Hx, exec_bind, C2. cbn [exec fst]. auto.
  - assert (Hl : m (h + F_LEN) < Z.of_N c). { hdr. destruct Hm as (Hp0 & Hc0 & Hlen0). lia. }
    destruct (upush_ok v m Hm Hl) as (A & B & C).
    split; [sp; apply safe_bind; auto; rewrite C; exact I|].
    rewrite exec_bind, C. cbn [exec fst]. auto.
Qed.

Lemma ok_clear_fuel : forall f d, ok (iq_clear_fuel f d).
Proof.
  induction f as [|f IH]; intro d; cbn [iq_clear_fuel]; [apply ok_ret|].
  apply ok_bind; [apply ok_pop|]. intros [[x|]|]; auto using ok_ret.
Qed.

Lemma ok_clear : ok iq_clear.
Proof.
  intros m Hm. unfold iq_clear. open_prog.
  destruct (ok_clear_fuel (S (Z.to_nat (m (h + F_LEN)))) [] m Hm) as (A & B).
  pose proof blk_len as BL. sp.
Qed.

Lemma ok_iq_prog : forall o, ok (iq_prog o).
Proof.
  destruct o as [v|v| | |i| |]; cbn [iq_prog];
    try (apply ok_bind; [|intro r; apply ok_ret]).
  - apply ok_push.
  - apply ok_push_overflow.
  - apply ok_pop.
  - apply ok_peek.
  - apply ok_get.
  - apply ok_clear.
  - intros m Hm. open_prog. pose proof blk_len as BL. sp.
Qed.

Lemma safe_run_ok : forall ops m, QInv m -> safe_run blk iq_prog h m ops.
Proof.
  induction ops as [|o t IH]; intros m Hm; cbn [safe_run]; auto.
  destruct (ok_iq_prog o m Hm) as (A & B). split; auto.
Qed.

Lemma QInv_init : forall m0, QInv (iq_init h (h + HDR_WORDS) c m0).
Proof.
  intro m0. unfold QInv, iq_init, rp_init. hdr. unfold mupd.
  repeat match goal with |- context [Z.eqb ?a ?b] => destruct (Z.eqb_spec a b); try lia end;
  try (repeat split; lia).
Qed.
End Q.

Theorem iq_safe_run_init : forall (c : N) h m0 ops,
  safe_run (in_block h (HDR_WORDS + Z.of_N c)) iq_prog h (iq_init h (h + HDR_WORDS) c m0) ops.
Proof. intros c h m0 ops. apply (safe_run_ok h c). apply QInv_init. Qed.
